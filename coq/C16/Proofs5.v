(* C16, part 5: simplex_grid -- the loop body maps a composition to its lexicographic successor. *)
From Coq Require Import ZArith List Bool Lia ZifyBool.
From QE Require Import Base.Num C16.Model.
Import ListNotations.
Open Scope Z_scope.

(* ---------- specification vocabulary ---------- *)
Definition sumZ (l : list Z) : Z := fold_right Z.add 0 l.
Definition nonneg (l : list Z) : Prop := Forall (fun e => 0 <= e) l.

(* lexicographic order (on lists of equal length) *)
Fixpoint lex_lt (a b : list Z) : Prop :=
  match a, b with
  | x :: a', y :: b' => x < y \/ (x = y /\ lex_lt a' b')
  | _, _ => False
  end.

(* loop invariant of simplex_grid: x is a composition with m parts, h-1 is the index of its last
   non-zero entry *)
Definition sg_inv (m : Z) (st : list Z * Z) : Prop :=
  let '(x, h) := st in
  Z.of_nat (length x) = m /\ 1 <= h <= m /\ nonneg x /\
  1 <= zget x (h - 1) /\ (forall j, h <= j < m -> zget x j = 0).

(* ---------- list helpers ---------- *)
Lemma sumZ_cons x l : sumZ (x :: l) = x + sumZ l. Proof. reflexivity. Qed.

Lemma sumZ_app a b : sumZ (a ++ b) = sumZ a + sumZ b.
Proof.
  induction a as [|x a IH]; cbn [app]; rewrite ?sumZ_cons.
  - change (sumZ []) with 0. lia.
  - rewrite IH. lia.
Qed.

Lemma sumZ_repeat0 q : sumZ (repeat 0 q) = 0.
Proof. induction q; cbn [repeat]; rewrite ?sumZ_cons; [reflexivity|lia]. Qed.

Lemma sumZ_nonneg l : nonneg l -> 0 <= sumZ l.
Proof. induction 1; rewrite ?sumZ_cons; [cbn; lia|lia]. Qed.

Lemma nonneg_app a b : nonneg (a ++ b) <-> nonneg a /\ nonneg b.
Proof. apply Forall_app. Qed.

Lemma nonneg_repeat0 q : nonneg (repeat 0 q).
Proof. induction q; constructor; [lia|assumption]. Qed.

Lemma repeat_snoc {A} (a : A) q : a :: repeat a q = repeat a q ++ [a].
Proof. induction q; cbn [repeat app]; [reflexivity|]. f_equal. exact IHq. Qed.

Lemma upd_at l1 : forall e l2 w, upd (l1 ++ e :: l2) (length l1) w = l1 ++ w :: l2.
Proof. induction l1 as [|x l1 IH]; intros; cbn [app length upd]; [reflexivity|]. f_equal. apply IH. Qed.

Lemma nth_at l1 : forall (e : Z) l2 d, nth (length l1) (l1 ++ e :: l2) d = e.
Proof. induction l1 as [|x l1 IH]; intros; cbn [app length nth]; [reflexivity|]. apply IH. Qed.

Lemma all_zero l : (forall j, (j < length l)%nat -> nth j l 0 = 0) -> l = repeat 0 (length l).
Proof.
  induction l as [|x l IH]; intros H; [reflexivity|]. cbn [length repeat]. f_equal.
  - apply (H 0%nat). cbn. lia.
  - apply IH. intros j Hj. apply (H (S j)). cbn. lia.
Qed.

(* ---------- structured form of the loop state ---------- *)
Lemma sg_inv_struct m x h : sg_inv m (x, h) -> 2 <= h ->
  exists pre a v q, x = pre ++ a :: v :: repeat 0 q /\ h = Z.of_nat (length pre) + 2 /\
                    m = h + Z.of_nat q /\ 1 <= v /\ 0 <= a /\ nonneg pre.
Proof.
  intros (Hl & Hh & Hnn & Hv & Hz) H2.
  set (p := Z.to_nat (h - 2)).
  assert (E : x = firstn p x ++ skipn p x) by (symmetry; apply firstn_skipn).
  assert (Lf : length (firstn p x) = p) by (apply firstn_length_le; lia).
  assert (Ls : length (skipn p x) = (length x - p)%nat) by apply skipn_length.
  destruct (skipn p x) as [|a [|v rest]] eqn:Es; cbn [length] in Ls; try lia.
  exists (firstn p x), a, v, (length rest).
  assert (Hnn' : nonneg (firstn p x) /\ nonneg (a :: v :: rest)).
  { apply nonneg_app. rewrite <- E. exact Hnn. }
  destruct Hnn' as [Np Nr].
  assert (Ev : zget x (h - 1) = v).
  { unfold zget. rewrite E. replace (Z.to_nat (h - 1)) with (length (firstn p x ++ [a])) by (rewrite app_length, Lf; cbn; lia).
    replace (firstn p x ++ a :: v :: rest) with ((firstn p x ++ [a]) ++ v :: rest) by (rewrite <- app_assoc; reflexivity).
    apply nth_at. }
  repeat split; try lia.
  - rewrite E at 1. do 3 f_equal. apply all_zero. intros j Hj.
    specialize (Hz (h + Z.of_nat j) ltac:(lia)). unfold zget in Hz. rewrite E in Hz.
    replace (Z.to_nat (h + Z.of_nat j)) with (length (firstn p x) + (2 + j))%nat in Hz by lia.
    rewrite app_nth2_plus in Hz. exact Hz.
  - inversion Nr; subst. lia.
  - exact Np.
Qed.

(* the loop body on the structured form: (.., a, v, 0, .., 0) |-> (.., a+1, 0, .., 0, v-1) *)
Lemma sg_step_struct pre a v q :
  let P := Z.of_nat (length pre) in
  let m := P + 2 + Z.of_nat q in
  sg_step m (pre ++ a :: v :: repeat 0 q, P + 2) =
  (pre ++ (a + 1) :: repeat 0 q ++ [v - 1], if v =? 1 then P + 1 else m).
Proof.
  cbn zeta. unfold sg_step, zget, zupd.
  set (P := Z.of_nat (length pre)). set (m := P + 2 + Z.of_nat q).
  replace (pre ++ a :: v :: repeat 0 q) with ((pre ++ [a]) ++ v :: repeat 0 q) by (rewrite <- app_assoc; reflexivity).
  replace (Z.to_nat (P + 2 - 1)) with (length (pre ++ [a])) by (rewrite app_length; cbn; lia).
  rewrite nth_at, upd_at.
  rewrite (repeat_snoc 0 q).
  replace ((pre ++ [a]) ++ repeat 0 q ++ [0]) with ((pre ++ [a] ++ repeat 0 q) ++ 0 :: [])
    by (rewrite <- !app_assoc; reflexivity).
  replace (Z.to_nat (m - 1)) with (length (pre ++ [a] ++ repeat 0 q))
    by (rewrite !app_length, repeat_length; cbn; lia).
  rewrite upd_at.
  replace ((pre ++ [a] ++ repeat 0 q) ++ [v - 1]) with (pre ++ a :: (repeat 0 q ++ [v - 1]))
    by (rewrite <- !app_assoc; reflexivity).
  replace (Z.to_nat (P + 2 - 1 - 1)) with (length pre) by lia.
  rewrite nth_at, upd_at. replace (P + 2 - 1) with (P + 1) by lia. reflexivity.
Qed.

(* ---------- lexicographic order ---------- *)
Lemma lex_lt_app_pre pre : forall s s', lex_lt (pre ++ s) (pre ++ s') <-> lex_lt s s'.
Proof.
  induction pre as [|p pre IH]; intros s s'; [reflexivity|].
  cbn [app lex_lt]. rewrite IH. intuition lia.
Qed.

Lemma lex_between_pre pre : forall s s' y, length y = length (pre ++ s) ->
  lex_lt (pre ++ s) y -> lex_lt y (pre ++ s') ->
  exists t, y = pre ++ t /\ lex_lt s t /\ lex_lt t s'.
Proof.
  induction pre as [|p pre IH]; intros s s' y Hl H1 H2.
  - exists y. auto.
  - destruct y as [|y0 y]; [cbn in Hl; lia|]. cbn [app lex_lt length] in *.
    assert (y0 = p) by lia. subst y0.
    destruct H1 as [?|[_ H1]]; [lia|]. destruct H2 as [?|[_ H2]]; [lia|].
    destruct (IH s s' y ltac:(lia) H1 H2) as (t & -> & A & B).
    exists t. auto.
Qed.

Lemma no_lex_above_zeros q : forall t, nonneg t -> sumZ t = 0 -> ~ lex_lt (repeat 0 q) t.
Proof.
  induction q as [|q IH]; intros t Hn Hs H; [destruct t; exact H|].
  destruct t as [|c t]; [exact H|]. cbn [repeat lex_lt] in H.
  inversion Hn as [|? ? Hc Hn']; subst. rewrite sumZ_cons in Hs.
  pose proof (sumZ_nonneg t Hn'). destruct H as [H|[H1 H2]]; [lia|].
  apply (IH t Hn' ltac:(lia) H2).
Qed.

Lemma no_lex_above_head v q t : nonneg t -> sumZ t = v -> ~ lex_lt (v :: repeat 0 q) t.
Proof.
  intros Hn Hs H. destruct t as [|c t]; [exact H|]. cbn [lex_lt] in H.
  inversion Hn as [|? ? Hc Hn']; subst. rewrite sumZ_cons in H.
  pose proof (sumZ_nonneg t Hn'). destruct H as [H|[H1 H2]]; [lia|].
  apply (no_lex_above_zeros q t Hn' ltac:(lia) H2).
Qed.

Lemma no_lex_below_tail w : forall q t, nonneg t -> sumZ t = w -> length t = S q ->
  ~ lex_lt t (repeat 0 q ++ [w]).
Proof.
  induction q as [|q IH]; intros t Hn Hs Hl H.
  - destruct t as [|c [|? ?]]; cbn in Hl; try lia. cbn in H, Hs. lia.
  - destruct t as [|c t]; [exact H|]. cbn [repeat app lex_lt] in H.
    pose proof (Forall_inv Hn) as Hc. pose proof (Forall_inv_tail Hn) as Hn'. cbn beta in Hc.
    rewrite sumZ_cons in Hs.
    destruct H as [H|[H1 H2]]; [lia|].
    apply (IH t Hn' ltac:(lia) ltac:(cbn in Hl; lia) H2).
Qed.

(* ---------- the step is the lexicographic successor among compositions ---------- *)
Theorem sg_step_succ m x h : sg_inv m (x, h) -> 2 <= h ->
  let x' := fst (sg_step m (x, h)) in
  sg_inv m (sg_step m (x, h)) /\
  sumZ x' = sumZ x /\
  lex_lt x x' /\
  (forall y, length y = length x -> nonneg y -> sumZ y = sumZ x -> ~ (lex_lt x y /\ lex_lt y x')).
Proof.
  intros Inv H2. destruct (sg_inv_struct m x h Inv H2) as (pre & a & v & q & -> & -> & Hm & Hv & Ha & Hp).
  replace m with (Z.of_nat (length pre) + 2 + Z.of_nat q) by lia.
  pose proof (sg_step_struct pre a v q) as St. cbn zeta in St. rewrite St. cbn [fst]. clear St.
  set (P := Z.of_nat (length pre)) in *.
  split; [|split; [|split]].
  - (* invariant *)
    unfold sg_inv.
    assert (Len : Z.of_nat (length (pre ++ a + 1 :: repeat 0 q ++ [v - 1])) = P + 2 + Z.of_nat q).
    { rewrite !app_length. cbn [length]. rewrite app_length, repeat_length. cbn [length]. lia. }
    assert (NN : nonneg (pre ++ a + 1 :: repeat 0 q ++ [v - 1])).
    { apply nonneg_app. split; [exact Hp|]. constructor; [lia|].
      apply nonneg_app. split; [apply nonneg_repeat0|constructor; [lia|constructor]]. }
    destruct (Z.eqb_spec v 1) as [->|Hv1].
    + repeat split; try assumption; try lia.
      * unfold zget. replace (Z.to_nat (P + 1 - 1)) with (length pre) by lia. rewrite nth_at. lia.
      * intros j Hj. unfold zget.
        replace (Z.to_nat j) with (length pre + (1 + Z.to_nat (j - P - 1)))%nat by lia.
        rewrite app_nth2_plus. cbn [Nat.add nth]. change [1 - 1] with (repeat 0 1).
        rewrite <- repeat_app. apply nth_repeat.
    + repeat split; try assumption; try lia.
      * unfold zget.
        replace (pre ++ a + 1 :: repeat 0 q ++ [v - 1]) with ((pre ++ a + 1 :: repeat 0 q) ++ (v - 1) :: [])
          by (rewrite <- app_assoc; reflexivity).
        replace (Z.to_nat (P + 2 + Z.of_nat q - 1)) with (length (pre ++ a + 1 :: repeat 0 q))
          by (rewrite app_length; cbn [length]; rewrite repeat_length; lia).
        rewrite nth_at. lia.
  - rewrite !sumZ_app, !sumZ_cons, sumZ_app, !sumZ_repeat0. cbn. lia.
  - apply lex_lt_app_pre. cbn [lex_lt]. lia.
  - intros y Hl Hn Hs [B1 B2].
    destruct (lex_between_pre pre _ _ y Hl B1 B2) as (t & -> & T1 & T2).
    apply nonneg_app in Hn. destruct Hn as [_ Hn].
    rewrite !sumZ_app, !sumZ_cons, sumZ_repeat0 in Hs.
    rewrite !app_length in Hl. cbn [length] in Hl. rewrite repeat_length in Hl.
    destruct t as [|b t]; [exact T1|]. cbn [lex_lt] in T1, T2.
    inversion Hn as [|? ? Hb Hn']; subst. rewrite sumZ_cons in Hs. cbn [length] in Hl.
    destruct T1 as [T1|[-> T1]]; destruct T2 as [T2|[E2 T2]]; try lia.
    + apply (no_lex_below_tail (v - 1) q t Hn' ltac:(lia) ltac:(lia) T2).
    + apply (no_lex_above_head v q t Hn' ltac:(lia) T1).
Qed.

(* first row, and what the state looks like initially *)
Lemma zupd_last_repeat0 m n : 1 <= m ->
  zupd (repeat 0 (Z.to_nat m)) (m - 1) n = repeat 0 (Z.to_nat (m - 1)) ++ [n].
Proof.
  intros Hm. unfold zupd. replace (Z.to_nat m) with (S (Z.to_nat (m - 1))) by lia.
  cbn [repeat]. rewrite (repeat_snoc 0). rewrite <- (repeat_length 0 (Z.to_nat (m - 1))) at 2.
  apply upd_at.
Qed.

Theorem simplex_grid_first_row m n rows : 1 <= m -> 1 <= n -> simplex_grid m n = Some rows ->
  exists rest, rows = (repeat 0 (Z.to_nat (m - 1)) ++ [n]) :: rest /\
               sg_inv m (repeat 0 (Z.to_nat (m - 1)) ++ [n], m) /\
               sumZ (repeat 0 (Z.to_nat (m - 1)) ++ [n]) = n.
Proof.
  intros Hm Hn. unfold simplex_grid. destruct (num_compositions_jit m n =? 0); [discriminate|].
  intros E. inversion E; subst. rewrite zupd_last_repeat0 by lia.
  eexists. split; [reflexivity|]. split.
  - unfold sg_inv. rewrite app_length, repeat_length. cbn [length].
    repeat split; try lia.
    + apply nonneg_app. split; [apply nonneg_repeat0|constructor; [lia|constructor]].
    + unfold zget. rewrite <- (repeat_length 0 (Z.to_nat (m - 1))) at 1. rewrite nth_at. lia.
  - rewrite sumZ_app, sumZ_repeat0. cbn. lia.
Qed.

(* C16, part 7: linspace / mlinspace, and overflow-freedom of the int64 rank sum. *)
From Coq Require Import ZArith QArith List Bool Lia Lqa.
From QE Require Import Base.Num C16.Model C16.Model2 C16.Proofs C16.Proofs2 C16.Proofs3.
Import ListNotations.
Open Scope Z_scope.

(* ---------- linspace: shape (every Num instance) ---------- *)
Section LinspaceShape.
Context {T : Type} `{Num T}.

Lemma linspace_length (a b : T) n : 1 <= n -> Z.of_nat (length (linspace a b n)) = n.
Proof.
  intros Hn. unfold linspace. replace (n <=? 0) with false by lia.
  destruct (Z.eqb_spec n 1) as [->|Hn1]; [reflexivity|].
  rewrite app_length, map_length. unfold zrange. rewrite zrange_from_length. cbn [length]. lia.
Qed.

Lemma linspace_nodes_shapes : forall (a b : list T) nums,
  Forall (fun n => 1 <= n) nums -> length a = length nums -> length b = length nums ->
  shapes_of (linspace_nodes a b nums) = nums /\ Forall (fun x => x <> []) (linspace_nodes a b nums).
Proof.
  intros a b nums Hn. revert a b. induction Hn as [|n nums Hn1 _ IH]; intros [|a0 a] [|b0 b] Ha Hb; cbn in Ha, Hb; try lia.
  - split; [reflexivity|constructor].
  - destruct (IH a b ltac:(lia) ltac:(lia)) as [E1 E2].
    unfold linspace_nodes, shapes_of in *. cbn [combine map fst snd]. split.
    + f_equal; [apply linspace_length; exact Hn1|exact E1].
    + constructor; [|exact E2]. intros E. pose proof (linspace_length a0 b0 n Hn1) as L. rewrite E in L. cbn in L. lia.
Qed.

Lemma linspace_nodes_rev (a b : list T) nums : length a = length nums -> length b = length nums ->
  rev (linspace_nodes a b nums) = linspace_nodes (rev a) (rev b) (rev nums).
Proof.
  intros Ha Hb. unfold linspace_nodes. rewrite <- map_rev. f_equal.
  rewrite <- !combine_rev; [reflexivity|lia|rewrite combine_length; lia].
Qed.

(* rows of mlinspace = the product grid of the per-dimension linspace nodes, C order: row l has
   coordinate i equal to node number digit_i(l) of linspace(a_i, b_i, nums_i); F order mirrored *)
Theorem mlinspace_spec (a b : list T) nums :
  Forall (fun n => 1 <= n) nums -> length a = length nums -> length b = length nums ->
  mlinspace false a b nums =
    map (fun l => pick nzero (linspace_nodes a b nums) (digits nums l)) (zrange (prodZ nums)) /\
  mlinspace true a b nums = map (@rev T) (mlinspace false (rev a) (rev b) (rev nums)).
Proof.
  intros Hn Ha Hb. destruct (linspace_nodes_shapes a b nums Hn Ha Hb) as [Sh Ne]. unfold mlinspace. split.
  - rewrite cartesian_C_spec by exact Ne. rewrite Sh. reflexivity.
  - rewrite cartesian_F_spec, linspace_nodes_rev by assumption. reflexivity.
Qed.
End LinspaceShape.

(* ---------- linspace over exact rationals: the nodes ---------- *)
Lemma nofnat_Q j : (nofnat (T := Q) j == inject_Z (Z.of_nat j))%Q.
Proof.
  induction j as [|j IH]; [reflexivity|].
  cbn [nofnat nadd none_ NumQ]. rewrite Qaddr_eq, IH.
  rewrite Nat2Z.inj_succ. unfold Z.succ. rewrite inject_Z_plus. reflexivity.
Qed.

Lemma nth_map_zrange_from {A} (f : Z -> A) d : forall m s i, (i < m)%nat ->
  nth i (map f (zrange_from s m)) d = f (s + Z.of_nat i).
Proof.
  induction m as [|m IH]; intros s i Hi; [lia|]. destruct i as [|i]; cbn [zrange_from map nth].
  - f_equal. lia.
  - rewrite IH by lia. f_equal. lia.
Qed.

(* node j of linspace(a,b,n) in exact arithmetic *)
Definition lin_point (a b : Q) (n j : Z) : Q :=
  if n =? 1 then a else (a + inject_Z j * ((b - a) / inject_Z (n - 1)))%Q.

Theorem linspace_Q_spec (a b : Q) n : 1 <= n ->
  Z.of_nat (length (linspace a b n)) = n /\
  (forall j, 0 <= j < n -> (nth (Z.to_nat j) (linspace a b n) 0 == lin_point a b n j)%Q) /\
  (nth 0 (linspace a b n) 0 == a)%Q /\
  (2 <= n -> nth (Z.to_nat (n - 1)) (linspace a b n) 0%Q = b).
Proof.
  intros Hn. split; [apply linspace_length; exact Hn|].
  unfold linspace, lin_point. replace (n <=? 0) with false by lia.
  destruct (Z.eqb_spec n 1) as [->|Hn1].
  { split; [|split; [reflexivity|lia]]. intros j Hj. replace j with 0 by lia. reflexivity. }
  set (step := ndiv (nsub b a) (nofnat (Z.to_nat (n - 1)))).
  assert (Estep : (step == (b - a) / inject_Z (n - 1))%Q).
  { unfold step. cbn [ndiv nsub NumQ]. rewrite Qdivr_eq, Qsubr_eq, nofnat_Q. rewrite Z2Nat.id by lia. reflexivity. }
  assert (Len : length (map (fun j => nadd (nmul (nofnat (Z.to_nat j)) step) a) (zrange (n - 1))) = Z.to_nat (n - 1)).
  { rewrite map_length. unfold zrange. apply zrange_from_length. }
  assert (Inner : forall j, 0 <= j < n - 1 ->
            (nth (Z.to_nat j) (map (fun j => nadd (nmul (nofnat (Z.to_nat j)) step) a) (zrange (n - 1)) ++ [b]) 0
             == a + inject_Z j * ((b - a) / inject_Z (n - 1)))%Q).
  { intros j Hj. rewrite app_nth1 by lia. unfold zrange. rewrite nth_map_zrange_from by lia.
    rewrite Z.add_0_l, Z2Nat.id by lia. cbn [nadd nmul NumQ]. rewrite Qaddr_eq, Qmulr_eq, nofnat_Q, Estep.
    rewrite Z2Nat.id by lia. ring. }
  assert (Last : nth (Z.to_nat (n - 1)) (map (fun j => nadd (nmul (nofnat (Z.to_nat j)) step) a) (zrange (n - 1)) ++ [b]) 0%Q = b).
  { rewrite app_nth2 by lia. rewrite Len, Nat.sub_diag. reflexivity. }
  split; [|split].
  - intros j Hj. destruct (Z.eq_dec j (n - 1)) as [->|Hne].
    + rewrite Last. assert (~ inject_Z (n - 1) == 0)%Q.
      { intros E. apply (inject_Z_injective (n - 1) 0) in E. lia. }
      field. assumption.
    + apply Inner. lia.
  - change 0%nat with (Z.to_nat 0). rewrite Inner by lia. change (inject_Z 0) with 0%Q. ring.
  - intros _. exact Last.
Qed.

(* ---------- the int64 rank sum cannot overflow below C(n,k) <= INTP_MAX ---------- *)
Lemma rank_jit_guard_firstn l : forall i j, rank_jit_guard i l -> rank_jit_guard i (firstn j l).
Proof.
  induction l as [|x r IH]; intros i j G; [destruct j; exact I|].
  destruct j as [|j]; [exact I|]. cbn [firstn rank_jit_guard] in *. destruct G as [G1 G2].
  split; [exact G1|apply IH; exact G2].
Qed.

Lemma rk_firstn_le l : forall i j, rank_from binomZ i (firstn j l) <= rank_from binomZ i l.
Proof.
  intros i j. rewrite <- (firstn_skipn j l) at 2. rewrite rk_app.
  pose proof (rk_nonneg (skipn j l) (i + Z.of_nat (length (firstn j l)))). lia.
Qed.

(* every value the accumulator idx of k_array_rank_jit takes (after 1, 2, ..., k terms) equals the exact
   partial rank and lies in [0, C(n,k)) -- inside int64 when C(n,k) <= INTP_MAX *)
Theorem k_array_rank_jit_no_overflow k a n : k_array k a -> last a 0 < n ->
  binomZ n (Z.of_nat k) <= INTP_MAX -> rank_jit_guard 1 (tl a) ->
  forall j, (1 <= j <= k)%nat ->
    k_array_rank_jit (firstn j a) = k_array_rank (firstn j a) /\
    0 <= k_array_rank (firstn j a) <= k_array_rank a /\ k_array_rank a < binomZ n (Z.of_nat k) <= INTP_MAX.
Proof.
  intros Ha Hlast Hmax G j Hj.
  pose proof (proj2 (rank_lt_iff k a n Ha) Hlast) as Hlt.
  destruct Ha as (Hl & Hk & S & H0).
  destruct a as [|x r]; [cbn in Hl; lia|]. cbn [hd tl] in *.
  destruct j as [|j]; [lia|]. cbn [firstn].
  split; [|split; [|lia]].
  - apply k_array_rank_jit_eq. cbn [tl]. apply rank_jit_guard_firstn. exact G.
  - unfold k_array_rank, k_array_rank_gen.
    pose proof (rk_firstn_le r 1 j). pose proof (rk_nonneg (firstn j r) 1). lia.
Qed.

(* C16, part 2: combinatorial number system.
   next_k_array is the rank successor, rank is injective on strictly increasing arrays,
   the walk from [0..k-1] enumerates ranks 0,1,...,C(n,k)-1, k_array_rank_jit = k_array_rank. *)
From Coq Require Import ZArith List Bool Lia ZifyBool.
From QE Require Import Base.Num C16.Model C16.Proofs.
Import ListNotations.
Open Scope Z_scope.

(* ---------- specification vocabulary ---------- *)
(* strictly increasing list *)
Fixpoint sincr (l : list Z) : Prop :=
  match l with
  | [] => True
  | x :: r => match r with [] => True | y :: _ => x < y end /\ sincr r
  end.

(* a k-array: the inputs next_k_array / k_array_rank are specified for *)
Definition k_array (k : nat) (a : list Z) : Prop :=
  length a = k /\ (1 <= k)%nat /\ sincr a /\ 0 <= hd 0 a.

(* ---------- binomZ ---------- *)
Lemma binomZ_nonneg n k : 0 <= binomZ n k.
Proof. unfold binomZ. destruct ((n <? 0) || (k <? 0)); [lia|apply binom_nonneg]. Qed.

Lemma binomZ_pascal n k : 0 <= n -> 0 <= k ->
  binomZ (n + 1) (k + 1) = binomZ n k + binomZ n (k + 1).
Proof.
  intros Hn Hk. unfold binomZ.
  replace ((n + 1 <? 0) || (k + 1 <? 0)) with false by lia.
  replace ((n <? 0) || (k <? 0)) with false by lia.
  replace ((n <? 0) || (k + 1 <? 0)) with false by lia.
  replace (Z.to_nat (n + 1)) with (S (Z.to_nat n)) by lia.
  replace (Z.to_nat (k + 1)) with (S (Z.to_nat k)) by lia.
  apply binom_S.
Qed.

Lemma binomZ_gt n k : 0 <= n < k -> binomZ n k = 0.
Proof.
  intros H. unfold binomZ. replace ((n <? 0) || (k <? 0)) with false by lia.
  apply binom_gt. lia.
Qed.

Lemma binomZ_0_r n : 0 <= n -> binomZ n 0 = 1.
Proof.
  intros H. unfold binomZ. replace ((n <? 0) || (0 <? 0)) with false by lia.
  apply binom_0_r.
Qed.

Lemma binomZ_1_r n : 0 <= n -> binomZ n 1 = n.
Proof.
  intros H. unfold binomZ. replace ((n <? 0) || (1 <? 0)) with false by lia.
  change (Z.to_nat 1) with 1%nat.
  pose proof (binom_absorb (Z.to_nat n) 0) as A. rewrite binom_0_r in A. lia.
Qed.

Lemma binomZ_diag n : 0 <= n -> binomZ n n = 1.
Proof.
  intros H. unfold binomZ. replace ((n <? 0) || (n <? 0)) with false by lia.
  apply binom_diag.
Qed.

Lemma binom_mono_S n k : binom n k <= binom (S n) k.
Proof.
  destruct k as [|k]; [rewrite !binom_0_r; lia|].
  rewrite binom_S. pose proof (binom_nonneg n k). lia.
Qed.

Lemma binom_mono n n' k : (n <= n')%nat -> binom n k <= binom n' k.
Proof.
  induction 1 as [|m _ IH]; [lia|]. pose proof (binom_mono_S m k). lia.
Qed.

Lemma binomZ_mono n n' k : n <= n' -> binomZ n k <= binomZ n' k.
Proof.
  intros H. unfold binomZ.
  destruct (Z.ltb_spec n 0) as [Hn|Hn]; cbn [orb].
  - destruct ((n' <? 0) || (k <? 0)); [lia|apply binom_nonneg].
  - replace (n' <? 0) with false by lia. cbn [orb].
    destruct (k <? 0); [lia|]. apply binom_mono. lia.
Qed.

(* ---------- sincr ---------- *)
Lemma sincr_tail x r : sincr (x :: r) -> sincr r.
Proof. cbn. tauto. Qed.

Lemma sincr_cons2 x y r : sincr (x :: y :: r) <-> x < y /\ sincr (y :: r).
Proof. cbn. tauto. Qed.

Lemma sincr_hd_le_last l : l <> [] -> sincr l -> hd 0 l <= last l 0.
Proof.
  induction l as [|x r IH]; [congruence|]. intros _ S.
  destruct r as [|y r]; [cbn; lia|].
  apply sincr_cons2 in S. destruct S as [Hxy S].
  specialize (IH ltac:(discriminate) S).
  change (last (x :: y :: r) 0) with (last (y :: r) 0). cbn [hd] in *. lia.
Qed.

Lemma sincr_app_snoc l x : sincr (l ++ [x]) <-> sincr l /\ (l <> [] -> last l 0 < x).
Proof.
  induction l as [|y r IH].
  - cbn. intuition congruence.
  - destruct r as [|z r].
    + cbn. intuition (try congruence; try lia).
    + change ((y :: z :: r) ++ [x]) with (y :: (z :: r) ++ [x]).
      change ((z :: r) ++ [x]) with (z :: r ++ [x]) in *.
      rewrite sincr_cons2. rewrite sincr_cons2. rewrite IH.
      change (last (y :: z :: r) 0) with (last (z :: r) 0).
      intuition (try congruence).
Qed.

(* ---------- rank ---------- *)
Notation rk := (rank_from binomZ).

Lemma rk_nonneg l : forall i, 0 <= rk i l.
Proof.
  induction l as [|x r IH]; intros i; cbn [rank_from]; [lia|].
  pose proof (binomZ_nonneg x (i + 1)). specialize (IH (i + 1)). lia.
Qed.

Lemma k_array_rank_rk a : 0 <= hd 0 a -> k_array_rank a = rk 0 a.
Proof.
  destruct a as [|x r]; [reflexivity|]. cbn [hd]. intros H.
  unfold k_array_rank, k_array_rank_gen. cbn [rank_from].
  change (0 + 1) with 1. rewrite binomZ_1_r by lia. reflexivity.
Qed.

Lemma rk_app l : forall i m, rk i (l ++ m) = rk i l + rk (i + Z.of_nat (length l)) m.
Proof.
  induction l as [|x r IH]; intros i m.
  - cbn. f_equal. lia.
  - cbn [app rank_from length]. rewrite IH. replace (i + 1 + Z.of_nat (length r)) with (i + Z.of_nat (S (length r))) by lia. lia.
Qed.

(* ---------- next_k_array ---------- *)
Lemma nk_aux_cons2 i x y r :
  nk_aux i (x :: y :: r) = if x + 1 =? y then i :: nk_aux (i + 1) (y :: r) else (x + 1) :: y :: r.
Proof. reflexivity. Qed.

Lemma next_k_array_nk_aux a : sincr a -> next_k_array a = nk_aux 0 a.
Proof.
  destruct a as [|x [|y r]]; try reflexivity.
  intros S. apply sincr_cons2 in S. destruct S as [Hxy _].
  unfold next_k_array. rewrite nk_aux_cons2.
  destruct (Z.ltb_spec (x + 1) y); destruct (Z.eqb_spec (x + 1) y); try lia; reflexivity.
Qed.

Lemma nk_aux_length l : forall i, length (nk_aux i l) = length l.
Proof.
  induction l as [|x r IH]; intros i; [reflexivity|].
  destruct r as [|y r]; [reflexivity|]. rewrite nk_aux_cons2.
  destruct (x + 1 =? y); [|reflexivity]. cbn [length]. rewrite IH. reflexivity.
Qed.

(* rank of the successor: the binomial increment C(hd, i) telescopes through the reset prefix
   (Pascal's rule at every reset position = the hockey-stick identity) *)
Lemma nk_aux_rank l : forall i, 0 <= i -> l <> [] -> sincr l -> 0 <= hd 0 l ->
  rk i (nk_aux i l) = rk i l + binomZ (hd 0 l) i.
Proof.
  induction l as [|x r IH]; intros i Hi Hne S Hx; [congruence|].
  cbn [hd] in Hx. destruct r as [|y r].
  - cbn [nk_aux rank_from hd]. rewrite binomZ_pascal by lia. lia.
  - apply sincr_cons2 in S. destruct S as [Hxy S].
    rewrite nk_aux_cons2. destruct (Z.eqb_spec (x + 1) y) as [E|E].
    + cbn [rank_from hd]. rewrite IH; [|lia|discriminate|exact S|cbn [hd]; lia].
      cbn [rank_from hd]. subst y. rewrite (binomZ_pascal x i) by lia.
      rewrite (binomZ_gt i (i + 1)) by lia. lia.
    + cbn [rank_from hd]. rewrite binomZ_pascal by lia. lia.
Qed.

Lemma nk_aux_sincr l : forall i, l <> [] -> sincr l -> i <= hd 0 l ->
  sincr (nk_aux i l) /\ i <= hd 0 (nk_aux i l).
Proof.
  induction l as [|x r IH]; intros i Hne S Hx; [congruence|].
  cbn [hd] in Hx. destruct r as [|y r].
  - cbn. lia.
  - apply sincr_cons2 in S. destruct S as [Hxy S].
    rewrite nk_aux_cons2. destruct (Z.eqb_spec (x + 1) y) as [E|E].
    + destruct (IH (i + 1) ltac:(discriminate) S ltac:(cbn [hd]; lia)) as [S' H'].
      split; [|cbn [hd]; lia].
      destruct (nk_aux (i + 1) (y :: r)) as [|z t] eqn:Ez.
      * cbn. tauto.
      * apply sincr_cons2. cbn [hd] in H'. split; [lia|exact S'].
    + split; [|cbn [hd]; lia]. apply sincr_cons2. split; [lia|].
      destruct r; cbn in *; tauto.
Qed.

Theorem next_k_array_succ k a : k_array k a ->
  k_array k (next_k_array a) /\ k_array_rank (next_k_array a) = k_array_rank a + 1.
Proof.
  intros (Hl & Hk & S & H0).
  assert (Hne : a <> []) by (destruct a; [cbn in Hl; lia|discriminate]).
  rewrite next_k_array_nk_aux by exact S.
  destruct (nk_aux_sincr a 0 Hne S H0) as [S' H0'].
  split.
  - repeat split; try assumption. rewrite nk_aux_length. exact Hl.
  - rewrite !k_array_rank_rk by assumption.
    rewrite nk_aux_rank by (assumption || lia). rewrite binomZ_0_r by lia. reflexivity.
Qed.

(* ---------- rank bounds: C(last, k) <= rank < C(last+1, k) ---------- *)
Lemma rk_lower l : forall i, l <> [] ->
  binomZ (last l 0) (i + Z.of_nat (length l)) <= rk i l.
Proof.
  induction l as [|x r IH]; intros i Hne; [congruence|].
  destruct r as [|y r].
  - cbn [rank_from last length]. replace (i + Z.of_nat 1) with (i + 1) by lia. lia.
  - change (last (x :: y :: r) 0) with (last (y :: r) 0).
    cbn [rank_from]. specialize (IH (i + 1) ltac:(discriminate)).
    replace (i + Z.of_nat (length (x :: y :: r))) with (i + 1 + Z.of_nat (length (y :: r)))
      by (cbn [length]; lia).
    pose proof (binomZ_nonneg x (i + 1)). cbn [rank_from] in IH. lia.
Qed.

Lemma rk_upper l : forall i B, 0 <= i -> l <> [] -> sincr l -> 0 <= hd 0 l ->
  B < binomZ (hd 0 l) i ->
  B + rk i l < binomZ (last l 0 + 1) (i + Z.of_nat (length l)).
Proof.
  induction l as [|x r IH]; intros i B Hi Hne S Hx HB; [congruence|].
  cbn [hd] in *. destruct r as [|y r].
  - cbn [rank_from last length]. replace (i + Z.of_nat 1) with (i + 1) by lia.
    rewrite binomZ_pascal by lia. lia.
  - apply sincr_cons2 in S. destruct S as [Hxy S].
    change (last (x :: y :: r) 0) with (last (y :: r) 0).
    replace (i + Z.of_nat (length (x :: y :: r))) with (i + 1 + Z.of_nat (length (y :: r)))
      by (cbn [length]; lia).
    cbn [rank_from].
    specialize (IH (i + 1) (B + binomZ x (i + 1)) ltac:(lia) ltac:(discriminate) S ltac:(cbn [hd]; lia)).
    cbn [hd rank_from] in IH. cbn [rank_from].
    assert (B + binomZ x (i + 1) < binomZ y (i + 1)).
    { pose proof (binomZ_pascal x i ltac:(lia) ltac:(lia)).
      pose proof (binomZ_mono (x + 1) y (i + 1) ltac:(lia)). lia. }
    specialize (IH H). lia.
Qed.

Lemma rank_bounds k a : k_array k a ->
  binomZ (last a 0) (Z.of_nat k) <= k_array_rank a < binomZ (last a 0 + 1) (Z.of_nat k).
Proof.
  intros (Hl & Hk & S & H0).
  assert (Hne : a <> []) by (destruct a; [cbn in Hl; lia|discriminate]).
  rewrite k_array_rank_rk by assumption. subst k. split.
  - apply (rk_lower a 0 Hne).
  - pose proof (rk_upper a 0 0 ltac:(lia) Hne S H0) as U.
    rewrite binomZ_0_r in U by lia. specialize (U ltac:(lia)).
    rewrite !Z.add_0_l in U. exact U.
Qed.

(* rank < C(n,k)  <->  the array lies below n *)
Theorem rank_lt_iff k a n : k_array k a ->
  (k_array_rank a < binomZ n (Z.of_nat k) <-> last a 0 < n).
Proof.
  intros Ha. pose proof (rank_bounds k a Ha) as [Lo Hi]. split; intros H.
  - destruct (Z.lt_ge_cases (last a 0) n) as [|Hge]; [assumption|].
    pose proof (binomZ_mono n (last a 0) (Z.of_nat k) ltac:(lia)). lia.
  - pose proof (binomZ_mono (last a 0 + 1) n (Z.of_nat k) ltac:(lia)). lia.
Qed.

(* ---------- injectivity ---------- *)
Lemma k_array_snoc k l x : l <> [] -> k_array (S k) (l ++ [x]) -> k_array k l /\ last l 0 < x.
Proof.
  intros Hne (Hl & Hk & S & H0). apply sincr_app_snoc in S. destruct S as [S Hlast].
  rewrite app_length in Hl. cbn in Hl.
  repeat split; try lia; try assumption.
  - destruct l; [congruence|cbn in *; lia].
  - destruct l; [congruence|exact H0].
  - apply Hlast. exact Hne.
Qed.

Lemma rank_snoc l x : l <> [] -> 0 <= hd 0 l ->
  k_array_rank (l ++ [x]) = k_array_rank l + binomZ x (Z.of_nat (length l) + 1).
Proof.
  intros Hne H0. rewrite !k_array_rank_rk; [|assumption|destruct l; [congruence|exact H0]].
  rewrite rk_app. cbn [rank_from]. f_equal. rewrite Z.add_0_r. f_equal.
Qed.

Theorem rank_injective : forall k a b, k_array k a -> k_array k b ->
  k_array_rank a = k_array_rank b -> a = b.
Proof.
  induction k as [|k IH]; intros a b Ha Hb E.
  { destruct Ha as (_ & H & _). lia. }
  assert (Hla : length a = S k) by apply Ha. assert (Hlb : length b = S k) by apply Hb.
  destruct (exists_last (l := a)) as (a' & x & ->); [destruct a; [discriminate|discriminate]|].
  destruct (exists_last (l := b)) as (b' & y & ->); [destruct b; [discriminate|discriminate]|].
  rewrite app_length in Hla, Hlb. cbn in Hla, Hlb.
  pose proof (rank_bounds _ _ Ha) as Ba. pose proof (rank_bounds _ _ Hb) as Bb.
  rewrite last_last in Ba, Bb.
  assert (x = y).
  { destruct (Z.lt_trichotomy x y) as [L|[L|L]]; [|assumption|].
    - pose proof (binomZ_mono (x + 1) y (Z.of_nat (S k)) ltac:(lia)). lia.
    - pose proof (binomZ_mono (y + 1) x (Z.of_nat (S k)) ltac:(lia)). lia. }
  subst y. f_equal.
  destruct k as [|k].
  - destruct a'; [|cbn in Hla; lia]. destruct b'; [|cbn in Hlb; lia]. reflexivity.
  - assert (Na : a' <> []) by (destruct a'; [cbn in Hla; lia|discriminate]).
    assert (Nb : b' <> []) by (destruct b'; [cbn in Hlb; lia|discriminate]).
    destruct (k_array_snoc _ _ _ Na Ha) as [Ha' _].
    destruct (k_array_snoc _ _ _ Nb Hb) as [Hb' _].
    apply IH; try assumption.
    rewrite !rank_snoc in E; try assumption; try apply Ha'; try apply Hb'.
    replace (length a') with (length b') in E by lia. lia.
Qed.

(* ---------- the walk ---------- *)
Lemma zrange_from_S s n : zrange_from s (S n) = s :: zrange_from (s + 1) n.
Proof. reflexivity. Qed.

Lemma zrange_from_snoc n : forall s, zrange_from s (S n) = zrange_from s n ++ [s + Z.of_nat n].
Proof.
  induction n as [|n IH]; intros s.
  - cbn. f_equal. lia.
  - rewrite zrange_from_S, IH. cbn [zrange_from app]. do 2 f_equal. f_equal. lia.
Qed.

Lemma zrange_from_length n : forall s, length (zrange_from s n) = n.
Proof. induction n; intros s; cbn; [reflexivity|f_equal; auto]. Qed.

Lemma zrange_from_sincr n : forall s, sincr (zrange_from s n).
Proof.
  induction n as [|n IH]; intros s; [exact I|].
  cbn [zrange_from sincr]. split; [|apply IH].
  destruct n; cbn; [exact I|lia].
Qed.

Lemma rk_zrange_from n : forall s, 0 <= s -> rk s (zrange_from s n) = 0.
Proof.
  induction n as [|n IH]; intros s Hs; [reflexivity|].
  cbn [zrange_from rank_from]. rewrite binomZ_gt by lia. rewrite IH by lia. reflexivity.
Qed.

Lemma k_array_zrange k : (1 <= k)%nat -> k_array k (zrange (Z.of_nat k)).
Proof.
  intros Hk. unfold zrange. rewrite Nat2Z.id. repeat split.
  - apply zrange_from_length.
  - exact Hk.
  - apply zrange_from_sincr.
  - destruct k; cbn; lia.
Qed.

Lemma rank_zrange k : (1 <= k)%nat -> k_array_rank (zrange (Z.of_nat k)) = 0.
Proof.
  intros Hk. rewrite k_array_rank_rk by apply (k_array_zrange k Hk).
  unfold zrange. apply rk_zrange_from. lia.
Qed.

Lemma k_walk_from k n : forall fuel a,
  k_array k a -> k_array_rank a <= binomZ n (Z.of_nat k) ->
  (Z.to_nat (binomZ n (Z.of_nat k) - k_array_rank a) < fuel)%nat ->
  let w := k_walk fuel n a in
  map k_array_rank w = zrange_from (k_array_rank a) (Z.to_nat (binomZ n (Z.of_nat k) - k_array_rank a))
  /\ Forall (fun b => k_array k b /\ last b 0 < n) w.
Proof.
  induction fuel as [|f IH]; intros a Ha Hr Hf; [lia|].
  cbn zeta. cbn [k_walk]. pose proof (rank_lt_iff k a n Ha) as LT.
  destruct (Z.ltb_spec (last a 0) n) as [Hlt|Hge].
  - apply LT in Hlt.
    destruct (next_k_array_succ k a Ha) as [Ha' Hr'].
    specialize (IH (next_k_array a) Ha' ltac:(lia) ltac:(lia)). cbn zeta in IH.
    destruct IH as [IH1 IH2]. split.
    + cbn [map]. rewrite IH1, Hr'.
      replace (Z.to_nat (binomZ n (Z.of_nat k) - k_array_rank a))
        with (S (Z.to_nat (binomZ n (Z.of_nat k) - (k_array_rank a + 1)))) by lia.
      reflexivity.
    + constructor; [|exact IH2]. split; [exact Ha|]. apply LT. exact Hlt.
  - assert (k_array_rank a = binomZ n (Z.of_nat k)) by lia.
    replace (binomZ n (Z.of_nat k) - k_array_rank a) with 0 by lia.
    split; [reflexivity|constructor].
Qed.

(* the walk of the callers: a = arange(k); while a[k-1] < n: visit a; next_k_array(a) *)
Theorem k_walk_enumerates k n fuel : (1 <= k)%nat ->
  (Z.to_nat (binomZ n (Z.of_nat k)) < fuel)%nat ->
  let w := k_walk fuel n (zrange (Z.of_nat k)) in
  map k_array_rank w = zrange (binomZ n (Z.of_nat k)) /\
  (forall a, In a w <-> k_array k a /\ last a 0 < n) /\
  NoDup w.
Proof.
  intros Hk Hf w.
  pose proof (k_walk_from k n fuel _ (k_array_zrange k Hk)) as W.
  rewrite rank_zrange in W by exact Hk. rewrite Z.sub_0_r in W.
  specialize (W (binomZ_nonneg _ _) Hf). cbn zeta in W. fold w in W.
  destruct W as [W1 W2]. fold (zrange (binomZ n (Z.of_nat k))) in W1.
  split; [exact W1|]. split.
  - intros a. split.
    + intros Hin. rewrite Forall_forall in W2. apply W2. exact Hin.
    + intros [Ha Hlast]. apply (rank_lt_iff k a n Ha) in Hlast.
      pose proof (rank_bounds k a Ha) as [Lo _]. pose proof (binomZ_nonneg (last a 0) (Z.of_nat k)).
      (* the element of w at position rank a has the same rank, hence is a *)
      assert (Hlen : length w = Z.to_nat (binomZ n (Z.of_nat k))).
      { rewrite <- (map_length k_array_rank), W1. apply zrange_from_length. }
      set (p := Z.to_nat (k_array_rank a)).
      assert (Hp : (p < length w)%nat) by lia.
      assert (E : k_array_rank (nth p w []) = k_array_rank a).
      { change [] with (@nil Z) at 1.
        rewrite <- (map_nth k_array_rank) with (d := @nil Z).
        replace (k_array_rank []) with 0 by reflexivity.
        rewrite W1. unfold zrange.
        assert (G : forall m s i, (i < m)%nat -> nth i (zrange_from s m) 0 = s + Z.of_nat i).
        { induction m as [|m IHm]; intros s i Hi; [lia|]. destruct i as [|i]; cbn [zrange_from nth]; [lia|].
          rewrite IHm by lia. lia. }
        rewrite G by lia. lia. }
      assert (Hin : In (nth p w []) w) by (apply nth_In; exact Hp).
      rewrite Forall_forall in W2. destruct (W2 _ Hin) as [Hb _].
      rewrite <- (rank_injective k _ _ Hb Ha E). exact Hin.
  - (* distinct ranks *)
    assert (ND : NoDup (map k_array_rank w)).
    { rewrite W1. unfold zrange. generalize (Z.to_nat (binomZ n (Z.of_nat k))) as m. generalize 0 as s.
      intros s m. revert s. induction m as [|m IHm]; intros s; cbn [zrange_from]; constructor.
      - intros Hin. assert (G : forall m s x, In x (zrange_from s m) -> s <= x).
        { clear. induction m as [|m IHm]; intros s x Hin; [destruct Hin|].
          destruct Hin as [<-|Hin]; [lia|]. apply IHm in Hin. lia. }
        apply G in Hin. lia.
      - apply IHm. }
    clear -ND. induction w as [|x w IH]; [constructor|].
    cbn [map] in ND. inversion ND as [|? ? Hnin ND']; subst.
    constructor; [|apply IH; exact ND']. intros Hin. apply Hnin. apply in_map. exact Hin.
Qed.

(* ---------- k_array_rank_jit = k_array_rank when no comb_jit term overflows ---------- *)
(* guard on a[i], i >= 1 (position i uses comb_jit(a[i], i+1)) *)
Fixpoint rank_jit_guard (i : Z) (l : list Z) : Prop :=
  match l with
  | [] => True
  | x :: r => (x < INTP_MAX /\ (i + 1 <= x -> ~ comb_overflows x (i + 1))) /\ rank_jit_guard (i + 1) r
  end.

Lemma comb_jit_binomZ_guard x k : 2 <= k -> x < INTP_MAX ->
  (k <= x -> ~ comb_overflows x k) -> comb_jit x k = binomZ x k.
Proof.
  intros Hk Hx G.
  destruct (Z.lt_ge_cases x k) as [Hlt|Hge].
  - rewrite comb_jit_out_of_range by lia.
    unfold binomZ. destruct (Z.ltb_spec x 0); cbn [orb]; [reflexivity|].
    replace (k <? 0) with false by lia. symmetry. apply binom_gt. lia.
  - destruct (comb_jit_spec x k ltac:(lia) ltac:(lia)) as (_ & _ & _ & H3).
    destruct (H3 Hk Hx) as [[Ho _]|[_ E]]; [exfalso; exact (G Hge Ho)|exact E].
Qed.

Lemma rank_from_jit_eq l : forall i, 1 <= i -> rank_jit_guard i l ->
  rank_from comb_jit i l = rank_from binomZ i l.
Proof.
  induction l as [|x r IH]; intros i Hi G; [reflexivity|].
  cbn [rank_from]. destruct G as [[Hx Hov] G].
  rewrite IH by (assumption || lia).
  rewrite comb_jit_binomZ_guard by (assumption || lia). reflexivity.
Qed.

Theorem k_array_rank_jit_eq a : rank_jit_guard 1 (tl a) -> k_array_rank_jit a = k_array_rank a.
Proof.
  destruct a as [|x r]; [reflexivity|]. cbn [tl]. intros G.
  unfold k_array_rank_jit, k_array_rank, k_array_rank_gen.
  rewrite rank_from_jit_eq by (assumption || lia). reflexivity.
Qed.

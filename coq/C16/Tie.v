(* Tie between the kernels REGENERATED from /repo's current source by
   harness/py2coq.py (coq/Gen/Kernels.v) and the hand-written model of C16/Model.v:
   equal on every input. An edit of comb_jit, _cartesian_index or k_array_rank_jit in
   /repo changes Gen/Kernels.v, and these lemmas must then be re-proved. *)
From Coq Require Import ZArith List Bool Lia ZifyBool.
From QE Require Import Base.Num Gen.Kernels C16.Model.
Import ListNotations.
Open Scope Z_scope.

Lemma gen_comb_loop_eq : forall fuel j val M,
  match gen_comb_jit_loop0 fuel j val INTP_MAX M with inl r => r | inr v => v end
  = comb_loop fuel M j val.
Proof.
  induction fuel as [|f IH]; intros j val M; cbn [gen_comb_jit_loop0 comb_loop].
  - reflexivity.
  - destruct (val >? INTP_MAX / (M - j)); [reflexivity|]. apply IH.
Qed.

Lemma gen_comb_jit_eq : forall N k, gen_comb_jit N k = comb_jit N k.
Proof.
  intros N k. unfold gen_comb_jit, comb_jit. cbv zeta.
  change 9223372036854775807 with INTP_MAX.
  destruct ((N <? 0) || (k <? 0) || (k >? N)); [reflexivity|].
  destruct (k =? 0); [reflexivity|]. destruct (k =? 1); [reflexivity|].
  destruct (N =? INTP_MAX); [reflexivity|].
  replace (Z.min k (N - k) + 1 - 1) with (Z.min k (N - k)) by lia.
  apply gen_comb_loop_eq.
Qed.

(* ---- _cartesian_index ---- *)
Lemma skipn_nth_cons {A} (d : A) : forall k (l : list A), (k < length l)%nat ->
  skipn k l = nth k l d :: skipn (S k) l.
Proof.
  induction k as [|k IH]; intros [|x l] Hk; cbn in Hk; try lia.
  - reflexivity.
  - cbn [skipn nth]. apply IH. lia.
Qed.

Lemma gen_ci_loop_eq : forall fuel i idx dec (indices nums : list Z),
  length indices = length nums ->
  1 <= i -> Z.of_nat fuel = Z.of_nat (length indices) + 1 - i ->
  fst (gen_cartesian_index_loop0 fuel i idx dec indices nums (Z.of_nat (length indices)))
  = ci_loop (skipn (Z.to_nat (i - 1)) (rev indices)) (skipn (Z.to_nat (i - 1)) (rev nums)) idx dec.
Proof.
  induction fuel as [|f IH]; intros i idx dec indices nums Hlen Hi Hf; cbn [gen_cartesian_index_loop0].
  - rewrite !skipn_all2 by (rewrite rev_length; lia). reflexivity.
  - assert (Hk : (Z.to_nat (i - 1) < length indices)%nat) by lia.
    rewrite (skipn_nth_cons 0 (Z.to_nat (i - 1)) (rev indices)) by (rewrite rev_length; exact Hk).
    rewrite (skipn_nth_cons 0 (Z.to_nat (i - 1)) (rev nums)) by (rewrite rev_length; lia).
    cbn [ci_loop].
    rewrite (rev_nth indices 0) by exact Hk. rewrite (rev_nth nums 0) by lia.
    rewrite <- Hlen.
    replace (Z.to_nat (Z.of_nat (length indices) - i)) with (length indices - S (Z.to_nat (i - 1)))%nat by lia.
    rewrite IH by lia.
    replace (Z.to_nat (i + 1 - 1)) with (S (Z.to_nat (i - 1))) by lia.
    reflexivity.
Qed.

Lemma gen_cartesian_index_eq : forall indices nums,
  length indices = length nums ->
  gen_cartesian_index indices nums = cartesian_index indices nums.
Proof.
  intros indices nums Hlen. unfold gen_cartesian_index, cartesian_index. cbv zeta.
  pose proof (gen_ci_loop_eq (Z.to_nat (Z.of_nat (length indices) + 1 - 1)) 1 0 1 indices nums Hlen ltac:(lia) ltac:(lia)) as E.
  change (Z.to_nat (1 - 1)) with 0%nat in E. cbn [skipn] in E.
  destruct (gen_cartesian_index_loop0 _ 1 0 1 indices nums _) as [idx dc]. exact E.
Qed.

(* ---- k_array_rank_jit ---- *)
Lemma gen_rank_loop_eq : forall fuel i idx (a : list Z),
  1 <= i -> Z.of_nat fuel = Z.of_nat (length a) - i ->
  gen_k_array_rank_jit_loop0 fuel i idx a
  = idx + rank_from comb_jit i (skipn (Z.to_nat i) a).
Proof.
  induction fuel as [|f IH]; intros i idx a Hi Hf; cbn [gen_k_array_rank_jit_loop0].
  - rewrite skipn_all2 by lia. cbn [rank_from]. lia.
  - rewrite (skipn_nth_cons 0 (Z.to_nat i) a) by lia. cbn [rank_from].
    rewrite IH by lia. rewrite gen_comb_jit_eq.
    replace (Z.to_nat (i + 1)) with (S (Z.to_nat i)) by lia. lia.
Qed.

Lemma gen_k_array_rank_jit_eq : forall a, a <> [] ->
  gen_k_array_rank_jit a = k_array_rank_jit a.
Proof.
  intros [|x r] Hne; [congruence|].
  unfold gen_k_array_rank_jit, k_array_rank_jit, k_array_rank_gen. cbv zeta.
  rewrite gen_rank_loop_eq by (cbn [length]; lia).
  change (Z.to_nat 0) with 0%nat. change (Z.to_nat 1) with 1%nat. cbn [nth skipn]. reflexivity.
Qed.

(* ---- next_k_array ---- *)
Lemma upd_nth_app {A} (pre : list A) x r v :
  upd_nth (pre ++ x :: r) (length pre) v = pre ++ v :: r.
Proof. induction pre as [|p pre IH]; cbn; [reflexivity|]. rewrite IH. reflexivity. Qed.

Lemma nth_app_at {A} (pre : list A) l d j : nth (length pre + j) (pre ++ l) d = nth j l d.
Proof. apply app_nth2_plus. Qed.

Lemma gen_nk_loop_eq : forall fuel pre x0 rest,
  (length (x0 :: rest) <= fuel)%nat -> (1 <= length pre)%nat ->
  let '(i', a', x') :=
    gen_next_k_array_loop0 fuel (Z.of_nat (length pre)) (pre ++ x0 :: rest) (x0 + 1)
                           (Z.of_nat (length (pre ++ x0 :: rest))) in
  upd_nth a' (Z.to_nat i') x' = pre ++ nk_aux (Z.of_nat (length pre)) (x0 :: rest).
Proof.
  induction fuel as [|f IH]; intros pre x0 rest Hf Hpre; cbn [length] in Hf; [lia|].
  destruct rest as [|y r]; cbn [gen_next_k_array_loop0]; rewrite app_length; cbn [length].
  - (* last position: i = k-1 *)
    replace (Z.of_nat (length pre) <? Z.of_nat (length pre + 1) - 1) with false by lia.
    cbn [andb nk_aux]. rewrite Nat2Z.id. apply upd_nth_app.
  - replace (Z.of_nat (length pre) <? Z.of_nat (length pre + S (S (length r))) - 1) with true by lia.
    cbn [andb].
    replace (Z.to_nat (Z.of_nat (length pre) + 1)) with (length pre + 1)%nat by lia.
    rewrite (nth_app_at pre (x0 :: y :: r) 0 1). cbn [nth nk_aux].
    destruct (x0 + 1 =? y) eqn:E.
    + replace (Z.to_nat (Z.of_nat (length pre) + 1 - 1)) with (length pre) by lia.
      rewrite upd_nth_app.
      replace (Z.of_nat (length pre) + 1 - 1) with (Z.of_nat (length pre)) by lia.
      replace (pre ++ Z.of_nat (length pre) :: y :: r) with ((pre ++ [Z.of_nat (length pre)]) ++ y :: r)
        by (rewrite <- app_assoc; reflexivity).
      replace (length pre + 1)%nat with (length (pre ++ [Z.of_nat (length pre)]) + 0)%nat
        by (rewrite app_length; cbn; lia).
      rewrite (nth_app_at (pre ++ [Z.of_nat (length pre)]) (y :: r) 0 0). cbn [nth].
      pose proof (IH (pre ++ [Z.of_nat (length pre)]) y r ltac:(cbn [length] in *; lia)
                     ltac:(rewrite app_length; cbn; lia)) as R.
      replace (Z.of_nat (length (pre ++ [Z.of_nat (length pre)]))) with (Z.of_nat (length pre) + 1) in R
        by (rewrite app_length; cbn [length]; lia).
      replace (Z.of_nat (length ((pre ++ [Z.of_nat (length pre)]) ++ y :: r)))
        with (Z.of_nat (length pre + S (S (length r)))) in R
        by (rewrite !app_length; cbn [length]; lia).
      destruct (gen_next_k_array_loop0 f _ _ _ _) as [[i' a'] x'].
      rewrite R. rewrite <- app_assoc. reflexivity.
    + rewrite Nat2Z.id. apply upd_nth_app.
Qed.

Lemma gen_next_k_array_eq : forall a, gen_next_k_array a = next_k_array a.
Proof.
  intros [|x [|y r]]; unfold gen_next_k_array, next_k_array; cbv zeta.
  - reflexivity.
  - reflexivity.
  - cbn [length]. replace (Z.of_nat (S (S (length r))) =? 1) with false by lia. cbn [orb].
    change (Z.to_nat 0) with 0%nat. change (Z.to_nat 1) with 1%nat. cbn [nth upd_nth].
    destruct (x + 1 <? y); [reflexivity|].
    pose proof (gen_nk_loop_eq (S (S (length r))) [0] y r ltac:(cbn [length]; lia) ltac:(cbn; lia)) as R.
    cbn [app length] in R. change (Z.of_nat 1) with 1 in R.
    destruct (gen_next_k_array_loop0 _ 1 (0 :: y :: r) (y + 1) _) as [[i' a'] x'].
    exact R.
Qed.

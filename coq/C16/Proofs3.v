(* C16, part 3: cartesian products and the mixed-radix index. *)
From Coq Require Import ZArith List Bool Lia ZifyBool.
From QE Require Import Base.Num C16.Model.
Import ListNotations.
Open Scope Z_scope.

(* ---------- specification vocabulary ---------- *)
(* value of the index vector `is` in the mixed radix `ns`, most significant digit first *)
Fixpoint mixed_radix (is ns : list Z) : Z :=
  match is, ns with
  | i :: is', n :: ns' => i * prodZ ns' + mixed_radix is' ns'
  | _, _ => 0
  end.

(* digit vector of l in the mixed radix ns *)
Fixpoint digits (ns : list Z) (l : Z) : list Z :=
  match ns with
  | [] => []
  | n :: r => (l / prodZ r) mod n :: digits r l
  end.

(* the grid point with index vector `is` *)
Fixpoint pick {T} (d : T) (nodes : list (list T)) (is : list Z) : list T :=
  match nodes, is with
  | x :: nodes', i :: is' => nth (Z.to_nat i) x d :: pick d nodes' is'
  | _, _ => []
  end.

Definition shapes_of {T} (nodes : list (list T)) : list Z := map (fun e => Z.of_nat (length e)) nodes.

(* index vector in range *)
Definition in_range (is ns : list Z) : Prop := Forall2 (fun i n => 0 <= i < n) is ns.

(* ---------- prodZ ---------- *)
Lemma prodZ_cons x l : prodZ (x :: l) = x * prodZ l. Proof. reflexivity. Qed.

Lemma prodZ_app a b : prodZ (a ++ b) = prodZ a * prodZ b.
Proof.
  induction a as [|x a IH]; cbn [app]; rewrite ?prodZ_cons.
  - change (prodZ []) with 1. lia.
  - rewrite IH. lia.
Qed.

Lemma prodZ_rev l : prodZ (rev l) = prodZ l.
Proof. induction l as [|x l IH]; [reflexivity|]. cbn [rev]. rewrite prodZ_app, IH, !prodZ_cons. change (prodZ []) with 1. lia. Qed.

Lemma prodZ_pos l : Forall (fun n => 0 < n) l -> 0 < prodZ l.
Proof. induction 1 as [|x l Hx _ IH]; [cbn; lia|rewrite prodZ_cons; lia]. Qed.

(* ---------- _cartesian_index = mixed radix value ---------- *)
Fixpoint le_value (ri rn : list Z) : Z :=
  match ri, rn with
  | i :: ri', n :: rn' => i + n * le_value ri' rn'
  | _, _ => 0
  end.

Lemma ci_loop_le ri : forall rn idx dec, ci_loop ri rn idx dec = idx + dec * le_value ri rn.
Proof.
  induction ri as [|i ri IH]; intros [|n rn] idx dec; cbn [ci_loop le_value]; try lia.
  rewrite IH. lia.
Qed.

Lemma ci_loop_app a : forall b a' b' idx dec, length a = length b ->
  ci_loop (a ++ a') (b ++ b') idx dec = ci_loop a' b' (idx + dec * le_value a b) (dec * prodZ b).
Proof.
  induction a as [|i a IH]; intros [|n b] a' b' idx dec Hl; cbn in Hl; try lia.
  - cbn [app le_value]. f_equal; cbn; lia.
  - cbn [app ci_loop le_value]. rewrite IH by lia. rewrite prodZ_cons. f_equal; lia.
Qed.

Theorem cartesian_index_spec : forall is ns, length is = length ns ->
  cartesian_index is ns = mixed_radix is ns.
Proof.
  induction is as [|i is IH]; intros [|n ns] Hl; cbn in Hl; try lia; [reflexivity|].
  unfold cartesian_index. cbn [rev].
  rewrite ci_loop_app by (rewrite !rev_length; lia).
  cbn [ci_loop]. rewrite prodZ_rev.
  specialize (IH ns ltac:(lia)). unfold cartesian_index in IH. rewrite ci_loop_le in IH.
  cbn [mixed_radix]. lia.
Qed.

(* ---------- digits <-> mixed radix value ---------- *)
Lemma mixed_radix_range is ns : in_range is ns -> 0 <= mixed_radix is ns < prodZ ns.
Proof.
  induction 1 as [|i n is ns Hi _ IH]; [cbn; lia|].
  cbn [mixed_radix]. rewrite prodZ_cons. nia.
Qed.

Lemma in_range_length is ns : in_range is ns -> length is = length ns.
Proof. induction 1; cbn; [reflexivity|f_equal; assumption]. Qed.

Lemma in_range_pos is ns : in_range is ns -> Forall (fun n => 0 < n) ns.
Proof. induction 1; constructor; [lia|assumption]. Qed.

Lemma mixed_radix_digits ns : Forall (fun n => 0 < n) ns ->
  forall l, mixed_radix (digits ns l) ns = l mod prodZ ns.
Proof.
  induction 1 as [|n r Hn Hr IH]; intros l.
  - cbn. rewrite Z.mod_1_r. reflexivity.
  - cbn [digits mixed_radix]. rewrite IH, prodZ_cons.
    pose proof (prodZ_pos r Hr) as HP.
    rewrite (Z.mul_comm n (prodZ r)). rewrite Z.rem_mul_r by lia. lia.
Qed.

Lemma digits_in_range ns : Forall (fun n => 0 < n) ns -> forall l, in_range (digits ns l) ns.
Proof.
  induction 1 as [|n r Hn Hr IH]; intros l; cbn [digits]; constructor; [|apply IH].
  apply Z.mod_pos_bound. exact Hn.
Qed.

Lemma digits_length ns l : length (digits ns l) = length ns.
Proof. induction ns; cbn; [reflexivity|f_equal; assumption]. Qed.

Lemma digits_add_multiple r : Forall (fun n => 0 < n) r ->
  forall l c, digits r (l + c * prodZ r) = digits r l.
Proof.
  induction 1 as [|n r Hn Hr IH]; intros l c; [reflexivity|].
  cbn [digits]. rewrite prodZ_cons. pose proof (prodZ_pos r Hr) as HP. f_equal.
  - replace (l + c * (n * prodZ r)) with (l + (c * n) * prodZ r) by lia.
    rewrite Z.div_add by lia. apply Z_mod_plus_full.
  - replace (l + c * (n * prodZ r)) with (l + (c * n) * prodZ r) by lia. apply IH.
Qed.

Lemma digits_mixed_radix is ns : in_range is ns -> digits ns (mixed_radix is ns) = is.
Proof.
  induction 1 as [|i n is ns Hi Hr IH]; [reflexivity|].
  cbn [digits mixed_radix].
  pose proof (mixed_radix_range is ns Hr) as R.
  pose proof (in_range_pos is ns Hr) as Pos.
  f_equal.
  - rewrite Z.add_comm, Z.div_add by lia. rewrite (Z.div_small (mixed_radix is ns)) by lia.
    apply Z.mod_small. lia.
  - rewrite Z.add_comm, digits_add_multiple by exact Pos. exact IH.
Qed.

(* decoding a flat index and re-encoding it gives it back *)
Theorem cartesian_index_digits ns l : Forall (fun n => 0 < n) ns -> 0 <= l < prodZ ns ->
  cartesian_index (digits ns l) ns = l.
Proof.
  intros Pos Hl. rewrite cartesian_index_spec by apply digits_length.
  rewrite mixed_radix_digits by exact Pos. apply Z.mod_small. exact Hl.
Qed.

Theorem digits_cartesian_index is ns : in_range is ns ->
  digits ns (cartesian_index is ns) = is /\ 0 <= cartesian_index is ns < prodZ ns.
Proof.
  intros R. rewrite cartesian_index_spec by (apply in_range_length; exact R).
  split; [apply digits_mixed_radix; exact R|apply mixed_radix_range; exact R].
Qed.

(* ---------- cartesian, C order ---------- *)
Lemma cumprod_from_length l : forall acc, length (cumprod_from acc l) = length l.
Proof. induction l; intros acc; cbn; [reflexivity|f_equal; auto]. Qed.

Lemma cartesian_row_C {T} (d : T) (ind : Z) (nodes : list (list T)) :
  Forall (fun x => x <> []) nodes -> forall acc, 0 < acc ->
  map (fun xk => repeat_1d_entry d (fst xk) (snd xk) (acc * prodZ (shapes_of nodes)) ind)
      (combine nodes (acc :: cumprod_from acc (removelast (shapes_of nodes))))
  = pick d nodes (digits (shapes_of nodes) ind).
Proof.
  induction 1 as [|x r Hx Hr IH]; intros acc Hacc; [reflexivity|].
  unfold shapes_of in *. cbn [map combine pick digits fst snd].
  set (n := Z.of_nat (length x)). set (s := map (fun e => Z.of_nat (length e)) r) in *.
  assert (Hn : 0 < n) by (destruct x; [congruence|unfold n; cbn [length]; lia]).
  assert (Pos : Forall (fun n => 0 < n) s).
  { unfold s. clear -Hr. induction Hr as [|y r Hy _ IH]; constructor; [|exact IH].
    destruct y; [congruence|cbn [length]; lia]. }
  pose proof (prodZ_pos s Pos) as HP.
  f_equal.
  - unfold repeat_1d_entry. fold n. rewrite prodZ_cons.
    replace (acc * (n * prodZ s)) with (prodZ s * (acc * n)) by lia.
    rewrite Z.div_mul by lia. reflexivity.
  - destruct r as [|x' r'].
    + reflexivity.
    + assert (E : removelast (n :: s) = n :: removelast s) by (unfold s; reflexivity).
      rewrite E. cbn [cumprod_from]. rewrite prodZ_cons.
      replace (acc * (n * prodZ s)) with (acc * n * prodZ s) by lia.
      apply IH. lia.
Qed.

Theorem cartesian_C_spec {T} (d : T) (nodes : list (list T)) :
  Forall (fun x => x <> []) nodes ->
  cartesian d false nodes =
  map (fun l => pick d nodes (digits (shapes_of nodes) l)) (zrange (prodZ (shapes_of nodes))).
Proof.
  intros Hne. unfold cartesian. fold (shapes_of nodes). apply map_ext. intros ind.
  unfold repetitions_C, cumprod. cbn [cumprod_from]. rewrite Z.mul_1_l.
  pose proof (cartesian_row_C d ind nodes Hne 1 ltac:(lia)) as R.
  rewrite Z.mul_1_l in R. exact R.
Qed.

(* ---------- cartesian, F order = C order of the reversed node list, rows reversed ---------- *)
Lemma combine_app {A B} (a : list A) : forall (b : list B) a' b', length a = length b ->
  combine (a ++ a') (b ++ b') = combine a b ++ combine a' b'.
Proof.
  induction a as [|x a IH]; intros [|y b] a' b' Hl; cbn in Hl; try lia; [reflexivity|].
  cbn [app combine]. f_equal. apply IH. lia.
Qed.

Lemma combine_rev {A B} (a : list A) : forall (b : list B), length a = length b ->
  combine (rev a) (rev b) = rev (combine a b).
Proof.
  induction a as [|x a IH]; intros [|y b] Hl; cbn in Hl; try lia; [reflexivity|].
  cbn [rev combine]. rewrite combine_app by (rewrite !rev_length; lia).
  rewrite IH by lia. reflexivity.
Qed.

Lemma removelast_length {A} (l : list A) : l <> [] -> S (length (removelast l)) = length l.
Proof.
  intros Hne. destruct (exists_last Hne) as (l' & a & ->).
  rewrite removelast_last, app_length. cbn. lia.
Qed.

Theorem cartesian_F_spec {T} (d : T) (nodes : list (list T)) :
  cartesian d true nodes = map (@rev T) (cartesian d false (rev nodes)).
Proof.
  destruct nodes as [|x0 r0] eqn:En; [reflexivity|]. rewrite <- En.
  assert (Hne : nodes <> []) by (rewrite En; discriminate). clear En x0 r0.
  unfold cartesian. rewrite map_map. rewrite map_rev, prodZ_rev.
  apply map_ext. intros ind. unfold repetitions_F, repetitions_C.
  set (sh := map (fun e => Z.of_nat (length e)) nodes).
  set (R := cumprod (1 :: removelast (rev sh))).
  rewrite <- map_rev. f_equal.
  rewrite <- (rev_involutive nodes) at 1. apply combine_rev.
  unfold R, cumprod. rewrite cumprod_from_length. cbn [length].
  rewrite removelast_length.
  - unfold sh. rewrite !rev_length, map_length. reflexivity.
  - unfold sh. intros E. apply (f_equal (@length Z)) in E. rewrite rev_length, map_length in E.
    destruct nodes; [congruence|discriminate].
Qed.

(* every grid point appears, at the row given by _cartesian_index of its index vector *)
Theorem cartesian_C_row_of_index {T} (d : T) (nodes : list (list T)) (is : list Z) :
  in_range is (shapes_of nodes) ->
  let l := cartesian_index is (shapes_of nodes) in
  0 <= l < prodZ (shapes_of nodes) /\
  nth (Z.to_nat l) (cartesian d false nodes) [] = pick d nodes is.
Proof.
  intros R l. destruct (digits_cartesian_index _ _ R) as [D B]. fold l in D, B.
  split; [exact B|].
  assert (Hne : Forall (fun x => x <> []) nodes).
  { pose proof (in_range_pos _ _ R) as P. unfold shapes_of in P. clear -P.
    induction nodes as [|x r IH]; constructor.
    - inversion P; subst. destruct x; [cbn in *; lia|discriminate].
    - apply IH. inversion P; assumption. }
  rewrite cartesian_C_spec by exact Hne.
  set (f := fun l0 => pick d nodes (digits (shapes_of nodes) l0)).
  assert (G : forall m s i, (i < m)%nat -> nth i (map f (zrange_from s m)) [] = f (s + Z.of_nat i)).
  { induction m as [|m IHm]; intros s i Hi; [lia|]. destruct i as [|i]; cbn [zrange_from map nth].
    - f_equal. lia.
    - rewrite IHm by lia. f_equal. lia. }
  unfold zrange. rewrite G by lia. unfold f. rewrite Z.add_0_l, Z2Nat.id by lia.
  rewrite D. reflexivity.
Qed.

From Coq Require Import ZArith List Bool Lia ZifyBool.
From QE Require Import Base.Num C16.Model.
Import ListNotations.
Open Scope Z_scope.

(* ---------- binomial coefficients ---------- *)
Lemma binom_0_r n : binom n 0 = 1. Proof. destruct n; reflexivity. Qed.

Lemma binom_S n k : binom (S n) (S k) = binom n k + binom n (S k).
Proof. reflexivity. Qed.

Lemma binom_nonneg n : forall k, 0 <= binom n k.
Proof.
  induction n as [|n IH]; intros [|k]; cbn [binom]; try lia.
  specialize (IH k) as H1. specialize (IH (S k)) as H2. lia.
Qed.

Lemma binom_gt n : forall k, (n < k)%nat -> binom n k = 0.
Proof.
  induction n as [|n IH]; intros [|k] Hk; cbn [binom]; try lia.
  rewrite (IH k), (IH (S k)) by lia. reflexivity.
Qed.

Lemma binom_diag n : binom n n = 1.
Proof.
  induction n as [|n IH]; [reflexivity|].
  rewrite binom_S, IH, binom_gt by lia. reflexivity.
Qed.

Lemma binom_pos n : forall k, (k <= n)%nat -> 0 < binom n k.
Proof.
  induction n as [|n IH]; intros [|k] Hk; cbn [binom]; try lia.
  assert (0 < binom n k) by (apply IH; lia).
  pose proof (binom_nonneg n (S k)). lia.
Qed.

(* absorption: C(n,k+1)(k+1) = C(n,k)(n-k), valid for all k as an identity over Z *)
Lemma binom_absorb n : forall k,
  binom n (S k) * Z.of_nat (S k) = binom n k * (Z.of_nat n - Z.of_nat k).
Proof.
  induction n as [|n IH]; intros k.
  - destruct k; cbn [binom]; lia.
  - destruct k as [|k].
    + rewrite binom_S, !binom_0_r. specialize (IH 0%nat). rewrite binom_0_r in IH. lia.
    + rewrite (binom_S n (S k)), (binom_S n k).
      pose proof (IH (S k)) as H1. pose proof (IH k) as H2. nia.
Qed.

Lemma binom_sym n : forall k, (k <= n)%nat -> binom n k = binom n (n - k).
Proof.
  induction n as [|n IH]; intros k Hk.
  - assert (k = 0)%nat by lia. subst. reflexivity.
  - destruct k as [|k].
    + rewrite binom_0_r, Nat.sub_0_r, binom_diag. reflexivity.
    + replace (S n - S k)%nat with (n - k)%nat by lia.
      destruct (Nat.eq_dec k n) as [->|Hne].
      * rewrite Nat.sub_diag, binom_0_r, binom_diag. reflexivity.
      * replace (n - k)%nat with (S (n - S k)) by lia.
        rewrite !binom_S. rewrite (IH k) by lia. rewrite (IH (S k)) by lia.
        replace (n - k)%nat with (S (n - S k)) by lia. lia.
Qed.

(* ---------- comb_jit ---------- *)

(* the overflow test of the source is exactly "the next product exceeds INTP_MAX" *)
Lemma overflow_test val d : 0 <= val -> 0 < d ->
  (val >? INTP_MAX / d) = true <-> val * d > INTP_MAX.
Proof.
  intros Hv Hd. rewrite Z.gtb_lt.
  pose proof (Z.div_mod INTP_MAX d ltac:(lia)) as E.
  pose proof (Z.mod_pos_bound INTP_MAX d Hd) as B.
  split; intro H; nia.
Qed.

(* some product val_{j-1} * (M - j) formed by the loop for j in [j0, j0+fuel) exceeds INTP_MAX *)
Definition overflows (N : nat) (j0 fuel : nat) : Prop :=
  exists j, (j0 <= j < j0 + fuel)%nat /\
            binom N (j - 1) * (Z.of_nat N + 1 - Z.of_nat j) > INTP_MAX.

Lemma comb_loop_spec (N : nat) : forall fuel j,
  (1 <= j)%nat -> (j - 1 + fuel <= N)%nat ->
  let r := comb_loop fuel (Z.of_nat N + 1) (Z.of_nat j) (binom N (j - 1)) in
  (overflows N j fuel /\ r = 0) \/
  (~ overflows N j fuel /\ r = binom N (j - 1 + fuel)).
Proof.
  induction fuel as [|f IH]; intros j Hj Hb; cbn [comb_loop]; cbv zeta.
  - right. split.
    + intros (i & Hi & _). lia.
    + replace (j - 1 + 0)%nat with (j - 1)%nat by lia. reflexivity.
  - pose proof (binom_nonneg N (j - 1)) as Hnn.
    destruct (Z.gtb_spec (binom N (j - 1)) (INTP_MAX / (Z.of_nat N + 1 - Z.of_nat j))) as [Hgt|Hle].
    + left. split; [|reflexivity].
      exists j. split; [lia|].
      apply overflow_test; [lia|lia|]. apply Z.gtb_lt. lia.
    + assert (Hno : ~ binom N (j - 1) * (Z.of_nat N + 1 - Z.of_nat j) > INTP_MAX).
      { intro H. apply overflow_test in H; [|lia|lia]. apply Z.gtb_lt in H. lia. }
      (* exact division: val * (M-j) / j = C(N, j) *)
      assert (Hdiv : binom N (j - 1) * (Z.of_nat N + 1 - Z.of_nat j) / Z.of_nat j = binom N j).
      { pose proof (binom_absorb N (j - 1)) as A.
        replace (S (j - 1)) with j in A by lia.
        replace (Z.of_nat N + 1 - Z.of_nat j) with (Z.of_nat N - Z.of_nat (j - 1)) by lia.
        rewrite <- A. apply Z.div_mul. lia. }
      rewrite Hdiv.
      replace (Z.of_nat j + 1) with (Z.of_nat (S j)) by lia.
      replace (binom N j) with (binom N (S j - 1)) by (f_equal; lia).
      specialize (IH (S j) ltac:(lia) ltac:(lia)). cbv zeta in IH.
      replace (S j - 1 + f)%nat with (j - 1 + S f)%nat in IH by lia.
      destruct IH as [[Ho Hr]|[Ho Hr]].
      * left. split; [|exact Hr]. destruct Ho as (i & Hi & Hov). exists i. split; [lia|exact Hov].
      * right. split; [|exact Hr]. intros (i & Hi & Hov).
        destruct (Nat.eq_dec i j) as [->|Hne]; [exact (Hno Hov)|].
        apply Ho. exists i. split; [lia|exact Hov].
Qed.

(* Full specification of comb_jit on the whole intp range.
   - the result is the exact binomial coefficient or 0;
   - it is 0 exactly when the arguments are out of range, or N = INTP_MAX (k>=2),
     or one of the products val*(M-j) the loop would form exceeds INTP_MAX;
   hence every product actually formed is <= INTP_MAX and the unbounded-Z model
   coincides with the int64 computation. *)
Definition comb_overflows (N k : Z) : Prop :=
  overflows (Z.to_nat N) 1 (Z.to_nat (Z.min k (N - k))).

Theorem comb_jit_spec N k :
  0 <= N <= INTP_MAX -> 0 <= k <= N ->
  (k = 0 -> comb_jit N k = 1) /\
  (k = 1 -> comb_jit N k = N) /\
  (2 <= k -> N = INTP_MAX -> comb_jit N k = 0) /\
  (2 <= k -> N < INTP_MAX ->
     (comb_overflows N k /\ comb_jit N k = 0) \/
     (~ comb_overflows N k /\ comb_jit N k = binomZ N k)).
Proof.
  intros HN Hk. unfold comb_jit.
  replace ((N <? 0) || (k <? 0) || (k >? N)) with false by lia.
  repeat split.
  - intros ->. reflexivity.
  - intros ->. reflexivity.
  - intros H2 ->. replace (k =? 0) with false by lia. replace (k =? 1) with false by lia. reflexivity.
  - intros H2 Hlt.
    replace (k =? 0) with false by lia. replace (k =? 1) with false by lia.
    replace (N =? INTP_MAX) with false by lia.
    set (n := Z.to_nat N). set (t := Z.to_nat (Z.min k (N - k))).
    pose proof (comb_loop_spec n t 1 ltac:(lia) ltac:(lia)) as S. cbv zeta in S.
    replace (Z.of_nat n) with N in S by lia.
    change (Z.of_nat 1) with 1 in S. change (binom n (1 - 1)) with (binom n 0) in S.
    rewrite binom_0_r in S. replace (1 - 1 + t)%nat with t in S by lia.
    unfold comb_overflows. fold n t.
    assert (E : binom n t = binomZ N k).
    { unfold binomZ. replace ((N <? 0) || (k <? 0)) with false by lia.
      fold n. destruct (Z.le_ge_cases k (N - k)) as [Hle|Hge].
      - unfold t. rewrite Z.min_l by lia. reflexivity.
      - unfold t. rewrite Z.min_r by lia.
        rewrite (binom_sym n (Z.to_nat k)) by lia. f_equal. lia. }
    rewrite E in S. exact S.
Qed.

Lemma comb_jit_out_of_range N k : N < 0 \/ k < 0 \/ k > N -> comb_jit N k = 0.
Proof. intro H. unfold comb_jit. replace ((N <? 0) || (k <? 0) || (k >? N)) with true by lia. reflexivity. Qed.

(* When no overflow is signalled comb_jit agrees with the exact binomial everywhere,
   so the jitted rank equals the exact rank. *)
Corollary comb_jit_exact N k :
  0 <= N <= INTP_MAX -> 0 <= k <= N -> comb_jit N k <> 0 -> comb_jit N k = binomZ N k.
Proof.
  intros HN Hk Hnz. destruct (comb_jit_spec N k HN Hk) as (H0 & H1 & H2 & H3).
  destruct (Z.eq_dec k 0) as [->|].
  { rewrite H0 by reflexivity. unfold binomZ. replace ((N <? 0) || (0 <? 0)) with false by lia.
    change (Z.to_nat 0) with 0%nat. rewrite binom_0_r. reflexivity. }
  destruct (Z.eq_dec k 1) as [->|].
  { rewrite H1 by reflexivity. unfold binomZ. replace ((N <? 0) || (1 <? 0)) with false by lia.
    change (Z.to_nat 1) with 1%nat.
    pose proof (binom_absorb (Z.to_nat N) 0) as A. rewrite binom_0_r in A. lia. }
  destruct (Z.eq_dec N INTP_MAX) as [HM|HM].
  - rewrite H2 in Hnz by lia. congruence.
  - destruct (H3 ltac:(lia) ltac:(lia)) as [[_ E]|[_ E]]; [congruence|exact E].
Qed.

(* C16: tie lemma between simplex_grid (and num_compositions_jit) of quantecon/_gridtools.py as REGENERATED from /repo's
   current source (Gen/Kernels4.v) and the hand-written model C16/Model.v: the generated kernel returns exactly the
   model's grid (or the ValueError the model reports as None), for all m, n. *)
From Coq Require Import String ZArith List Bool Lia.
From QE Require Import Base.Num Base.Pivot Gen.Kernels Gen.Kernels2 Gen.Kernels3 Gen.Kernels4 Base.GenLemmas C16.Model C16.Tie.
Import ListNotations.
Open Scope Z_scope.

Lemma gen_num_compositions_jit_tie m n : gen_num_compositions_jit m n = (num_compositions_jit m n, true).
Proof. unfold gen_num_compositions_jit, num_compositions_jit. rewrite gen_comb_jit_eq. reflexivity. Qed.

Lemma upd_upd_nth : forall (a : list Z) i v, upd_nth a i v = upd a i v.
Proof. induction a as [|x a IH]; intros [|i] v; cbn; try reflexivity. f_equal. apply IH. Qed.

Lemma firstn_S_nth {A} (x : list A) d : forall k, (k < length x)%nat -> firstn (S k) x = firstn k x ++ [nth k x d].
Proof. induction x as [|a x IH]; intros [|k] Hk; cbn in *; try lia; [reflexivity|]. f_equal. apply IH. lia. Qed.

(* the copy loop: out[i, j] = x[j], j = 0..m-1 *)
Lemma sg_copy_row (x : list Z) : forall f (pre row : list Z), 
  (length pre + f <= length x)%nat -> length (pre ++ row) = length x -> pre = firstn (length pre) x ->
  fold_left (fun r j => upd_nth r j (nth j x 0)) (seq (length pre) f) (pre ++ row) =
    firstn (length pre + f) x ++ skipn f row.
Proof.
  induction f as [|f IH]; intros pre row Hf Hl Hp; cbn [seq fold_left skipn].
  - rewrite Nat.add_0_r. rewrite <- Hp. reflexivity.
  - destruct row as [|r0 row]; [rewrite app_nil_r in Hl; lia|].
    rewrite upd_nth_mid.
    replace (pre ++ nth (length pre) x 0 :: row) with ((pre ++ [nth (length pre) x 0]) ++ row) by (rewrite <- app_assoc; reflexivity).
    replace (S (length pre)) with (length (pre ++ [nth (length pre) x 0])) by (rewrite app_length; cbn; lia).
    rewrite IH.
    + rewrite app_length. cbn [length]. replace (length pre + 1 + f)%nat with (length pre + S f)%nat by lia. reflexivity.
    + rewrite app_length. cbn [length]. lia.
    + rewrite !app_length in *. cbn [length] in *. lia.
    + rewrite app_length. cbn [length]. rewrite Nat.add_1_r.
      rewrite (firstn_S_nth x 0 (length pre)) by lia. rewrite <- Hp. reflexivity.
Qed.

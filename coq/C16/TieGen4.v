(* C16: tie lemma between simplex_grid (and num_compositions_jit) of quantecon/_gridtools.py as REGENERATED from /repo's
   current source (Gen/Kernels4.v) and the hand-written model C16/Model.v: the generated kernel returns exactly the
   model's grid (or the ValueError the model reports as None), for all m, n. *)
From Coq Require Import String ZArith List Bool Lia.
From QE Require Import Base.Num Base.Pivot Gen.Kernels Gen.Kernels2 Gen.Kernels3 Gen.Kernels4 Base.GenLemmas C16.Model C16.Tie.
Import ListNotations.
Open Scope Z_scope.

Lemma gen_num_compositions_jit_tie m n : gen_num_compositions_jit m n = (num_compositions_jit m n, true).
Proof. unfold gen_num_compositions_jit, num_compositions_jit. rewrite gen_comb_jit_eq. reflexivity. Qed.

Lemma upd_upd_nth : forall (a : list Z) i v, upd_nth a i v = upd a i v.
Proof. induction a as [|x a IH]; intros [|i] v; cbn; try reflexivity. f_equal. apply IH. Qed.

Lemma firstn_S_nth {A} (x : list A) d : forall k, (k < length x)%nat -> firstn (S k) x = firstn k x ++ [nth k x d].
Proof. induction x as [|a x IH]; intros [|k] Hk; cbn in *; try lia; [reflexivity|]. f_equal. apply IH. lia. Qed.

(* the copy loop: out[i, j] = x[j], j = 0..m-1 *)
Lemma sg_copy_row (x : list Z) : forall f (pre row : list Z), 
  (length pre + f <= length x)%nat -> length (pre ++ row) = length x -> pre = firstn (length pre) x ->
  fold_left (fun r j => upd_nth r j (nth j x 0)) (seq (length pre) f) (pre ++ row) =
    firstn (length pre + f) x ++ skipn f row.
Proof.
  induction f as [|f IH]; intros pre row Hf Hl Hp; cbn [seq fold_left skipn].
  - rewrite Nat.add_0_r. rewrite <- Hp. reflexivity.
  - destruct row as [|r0 row]; [rewrite app_nil_r in Hl; lia|].
    rewrite upd_nth_mid.
    replace (pre ++ nth (length pre) x 0 :: row) with ((pre ++ [nth (length pre) x 0]) ++ row) by (rewrite <- app_assoc; reflexivity).
    replace (S (length pre)) with (length (pre ++ [nth (length pre) x 0])) by (rewrite app_length; cbn; lia).
    rewrite IH.
    + rewrite app_length. cbn [length]. replace (length pre + 1 + f)%nat with (length pre + S f)%nat by lia. reflexivity.
    + rewrite app_length. cbn [length]. lia.
    + rewrite !app_length in *. cbn [length] in *. lia.
    + rewrite app_length. cbn [length]. rewrite Nat.add_1_r.
      rewrite (firstn_S_nth x 0 (length pre)) by lia. rewrite <- Hp. reflexivity.
Qed.

Lemma sg_loop0_eq (x : list Z) : forall f j out ok, gen_simplex_grid_loop0 f j out ok x = gen_simplex_grid_loop2 f j out ok x 0.
Proof. induction f as [|f IH]; intros j out ok; cbn [gen_simplex_grid_loop0 gen_simplex_grid_loop2]; [reflexivity|]. apply IH. Qed.

Lemma sg_loop2_tie (x : list Z) i : forall f j (out : list (list Z)) ok, (i < length out)%nat ->
  exists ok', gen_simplex_grid_loop2 f (Z.of_nat j) out ok x (Z.of_nat i) =
    (upd_nth out i (fold_left (fun r j => upd_nth r j (nth j x 0)) (seq j f) (nth i out [])), ok').
Proof.
  induction f as [|f IH]; intros j out ok Hi; cbn [gen_simplex_grid_loop2 seq fold_left].
  - exists ok. rewrite upd_nth_same. reflexivity.
  - rewrite (@set2_nat Z), Nat2Z.id. replace (Z.of_nat j + 1) with (Z.of_nat (S j)) by lia.
    destruct (IH (S j) (upd_nth out i (upd_nth (nth i out []) j (nth j x 0)))
                 (ok && inb (Z.of_nat j) x && inb2 (Z.of_nat i) (Z.of_nat j) out)) as [ok' E];
      [rewrite upd_nth_length; exact Hi|].
    exists ok'. rewrite E. rewrite nth_upd_nth_eq by exact Hi. rewrite upd_nth_twice. reflexivity.
Qed.

Lemma sg_copy_full (x row : list Z) : length row = length x ->
  fold_left (fun r j => upd_nth r j (nth j x 0)) (seq 0 (length x)) row = x.
Proof.
  intro Hl. pose proof (sg_copy_row x (length x) [] row ltac:(cbn; lia) Hl eq_refl) as E. cbn [length app Nat.add] in E.
  rewrite E, firstn_all, skipn_all2 by lia. apply app_nil_r.
Qed.

Section Grid.
Variables (mN : nat).
Let m := Z.of_nat mN.

Lemma sg_step_length st : length (fst (sg_step m st)) = length (fst st).
Proof.
  destruct st as [x h]. unfold sg_step. cbv zeta. cbn [fst]. unfold zupd.
  rewrite <- !upd_upd_nth, !upd_nth_length. reflexivity.
Qed.

Lemma sg_loop1_tie : forall f i h (x : list Z) (pre rest : list (list Z)) ok,
  length pre = i -> length x = mN -> (forall row, In row rest -> length row = mN) -> (f <= length rest)%nat ->
  exists h' x' ok', gen_simplex_grid_loop1 f (Z.of_nat i) h x (pre ++ rest) ok m =
    (h', x', pre ++ sg_rows f m (x, h) ++ skipn f rest, ok').
Proof.
  induction f as [|f IH]; intros i h x pre rest ok Hp Hx Hrest Hf; cbn [gen_simplex_grid_loop1 sg_rows skipn app].
  - exists h, x, ok. reflexivity.
  - destruct rest as [|r0 rest]; [cbn in Hf; lia|]. cbn [length] in Hf.
    set (x3 := fst (sg_step m (x, h))).
    assert (Ex3 : upd_nth (upd_nth (upd_nth x (Z.to_nat (h - 1)) 0) (Z.to_nat (m - 1)) (nth (Z.to_nat (h - 1)) x 0 - 1))
                    (Z.to_nat (h - 1 - 1))
                    (nth (Z.to_nat (h - 1 - 1)) (upd_nth (upd_nth x (Z.to_nat (h - 1)) 0) (Z.to_nat (m - 1)) (nth (Z.to_nat (h - 1)) x 0 - 1)) 0 + 1) = x3).
    { unfold x3, sg_step, zupd, zget. cbv zeta. cbn [fst]. rewrite !upd_upd_nth. reflexivity. }
    rewrite Ex3. replace (Z.to_nat (m - 0)) with mN by (unfold m; lia).
    assert (Hx3 : length x3 = mN) by (unfold x3; rewrite sg_step_length; exact Hx).
    match goal with |- context [gen_simplex_grid_loop2 mN 0 (pre ++ r0 :: rest) ?okk x3 (Z.of_nat i)] =>
      destruct (sg_loop2_tie x3 i mN 0 (pre ++ r0 :: rest) okk ltac:(rewrite app_length; cbn; lia)) as [ok2 E2] end.
    change (Z.of_nat 0) with 0 in E2. rewrite E2. clear E2.
    rewrite app_nth2, Hp, Nat.sub_diag by lia. cbn [nth].
    pose proof (sg_copy_full x3 r0 ltac:(rewrite Hx3; apply Hrest; left; reflexivity)) as Ec. rewrite Hx3 in Ec. rewrite Ec. clear Ec.
    pose proof (upd_nth_mid pre r0 x3 rest) as Hu. rewrite Hp in Hu. rewrite Hu. clear Hu.
    replace (Z.of_nat i + 1) with (Z.of_nat (S i)) by lia.
    replace (pre ++ x3 :: rest) with ((pre ++ [x3]) ++ rest) by (rewrite <- app_assoc; reflexivity).
    set (h2 := if negb (nth (Z.to_nat (h - 1)) x 0 =? 1) then m else h - 1).
    assert (Est : sg_step m (x, h) = (x3, h2)).
    { unfold x3, h2, sg_step, zget. cbv zeta. cbn [fst]. f_equal. destruct (nth (Z.to_nat (h - 1)) x 0 =? 1); reflexivity. }
    assert (Eh : (let '(h0, ok__) := if negb (nth (Z.to_nat (h - 1)) x 0 =? 1) then (m, ok2) else (h - 1, ok2) in
                  gen_simplex_grid_loop1 f (Z.of_nat (S i)) h0 x3 ((pre ++ [x3]) ++ rest) ok__ m) =
                 gen_simplex_grid_loop1 f (Z.of_nat (S i)) h2 x3 ((pre ++ [x3]) ++ rest) ok2 m)
      by (unfold h2; destruct (negb _); reflexivity).
    rewrite Eh. rewrite Est. cbn [fst].
    destruct (IH (S i) h2 x3 (pre ++ [x3]) rest ok2) as (h' & x' & ok' & E);
      [rewrite app_length; cbn; lia|exact Hx3|intros row Hr; apply Hrest; right; exact Hr|lia|].
    exists h', x', ok'. rewrite E. rewrite <- app_assoc. reflexivity.
Qed.

Theorem gen_simplex_grid_tie n : 0 <= num_compositions_jit m n ->
  fst (gen_simplex_grid m n) =
    match simplex_grid m n with
    | None => inl "ValueError: Maximum allowed size exceeded"%string
    | Some rows => inr rows
    end.
Proof.
  intro HL. unfold gen_simplex_grid, simplex_grid. cbv zeta. rewrite gen_num_compositions_jit_tie.
  set (L := num_compositions_jit m n) in *. destruct (L =? 0) eqn:EL; [reflexivity|]. apply Z.eqb_neq in EL.
  unfold zupd. rewrite <- upd_upd_nth. replace (Z.to_nat m) with mN by (unfold m; lia).
  set (x0 := upd_nth (repeat 0 mN) (Z.to_nat (m - 1)) n).
  assert (Hx0 : length x0 = mN) by (unfold x0; rewrite upd_nth_length, repeat_length; reflexivity).
  replace (Z.to_nat (m - 0)) with mN by (unfold m; lia).
  rewrite sg_loop0_eq.
  destruct (Z.to_nat L) as [|LN] eqn:ELN; [lia|]. cbn [repeat].
  match goal with |- context [gen_simplex_grid_loop2 mN 0 (repeat 0 mN :: repeat (repeat 0 mN) LN) ?okk x0 0] =>
    destruct (sg_loop2_tie x0 0 mN 0 (repeat 0 mN :: repeat (repeat 0 mN) LN) okk ltac:(cbn; lia)) as [ok2 E2] end.
  change (Z.of_nat 0) with 0 in E2. rewrite E2. clear E2. cbn [nth upd_nth].
  pose proof (sg_copy_full x0 (repeat 0 mN) ltac:(rewrite repeat_length, Hx0; reflexivity)) as Ec. rewrite Hx0 in Ec. rewrite Ec. clear Ec.
  replace (Z.to_nat (L - 1)) with LN by lia.
  destruct (sg_loop1_tie LN 1 m x0 [x0] (repeat (repeat 0 mN) LN) ok2 eq_refl Hx0) as (h' & x' & ok' & E).
  - intros row Hr. apply repeat_spec in Hr. subst row. apply repeat_length.
  - rewrite repeat_length. lia.
  - change (Z.of_nat 1) with 1 in E. cbn [app] in E. rewrite E. cbn [fst].
    rewrite skipn_all2 by (rewrite repeat_length; lia). rewrite app_nil_r. reflexivity.
Qed.
End Grid.

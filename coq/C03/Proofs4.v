(* C03 proofs, part 4: _compute_period on ANY valid BFS output of SciPy
   (node order + predecessors forming a spanning tree rooted at 0) returns the
   gcd of all closed-walk lengths and a cyclic projection along which every
   edge advances by one (mod period). *)
From Coq Require Import ZArith List Bool Arith Lia Relations.
From QE Require Import C03.Model C03.Proofs1 C03.Proofs2 C03.Proofs3.
Import ListNotations.

(* ------------------------------------------------------------- set_nth *)
Lemma set_nth_length {A} (l : list A) i x : length (set_nth l i x) = length l.
Proof. revert i; induction l as [|y l IH]; intros [|i]; simpl; auto. Qed.

Lemma set_nth_get (l : list Z) i x j :
  zget (set_nth l i x) j = if (j =? i) && (i <? length l) then x else zget l j.
Proof.
  unfold zget. revert i j; induction l as [|y l IH]; intros i j.
  - simpl. rewrite andb_false_r. destruct i, j; reflexivity.
  - destruct i as [|i]; destruct j as [|j]; simpl; try reflexivity. apply IH.
Qed.

Lemma zget_repeat0 k v : zget (repeat 0%Z k) v = 0%Z.
Proof. unfold zget. revert v; induction k; intros [|v]; simpl; auto. Qed.

Lemma nth_map_any {A B} (f : A -> B) l i d d' : i < length l -> nth i (map f l) d = f (nth i l d').
Proof. revert i; induction l as [|x l IH]; intros [|i] H; simpl in *; try lia; auto. apply IH; lia. Qed.

Section RepoPeriod.
Variable n : nat.
Variable e : nat -> nat -> bool.
Variable pred : list Z.

(* facts carried by the level loop for the set S of nodes already processed *)
Definition linv (level : list Z) (Sn : list nat) : Prop :=
  length level = n /\ NoDup Sn /\
  forall v, In v Sn ->
    v < n /\ (0 <= zget level v)%Z /\ walk n e 0 v (Z.to_nat (zget level v)) /\
    (v <> 0 -> exists p, zget pred v = Z.of_nat p /\ In p Sn /\ zget level v = (zget level p + 1)%Z).

Lemma linv_step level Sn v :
  linv level Sn -> v < n -> ~ In v Sn ->
  forall p, zget pred v = Z.of_nat p -> In p Sn -> e p v = true ->
  linv (level_step pred level v) (v :: Sn).
Proof.
  intros [Hlen [Hnd Hall]] Hv Hnin p Hp HpS He.
  assert (Hpv : p <> v) by (intros ->; contradiction).
  unfold level_step. rewrite Hp, Nat2Z.id.
  split; [rewrite set_nth_length; exact Hlen|]. split; [constructor; assumption|].
  intros w [<- | Hw].
  - rewrite set_nth_get. rewrite Nat.eqb_refl. assert (v <? length level = true) as -> by (apply Nat.ltb_lt; lia).
    simpl. destruct (Hall p HpS) as [Hpn [Hp0 [Hpw _]]].
    split; [exact Hv|]. split; [lia|]. split.
    + replace (Z.to_nat (zget level p + 1)) with (S (Z.to_nat (zget level p))) by lia.
      eapply walk_snoc; eassumption.
    + intros _. exists p. split; [exact Hp|]. split; [right; exact HpS|].
      rewrite set_nth_get. assert (p =? v = false) as -> by (apply Nat.eqb_neq; exact Hpv). reflexivity.
  - assert (Hwv : w <> v) by (intros ->; contradiction).
    destruct (Hall w Hw) as [Hwn [Hw0 [Hww Hwp]]].
    rewrite set_nth_get. assert (w =? v = false) as -> by (apply Nat.eqb_neq; exact Hwv). simpl.
    split; [exact Hwn|]. split; [exact Hw0|]. split; [exact Hww|].
    intros Hne. destruct (Hwp Hne) as [q [Hq [HqS Hlq]]]. exists q. split; [exact Hq|]. split; [right; exact HqS|].
    assert (Hqv : q <> v) by (intros ->; contradiction).
    rewrite set_nth_get. assert (q =? v = false) as -> by (apply Nat.eqb_neq; exact Hqv). simpl. exact Hlq.
Qed.

Lemma linv_fold rest : forall level Sn,
  linv level Sn -> valid_order n e pred Sn rest = true ->
  linv (fold_left (level_step pred) rest level) (rev rest ++ Sn).
Proof.
  induction rest as [|v r IH]; intros level Sn Hinv Hvo; [exact Hinv|].
  simpl in Hvo. repeat rewrite andb_true_iff in Hvo.
  destruct Hvo as [[[Hv Hnm] [[Hp0 Hpm] He]] Hr].
  apply Nat.ltb_lt in Hv. apply negb_true_iff in Hnm.
  assert (~ In v Sn) as Hnin by (intros H; apply mem_In in H; congruence).
  apply mem_In in Hpm. apply Z.leb_le in Hp0.
  simpl. rewrite <- app_assoc. simpl. apply IH; [|exact Hr].
  apply (linv_step level Sn v Hinv Hv Hnin (Z.to_nat (zget pred v))); [lia | exact Hpm | exact He].
Qed.

Hypothesis H2 : 2 <= n.
Hypothesis Hsc : forall u v, u < n -> v < n -> reach n e u v.
Variable order : list nat.
Hypothesis Hvt : valid_tree n e order pred = true.

Let level := levels n order pred.

Lemma valid_tree_unpack : exists r, order = 0 :: r /\ length order = n /\ length pred = n /\
  (zget pred 0 < 0)%Z /\ valid_order n e pred [0] r = true.
Proof.
  unfold valid_tree in Hvt. destruct order as [|[|x] r]; try discriminate.
  repeat rewrite andb_true_iff in Hvt. destruct Hvt as [[[A B] C] D].
  exists r. apply Nat.eqb_eq in A, B. apply Z.ltb_lt in C. tauto.
Qed.

Lemma level_facts : length level = n /\ forall v, v < n ->
  (0 <= zget level v)%Z /\ walk n e 0 v (Z.to_nat (zget level v)) /\
  (v <> 0 -> exists p, p < n /\ zget pred v = Z.of_nat p /\ zget level v = (zget level p + 1)%Z).
Proof.
  destruct valid_tree_unpack as [r [Ho [Hlo [Hlp [Hp0 Hvo]]]]].
  assert (Hinit : linv (repeat 0%Z n) [0]).
  { split; [apply repeat_length|]. split; [constructor; [intros [] | constructor]|].
    intros v [<- | []]. split; [lia|]. rewrite zget_repeat0. split; [lia|]. split; [apply w_nil; lia | intros H; congruence]. }
  pose proof (linv_fold r _ _ Hinit Hvo) as [Hlen [Hnd Hall]].
  unfold level, levels. rewrite Ho. simpl tl. split; [exact Hlen|].
  assert (Hincl : incl (seq 0 n) (rev r ++ [0])).
  { apply NoDup_length_incl; [exact Hnd | |].
    - rewrite seq_length, app_length, rev_length. simpl. rewrite Ho in Hlo. simpl in Hlo. lia.
    - intros v Hv. destruct (Hall v Hv) as [Hvn _]. apply in_seq. lia. }
  intros v Hv. destruct (Hall v (Hincl v ltac:(apply in_seq; lia))) as [_ [A [B C]]].
  split; [exact A|]. split; [exact B|]. intros Hne. destruct (C Hne) as [p [P1 [P2 P3]]].
  exists p. destruct (Hall p P2) as [Hpn _]. tauto.
Qed.

Lemma tree_edges_zero uv : In uv (edges n e) -> negb (is_tree_edge pred uv) = false ->
  edge_val (zget level) uv = 0%Z.
Proof.
  destruct uv as [u v]. intros Hin Ht. apply in_edges in Hin. destruct Hin as [Hu [Hv He]].
  apply negb_false_iff in Ht. unfold is_tree_edge in Ht. simpl in Ht. apply Z.eqb_eq in Ht.
  destruct valid_tree_unpack as [r [Ho [Hlo [Hlp [Hp0 Hvo]]]]].
  assert (zget pred v = Z.of_nat u) as Hpv.
  { unfold zget. rewrite (nth_indep pred 0%Z (-1)%Z) by lia. exact Ht. }
  destruct level_facts as [_ Hlev]. destruct (Hlev v Hv) as [_ [_ Hp]].
  assert (v <> 0) as Hne by (intros ->; lia).
  destruct (Hp Hne) as [p [_ [Hpp Hl]]]. assert (p = u) as -> by lia.
  unfold edge_val; simpl. lia.
Qed.

Let d := gcd_edges (edges n e) (zget level).

Lemma loop_is_gcd :
  gcd_loop (filter (fun uv => negb (is_tree_edge pred uv)) (edges n e)) level 0 = d.
Proof.
  rewrite gcd_loop_gfold. rewrite gfold_filter; [reflexivity | lia | apply tree_edges_zero].
Qed.

Lemma level_hyp : forall v, v < n -> (0 <= zget level v)%Z /\ walk n e 0 v (Z.to_nat (zget level v)).
Proof. intros v Hv. destruct level_facts as [_ H]. destruct (H v Hv) as [A [B _]]. split; assumption. Qed.

Definition is_period (per : nat) : Prop :=
  0 < per /\ forall D, (D | Z.of_nat per)%Z <-> (forall u k, walk n e u u k -> (D | Z.of_nat k)%Z).
Definition is_cyclic_proj (per : nat) (proj : list nat) : Prop :=
  length proj = n /\ (forall u, u < n -> nthn proj u < per) /\
  (forall u v, u < n -> v < n -> e u v = true ->
     Z.of_nat (nthn proj v) = ((Z.of_nat (nthn proj u) + 1) mod Z.of_nat per)%Z).

Lemma nthn_repeat0 k u : nthn (repeat 0 k) u = 0.
Proof. unfold nthn. revert u; induction k; intros [|u]; simpl; auto. Qed.

Lemma period_one_cyclic : is_cyclic_proj 1 (repeat 0 n).
Proof.
  split; [apply repeat_length|]. split.
  - intros u _. rewrite nthn_repeat0. lia.
  - intros u v _ _ _. rewrite !nthn_repeat0. reflexivity.
Qed.

Theorem compute_period_correct :
  exists per proj, compute_period n e true order pred = POk per proj /\ is_period per /\ is_cyclic_proj per proj.
Proof.
  assert (Hn : 0 < n) by lia.
  pose proof (d_pos n e (zget level) Hn Hsc H2) as Hdpos. fold d in Hdpos.
  pose proof (jarvis_shier n e (zget level) Hn Hsc level_hyp) as HJS. fold d in HJS.
  unfold compute_period.
  assert (n =? 1 = false) as -> by (apply Nat.eqb_neq; lia). simpl negb. cbv iota.
  destruct (existsb (fun u => e u u) (seq 0 n)) eqn:Eloop.
  - (* a self-loop is a closed walk of length 1 *)
    exists 1, (repeat 0 n). split; [reflexivity|]. split; [|apply period_one_cyclic].
    split; [lia|]. intros D. split.
    + intros HD u k _. eapply Z.divide_trans; [exact HD | apply Z.divide_1_l].
    + intros HD. apply existsb_exists in Eloop. destruct Eloop as [u [Hu He]]. apply in_seq in Hu.
      apply (HD u 1). eapply w_cons; [| | exact He | apply w_nil]; lia.
  - destruct valid_tree_unpack as [r [Ho [Hlo _]]].
    assert (length order =? n = true) as -> by (apply Nat.eqb_eq; exact Hlo). simpl negb. cbv iota.
    fold level. rewrite loop_is_gcd.
    destruct (d =? 1)%Z eqn:E1.
    + apply Z.eqb_eq in E1. exists 1, (repeat 0 n). split; [reflexivity|]. split; [|apply period_one_cyclic].
      split; [lia|]. intros D. rewrite <- HJS, E1. reflexivity.
    + assert (d =? 0 = false)%Z as -> by (apply Z.eqb_neq; lia).
      exists (Z.to_nat d), (map (fun l => Z.to_nat (l mod d)) level). split; [reflexivity|].
      split.
      * split; [lia|]. intros D. rewrite Z2Nat.id by lia. apply HJS.
      * destruct level_facts as [Hlen Hlev].
        assert (Hnth : forall u, u < n -> nthn (map (fun l => Z.to_nat (l mod d)) level) u = Z.to_nat (zget level u mod d)).
        { intros u Hu. unfold nthn, zget. apply (nth_map_any (fun l => Z.to_nat (l mod d)) level u 0 0%Z). lia. }
        split; [rewrite map_length; exact Hlen|]. split.
        -- intros u Hu. rewrite Hnth by exact Hu. pose proof (Z.mod_pos_bound (zget level u) d Hdpos). lia.
        -- intros u v Hu Hv He. rewrite !Hnth by assumption.
           pose proof (Z.mod_pos_bound (zget level u) d Hdpos). pose proof (Z.mod_pos_bound (zget level v) d Hdpos).
           rewrite !Z2Nat.id by lia.
           apply (edge_next_class n e (zget level) u v Hdpos Hu Hv He).
Qed.

End RepoPeriod.

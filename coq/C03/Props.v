(* C03 property theorems: statements only, each closed by `exact`, with Print Assumptions.
   Vocabulary (Proofs1/3/4):  E n e u v = u<n /\ v<n /\ e u v = true;  reach n e = clos_refl_trans (E n e);
   comm n e u v = reach both ways;  walk n e u v k = walk of length k inside 0..n-1;
   is_period n e p = 0<p /\ forall D, (D | p) <-> D divides the length of every closed walk;
   is_cyclic_proj n e p proj = proj has length n, values < p, and every edge u->v has proj v = (proj u + 1) mod p. *)
From Coq Require Import ZArith List Bool Arith Relations.
From QE Require Import C03.Model C03.Proofs.
Import ListNotations.

(* the Warshall closure is the reflexive-transitive closure of the edge relation *)
Theorem C03_reach_correct : forall n e u v, u < n -> v < n ->
  (reachb n e u v = true <-> clos_refl_trans nat (fun a b => a < n /\ b < n /\ e a b = true) u v).
Proof. exact reach_correct. Qed.
Print Assumptions C03_reach_correct.

(* the reported classes are exactly the equivalence classes of mutual reachability (a partition of 0..n-1) *)
Theorem C03_classes_partition : forall n e,
  (forall u, u < n -> exists c, In c (scc_spec n e) /\ In u c) /\
  (forall c, In c (scc_spec n e) -> c <> [] /\ forall u, In u c -> u < n) /\
  (forall c u v, In c (scc_spec n e) -> In u c -> (In v c <-> v < n /\ comm n e u v)) /\
  (forall c1 c2 u, In c1 (scc_spec n e) -> In c2 (scc_spec n e) -> In u c1 -> In u c2 -> c1 = c2).
Proof.
  intros n e. split; [exact (classes_cover n e)|]. split; [exact (classes_members n e)|].
  split; [exact (classes_equiv n e) | exact (classes_disjoint n e)].
Qed.
Print Assumptions C03_classes_partition.

(* a class is reported recurrent iff no edge leaves it *)
Theorem C03_sink_closed : forall n e c,
  In c (sink_spec n e) <-> In c (scc_spec n e) /\ (forall u v, In u c -> v < n -> e u v = true -> In v c).
Proof. exact sink_spec_correct. Qed.
Print Assumptions C03_sink_closed.

(* _condensation_lil + _find_sink_scc, for any labelling: label k is a sink iff no edge leaves {proj = k} *)
Theorem C03_sink_labels : forall n e num proj k,
  In k (sink_scc_labels num proj (edges n e)) <->
  k < num /\ forall u v, u < n -> v < n -> e u v = true -> nthn proj u = k -> nthn proj v = k.
Proof. exact sink_scc_labels_spec. Qed.
Print Assumptions C03_sink_labels.

(* the repository logic on ANY valid component labelling (whatever numbering SciPy chooses) reports exactly
   the specification's classes and recurrent classes, and is_strongly_connected/is_irreducible is correct *)
Theorem C03_repo_classes : forall n e num proj, 0 < n ->
  valid_labeling n (closure n e) num proj = true ->
  (forall c, In c (scc_indices n num proj) <-> In c (scc_spec n e)) /\
  (forall c, In c (sink_scc_indices n num proj (edges n e)) <-> In c (sink_spec n e)) /\
  (num = 1 <-> forall u v, u < n -> v < n -> reach n e u v).
Proof.
  intros n e num proj Hn Hv. split; [exact (repo_scc_sets n e num proj Hn Hv)|].
  split; [exact (repo_sink_sets n e num proj Hn Hv) | exact (repo_num_one n e num proj Hn Hv)].
Qed.
Print Assumptions C03_repo_classes.

(* Jarvis-Shier: strongly connected graph, ANY level function that is the depth in a spanning tree rooted at 0
   (a walk 0 -> v of length level v exists): the gcd over edges of level u - level v + 1 is the gcd of all
   closed-walk lengths (D divides one iff it divides all the others) *)
Theorem C03_period_is_gcd : forall n e (level : nat -> Z), 0 < n ->
  (forall u v, u < n -> v < n -> reach n e u v) ->
  (forall v, v < n -> (0 <= level v)%Z /\ walk n e 0 v (Z.to_nat (level v))) ->
  forall D, (D | gcd_edges (edges n e) level)%Z <-> (forall u k, walk n e u u k -> (D | Z.of_nat k)%Z).
Proof. exact jarvis_shier. Qed.
Print Assumptions C03_period_is_gcd.

(* _compute_period on ANY valid BFS output (order/predecessors forming a spanning tree rooted at 0): the period is
   the gcd of the closed-walk lengths, and the cyclic projection sends every edge from class k to class k+1 mod period *)
Theorem C03_compute_period_correct : forall n e pred order, 2 <= n ->
  (forall u v, u < n -> v < n -> reach n e u v) ->
  valid_tree n e order pred = true ->
  exists per proj, compute_period n e true order pred = POk per proj /\
    is_period n e per /\ is_cyclic_proj n e per proj.
Proof. intros n e pred order H2 Hsc Hvt. exact (compute_period_correct n e pred H2 Hsc order Hvt). Qed.
Print Assumptions C03_compute_period_correct.

(* the specification-level period (own BFS, no SciPy input) is defined for every strongly connected graph and
   is the gcd of the closed-walk lengths with the cyclic-class property *)
Theorem C03_period_spec_correct : forall n e, 0 < n ->
  (forall u v, u < n -> v < n -> reach n e u v) ->
  (exists per proj, period_spec n e = Some (per, proj)) /\
  (forall per proj, (exists u k, 0 < k /\ walk n e u u k) ->
     period_spec n e = Some (per, proj) -> is_period n e per /\ is_cyclic_proj n e per proj).
Proof.
  intros n e Hn Hsc. split; [exact (period_spec_total n e Hn Hsc)|].
  intros per proj Hc. exact (period_spec_correct n e Hn Hsc per proj Hc).
Qed.
Print Assumptions C03_period_spec_correct.

(* one-node special cases of _compute_period: always period 1; with a self-loop 1 is the gcd of the closed-walk
   lengths, without one there is no closed walk of positive length (documented convention) *)
Theorem C03_one_node : forall e sc order pred,
  compute_period 1 e sc order pred = POk 1 [0] /\
  (e 0 0 = true -> is_period 1 e 1) /\
  (e 0 0 = false -> forall u len, walk 1 e u u len -> len = 0).
Proof. exact one_node_period. Qed.
Print Assumptions C03_one_node.

(* self-loop shortcut (np.any(diagonal > 0)): period 1 is correct, whatever the BFS arguments *)
Theorem C03_selfloop_shortcut : forall n e order pred, 2 <= n -> existsb (fun u => e u u) (seq 0 n) = true ->
  compute_period n e true order pred = POk 1 (repeat 0 n) /\ is_period n e 1.
Proof. exact selfloop_period. Qed.
Print Assumptions C03_selfloop_shortcut.

(* DiGraph.subgraph of a recurrent class: it is strongly connected, and its period is the gcd of the lengths of the
   closed walks of the ORIGINAL graph through members of the class (is_period_class) *)
Theorem C03_subgraph_class : forall n e c, In c (sink_spec n e) ->
  (forall a b, a < length c -> b < length c -> reach (length c) (subgraph e c) a b) /\
  (forall p, is_period (length c) (subgraph e c) p <-> is_period_class n e c p).
Proof.
  intros n e c Hc. destruct (sink_class_facts n e c Hc) as [Hnd [Hlt [Hcl [Hcomm _]]]]. split.
  - exact (sub_strongly_connected n e c Hnd Hlt Hcl Hcomm).
  - exact (period_transfer n e c Hnd Hlt Hcl).
Qed.
Print Assumptions C03_subgraph_class.

(* MarkovChain.period of a REDUCIBLE chain (repository logic on any valid labelling and any valid BFS output on each
   recurrent-class subgraph): the lcm over the recurrent classes of the period of each class, where class_period c p
   means p is the gcd of the closed-walk lengths through c (p = 1 for a single state without self-loop);
   is_aperiodic holds iff that lcm is 1 *)
Theorem C03_mc_period_reducible : forall n e num proj order pred aux, 0 < n ->
  valid_labeling n (closure n e) num proj = true -> num <> 1 ->
  Forall2 (aux_valid e) (sink_scc_indices n num proj (edges n e)) aux ->
  exists ps, Forall2 (class_period n e) (sink_scc_indices n num proj (edges n e)) ps /\
    mc_period n e num proj order pred aux = Z.of_nat (fold_left lcm ps 1) /\
    (mc_is_aperiodic (mc_period n e num proj order pred aux) = 1%Z <-> fold_left lcm ps 1 = 1).
Proof. exact mc_period_reducible. Qed.
Print Assumptions C03_mc_period_reducible.

(* irreducible chain: MarkovChain.period is DiGraph.period = gcd of closed-walk lengths; is_aperiodic <-> period = 1 *)
Theorem C03_mc_period_irreducible : forall n e proj order pred aux, 2 <= n ->
  (forall u v, u < n -> v < n -> reach n e u v) -> valid_tree n e order pred = true ->
  exists per, mc_period n e 1 proj order pred aux = Z.of_nat per /\ is_period n e per /\
    (mc_is_aperiodic (mc_period n e 1 proj order pred aux) = 1%Z <-> per = 1).
Proof. exact mc_period_irreducible. Qed.
Print Assumptions C03_mc_period_irreducible.

(* DiGraph.is_aperiodic = (period == 1) = "only 1 divides all closed-walk lengths" *)
Theorem C03_aperiodic_spec : forall n e per proj, is_period n e per ->
  (dg_is_aperiodic (POk per proj) = 1%Z <-> per = 1) /\
  (per = 1 <-> forall D, (forall u len, walk n e u u len -> (D | Z.of_nat len)%Z) -> (D | 1)%Z).
Proof. exact aperiodic_spec. Qed.
Print Assumptions C03_aperiodic_spec.

(* hypotheses are satisfiable: a 6-cycle with a chord (period 2), SciPy-like BFS tree and labelling *)
Definition ex_adj : list (list nat) := [[1]; [2]; [3; 5]; [4]; [5]; [0]].
Example ex_valid_tree : valid_tree 6 (adj_edge ex_adj) [0; 1; 2; 3; 5; 4] [-9999; 0; 1; 2; 3; 2]%Z = true.
Proof. vm_compute. reflexivity. Qed.
Example ex_valid_labeling : valid_labeling 6 (closure 6 (adj_edge ex_adj)) 1 [0; 0; 0; 0; 0; 0] = true.
Proof. vm_compute. reflexivity. Qed.
Example ex_strongly_connected : forall u v, u < 6 -> v < 6 -> reach 6 (adj_edge ex_adj) u v.
Proof. apply strongly_connectedb_spec. vm_compute. reflexivity. Qed.
Example ex_period : compute_period 6 (adj_edge ex_adj) true [0; 1; 2; 3; 5; 4] [-9999; 0; 1; 2; 3; 2]%Z = POk 2 [0; 1; 0; 1; 0; 1]
                    /\ period_spec 6 (adj_edge ex_adj) = Some (2, [0; 1; 0; 1; 0; 1]).
Proof. vm_compute. split; reflexivity. Qed.
(* a reducible example: transient class {0} feeding the recurrent classes {1,2} and {3} *)
Example ex_reducible : valid_labeling 4 (closure 4 (adj_edge [[1; 3]; [2]; [1]; [3]])) 3 [2; 1; 1; 0] = true
  /\ sink_scc_indices 4 3 [2; 1; 1; 0] (edges 4 (adj_edge [[1; 3]; [2]; [1]; [3]])) = [[3]; [1; 2]]
  /\ sink_spec 4 (adj_edge [[1; 3]; [2]; [1]; [3]]) = [[1; 2]; [3]].
Proof. vm_compute. repeat split; reflexivity. Qed.
(* aux_valid is satisfiable on the reducible example: classes [3] (one node) and [1;2] (2-cycle, BFS order [0;1]) *)
Example ex_aux_valid :
  Forall2 (aux_valid (adj_edge [[1; 3]; [2]; [1]; [3]])) [[3]; [1; 2]] [(true, [], []); (true, [0; 1], [-9999; 0]%Z)]
  /\ mc_period 4 (adj_edge [[1; 3]; [2]; [1]; [3]]) 3 [2; 1; 1; 0] [] [] [(true, [], []); (true, [0; 1], [-9999; 0]%Z)] = 2%Z.
Proof.
  split; [|vm_compute; reflexivity].
  constructor; [split; [reflexivity | intros H; exfalso; simpl in H; apply (Nat.nle_succ_0 _ (le_S_n _ _ H))]|].
  constructor; [split; [reflexivity | intros _ _; vm_compute; reflexivity] | constructor].
Qed.

From Coq Require Import ZArith List Bool Arith.
From QE Require Import C03.Model C03.Proofs.
Import ListNotations.

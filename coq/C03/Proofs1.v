(* C03 proofs, part 1: Warshall closure = reflexive-transitive closure; classes
   are the equivalence classes of mutual reachability; sink test. *)
From Coq Require Import ZArith List Bool Arith Lia Relations.
From QE Require Import C03.Model.
Import ListNotations.

(* ---------------------------------------------------------------- tabulation *)
Lemma nth_map_seq {A} (f : nat -> A) n i d : i < n -> nth i (map f (seq 0 n)) d = f i.
Proof.
  intros H. rewrite (nth_indep _ d (f 0)) by (rewrite map_length, seq_length; exact H).
  rewrite map_nth. rewrite seq_nth by exact H. reflexivity.
Qed.

Lemma bget_btab n f i j : i < n -> j < n -> bget (btab n f) i j = f i j.
Proof.
  intros Hi Hj. unfold bget, btab. rewrite (nth_map_seq _ n i []) by exact Hi.
  apply nth_map_seq; exact Hj.
Qed.

Section Reach.
Variable n : nat.
Variable e : nat -> nat -> bool.

Definition E (u v : nat) : Prop := u < n /\ v < n /\ e u v = true.
Definition reach : nat -> nat -> Prop := clos_refl_trans nat E.
Definition comm (u v : nat) : Prop := reach u v /\ reach v u.

(* paths whose intermediate nodes are all < K *)
Inductive pathK (K : nat) : nat -> nat -> Prop :=
| pk_refl i : pathK K i i
| pk_edge i j : e i j = true -> pathK K i j
| pk_trans i k j : k < K -> pathK K i k -> pathK K k j -> pathK K i j.

Lemma pathK_mono K i j : pathK K i j -> pathK (S K) i j.
Proof.
  induction 1.
  - apply pk_refl.
  - apply pk_edge; assumption.
  - eapply pk_trans; [|eassumption|eassumption]. lia.
Qed.

Lemma pathK_S K i j : pathK (S K) i j <-> pathK K i j \/ (pathK K i K /\ pathK K K j).
Proof.
  split.
  - induction 1 as [i | i j He | i k j Hk H1 IH1 H2 IH2].
    + left; apply pk_refl.
    + left; apply pk_edge; assumption.
    + assert (Hk' : k < K \/ k = K) by lia. destruct Hk' as [Hk' | ->].
      * destruct IH1 as [A | [A1 A2]]; destruct IH2 as [B | [B1 B2]].
        -- left. eapply pk_trans; eassumption.
        -- right. split; [eapply pk_trans; eassumption | assumption].
        -- right. split; [assumption | eapply pk_trans; eassumption].
        -- right. split; assumption.
      * destruct IH1 as [A | [A1 A2]]; destruct IH2 as [B | [B1 B2]].
        -- right; split; assumption.
        -- right; split; assumption.
        -- right; split; assumption.
        -- right; split; assumption.
  - intros [H | [H1 H2]].
    + apply pathK_mono; assumption.
    + eapply pk_trans with (k := K); [lia | apply pathK_mono; assumption | apply pathK_mono; assumption].
Qed.

Definition wfold (K : nat) : bmat := fold_left (fun m k => wstep n k m) (seq 0 K) (closure0 n e).

Lemma wfold_S K : wfold (S K) = wstep n K (wfold K).
Proof. unfold wfold. rewrite seq_S, fold_left_app. reflexivity. Qed.

Lemma wfold_correct K : K <= n -> forall i j, i < n -> j < n ->
  (bget (wfold K) i j = true <-> pathK K i j).
Proof.
  induction K as [|K IH]; intros HK i j Hi Hj.
  - unfold wfold; simpl. unfold closure0. rewrite bget_btab by assumption.
    rewrite orb_true_iff, Nat.eqb_eq. split.
    + intros [-> | He]; [apply pk_refl | apply pk_edge; assumption].
    + induction 1; [left; reflexivity | right; assumption | lia].
  - rewrite wfold_S. unfold wstep. rewrite bget_btab by assumption.
    rewrite orb_true_iff, andb_true_iff.
    rewrite (IH ltac:(lia) i j Hi Hj), (IH ltac:(lia) i K Hi ltac:(lia)), (IH ltac:(lia) K j ltac:(lia) Hj).
    symmetry. apply pathK_S.
Qed.

Lemma pathK_reach i j : pathK n i j -> i < n -> j < n -> reach i j.
Proof.
  induction 1 as [i | i j He | i k j Hk H1 IH1 H2 IH2]; intros Hi Hj.
  - apply rt_refl.
  - apply rt_step. repeat split; assumption.
  - eapply rt_trans; [apply IH1 | apply IH2]; assumption.
Qed.

Lemma reach_pathK i j : reach i j -> pathK n i j.
Proof.
  intros H. apply clos_rt_rt1n_iff in H.
  induction H as [x | x y z [Hx [Hy He]] _ IH].
  - apply pk_refl.
  - eapply pk_trans with (k := y); [assumption | apply pk_edge; assumption | assumption].
Qed.

Lemma closure_wfold : closure n e = wfold n.
Proof. reflexivity. Qed.

Theorem reach_correct u v : u < n -> v < n -> (reachb n e u v = true <-> reach u v).
Proof.
  intros Hu Hv. unfold reachb. rewrite closure_wfold.
  rewrite (wfold_correct n (le_n n) u v Hu Hv). split.
  - intros H; apply pathK_reach; assumption.
  - apply reach_pathK.
Qed.

(* ---------------------------------------------------------------- classes *)
Let m := closure n e.

Lemma mutual_comm u v : u < n -> v < n -> (mutual m u v = true <-> comm u v).
Proof.
  intros Hu Hv. unfold mutual, comm, m. rewrite andb_true_iff.
  change (bget (closure n e) u v) with (reachb n e u v).
  change (bget (closure n e) v u) with (reachb n e v u).
  rewrite (reach_correct u v Hu Hv), (reach_correct v u Hv Hu). reflexivity.
Qed.

Lemma comm_refl u : comm u u.
Proof. split; apply rt_refl. Qed.
Lemma comm_sym u v : comm u v -> comm v u.
Proof. intros [A B]; split; assumption. Qed.
Lemma comm_trans u v w : comm u v -> comm v w -> comm u w.
Proof. intros [A B] [C D]; split; eapply rt_trans; eassumption. Qed.

Lemma in_class_of u v : u < n -> (In v (class_of n m u) <-> v < n /\ comm u v).
Proof.
  intros Hu. unfold class_of. rewrite filter_In, in_seq. split.
  - intros [Hv Hm]. split; [lia|]. apply mutual_comm; [assumption | lia | assumption].
  - intros [Hv Hc]. split; [lia|]. apply mutual_comm; assumption.
Qed.

Lemma is_rep_spec r : r < n -> (is_rep m r = true <-> forall v, v < r -> ~ comm r v).
Proof.
  intros Hr. unfold is_rep. rewrite forallb_forall. split.
  - intros H v Hv Hc. specialize (H v). rewrite in_seq in H. specialize (H ltac:(lia)).
    apply negb_true_iff in H. apply (mutual_comm r v Hr ltac:(lia)) in Hc. congruence.
  - intros H v Hv. rewrite in_seq in Hv. apply negb_true_iff.
    destruct (mutual m r v) eqn:Em; [|reflexivity].
    exfalso. apply (H v ltac:(lia)). apply mutual_comm; [assumption | lia | assumption].
Qed.

Lemma in_classes c : In c (classes n m) <-> exists r, r < n /\ is_rep m r = true /\ c = class_of n m r.
Proof.
  unfold classes. rewrite in_map_iff. split.
  - intros [r [Hc Hr]]. rewrite filter_In, in_seq in Hr. exists r. repeat split; [lia | tauto | congruence].
  - intros [r [Hr [Hrep Hc]]]. exists r. split; [congruence|]. rewrite filter_In, in_seq. split; [lia | assumption].
Qed.

(* least element with a decidable property *)
Lemma least_witness (P : nat -> Prop) (Pdec : forall x, P x \/ ~ P x) u :
  P u -> exists r, r <= u /\ P r /\ forall v, v < r -> ~ P v.
Proof.
  induction u as [u IH] using lt_wf_ind. intros Hu.
  assert (D : (exists v, v < u /\ P v) \/ (forall v, v < u -> ~ P v)).
  { clear IH Hu. induction u as [|u IHu].
    - right; intros v Hv; lia.
    - destruct IHu as [[v [Hv Pv]] | Hnone].
      + left; exists v; split; [lia | assumption].
      + destruct (Pdec u) as [Pu | Pu].
        * left; exists u; split; [lia | assumption].
        * right; intros v Hv. assert (v < u \/ v = u) as [Hlt | ->] by lia; [apply Hnone; assumption | assumption]. }
  destruct D as [[v [Hv Pv]] | Hnone].
  - destruct (IH v Hv Pv) as [r [Hr [Pr Hmin]]]. exists r. split; [lia | split; assumption].
  - exists u. split; [lia | split; assumption].
Qed.

Lemma comm_dec u v : u < n -> v < n -> comm u v \/ ~ comm u v.
Proof.
  intros Hu Hv. destruct (mutual m u v) eqn:Em.
  - left; apply mutual_comm; assumption.
  - right; intros H. apply (mutual_comm u v Hu Hv) in H. congruence.
Qed.

Lemma rep_exists u : u < n -> exists r, r < n /\ is_rep m r = true /\ comm r u.
Proof.
  intros Hu.
  destruct (least_witness (fun x => x < n /\ comm u x)) with (u := u) as [r [Hr [[Hrn Hc] Hmin]]].
  - intros x. destruct (lt_dec x n) as [Hx | Hx].
    + destruct (comm_dec u x Hu Hx) as [A | A]; [left; split; assumption | right; intros [_ B]; contradiction].
    + right; intros [A _]; contradiction.
  - split; [assumption | apply comm_refl].
  - exists r. split; [assumption|]. split.
    + apply is_rep_spec; [assumption|]. intros v Hv Hc'. apply (Hmin v Hv). split; [lia|].
      eapply comm_trans; eassumption.
    + apply comm_sym; assumption.
Qed.

Theorem classes_cover u : u < n -> exists c, In c (classes n m) /\ In u c.
Proof.
  intros Hu. destruct (rep_exists u Hu) as [r [Hr [Hrep Hc]]].
  exists (class_of n m r). split.
  - apply in_classes. exists r; repeat split; assumption.
  - apply in_class_of; [assumption | split; assumption].
Qed.

Theorem classes_members c : In c (classes n m) -> c <> [] /\ forall u, In u c -> u < n.
Proof.
  intros Hc. apply in_classes in Hc. destruct Hc as [r [Hr [Hrep ->]]]. split.
  - intros Hnil. assert (In r (class_of n m r)) as Hin.
    { apply in_class_of; [assumption | split; [assumption | apply comm_refl]]. }
    rewrite Hnil in Hin. destruct Hin.
  - intros u Hu. apply in_class_of in Hu; tauto.
Qed.

Theorem classes_equiv c u v : In c (classes n m) -> In u c -> (In v c <-> v < n /\ comm u v).
Proof.
  intros Hc Hu. apply in_classes in Hc. destruct Hc as [r [Hr [Hrep ->]]].
  apply (in_class_of r u Hr) in Hu. destruct Hu as [Hun Hru].
  rewrite (in_class_of r v Hr). split.
  - intros [Hv Hrv]. split; [assumption|]. eapply comm_trans; [apply comm_sym; eassumption | assumption].
  - intros [Hv Huv]. split; [assumption|]. eapply comm_trans; eassumption.
Qed.

Theorem classes_disjoint c1 c2 u : In c1 (classes n m) -> In c2 (classes n m) -> In u c1 -> In u c2 -> c1 = c2.
Proof.
  intros H1 H2 U1 U2. apply in_classes in H1, H2.
  destruct H1 as [r1 [Hr1 [Hrep1 ->]]]. destruct H2 as [r2 [Hr2 [Hrep2 ->]]].
  apply (in_class_of r1 u Hr1) in U1. apply (in_class_of r2 u Hr2) in U2.
  destruct U1 as [Hu C1]. destruct U2 as [_ C2].
  assert (C12 : comm r1 r2) by (eapply comm_trans; [eassumption | apply comm_sym; assumption]).
  assert (r1 = r2) as ->; [|reflexivity].
  pose proof (proj1 (is_rep_spec r1 Hr1) Hrep1) as M1.
  pose proof (proj1 (is_rep_spec r2 Hr2) Hrep2) as M2.
  destruct (lt_eq_lt_dec r1 r2) as [[Hlt | Heq] | Hgt]; [| assumption |].
  - exfalso. apply (M2 r1 Hlt). apply comm_sym; assumption.
  - exfalso. apply (M1 r2 Hgt). assumption.
Qed.

Lemma classes_NoDup_rep : forall r, r < n -> is_rep m r = true -> hd 0 (class_of n m r) = r.
Proof.
  intros r Hr Hrep.
  (* the first element of the ascending filter is the least member, i.e. r itself *)
  unfold class_of.
  assert (G : forall a len, a <= r < a + len -> (forall v, a <= v < r -> mutual m r v = false) ->
              hd 0 (filter (mutual m r) (seq a len)) = r).
  { intros a len. revert a. induction len as [|len IH]; intros a Ha Hf; [lia|].
    simpl. destruct (Nat.eq_dec a r) as [-> | Hne].
    - assert (mutual m r r = true) as -> by (apply mutual_comm; [assumption | assumption | apply comm_refl]).
      reflexivity.
    - rewrite (Hf a ltac:(lia)). apply IH; [lia|]. intros v Hv; apply Hf; lia. }
  apply G; [lia|]. intros v Hv.
  destruct (mutual m r v) eqn:Em; [|reflexivity].
  exfalso. apply (proj1 (is_rep_spec r Hr) Hrep v ltac:(lia)). apply mutual_comm; [assumption | lia | assumption].
Qed.

(* ---------------------------------------------------------------- sinks *)
Lemma mem_In v c : mem v c = true <-> In v c.
Proof.
  unfold mem. rewrite existsb_exists. split.
  - intros [x [Hx He]]. apply Nat.eqb_eq in He. subst. assumption.
  - intros H. exists v. split; [assumption | apply Nat.eqb_refl].
Qed.

Theorem is_sink_spec c : is_sink n e c = true <-> (forall u v, In u c -> v < n -> e u v = true -> In v c).
Proof.
  unfold is_sink. rewrite forallb_forall. split.
  - intros H u v Hu Hv He. specialize (H u Hu). rewrite forallb_forall in H.
    specialize (H v). rewrite in_seq in H. specialize (H ltac:(lia)).
    rewrite He in H. simpl in H. apply mem_In; assumption.
  - intros H u Hu. rewrite forallb_forall. intros v Hv. rewrite in_seq in Hv.
    destruct (e u v) eqn:He; [|reflexivity]. simpl. apply mem_In. apply (H u v Hu ltac:(lia) He).
Qed.

Theorem sink_spec_correct c :
  In c (sink_spec n e) <-> In c (scc_spec n e) /\ (forall u v, In u c -> v < n -> e u v = true -> In v c).
Proof. unfold sink_spec. rewrite filter_In, is_sink_spec. reflexivity. Qed.

Theorem strongly_connectedb_spec :
  strongly_connectedb n e = true <-> (forall u v, u < n -> v < n -> reach u v).
Proof.
  unfold strongly_connectedb. rewrite forallb_forall. split.
  - intros H u v Hu Hv. specialize (H u). rewrite in_seq in H. specialize (H ltac:(lia)).
    rewrite forallb_forall in H. specialize (H v). rewrite in_seq in H. specialize (H ltac:(lia)).
    apply reach_correct; assumption.
  - intros H u Hu. rewrite in_seq in Hu. rewrite forallb_forall. intros v Hv. rewrite in_seq in Hv.
    apply (reach_correct u v ltac:(lia) ltac:(lia)). apply H; lia.
Qed.

End Reach.

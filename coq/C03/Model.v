(* C03 model: quantecon/_graph_tools.py (DiGraph) and the class/period API of
   quantecon/markov/core.py (MarkovChain).

   Part 1 (Spec): executable specification-level graph library on nat/bool:
     adjacency e : nat -> nat -> bool on nodes 0..n-1, reachability by Warshall
     closure, classes of mutual reachability, sink classes, BFS levels from
     node 0, period = gcd over edges of (level u - level v + 1), cyclic
     classes = level mod period, lcm over recurrent classes.
   Part 2 (Repo): the repository's own logic around scipy.sparse.csgraph, with
     SciPy's outputs (component count/labels of connected_components, node
     order/predecessors of breadth_first_order) as INPUTS of the model:
     _condensation_lil, _find_sink_scc, (sink_)strongly_connected_components_indices,
     _compute_period, cyclic_components_indices, subgraph, MarkovChain.period etc.
   Executable definitions only; proofs are in Proofs*.v. *)
From Coq Require Import ZArith List Bool Arith.
Import ListNotations.

(* ------------------------------------------------------------------ basics *)
Definition bmat := list (list bool).
Definition bget (m : bmat) (i j : nat) : bool := nth j (nth i m []) false.
Definition btab (n : nat) (f : nat -> nat -> bool) : bmat :=
  map (fun i => map (f i) (seq 0 n)) (seq 0 n).

Definition mem (v : nat) (c : list nat) : bool := existsb (Nat.eqb v) c.
Definition nthn (l : list nat) (i : nat) : nat := nth i l 0.

(* adjacency lists (row u = CSR column indices of row u) -> edge predicate *)
Definition adj_edge (adj : list (list nat)) (u v : nat) : bool := mem v (nth u adj []).

(* all edges in CSR order: rows ascending, columns ascending *)
Definition edges (n : nat) (e : nat -> nat -> bool) : list (nat * nat) :=
  flat_map (fun u => map (fun v => (u, v)) (filter (e u) (seq 0 n))) (seq 0 n).

(* =================================================================== Part 1 *)
(* Warshall: after processing k, m i j <-> path whose intermediate nodes are <= k *)
Definition wstep (n k : nat) (m : bmat) : bmat :=
  btab n (fun i j => bget m i j || (bget m i k && bget m k j)).
Definition closure0 (n : nat) (e : nat -> nat -> bool) : bmat :=
  btab n (fun i j => (i =? j) || e i j).
Definition closure (n : nat) (e : nat -> nat -> bool) : bmat :=
  fold_left (fun m k => wstep n k m) (seq 0 n) (closure0 n e).
Definition reachb (n : nat) (e : nat -> nat -> bool) (u v : nat) : bool := bget (closure n e) u v.

(* communication classes = classes of mutual reachability, each listed
   ascending, ordered by their least element *)
Definition mutual (m : bmat) (u v : nat) : bool := bget m u v && bget m v u.
Definition class_of (n : nat) (m : bmat) (u : nat) : list nat := filter (mutual m u) (seq 0 n).
Definition is_rep (m : bmat) (u : nat) : bool := forallb (fun v => negb (mutual m u v)) (seq 0 u).
Definition classes (n : nat) (m : bmat) : list (list nat) :=
  map (class_of n m) (filter (is_rep m) (seq 0 n)).
Definition scc_spec (n : nat) (e : nat -> nat -> bool) := classes n (closure n e).

(* a class is a sink (recurrent) iff no edge leaves it *)
Definition is_sink (n : nat) (e : nat -> nat -> bool) (c : list nat) : bool :=
  forallb (fun u => forallb (fun v => negb (e u v) || mem v c) (seq 0 n)) c.
Definition sink_spec (n : nat) (e : nat -> nat -> bool) : list (list nat) :=
  filter (is_sink n e) (scc_spec n e).
Definition strongly_connectedb (n : nat) (e : nat -> nat -> bool) : bool :=
  let m := closure n e in forallb (fun u => forallb (fun v => bget m u v) (seq 0 n)) (seq 0 n).

(* BFS levels from node 0. Round t gives level t+1 to every unlabelled node
   with an edge from a level-t node; stop at the first round adding nothing.
   Out of fuel -> None (never a normal-looking value). *)
Definition lv (L : list (option nat)) (u : nat) : option nat := nth u L None.
Definition is_some {A} (o : option A) : bool := match o with Some _ => true | None => false end.
Definition at_level (L : list (option nat)) (t u : nat) : bool :=
  match lv L u with Some l => l =? t | None => false end.
Definition bfs_new (n : nat) (e : nat -> nat -> bool) (t : nat) (L : list (option nat)) (v : nat) : bool :=
  negb (is_some (lv L v)) && existsb (fun u => at_level L t u && e u v) (seq 0 n).
Definition bfs_round (n : nat) (e : nat -> nat -> bool) (t : nat) (L : list (option nat)) : list (option nat) :=
  map (fun v => if bfs_new n e t L v then Some (S t) else lv L v) (seq 0 n).
Fixpoint bfs_iter (fuel n : nat) (e : nat -> nat -> bool) (t : nat) (L : list (option nat)) : option (list (option nat)) :=
  match fuel with
  | O => None
  | S f => if existsb (bfs_new n e t L) (seq 0 n) then bfs_iter f n e (S t) (bfs_round n e t L) else Some L
  end.
Definition bfs_init (n : nat) : list (option nat) := map (fun v => if v =? 0 then Some 0 else None) (seq 0 n).
Definition bfs_levels (n : nat) (e : nat -> nat -> bool) : option (list (option nat)) :=
  bfs_iter (S n) n e 0 (bfs_init n).

Definition edge_val (level : nat -> Z) (uv : nat * nat) : Z := (level (fst uv) - level (snd uv) + 1)%Z.
Definition gcd_edges (es : list (nat * nat)) (level : nat -> Z) : Z :=
  fold_left (fun d uv => Z.gcd d (edge_val level uv)) es 0%Z.

Definition lvZ (L : list (option nat)) (u : nat) : Z :=
  match lv L u with Some l => Z.of_nat l | None => 0%Z end.

(* period and cyclic projection of a graph all of whose nodes are reachable from 0;
   None if some node is not reached (then the graph is not strongly connected) *)
Definition period_spec (n : nat) (e : nat -> nat -> bool) : option (nat * list nat) :=
  match bfs_levels n e with
  | None => None
  | Some L =>
    if forallb (fun u => is_some (lv L u)) (seq 0 n) then
      let d := gcd_edges (edges n e) (lvZ L) in
      Some (Z.to_nat d, map (fun u => Z.to_nat (lvZ L u mod d)) (seq 0 n))
    else None
  end.

Definition where_eq (n : nat) (proj : list nat) (k : nat) : list nat :=
  filter (fun u => nthn proj u =? k) (seq 0 n).
Definition cyclic_spec (n : nat) (e : nat -> nat -> bool) : option (list (list nat)) :=
  match period_spec n e with
  | Some (d, proj) => Some (map (where_eq n proj) (seq 0 d))
  | None => None
  end.

Definition subgraph (e : nat -> nat -> bool) (nodes : list nat) : nat -> nat -> bool :=
  fun i j => e (nthn nodes i) (nthn nodes j).
Definition lcm (a b : nat) : nat := a * b / Nat.gcd a b.

(* period of a chain: period of the graph if it is one class, else lcm over recurrent classes *)
Definition mc_period_spec (n : nat) (e : nat -> nat -> bool) : option nat :=
  fold_left (fun acc c => match acc, period_spec (length c) (subgraph e c) with
                          | Some d, Some (p, _) => Some (lcm d p)
                          | _, _ => None
                          end) (sink_spec n e) (Some 1).

(* =================================================================== Part 2 *)
(* _condensation_lil: the lil matrix as its list of rows (lists of column labels);
   only emptiness of a row is read afterwards, so insertion order is immaterial *)
Definition add_col (row : list nat) (b : nat) : list nat := if mem b row then row else row ++ [b].
Fixpoint upd_row (rows : list (list nat)) (a b : nat) : list (list nat) :=
  match rows, a with
  | [], _ => []
  | r :: rs, O => add_col r b :: rs
  | r :: rs, S a' => r :: upd_row rs a' b
  end.
Definition cond_step (proj : list nat) (rows : list (list nat)) (uv : nat * nat) : list (list nat) :=
  let a := nthn proj (fst uv) in let b := nthn proj (snd uv) in
  if a =? b then rows else upd_row rows a b.
Definition condensation_lil (num : nat) (proj : list nat) (es : list (nat * nat)) : list (list nat) :=
  fold_left (cond_step proj) es (repeat [] num).
(* _find_sink_scc: np.where(np.logical_not(condensation_lil.rows))[0] *)
Definition is_nil {A} (l : list A) : bool := match l with [] => true | _ => false end.
Definition sink_scc_labels (num : nat) (proj : list nat) (es : list (nat * nat)) : list nat :=
  filter (fun k => is_nil (nth k (condensation_lil num proj es) [])) (seq 0 num).

Definition scc_indices (n num : nat) (proj : list nat) : list (list nat) :=
  if num =? 1 then [seq 0 n] else map (where_eq n proj) (seq 0 num).
Definition sink_scc_indices (n num : nat) (proj : list nat) (es : list (nat * nat)) : list (list nat) :=
  if num =? 1 then [seq 0 n] else map (where_eq n proj) (sink_scc_labels num proj es).

(* _compute_period *)
Inductive pres := PNotImpl | PInvalid | POk (d : nat) (proj : list nat).

Fixpoint set_nth {A} (l : list A) (i : nat) (x : A) : list A :=
  match l, i with
  | [], _ => []
  | _ :: r, O => x :: r
  | y :: r, S i' => y :: set_nth r i' x
  end.
Definition zget (l : list Z) (i : nat) : Z := nth i l 0%Z.
(* level = zeros(n); for i in range(1, n): level[order[i]] = level[pred[order[i]]] + 1 *)
Definition level_step (pred : list Z) (level : list Z) (v : nat) : list Z :=
  set_nth level v (zget level (Z.to_nat (zget pred v)) + 1)%Z.
Definition levels (n : nat) (order : list nat) (pred : list Z) : list Z :=
  fold_left (level_step pred) (tl order) (repeat 0%Z n).
(* reconstruct_path: tree edge (pred[v], v) for every v with pred[v] >= 0;
   non_bfs_tree = csgraph - tree with zeros eliminated *)
Definition is_tree_edge (pred : list Z) (uv : nat * nat) : bool :=
  (nth (snd uv) pred (-1) =? Z.of_nat (fst uv))%Z.
(* d = 0; for edge: d = gcd(d, level[u]-level[v]+1); if d == 1: return (period 1) *)
Fixpoint gcd_loop (es : list (nat * nat)) (level : list Z) (d : Z) : Z :=
  match es with
  | [] => d
  | uv :: r => let d' := Z.gcd d (edge_val (zget level) uv) in
               if (d' =? 1)%Z then 1%Z else gcd_loop r level d'
  end.

Definition compute_period (n : nat) (e : nat -> nat -> bool) (is_sc : bool)
           (order : list nat) (pred : list Z) : pres :=
  if n =? 1 then POk 1 [0]
  else if negb is_sc then PNotImpl
  else if existsb (fun u => e u u) (seq 0 n) then POk 1 (repeat 0 n)
  else if negb (length order =? n) then PInvalid
  else
    let level := levels n order pred in
    let nontree := filter (fun uv => negb (is_tree_edge pred uv)) (edges n e) in
    let d := gcd_loop nontree level 0%Z in
    if (d =? 1)%Z then POk 1 (repeat 0 n)
    else if (d =? 0)%Z then PInvalid
    else POk (Z.to_nat d) (map (fun l => Z.to_nat (l mod d)) level).

Definition cyclic_indices (n : nat) (r : pres) : option (list (list nat)) :=
  match r with
  | POk d proj => Some (if d =? 1 then [seq 0 n] else map (where_eq n proj) (seq 0 d))
  | _ => None
  end.
Definition period_code (r : pres) : Z :=
  match r with POk d _ => Z.of_nat d | PNotImpl => (-1)%Z | PInvalid => (-2)%Z end.

(* DiGraph.is_aperiodic = (period == 1): 1 / 0, or the error code of period *)
Definition dg_is_aperiodic (r : pres) : Z :=
  match r with POk d _ => if d =? 1 then 1%Z else 0%Z | _ => period_code r end.
(* MarkovChain.is_aperiodic: irreducible -> digraph.is_aperiodic, else period == 1; both are (period == 1) *)
Definition mc_is_aperiodic (per : Z) : Z :=
  if (per <? 0)%Z then per else if (per =? 1)%Z then 1%Z else 0%Z.

(* MarkovChain.period: irreducible -> digraph.period; else lcm over
   digraph.subgraph(rec_class).period; aux = SciPy's outputs on each subgraph *)
Definition bfs_aux := (bool * list nat * list Z)%type.
Fixpoint mc_period_loop (e : nat -> nat -> bool) (cls : list (list nat)) (aux : list bfs_aux) (d : nat) : Z :=
  match cls, aux with
  | [], _ => Z.of_nat d
  | c :: cs, (sc, o, p) :: aux' =>
      match compute_period (length c) (subgraph e c) sc o p with
      | POk per _ => mc_period_loop e cs aux' (d * per / Nat.gcd d per)
      | r => period_code r
      end
  | _ :: _, [] => (-2)%Z
  end.
Definition mc_period (n : nat) (e : nat -> nat -> bool) (num : nat) (proj : list nat)
           (order : list nat) (pred : list Z) (aux : list bfs_aux) : Z :=
  if num =? 1 then period_code (compute_period n e true order pred)
  else mc_period_loop e (sink_scc_indices n num proj (edges n e)) aux 1.

(* annotate_nodes: node_labels[c] for each component c *)
Definition annotate (labels : list Z) (comps : list (list nat)) : list (list Z) :=
  map (map (fun i => nth i labels 0%Z)) comps.

(* ------------------------------------------------- validity of SciPy's outputs
   (the hypotheses of the theorems; evaluated on every correspondence case) *)
Definition valid_labeling (n : nat) (m : bmat) (num : nat) (proj : list nat) : bool :=
  (length proj =? n) &&
  forallb (fun u => nthn proj u <? num) (seq 0 n) &&
  forallb (fun k => existsb (fun u => nthn proj u =? k) (seq 0 n)) (seq 0 num) &&
  forallb (fun u => forallb (fun v => Bool.eqb (nthn proj u =? nthn proj v) (mutual m u v)) (seq 0 n)) (seq 0 n).

(* order lists every node once starting with 0, and each later node's
   predecessor is an earlier node with an edge to it *)
Fixpoint valid_order (n : nat) (e : nat -> nat -> bool) (pred : list Z) (seen : list nat) (rest : list nat) : bool :=
  match rest with
  | [] => true
  | v :: r => (v <? n) && negb (mem v seen) &&
              (let p := zget pred v in (0 <=? p)%Z && mem (Z.to_nat p) seen && e (Z.to_nat p) v) &&
              valid_order n e pred (v :: seen) r
  end.
Definition valid_tree (n : nat) (e : nat -> nat -> bool) (order : list nat) (pred : list Z) : bool :=
  match order with
  | 0 :: r => (length order =? n) && (length pred =? n) && (zget pred 0 <? 0)%Z && valid_order n e pred [0] r
  | _ => false
  end.

(* ------------------------------------------------- correspondence comparisons *)
Fixpoint list_eqb {A} (eqb : A -> A -> bool) (a b : list A) : bool :=
  match a, b with
  | [], [] => true
  | x :: a', y :: b' => eqb x y && list_eqb eqb a' b'
  | _, _ => false
  end.
Definition nats_eqb := list_eqb Nat.eqb.
Definition natss_eqb := list_eqb nats_eqb.
Definition onatss_eqb (a b : option (list (list nat))) : bool :=
  match a, b with Some x, Some y => natss_eqb x y | None, None => true | _, _ => false end.

(* canonical form of a set of disjoint ascending lists: sort by head *)
Fixpoint ins_by_hd (c : list nat) (l : list (list nat)) : list (list nat) :=
  match l with
  | [] => [c]
  | x :: r => if hd 0 c <=? hd 0 x then c :: l else x :: ins_by_hd c r
  end.
Definition canon (l : list (list nat)) : list (list nat) := fold_right ins_by_hd [] l.

(* one correspondence case: input graph, SciPy's raw outputs, implementation outputs *)
Record gcase := {
  g_n : nat; g_adj : list (list nat);
  s_num : nat; s_proj : list nat;                 (* connected_components *)
  s_order : list nat; s_pred : list Z;            (* breadth_first_order (empty if not called) *)
  s_aux : list bfs_aux;                           (* per recurrent class subgraph: (is_sc, order, pred) *)
  i_scc : list (list nat); i_sink : list (list nat);
  i_period : Z;                                   (* DiGraph.period, -1 = NotImplementedError *)
  i_cyclic : option (list (list nat));            (* DiGraph.cyclic_components_indices *)
  i_mc_period : Z;                                (* MarkovChain.period; -3 = no MarkovChain in this case *)
  i_aper : Z;                                     (* DiGraph.is_aperiodic: 1/0, -1 = NotImplementedError *)
  i_mc_aper : Z;                                  (* MarkovChain.is_aperiodic: 1/0, -3 = not applicable *)
}.

Definition check_repo (c : gcase) : bool :=
  let n := g_n c in let e := adj_edge (g_adj c) in
  let es := edges n e in
  let r := compute_period n e (s_num c =? 1) (s_order c) (s_pred c) in
  natss_eqb (scc_indices n (s_num c) (s_proj c)) (i_scc c) &&
  natss_eqb (sink_scc_indices n (s_num c) (s_proj c) es) (i_sink c) &&
  (period_code r =? i_period c)%Z &&
  onatss_eqb (cyclic_indices n r) (i_cyclic c) &&
  (dg_is_aperiodic r =? i_aper c)%Z &&
  ((i_mc_period c =? -3)%Z ||   (* -3: DiGraph-only case, MarkovChain.period not observed *)
   ((mc_period n e (s_num c) (s_proj c) (s_order c) (s_pred c) (s_aux c) =? i_mc_period c)%Z &&
    (mc_is_aperiodic (mc_period n e (s_num c) (s_proj c) (s_order c) (s_pred c) (s_aux c)) =? i_mc_aper c)%Z)).

Definition check_valid (c : gcase) : bool :=
  let n := g_n c in let e := adj_edge (g_adj c) in
  valid_labeling n (closure n e) (s_num c) (s_proj c) &&
  (if (s_num c =? 1) && negb (n =? 1) && negb (existsb (fun u => e u u) (seq 0 n))
   then valid_tree n e (s_order c) (s_pred c) else true).

Definition is_none {A} (o : option A) : bool := match o with None => true | Some _ => false end.

(* i_mc_period = -3: case built from a DiGraph only (possibly with empty rows), no MarkovChain *)
Definition check_spec (c : gcase) : bool :=
  let n := g_n c in let e := adj_edge (g_adj c) in
  natss_eqb (scc_spec n e) (canon (i_scc c)) &&
  natss_eqb (sink_spec n e) (canon (i_sink c)) &&
  Bool.eqb (strongly_connectedb n e) (s_num c =? 1) &&
  (if strongly_connectedb n e then
     if (n =? 1) && negb (e 0 0) then
       (* documented special case: a single node without self-loop has period 1 *)
       (i_period c =? 1)%Z && onatss_eqb (Some [[0]]) (i_cyclic c)
     else
       match period_spec n e with
       | Some (d, _) => (Z.of_nat d =? i_period c)%Z
       | None => false
       end && onatss_eqb (cyclic_spec n e) (i_cyclic c)
   else (i_period c =? -1)%Z && is_none (i_cyclic c)) &&
  ((i_mc_period c =? -3)%Z ||
   match mc_period_spec n e with
   | Some d => (Z.of_nat d =? i_mc_period c)%Z
   | None => false
   end).

Definition check_case (c : gcase) : bool := check_repo c && check_valid c && check_spec c.

From Coq Require Import ZArith List Bool Arith Lia.
From QE Require Import C03.Model.
Import ListNotations.

(* C03 proofs: see Proofs1 (closure, classes, sinks), Proofs2 (repository logic on any valid labelling),
   Proofs3 (walks, Jarvis-Shier), Proofs4 (_compute_period on any valid BFS tree), Proofs5 (specification BFS),
   Proofs6 (subgraph of a recurrent class, one-node cases, lcm rule of MarkovChain.period, is_aperiodic). *)
From QE Require Export C03.Proofs1 C03.Proofs2 C03.Proofs3 C03.Proofs4 C03.Proofs5 C03.Proofs6.

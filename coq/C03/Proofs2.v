(* C03 proofs, part 2: the repository logic (_condensation_lil, _find_sink_scc,
   (sink_)strongly_connected_components_indices) applied to ANY valid component
   labelling returns exactly the classes / sink classes of the specification. *)
From Coq Require Import ZArith List Bool Arith Lia Relations.
From QE Require Import C03.Model C03.Proofs1.
Import ListNotations.

Lemma in_edges n e u v : In (u, v) (edges n e) <-> u < n /\ v < n /\ e u v = true.
Proof.
  unfold edges. rewrite in_flat_map. split.
  - intros [x [Hx Hin]]. rewrite in_map_iff in Hin. destruct Hin as [y [Heq Hy]].
    inversion Heq; subst. rewrite filter_In in Hy. rewrite in_seq in *. repeat split; try lia. tauto.
  - intros [Hu [Hv He]]. exists u. split; [rewrite in_seq; lia|].
    rewrite in_map_iff. exists v. split; [reflexivity|]. rewrite filter_In, in_seq. split; [lia | assumption].
Qed.

(* ------------------------------------------------------------- condensation *)
Lemma upd_row_length rows a b : length (upd_row rows a b) = length rows.
Proof. revert a; induction rows as [|r rs IH]; intros [|a]; simpl; auto. Qed.

Lemma upd_row_nth rows a b k :
  nth k (upd_row rows a b) [] =
  if (k =? a) && (a <? length rows) then add_col (nth a rows []) b else nth k rows [].
Proof.
  revert a k; induction rows as [|r rs IH]; intros a k.
  - simpl. rewrite andb_false_r. destruct a, k; reflexivity.
  - destruct a as [|a]; destruct k as [|k]; simpl; try reflexivity.
    rewrite IH. reflexivity.
Qed.

Lemma add_col_nonnil r b : add_col r b <> [].
Proof.
  unfold add_col. destruct (mem b r) eqn:Em.
  - intros ->. discriminate.
  - destruct r; discriminate.
Qed.

Lemma cond_fold_length proj es rows : length (fold_left (cond_step proj) es rows) = length rows.
Proof.
  revert rows; induction es as [|uv es IH]; intros rows; simpl; [reflexivity|].
  rewrite IH. unfold cond_step. destruct (_ =? _); [reflexivity | apply upd_row_length].
Qed.

Lemma cond_fold_row proj es : forall rows k,
  k < length rows ->
  (nth k (fold_left (cond_step proj) es rows) [] <> [] <->
   nth k rows [] <> [] \/ exists uv, In uv es /\ nthn proj (fst uv) = k /\ nthn proj (snd uv) <> k).
Proof.
  induction es as [|uv es IH]; intros rows k Hk; simpl.
  - split; [intros H; left; exact H | intros [H | [uv [[] _]]]; exact H].
  - rewrite IH.
    2:{ unfold cond_step. destruct (_ =? _); [assumption | rewrite upd_row_length; assumption]. }
    unfold cond_step. destruct (nthn proj (fst uv) =? nthn proj (snd uv)) eqn:Eab.
    + apply Nat.eqb_eq in Eab. split.
      * intros [H | [x [Hx Hp]]]; [left; exact H | right; exists x; split; [right; exact Hx | exact Hp]].
      * intros [H | [x [[-> | Hx] [Hp1 Hp2]]]]; [left; exact H | exfalso; congruence | right; exists x; tauto].
    + apply Nat.eqb_neq in Eab. rewrite upd_row_nth.
      destruct (k =? nthn proj (fst uv)) eqn:Ek; simpl.
      * apply Nat.eqb_eq in Ek. assert (nthn proj (fst uv) <? length rows = true) as -> by (apply Nat.ltb_lt; lia).
        split.
        -- intros _. right. exists uv. split; [left; reflexivity | split; [congruence | congruence]].
        -- intros _. left. apply add_col_nonnil.
      * apply Nat.eqb_neq in Ek. split.
        -- intros [H | [x [Hx Hp]]]; [left; exact H | right; exists x; split; [right; exact Hx | exact Hp]].
        -- intros [H | [x [[-> | Hx] [Hp1 Hp2]]]]; [left; exact H | exfalso; congruence | right; exists x; tauto].
Qed.

Lemma nth_repeat_nil {A} k num : nth k (repeat (@nil A) num) [] = [].
Proof. revert k; induction num; intros [|k]; simpl; auto. Qed.

Lemma is_nil_true {A} (l : list A) : is_nil l = true <-> l = [].
Proof. destruct l; simpl; split; congruence. Qed.

Theorem sink_scc_labels_spec n e num proj k :
  In k (sink_scc_labels num proj (edges n e)) <->
  k < num /\ forall u v, u < n -> v < n -> e u v = true -> nthn proj u = k -> nthn proj v = k.
Proof.
  unfold sink_scc_labels, condensation_lil. rewrite filter_In, in_seq, is_nil_true. split.
  - intros [Hk Hnil]. split; [lia|]. intros u v Hu Hv He Hpu.
    destruct (Nat.eq_dec (nthn proj v) k) as [Heq | Hne]; [assumption|]. exfalso.
    assert (nth k (fold_left (cond_step proj) (edges n e) (repeat [] num)) [] <> []) as Hc; [|contradiction].
    apply cond_fold_row; [rewrite repeat_length; lia|].
    right. exists (u, v). split; [apply in_edges; tauto | simpl; tauto].
  - intros [Hk Hcl]. split; [lia|].
    destruct (nth k (fold_left (cond_step proj) (edges n e) (repeat [] num)) []) eqn:Erow; [reflexivity|].
    exfalso.
    assert (nth k (fold_left (cond_step proj) (edges n e) (repeat [] num)) [] <> []) as Hc by (rewrite Erow; discriminate).
    apply cond_fold_row in Hc; [|rewrite repeat_length; lia].
    destruct Hc as [Hc | [[u v] [Hin [Hp1 Hp2]]]].
    + rewrite nth_repeat_nil in Hc. congruence.
    + simpl in *. apply in_edges in Hin. destruct Hin as [Hu [Hv He]]. apply Hp2. apply (Hcl u v); assumption.
Qed.

(* ------------------------------------------------------------- valid labelling *)
Section Labelling.
Variable n : nat.
Variable e : nat -> nat -> bool.
Variable num : nat.
Variable proj : list nat.
Hypothesis Hn : 0 < n.
Hypothesis Hvalid : valid_labeling n (closure n e) num proj = true.

Local Notation m := (closure n e).

Lemma vl_range u : u < n -> nthn proj u < num.
Proof.
  intros Hu. unfold valid_labeling in Hvalid. repeat rewrite andb_true_iff in Hvalid.
  destruct Hvalid as [[[_ H] _] _]. rewrite forallb_forall in H. specialize (H u).
  rewrite in_seq in H. apply Nat.ltb_lt. apply H. lia.
Qed.

Lemma vl_surj k : k < num -> exists u, u < n /\ nthn proj u = k.
Proof.
  intros Hk. unfold valid_labeling in Hvalid. repeat rewrite andb_true_iff in Hvalid.
  destruct Hvalid as [[_ H] _]. rewrite forallb_forall in H. specialize (H k).
  rewrite in_seq in H. specialize (H ltac:(lia)). rewrite existsb_exists in H.
  destruct H as [u [Hu He]]. rewrite in_seq in Hu. apply Nat.eqb_eq in He. exists u. split; [lia | assumption].
Qed.

Lemma vl_eq u v : u < n -> v < n -> (nthn proj u = nthn proj v <-> comm n e u v).
Proof.
  intros Hu Hv. unfold valid_labeling in Hvalid. repeat rewrite andb_true_iff in Hvalid.
  destruct Hvalid as [_ H]. rewrite forallb_forall in H. specialize (H u).
  rewrite in_seq in H. specialize (H ltac:(lia)). rewrite forallb_forall in H. specialize (H v).
  rewrite in_seq in H. specialize (H ltac:(lia)). apply eqb_prop in H.
  rewrite <- (mutual_comm n e u v Hu Hv). rewrite <- H. symmetry. apply Nat.eqb_eq.
Qed.

Lemma where_eq_class r : r < n -> where_eq n proj (nthn proj r) = class_of n m r.
Proof.
  intros Hr. unfold where_eq, class_of. apply filter_ext_in. intros u Hu. rewrite in_seq in Hu.
  destruct (mutual m r u) eqn:Em.
  - apply Nat.eqb_eq. symmetry. apply vl_eq; [assumption | lia |]. apply mutual_comm; [assumption | lia | exact Em].
  - apply Nat.eqb_neq. intros Heq. symmetry in Heq. apply vl_eq in Heq; [|assumption|lia].
    apply (mutual_comm n e r u Hr ltac:(lia)) in Heq. congruence.
Qed.

Lemma where_eq_in_classes k : k < num -> In (where_eq n proj k) (classes n m).
Proof.
  intros Hk. destruct (vl_surj k Hk) as [u [Hu Hpu]].
  destruct (rep_exists n e u Hu) as [r [Hr [Hrep Hc]]].
  apply in_classes. exists r. repeat split; [assumption | assumption|].
  rewrite <- where_eq_class by assumption. f_equal.
  rewrite <- Hpu. symmetry. apply vl_eq; assumption.
Qed.

Lemma num_one_all : num = 1 -> forall u v, u < n -> v < n -> comm n e u v.
Proof.
  intros H1 u v Hu Hv. apply vl_eq; [assumption | assumption|].
  pose proof (vl_range u Hu). pose proof (vl_range v Hv). lia.
Qed.

Lemma filter_all_true {A} (f : A -> bool) l : (forall x, In x l -> f x = true) -> filter f l = l.
Proof.
  induction l as [|x l IH]; intros H; simpl; [reflexivity|].
  rewrite (H x (or_introl eq_refl)). f_equal. apply IH. intros y Hy; apply H; right; assumption.
Qed.

Lemma all_comm_class_full c :
  (forall u v, u < n -> v < n -> comm n e u v) -> In c (classes n m) -> c = seq 0 n.
Proof.
  intros Hall Hc. apply in_classes in Hc. destruct Hc as [r [Hr [_ ->]]].
  unfold class_of. apply filter_all_true. intros v Hv. rewrite in_seq in Hv.
  apply mutual_comm; [assumption | lia | apply Hall; lia].
Qed.

Lemma in_where_eq k u : In u (where_eq n proj k) <-> u < n /\ nthn proj u = k.
Proof. unfold where_eq. rewrite filter_In, in_seq, Nat.eqb_eq. split; intros [A B]; split; (lia || assumption). Qed.

Theorem repo_scc_sets c : In c (scc_indices n num proj) <-> In c (scc_spec n e).
Proof.
  unfold scc_indices, scc_spec.  destruct (num =? 1) eqn:E1.
  - apply Nat.eqb_eq in E1. pose proof (num_one_all E1) as Hall. split.
    + intros [<- | []]. destruct (classes_cover n e 0 Hn) as [c0 [Hc0 _]].
      rewrite <- (all_comm_class_full c0 Hall Hc0). assumption.
    + intros Hc. left. symmetry. apply all_comm_class_full; assumption.
  - rewrite in_map_iff. split.
    + intros [k [<- Hk]]. rewrite in_seq in Hk. apply where_eq_in_classes. lia.
    + intros Hc. apply in_classes in Hc. destruct Hc as [r [Hr [Hrep ->]]].
      exists (nthn proj r). split; [apply where_eq_class; assumption|].
      rewrite in_seq. pose proof (vl_range r Hr). lia.
Qed.

Theorem repo_sink_sets c : In c (sink_scc_indices n num proj (edges n e)) <-> In c (sink_spec n e).
Proof.
  rewrite sink_spec_correct. unfold sink_scc_indices. destruct (num =? 1) eqn:E1.
  - pose proof (repo_scc_sets c) as R. unfold scc_indices in R. rewrite E1 in R. rewrite <- R. split.
    + intros [<- | []]. split; [left; reflexivity|]. intros u v _ Hv _. rewrite in_seq; lia.
    + intros [H _]; exact H.
  - rewrite in_map_iff. split.
    + intros [k [<- Hk]]. apply sink_scc_labels_spec in Hk. destruct Hk as [Hk Hcl]. split.
      * unfold scc_spec.  apply where_eq_in_classes; assumption.
      * intros u v Hu Hv He. apply in_where_eq in Hu. destruct Hu as [Hu Hpu].
        apply in_where_eq. split; [assumption|]. apply (Hcl u v); assumption.
    + intros [Hc Hcl]. unfold scc_spec in Hc.  apply in_classes in Hc.
      destruct Hc as [r [Hr [Hrep ->]]]. rewrite <- (where_eq_class r Hr) in *.
      exists (nthn proj r). split; [reflexivity|]. apply sink_scc_labels_spec. split; [apply vl_range; assumption|].
      intros u v Hu Hv He Hpu.
      assert (In v (where_eq n proj (nthn proj r))) as Hin.
      { apply (Hcl u v); [apply in_where_eq; split; assumption | assumption | assumption]. }
      apply in_where_eq in Hin. tauto.
Qed.

(* is_strongly_connected / is_irreducible = (num == 1) *)
Theorem repo_num_one : num = 1 <-> (forall u v, u < n -> v < n -> reach n e u v).
Proof.
  split.
  - intros H1 u v Hu Hv. apply (num_one_all H1 u v Hu Hv).
  - intros Hall. destruct (vl_surj 0) as [u0 [Hu0 Hp0]].
    { pose proof (vl_range 0 Hn). lia. }
    destruct (Nat.eq_dec num 1) as [|Hne]; [assumption|]. exfalso.
    pose proof (vl_range 0 Hn) as Hr0.
    assert (1 < num) as H1 by lia.
    destruct (vl_surj 1 H1) as [u1 [Hu1 Hp1]].
    assert (nthn proj u0 = nthn proj u1) as Heq; [|lia].
    apply vl_eq; [assumption | assumption|]. split; apply Hall; assumption.
Qed.

End Labelling.

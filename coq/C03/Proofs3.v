(* C03 proofs, part 3: walks, the Jarvis-Shier theorem (for ANY level function
   that is the depth in a spanning tree rooted at 0), and the cyclic-class property. *)
From Coq Require Import ZArith List Bool Arith Lia Relations.
From QE Require Import C03.Model C03.Proofs1 C03.Proofs2.
Import ListNotations.

(* ------------------------------------------------------------- gcd folds *)
Definition gfold (level : nat -> Z) (es : list (nat * nat)) (d : Z) : Z :=
  fold_left (fun d uv => Z.gcd d (edge_val level uv)) es d.

Lemma gfold_cons level uv es d : gfold level (uv :: es) d = gfold level es (Z.gcd d (edge_val level uv)).
Proof. reflexivity. Qed.
Lemma gfold_nil level d : gfold level [] d = d.
Proof. reflexivity. Qed.

Lemma gfold_divide D level es : forall d,
  (D | gfold level es d)%Z <-> (D | d)%Z /\ forall uv, In uv es -> (D | edge_val level uv)%Z.
Proof.
  induction es as [|uv es IH]; intros d.
  - rewrite gfold_nil. split; [intros H; split; [exact H | intros ? []] | intros [H _]; exact H].
  - rewrite gfold_cons, IH, Z.gcd_divide_iff. split.
    + intros [[A B] C]. split; [exact A|]. intros x [<- | Hx]; [exact B | apply C; exact Hx].
    + intros [A C]. split; [split; [exact A | apply C; left; reflexivity] | intros x Hx; apply C; right; exact Hx].
Qed.

Lemma gfold_nonneg level es : forall d, (0 <= d)%Z -> (0 <= gfold level es d)%Z.
Proof.
  induction es as [|uv es IH]; intros d Hd; [exact Hd|].
  rewrite gfold_cons. apply IH. apply Z.gcd_nonneg.
Qed.

Lemma gfold_one level es : gfold level es 1 = 1%Z.
Proof.
  induction es as [|uv es IH]; [reflexivity|]. rewrite gfold_cons, Z.gcd_1_l. exact IH.
Qed.

(* the early exit of the loop does not change its result *)
Lemma gcd_loop_gfold es level : forall d, gcd_loop es level d = gfold (zget level) es d.
Proof.
  induction es as [|uv es IH]; intros d; [reflexivity|].
  rewrite gfold_cons. cbn [gcd_loop].
  destruct (Z.gcd d (edge_val (zget level) uv) =? 1)%Z eqn:E1.
  - apply Z.eqb_eq in E1. rewrite E1. symmetry. apply gfold_one.
  - apply IH.
Qed.

(* edges whose value is 0 (tree edges) may be dropped from the fold *)
Lemma gfold_filter level (p : nat * nat -> bool) es : forall d, (0 <= d)%Z ->
  (forall uv, In uv es -> p uv = false -> edge_val level uv = 0%Z) ->
  gfold level (filter p es) d = gfold level es d.
Proof.
  induction es as [|uv es IH]; intros d Hd H0; [reflexivity|].
  cbn [filter]. destruct (p uv) eqn:Ep.
  - rewrite !gfold_cons. apply IH; [apply Z.gcd_nonneg | intros x Hx; apply H0; right; exact Hx].
  - rewrite gfold_cons. rewrite (H0 uv (or_introl eq_refl) Ep).
    rewrite Z.gcd_0_r, Z.abs_eq by exact Hd. apply IH; [exact Hd | intros x Hx; apply H0; right; exact Hx].
Qed.

Lemma mod_next a b d q : (0 < d)%Z -> (a - b + 1 = q * d)%Z -> (b mod d = (a mod d + 1) mod d)%Z.
Proof.
  intros Hd Hq. replace b with ((a + 1) + (- q) * d)%Z by lia.
  rewrite Z_mod_plus_full. rewrite (Zplus_mod a 1 d).
  rewrite (Zplus_mod (a mod d) 1 d). rewrite Z.mod_mod by lia. reflexivity.
Qed.

Section Walk.
Variable n : nat.
Variable e : nat -> nat -> bool.

(* walk u v k : a walk of length k from u to v inside the nodes 0..n-1 *)
Inductive walk : nat -> nat -> nat -> Prop :=
| w_nil u : u < n -> walk u u 0
| w_cons u v w k : u < n -> v < n -> e u v = true -> walk v w k -> walk u w (S k).

Lemma walk_lt u v k : walk u v k -> u < n /\ v < n.
Proof. induction 1; [split; assumption | split; [assumption | tauto]]. Qed.

Lemma walk_app u v w a b : walk u v a -> walk v w b -> walk u w (a + b).
Proof.
  induction 1 as [u Hu | u x v k Hu Hx He Hw IH]; intros H2; simpl; [exact H2|].
  eapply w_cons; [exact Hu | exact Hx | exact He | apply IH; exact H2].
Qed.

Lemma walk_snoc u v w k : walk u v k -> w < n -> e v w = true -> walk u w (S k).
Proof.
  intros H Hw He. replace (S k) with (k + 1) by lia.
  eapply walk_app; [exact H|]. destruct (walk_lt _ _ _ H) as [_ Hv].
  eapply w_cons; [exact Hv | exact Hw | exact He | apply w_nil; exact Hw].
Qed.

Lemma reach_walk u v : reach n e u v -> u < n -> exists k, walk u v k.
Proof.
  intros H. apply clos_rt_rt1n_iff in H. induction H as [x | x y z [Hx [Hy He]] _ IH]; intros Hu.
  - exists 0. apply w_nil; exact Hu.
  - destruct (IH Hy) as [k Hk]. exists (S k). exact (w_cons x y z k Hx Hy He Hk).
Qed.

Lemma walk_reach u v k : walk u v k -> reach n e u v.
Proof.
  induction 1 as [u Hu | u x v k Hu Hx He Hw IH]; [apply rt_refl|].
  eapply rt_trans; [apply rt_step; repeat split; eassumption | exact IH].
Qed.

(* ------------------------------------------------------------- Jarvis-Shier *)
Section JarvisShier.
Variable level : nat -> Z.
Let d := gcd_edges (edges n e) level.

Lemma gcd_edges_gfold : d = gfold level (edges n e) 0.
Proof. reflexivity. Qed.

Lemma d_divides_edge u v : u < n -> v < n -> e u v = true -> (d | level u - level v + 1)%Z.
Proof.
  intros Hu Hv He.
  pose proof (proj1 (gfold_divide d level (edges n e) 0) (Z.divide_refl _)) as [_ H].
  apply (H (u, v)). apply in_edges. tauto.
Qed.

(* (a) for ANY level function: d divides level u - level v + k along every walk *)
Lemma walk_level u v k : walk u v k -> (d | level u - level v + Z.of_nat k)%Z.
Proof.
  induction 1 as [u Hu | u x v k Hu Hx He Hw IH].
  - replace (level u - level u + Z.of_nat 0)%Z with 0%Z by lia. apply Z.divide_0_r.
  - replace (level u - level v + Z.of_nat (S k))%Z
      with ((level u - level x + 1) + (level x - level v + Z.of_nat k))%Z by lia.
    apply Z.divide_add_r; [apply d_divides_edge; assumption | exact IH].
Qed.

Lemma closed_walk_divisible u k : walk u u k -> (d | Z.of_nat k)%Z.
Proof.
  intros H. pose proof (walk_level u u k H) as Hd.
  replace (level u - level u + Z.of_nat k)%Z with (Z.of_nat k) in Hd by lia. exact Hd.
Qed.

(* (b) if level is the depth in some spanning tree rooted at 0 (a walk of that
   length exists) and the graph is strongly connected, every common divisor of
   the closed-walk lengths divides d *)
Hypothesis Hn : 0 < n.
Hypothesis Hsc : forall u v, u < n -> v < n -> reach n e u v.
Hypothesis Hlevel : forall v, v < n -> (0 <= level v)%Z /\ walk 0 v (Z.to_nat (level v)).

Lemma common_divisor_divides_d D :
  (forall u k, walk u u k -> (D | Z.of_nat k)%Z) -> (D | d)%Z.
Proof.
  intros HD. rewrite gcd_edges_gfold. apply gfold_divide. split; [apply Z.divide_0_r|].
  intros [u v] Hin. apply in_edges in Hin. destruct Hin as [Hu [Hv He]].
  destruct (Hlevel u Hu) as [Lu Wu]. destruct (Hlevel v Hv) as [Lv Wv].
  destruct (reach_walk v 0 (Hsc v 0 Hv Hn) Hv) as [mm Wm].
  pose proof (HD 0 _ (walk_app _ _ _ _ _ (walk_snoc _ _ _ _ Wu Hv He) Wm)) as D1.
  pose proof (HD 0 _ (walk_app _ _ _ _ _ Wv Wm)) as D2.
  unfold edge_val; simpl.
  replace (level u - level v + 1)%Z
    with (Z.of_nat (S (Z.to_nat (level u)) + mm) - Z.of_nat (Z.to_nat (level v) + mm))%Z by lia.
  apply Z.divide_sub_r; assumption.
Qed.

Theorem jarvis_shier D : (D | d)%Z <-> (forall u k, walk u u k -> (D | Z.of_nat k)%Z).
Proof.
  split.
  - intros HD u k Hw. eapply Z.divide_trans; [exact HD | apply closed_walk_divisible with (u := u); exact Hw].
  - apply common_divisor_divides_d.
Qed.

Lemma d_nonneg : (0 <= d)%Z.
Proof. rewrite gcd_edges_gfold. apply gfold_nonneg. lia. Qed.

(* with at least two nodes there is a closed walk of positive length, so d > 0 *)
Lemma d_pos : 2 <= n -> (0 < d)%Z.
Proof.
  intros H2.
  destruct (reach_walk 0 1 (Hsc 0 1 ltac:(lia) ltac:(lia)) ltac:(lia)) as [a Wa].
  destruct (reach_walk 1 0 (Hsc 1 0 ltac:(lia) ltac:(lia)) ltac:(lia)) as [b Wb].
  assert (a <> 0) as Ha by (intros ->; inversion Wa).
  pose proof (closed_walk_divisible 0 _ (walk_app _ _ _ _ _ Wa Wb)) as Hd.
  pose proof d_nonneg as H0.
  destruct (Z.eq_dec d 0) as [E0 | NE]; [|lia].
  rewrite E0 in Hd. apply Z.divide_0_l in Hd. lia.
Qed.

(* cyclic classes: every edge goes from class k to class k+1 (mod d) *)
Lemma edge_next_class u v : (0 < d)%Z -> u < n -> v < n -> e u v = true ->
  (level v mod d = (level u mod d + 1) mod d)%Z.
Proof.
  intros Hd Hu Hv He. destruct (d_divides_edge u v Hu Hv He) as [q Hq].
  apply (mod_next _ _ _ q Hd Hq).
Qed.

End JarvisShier.
End Walk.

(* C03 proofs, part 5: the specification-level BFS/period (no SciPy input):
   soundness of the BFS levels, period_spec is the gcd of closed-walk lengths,
   and totality (strongly connected => period_spec is defined). *)
From Coq Require Import ZArith List Bool Arith Lia Relations.
From QE Require Import C03.Model C03.Proofs1 C03.Proofs2 C03.Proofs3 C03.Proofs4.
Import ListNotations.

Section SpecPeriod.
Variable n : nat.
Variable e : nat -> nat -> bool.
Hypothesis Hn : 0 < n.

Lemma lv_round t L v : v < n ->
  lv (bfs_round n e t L) v = if bfs_new n e t L v then Some (S t) else lv L v.
Proof.
  intros Hv. unfold lv at 1, bfs_round.
  apply (nth_map_seq (fun v => if bfs_new n e t L v then Some (S t) else lv L v) n v None Hv).
Qed.

Lemma lv_round_out t L v : n <= v -> lv (bfs_round n e t L) v = None.
Proof. intros Hv. unfold lv, bfs_round. apply nth_overflow. rewrite map_length, seq_length. exact Hv. Qed.

Lemma lv_init v : lv (bfs_init n) v = if (v <? n) && (v =? 0) then Some 0 else None.
Proof.
  destruct (lt_dec v n) as [Hv | Hv].
  - unfold lv, bfs_init. rewrite (nth_map_seq _ n v None Hv).
    assert (v <? n = true) as -> by (apply Nat.ltb_lt; exact Hv). reflexivity.
  - unfold lv, bfs_init. rewrite nth_overflow by (rewrite map_length, seq_length; lia).
    assert (v <? n = false) as -> by (apply Nat.ltb_ge; lia). reflexivity.
Qed.

(* soundness: a label is the length of some walk from 0 *)
Definition bfs_sound (L : list (option nat)) : Prop :=
  forall v l, lv L v = Some l -> v < n /\ walk n e 0 v l.

Lemma bfs_new_witness t L v : bfs_new n e t L v = true ->
  lv L v = None /\ exists u, u < n /\ lv L u = Some t /\ e u v = true.
Proof.
  unfold bfs_new. rewrite andb_true_iff, negb_true_iff, existsb_exists.
  intros [Hnone [u [Hu Hue]]]. rewrite in_seq in Hu. rewrite andb_true_iff in Hue. destruct Hue as [Hat He].
  split; [destruct (lv L v); [discriminate | reflexivity]|].
  exists u. split; [lia|]. split; [|exact He].
  unfold at_level in Hat. destruct (lv L u) as [l|]; [|discriminate]. apply Nat.eqb_eq in Hat. congruence.
Qed.

Lemma bfs_round_sound t L : bfs_sound L -> bfs_sound (bfs_round n e t L).
Proof.
  intros Hs v l Hl. destruct (lt_dec v n) as [Hv | Hv].
  - rewrite lv_round in Hl by exact Hv. destruct (bfs_new n e t L v) eqn:En.
    + inversion Hl; subst l. split; [exact Hv|].
      apply bfs_new_witness in En. destruct En as [_ [u [Hu [Hlu He]]]].
      destruct (Hs u t Hlu) as [_ Hw]. eapply walk_snoc; eassumption.
    + apply Hs; exact Hl.
  - rewrite lv_round_out in Hl by lia. discriminate.
Qed.

Lemma bfs_iter_sound fuel : forall t L L', bfs_sound L -> bfs_iter fuel n e t L = Some L' -> bfs_sound L'.
Proof.
  induction fuel as [|f IH]; intros t L L' Hs H; simpl in H; [discriminate|].
  destruct (existsb (bfs_new n e t L) (seq 0 n)).
  - eapply IH; [apply bfs_round_sound; exact Hs | exact H].
  - inversion H; subst; exact Hs.
Qed.

Lemma bfs_init_sound : bfs_sound (bfs_init n).
Proof.
  intros v l Hl. rewrite lv_init in Hl. destruct (v <? n) eqn:E1; [|discriminate].
  destruct (v =? 0) eqn:E2; [|discriminate]. simpl in Hl. inversion Hl; subst l.
  apply Nat.eqb_eq in E2; subst v. split; [exact Hn | apply w_nil; exact Hn].
Qed.

Lemma bfs_levels_sound L : bfs_levels n e = Some L -> bfs_sound L.
Proof. unfold bfs_levels. apply bfs_iter_sound. apply bfs_init_sound. Qed.

Hypothesis Hsc : forall u v, u < n -> v < n -> reach n e u v.

(* a closed walk of positive length exists: automatic for n >= 2, a self-loop for n = 1 *)
Definition has_cycle : Prop := exists u k, 0 < k /\ walk n e u u k.

Lemma has_cycle_2 : 2 <= n -> has_cycle.
Proof.
  intros H2.
  destruct (reach_walk n e 0 1 (Hsc 0 1 ltac:(lia) ltac:(lia)) ltac:(lia)) as [a Wa].
  destruct (reach_walk n e 1 0 (Hsc 1 0 ltac:(lia) ltac:(lia)) ltac:(lia)) as [b Wb].
  assert (a <> 0) as Ha by (intros ->; inversion Wa).
  exists 0, (a + b). split; [lia|]. eapply walk_app; eassumption.
Qed.

Theorem period_spec_correct per proj :
  has_cycle -> period_spec n e = Some (per, proj) -> is_period n e per /\ is_cyclic_proj n e per proj.
Proof.
  intros [u0 [k0 [Hk0 Hw0]]]. unfold period_spec.
  destruct (bfs_levels n e) as [L|] eqn:EL; [|discriminate].
  destruct (forallb (fun u => is_some (lv L u)) (seq 0 n)) eqn:Eall; [|discriminate].
  intros H. inversion H; subst per proj; clear H.
  pose proof (bfs_levels_sound L EL) as Hs.
  assert (Hlev : forall v, v < n -> (0 <= lvZ L v)%Z /\ walk n e 0 v (Z.to_nat (lvZ L v))).
  { intros v Hv. rewrite forallb_forall in Eall. specialize (Eall v). rewrite in_seq in Eall.
    specialize (Eall ltac:(lia)). unfold lvZ. destruct (lv L v) as [l|] eqn:El; [|discriminate].
    split; [lia|]. rewrite Nat2Z.id. apply (Hs v l El). }
  set (d := gcd_edges (edges n e) (lvZ L)).
  pose proof (jarvis_shier n e (lvZ L) Hn Hsc Hlev) as HJS. fold d in HJS.
  assert (Hd0 : (0 <= d)%Z) by (exact (d_nonneg n e (lvZ L) Hn)).
  assert (Hdpos : (0 < d)%Z).
  { destruct (Z.eq_dec d 0) as [E0 | NE]; [|lia]. exfalso.
    pose proof (proj1 (HJS d) (Z.divide_refl d) u0 k0 Hw0) as Hdiv.
    rewrite E0 in Hdiv. apply Z.divide_0_l in Hdiv. lia. }
  split.
  - split; [lia|]. intros D. rewrite Z2Nat.id by lia. apply HJS.
  - assert (Hnth : forall u, u < n -> nthn (map (fun u => Z.to_nat (lvZ L u mod d)) (seq 0 n)) u = Z.to_nat (lvZ L u mod d)).
    { intros u Hu. unfold nthn. apply (nth_map_seq (fun u => Z.to_nat (lvZ L u mod d)) n u 0 Hu). }
    split; [rewrite map_length, seq_length; reflexivity|]. split.
    + intros u Hu. rewrite Hnth by exact Hu. pose proof (Z.mod_pos_bound (lvZ L u) d Hdpos). lia.
    + intros u v Hu Hv He. rewrite !Hnth by assumption.
      pose proof (Z.mod_pos_bound (lvZ L u) d Hdpos). pose proof (Z.mod_pos_bound (lvZ L v) d Hdpos).
      rewrite !Z2Nat.id by lia.
      apply (edge_next_class n e (lvZ L) u v Hdpos Hu Hv He).
Qed.

(* ------------------------------------------------------------- totality *)
Definition lab (L : list (option nat)) (v : nat) : bool := is_some (lv L v).

Definition Jinv (t : nat) (L : list (option nat)) : Prop :=
  (forall v l, lv L v = Some l -> l <= t) /\
  (forall u l v, lv L u = Some l -> l < t -> v < n -> e u v = true -> lab L v = true) /\
  lab L 0 = true /\ (forall v, n <= v -> lv L v = None).

Lemma Jinv_init : Jinv 0 (bfs_init n).
Proof.
  split; [|split; [|split]].
  - intros v l H. rewrite lv_init in H. destruct ((v <? n) && (v =? 0)); inversion H; lia.
  - intros u l v _ Hl. lia.
  - unfold lab. rewrite lv_init. assert (0 <? n = true) as -> by (apply Nat.ltb_lt; exact Hn). reflexivity.
  - intros v Hv. rewrite lv_init. assert (v <? n = false) as -> by (apply Nat.ltb_ge; exact Hv). reflexivity.
Qed.

Lemma lab_round t L v : v < n -> lab L v = true -> lab (bfs_round n e t L) v = true.
Proof.
  intros Hv H. unfold lab in *. rewrite lv_round by exact Hv.
  destruct (bfs_new n e t L v); [reflexivity | exact H].
Qed.

Lemma bfs_new_intro t L u v : u < n -> lv L u = Some t -> e u v = true -> lab L v = false ->
  bfs_new n e t L v = true.
Proof.
  intros Hu Hl He Hv. unfold bfs_new. unfold lab in Hv. rewrite Hv. simpl.
  apply existsb_exists. exists u. split; [apply in_seq; lia|].
  unfold at_level. rewrite Hl, Nat.eqb_refl, He. reflexivity.
Qed.

Lemma Jinv_lt t L u l : Jinv t L -> lv L u = Some l -> u < n.
Proof.
  intros [_ [_ [_ Hout]]] Hl. destruct (lt_dec u n) as [H | H]; [exact H|].
  rewrite Hout in Hl by lia. discriminate.
Qed.

Lemma Jinv_round t L : Jinv t L -> Jinv (S t) (bfs_round n e t L).
Proof.
  intros HJ. pose proof HJ as [Hle [Hcl [H0 Hout]]]. split; [|split; [|split]].
  - intros v l H. destruct (lt_dec v n) as [Hv | Hv].
    + rewrite lv_round in H by exact Hv. destruct (bfs_new n e t L v).
      * inversion H; lia.
      * specialize (Hle v l H). lia.
    + rewrite lv_round_out in H by lia. discriminate.
  - intros u l v Hlu Hlt Hv He.
    destruct (lt_dec u n) as [Hu | Hu]; [|rewrite lv_round_out in Hlu by lia; discriminate].
    rewrite lv_round in Hlu by exact Hu. destruct (bfs_new n e t L u) eqn:Enu.
    + inversion Hlu; lia.
    + destruct (lab L v) eqn:Ev; [apply lab_round; assumption|].
      assert (l < t \/ l = t) as [Hl | ->] by lia.
      * rewrite (Hcl u l v Hlu Hl Hv He) in Ev. discriminate.
      * unfold lab. rewrite lv_round by exact Hv.
        rewrite (bfs_new_intro t L u v Hu Hlu He Ev). reflexivity.
  - apply lab_round; assumption.
  - intros v Hv. apply lv_round_out; exact Hv.
Qed.

Definition closed (L : list (option nat)) : Prop :=
  forall u v, lab L u = true -> v < n -> e u v = true -> lab L v = true.

Lemma Jinv_stop t L : Jinv t L -> existsb (bfs_new n e t L) (seq 0 n) = false -> closed L.
Proof.
  intros HJ Hstop u v Hu Hv He. pose proof HJ as [Hle [Hcl _]].
  unfold lab in Hu. destruct (lv L u) as [l|] eqn:Hl; [|discriminate].
  pose proof (Jinv_lt t L u l HJ Hl) as Hun.
  specialize (Hle u l Hl). assert (l < t \/ l = t) as [Hlt | ->] by lia.
  - apply (Hcl u l v Hl Hlt Hv He).
  - destruct (lab L v) eqn:Ev; [reflexivity|]. exfalso.
    pose proof (bfs_new_intro t L u v Hun Hl He Ev) as Hnew.
    assert (existsb (bfs_new n e t L) (seq 0 n) = true); [|congruence].
    apply existsb_exists. exists v. split; [apply in_seq; lia | exact Hnew].
Qed.

Lemma bfs_iter_closed fuel : forall t L L', Jinv t L -> bfs_iter fuel n e t L = Some L' ->
  closed L' /\ lab L' 0 = true.
Proof.
  induction fuel as [|f IH]; intros t L L' HJ H; simpl in H; [discriminate|].
  destruct (existsb (bfs_new n e t L) (seq 0 n)) eqn:Ex.
  - eapply IH; [apply Jinv_round; exact HJ | exact H].
  - inversion H; subst. split; [eapply Jinv_stop; eassumption | apply HJ].
Qed.

Lemma closed_reach L v : closed L -> lab L 0 = true -> reach n e 0 v -> lab L v = true.
Proof.
  intros Hc H0 Hr. apply clos_rt_rtn1_iff in Hr. induction Hr as [| y z [Hy [Hz He]] _ IH]; [exact H0|].
  apply (Hc y z IH Hz He).
Qed.

(* fuel: every productive round labels a new node *)
Definition count (L : list (option nat)) : nat := length (filter (lab L) (seq 0 n)).

Lemma filter_length_le {A} (f g : A -> bool) l :
  (forall x, In x l -> f x = true -> g x = true) -> length (filter f l) <= length (filter g l).
Proof.
  induction l as [|x l IH]; intros H; simpl; [lia|].
  assert (length (filter f l) <= length (filter g l)) as IH' by (apply IH; intros y Hy; apply H; right; exact Hy).
  destruct (f x) eqn:Ef.
  - rewrite (H x (or_introl eq_refl) Ef). simpl. lia.
  - destruct (g x); simpl; lia.
Qed.

Lemma filter_length_lt {A} (f g : A -> bool) l :
  (forall x, In x l -> f x = true -> g x = true) ->
  (exists x, In x l /\ f x = false /\ g x = true) -> length (filter f l) < length (filter g l).
Proof.
  induction l as [|x l IH]; intros H [y [Hy [Hf Hg]]]; [destruct Hy|].
  simpl. assert (Hle : length (filter f l) <= length (filter g l))
    by (apply filter_length_le; intros z Hz; apply H; right; exact Hz).
  destruct Hy as [-> | Hy].
  - rewrite Hf, Hg. simpl. lia.
  - assert (length (filter f l) < length (filter g l)) as IH'.
    { apply IH; [intros z Hz; apply H; right; exact Hz | exists y; tauto]. }
    destruct (f x) eqn:Ef.
    + rewrite (H x (or_introl eq_refl) Ef). simpl. lia.
    + destruct (g x); simpl; lia.
Qed.

Lemma count_le L : count L <= n.
Proof.
  unfold count. pose proof (filter_length_le (lab L) (fun _ => true) (seq 0 n) (fun _ _ _ => eq_refl)) as H.
  rewrite (filter_all_true (fun _ => true)) in H by reflexivity. rewrite seq_length in H. exact H.
Qed.

Lemma count_round t L : existsb (bfs_new n e t L) (seq 0 n) = true -> count L < count (bfs_round n e t L).
Proof.
  intros Hex. unfold count. apply filter_length_lt.
  - intros v Hv Hl. apply in_seq in Hv. apply lab_round; [lia | exact Hl].
  - apply existsb_exists in Hex. destruct Hex as [v [Hv Hnew]]. exists v. split; [exact Hv|].
    apply in_seq in Hv. unfold lab. rewrite lv_round by lia. rewrite Hnew.
    apply bfs_new_witness in Hnew. destruct Hnew as [Hnone _]. rewrite Hnone. split; reflexivity.
Qed.

Lemma bfs_iter_total fuel : forall t L, n < count L + fuel -> bfs_iter fuel n e t L <> None.
Proof.
  induction fuel as [|f IH]; intros t L Hc.
  - pose proof (count_le L). lia.
  - simpl. destruct (existsb (bfs_new n e t L) (seq 0 n)) eqn:Ex; [|discriminate].
    apply IH. pose proof (count_round t L Ex). lia.
Qed.

Lemma count_init : 1 <= count (bfs_init n).
Proof.
  unfold count. assert (In 0 (filter (lab (bfs_init n)) (seq 0 n))) as Hin.
  { apply filter_In. split; [apply in_seq; lia | apply Jinv_init]. }
  destruct (filter (lab (bfs_init n)) (seq 0 n)); [destruct Hin | simpl; lia].
Qed.

Theorem period_spec_total : exists per proj, period_spec n e = Some (per, proj).
Proof.
  unfold period_spec. destruct (bfs_levels n e) as [L|] eqn:EL.
  - destruct (bfs_iter_closed (S n) 0 (bfs_init n) L Jinv_init EL) as [Hcl H0].
    assert (forallb (fun u => is_some (lv L u)) (seq 0 n) = true) as ->.
    { apply forallb_forall. intros v Hv. apply in_seq in Hv.
      apply (closed_reach L v Hcl H0). apply Hsc; lia. }
    eexists; eexists; reflexivity.
  - exfalso. apply (bfs_iter_total (S n) 0 (bfs_init n)); [pose proof count_init; lia | exact EL].
Qed.

End SpecPeriod.

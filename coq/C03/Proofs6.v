(* C03 proofs, part 6: subgraph of a recurrent class, the one-node special
   cases, the lcm rule of MarkovChain.period for reducible chains, is_aperiodic. *)
From Coq Require Import ZArith List Bool Arith Lia Relations.
From QE Require Import C03.Model C03.Proofs1 C03.Proofs2 C03.Proofs3 C03.Proofs4 C03.Proofs5.
Import ListNotations.

(* ------------------------------------------------------------- subgraph of a closed class *)
Section Sub.
Variable n : nat.
Variable e : nat -> nat -> bool.
Variable c : list nat.
Hypothesis Hnd : NoDup c.
Hypothesis Hlt : forall u, In u c -> u < n.
Hypothesis Hclosed : forall u v, In u c -> v < n -> e u v = true -> In v c.

Notation k := (length c).
Notation se := (subgraph e c).

Lemma walk_sub_up a b len : walk k se a b len -> walk n e (nthn c a) (nthn c b) len.
Proof.
  induction 1 as [a Ha | a a' b len Ha Ha' He _ IH].
  - apply w_nil. apply Hlt, nth_In, Ha.
  - eapply w_cons; [apply Hlt, nth_In, Ha | apply Hlt, nth_In, Ha' | exact He | exact IH].
Qed.

Lemma walk_sub_down u w len : walk n e u w len -> forall a, a < k -> u = nthn c a ->
  exists b, b < k /\ w = nthn c b /\ walk k se a b len.
Proof.
  induction 1 as [u Hu | u v w len Hu Hv He _ IH]; intros a Ha Hua.
  - exists a. split; [exact Ha|]. split; [exact Hua | apply w_nil; exact Ha].
  - assert (Hvin : In v c) by (apply (Hclosed u v); [rewrite Hua; apply nth_In; exact Ha | exact Hv | exact He]).
    destruct (In_nth c v 0 Hvin) as [a' [Ha' Hva']].
    destruct (IH a' Ha' (eq_sym Hva')) as [b [Hb [Hwb Hw]]].
    exists b. split; [exact Hb|]. split; [exact Hwb|].
    eapply w_cons; [exact Ha | exact Ha' | | exact Hw].
    unfold subgraph. rewrite <- Hua. unfold nthn. rewrite Hva'. exact He.
Qed.

Lemma nthn_inj a b : a < k -> b < k -> nthn c a = nthn c b -> a = b.
Proof. intros Ha Hb. apply (proj1 (NoDup_nth c 0) Hnd a b Ha Hb). Qed.

(* the period of the class, stated in the ORIGINAL graph: gcd of the closed walks through members *)
Definition is_period_class (p : nat) : Prop :=
  0 < p /\ forall D, (D | Z.of_nat p)%Z <-> (forall u len, In u c -> walk n e u u len -> (D | Z.of_nat len)%Z).

Lemma period_transfer p : is_period k se p <-> is_period_class p.
Proof.
  unfold is_period, is_period_class. split; intros [Hp H]; (split; [exact Hp|]); intros D; rewrite (H D); split.
  - intros Hs u len Hu Hw. destruct (In_nth c u 0 Hu) as [a [Ha Hua]].
    destruct (walk_sub_down u u len Hw a Ha (eq_sym Hua)) as [b [Hb [Hub Hwk]]].
    assert (b = a) as -> by (apply nthn_inj; [exact Hb | exact Ha | unfold nthn in *; congruence]).
    apply (Hs a len Hwk).
  - intros Hg a len Hw. pose proof (walk_lt _ _ _ _ _ Hw) as [Ha _].
    apply (Hg (nthn c a) len); [apply nth_In; exact Ha | apply walk_sub_up; exact Hw].
  - intros Hg a len Hw. pose proof (walk_lt _ _ _ _ _ Hw) as [Ha _].
    apply (Hg (nthn c a) len); [apply nth_In; exact Ha | apply walk_sub_up; exact Hw].
  - intros Hs u len Hu Hw. destruct (In_nth c u 0 Hu) as [a [Ha Hua]].
    destruct (walk_sub_down u u len Hw a Ha (eq_sym Hua)) as [b [Hb [Hub Hwk]]].
    assert (b = a) as -> by (apply nthn_inj; [exact Hb | exact Ha | unfold nthn in *; congruence]).
    apply (Hs a len Hwk).
Qed.

Hypothesis Hcomm : forall u v, In u c -> In v c -> reach n e u v.

(* DiGraph.subgraph of a closed communication class is strongly connected *)
Lemma sub_strongly_connected a b : a < k -> b < k -> reach k se a b.
Proof.
  intros Ha Hb.
  pose proof (Hcomm (nthn c a) (nthn c b) (nth_In c 0 Ha) (nth_In c 0 Hb)) as Hr.
  destruct (reach_walk n e _ _ Hr (Hlt _ (nth_In c 0 Ha))) as [len Hw].
  destruct (walk_sub_down _ _ len Hw a Ha eq_refl) as [b' [Hb' [Heq Hwk]]].
  assert (b' = b) as -> by (apply nthn_inj; [exact Hb' | exact Hb | unfold nthn in *; congruence]).
  apply (walk_reach k se a b len Hwk).
Qed.

End Sub.

(* ------------------------------------------------------------- special cases of _compute_period *)
Theorem one_node_period e sc order pred :
  compute_period 1 e sc order pred = POk 1 [0] /\
  (e 0 0 = true -> is_period 1 e 1) /\
  (e 0 0 = false -> forall u len, walk 1 e u u len -> len = 0).
Proof.
  split; [reflexivity|]. split.
  - intros He. split; [lia|]. intros D. split.
    + intros HD u len _. eapply Z.divide_trans; [exact HD | apply Z.divide_1_l].
    + intros H. apply (H 0 1). apply (w_cons 1 e 0 0 0 0); [lia | lia | exact He | apply w_nil; lia].
  - intros He u len Hw. destruct Hw as [u Hu | u v w len Hu Hv Hev _]; [reflexivity|].
    assert (u = 0) by lia. assert (v = 0) by lia. subst. congruence.
Qed.

Theorem selfloop_period n e order pred : 2 <= n -> existsb (fun u => e u u) (seq 0 n) = true ->
  compute_period n e true order pred = POk 1 (repeat 0 n) /\ is_period n e 1.
Proof.
  intros H2 Hl. split.
  - unfold compute_period. assert (n =? 1 = false) as -> by (apply Nat.eqb_neq; lia). simpl. rewrite Hl. reflexivity.
  - split; [lia|]. intros D. split.
    + intros HD u len _. eapply Z.divide_trans; [exact HD | apply Z.divide_1_l].
    + intros H. apply existsb_exists in Hl. destruct Hl as [u [Hu He]]. apply in_seq in Hu.
      apply (H u 1). eapply w_cons; [| | exact He | apply w_nil]; lia.
Qed.

(* is_aperiodic = (period == 1) = "every common divisor of the closed-walk lengths divides 1" *)
Theorem aperiodic_spec n e per proj : is_period n e per ->
  (dg_is_aperiodic (POk per proj) = 1%Z <-> per = 1) /\
  (per = 1 <-> forall D, (forall u len, walk n e u u len -> (D | Z.of_nat len)%Z) -> (D | 1)%Z).
Proof.
  intros [Hp H]. split.
  - simpl. destruct (per =? 1) eqn:E; [apply Nat.eqb_eq in E | apply Nat.eqb_neq in E]; split; intros; (lia || congruence || discriminate).
  - split.
    + intros -> D HD. apply (H D). exact HD.
    + intros Hall. pose proof (Hall (Z.of_nat per) (proj1 (H (Z.of_nat per)) (Z.divide_refl _))) as Hd.
      apply Z.divide_1_r_nonneg in Hd; lia.
Qed.

Lemma mc_is_aperiodic_spec per : mc_is_aperiodic (Z.of_nat per) = 1%Z <-> per = 1.
Proof.
  unfold mc_is_aperiodic. assert ((Z.of_nat per <? 0)%Z = false) as -> by (apply Z.ltb_ge; lia).
  destruct (Z.of_nat per =? 1)%Z eqn:E; [apply Z.eqb_eq in E | apply Z.eqb_neq in E]; split; intros; (lia || discriminate).
Qed.

(* ------------------------------------------------------------- MarkovChain.period of a reducible chain *)
Section McPeriod.
Variable n : nat.
Variable e : nat -> nat -> bool.

(* SciPy's outputs on the subgraph of one recurrent class: is_strongly_connected is true, and when the BFS is
   actually run (>= 2 nodes, no self-loop) order/predecessors form a spanning tree rooted at node 0 *)
Definition aux_valid (c : list nat) (a : bfs_aux) : Prop :=
  let '(sc, o, p) := a in
  sc = true /\
  (2 <= length c -> existsb (fun u => subgraph e c u u) (seq 0 (length c)) = false ->
   valid_tree (length c) (subgraph e c) o p = true).

(* the period of a recurrent class in the original graph; a single state without self-loop has no closed walk
   of positive length and gets the documented value 1 *)
Definition class_period (c : list nat) (p : nat) : Prop :=
  ((forall u len, In u c -> walk n e u u len -> len = 0) /\ p = 1) \/ is_period_class n e c p.

Lemma sink_class_facts c : In c (sink_spec n e) ->
  NoDup c /\ (forall u, In u c -> u < n) /\ (forall u v, In u c -> v < n -> e u v = true -> In v c) /\
  (forall u v, In u c -> In v c -> reach n e u v) /\ 1 <= length c.
Proof.
  intros Hc. apply sink_spec_correct in Hc. destruct Hc as [Hcl Hclosed].
  destruct (classes_members n e c Hcl) as [Hne Hlt].
  split.
  { unfold scc_spec in Hcl. apply in_classes in Hcl. destruct Hcl as [r [_ [_ ->]]]. apply NoDup_filter, seq_NoDup. }
  split; [exact Hlt|]. split; [exact Hclosed|]. split.
  - intros u v Hu Hv. destruct (proj1 (classes_equiv n e c u v Hcl Hu) Hv) as [_ [Hr _]]. exact Hr.
  - destruct c; [congruence | simpl; lia].
Qed.

Lemma class_compute_period c sc o p : In c (sink_spec n e) -> aux_valid c (sc, o, p) ->
  exists per proj, compute_period (length c) (subgraph e c) sc o p = POk per proj /\ class_period c per.
Proof.
  intros Hc [Hsc Hvt]. subst sc.
  destruct (sink_class_facts c Hc) as [Hnd [Hlt [Hclosed [Hcomm Hlen]]]].
  destruct (Nat.eq_dec (length c) 1) as [E1 | NE1].
  - (* one node *)
    rewrite E1. destruct (one_node_period (subgraph e c) true o p) as [Hcp [Hloop Hnoloop]].
    exists 1, [0]. split; [exact Hcp|].
    destruct (subgraph e c 0 0) eqn:E00.
    + right. apply (period_transfer n e c Hnd Hlt Hclosed 1). rewrite E1. apply Hloop. reflexivity.
    + left. split; [|reflexivity]. intros u len Hu Hw.
      destruct (In_nth c u 0 Hu) as [a [Ha Hua]].
      destruct (walk_sub_down n e c Hclosed u u len Hw a Ha (eq_sym Hua)) as [b [Hb [_ Hwk]]].
      assert (a = 0) by lia. assert (b = 0) by lia. subst a b. rewrite E1 in Hwk.
      apply (Hnoloop eq_refl 0 len Hwk).
  - assert (H2 : 2 <= length c) by lia.
    destruct (existsb (fun u => subgraph e c u u) (seq 0 (length c))) eqn:El.
    + destruct (selfloop_period (length c) (subgraph e c) o p H2 El) as [Hcp Hper].
      exists 1, (repeat 0 (length c)). split; [exact Hcp|]. right.
      apply (period_transfer n e c Hnd Hlt Hclosed 1). exact Hper.
    + destruct (compute_period_correct (length c) (subgraph e c) p H2
                  (sub_strongly_connected n e c Hnd Hlt Hclosed Hcomm) o (Hvt H2 eq_refl)) as [per [proj [Hcp [Hper _]]]].
      exists per, proj. split; [exact Hcp|]. right.
      apply (period_transfer n e c Hnd Hlt Hclosed per). exact Hper.
Qed.

Lemma mc_period_loop_lcm cls aux : Forall (fun c => In c (sink_spec n e)) cls -> Forall2 aux_valid cls aux ->
  forall d, exists ps, Forall2 class_period cls ps /\
    mc_period_loop e cls aux d = Z.of_nat (fold_left lcm ps d).
Proof.
  intros Hcls Hval. induction Hval as [| c [[sc o] p] cls aux Hv _ IH]; intros d.
  - exists []. split; [constructor | reflexivity].
  - inversion Hcls as [| ? ? Hc Hrest]; subst.
    destruct (class_compute_period c sc o p Hc Hv) as [per [proj [Hcp Hper]]].
    destruct (IH Hrest (lcm d per)) as [ps [Hps Heq]].
    exists (per :: ps). split; [constructor; assumption|].
    cbn [mc_period_loop fold_left]. rewrite Hcp. exact Heq.
Qed.

(* MarkovChain.period, reducible chain: lcm over the recurrent classes of the period of each class *)
Theorem mc_period_reducible num proj order pred aux : 0 < n ->
  valid_labeling n (closure n e) num proj = true -> num <> 1 ->
  Forall2 aux_valid (sink_scc_indices n num proj (edges n e)) aux ->
  exists ps, Forall2 class_period (sink_scc_indices n num proj (edges n e)) ps /\
    mc_period n e num proj order pred aux = Z.of_nat (fold_left lcm ps 1) /\
    (mc_is_aperiodic (mc_period n e num proj order pred aux) = 1%Z <-> fold_left lcm ps 1 = 1).
Proof.
  intros Hn Hvl Hnum Haux. unfold mc_period.
  assert (num =? 1 = false) as -> by (apply Nat.eqb_neq; exact Hnum).
  assert (Hcls : Forall (fun c => In c (sink_spec n e)) (sink_scc_indices n num proj (edges n e))).
  { apply Forall_forall. intros c Hc. apply (repo_sink_sets n e num proj Hn Hvl c). exact Hc. }
  destruct (mc_period_loop_lcm _ aux Hcls Haux 1) as [ps [Hps Heq]].
  exists ps. split; [exact Hps|]. split; [exact Heq|]. rewrite Heq. apply mc_is_aperiodic_spec.
Qed.

(* irreducible chain: MarkovChain.period is DiGraph.period *)
Theorem mc_period_irreducible proj order pred aux : 2 <= n ->
  (forall u v, u < n -> v < n -> reach n e u v) -> valid_tree n e order pred = true ->
  exists per, mc_period n e 1 proj order pred aux = Z.of_nat per /\ is_period n e per /\
    (mc_is_aperiodic (mc_period n e 1 proj order pred aux) = 1%Z <-> per = 1).
Proof.
  intros H2 Hsc Hvt. unfold mc_period. simpl (1 =? 1).  cbv iota.
  destruct (compute_period_correct n e pred H2 Hsc order Hvt) as [per [pr [Hcp [Hper _]]]].
  exists per. rewrite Hcp. simpl period_code. split; [reflexivity|]. split; [exact Hper | apply mc_is_aperiodic_spec].
Qed.

End McPeriod.

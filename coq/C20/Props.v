(* C20 property theorems: statements only, each closed by `exact`, with Print Assumptions. *)
From Coq Require Import ZArith QArith List Bool Lia Lqa.
From QE Require Import Base.Num C20.Model C20.Proofs C20.Proofs2 C20.Proofs3.
Import ListNotations.
Open Scope Z_scope.

(* ---- BRD / KMR / SamplingBRD: along EVERY history (any length, any payoff matrix with n rows, any tolerance,
   any sequence of revising players in [0,N), any mutation uniforms / random choices in [0,n) / sampled actions)
   every visited action distribution has n entries, all non-negative, summing to N, and consecutive
   distributions differ by moving one player away from an action that somebody plays. *)
Theorem C20_brd_inv : forall A tol N n s0 ps h f,
  zlen A = n -> valid_dist N n s0 -> Forall (fun p => 0 <= p < N) ps ->
  brd_series A tol s0 ps = Some (h, f) ->
  length h = length ps /\ nth_error (h ++ [f]) 0 = Some s0 /\
  Forall (fun d => zlen d = n /\ Forall (fun x => 0 <= x) d /\ zsum d = N) (h ++ [f]) /\
  forall i s s', nth_error (h ++ [f]) i = Some s -> nth_error (h ++ [f]) (S i) = Some s' ->
    exists a b, 0 <= a < n /\ 0 <= b < n /\ 0 < zget s a /\ s' = add_at (add_at s a (-1)) b 1.
Proof. exact brd_inv. Qed.
Print Assumptions C20_brd_inv.

Theorem C20_kmr_inv : forall A tol eps N n s0 ds h f,
  zlen A = n -> valid_dist N n s0 ->
  Forall (fun d : Z * Q * Z => let '(p, u, r) := d in 0 <= p < N /\ 0 <= r < n) ds ->
  kmr_series A tol eps s0 ds = Some (h, f) ->
  length h = length ds /\ nth_error (h ++ [f]) 0 = Some s0 /\
  Forall (fun d => zlen d = n /\ Forall (fun x => 0 <= x) d /\ zsum d = N) (h ++ [f]) /\
  forall i s s', nth_error (h ++ [f]) i = Some s -> nth_error (h ++ [f]) (S i) = Some s' ->
    exists a b, 0 <= a < n /\ 0 <= b < n /\ 0 < zget s a /\ s' = add_at (add_at s a (-1)) b 1.
Proof. exact kmr_inv. Qed.
Print Assumptions C20_kmr_inv.

Theorem C20_sampling_inv : forall A tol N n s0 ds h f,
  zlen A = n -> valid_dist N n s0 -> Forall (fun d : Z * list Z => 0 <= fst d < N) ds ->
  sampling_series A tol s0 ds = Some (h, f) ->
  length h = length ds /\ nth_error (h ++ [f]) 0 = Some s0 /\
  Forall (fun d => zlen d = n /\ Forall (fun x => 0 <= x) d /\ zsum d = N) (h ++ [f]) /\
  forall i s s', nth_error (h ++ [f]) i = Some s -> nth_error (h ++ [f]) (S i) = Some s' ->
    exists a b, 0 <= a < n /\ 0 <= b < n /\ 0 < zget s a /\ s' = add_at (add_at s a (-1)) b 1.
Proof. exact sampling_inv. Qed.
Print Assumptions C20_sampling_inv.

(* no IndexError: with a non-negative tolerance and at least one action a BRD step always exists *)
Theorem C20_brd_step_total : forall A tol s p, 0 < zlen A -> (0 <= tol)%Q -> exists s', brd_step A tol s p = Some s'.
Proof. exact brd_step_total. Qed.
Print Assumptions C20_brd_step_total.

(* ---- the step is the one the definition prescribes.
   (a) the revising player p is the p-th player when players are sorted by action:
       searchsorted(cumsum(dist), p, 'right') = a  with  sum(dist[:a]) <= p < sum(dist[:a+1]), dist[a] > 0 *)
Theorem C20_revising_action_spec : forall d p N n,
  valid_dist N n d -> 0 <= p < N ->
  let a := revising_action d p in
  0 <= a < n /\ 0 < zget d a /\
  zsum (firstn (Z.to_nat a) d) <= p < zsum (firstn (S (Z.to_nat a)) d).
Proof. exact revising_action_spec. Qed.
Print Assumptions C20_revising_action_spec.

(* (b) best_response with 'smallest' tie breaking, every Num: the FIRST index whose payoff reaches max - tol *)
Theorem C20_best_response_spec : forall (T : Type) (N : Num T) (pv : list T) tol b,
  best_response pv tol = Some b ->
  0 <= b < zlen pv /\
  (exists x, nth_error pv (Z.to_nat b) = Some x /\ nleb (nsub (vmax pv) tol) x = true) /\
  (forall j x, (j < Z.to_nat b)%nat -> nth_error pv j = Some x -> nleb (nsub (vmax pv) tol) x = false).
Proof. intros T N. exact (@best_response_spec T N). Qed.
Print Assumptions C20_best_response_spec.

(*     and over Q it is a best response up to tol: no action pays more than tol above it *)
Theorem C20_best_response_optimal : forall (pv : list Q) tol b,
  best_response pv tol = Some b ->
  0 <= b < zlen pv /\ exists x, nth_error pv (Z.to_nat b) = Some x /\ forall y, In y pv -> (y - tol <= x)%Q.
Proof. exact best_response_optimal_Q. Qed.
Print Assumptions C20_best_response_optimal.

(* (c) LocalInteraction: the loop that assigns actions[i] one revising player after the other equals the
   simultaneous definition: every revising player best-responds to the OLD profile, the others keep theirs *)
Theorem C20_localint_play_closed : forall A adj tol actions players acts',
  localint_play A adj tol actions players = Some acts' ->
  (forall i, In i players -> 0 <= i < zlen actions) ->
  zlen acts' = zlen actions /\
  forall j, 0 <= j < zlen actions ->
    Some (zget acts' j) =
      if existsb (Z.eqb j) players
      then best_response (mat_vec A (neighbour_counts (zlen A) (nth (Z.to_nat j) adj []) actions)) tol
      else Some (zget actions j).
Proof. exact localint_play_closed. Qed.
Print Assumptions C20_localint_play_closed.

(* ---- fictitious play (plain: okp p := p = None; stochastic: any perturbation vectors of the right lengths), exact
   arithmetic: along every history the beliefs stay probability vectors of the right lengths, the clock advances
   by one, and each new belief is (1-s) old + s e_br, s the documented step size, br a best response (up to tol) to
   the OLD beliefs of the opponent *)
Theorem C20_fp_inv : forall (okp : option (list Q * list Q) -> Prop) A B gain tol n0 n1 x0 x1 t0 perts h f,
  zlen A = n0 -> zlen B = n1 -> gain_ok gain ->
  fp_inv_state n0 n1 (x0, x1, t0) -> Forall (fun p => okp p /\ pert_ok n0 n1 p) perts ->
  fp_series A B gain tol x0 x1 t0 perts = Some (h, f) ->
  length h = length perts /\ nth_error (h ++ [f]) 0 = Some (x0, x1, t0) /\
  Forall (fun st : fp_state (T:=Q) => let '(y0, y1, t) := st in
            zlen y0 = n0 /\ zlen y1 = n1 /\ probvec y0 /\ probvec y1 /\ 0 <= t) (h ++ [f]) /\
  forall i st st', nth_error (h ++ [f]) i = Some st -> nth_error (h ++ [f]) (S i) = Some st' ->
    let '(y0, y1, t) := st in
    let '(y0', y1', t') := st' in
    t' = t + 1 /\
    exists pert b0 b1, okp pert /\
      is_best_response (fst (payoff_vectors A B y0 y1 pert)) tol b0 /\
      is_best_response (snd (payoff_vectors A B y0 y1 pert)) tol b1 /\
      best_response (fst (payoff_vectors A B y0 y1 pert)) tol = Some b0 /\
      best_response (snd (payoff_vectors A B y0 y1 pert)) tol = Some b1 /\
      update_rel y0 y0' b0 (step_size gain t) /\ update_rel y1 y1' b1 (step_size gain t).
Proof. exact fp_inv. Qed.
Print Assumptions C20_fp_inv.

(* the documented step sizes: 1/(t+2) without gain, the gain otherwise; both in [0,1] *)
Theorem C20_step_size : forall t, 0 <= t ->
  (step_size (T:=Q) None t == 1 / inject_Z (t + 2))%Q /\
  forall gain, gain_ok gain -> (0 <= step_size gain t /\ step_size gain t <= 1)%Q.
Proof. intros t Ht. split; [exact (step_size_default t Ht)|]. intros gain Hg. exact (step_size_range gain t Hg Ht). Qed.
Print Assumptions C20_step_size.

(* ---- LocalInteraction: along every history (simultaneous and asynchronous periods in any order) every
   profile has N entries, all inside the action set *)
Theorem C20_localint_range : forall A adj tol n N actions ds h f,
  zlen A = n -> zlen adj = N -> acts_ok n N actions ->
  localint_series A adj tol actions ds = Some (h, f) ->
  length h = length ds /\ nth_error (h ++ [f]) 0 = Some actions /\
  Forall (fun acts => zlen acts = N /\ Forall (fun a => 0 <= a < n) acts) (h ++ [f]).
Proof. exact localint_range. Qed.
Print Assumptions C20_localint_range.

(* ---- LogitDynamics, ANY arithmetic (in particular binary64): if every table entry is a non-empty cdf of the
   player's length whose total c satisfies  not (c <= u*c)  for every uniform 0 <= u < 1 (hypothesis; a float
   fact for binary64), then along every history every action stays inside its action set *)
Theorem C20_logit_range : forall (T : Type) (N : Num T) (ns : list Z) (cdfs : list (list (list Z * list T))),
  (forall i tbl key cdf, nth_error cdfs i = Some tbl -> lookup tbl key = Some cdf ->
     cdf <> [] /\ Some (zlen cdf) = nth_error ns i /\
     forall u, unitl u -> nleb (last cdf nzero) (nmul u (last cdf nzero)) = false) ->
  forall acts ds h f,
    Forall2 (fun a n => 0 <= a < n) acts ns -> Forall (fun d => unitl (snd d)) ds ->
    logit_series cdfs acts ds = Some (h, f) ->
    length h = length ds /\ nth_error (h ++ [f]) 0 = Some acts /\
    Forall (fun acts' => Forall2 (fun a n => 0 <= a < n) acts' ns) (h ++ [f]).
Proof. intros T N. exact (@logit_range T N). Qed.
Print Assumptions C20_logit_range.

(* ---- play() and time_series are the same fold: for ANY dynamics (step function) and any list of per-period draws,
   running the first k periods (play with num_reps = k / a player_ind_seq of length k) ends in row k of the series *)
Theorem C20_play_is_row : forall (St D : Type) (step : St -> D -> option St) ds s h f k,
  run step s ds = Some (h, f) -> (k <= length ds)%nat ->
  exists hk fk, run step s (firstn k ds) = Some (hk, fk) /\ nth_error (h ++ [f]) k = Some fk.
Proof. intros St D. exact (@play_is_row St D). Qed.
Print Assumptions C20_play_is_row.

(* ---- N-player fictitious play (payoff arrays of shape (n_i, n_{i+1}, ..., n_{i-1}) as nested lists, payoff vector by
   contracting the last axis with each opponent's belief, as Player.payoff_vector does), exact arithmetic: along every
   history all beliefs stay probability vectors of the right lengths and each moves by the documented step towards a
   best response (up to tol) to the payoff vector computed from the OLD beliefs *)
Theorem C20_nfp_inv : forall ns arrays gain tol xs t0 periods h f,
  game_ok ns arrays -> gain_ok gain -> beliefs_ok ns xs -> 0 <= t0 ->
  nfp_series arrays gain tol xs t0 periods = Some (h, f) ->
  length h = periods /\ nth_error (h ++ [f]) 0 = Some (xs, t0) /\
  Forall (fun st => Forall2 (fun x n => length x = n /\ probvec x) (fst st) ns /\ 0 <= snd st) (h ++ [f]) /\
  forall i st st', nth_error (h ++ [f]) i = Some st -> nth_error (h ++ [f]) (S i) = Some st' ->
    let '(ys, t) := st in
    let '(ys', t') := st' in
    t' = t + 1 /\ length ys' = length ys /\
    forall j x x' arr, nth_error ys j = Some x -> nth_error ys' j = Some x' -> nth_error arrays j = Some arr ->
      exists b, best_response (payoff_vector_n arr ys j) tol = Some b /\
                is_best_response (payoff_vector_n arr ys j) tol b /\
                update_rel x x' b (step_size gain t).
Proof. exact nfp_inv. Qed.
Print Assumptions C20_nfp_inv.

(* ---- LogitDynamics from the payoffs: the cumulative choice weights are cumsum(exp((payoffs - max) * beta)) with exp a
   parameter.  Any arithmetic: if the totals are admissible (scaling fact), every action stays in its action set along
   every history; over Q every POSITIVE function in place of exp makes all totals admissible, so nothing is assumed. *)
Theorem C20_logit_full_range : forall (T : Type) (N : Num T) (expf : T -> T) (scal_ok : T -> Prop),
  (forall c u, scal_ok c -> unitl u -> nleb c (nmul u c) = false) ->
  forall (ns : list Z) (beta : T) (pays : list (list (list Z * list T))),
  (forall i tbl key pv, nth_error pays i = Some tbl -> lookup tbl key = Some pv ->
     pv <> [] /\ Some (zlen pv) = nth_error ns i /\ scal_ok (last (logit_cdf expf beta pv) nzero)) ->
  forall acts ds h f,
    Forall2 (fun a n => 0 <= a < n) acts ns -> Forall (fun d => unitl (snd d)) ds ->
    run (logit_step_full expf beta pays) acts ds = Some (h, f) ->
    length h = length ds /\ nth_error (h ++ [f]) 0 = Some acts /\
    Forall (fun acts' => Forall2 (fun a n => 0 <= a < n) acts' ns) (h ++ [f]).
Proof. intros T N. exact (@logit_full_range T N). Qed.
Print Assumptions C20_logit_full_range.

Theorem C20_logit_full_range_Q : forall (expq : Q -> Q), (forall x, (0 < expq x)%Q) ->
  forall (ns : list Z) (beta : Q) (pays : list (list (list Z * list Q))),
  (forall i tbl key pv, nth_error pays i = Some tbl -> lookup tbl key = Some pv ->
     pv <> [] /\ Some (zlen pv) = nth_error ns i) ->
  forall acts ds h f,
    Forall2 (fun a n => 0 <= a < n) acts ns -> Forall (fun d => unitl (snd d)) ds ->
    run (logit_step_full expq beta pays) acts ds = Some (h, f) ->
    length h = length ds /\ nth_error (h ++ [f]) 0 = Some acts /\
    Forall (fun acts' => Forall2 (fun a n => 0 <= a < n) acts' ns) (h ++ [f]).
Proof. exact logit_full_range_Q. Qed.
Print Assumptions C20_logit_full_range_Q.

(* ---- the hypotheses are satisfiable by concrete non-trivial objects *)
Definition A_ex : list (list Q) := [[0; 3; 1]; [3; 0; 1]; [2; 2; 2]]%Q.
Example ex_brd : valid_dist 5 3 [2; 0; 3] /\ zlen A_ex = 3 /\
  brd_series A_ex (1 # 100000000) [2; 0; 3] [0; 4; 2; 1; 0; 3] =
    Some ([[2; 0; 3]; [1; 0; 4]; [1; 0; 4]; [1; 0; 4]; [1; 0; 4]; [0; 0; 5]], [0; 0; 5]).
Proof.
  split; [|split].
  - split; [reflexivity|]. split; [repeat constructor; lia|reflexivity].
  - reflexivity.
  - vm_compute. reflexivity.
Qed.

Example ex_fp :
  gain_ok None /\ fp_inv_state 2 2 ([1; 0]%Q, [1#2; 1#2]%Q, 0) /\
  option_map (fun r => snd r) (fp_series [[1; 0]; [0; 1]]%Q [[0; 1]; [1; 0]]%Q None (1 # 100000000) [1; 0]%Q [1#2; 1#2]%Q 0 [None; None])
    = Some ([2#3; 1#3]%Q, [1#6; 5#6]%Q, 2).
Proof.
  split; [exact I|]. split.
  - unfold fp_inv_state, probvec. repeat split; try reflexivity; try lia; repeat constructor; try (vm_compute; discriminate).
  - vm_compute. reflexivity.
Qed.

(* the logit hypothesis holds over Q whenever the totals are positive *)
Lemma logit_scaling_Q : forall c u : Q, (0 < c)%Q -> unitl u -> nleb c (nmul u c) = false.
Proof.
  intros c u Hc [H0 H1]. cbn [nleb nmul NumQ nltb nzero none_] in *.
  apply Qle_bool_iff in H0. apply Qltb_lt in H1.
  destruct (Qle_bool c (Qmulr u c)) eqn:E; [|reflexivity].
  apply Qle_bool_iff in E. rewrite Qmulr_eq in E. nra.
Qed.

Definition cdfs_ex : list (list (list Z * list Q)) :=
  [[([0], [1; 3]%Q); ([1], [2; 3]%Q)]; [([0], [1; 2]%Q); ([1], [1#2; 1]%Q)]].
Example ex_logit_tables : forall i tbl key cdf,
  nth_error cdfs_ex i = Some tbl -> lookup tbl key = Some cdf ->
  cdf <> [] /\ Some (zlen cdf) = nth_error [2; 2] i /\
  forall u, unitl u -> nleb (last cdf nzero) (nmul u (last cdf nzero)) = false.
Proof.
  assert (Hl : forall (tbl : list (list Z * list Q)) key cdf, lookup tbl key = Some cdf -> In cdf (map snd tbl)).
  { induction tbl as [|[k v] r IH]; intros key cdf Hh; simpl in Hh; [discriminate|].
    destruct (profile_eqb k key); [injection Hh as <-; left; reflexivity|right; eapply IH; eauto]. }
  intros i tbl key cdf Ht Hk. apply Hl in Hk.
  destruct i as [|[|i]]; simpl in Ht; try (destruct i; discriminate); injection Ht as <-; simpl in Hk;
    destruct Hk as [<-|[<-|[]]]; (split; [discriminate|]; split; [reflexivity|]; intros u Hu; apply logit_scaling_Q; [reflexivity|exact Hu]).
Qed.
Example ex_logit_run :
  logit_series cdfs_ex [0; 1] [(0, (1#2)%Q); (1, 0%Q); (0, (9#10)%Q)] = Some ([[0; 1]; [0; 1]; [0; 0]], [1; 0]).
Proof. vm_compute. reflexivity. Qed.

Example ex_localint :
  acts_ok 2 3 [0; 1; 1] /\
  localint_series [[2; 0]; [0; 1]]%Q [[0; 1; 1]; [1; 0; 0]; [2; 0; 0]]%Q 0 [0; 1; 1] [None; Some 1; None]
    = Some ([[0; 1; 1]; [1; 0; 0]; [1; 1; 0]], [0; 1; 1]).
Proof. split; [split; [reflexivity|repeat constructor; lia]|vm_compute; reflexivity]. Qed.

(* a 3-player game with 2 actions each: shapes, beliefs, and a run of the N-player model *)
Example ex_nfp : game_ok [2; 2; 2]%nat [arr3; arr3; arr3] /\
  beliefs_ok [2; 2; 2]%nat [[1; 0]; [1#2; 1#2]; [0; 1]]%Q /\
  option_map snd (nfp_series [arr3; arr3; arr3] None (1 # 100000000) [[1; 0]; [1#2; 1#2]; [0; 1]]%Q 0 2)
    = Some ([[2#3; 1#3]; [1#6; 5#6]; [1#3; 2#3]]%Q, 2).
Proof.
  split; [exact arr3_game|split].
  - unfold beliefs_ok, probvec. repeat constructor; try reflexivity; try (vm_compute; discriminate).
  - vm_compute. reflexivity.
Qed.

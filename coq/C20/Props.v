(* C20 property theorems (statements only). *)
From Coq Require Import ZArith List Bool.
From QE Require Import Base.Num C20.Model.

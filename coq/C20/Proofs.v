(* C20 proofs, part 1: histories, array helpers, revising action, best response,
   invariants of BRD / KMR / SamplingBRD along every history. *)
From Coq Require Import ZArith QArith List Bool Lia Lqa.
From QE Require Import Base.Num C20.Model.
Import ListNotations.
Open Scope Z_scope.

(* ------------------------------------------------------------------ histories *)
Section Run.
Context {St D : Type}.
Variable step : St -> D -> option St.

Fixpoint run_rec (s : St) (ds : list D) : option (list St * St) :=
  match ds with
  | [] => Some ([], s)
  | d :: r => match step s d with
              | Some s' => match run_rec s' r with Some (h, f) => Some (s :: h, f) | None => None end
              | None => None
              end
  end.

Definition run_f := (fun (acc : option (list St * St)) d =>
               match acc with
               | Some (hist, s) =>
                 match step s d with Some s' => Some (hist ++ [s], s') | None => None end
               | None => None
               end).

Lemma fold_run_None : forall ds, fold_left run_f ds None = None.
Proof. induction ds; simpl; auto. Qed.

Lemma fold_run_Some : forall ds h s,
  fold_left run_f ds (Some (h, s)) =
  match run_rec s ds with Some (h', f) => Some (h ++ h', f) | None => None end.
Proof.
  induction ds as [|d r IH]; intros h s; simpl.
  - now rewrite app_nil_r.
  - destruct (step s d) as [s'|]; [|apply fold_run_None].
    rewrite IH. destruct (run_rec s' r) as [[h' f]|]; [|reflexivity].
    now rewrite <- app_assoc.
Qed.

Lemma run_eq : forall s ds, run step s ds = run_rec s ds.
Proof.
  intros s ds. unfold run. change (fold_left run_f ds (Some ([], s)) = run_rec s ds).
  rewrite fold_run_Some. destruct (run_rec s ds) as [[h f]|]; reflexivity.
Qed.

(* an invariant Inv and a step relation Rel established by every single step hold along every history *)
Variable Inv : St -> Prop.
Variable Rel : St -> St -> Prop.
Variable okd : D -> Prop.
Hypothesis step_ok : forall s d s', Inv s -> okd d -> step s d = Some s' -> Inv s' /\ Rel s s'.

Definition chain_rel (l : list St) : Prop :=
  forall i a b, nth_error l i = Some a -> nth_error l (S i) = Some b -> Rel a b.

Lemma run_rec_inv : forall ds s h f,
  Inv s -> Forall okd ds -> run_rec s ds = Some (h, f) ->
  length h = length ds /\ nth_error (h ++ [f]) 0 = Some s /\
  Forall Inv (h ++ [f]) /\ chain_rel (h ++ [f]).
Proof.
  induction ds as [|d r IH]; intros s h f Hs Hd Hrun; simpl in Hrun.
  - injection Hrun as <- <-. simpl. repeat split; auto.
    intros i a b Ha Hb. destruct i; simpl in Hb; [discriminate|]. destruct i; discriminate.
  - inversion Hd as [|? ? Hd0 Hdr]; subst.
    destruct (step s d) as [s'|] eqn:Es; [|discriminate].
    destruct (run_rec s' r) as [[h' f']|] eqn:Er; [|discriminate].
    injection Hrun as <- <-.
    destruct (step_ok s d s' Hs Hd0 Es) as [Hs' Hrel].
    destruct (IH s' h' f' Hs' Hdr Er) as [Hl [Hh [Hall Hch]]].
    simpl. repeat split; auto.
    intros i a b Ha Hb. destruct i.
    + change (Some s = Some a) in Ha. change (nth_error (h' ++ [f']) 0 = Some b) in Hb.
      injection Ha as <-. rewrite Hh in Hb. injection Hb as <-. exact Hrel.
    + change (nth_error (h' ++ [f']) i = Some a) in Ha. change (nth_error (h' ++ [f']) (S i) = Some b) in Hb.
      eapply Hch; eauto.
Qed.

Theorem run_inv : forall ds s h f,
  Inv s -> Forall okd ds -> run step s ds = Some (h, f) ->
  length h = length ds /\ nth_error (h ++ [f]) 0 = Some s /\
  Forall Inv (h ++ [f]) /\ chain_rel (h ++ [f]).
Proof. intros ds s h f Hs Hd Hr. rewrite run_eq in Hr. eapply run_rec_inv; eauto. Qed.
End Run.

(* ------------------------------------------------------------------ array helpers *)
Lemma add_at_nat_length : forall a i d, length (add_at_nat a i d) = length a.
Proof. induction a; destruct i; simpl; auto. Qed.
Lemma add_at_length a i d : length (add_at a i d) = length a.
Proof. unfold add_at. destruct (i <? 0); auto using add_at_nat_length. Qed.

Lemma add_at_nat_sum : forall a i d, (i < length a)%nat -> zsum (add_at_nat a i d) = zsum a + d.
Proof.
  induction a as [|x r IH]; intros i d Hi; simpl in Hi; [lia|].
  destruct i; simpl; [lia|]. rewrite IH by lia. lia.
Qed.
Lemma add_at_sum a i d : 0 <= i < zlen a -> zsum (add_at a i d) = zsum a + d.
Proof.
  intros Hi. unfold add_at. destruct (Z.ltb_spec i 0); [lia|]. apply add_at_nat_sum. unfold zlen in Hi. lia.
Qed.

Lemma add_at_nat_nth : forall a i d j, nth j (add_at_nat a i d) 0 = if Nat.eqb j i then (if Nat.ltb j (length a) then nth j a 0 + d else 0) else nth j a 0.
Proof.
  induction a as [|x r IH]; intros i d j.
  - simpl. destruct j, i; simpl; auto; destruct (Nat.eqb j i); auto.
  - destruct i, j; simpl; auto.
    rewrite IH. destruct (Nat.eqb j i); auto.
Qed.

Lemma zget_add_at a i d j : 0 <= i < zlen a -> 0 <= j ->
  zget (add_at a i d) j = if j =? i then zget a j + d else zget a j.
Proof.
  intros Hi Hj. unfold zget, add_at. destruct (Z.ltb_spec j 0); [lia|]. destruct (Z.ltb_spec i 0); [lia|].
  rewrite add_at_nat_nth. unfold zlen in Hi.
  destruct (Z.eqb_spec j i).
  - subst. rewrite Nat.eqb_refl. destruct (Nat.ltb_spec (Z.to_nat i) (length a)); [reflexivity|lia].
  - destruct (Nat.eqb_spec (Z.to_nat j) (Z.to_nat i)); [lia|reflexivity].
Qed.

Lemma Forall_nth_Z (Pp : Z -> Prop) (a : list Z) : (forall j, (j < length a)%nat -> Pp (nth j a 0)) -> Forall Pp a.
Proof.
  induction a as [|x r IH]; intros Hh; constructor.
  - apply (Hh 0%nat). simpl. lia.
  - apply IH. intros j Hj. apply (Hh (S j)). simpl. lia.
Qed.

Lemma add_at_nonneg a i d : 0 <= i < zlen a -> Forall (fun x => 0 <= x) a -> 0 <= zget a i + d ->
  Forall (fun x => 0 <= x) (add_at a i d).
Proof.
  intros Hi Ha Hd. apply Forall_nth_Z. intros j Hj. rewrite add_at_length in Hj.
  pose proof (zget_add_at a i d (Z.of_nat j) Hi ltac:(lia)) as E.
  unfold zget in E. destruct (Z.ltb_spec (Z.of_nat j) 0); [lia|]. rewrite Nat2Z.id in E. rewrite E.
  destruct (Z.eqb_spec (Z.of_nat j) i).
  - subst i. unfold zget in Hd. destruct (Z.ltb_spec (Z.of_nat j) 0); [lia|]. rewrite Nat2Z.id in Hd. exact Hd.
  - rewrite Forall_forall in Ha. apply Ha. apply nth_In. exact Hj.
Qed.

Lemma set_at_nat_length {A} : forall (a : list A) i v, length (set_at_nat a i v) = length a.
Proof. induction a; destruct i; simpl; auto. Qed.
Lemma set_at_length {A} (a : list A) i v : length (set_at a i v) = length a.
Proof. unfold set_at. destruct (i <? 0); auto using set_at_nat_length. Qed.

Lemma set_at_nat_nth_error {A} : forall (a : list A) i v j,
  nth_error (set_at_nat a i v) j = if Nat.eqb j i then (if Nat.ltb j (length a) then Some v else None) else nth_error a j.
Proof.
  induction a as [|x r IH]; intros i v j.
  - simpl. destruct j, i; simpl; auto; destruct (Nat.eqb j i); auto.
  - destruct i, j; simpl; auto. rewrite IH. destruct (Nat.eqb j i); auto.
Qed.

Lemma zsum_cons x l : zsum (x :: l) = x + zsum l.
Proof. reflexivity. Qed.

(* ------------------------------------------------------------------ revising action *)
Lemma ss_right_cumsumZ : forall (d : list Z) acc p,
  Forall (fun x => 0 <= x) d -> acc <= p < acc + zsum d ->
  let a := ss_right (cumsumZ_from acc d) p in
  0 <= a < zlen d /\ 0 < zget d a /\
  acc + zsum (firstn (Z.to_nat a) d) <= p < acc + zsum (firstn (S (Z.to_nat a)) d).
Proof.
  induction d as [|x r IH]; intros acc p Hnn Hp; simpl in Hp; [lia|].
  inversion Hnn as [|? ? Hx Hr]; subst.
  cbn [cumsumZ_from ss_right]. change (nleb (acc + x) p) with (Z.leb (acc + x) p).
  destruct (Z.leb_spec (acc + x) p) as [Hle|Hgt].
  - destruct (IH (acc + x) p Hr ltac:(lia)) as [Ha [Hpos Hbr]].
    set (a := ss_right (cumsumZ_from (acc + x) r) p) in *.
    cbv zeta. unfold zlen in *. cbn [length]. split; [lia|].
    replace (Z.to_nat (1 + a)) with (S (Z.to_nat a)) by lia. split.
    + unfold zget in *. destruct (Z.ltb_spec (1 + a) 0); [lia|]. destruct (Z.ltb_spec a 0); [lia|].
      replace (Z.to_nat (1 + a)) with (S (Z.to_nat a)) by lia. exact Hpos.
    + rewrite !firstn_cons, !zsum_cons. lia.
  - cbv zeta. unfold zlen. cbn [length]. split; [lia|]. split.
    + unfold zget. simpl. lia.
    + simpl. lia.
Qed.

Definition valid_dist (N : Z) (n : Z) (d : list Z) : Prop :=
  zlen d = n /\ Forall (fun x => 0 <= x) d /\ zsum d = N.

Lemma revising_action_spec : forall d p N n,
  valid_dist N n d -> 0 <= p < N ->
  let a := revising_action d p in
  0 <= a < n /\ 0 < zget d a /\
  zsum (firstn (Z.to_nat a) d) <= p < zsum (firstn (S (Z.to_nat a)) d).
Proof.
  intros d p N n [Hl [Hnn Hs]] Hp. unfold revising_action, cumsumZ.
  pose proof (ss_right_cumsumZ d 0 p Hnn ltac:(lia)) as Hh. cbv zeta in Hh |- *. rewrite Hl in Hh. lia.
Qed.

(* ------------------------------------------------------------------ best response *)
Section BR.
Context {T : Type} `{Num T}.

Lemma first_ge_spec : forall (l : list T) thr i b,
  first_ge l thr i = Some b ->
  i <= b < i + zlen l /\
  (exists x, nth_error l (Z.to_nat (b - i)) = Some x /\ nleb thr x = true) /\
  (forall j x, (j < Z.to_nat (b - i))%nat -> nth_error l j = Some x -> nleb thr x = false).
Proof.
  induction l as [|x r IH]; intros thr i b Hb; simpl in Hb; [discriminate|].
  unfold zlen. cbn [length]. destruct (nleb thr x) eqn:E.
  - injection Hb as <-. replace (i - i) with 0 by lia. split; [lia|]. split.
    + exists x. auto.
    + intros j y Hj. simpl in Hj. lia.
  - destruct (IH thr (i + 1) b Hb) as [Hr [[y [Hy Ey]] Hlt]]. unfold zlen in Hr. split; [lia|].
    replace (Z.to_nat (b - i)) with (S (Z.to_nat (b - (i + 1)))) by lia. split.
    + exists y. auto.
    + intros j z Hj Hz. destruct j; simpl in Hz; [congruence|]. eapply Hlt; eauto. lia.
Qed.

Lemma best_response_range : forall (pv : list T) tol b,
  best_response pv tol = Some b -> 0 <= b < zlen pv.
Proof. intros pv tol b Hb. apply first_ge_spec in Hb. lia. Qed.

(* smallest-index tie breaking: b is the first index whose payoff reaches max - tol *)
Lemma best_response_spec : forall (pv : list T) tol b,
  best_response pv tol = Some b ->
  0 <= b < zlen pv /\
  (exists x, nth_error pv (Z.to_nat b) = Some x /\ nleb (nsub (vmax pv) tol) x = true) /\
  (forall j x, (j < Z.to_nat b)%nat -> nth_error pv j = Some x -> nleb (nsub (vmax pv) tol) x = false).
Proof.
  intros pv tol b Hb. apply first_ge_spec in Hb. replace (b - 0) with b in Hb by lia. simpl in Hb.
  destruct Hb as [A [B C]]. repeat split; auto; lia.
Qed.

Lemma mat_vec_length (A : list (list T)) x : zlen (mat_vec A x) = zlen A.
Proof. unfold zlen, mat_vec. now rewrite map_length. Qed.
End BR.

(* over Q the maximum is attained, so a non-negative tolerance always leaves a best response *)
Lemma vmax_fold_Q : forall (r : list Q) (m : Q),
  let v := fold_left (fun m y => if Qltb m y then y else m) r m in
  (m <= v)%Q /\ (forall y, In y r -> (y <= v)%Q) /\ (v = m \/ In v r).
Proof.
  induction r as [|y r IH]; intros m; simpl.
  - split; [apply Qle_refl|]. split; [tauto|auto].
  - destruct (Qltb m y) eqn:E.
    + apply Qltb_lt in E. destruct (IH y) as [A [B C]]. split; [eapply Qle_trans; [apply Qlt_le_weak; eauto|eauto]|].
      split.
      * intros z [<-|Hz]; auto.
      * destruct C as [C|C]; [right; left; auto|right; right; auto].
    + assert (Hym : (y <= m)%Q).
      { destruct (Qlt_le_dec m y) as [Hl|Hl]; [apply Qltb_lt in Hl; congruence|exact Hl]. }
      destruct (IH m) as [A [B C]]. split; [auto|]. split.
      * intros z [<-|Hz]; [eapply Qle_trans; eauto|auto].
      * destruct C as [C|C]; [left; auto|right; right; auto].
Qed.

Lemma vmax_Q_spec : forall pv : list Q, pv <> [] ->
  In (vmax pv) pv /\ forall y, In y pv -> (y <= vmax pv)%Q.
Proof.
  intros [|x r] Hne; [congruence|]. unfold vmax. cbn [nltb NumQ].
  destruct (vmax_fold_Q r x) as [A [B C]]. cbv zeta in *. split.
  - destruct C as [C|C]; [left; auto|right; auto].
  - intros y [<-|Hy]; auto.
Qed.

Lemma first_ge_total_Q : forall (l : list Q) thr i, (exists x, In x l /\ (thr <= x)%Q) -> exists b, first_ge l thr i = Some b.
Proof.
  induction l as [|y r IH]; intros thr i [x [Hx Hle]]; [destruct Hx|].
  simpl. cbn [nleb NumQ]. destruct (Qle_bool thr y) eqn:E; [eauto|].
  destruct Hx as [<-|Hx].
  - apply Qle_bool_iff in Hle. congruence.
  - apply IH. eauto.
Qed.

Lemma best_response_total_Q : forall (pv : list Q) tol, pv <> [] -> (0 <= tol)%Q ->
  exists b, best_response pv tol = Some b.
Proof.
  intros pv tol Hne Htol. unfold best_response. apply first_ge_total_Q.
  destruct (vmax_Q_spec pv Hne) as [Hin _]. exists (vmax pv). split; [exact Hin|].
  cbn [nsub NumQ]. rewrite Qsubr_eq. lra.
Qed.

(* ------------------------------------------------------------------ BRD / KMR / SamplingBRD *)
(* s' is s with one player moved from an action that somebody plays to some action (possibly the same) *)
Definition moves_one (n : Z) (s s' : list Z) : Prop :=
  exists a b, 0 <= a < n /\ 0 <= b < n /\ 0 < zget s a /\ s' = add_at (add_at s a (-1)) b 1.

Lemma move_valid : forall N n s a b,
  valid_dist N n s -> 0 <= a < n -> 0 <= b < n -> 0 < zget s a ->
  valid_dist N n (add_at (add_at s a (-1)) b 1).
Proof.
  intros N n s a b [Hl [Hnn Hs]] Ha Hb Hpos.
  assert (Hl1 : zlen (add_at s a (-1)) = n) by (unfold zlen in *; now rewrite add_at_length).
  assert (Hnn1 : Forall (fun x => 0 <= x) (add_at s a (-1))) by (apply add_at_nonneg; auto; lia).
  split; [unfold zlen in *; now rewrite !add_at_length|]. split.
  - apply add_at_nonneg; auto; [lia|].
    rewrite zget_add_at by lia. destruct (Z.eqb_spec b a).
    + subst. lia.
    + assert (0 <= zget s b); [|lia]. unfold zget. destruct (b <? 0); [lia|].
      destruct (Nat.ltb_spec (Z.to_nat b) (length s)).
      * rewrite Forall_forall in Hnn. apply Hnn. apply nth_In. auto.
      * rewrite nth_overflow by lia. lia.
  - rewrite add_at_sum by lia. rewrite add_at_sum by lia. lia.
Qed.

Lemma brd_play_ok : forall A tol N n s a s',
  zlen A = n -> valid_dist N n s -> 0 <= a < n -> 0 < zget s a ->
  brd_play A tol s a = Some s' -> valid_dist N n s' /\ moves_one n s s'.
Proof.
  intros A tol N n s a s' HA Hv Ha Hpos Hp. unfold brd_play in Hp.
  destruct (best_response _ tol) as [b|] eqn:Eb; [|discriminate]. injection Hp as <-.
  apply best_response_range in Eb. rewrite mat_vec_length in Eb.
  split; [apply move_valid; auto; lia|]. exists a, b. repeat split; auto; lia.
Qed.

Theorem brd_step_ok : forall A tol N n s p s',
  zlen A = n -> valid_dist N n s -> 0 <= p < N ->
  brd_step A tol s p = Some s' -> valid_dist N n s' /\ moves_one n s s'.
Proof.
  intros A tol N n s p s' HA Hv Hp Hs. unfold brd_step in Hs.
  destruct (revising_action_spec s p N n Hv Hp) as [Ha [Hpos _]].
  eapply brd_play_ok; eauto.
Qed.

Definition kmr_draw_ok (N n : Z) (d : Z * Q * Z) : Prop :=
  let '(p, u, r) := d in 0 <= p < N /\ 0 <= r < n.

Theorem kmr_step_ok : forall A tol eps N n s d s',
  zlen A = n -> valid_dist N n s -> kmr_draw_ok N n d ->
  kmr_step A tol eps s d = Some s' -> valid_dist N n s' /\ moves_one n s s'.
Proof.
  intros A tol eps N n s [[p u] r] s' HA Hv [Hp Hr] Hs. unfold kmr_step in Hs.
  destruct (revising_action_spec s p N n Hv Hp) as [Ha [Hpos _]].
  destruct (Qltb u eps).
  - injection Hs as <-.
    assert (Hr' : 0 <= (if zlen A =? 1 then 0 else r) < n) by (destruct (zlen A =? 1); lia).
    split; [apply move_valid; auto|]. exists (revising_action s p), (if zlen A =? 1 then 0 else r). auto.
  - eapply brd_play_ok; eauto.
Qed.

Theorem sampling_step_ok : forall A tol N n s d s',
  zlen A = n -> valid_dist N n s -> 0 <= fst d < N ->
  sampling_step A tol s d = Some s' -> valid_dist N n s' /\ moves_one n s s'.
Proof.
  intros A tol N n s [p sample] s' HA Hv Hp Hs. simpl in Hp. unfold sampling_step in Hs.
  destruct (revising_action_spec s p N n Hv Hp) as [Ha [Hpos _]].
  destruct (best_response _ tol) as [b|] eqn:Eb; [|discriminate]. injection Hs as <-.
  apply best_response_range in Eb. rewrite mat_vec_length in Eb.
  split; [apply move_valid; auto; lia|]. exists (revising_action s p), b. repeat split; auto; lia.
Qed.

(* along every history of every length *)
Definition dist_history_ok (N n : Z) (s0 : list Z) (k : nat) (h : list (list Z)) (f : list Z) : Prop :=
  length h = k /\ nth_error (h ++ [f]) 0 = Some s0 /\
  Forall (valid_dist N n) (h ++ [f]) /\ chain_rel (moves_one n) (h ++ [f]).

Theorem brd_inv : forall A tol N n s0 ps h f,
  zlen A = n -> valid_dist N n s0 -> Forall (fun p => 0 <= p < N) ps ->
  brd_series A tol s0 ps = Some (h, f) -> dist_history_ok N n s0 (length ps) h f.
Proof.
  intros A tol N n s0 ps h f HA Hv Hps Hr. unfold brd_series in Hr.
  apply (run_inv (brd_step A tol) (valid_dist N n) (moves_one n) (fun p => 0 <= p < N)) in Hr; auto.
  intros s d s' Hs Hd Hst. eapply brd_step_ok; eauto.
Qed.

Theorem kmr_inv : forall A tol eps N n s0 ds h f,
  zlen A = n -> valid_dist N n s0 -> Forall (kmr_draw_ok N n) ds ->
  kmr_series A tol eps s0 ds = Some (h, f) -> dist_history_ok N n s0 (length ds) h f.
Proof.
  intros A tol eps N n s0 ds h f HA Hv Hds Hr. unfold kmr_series in Hr.
  apply (run_inv (kmr_step A tol eps) (valid_dist N n) (moves_one n) (kmr_draw_ok N n)) in Hr; auto.
  intros s d s' Hs Hd Hst. eapply kmr_step_ok; eauto.
Qed.

Theorem sampling_inv : forall A tol N n s0 ds h f,
  zlen A = n -> valid_dist N n s0 -> Forall (fun d => 0 <= fst d < N) ds ->
  sampling_series A tol s0 ds = Some (h, f) -> dist_history_ok N n s0 (length ds) h f.
Proof.
  intros A tol N n s0 ds h f HA Hv Hds Hr. unfold sampling_series in Hr.
  apply (run_inv (sampling_step A tol) (valid_dist N n) (moves_one n) (fun d => 0 <= fst d < N)) in Hr; auto.
  intros s d s' Hs Hd Hst. eapply sampling_step_ok; eauto.
Qed.

(* the histories exist (no IndexError) whenever the tolerance is non-negative and there is an action *)
Theorem brd_step_total : forall A tol s p, 0 < zlen A -> (0 <= tol)%Q -> exists s', brd_step A tol s p = Some s'.
Proof.
  intros A tol s p HA Htol. unfold brd_step, brd_play.
  destruct (best_response_total_Q (mat_vec A (qvec (add_at s (revising_action s p) (-1)))) tol) as [b Eb]; auto.
  - intro E. apply (f_equal (@length Q)) in E. unfold mat_vec in E. rewrite map_length in E. unfold zlen in HA. simpl in E. lia.
  - rewrite Eb. eauto.
Qed.

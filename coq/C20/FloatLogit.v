(* C20: LogitDynamics range theorem instantiated at binary64 with the scaling fact proved in C10/FloatFacts2.v *)
From Coq Require Import ZArith List Bool.
From QE Require Import Base.Num C20.Model C20.Proofs C20.Proofs2 C10.FloatConsts C10.FloatFacts C10.FloatFacts2.
Import ListNotations.
Open Scope Z_scope.

Theorem logit_range_binary64 : forall (ns : list Z) (cdfs : list (list (list Z * list PrimFloat.float))),
  (forall i tbl key cdf, nth_error cdfs i = Some tbl -> lookup tbl key = Some cdf ->
     cdf <> [] /\ Some (zlen cdf) = nth_error ns i /\ scal64 (last cdf nzero)) ->
  forall acts ds h f,
    Forall2 (fun a n => 0 <= a < n) acts ns -> Forall (fun d => unitl (snd d)) ds ->
    logit_series cdfs acts ds = Some (h, f) ->
    length h = length ds /\ nth_error (h ++ [f]) 0 = Some acts /\
    Forall (fun acts' => Forall2 (fun a n => 0 <= a < n) acts' ns) (h ++ [f]).
Proof.
  intros ns cdfs Ht. apply (@logit_range PrimFloat.float NumF ns cdfs).
  intros i tbl key cdf Hi Hk. destruct (Ht i tbl key cdf Hi Hk) as [A [B C]].
  split; [exact A|]. split; [exact B|]. intros u Hu. apply logit_scaling_binary64; [exact C|exact Hu].
Qed.

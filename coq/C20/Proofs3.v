(* C20 proofs, part 3: play() vs time_series as a theorem about the fold; N-player fictitious play;
   LogitDynamics including the construction of the cumulative choice weights. *)
From Coq Require Import ZArith QArith List Bool Lia Lqa.
From QE Require Import Base.Num C20.Model C20.Proofs C20.Proofs2.
Import ListNotations.
Open Scope Z_scope.

(* ================================================================== play(k periods) is row k of time_series *)
Section RunApp.
Context {St D : Type}.
Variable step : St -> D -> option St.

Lemma run_rec_app : forall ds1 ds2 s,
  run_rec step s (ds1 ++ ds2) =
  match run_rec step s ds1 with
  | Some (h1, f1) => match run_rec step f1 ds2 with Some (h2, f2) => Some (h1 ++ h2, f2) | None => None end
  | None => None
  end.
Proof.
  induction ds1 as [|d r IH]; intros ds2 s; cbn [app run_rec].
  - destruct (run_rec step s ds2) as [[h f]|]; reflexivity.
  - destruct (step s d) as [s'|]; [|reflexivity]. rewrite IH.
    destruct (run_rec step s' r) as [[h1 f1]|]; [|reflexivity].
    destruct (run_rec step f1 ds2) as [[h2 f2]|]; reflexivity.
Qed.

Lemma run_rec_length : forall l s h f, run_rec step s l = Some (h, f) -> length h = length l.
Proof.
  induction l as [|d r IH]; intros s h f E; simpl in E.
  - injection E as <- <-. reflexivity.
  - destruct (step s d) as [s'|]; [|discriminate]. destruct (run_rec step s' r) as [[h' f']|] eqn:Er; [|discriminate].
    injection E as <- <-. simpl. f_equal. eapply IH; eauto.
Qed.

(* time_series = the states before each period and the last one; play over the first k periods ends in row k *)
Theorem play_is_row : forall ds s h f k,
  run step s ds = Some (h, f) -> (k <= length ds)%nat ->
  exists hk fk, run step s (firstn k ds) = Some (hk, fk) /\ nth_error (h ++ [f]) k = Some fk.
Proof.
  intros ds s h f k Hr Hk. rewrite run_eq in *.
  rewrite <- (firstn_skipn k ds) in Hr. rewrite run_rec_app in Hr.
  destruct (run_rec step s (firstn k ds)) as [[h1 f1]|] eqn:E1; [|discriminate].
  destruct (run_rec step f1 (skipn k ds)) as [[h2 f2]|] eqn:E2; [|discriminate].
  injection Hr as <- <-. exists h1, f1. split; [reflexivity|].
  assert (Hl : length h1 = k) by (rewrite (run_rec_length _ _ _ _ E1); apply firstn_length_le; exact Hk).
  rewrite <- app_assoc. rewrite nth_error_app2 by lia. rewrite Hl, Nat.sub_diag.
  destruct (skipn k ds) as [|d r]; simpl in E2.
  - injection E2 as <- <-. reflexivity.
  - destruct (step f1 d); [|discriminate]. destruct (run_rec step s0 r) as [[h' f']|]; [|discriminate].
    injection E2 as <- <-. reflexivity.
Qed.
End RunApp.

Lemma Forall2_len {A B} (R : A -> B -> Prop) : forall l l', Forall2 R l l' -> length l = length l'.
Proof. induction 1; simpl; auto. Qed.

(* ================================================================== N-player fictitious play, exact *)
Section NFP.
Open Scope Q_scope.

Fixpoint shape_ok (dims : list nat) (t : tensor (T:=Q)) : Prop :=
  match dims with
  | [] => exists v, t = Leaf v
  | n :: r => exists l, t = Node l /\ length l = n /\ Forall (shape_ok r) l
  end.

Lemma contract_shape : forall pre (t : tensor (T:=Q)) x m,
  shape_ok (pre ++ [m]) t -> shape_ok pre (contract (length pre) t x).
Proof.
  induction pre as [|n r IH]; intros t x m Hs; cbn [app shape_ok length] in *.
  - destruct Hs as [l [-> _]]. cbn [contract]. eauto.
  - destruct Hs as [l [-> [Hl Hf]]]. cbn [contract]. exists (map (fun s => contract (length r) s x) l).
    split; [reflexivity|]. split; [now rewrite map_length|].
    apply Forall_forall. intros s Hs. apply in_map_iff in Hs. destruct Hs as [s0 [<- Hs0]].
    rewrite Forall_forall in Hf. eapply IH. apply Hf. exact Hs0.
Qed.

Lemma contract_all_shape : forall ropps rds n (t : tensor (T:=Q)),
  length rds = length ropps -> shape_ok (n :: rev rds) t -> shape_ok [n] (contract_all t ropps).
Proof.
  induction ropps as [|x r IH]; intros rds n t Hl Hs; destruct rds as [|m rds]; simpl in Hl; try lia.
  - exact Hs.
  - cbn [contract_all]. apply (IH rds); [lia|].
    cbn [rev] in Hs. change (n :: rev rds ++ [m]) with ((n :: rev rds) ++ [m]) in Hs.
    replace (S (length r)) with (length (n :: rev rds)) by (cbn [length]; rewrite rev_length; lia).
    eapply contract_shape. exact Hs.
Qed.

Lemma tvec_length : forall n (t : tensor (T:=Q)), shape_ok [n] t -> length (tvec t) = n.
Proof. intros n t [l [-> [Hl _]]]. cbn [tvec]. now rewrite map_length. Qed.

(* the game: player i has n_i actions and a payoff array of shape (n_i, n_{i+1}, ..., n_{i-1}) *)
Definition game_ok (ns : list nat) (arrays : list (tensor (T:=Q))) : Prop :=
  length arrays = length ns /\
  forall i t, nth_error arrays i = Some t -> shape_ok (nth i ns O :: opponents_of ns i) t.

Definition beliefs_ok (ns : list nat) (xs : list (list Q)) : Prop :=
  Forall2 (fun x n => length x = n /\ probvec x) xs ns.

Lemma payoff_vector_length : forall ns arrays xs i t,
  game_ok ns arrays -> beliefs_ok ns xs -> nth_error arrays i = Some t ->
  length (payoff_vector_n t xs i) = nth i ns O.
Proof.
  intros ns arrays xs i t [Hla Hg] Hb Ht. unfold payoff_vector_n. apply tvec_length.
  apply (contract_all_shape _ (rev (opponents_of ns i))).
  - rewrite !rev_length. unfold opponents_of. rewrite !app_length, !skipn_length, !firstn_length.
    pose proof (Forall2_len _ _ _ Hb). lia.
  - rewrite rev_involutive. apply Hg. exact Ht.
Qed.

(* step relation: every belief moves by the documented step towards a best response (up to tol) to the payoff
   vector computed from the OLD beliefs of the others *)
Definition nfp_rel (arrays : list (tensor (T:=Q))) (gain : option Q) (tol : Q)
  (st st' : list (list Q) * Z) : Prop :=
  let '(xs, t) := st in
  let '(xs', t') := st' in
  t' = (t + 1)%Z /\ length xs' = length xs /\
  forall i x x' arr, nth_error xs i = Some x -> nth_error xs' i = Some x' -> nth_error arrays i = Some arr ->
    exists b, best_response (payoff_vector_n arr xs i) tol = Some b /\
              is_best_response (payoff_vector_n arr xs i) tol b /\
              update_rel x x' b (step_size gain t).

Lemma all_some_spec {A} : forall (l : list (option A)) r, all_some l = Some r ->
  length r = length l /\ forall i a, nth_error r i = Some a -> nth_error l i = Some (Some a).
Proof.
  induction l as [|[a|] l IH]; intros r Hr; simpl in Hr; try discriminate.
  - injection Hr as <-. split; [reflexivity|]. intros i a Hi. destruct i; discriminate.
  - destruct (all_some l) as [ar|]; [|discriminate]. injection Hr as <-.
    destruct (IH ar eq_refl) as [Hl Hn]. split; [simpl; lia|].
    intros i b Hi. destruct i; simpl in *; [congruence|auto].
Qed.

Lemma zip_with_index_nth {A} : forall (l : list A) k i a, nth_error l i = Some a ->
  nth_error (zip_with_index k l) i = Some ((k + i)%nat, a).
Proof.
  induction l as [|x r IH]; intros k i a Hi; [destruct i; discriminate|].
  destruct i; simpl in *.
  - injection Hi as ->. f_equal. f_equal. lia.
  - rewrite (IH (S k) i a Hi). f_equal. f_equal. lia.
Qed.

Lemma zip_with_index_length {A} : forall (l : list A) k, length (zip_with_index k l) = length l.
Proof. induction l; intros; simpl; auto. Qed.

Theorem nfp_step_ok : forall ns arrays gain tol st u st',
  game_ok ns arrays -> gain_ok gain ->
  (beliefs_ok ns (fst st) /\ (0 <= snd st)%Z) ->
  nfp_step arrays gain tol st u = Some st' ->
  (beliefs_ok ns (fst st') /\ (0 <= snd st')%Z) /\ nfp_rel arrays gain tol st st'.
Proof.
  intros ns arrays gain tol [xs t] u [xs' t'] Hg Hgain [Hb Ht] Hs. cbn [fst snd] in *.
  unfold nfp_step in Hs.
  destruct (all_some _) as [brs|] eqn:Ea; [|discriminate]. injection Hs as <- <-.
  destruct (all_some_spec _ _ Ea) as [Hlb Hnb]. rewrite map_length, zip_with_index_length in Hlb.
  destruct Hg as [Hla Hshape].
  pose proof (Forall2_len _ _ _ Hb) as Hlx.
  destruct (step_size_range gain t Hgain Ht) as [S0 S1].
  (* facts about every player *)
  assert (Hi : forall i x b, nth_error xs i = Some x -> nth_error brs i = Some b ->
             exists arr, nth_error arrays i = Some arr /\
               best_response (payoff_vector_n arr xs i) tol = Some b /\ (0 <= b < zlen x)%Z /\ length x = nth i ns O /\ probvec x).
  { intros i x b Hx Hbi.
    assert (Hia : (i < length arrays)%nat) by (rewrite <- Hlb; apply nth_error_Some; congruence).
    destruct (nth_error arrays i) as [arr|] eqn:Harr; [|apply nth_error_None in Harr; lia].
    exists arr. split; [reflexivity|].
    pose proof (Hnb i b Hbi) as Hm. rewrite nth_error_map, (zip_with_index_nth arrays 0 i arr Harr) in Hm.
    cbn [option_map fst snd plus] in Hm. injection Hm as Hm. split; [exact Hm|].
    assert (Hxn : length x = nth i ns O /\ probvec x).
    { clear -Hb Hx. revert i Hx. induction Hb as [|x0 n0 xs ns [A B] _ IH]; intros i Hx; [destruct i; discriminate|].
      destruct i; simpl in *; [injection Hx as <-; auto|apply IH; exact Hx]. }
    pose proof (best_response_range _ _ _ Hm) as Hr. unfold zlen in Hr.
    rewrite (payoff_vector_length ns arrays xs i arr (conj Hla Hshape) Hb Harr) in Hr.
    destruct Hxn as [Hxl Hpv]. unfold zlen. rewrite Hxl. auto. }
  split; [split; [|lia]|].
  - (* beliefs stay probability vectors of the right lengths *)
    assert (Hgen : forall (xs0 : list (list Q)) ns0,
              Forall2 (fun x n => length x = n /\ probvec x) xs0 ns0 -> forall brs0, length brs0 = length xs0 ->
              (forall i x b, nth_error xs0 i = Some x -> nth_error brs0 i = Some b -> (0 <= b < zlen x)%Z) ->
              Forall2 (fun x n => length x = n /\ probvec x)
                      (map (fun xb => fp_update (fst xb) (snd xb) (step_size gain t)) (combine xs0 brs0)) ns0).
    { induction 1 as [|x0 n0 xs0 ns0 [A B] _ IH]; intros brs0 Hl Hr; destruct brs0 as [|b0 brs0]; simpl in Hl; try lia; [constructor|].
      cbn [combine map fst snd]. constructor.
      - split; [unfold fp_update; now rewrite fp_update_from_length|].
        apply fp_update_probvec; auto. apply (Hr O x0 b0); reflexivity.
      - apply IH; [lia|]. intros i x b Hx Hbb. apply (Hr (S i) x b); assumption. }
    apply Hgen; [exact Hb|lia|]. intros i x b Hx Hbb. destruct (Hi i x b Hx Hbb) as [arr [_ [_ [Hr _]]]]. exact Hr.
  - unfold nfp_rel. split; [reflexivity|]. split; [rewrite map_length, combine_length; lia|].
    intros i x x' arr Hx Hx' Harr.
    destruct (nth_error brs i) as [b|] eqn:Hbi.
    2:{ apply nth_error_None in Hbi. assert (i < length xs)%nat by (apply nth_error_Some; congruence). lia. }
    destruct (Hi i x b Hx Hbi) as [arr' [Harr' [Hbr _]]]. rewrite Harr in Harr'. injection Harr' as <-.
    exists b. split; [exact Hbr|]. split; [apply best_response_optimal_Q; exact Hbr|].
    assert (Hc : nth_error (combine xs brs) i = Some (x, b)).
    { clear -Hx Hbi. revert brs i Hx Hbi. induction xs as [|a r IH]; intros brs i Hx Hbi; [destruct i; discriminate|].
      destruct brs as [|b0 brs]; [destruct i; discriminate|]. destruct i; simpl in *; [congruence|auto]. }
    rewrite nth_error_map, Hc in Hx'. cbn [option_map fst snd] in Hx'. injection Hx' as <-. apply fp_update_rel.
Qed.

Theorem nfp_inv : forall ns arrays gain tol xs t0 periods h f,
  game_ok ns arrays -> gain_ok gain -> beliefs_ok ns xs -> (0 <= t0)%Z ->
  nfp_series arrays gain tol xs t0 periods = Some (h, f) ->
  length h = periods /\ nth_error (h ++ [f]) 0 = Some (xs, t0) /\
  Forall (fun st => beliefs_ok ns (fst st) /\ (0 <= snd st)%Z) (h ++ [f]) /\
  chain_rel (nfp_rel arrays gain tol) (h ++ [f]).
Proof.
  intros ns arrays gain tol xs t0 periods h f Hg Hgain Hb Ht Hr. unfold nfp_series in Hr.
  apply (run_inv (nfp_step arrays gain tol) (fun st => beliefs_ok ns (fst st) /\ (0 <= snd st)%Z)
                 (nfp_rel arrays gain tol) (fun _ => True)) in Hr; auto.
  - rewrite repeat_length in Hr. exact Hr.
  - intros s d s' Hs _ Hst. eapply nfp_step_ok; eauto.
  - apply Forall_forall. auto.
Qed.
End NFP.

(* ================================================================== LogitDynamics with the construction of the cdfs *)
Section LogitFull.
Context {T : Type} `{Num T}.
Variable expf : T -> T.
(* admissible totals of cumulative weights: the scaling fact holds for them *)
Variable scal_ok : T -> Prop.
Hypothesis scal_fact : forall c u, scal_ok c -> unitl u -> nleb c (nmul u c) = false.

Lemma cumsum_l_length : forall l : list T, length (cumsum_l l) = length l.
Proof.
  assert (Hf : forall (l : list T) acc, length (cumsum_from_l acc l) = length l) by (induction l; intros; simpl; auto).
  destruct l; simpl; auto.
Qed.

Lemma lookup_map_tables : forall (g : list T -> list T) (tbl : list (list Z * list T)) key,
  lookup (map (fun kv => (fst kv, g (snd kv))) tbl) key = option_map g (lookup tbl key).
Proof.
  induction tbl as [|[k v] r IH]; intros key; simpl; [reflexivity|].
  destruct (profile_eqb k key); [reflexivity|apply IH].
Qed.

(* pays: for every player and opponents' profile the payoff vector over the player's own actions *)
Theorem logit_full_range : forall (ns : list Z) (beta : T) (pays : list (list (list Z * list T))),
  (forall i tbl key pv, nth_error pays i = Some tbl -> lookup tbl key = Some pv ->
     pv <> [] /\ Some (zlen pv) = nth_error ns i /\ scal_ok (last (logit_cdf expf beta pv) nzero)) ->
  forall acts ds h f,
    Forall2 (fun a n => 0 <= a < n) acts ns -> Forall (fun d => unitl (snd d)) ds ->
    run (logit_step_full expf beta pays) acts ds = Some (h, f) ->
    length h = length ds /\ nth_error (h ++ [f]) 0 = Some acts /\
    Forall (fun acts' => Forall2 (fun a n => 0 <= a < n) acts' ns) (h ++ [f]).
Proof.
  intros ns beta pays Hp acts ds h f Ha Hd Hr.
  apply (logit_range ns (logit_tables expf beta pays)); auto.
  intros i tbl key cdf Hi Hk. unfold logit_tables in Hi. rewrite nth_error_map in Hi.
  destruct (nth_error pays i) as [ptbl|] eqn:Hpi; [|discriminate]. cbn [option_map] in Hi. injection Hi as <-.
  rewrite lookup_map_tables in Hk. destruct (lookup ptbl key) as [pv|] eqn:Hl; [|discriminate].
  cbn [option_map] in Hk. injection Hk as <-.
  destruct (Hp i ptbl key pv Hpi Hl) as [Hne [Hlen Hs]].
  split; [|split].
  - intro E. apply (f_equal (@length T)) in E. unfold logit_cdf in E. rewrite cumsum_l_length, map_length in E.
    destruct pv; [congruence|discriminate].
  - unfold zlen, logit_cdf. rewrite cumsum_l_length, map_length. exact Hlen.
  - intros u Hu. apply scal_fact; assumption.
Qed.
End LogitFull.

(* over Q: any positive function in place of exp makes every total positive, hence admissible *)
Section LogitFullQ.
Open Scope Q_scope.
Variable expq : Q -> Q.
Hypothesis exp_pos : forall x, 0 < expq x.

Lemma cumsum_from_l_pos : forall (l : list Q) acc, 0 < acc -> (forall x, In x l -> 0 < x) ->
  Forall (fun c => 0 < c) (cumsum_from_l acc l).
Proof.
  induction l as [|x r IH]; intros acc Ha Hl; [constructor|].
  cbn [cumsum_from_l]. assert (Hx : 0 < x) by (apply Hl; left; auto).
  assert (Hs : 0 < nadd acc x) by (cbn [nadd NumQ]; rewrite Qaddr_eq; lra).
  constructor; [exact Hs|]. apply IH; [exact Hs|]. intros z Hz. apply Hl. right. exact Hz.
Qed.

Lemma last_Forall_ne {A} (Pp : A -> Prop) : forall (l : list A) d, l <> [] -> Forall Pp l -> Pp (last l d).
Proof.
  induction l as [|a r IH]; intros d Hne Hf; [congruence|]. inversion Hf; subst.
  destruct r as [|b r']; [exact H1|]. apply IH; [discriminate|assumption].
Qed.

Lemma logit_cdf_last_pos : forall beta (pv : list Q), pv <> [] -> 0 < last (logit_cdf expq beta pv) nzero.
Proof.
  intros beta pv Hne. unfold logit_cdf. destruct pv as [|p r]; [congruence|].
  cbn [map cumsum_l]. apply last_Forall_ne; [discriminate|].
  constructor; [apply exp_pos|]. apply cumsum_from_l_pos; [apply exp_pos|].
  intros x Hx. apply in_map_iff in Hx. destruct Hx as [p0 [<- _]]. apply exp_pos.
Qed.

Theorem logit_full_range_Q : forall (ns : list Z) (beta : Q) (pays : list (list (list Z * list Q))),
  (forall i tbl key pv, nth_error pays i = Some tbl -> lookup tbl key = Some pv ->
     pv <> [] /\ Some (zlen pv) = nth_error ns i) ->
  forall acts ds h f,
    Forall2 (fun a n => (0 <= a < n)%Z) acts ns -> Forall (fun d => unitl (snd d)) ds ->
    run (logit_step_full expq beta pays) acts ds = Some (h, f) ->
    length h = length ds /\ nth_error (h ++ [f]) 0 = Some acts /\
    Forall (fun acts' => Forall2 (fun a n => (0 <= a < n)%Z) acts' ns) (h ++ [f]).
Proof.
  intros ns beta pays Hp. apply (logit_full_range expq (fun c => 0 < c)).
  - intros c u Hc [H0 H1]. cbn [nleb nmul NumQ nltb nzero none_] in *.
    apply Qle_bool_iff in H0. apply Qltb_lt in H1.
    destruct (Qle_bool c (Qmulr u c)) eqn:E; [|reflexivity]. apply Qle_bool_iff in E. rewrite Qmulr_eq in E. nra.
  - intros i tbl key pv Hi Hk. destruct (Hp i tbl key pv Hi Hk) as [A B]. split; [exact A|]. split; [exact B|].
    apply logit_cdf_last_pos. exact A.
Qed.
End LogitFullQ.

(* a concrete 3-player payoff array (2 x 2 x 2) used by the Examples of Props.v *)
Definition arr3 : tensor (T:=Q) :=
  Node [Node [Node [Leaf 1; Leaf 0]; Node [Leaf 0; Leaf 2]]; Node [Node [Leaf 0; Leaf 1]; Node [Leaf 3; Leaf 0]]]%Q.
Ltac shp :=
  cbn [shape_ok];
  first [ solve [eexists; reflexivity]
        | eexists; split; [reflexivity|]; split; [reflexivity|]; repeat (constructor; [shp|]); constructor ].
Lemma arr3_shape : shape_ok [2; 2; 2]%nat arr3.
Proof. unfold arr3. shp. Qed.
Lemma arr3_game : game_ok [2; 2; 2]%nat [arr3; arr3; arr3].
Proof.
  split; [reflexivity|]. intros i t Hi.
  destruct i as [|[|[|i]]]; simpl in Hi; try (destruct i; discriminate); injection Hi as <-; exact arr3_shape.
Qed.

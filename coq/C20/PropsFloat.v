(* C20, LogitDynamics for IEEE binary64: the scaling fact assumed by C20_logit_range is PROVED for PrimFloat
   (coq/C10/FloatFacts*.v, via Flocq), for cumulative choice weights c with 2^-1021 <= c <= 2^1000
   (logit_choice_cdfs end in a value between 1 and the number of actions).  Statement only. *)
From Coq Require Import ZArith List Bool.
From QE Require Import Base.Num C20.Model C20.Proofs C20.Proofs2 C10.FloatConsts C10.FloatFacts C10.FloatFacts2 C20.FloatLogit.
Import ListNotations.
Open Scope Z_scope.

Theorem C20_logit_range_binary64 : forall (ns : list Z) (cdfs : list (list (list Z * list PrimFloat.float))),
  (forall i tbl key cdf, nth_error cdfs i = Some tbl -> lookup tbl key = Some cdf ->
     cdf <> [] /\ Some (zlen cdf) = nth_error ns i /\ scal64 (last cdf nzero)) ->
  forall acts ds h f,
    Forall2 (fun a n => 0 <= a < n) acts ns -> Forall (fun d => unitl (snd d)) ds ->
    logit_series cdfs acts ds = Some (h, f) ->
    length h = length ds /\ nth_error (h ++ [f]) 0 = Some acts /\
    Forall (fun acts' => Forall2 (fun a n => 0 <= a < n) acts' ns) (h ++ [f]).
Proof. exact logit_range_binary64. Qed.
Print Assumptions C20_logit_range_binary64.

(* C20 model: learning dynamics of quantecon/game_theory/{brd,fictplay,localint,logitdyn}.py
   and Player.best_response / random_choice of normal_form_game.py, as pure functions of the
   state and of the objects drawn from the random stream in that period.  Histories are
   fold_left over the list of per-period draws.  Executable definitions only. *)
From Coq Require Import ZArith QArith List Bool PrimFloat.
From QE Require Import Base.Num.
Import ListNotations.
Open Scope Z_scope.

(* ---------- small array helpers ---------- *)
Definition zlen {A} (l : list A) : Z := Z.of_nat (length l).

Fixpoint zrange_from (s : Z) (k : nat) : list Z :=
  match k with O => [] | S k' => s :: zrange_from (s + 1) k' end.
Definition zrange (n : Z) : list Z := zrange_from 0 (Z.to_nat n).

(* a[i] += d  (no effect when i is not an index of a) *)
Fixpoint add_at_nat (a : list Z) (i : nat) (d : Z) : list Z :=
  match a, i with
  | [], _ => []
  | x :: r, O => (x + d) :: r
  | x :: r, S j => x :: add_at_nat r j d
  end.
Definition add_at (a : list Z) (i : Z) (d : Z) : list Z :=
  if i <? 0 then a else add_at_nat a (Z.to_nat i) d.

(* a[i] = v *)
Fixpoint set_at_nat {A} (a : list A) (i : nat) (v : A) : list A :=
  match a, i with
  | [], _ => []
  | _ :: r, O => v :: r
  | x :: r, S j => x :: set_at_nat r j v
  end.
Definition set_at {A} (a : list A) (i : Z) (v : A) : list A :=
  if i <? 0 then a else set_at_nat a (Z.to_nat i) v.

Definition zget (a : list Z) (i : Z) : Z := if i <? 0 then 0 else nth (Z.to_nat i) a 0.

Definition zsum (l : list Z) : Z := fold_right Z.add 0 l.

(* histories: the states visited before each period, and the state after the last one *)
Definition run {S D} (step : S -> D -> option S) (s0 : S) (ds : list D) : option (list S * S) :=
  fold_left (fun acc d =>
               match acc with
               | Some (hist, s) =>
                 match step s d with Some s' => Some (hist ++ [s], s') | None => None end
               | None => None
               end) ds (Some ([], s0)).

(* ---------- best response (generic arithmetic) ---------- *)
Section Generic.
Context {T : Type} `{Num T}.

Fixpoint nofpos (p : positive) : T :=
  match p with
  | xH => none_
  | xO q => let h := nofpos q in nadd h h
  | xI q => let h := nofpos q in nadd (nadd h h) none_
  end.
Definition nofZ (z : Z) : T :=
  match z with Z0 => nzero | Zpos p => nofpos p | Zneg p => nsub nzero (nofpos p) end.

Definition dot (row x : list T) : T :=
  fold_left (fun acc ab => nadd acc (nmul (fst ab) (snd ab))) (combine row x) nzero.
Definition mat_vec (A : list (list T)) (x : list T) : list T := map (fun row => dot row x) A.

Definition vmax (l : list T) : T :=
  match l with
  | [] => nzero
  | x :: r => fold_left (fun m y => if nltb m y then y else m) r x
  end.

(* np.where(payoff_vector >= payoff_vector.max() - tol)[0][0]; None = IndexError (empty) *)
Fixpoint first_ge (l : list T) (thr : T) (i : Z) : option Z :=
  match l with
  | [] => None
  | x :: r => if nleb thr x then Some i else first_ge r thr (i + 1)
  end.
Definition best_response (pv : list T) (tol : T) : option Z :=
  first_ge pv (nsub (vmax pv) tol) 0.

Definition vadd (a b : list T) : list T := map (fun ab => nadd (fst ab) (snd ab)) (combine a b).

(* ---------- FictitiousPlay / StochasticFictitiousPlay, two players ----------
   A : payoff array of player 0 (own action x opponent action), B : of player 1.
   _play: all best responses first, then  actions[i][:] *= 1 - s;  actions[i][brs[i]] += s  *)
Definition step_size (gain : option T) (t : Z) : T :=
  match gain with Some g => g | None => ndiv none_ (nofZ (t + 2)) end.

Fixpoint fp_update_from (x : list T) (br : Z) (s : T) (j : Z) : list T :=
  match x with
  | [] => []
  | xj :: r => let y := nmul xj (nsub none_ s) in
               (if j =? br then nadd y s else y) :: fp_update_from r br s (j + 1)
  end.
Definition fp_update (x : list T) (br : Z) (s : T) : list T := fp_update_from x br s 0.

Definition fp_state : Type := (list T * list T * Z)%type.   (* beliefs x0, x1 and the period t *)

(* perturbation: None for FictitiousPlay, Some (e0, e1) = the two payoff perturbation vectors drawn *)
Definition fp_step (A B : list (list T)) (gain : option T) (tol : T)
  (st : fp_state) (pert : option (list T * list T)) : option fp_state :=
  let '(x0, x1, t) := st in
  let pv0 := mat_vec A x1 in
  let pv1 := mat_vec B x0 in
  let '(pv0, pv1) := match pert with
                     | None => (pv0, pv1)
                     | Some (e0, e1) => (vadd pv0 e0, vadd pv1 e1)
                     end in
  match best_response pv0 tol, best_response pv1 tol with
  | Some b0, Some b1 =>
    let s := step_size gain t in
    Some (fp_update x0 b0 s, fp_update x1 b1 s, t + 1)
  | _, _ => None
  end.

(* time_series(ts_length): the beliefs before each of ts_length-1 steps and the last ones *)
Definition fp_series (A B : list (list T)) (gain : option T) (tol : T) (x0 x1 : list T) (t_init : Z)
  (perts : list (option (list T * list T))) : option (list fp_state * fp_state) :=
  run (fp_step A B gain tol) (x0, x1, t_init) perts.

(* ---------- ndarray.searchsorted(v, side='right') on a sorted array ---------- *)
Fixpoint ss_right (a : list T) (v : T) : Z :=
  match a with
  | [] => 0
  | x :: r => if nleb x v then 1 + ss_right r v else 0
  end.

(* ---------- LogitDynamics ----------
   cdfs : for each player the table  opponents' action profile -> logit_choice_cdfs[profile]
   (the cumulative choice weights, read from the object by the harness).
   _play: cdf = cdfs[i][actions[i+1:] + actions[:i]]; u = random(); cdf.searchsorted(u*cdf[-1], 'right') *)
Definition profile_eqb (a b : list Z) : bool :=
  Nat.eqb (length a) (length b) && forallb (fun xy => fst xy =? snd xy) (combine a b).
Fixpoint lookup (tbl : list (list Z * list T)) (key : list Z) : option (list T) :=
  match tbl with
  | [] => None
  | (k, v) :: r => if profile_eqb k key then Some v else lookup r key
  end.
Definition opponents (actions : list Z) (i : Z) : list Z :=
  skipn (Z.to_nat (i + 1)) actions ++ firstn (Z.to_nat i) actions.

Definition logit_step (cdfs : list (list (list Z * list T))) (actions : list Z) (d : Z * T)
  : option (list Z) :=
  let '(i, u) := d in
  if (i <? 0) || (zlen actions <=? i) then None else
  match nth_error cdfs (Z.to_nat i) with
  | None => None
  | Some tbl =>
    match lookup tbl (opponents actions i) with
    | None => None
    | Some cdf => Some (set_at actions i (ss_right cdf (nmul u (last cdf nzero))))
    end
  end.
Definition logit_series cdfs (actions : list Z) (ds : list (Z * T)) :=
  run (logit_step cdfs) actions ds.

End Generic.

(* ---------- BRD / KMR / SamplingBRD  (exact arithmetic on payoffs) ---------- *)
Fixpoint cumsumZ_from (acc : Z) (l : list Z) : list Z :=
  match l with [] => [] | x :: r => (acc + x) :: cumsumZ_from (acc + x) r end.
Definition cumsumZ (l : list Z) : list Z := cumsumZ_from 0 l.

(* np.searchsorted(action_dist.cumsum(), player_ind, side='right') *)
Definition revising_action (dist : list Z) (p : Z) : Z := ss_right (cumsumZ dist) p.

Definition qvec (l : list Z) : list Q := map inject_Z l.

(* BRD.play: action_dist[action] -= 1; next = best_response(action_dist); action_dist[next] += 1 *)
Definition brd_play (A : list (list Q)) (tol : Q) (dist : list Z) (action : Z) : option (list Z) :=
  let d1 := add_at dist action (-1) in
  match best_response (mat_vec A (qvec d1)) tol with
  | Some b => Some (add_at d1 b 1)
  | None => None
  end.

Definition brd_step (A : list (list Q)) (tol : Q) (dist : list Z) (p : Z) : option (list Z) :=
  brd_play A tol dist (revising_action dist p).

(* KMR.play: u = random(); if u < epsilon: the revising player takes random_choice() (index r drawn
   by rng_integers unless there is a single action) else BRD.play *)
Definition kmr_step (A : list (list Q)) (tol eps : Q) (dist : list Z) (d : Z * Q * Z) : option (list Z) :=
  let '(p, u, r) := d in
  let a := revising_action dist p in
  if Qltb u eps then
    let r' := if zlen A =? 1 then 0 else r in
    Some (add_at (add_at dist a (-1)) r' 1)
  else brd_play A tol dist a.

(* np.bincount(actions, minlength=n) *)
Definition bincount (n : Z) (sample : list Z) : list Z :=
  fold_left (fun acc a => add_at acc a 1) sample (map (fun _ => 0) (zrange n)).

(* SamplingBRD.play: action_dist[action] -= 1; sample k actions (drawn object); best response to the sample *)
Definition sampling_step (A : list (list Q)) (tol : Q) (dist : list Z) (d : Z * list Z) : option (list Z) :=
  let '(p, sample) := d in
  let a := revising_action dist p in
  let d1 := add_at dist a (-1) in
  match best_response (mat_vec A (qvec (bincount (zlen A) sample))) tol with
  | Some b => Some (add_at d1 b 1)
  | None => None
  end.

(* _set_action_dist *)
Definition set_action_dist (n : Z) (actions : list Z) : list Z := bincount n actions.

Definition brd_series A tol dist (ps : list Z) := run (brd_step A tol) dist ps.
Definition kmr_series A tol eps dist (ds : list (Z * Q * Z)) := run (kmr_step A tol eps) dist ds.
Definition sampling_series A tol dist (ds : list (Z * list Z)) := run (sampling_step A tol) dist ds.

(* ---------- LocalInteraction ----------
   adj : dense rows of the (weighted, directed) adjacency matrix; _play:
   opponent_act_dict[k] = sum_j adj[i_k][j] * onehot(actions[j])   for every revising i_k, all computed
   from the actions BEFORE any update; then  for k, i: actions[i] = best_response(opponent_act_dict[k]) *)
Definition neighbour_counts (n : Z) (adj_row : list Q) (actions : list Z) : list Q :=
  map (fun a => fold_left (fun acc wj => if snd wj =? a then Qaddr acc (fst wj) else acc)
                          (combine adj_row actions) 0%Q) (zrange n).

Definition localint_play (A adj : list (list Q)) (tol : Q) (actions : list Z) (players : list Z)
  : option (list Z) :=
  let n := zlen A in
  let dict := map (fun i => neighbour_counts n (nth (Z.to_nat i) adj []) actions) players in
  fold_left (fun acc ik =>
               match acc with
               | None => None
               | Some acts =>
                 match best_response (mat_vec A (snd ik)) tol with
                 | Some b => Some (set_at acts (fst ik) b)
                 | None => None
                 end
               end) (combine players dict) (Some actions).

(* one period: None = simultaneous revision (all players), Some i = asynchronous revision of player i *)
Definition localint_step (A adj : list (list Q)) (tol : Q) (actions : list Z) (d : option Z)
  : option (list Z) :=
  match d with
  | None => localint_play A adj tol actions (zrange (zlen adj))
  | Some i => if (i <? 0) || (zlen adj <=? i) then None else localint_play A adj tol actions [i]
  end.
Definition localint_series A adj tol actions (ds : list (option Z)) := run (localint_step A adj tol) actions ds.

(* the definition the loop implements, player by player: a revising player best-responds to the
   OLD profile, everybody else keeps his action *)
Definition localint_closed_at (A adj : list (list Q)) (tol : Q) (actions : list Z) (players : list Z)
  (j : Z) : option Z :=
  if existsb (Z.eqb j) players
  then best_response (mat_vec A (neighbour_counts (zlen A) (nth (Z.to_nat j) adj []) actions)) tol
  else Some (zget actions j).

(* ---------- N-player FictitiousPlay ----------
   A player's payoff array is an N-dimensional array (own action first, then opponents i+1, ..., i-1), here a
   nested list.  Player.payoff_vector: for k in reversed(range(num_opponents)): pv = pv.dot(opponents_actions[k])
   contracts the LAST axis each time. *)
Section NPlayer.
Context {T : Type} `{Num T}.

Inductive tensor : Type := Leaf (v : T) | Node (l : list tensor).

Definition leaf_val (t : tensor) : T := match t with Leaf v => v | Node _ => nzero end.

(* contract the axis at nesting depth d (the last one) with the vector x *)
Fixpoint contract (d : nat) (t : tensor) (x : list T) : tensor :=
  match d, t with
  | O, Node l => Leaf (dot (map leaf_val l) x)
  | S d', Node l => Node (map (fun s => contract d' s x) l)
  | _, Leaf v => Leaf v
  end.

(* ropps = opponents' mixed actions in REVERSE order: the head is contracted first (it is the last axis) *)
Fixpoint contract_all (t : tensor) (ropps : list (list T)) : tensor :=
  match ropps with
  | [] => t
  | x :: r => contract_all (contract (S (length r)) t x) r
  end.
Definition tvec (t : tensor) : list T := match t with Node l => map leaf_val l | Leaf v => [v] end.

Definition opponents_of {A} (xs : list A) (i : nat) : list A := skipn (S i) xs ++ firstn i xs.

Definition payoff_vector_n (t : tensor) (xs : list (list T)) (i : nat) : list T :=
  tvec (contract_all t (rev (opponents_of xs i))).

Fixpoint zip_with_index {A} (i : nat) (l : list A) : list (nat * A) :=
  match l with [] => [] | a :: r => (i, a) :: zip_with_index (S i) r end.

Fixpoint all_some {A} (l : list (option A)) : option (list A) :=
  match l with
  | [] => Some []
  | Some a :: r => match all_some r with Some ar => Some (a :: ar) | None => None end
  | None :: _ => None
  end.

(* _play: every best response first (to the OLD beliefs), then every belief is updated *)
Definition nfp_step (arrays : list tensor) (gain : option T) (tol : T)
  (st : list (list T) * Z) (_ : unit) : option (list (list T) * Z) :=
  let '(xs, t) := st in
  match all_some (map (fun it => best_response (payoff_vector_n (snd it) xs (fst it)) tol)
                      (zip_with_index 0 arrays)) with
  | Some brs =>
    let s := step_size gain t in
    Some (map (fun xb => fp_update (fst xb) (snd xb) s) (combine xs brs), t + 1)
  | None => None
  end.
Definition nfp_series arrays gain tol (xs : list (list T)) (t_init : Z) (periods : nat) :=
  run (nfp_step arrays gain tol) (xs, t_init) (repeat tt periods).

(* ---------- LogitDynamics with the construction of the cumulative choice weights ----------
   __init__: logit_choice_cdfs[profile] = cumsum(exp((payoffs - max(payoffs)) * beta)); exp is a parameter *)
Fixpoint cumsum_from_l (acc : T) (l : list T) : list T :=
  match l with [] => [] | x :: r => let s := nadd acc x in s :: cumsum_from_l s r end.
Definition cumsum_l (l : list T) : list T :=
  match l with [] => [] | x :: r => x :: cumsum_from_l x r end.
Variable expf : T -> T.
Definition logit_cdf (beta : T) (payoffs : list T) : list T :=
  cumsum_l (map (fun p => expf (nmul (nsub p (vmax payoffs)) beta)) payoffs).
Definition logit_tables (beta : T) (pays : list (list (list Z * list T))) : list (list (list Z * list T)) :=
  map (map (fun kv => (fst kv, logit_cdf beta (snd kv)))) pays.
(* the whole _play step from the payoffs *)
Definition logit_step_full (beta : T) (pays : list (list (list Z * list T))) (actions : list Z) (d : Z * T) :=
  logit_step (logit_tables beta pays) actions d.
End NPlayer.

(* C20 proofs, part 2: fictitious play over Q, LocalInteraction, LogitDynamics. *)
From Coq Require Import ZArith QArith List Bool Lia Lqa.
From QE Require Import Base.Num C20.Model C20.Proofs.
Import ListNotations.
Open Scope Z_scope.

(* ================================================================== fictitious play, exact *)
Section FP.
Open Scope Q_scope.

Fixpoint qsum (l : list Q) : Q := match l with [] => 0 | x :: r => x + qsum r end.

Definition probvec (x : list Q) : Prop := Forall (fun p => 0 <= p) x /\ qsum x == 1.

(* x' is (1-s) x + s e_b, entry by entry *)
Definition update_rel (x x' : list Q) (b : Z) (s : Q) : Prop :=
  length x' = length x /\
  forall k xk, nth_error x k = Some xk ->
    exists y, nth_error x' k = Some y /\ y == (1 - s) * xk + (if Z.of_nat k =? b then s else 0)%Q.

Lemma fp_update_from_length : forall (x : list Q) b s j, length (fp_update_from x b s j) = length x.
Proof. induction x; intros; simpl; auto. Qed.

Lemma fp_entry_eq (xj s : Q) (hit : bool) :
  (if hit then nadd (nmul xj (nsub none_ s)) s else nmul xj (nsub none_ s)) == (1 - s) * xj + (if hit then s else 0).
Proof.
  cbn [nadd nmul nsub none_ NumQ]. destruct hit.
  - rewrite Qaddr_eq, Qmulr_eq, Qsubr_eq. ring.
  - rewrite Qmulr_eq, Qsubr_eq. ring.
Qed.

Lemma fp_update_from_nth : forall (x : list Q) b s j k xk,
  nth_error x k = Some xk ->
  exists y, nth_error (fp_update_from x b s j) k = Some y /\
            y == (1 - s) * xk + (if (j + Z.of_nat k =? b)%Z then s else 0).
Proof.
  induction x as [|a r IH]; intros b s j k xk Hk; [destruct k; discriminate|].
  destruct k; simpl in Hk.
  - injection Hk as ->. cbn [fp_update_from nth_error]. eexists. split; [reflexivity|].
    replace (j + Z.of_nat 0)%Z with j by lia. apply fp_entry_eq.
  - cbn [fp_update_from nth_error]. destruct (IH b s (j + 1)%Z k xk Hk) as [y [Hy Ey]].
    exists y. split; [exact Hy|]. replace (j + Z.of_nat (S k))%Z with (j + 1 + Z.of_nat k)%Z by lia. exact Ey.
Qed.

Lemma fp_update_rel : forall (x : list Q) b s, update_rel x (fp_update x b s) b s.
Proof.
  intros x b s. split; [apply fp_update_from_length|].
  intros k xk Hk. destruct (fp_update_from_nth x b s 0%Z k xk Hk) as [y [Hy Ey]].
  exists y. split; [exact Hy|]. replace (0 + Z.of_nat k)%Z with (Z.of_nat k) in Ey by lia. exact Ey.
Qed.

Lemma fp_update_from_nonneg : forall (x : list Q) b s j, 0 <= s -> s <= 1 ->
  Forall (fun p => 0 <= p) x -> Forall (fun p => 0 <= p) (fp_update_from x b s j).
Proof.
  induction x as [|a r IH]; intros b s j H0 H1 Hx; [constructor|].
  inversion Hx as [|? ? Ha Hr]; subst. cbn [fp_update_from]. constructor; [|apply IH; auto].
  rewrite (fp_entry_eq a s (j =? b)%Z). destruct (j =? b)%Z; nra.
Qed.

Lemma fp_update_from_sum : forall (x : list Q) b s j,
  qsum (fp_update_from x b s j) ==
  (1 - s) * qsum x + (if ((j <=? b) && (b <? j + Z.of_nat (length x)))%Z then s else 0).
Proof.
  induction x as [|a r IH]; intros b s j.
  - simpl. destruct (j <=? b)%Z eqn:E1; destruct (b <? j + 0)%Z eqn:E2; simpl; try ring.
    apply Z.leb_le in E1. apply Z.ltb_lt in E2. lia.
  - cbn [fp_update_from qsum length]. rewrite (fp_entry_eq a s (j =? b)%Z), IH.
    destruct (Z.eqb_spec j b) as [->|Hne].
    + rewrite Z.leb_refl. destruct (Z.ltb_spec b (b + Z.of_nat (S (length r)))); [|lia].
      destruct (Z.leb_spec (b + 1) b); [lia|]. simpl. ring.
    + destruct (Z.leb_spec j b), (Z.leb_spec (j + 1) b), (Z.ltb_spec b (j + 1 + Z.of_nat (length r))),
        (Z.ltb_spec b (j + Z.of_nat (S (length r)))); simpl; try ring; lia.
Qed.

Lemma fp_update_probvec : forall (x : list Q) b s, 0 <= s -> s <= 1 -> (0 <= b < zlen x)%Z ->
  probvec x -> probvec (fp_update x b s).
Proof.
  intros x b s H0 H1 Hb [Hnn Hsum]. split; [apply fp_update_from_nonneg; auto|].
  unfold fp_update. rewrite fp_update_from_sum, Hsum.
  unfold zlen in Hb. destruct (Z.leb_spec 0 b); [|lia]. destruct (Z.ltb_spec b (0 + Z.of_nat (length x))); [|lia].
  simpl. ring.
Qed.

(* documented step sizes *)
Lemma nofpos_Q : forall p, nofpos (T:=Q) p == inject_Z (Zpos p).
Proof.
  induction p; cbn [nofpos nadd none_ NumQ].
  - rewrite !Qaddr_eq, IHp. unfold inject_Z, Qeq. simpl. lia.
  - rewrite Qaddr_eq, IHp. unfold inject_Z, Qeq. simpl. lia.
  - reflexivity.
Qed.

Lemma step_size_default : forall t, (0 <= t)%Z -> step_size (T:=Q) None t == 1 / inject_Z (t + 2).
Proof.
  intros t Ht. unfold step_size. cbn [ndiv none_ NumQ]. rewrite Qdivr_eq.
  destruct (t + 2)%Z eqn:E; try lia. cbn [nofZ]. rewrite nofpos_Q. reflexivity.
Qed.

Definition gain_ok (gain : option Q) : Prop := match gain with None => True | Some g => 0 <= g /\ g <= 1 end.

Lemma step_size_range : forall gain t, gain_ok gain -> (0 <= t)%Z ->
  0 <= step_size gain t /\ step_size gain t <= 1.
Proof.
  intros [g|] t Hg Ht; [exact Hg|].
  rewrite step_size_default by exact Ht.
  assert (Hp : 2 <= inject_Z (t + 2)). { unfold Qle, inject_Z. simpl. lia. }
  split.
  - apply Qle_shift_div_l; lra.
  - apply Qle_shift_div_r; lra.
Qed.

(* a best response up to tol, exactly: nobody does better by more than tol *)
Definition is_best_response (pv : list Q) (tol : Q) (b : Z) : Prop :=
  (0 <= b < zlen pv)%Z /\
  exists x, nth_error pv (Z.to_nat b) = Some x /\ forall y, In y pv -> y - tol <= x.

Lemma best_response_optimal_Q : forall (pv : list Q) tol b,
  best_response pv tol = Some b -> is_best_response pv tol b.
Proof.
  intros pv tol b Hb. destruct (best_response_spec pv tol b Hb) as [Hr [[x [Hx Hle]] _]].
  split; [exact Hr|]. exists x. split; [exact Hx|]. intros y Hy.
  assert (Hne : pv <> []) by (intro E; subst; destruct Hy).
  destruct (vmax_Q_spec pv Hne) as [_ Hmax]. specialize (Hmax y Hy).
  cbn [nleb nsub NumQ] in Hle. apply Qle_bool_iff in Hle. rewrite Qsubr_eq in Hle. lra.
Qed.

(* state invariant and step relation *)
Definition fp_inv_state (n0 n1 : Z) (st : fp_state (T:=Q)) : Prop :=
  let '(x0, x1, t) := st in
  zlen x0 = n0 /\ zlen x1 = n1 /\ probvec x0 /\ probvec x1 /\ (0 <= t)%Z.

Definition payoff_vectors (A B : list (list Q)) (x0 x1 : list Q) (pert : option (list Q * list Q)) :=
  match pert with
  | None => (mat_vec A x1, mat_vec B x0)
  | Some (e0, e1) => (vadd (mat_vec A x1) e0, vadd (mat_vec B x0) e1)
  end.

(* the next beliefs are (1-s) old + s e_br with br a best response (up to tol) to the OLD beliefs *)
Definition fp_rel (okp : option (list Q * list Q) -> Prop) (A B : list (list Q)) (gain : option Q) (tol : Q)
  (st st' : fp_state (T:=Q)) : Prop :=
  let '(x0, x1, t) := st in
  let '(x0', x1', t') := st' in
  t' = (t + 1)%Z /\
  exists pert b0 b1, okp pert /\
    is_best_response (fst (payoff_vectors A B x0 x1 pert)) tol b0 /\
    is_best_response (snd (payoff_vectors A B x0 x1 pert)) tol b1 /\
    best_response (fst (payoff_vectors A B x0 x1 pert)) tol = Some b0 /\
    best_response (snd (payoff_vectors A B x0 x1 pert)) tol = Some b1 /\
    update_rel x0 x0' b0 (step_size gain t) /\ update_rel x1 x1' b1 (step_size gain t).

Definition pert_ok (n0 n1 : Z) (pert : option (list Q * list Q)) : Prop :=
  match pert with None => True | Some (e0, e1) => zlen e0 = n0 /\ zlen e1 = n1 end.

Lemma vadd_length (a b : list Q) : length a = length b -> length (vadd a b) = length a.
Proof. intros E. unfold vadd. rewrite map_length, combine_length. lia. Qed.

Theorem fp_step_ok : forall (okp : option (list Q * list Q) -> Prop) A B gain tol n0 n1 st pert st',
  zlen A = n0 -> zlen B = n1 -> gain_ok gain ->
  fp_inv_state n0 n1 st -> (okp pert /\ pert_ok n0 n1 pert) ->
  fp_step A B gain tol st pert = Some st' ->
  fp_inv_state n0 n1 st' /\ fp_rel okp A B gain tol st st'.
Proof.
  intros okp A B gain tol n0 n1 [[x0 x1] t] pert [[x0' x1'] t'] HA HB Hg [L0 [L1 [P0 [P1 Ht]]]] [Hok Hp] Hs.
  unfold fp_step in Hs.
  assert (Epv : (match pert with
                 | None => (mat_vec A x1, mat_vec B x0)
                 | Some (e0, e1) => (vadd (mat_vec A x1) e0, vadd (mat_vec B x0) e1)
                 end) = payoff_vectors A B x0 x1 pert) by reflexivity.
  rewrite Epv in Hs. destruct (payoff_vectors A B x0 x1 pert) as [pv0 pv1] eqn:Ep.
  destruct (best_response pv0 tol) as [b0|] eqn:E0; [|discriminate].
  destruct (best_response pv1 tol) as [b1|] eqn:E1; [|discriminate].
  injection Hs as <- <- <-.
  assert (Hl0 : zlen pv0 = n0 /\ zlen pv1 = n1).
  { unfold payoff_vectors in Ep. destruct pert as [[e0 e1]|]; injection Ep as <- <-.
    - destruct Hp as [He0 He1]. unfold zlen in *. rewrite !vadd_length; unfold mat_vec; rewrite !map_length; lia.
    - rewrite !mat_vec_length. auto. }
  destruct Hl0 as [Hl0 Hl1].
  pose proof (best_response_range _ _ _ E0) as R0. pose proof (best_response_range _ _ _ E1) as R1.
  destruct (step_size_range gain t Hg Ht) as [S0 S1].
  split.
  - unfold fp_inv_state.
    split; [unfold zlen, fp_update in *; now rewrite fp_update_from_length|].
    split; [unfold zlen, fp_update in *; now rewrite fp_update_from_length|].
    split; [apply fp_update_probvec; auto; lia|].
    split; [apply fp_update_probvec; auto; lia|]. lia.
  - unfold fp_rel. split; [reflexivity|]. exists pert, b0, b1. rewrite Ep. cbn [fst snd].
    split; [exact Hok|].
    split; [apply best_response_optimal_Q; exact E0|].
    split; [apply best_response_optimal_Q; exact E1|].
    split; [exact E0|]. split; [exact E1|].
    split; apply fp_update_rel.
Qed.

Theorem fp_inv : forall (okp : option (list Q * list Q) -> Prop) A B gain tol n0 n1 x0 x1 t0 perts h f,
  zlen A = n0 -> zlen B = n1 -> gain_ok gain ->
  fp_inv_state n0 n1 (x0, x1, t0) -> Forall (fun p => okp p /\ pert_ok n0 n1 p) perts ->
  fp_series A B gain tol x0 x1 t0 perts = Some (h, f) ->
  length h = length perts /\ nth_error (h ++ [f]) 0 = Some (x0, x1, t0) /\
  Forall (fp_inv_state n0 n1) (h ++ [f]) /\ chain_rel (fp_rel okp A B gain tol) (h ++ [f]).
Proof.
  intros okp A B gain tol n0 n1 x0 x1 t0 perts h f HA HB Hg Hi Hp Hr. unfold fp_series in Hr.
  apply (run_inv (fp_step A B gain tol) (fp_inv_state n0 n1) (fp_rel okp A B gain tol)
                 (fun p => okp p /\ pert_ok n0 n1 p)) in Hr; auto.
  intros s d s' Hs Hd Hst. eapply fp_step_ok; eauto.
Qed.
End FP.

(* ================================================================== LocalInteraction *)
Definition acts_ok (n N : Z) (acts : list Z) : Prop :=
  zlen acts = N /\ Forall (fun a => 0 <= a < n) acts.

Lemma set_at_nat_Forall {A} (Pp : A -> Prop) : forall (a : list A) i v,
  Forall Pp a -> Pp v -> Forall Pp (set_at_nat a i v).
Proof.
  induction a as [|x r IH]; intros i v Ha Hv; destruct i; simpl; auto; inversion Ha; subst; constructor; auto.
Qed.
Lemma set_at_Forall {A} (Pp : A -> Prop) (a : list A) i v : Forall Pp a -> Pp v -> Forall Pp (set_at a i v).
Proof. intros. unfold set_at. destruct (i <? 0); auto using set_at_nat_Forall. Qed.

Lemma zget_set_at : forall (a : list Z) i v j, 0 <= i < zlen a -> 0 <= j ->
  zget (set_at a i v) j = if j =? i then v else zget a j.
Proof.
  intros a i v j Hi Hj. unfold zget, set_at. destruct (Z.ltb_spec j 0); [lia|]. destruct (Z.ltb_spec i 0); [lia|].
  unfold zlen in Hi.
  pose proof (set_at_nat_nth_error a (Z.to_nat i) v (Z.to_nat j)) as E.
  destruct (Z.eqb_spec j i) as [->|Hne].
  - rewrite Nat.eqb_refl in E. destruct (Nat.ltb_spec (Z.to_nat i) (length a)); [|lia].
    apply nth_error_nth with (d := 0) in E. exact E.
  - destruct (Nat.eqb_spec (Z.to_nat j) (Z.to_nat i)); [lia|].
    destruct (nth_error a (Z.to_nat j)) eqn:Ea.
    + rewrite (nth_error_nth _ _ 0 E), (nth_error_nth _ _ 0 Ea). reflexivity.
    + apply nth_error_None in Ea. rewrite !nth_overflow; auto. now rewrite set_at_nat_length.
Qed.

Section LocalInt.
Variables (A adj : list (list Q)) (tol : Q).

Definition li_counts (actions : list Z) (i : Z) : list Q :=
  neighbour_counts (zlen A) (nth (Z.to_nat i) adj []) actions.
Definition li_br (actions : list Z) (i : Z) : option Z := best_response (mat_vec A (li_counts actions i)) tol.

Definition li_F (old : list Z) (acc : option (list Z)) (i : Z) : option (list Z) :=
  match acc with
  | None => None
  | Some acts => match li_br old i with Some b => Some (set_at acts i b) | None => None end
  end.

Lemma combine_map_r {X Y} (g : X -> Y) : forall l, combine l (map g l) = map (fun x => (x, g x)) l.
Proof. induction l; simpl; congruence. Qed.

Lemma fold_left_map {X Y Z'} (f : Z' -> Y -> Z') (h : X -> Y) : forall l a,
  fold_left f (map h l) a = fold_left (fun a x => f a (h x)) l a.
Proof. induction l; intros; simpl; auto. Qed.

Lemma localint_play_fold : forall actions players,
  localint_play A adj tol actions players = fold_left (li_F actions) players (Some actions).
Proof.
  intros actions players. unfold localint_play. cbv zeta.
  rewrite combine_map_r, fold_left_map. reflexivity.
Qed.

Lemma li_fold_None : forall old players, fold_left (li_F old) players None = None.
Proof. induction players; simpl; auto. Qed.

Lemma li_fold_spec : forall old players acts0 acts',
  fold_left (li_F old) players (Some acts0) = Some acts' ->
  (forall i, In i players -> 0 <= i < zlen acts0) ->
  zlen acts' = zlen acts0 /\
  (forall n, Forall (fun a => 0 <= a < n) acts0 -> zlen A = n -> Forall (fun a => 0 <= a < n) acts') /\
  forall j, 0 <= j < zlen acts0 ->
    Some (zget acts' j) = if existsb (Z.eqb j) players then li_br old j else Some (zget acts0 j).
Proof.
  intros old players. induction players as [|i r IH]; intros acts0 acts' Hf Hin.
  - simpl in Hf. injection Hf as <-. repeat split; auto.
  - cbn [fold_left li_F] in Hf.
    destruct (li_br old i) as [b|] eqn:Eb; [|rewrite li_fold_None in Hf; discriminate].
    assert (Hi : 0 <= i < zlen acts0) by (apply Hin; left; auto).
    assert (Hl1 : zlen (set_at acts0 i b) = zlen acts0) by (unfold zlen; now rewrite set_at_length).
    destruct (IH (set_at acts0 i b) acts' Hf) as [Hl [Hrange Hpt]].
    { intros k Hk. rewrite Hl1. apply Hin. right. exact Hk. }
    split; [lia|]. split.
    + intros n Hn HA. apply Hrange; auto. apply set_at_Forall; auto.
      unfold li_br in Eb. apply best_response_range in Eb. rewrite mat_vec_length in Eb. lia.
    + intros j Hj. rewrite Hpt by lia. cbn [existsb].
      destruct (existsb (Z.eqb j) r) eqn:Er; [now rewrite orb_true_r|]. rewrite orb_false_r.
      rewrite zget_set_at by lia. destruct (Z.eqb_spec j i) as [->|]; [now rewrite Eb|reflexivity].
Qed.

Theorem localint_play_closed : forall actions players acts',
  localint_play A adj tol actions players = Some acts' ->
  (forall i, In i players -> 0 <= i < zlen actions) ->
  zlen acts' = zlen actions /\
  forall j, 0 <= j < zlen actions ->
    Some (zget acts' j) = localint_closed_at A adj tol actions players j.
Proof.
  intros actions players acts' Hp Hin. rewrite localint_play_fold in Hp.
  destruct (li_fold_spec actions players actions acts' Hp Hin) as [Hl [_ Hpt]].
  split; [exact Hl|]. intros j Hj. rewrite (Hpt j Hj). reflexivity.
Qed.

Lemma zrange_from_In : forall k s i, In i (zrange_from s k) <-> s <= i < s + Z.of_nat k.
Proof.
  induction k as [|k IH]; intros s i; simpl; [lia|].
  rewrite IH. lia.
Qed.

Theorem localint_step_ok : forall n N actions d acts',
  zlen A = n -> zlen adj = N -> acts_ok n N actions ->
  localint_step A adj tol actions d = Some acts' -> acts_ok n N acts'.
Proof.
  intros n N actions d acts' HA Hadj [Hl Hr] Hs. unfold localint_step in Hs.
  assert (Hgen : forall players, (forall i, In i players -> 0 <= i < zlen actions) ->
                   localint_play A adj tol actions players = Some acts' -> acts_ok n N acts').
  { intros players Hin Hp. rewrite localint_play_fold in Hp.
    destruct (li_fold_spec actions players actions acts' Hp Hin) as [Hl' [Hrange _]].
    split; [lia|]. apply Hrange; auto. }
  destruct d as [i|].
  - destruct ((i <? 0) || (zlen adj <=? i)) eqn:E; [discriminate|].
    apply orb_false_iff in E. destruct E as [E1 E2]. apply Z.ltb_ge in E1. apply Z.leb_gt in E2.
    apply (Hgen [i]); auto. intros k [<-|[]]. lia.
  - apply (Hgen (zrange (zlen adj))); auto. intros k Hk. unfold zrange in Hk. apply zrange_from_In in Hk. lia.
Qed.

Theorem localint_range : forall n N actions ds h f,
  zlen A = n -> zlen adj = N -> acts_ok n N actions ->
  localint_series A adj tol actions ds = Some (h, f) ->
  length h = length ds /\ nth_error (h ++ [f]) 0 = Some actions /\ Forall (acts_ok n N) (h ++ [f]).
Proof.
  intros n N actions ds h f HA Hadj Hok Hr. unfold localint_series in Hr.
  apply (run_inv (localint_step A adj tol) (acts_ok n N) (fun _ _ => True) (fun _ => True)) in Hr; auto.
  - tauto.
  - intros s d s' Hs _ Hst. split; auto. eapply localint_step_ok; eauto.
  - apply Forall_forall. auto.
Qed.
End LocalInt.

(* ================================================================== LogitDynamics, every Num *)
Section Logit.
Context {T : Type} `{Num T}.

Lemma ss_right_range : forall (a : list T) v, 0 <= ss_right a v <= zlen a.
Proof.
  induction a as [|x r IH]; intros v; unfold zlen in *; cbn [ss_right length]; [lia|].
  rewrite Nat2Z.inj_succ. destruct (nleb x v); specialize (IH v); lia.
Qed.

Lemma ss_right_lt : forall (a : list T) v, a <> [] -> nleb (last a nzero) v = false -> ss_right a v < zlen a.
Proof.
  induction a as [|x r IH]; intros v Hne Hl; [congruence|].
  unfold zlen. cbn [ss_right length]. destruct (nleb x v) eqn:E; [|lia].
  destruct r as [|y r'].
  - simpl in Hl. congruence.
  - assert (Hlt : ss_right (y :: r') v < zlen (y :: r')) by (apply IH; [discriminate|exact Hl]).
    unfold zlen in Hlt. cbn [length] in *. lia.
Qed.

Definition unitl (u : T) : Prop := nleb nzero u = true /\ nltb u none_ = true.

(* ns: numbers of actions; the tables hold, for every player and opponents' profile, a non-empty cdf of the
   player's length whose total c satisfies the scaling fact  not (c <= u*c)  for uniforms u *)
Variable ns : list Z.
Variable cdfs : list (list (list Z * list T)).
Hypothesis tables_ok : forall i tbl key cdf,
  nth_error cdfs i = Some tbl -> lookup tbl key = Some cdf ->
  cdf <> [] /\ Some (zlen cdf) = nth_error ns i /\
  forall u, unitl u -> nleb (last cdf nzero) (nmul u (last cdf nzero)) = false.

Definition acts_in (acts : list Z) : Prop := Forall2 (fun a n => 0 <= a < n) acts ns.

Lemma set_at_nat_Forall2 {X Y} (R : X -> Y -> Prop) : forall (a : list X) (b : list Y) i v y,
  Forall2 R a b -> nth_error b i = Some y -> R v y -> Forall2 R (set_at_nat a i v) b.
Proof.
  intros a b i v y Hab. revert i. induction Hab as [|x0 y0 a b Hxy Hab IH]; intros i Hy Hv; [destruct i; discriminate|].
  destruct i; simpl in *.
  - injection Hy as ->. constructor; auto.
  - constructor; auto.
Qed.

Theorem logit_step_ok : forall acts d acts',
  acts_in acts -> unitl (snd d) -> logit_step cdfs acts d = Some acts' -> acts_in acts'.
Proof.
  intros acts [i u] acts' Ha Hu Hs. simpl in Hu. unfold logit_step in Hs.
  destruct ((i <? 0) || (zlen acts <=? i)) eqn:E; [discriminate|].
  apply orb_false_iff in E. destruct E as [E1 E2]. apply Z.ltb_ge in E1. apply Z.leb_gt in E2.
  destruct (nth_error cdfs (Z.to_nat i)) as [tbl|] eqn:Et; [|discriminate].
  destruct (lookup tbl (opponents acts i)) as [cdf|] eqn:El; [|discriminate].
  injection Hs as <-.
  destruct (tables_ok _ _ _ _ Et El) as [Hne [Hlen Hsc]].
  unfold set_at. destruct (Z.ltb_spec i 0); [lia|].
  eapply set_at_nat_Forall2; eauto.
  pose proof (ss_right_range cdf (nmul u (last cdf nzero))).
  pose proof (ss_right_lt cdf (nmul u (last cdf nzero)) Hne (Hsc u Hu)). lia.
Qed.

Theorem logit_range : forall acts ds h f,
  acts_in acts -> Forall (fun d => unitl (snd d)) ds ->
  logit_series cdfs acts ds = Some (h, f) ->
  length h = length ds /\ nth_error (h ++ [f]) 0 = Some acts /\ Forall acts_in (h ++ [f]).
Proof.
  intros acts ds h f Ha Hd Hr. unfold logit_series in Hr.
  apply (run_inv (logit_step cdfs) acts_in (fun _ _ => True) (fun d => unitl (snd d))) in Hr; auto.
  - tauto.
  - intros s d s' Hs Hdd Hst. split; auto. eapply logit_step_ok; eauto.
Qed.
End Logit.

(* C20 proofs, part 2: fictitious play over Q, LocalInteraction, LogitDynamics. *)
From Coq Require Import ZArith QArith List Bool Lia Lqa.
From QE Require Import Base.Num C20.Model C20.Proofs.
Import ListNotations.
Open Scope Z_scope.

(* ================================================================== fictitious play, exact *)
Section FP.
Open Scope Q_scope.

Fixpoint qsum (l : list Q) : Q := match l with [] => 0 | x :: r => x + qsum r end.

Definition probvec (x : list Q) : Prop := Forall (fun p => 0 <= p) x /\ qsum x == 1.

(* x' is (1-s) x + s e_b, entry by entry *)
Definition update_rel (x x' : list Q) (b : Z) (s : Q) : Prop :=
  length x' = length x /\
  forall k xk, nth_error x k = Some xk ->
    exists y, nth_error x' k = Some y /\ y == (1 - s) * xk + (if Z.of_nat k =? b then s else 0)%Q.

Lemma fp_update_from_length : forall (x : list Q) b s j, length (fp_update_from x b s j) = length x.
Proof. induction x; intros; simpl; auto. Qed.

Lemma fp_entry_eq (xj s : Q) (hit : bool) :
  (if hit then nadd (nmul xj (nsub none_ s)) s else nmul xj (nsub none_ s)) == (1 - s) * xj + (if hit then s else 0).
Proof.
  cbn [nadd nmul nsub none_ NumQ]. destruct hit.
  - rewrite Qaddr_eq, Qmulr_eq, Qsubr_eq. ring.
  - rewrite Qmulr_eq, Qsubr_eq. ring.
Qed.

Lemma fp_update_from_nth : forall (x : list Q) b s j k xk,
  nth_error x k = Some xk ->
  exists y, nth_error (fp_update_from x b s j) k = Some y /\
            y == (1 - s) * xk + (if (j + Z.of_nat k =? b)%Z then s else 0).
Proof.
  induction x as [|a r IH]; intros b s j k xk Hk; [destruct k; discriminate|].
  destruct k; simpl in Hk.
  - injection Hk as ->. cbn [fp_update_from nth_error]. eexists. split; [reflexivity|].
    replace (j + Z.of_nat 0)%Z with j by lia. apply fp_entry_eq.
  - cbn [fp_update_from nth_error]. destruct (IH b s (j + 1)%Z k xk Hk) as [y [Hy Ey]].
    exists y. split; [exact Hy|]. replace (j + Z.of_nat (S k))%Z with (j + 1 + Z.of_nat k)%Z by lia. exact Ey.
Qed.

Lemma fp_update_rel : forall (x : list Q) b s, update_rel x (fp_update x b s) b s.
Proof.
  intros x b s. split; [apply fp_update_from_length|].
  intros k xk Hk. destruct (fp_update_from_nth x b s 0%Z k xk Hk) as [y [Hy Ey]].
  exists y. split; [exact Hy|]. replace (0 + Z.of_nat k)%Z with (Z.of_nat k) in Ey by lia. exact Ey.
Qed.

Lemma fp_update_from_nonneg : forall (x : list Q) b s j, 0 <= s -> s <= 1 ->
  Forall (fun p => 0 <= p) x -> Forall (fun p => 0 <= p) (fp_update_from x b s j).
Proof.
  induction x as [|a r IH]; intros b s j H0 H1 Hx; [constructor|].
  inversion Hx as [|? ? Ha Hr]; subst. cbn [fp_update_from]. constructor; [|apply IH; auto].
  rewrite (fp_entry_eq a s (j =? b)%Z). destruct (j =? b)%Z; nra.
Qed.

Lemma fp_update_from_sum : forall (x : list Q) b s j,
  qsum (fp_update_from x b s j) ==
  (1 - s) * qsum x + (if ((j <=? b) && (b <? j + Z.of_nat (length x)))%Z then s else 0).
Proof.
  induction x as [|a r IH]; intros b s j.
  - simpl. destruct (j <=? b)%Z eqn:E1; destruct (b <? j + 0)%Z eqn:E2; simpl; try ring.
    apply Z.leb_le in E1. apply Z.ltb_lt in E2. lia.
  - cbn [fp_update_from qsum length]. rewrite (fp_entry_eq a s (j =? b)%Z), IH.
    destruct (Z.eqb_spec j b) as [->|Hne].
    + rewrite Z.leb_refl. destruct (Z.ltb_spec b (b + Z.of_nat (S (length r)))); [|lia].
      destruct (Z.leb_spec (b + 1) b); [lia|]. simpl. ring.
    + destruct (Z.leb_spec j b), (Z.leb_spec (j + 1) b), (Z.ltb_spec b (j + 1 + Z.of_nat (length r))),
        (Z.ltb_spec b (j + Z.of_nat (S (length r)))); simpl; try ring; lia.
Qed.

Lemma fp_update_probvec : forall (x : list Q) b s, 0 <= s -> s <= 1 -> (0 <= b < zlen x)%Z ->
  probvec x -> probvec (fp_update x b s).
Proof.
  intros x b s H0 H1 Hb [Hnn Hsum]. split; [apply fp_update_from_nonneg; auto|].
  unfold fp_update. rewrite fp_update_from_sum, Hsum.
  unfold zlen in Hb. destruct (Z.leb_spec 0 b); [|lia]. destruct (Z.ltb_spec b (0 + Z.of_nat (length x))); [|lia].
  simpl. ring.
Qed.

(* documented step sizes *)
Lemma nofpos_Q : forall p, nofpos (T:=Q) p == inject_Z (Zpos p).
Proof.
  induction p; cbn [nofpos nadd none_ NumQ].
  - rewrite !Qaddr_eq, IHp. unfold inject_Z, Qeq. simpl. lia.
  - rewrite Qaddr_eq, IHp. unfold inject_Z, Qeq. simpl. lia.
  - reflexivity.
Qed.

Lemma step_size_default : forall t, (0 <= t)%Z -> step_size (T:=Q) None t == 1 / inject_Z (t + 2).
Proof.
  intros t Ht. unfold step_size. cbn [ndiv none_ NumQ]. rewrite Qdivr_eq.
  destruct (t + 2)%Z eqn:E; try lia. cbn [nofZ]. rewrite nofpos_Q. reflexivity.
Qed.

Definition gain_ok (gain : option Q) : Prop := match gain with None => True | Some g => 0 <= g /\ g <= 1 end.

Lemma step_size_range : forall gain t, gain_ok gain -> (0 <= t)%Z ->
  0 <= step_size gain t /\ step_size gain t <= 1.
Proof.
  intros [g|] t Hg Ht; [exact Hg|].
  rewrite step_size_default by exact Ht.
  assert (Hp : 2 <= inject_Z (t + 2)). { unfold Qle, inject_Z. simpl. lia. }
  split.
  - apply Qle_shift_div_l; lra.
  - apply Qle_shift_div_r; lra.
Qed.

(* a best response up to tol, exactly: nobody does better by more than tol *)
Definition is_best_response (pv : list Q) (tol : Q) (b : Z) : Prop :=
  (0 <= b < zlen pv)%Z /\
  exists x, nth_error pv (Z.to_nat b) = Some x /\ forall y, In y pv -> y - tol <= x.

Lemma best_response_optimal_Q : forall (pv : list Q) tol b,
  best_response pv tol = Some b -> is_best_response pv tol b.
Proof.
  intros pv tol b Hb. destruct (best_response_spec pv tol b Hb) as [Hr [[x [Hx Hle]] _]].
  split; [exact Hr|]. exists x. split; [exact Hx|]. intros y Hy.
  assert (Hne : pv <> []) by (intro E; subst; destruct Hy).
  destruct (vmax_Q_spec pv Hne) as [_ Hmax]. specialize (Hmax y Hy).
  cbn [nleb nsub NumQ] in Hle. apply Qle_bool_iff in Hle. rewrite Qsubr_eq in Hle. lra.
Qed.

(* state invariant and step relation *)
Definition fp_inv_state (n0 n1 : Z) (st : fp_state (T:=Q)) : Prop :=
  let '(x0, x1, t) := st in
  zlen x0 = n0 /\ zlen x1 = n1 /\ probvec x0 /\ probvec x1 /\ (0 <= t)%Z.

Definition payoff_vectors (A B : list (list Q)) (x0 x1 : list Q) (pert : option (list Q * list Q)) :=
  match pert with
  | None => (mat_vec A x1, mat_vec B x0)
  | Some (e0, e1) => (vadd (mat_vec A x1) e0, vadd (mat_vec B x0) e1)
  end.

(* the next beliefs are (1-s) old + s e_br with br a best response (up to tol) to the OLD beliefs *)
Definition fp_rel (okp : option (list Q * list Q) -> Prop) (A B : list (list Q)) (gain : option Q) (tol : Q)
  (st st' : fp_state (T:=Q)) : Prop :=
  let '(x0, x1, t) := st in
  let '(x0', x1', t') := st' in
  t' = (t + 1)%Z /\
  exists pert b0 b1, okp pert /\
    is_best_response (fst (payoff_vectors A B x0 x1 pert)) tol b0 /\
    is_best_response (snd (payoff_vectors A B x0 x1 pert)) tol b1 /\
    best_response (fst (payoff_vectors A B x0 x1 pert)) tol = Some b0 /\
    best_response (snd (payoff_vectors A B x0 x1 pert)) tol = Some b1 /\
    update_rel x0 x0' b0 (step_size gain t) /\ update_rel x1 x1' b1 (step_size gain t).

Definition pert_ok (n0 n1 : Z) (pert : option (list Q * list Q)) : Prop :=
  match pert with None => True | Some (e0, e1) => zlen e0 = n0 /\ zlen e1 = n1 end.

Lemma vadd_length (a b : list Q) : length a = length b -> length (vadd a b) = length a.
Proof. intros E. unfold vadd. rewrite map_length, combine_length. lia. Qed.

Theorem fp_step_ok : forall (okp : option (list Q * list Q) -> Prop) A B gain tol n0 n1 st pert st',
  zlen A = n0 -> zlen B = n1 -> gain_ok gain ->
  fp_inv_state n0 n1 st -> (okp pert /\ pert_ok n0 n1 pert) ->
  fp_step A B gain tol st pert = Some st' ->
  fp_inv_state n0 n1 st' /\ fp_rel okp A B gain tol st st'.
Proof.
  intros okp A B gain tol n0 n1 [[x0 x1] t] pert [[x0' x1'] t'] HA HB Hg [L0 [L1 [P0 [P1 Ht]]]] [Hok Hp] Hs.
  unfold fp_step in Hs.
  assert (Epv : (match pert with
                 | None => (mat_vec A x1, mat_vec B x0)
                 | Some (e0, e1) => (vadd (mat_vec A x1) e0, vadd (mat_vec B x0) e1)
                 end) = payoff_vectors A B x0 x1 pert) by reflexivity.
  rewrite Epv in Hs. destruct (payoff_vectors A B x0 x1 pert) as [pv0 pv1] eqn:Ep.
  destruct (best_response pv0 tol) as [b0|] eqn:E0; [|discriminate].
  destruct (best_response pv1 tol) as [b1|] eqn:E1; [|discriminate].
  injection Hs as <- <- <-.
  assert (Hl0 : zlen pv0 = n0 /\ zlen pv1 = n1).
  { unfold payoff_vectors in Ep. destruct pert as [[e0 e1]|]; injection Ep as <- <-.
    - destruct Hp as [He0 He1]. unfold zlen in *. rewrite !vadd_length; unfold mat_vec; rewrite !map_length; lia.
    - rewrite !mat_vec_length. auto. }
  destruct Hl0 as [Hl0 Hl1].
  pose proof (best_response_range _ _ _ E0) as R0. pose proof (best_response_range _ _ _ E1) as R1.
  destruct (step_size_range gain t Hg Ht) as [S0 S1].
  split.
  - unfold fp_inv_state.
    split; [unfold zlen, fp_update in *; now rewrite fp_update_from_length|].
    split; [unfold zlen, fp_update in *; now rewrite fp_update_from_length|].
    split; [apply fp_update_probvec; auto; lia|].
    split; [apply fp_update_probvec; auto; lia|]. lia.
  - unfold fp_rel. split; [reflexivity|]. exists pert, b0, b1. rewrite Ep. cbn [fst snd].
    split; [exact Hok|].
    split; [apply best_response_optimal_Q; exact E0|].
    split; [apply best_response_optimal_Q; exact E1|].
    split; [exact E0|]. split; [exact E1|].
    split; apply fp_update_rel.
Qed.

Theorem fp_inv : forall (okp : option (list Q * list Q) -> Prop) A B gain tol n0 n1 x0 x1 t0 perts h f,
  zlen A = n0 -> zlen B = n1 -> gain_ok gain ->
  fp_inv_state n0 n1 (x0, x1, t0) -> Forall (fun p => okp p /\ pert_ok n0 n1 p) perts ->
  fp_series A B gain tol x0 x1 t0 perts = Some (h, f) ->
  length h = length perts /\ nth_error (h ++ [f]) 0 = Some (x0, x1, t0) /\
  Forall (fp_inv_state n0 n1) (h ++ [f]) /\ chain_rel (fp_rel okp A B gain tol) (h ++ [f]).
Proof.
  intros okp A B gain tol n0 n1 x0 x1 t0 perts h f HA HB Hg Hi Hp Hr. unfold fp_series in Hr.
  apply (run_inv (fp_step A B gain tol) (fp_inv_state n0 n1) (fp_rel okp A B gain tol)
                 (fun p => okp p /\ pert_ok n0 n1 p)) in Hr; auto.
  intros s d s' Hs Hd Hst. eapply fp_step_ok; eauto.
Qed.
End FP.

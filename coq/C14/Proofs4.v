(* C14: packaged statements used by Props.v *)
From Coq Require Import ZArith QArith List Bool Arith Lia.
From QE Require Import Base.Num C14.Model C14.Proofs C14.Proofs2 C14.Proofs3.
Import ListNotations.

Section Pack.
Context {T : Type}.
Variable d : T.

(* NormalFormGame(payoff_profile_array): every view shows prof[a][i] *)
Theorem views_agree (prof : arr T) (nums : list nat) :
  shape prof = nums ++ [length nums] -> (0 < length nums)%nat ->
  exists g, players_of_profile d prof = Some g /\ consistent g nums /\
    forall a i, inr nums a -> (i < length nums)%nat ->
      get d (player g i) (rotl i a) = get d prof (a ++ [i]) /\
      nth i (nfg_getitem d g a) d = get d prof (a ++ [i]) /\
      get d (profile_of_players d g) (a ++ [i]) = get d prof (a ++ [i]).
Proof.
  intros Hs Hp. eexists. split; [apply (players_of_profile_some d prof nums Hs Hp)|].
  pose proof (from_profile_consistent d prof nums Hs Hp) as Hc. split; [exact Hc|].
  intros a i Ha Hi. pose proof (from_profile_payoff d prof nums Hs Hp a i Ha Hi) as E. unfold payoff in E.
  split; [exact E|]. split.
  - rewrite (getitem_nth d _ nums Hc a i Hi). exact E.
  - rewrite (profile_array_get d _ nums Hc a i Ha Hi). exact E.
Qed.

(* for any well-formed game (however constructed) the three views agree *)
Theorem views_agree_game (g : game T) nums a i : consistent g nums -> inr nums a -> (i < length nums)%nat ->
  nth i (nfg_getitem d g a) d = get d (player g i) (rotl i a) /\
  get d (profile_of_players d g) (a ++ [i]) = get d (player g i) (rotl i a).
Proof.
  intros Hc Ha Hi. split; [apply (getitem_nth d g nums Hc a i Hi) | apply (profile_array_get d g nums Hc a i Ha Hi)].
Qed.

Theorem players_roundtrip :
  (forall (g : game T) nums, consistent g nums -> players_of_profile d (profile_of_players d g) = Some g) /\
  (forall (prof : arr T) nums g, wf prof -> shape prof = nums ++ [length nums] -> (0 < length nums)%nat ->
      players_of_profile d prof = Some g -> profile_of_players d g = prof).
Proof. split; [apply players_roundtrip_players | apply players_roundtrip_profile]. Qed.

Theorem setitem_getitem (g : game T) nums a v : consistent g nums -> inr nums a -> length v = length nums ->
  consistent (nfg_setitem d g a v) nums /\
  nfg_getitem d (nfg_setitem d g a v) a = v /\
  forall b, inr nums b -> b <> a -> nfg_getitem d (nfg_setitem d g a v) b = nfg_getitem d g b.
Proof.
  intros Hc Ha Hv. split; [now apply setitem_consistent|]. split; [now apply setitem_getitem_same with (nums := nums)|].
  intros b Hb Hne. now apply setitem_getitem_other with (nums := nums).
Qed.

(* delete_action(j, k): the profiles with a_j = k disappear from every view, all other payoffs are kept
   (result profile a' corresponds to the old profile bump_at j k a') *)
Theorem delete_action_views (g : game T) nums j k pidx :
  consistent g nums -> (j < length nums)%nat ->
  pidx = Z.of_nat j \/ pidx = (Z.of_nat j - Z.of_nat (length nums))%Z ->
  (forall g', nfg_delete_action d g pidx k = Some g' ->
     consistent g' (dec_at j nums) /\
     forall a' i, inr (dec_at j nums) a' -> (i < length nums)%nat ->
       get d (player g' i) (rotl i a') = get d (player g i) (rotl i (bump_at j k a')) /\
       nth i (nfg_getitem d g' a') d = nth i (nfg_getitem d g (bump_at j k a')) d /\
       get d (profile_of_players d g') (a' ++ [i]) = get d (profile_of_players d g) (bump_at j k a' ++ [i])) /\
  ((k < nth j nums 0)%nat -> size (dec_at j nums) <> 0%nat ->
     exists g', nfg_delete_action d g (Z.of_nat j) k = Some g').
Proof.
  intros Hc Hj Hp. split.
  - intros g' E. destruct (delete_action_spec d g nums j k pidx g' Hc Hj Hp E) as [Hc' Hpay].
    split; [exact Hc'|]. intros a' i Ha Hi.
    assert (Hld : length (dec_at j nums) = length nums) by (unfold dec_at; apply length_upd_at).
    pose proof (Hpay a' i Ha Hi) as E1. unfold payoff in E1.
    pose proof (inr_bump k j nums a' Ha) as Hb.
    split; [exact E1|]. split.
    + rewrite (getitem_nth d g' _ Hc' a' i) by lia. rewrite (getitem_nth d g nums Hc _ i Hi). exact E1.
    + rewrite <- Hld in Hi. rewrite (profile_array_get d g' _ Hc' a' i Ha Hi). rewrite Hld in Hi.
      rewrite (profile_array_get d g nums Hc _ i Hb Hi). exact E1.
  - intros Hk Hs. now apply delete_action_succeeds with (nums := nums).
Qed.
End Pack.

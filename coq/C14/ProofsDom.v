(* C14 proofs: is_dominated (minmax route, tolerance-0 pivoting options, exact arithmetic) says exactly that some
   mixed action over the other own actions beats the action by more than tol against every opponent profile,
   given the optimality certificate of minmax (C04_minmax_certificate: its inner simplex run ended with status 0). *)
From Coq Require Import ZArith QArith List Bool Arith Lia Lqa Setoid.
From QE Require Import Base.Num C14.Model Base.Pivot Base.PivotProofs C04.Model C04.Proofs C04.ProofsMM2 C14.Dominated.
Import ListNotations.
Local Open Scope Q_scope.

Notation arrQ := (arr Q).

(* advantage of the i-th other action over action a against flattened opponent profile j *)
Definition adv (P : arrQ) (a w i j : nat) : Q := flat_entry P w (skip a i) j - flat_entry P w a j.

(* sigma (a mixed action over the n0-1 other own actions) dominates a by more than tol *)
Definition dominates (P : arrQ) (a n0 w : nat) (tol : Q) (sigma : nat -> Q) : Prop :=
  (forall i, (i < n0 - 1)%nat -> 0 <= sigma i) /\ sumQ (n0 - 1) sigma == 1 /\
  forall j, (j < w)%nat -> tol < sumQ (n0 - 1) (fun i => sigma i * adv P a w i j).

Lemma get_diff_game (P : arrQ) a n0 osh i j : C14.Model.shape P = n0 :: osh -> (i < n0 - 1)%nat -> (j < size osh)%nat ->
  get (diff_game P a) i j == adv P a (size osh) i j.
Proof.
  intros Hs Hi Hj. unfold diff_game. rewrite Hs. cbn [hd tl]. rewrite get_tab by assumption.
  unfold adv. apply Qsubr_eq.
Qed.

Theorem dominated_spec (P : arrQ) a tol max_iter n0 osh :
  C14.Model.shape P = n0 :: osh -> osh <> [] -> (2 <= n0)%nat -> (0 < size osh)%nat ->
  minmax_inner_status (n0 - 1) (size osh) (diff_game P a) max_iter = 0%nat ->
  (is_dominated P a tol max_iter opts0 = true <-> exists sigma, dominates P a n0 (size osh) tol sigma).
Proof.
  intros Hs Hne Hn0 Hw Hst. set (w := size osh) in *. set (m := (n0 - 1)%nat) in *.
  unfold is_dominated. rewrite Hs. cbn [length hd tl]. fold w. fold m.
  destruct osh as [|o1 osh']; [congruence|]. cbn [length]. rewrite Nat.sub_succ, Nat.sub_0_r.
  destruct (Nat.eqb_spec m 0); [lia|].
  destruct (minmax m w (diff_game P a) max_iter opts0) as [[v x] y] eqn:Emm.
  assert (Hwf : wf m w (diff_game P a)) by (unfold diff_game; rewrite Hs; cbn [hd tl]; apply wf_tab).
  destruct (minmax_certificate m w (diff_game P a) max_iter v x y ltac:(lia) Hw Hwf Hst Emm)
    as [Hx [Sx [Hy [Sy [Hcol Hrow]]]]].
  assert (Eg : forall i j, (i < m)%nat -> (j < w)%nat -> get (diff_game P a) i j == adv P a w i j)
    by (intros; now apply (get_diff_game P a n0 (o1 :: osh'))).
  change (nltb tol v) with (Qltb tol v). rewrite Qltb_lt. unfold dominates. fold m. split.
  - intros Hv. exists (vget x). split; [assumption|]. split; [assumption|].
    intros j Hj. specialize (Hcol j Hj).
    rewrite (sumQ_ext m _ (fun i => vget x i * adv P a w i j)) in Hcol by (intros i Hi; now rewrite Eg).
    lra.
  - intros [sigma [Hs0 [Hs1 Hdom]]].
    (* sum_j y_j (sigma'D)_j <= v  and  > tol *)
    set (c := fun j => sumQ m (fun i => sigma i * adv P a w i j)).
    assert (Hle : sumQ w (fun j => vget y j * c j) <= v).
    { unfold c. rewrite (sumQ_ext w _ (fun j => sumQ m (fun i => vget y j * (sigma i * adv P a w i j))))
        by (intros; now rewrite sumQ_scale).
      rewrite <- sumQ_swap.
      rewrite (sumQ_ext m _ (fun i => sigma i * sumQ w (fun j => get (diff_game P a) i j * vget y j))).
      - apply Qle_trans with (sumQ m (fun i => sigma i * v)).
        + apply sumQ_le. intros i Hi. specialize (Hs0 i Hi). specialize (Hrow i Hi). nra.
        + rewrite (sumQ_ext m _ (fun i => v * sigma i)) by (intros; ring). rewrite sumQ_scale, Hs1. lra.
      - intros i Hi. rewrite <- sumQ_scale. apply sumQ_ext. intros j Hj. rewrite Eg by assumption. ring. }
    destruct (Qlt_le_dec tol v) as [Hlt|Hge]; [assumption|]. exfalso.
    assert (Z : sumQ w (fun j => vget y j * (c j - tol)) <= 0).
    { rewrite (sumQ_ext w _ (fun j => 1 * (vget y j * c j) + (- tol) * vget y j)) by (intros; ring).
      rewrite sumQ_lin, Sy. lra. }
    assert (Hz : forall j, (j < w)%nat -> vget y j * (c j - tol) == 0).
    { apply sumQ_nonneg_zero; [|assumption]. intros j Hj. specialize (Hy j Hj). specialize (Hdom j Hj). fold (c j) in Hdom. nra. }
    assert (Hy0 : sumQ w (vget y) == 0).
    { apply sumQ_zero. intros j Hj. specialize (Hz j Hj). specialize (Hdom j Hj). fold (c j) in Hdom.
      assert (Hne0 : ~ c j - tol == 0) by lra. apply Qmult_integral in Hz. tauto. }
    rewrite Hy0 in Sy. discriminate Sy.
Qed.

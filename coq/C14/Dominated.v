(* C14 model, part 2: Player.is_dominated(action, tol, method=None): the value of the zero-sum "difference game"
   D[i][j] = payoff[other_i][j] - payoff[action][j] (rows: the other own actions, columns: flattened opponent
   profiles) computed by optimize.minmax (model: C04/Model.v), compared with tol.  Executable definitions only. *)
From Coq Require Import List Bool Arith.
From QE Require Import Base.Num C14.Model Base.Pivot C04.Model.
Import ListNotations.

Section Dom.
Context {T : Type} `{Num T}.

(* payoff_array.reshape(n0, w)[k, j] *)
Definition flat_entry (P : arr T) (w k j : nat) : T := nth (k * w + j) (adata P) nzero.
(* index of the i-th own action other than a *)
Definition skip (a i : nat) : nat := if i <? a then i else S i.

(* D = payoff_array[ind]; D -= payoff_array[action]; D.shape = (D.shape[0], prod(D.shape[1:])) *)
Definition diff_game (P : arr T) (a : nat) : list (list T) :=
  let n0 := hd 0 (C14.Model.shape P) in
  let w := size (tl (C14.Model.shape P)) in
  Pivot.tab (n0 - 1) w (fun i j => nsub (flat_entry P w (skip a i) j) (flat_entry P w a j)).

Definition is_dominated (P : arr T) (a : nat) (tol : T) (max_iter : nat) (o : PivOptions) : bool :=
  match length (C14.Model.shape P) - 1 with
  | 0 => is_dominated_0 P a tol                        (* payoff_array.max() > payoff_array[action] + tol *)
  | _ =>
    let n0 := hd 0 (C14.Model.shape P) in
    let w := size (tl (C14.Model.shape P)) in
    if n0 - 1 =? 0 then false                          (* D.shape[0] == 0 *)
    else let '(v, _, _) := minmax (n0 - 1) w (diff_game P a) max_iter o in nltb tol v
  end.

Definition dominated_actions (P : arr T) (tol : T) (max_iter : nat) (o : PivOptions) : list nat :=
  filter (fun a => is_dominated P a tol max_iter o) (seq 0 (hd 0 (C14.Model.shape P))).
End Dom.

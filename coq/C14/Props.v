(* C14 property theorems: statements only, each closed by `exact`, with Print Assumptions. *)
From Coq Require Import ZArith QArith List Bool Arith.
From QE Require Import Base.Num C14.Model C14.Proofs.
Import ListNotations.

Theorem C14_size_nil : size [] = 1%nat.
Proof. exact size_nil. Qed.
Print Assumptions C14_size_nil.

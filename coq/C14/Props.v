(* C14 property theorems: statements only, each closed by `exact`, with Print Assumptions.
   T is any payoff type for the index-arithmetic theorems; the numerical ones are about the exact
   instance NumQ.  `consistent g nums`: g has one payoff array per player, player i's array has the
   shape nums rotated i times (own action first, opponents in cyclic order) and the right length.
   `inr nums a`: a is an action profile (a_i < nums_i). *)
From Coq Require Import ZArith QArith List Bool Arith.
From QE Require Import Base.Num C14.Model C14.Proofs C14.Proofs2 C14.Proofs3 C14.Proofs4.
Import ListNotations.

Theorem C14_views_agree : forall (T : Type) (d : T) (prof : arr T) (nums : list nat),
  shape prof = nums ++ [length nums] -> (0 < length nums)%nat ->
  exists g, players_of_profile d prof = Some g /\ consistent g nums /\
    forall a i, inr nums a -> (i < length nums)%nat ->
      get d (player g i) (rotl i a) = get d prof (a ++ [i]) /\
      nth i (nfg_getitem d g a) d = get d prof (a ++ [i]) /\
      get d (profile_of_players d g) (a ++ [i]) = get d prof (a ++ [i]).
Proof. exact @views_agree. Qed.
Print Assumptions C14_views_agree.

Theorem C14_views_agree_game : forall (T : Type) (d : T) (g : game T) nums a i,
  consistent g nums -> inr nums a -> (i < length nums)%nat ->
  nth i (nfg_getitem d g a) d = get d (player g i) (rotl i a) /\
  get d (profile_of_players d g) (a ++ [i]) = get d (player g i) (rotl i a).
Proof. exact @views_agree_game. Qed.
Print Assumptions C14_views_agree_game.

Theorem C14_players_roundtrip : forall (T : Type) (d : T),
  (forall (g : game T) nums, consistent g nums -> players_of_profile d (profile_of_players d g) = Some g) /\
  (forall (prof : arr T) nums g, wf prof -> shape prof = nums ++ [length nums] -> (0 < length nums)%nat ->
      players_of_profile d prof = Some g -> profile_of_players d g = prof).
Proof. exact @players_roundtrip. Qed.
Print Assumptions C14_players_roundtrip.

Theorem C14_setitem_getitem : forall (T : Type) (d : T) (g : game T) nums a v,
  consistent g nums -> inr nums a -> length v = length nums ->
  consistent (nfg_setitem d g a v) nums /\
  nfg_getitem d (nfg_setitem d g a v) a = v /\
  forall b, inr nums b -> b <> a -> nfg_getitem d (nfg_setitem d g a v) b = nfg_getitem d g b.
Proof. exact @setitem_getitem. Qed.
Print Assumptions C14_setitem_getitem.

Theorem C14_delete_action_views : forall (T : Type) (d : T) (g : game T) nums j k pidx,
  consistent g nums -> (j < length nums)%nat ->
  pidx = Z.of_nat j \/ pidx = (Z.of_nat j - Z.of_nat (length nums))%Z ->
  (forall g', nfg_delete_action d g pidx k = Some g' ->
     consistent g' (dec_at j nums) /\
     forall a' i, inr (dec_at j nums) a' -> (i < length nums)%nat ->
       get d (player g' i) (rotl i a') = get d (player g i) (rotl i (bump_at j k a')) /\
       nth i (nfg_getitem d g' a') d = nth i (nfg_getitem d g (bump_at j k a')) d /\
       get d (profile_of_players d g') (a' ++ [i]) = get d (profile_of_players d g) (bump_at j k a' ++ [i])) /\
  ((k < nth j nums 0)%nat -> size (dec_at j nums) <> 0%nat ->
     exists g', nfg_delete_action d g (Z.of_nat j) k = Some g').
Proof. exact @delete_action_views. Qed.
Print Assumptions C14_delete_action_views.

(* payoff_vector: multilinear expectation for any mix of pure (indicator weight) and mixed opponents,
   any number of opponents; `wprod acts b` is the product of the opponents' weights at profile b *)
Theorem C14_payoff_vector_expectation : forall (P : arr Q) acts n0 osh a,
  shape P = n0 :: osh -> Forall2 act_ok acts osh -> (a < n0)%nat ->
  (get 0 (payoff_vector P acts) [a] ==
   sumQl (map (fun b => wprod acts b * get 0 P (a :: b)) (indices osh)))%Q.
Proof. exact payoff_vector_expectation. Qed.
Print Assumptions C14_payoff_vector_expectation.

Theorem C14_best_response_spec : forall (P : arr Q) acts tol,
  let pv := adata (payoff_vector P acts) in
  (0 <= tol)%Q -> pv <> [] ->
  let r := best_response P acts None tol in
  (r < length pv)%nat /\ (vmax pv - tol <= nth r pv 0)%Q /\
  (forall j, (j < r)%nat -> ~ (vmax pv - tol <= nth j pv 0)%Q) /\
  (forall k, (k < length pv)%nat -> (nth k pv 0 - tol <= nth r pv 0)%Q).
Proof. exact best_response_spec. Qed.
Print Assumptions C14_best_response_spec.

Theorem C14_is_best_response_spec : forall (P : arr Q) acts tol,
  let pv := adata (payoff_vector P acts) in pv <> [] ->
  (forall a, is_best_response P (Pure a) acts tol = true <->
             forall k, (k < length pv)%nat -> (nth k pv 0 - tol <= nth a pv 0)%Q) /\
  (forall p, is_best_response P (Mixed p) acts tol = true <->
             forall k, (k < length pv)%nat -> (nth k pv 0 - tol <= sumQl (map2 Qmult p pv))%Q).
Proof.
  intros P acts tol pv Hne. split; [intros a; exact (is_best_response_pure P acts tol a Hne) | intros p; exact (is_best_response_mixed P acts tol p Hne)].
Qed.
Print Assumptions C14_is_best_response_spec.

Theorem C14_is_nash_spec : forall (g : game Q) (prof : list (action Q)) tol,
  (0 < length g)%nat -> length prof = length g ->
  (is_nash g prof tol = true <->
   forall i, (i < length g)%nat ->
     is_best_response (player g i) (nth i prof (Pure 0)) (opponents i prof) tol = true).
Proof. exact is_nash_spec. Qed.
Print Assumptions C14_is_nash_spec.

(* pure profiles: is_nash is the textbook definition read from the players' arrays *)
Theorem C14_is_nash_pure_spec : forall (g : game Q) nums a tol, consistent g nums -> inr nums a ->
  (is_nash g (map (@Pure Q) a) tol = true <->
   forall i k, (i < length nums)%nat -> (k < nth i nums 0)%nat ->
     (payoff 0 g (replace_at i k a) i - tol <= payoff 0 g a i)%Q).
Proof. exact is_nash_pure_spec. Qed.
Print Assumptions C14_is_nash_pure_spec.

Theorem C14_gam_roundtrip_indices : forall (T : Type) (d : T) (g : game T) nums,
  consistent g nums -> size nums <> 0%nat -> gam_parse d (gam_dump d g) = Some g.
Proof. exact @gam_roundtrip. Qed.
Print Assumptions C14_gam_roundtrip_indices.

(* ---- the hypotheses are satisfiable: a 2 x 3 x 2 game with distinct payoffs *)
Definition ex_prof : arr Z := ([2; 3; 2; 3]%nat, map Z.of_nat (seq 0 36)).
Definition ex_game : game Z := match players_of_profile 0%Z ex_prof with Some g => g | None => [] end.
Example ex_consistent : consistent ex_game [2; 3; 2]%nat.
Proof.
  assert (E : consistentb ex_game = true) by (vm_compute; reflexivity).
  apply consistentb_spec in E. exact (proj1 E).
Qed.
Example ex_views : nfg_getitem 0%Z ex_game [1; 2; 0]%nat = [30; 31; 32]%Z /\
                   get 0%Z (player ex_game 1) [2; 0; 1]%nat = 31%Z /\
                   get 0%Z (player ex_game 2) [0; 1; 2]%nat = 32%Z.
Proof. vm_compute. auto. Qed.
Example ex_delete : exists g', nfg_delete_action 0%Z ex_game (-2)%Z 1 = Some g' /\
                               nfg_getitem 0%Z g' [1; 1; 0]%nat = [30; 31; 32]%Z.
Proof. eexists. split; vm_compute; reflexivity. Qed.
Example ex_gam : gam_parse 0%Z (gam_dump 0%Z ex_game) = Some ex_game.
Proof. vm_compute. reflexivity. Qed.
Example ex_payoff_vector :
  adata (payoff_vector (T:=Q) ([2; 2; 2]%nat, [1; 2; 3; 4; 5; 6; 7; 8]%Q) [Mixed [1#2; 1#2]%Q; Pure 1]) = [3; 7]%Q /\
  Forall2 act_ok [Mixed [1#2; 1#2]%Q; Pure 1] [2; 2]%nat.
Proof. split; [vm_compute; reflexivity | repeat constructor]. Qed.

(* ================= domination (Dominated.v, ProofsDom.v; uses C04_minmax_certificate) =================
   is_dominated(action, tol) through optimize.minmax (exact arithmetic, pivoting tolerances 0): given the optimality
   certificate of minmax (its inner simplex run ended with status 0 - termination is C04_minmax_terminates_full,
   not proved), the answer is true exactly when some mixed action over the OTHER own actions earns more than tol
   above the action against every opponent profile.  adv P a w i j = payoff[other_i, j] - payoff[a, j]. *)
From QE Require C04.Model C04.Proofs C04.ProofsMM2 Base.PivotProofs.
From QE Require Import C14.Dominated C14.ProofsDom.

Theorem C14_dominated_spec : forall (P : arr Q) a tol max_iter n0 osh,
  shape P = n0 :: osh -> osh <> [] -> (2 <= n0)%nat -> (0 < size osh)%nat ->
  C04.ProofsMM2.minmax_inner_status (n0 - 1) (size osh) (diff_game P a) max_iter = 0%nat ->
  (is_dominated P a tol max_iter C04.Proofs.opts0 = true <->
   exists sigma : nat -> Q,
     (forall i, (i < n0 - 1)%nat -> 0 <= sigma i)%Q /\ (Base.PivotProofs.sumQ (n0 - 1) sigma == 1)%Q /\
     forall j, (j < size osh)%nat -> (tol < Base.PivotProofs.sumQ (n0 - 1) (fun i => sigma i * adv P a (size osh) i j))%Q).
Proof. exact dominated_spec. Qed.
Print Assumptions C14_dominated_spec.

Example ex_dominated : let P : arr Q := ([3; 2]%nat, [0; 0; 3; -1; -1; 3]%Q) in
  C04.ProofsMM2.minmax_inner_status 2 2 (diff_game P 0) 100 = 0%nat /\
  is_dominated P 0 (1 # 2) 100 C04.Proofs.opts0 = true /\ is_dominated P 1 0 100 C04.Proofs.opts0 = false /\
  dominated_by_pure P 0 0%Q = false.     (* action 0 is dominated only by the mixture (1/2, 1/2) of actions 1 and 2 *)
Proof. vm_compute. auto. Qed.

(* ================= polymatrix games (ProofsPoly.v) =================
   others i N: the players other than i in cyclic order; hh_entry pm i p ai ap = pm[i][p][ai, ap];
   poly_sum pm a i N = sum over p in others i N of pm[i][p][a_i, a_p].
   hh g p1 a1 p a stands for the entry (p, a) of numpy.linalg.lstsq's answer inside hh_payoff_player(g, p1, a1);
   lstsq_exact_on hh g nums: whenever that system is consistent the answer solves it exactly (assumption on
   numpy, stated as a premise; from_nf_pm hh is PolymatrixGame.from_nf's dictionary). *)
From QE Require Import C14.ProofsPoly.

Theorem C14_polymatrix_to_nfg : forall (nums : list nat) (pm : list (list (arr Q))),
  (0 < length nums)%nat ->
  let g := map (poly_player nums pm) (seq 0 (length nums)) in
  consistent g nums /\ (size nums <> 0%nat -> poly_to_nfg nums pm = Some g) /\
  forall a i, inr nums a -> (i < length nums)%nat -> (payoff 0 g a i == poly_sum pm a i (length nums))%Q.
Proof.
  intros nums pm Hp g. split; [exact (poly_consistent nums pm Hp)|]. split; [exact (poly_to_nfg_some nums pm Hp)|].
  exact (poly_payoff nums pm).
Qed.
Print Assumptions C14_polymatrix_to_nfg.

(* from_nf(to_nfg p) has the same normal form as p (the head-to-head matrices themselves are determined only up
   to constants moved between opponents: numpy returns the minimum-norm representative) *)
Theorem C14_polymatrix_roundtrip : forall (hh : game Q -> nat -> nat -> nat -> nat -> Q) (nums : list nat) (pm0 : list (list (arr Q))),
  (0 < length nums)%nat ->
  let N := length nums in
  let g0 := map (poly_player nums pm0) (seq 0 N) in
  let g1 := map (poly_player nums (from_nf_pm hh nums g0)) (seq 0 N) in
  lstsq_exact_on hh g0 nums ->
  forall a i, inr nums a -> (i < N)%nat -> (payoff 0 g1 a i == payoff 0 g0 a i)%Q.
Proof. exact polymatrix_roundtrip. Qed.
Print Assumptions C14_polymatrix_roundtrip.

Example ex_lstsq_exact : forall (nums : list nat) (pm0 : list (list (arr Q))),
  lstsq_exact_on (fun _ p1 a1 p a => hh_entry pm0 p1 p a1 a) (map (poly_player nums pm0) (seq 0 (length nums))) nums.
Proof. exact lstsq_exact_inhabited. Qed.
Example ex_poly : let pm : list (list (arr Q)) :=
    [[dummy; ([2; 2]%nat, [1; 2; 3; 4]%Q); ([2; 3]%nat, [0; 1; 0; 5; 0; 7]%Q)];
     [([2; 2]%nat, [1; 0; 0; 1]%Q); dummy; ([2; 3]%nat, [1; 1; 1; 2; 2; 2]%Q)];
     [([3; 2]%nat, [0; 0; 1; 1; 2; 2]%Q); ([3; 2]%nat, [3; 0; 0; 3; 1; 1]%Q); dummy]] in
  match poly_to_nfg [2; 2; 3]%nat pm with
  | Some g => nfg_getitem 0%Q g [1; 0; 2]%nat = [3 + 7; 0 + 1; 2 + 1]%Q
  | None => False
  end.
Proof. vm_compute. reflexivity. Qed.

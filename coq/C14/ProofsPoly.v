(* C14 proofs: polymatrix games.  PolymatrixGame.to_nfg: the payoff of player i at profile a is the sum of the
   head-to-head payoffs M[i,p][a_i, a_p] over the other players p (cyclic order); from_nf(to_nfg p) gives back a
   polymatrix game with the same normal form, the least-squares step being a Section hypothesis. *)
From Coq Require Import ZArith QArith List Bool Arith Lia Lqa Setoid.
From QE Require Import Base.Num C14.Model C14.Proofs C14.Proofs2 C14.Proofs3.
Import ListNotations.
Local Open Scope Q_scope.

Notation pmQ := (list (list (arr Q))).

(* the other players in cyclic order i+1, ..., N-1, 0, ..., i-1 *)
Definition others (i N : nat) : list nat := opponents i (seq 0 N).
Definition hh_entry (pm : pmQ) (i p ai ap : nat) : Q := get 0 (nth p (nth i pm []) (dummy (T:=Q))) [ai; ap].
Definition poly_sum (pm : pmQ) (a : list nat) (i N : nat) : Q :=
  sumQl (map (fun p => hh_entry pm i p (nth i a 0%nat) (nth p a 0%nat)) (others i N)).

Lemma fold_left_nadd (l : list Q) : forall acc, fold_left nadd l acc == acc + sumQl l.
Proof.
  induction l as [|x l IH]; intros acc; cbn [fold_left sumQl]; [ring|].
  rewrite IH. change (nadd acc x) with (Qaddr acc x). rewrite Qaddr_eq. ring.
Qed.

Lemma map_nth_all {A B} (G : A -> B) (l : list A) d : map (fun j => G (nth j l d)) (seq 0 (length l)) = map G l.
Proof. rewrite <- (map_map (fun j => nth j l d) G). now rewrite map_nth_seq. Qed.

Lemma tl_rotl {A} i (l : list A) : (i < length l)%nat -> tl (rotl i l) = opponents i l.
Proof. intros H. destruct l as [|x l]; [cbn in H; lia|]. now rewrite (rotl_cons x i (x :: l) H). Qed.

Lemma length_opponents {A} i (l : list A) : (i < length l)%nat -> length (opponents i l) = (length l - 1)%nat.
Proof. intros H. unfold opponents. rewrite app_length, skipn_length, firstn_length. lia. Qed.

Lemma opponents_as_map (a : list nat) i : opponents i a = map (fun p => nth p a 0%nat) (others i (length a)).
Proof. unfold others. rewrite <- opponents_map. now rewrite map_nth_seq. Qed.

Lemma in_others p i N : In p (others i N) -> (p < N)%nat.
Proof.
  unfold others, opponents. intros H. apply in_app_or in H.
  assert (Hs : forall k, In p (skipn k (seq 0 N)) -> In p (seq 0 N)) by (intros k Hk; rewrite <- (firstn_skipn k); apply in_or_app; now right).
  assert (Hf : forall k, In p (firstn k (seq 0 N)) -> In p (seq 0 N)) by (intros k Hk; rewrite <- (firstn_skipn k); apply in_or_app; now left).
  destruct H as [H|H]; [apply Hs in H | apply Hf in H]; apply in_seq in H; lia.
Qed.

Section ToNfg.
Variables (nums : list nat) (pm : pmQ).
Let N := length nums.
Let g : game Q := map (poly_player nums pm) (seq 0 N).

Lemma poly_consistent : (0 < N)%nat -> consistent g nums.
Proof.
  intros Hp. unfold consistent, g. rewrite map_length, seq_length. fold N. split; [reflexivity|]. split; [assumption|].
  intros i Hi. rewrite player_map by assumption. split; [reflexivity | apply wf_tab].
Qed.

(* payoff of player i at profile a = sum over the other players p of M[i,p][a_i, a_p] *)
Theorem poly_payoff a i : inr nums a -> (i < N)%nat -> payoff 0 g a i == poly_sum pm a i N.
Proof.
  intros Ha Hi. assert (Hla : length a = N) by now apply inr_length.
  unfold payoff, g. rewrite player_map by assumption. unfold poly_player. fold N.
  change (@nzero Q NumQ) with 0. rewrite get_tab by now apply inr_rotl.
  rewrite fold_left_nadd. rewrite Qplus_0_l.
  rewrite tl_rotl by (rewrite seq_length; assumption). fold (others i N).
  assert (Hlo : length (others i N) = (N - 1)%nat) by (unfold others; rewrite length_opponents; rewrite seq_length; auto).
  unfold poly_sum. rewrite <- Hlo.
  rewrite <- (map_nth_all (fun p => hh_entry pm i p (nth i a 0%nat) (nth p a 0%nat)) (others i N) 0%nat).
  apply sumQl_ext. intros j Hj. apply in_seq in Hj. unfold hh_entry.
  rewrite hd_rotl by lia. rewrite (rotl_cons 0%nat i a) by lia. cbn [nth].
  rewrite opponents_as_map, Hla. rewrite nth_map_in with (d := 0%nat) by lia. reflexivity.
Qed.

Lemma poly_to_nfg_some : (0 < N)%nat -> size nums <> 0%nat -> poly_to_nfg nums pm = Some g.
Proof. intros Hp Hs. unfold poly_to_nfg. fold N. fold g. now apply (consistent_nfg_of_players g nums (poly_consistent Hp)). Qed.
End ToNfg.

(* ------------------------------------------------------------------ from_nf *)
Section FromNf.
(* hh g p1 a1 p a : the entry for label (p, a) of the vector returned by np.linalg.lstsq in
   hh_payoff_player(g, p1, a1) *)
Variable hh : game Q -> nat -> nat -> nat -> nat -> Q.

(* PolymatrixGame.from_nf: polymatrix[p1, p2][a1][a2] = hh_payoff_player(nf, p1, a1)[(p2, a2)] *)
Definition from_nf_pm (nums : list nat) (g : game Q) : pmQ :=
  map (fun p1 => map (fun p2 => tab [nth p1 nums 0%nat; nth p2 nums 0%nat]
                                   (fun idx => hh g p1 (nth 0 idx 0%nat) p2 (nth 1 idx 0%nat)))
                     (seq 0 (length nums))) (seq 0 (length nums)).

(* assumption on numpy's least squares for the game g: when the system built by hh_payoff_player(g, p1, a1) is
   consistent (g is a polymatrix game for that player and action), the returned vector solves it exactly *)
Definition lstsq_exact_on (g : game Q) (nums : list nat) : Prop := forall p1 a1, (p1 < length nums)%nat ->
  (exists h0 : nat -> nat -> Q, forall a, inr nums a -> nth p1 a 0%nat = a1 ->
      sumQl (map (fun p => h0 p (nth p a 0%nat)) (others p1 (length nums))) == payoff 0 g a p1) ->
  forall a, inr nums a -> nth p1 a 0%nat = a1 ->
      sumQl (map (fun p => hh g p1 a1 p (nth p a 0%nat)) (others p1 (length nums))) == payoff 0 g a p1.

Theorem polymatrix_roundtrip (nums : list nat) (pm0 : pmQ) : (0 < length nums)%nat ->
  let N := length nums in
  let g0 := map (poly_player nums pm0) (seq 0 N) in
  let g1 := map (poly_player nums (from_nf_pm nums g0)) (seq 0 N) in
  lstsq_exact_on g0 nums ->
  forall a i, inr nums a -> (i < N)%nat -> payoff 0 g1 a i == payoff 0 g0 a i.
Proof.
  intros Hp N g0 g1 Hls a i Ha Hi. subst g1. subst N.
  rewrite (poly_payoff nums (from_nf_pm nums g0) a i Ha Hi).
  unfold poly_sum.
  rewrite (sumQl_ext _ (fun p => hh g0 i (nth i a 0%nat) p (nth p a 0%nat))).
  - apply (Hls i (nth i a 0%nat) Hi); [|assumption|reflexivity].
    exists (fun p b => hh_entry pm0 i p (nth i a 0%nat) b). intros a' Ha' Ea'.
    subst g0. rewrite (poly_payoff nums pm0 a' i Ha' Hi). unfold poly_sum. rewrite Ea'. reflexivity.
  - intros p Hp'. apply in_others in Hp'. unfold hh_entry, from_nf_pm.
    rewrite nth_map_seq by assumption. unfold dummy. rewrite nth_map_seq by assumption.
    rewrite get_tab; [reflexivity|].
    constructor; [now apply inr_nth|]. constructor; [now apply inr_nth | constructor].
Qed.
End FromNf.

(* the assumption is satisfiable: a least-squares routine that returns the head-to-head payoffs themselves *)
Lemma lstsq_exact_inhabited (nums : list nat) (pm0 : pmQ) :
  lstsq_exact_on (fun _ p1 a1 p a => hh_entry pm0 p1 p a1 a) (map (poly_player nums pm0) (seq 0 (length nums))) nums.
Proof.
  intros p1 a1 Hp1 _ a Ha Ea. rewrite (poly_payoff nums pm0 a p1 Ha Hp1). unfold poly_sum. rewrite Ea. reflexivity.
Qed.

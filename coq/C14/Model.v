(* C14 model: quantecon/game_theory/normal_form_game.py (Player, NormalFormGame),
   polymatrix_game.py (get_player / to_nfg; from_nf's least-squares output is an INPUT),
   game_converters.py (GAMWriter._dump token order, GAMReader._parse).
   N-dimensional arrays are (shape, flat C-order list).  Array-producing steps are
   tabulations `tab sh f` over the C-order list of multi-indices.
   Executable definitions only; proofs live in Proofs.v. *)
From Coq Require Import ZArith List Bool Arith.
From QE Require Import Base.Num.
Import ListNotations.

Section Arrays.
Context {T : Type}.
Variable d : T.                      (* default element for totalised reads *)

Definition arr := (list nat * list T)%type.
Definition shape (a : arr) : list nat := fst a.
Definition adata (a : arr) : list T := snd a.

Definition size (sh : list nat) : nat := fold_right Nat.mul 1 sh.

(* C-order flat position of a multi-index *)
Fixpoint ravel (sh idx : list nat) : nat :=
  match sh, idx with
  | _ :: sh', i :: idx' => i * size sh' + ravel sh' idx'
  | _, _ => 0
  end.

(* np.ndindex( *sh): all multi-indices in C order *)
Fixpoint indices (sh : list nat) : list (list nat) :=
  match sh with
  | [] => [[]]
  | n :: sh' => flat_map (fun i => map (cons i) (indices sh')) (seq 0 n)
  end.

Fixpoint in_rangeb (sh idx : list nat) : bool :=
  match sh, idx with
  | [], [] => true
  | n :: sh', i :: idx' => (i <? n) && in_rangeb sh' idx'
  | _, _ => false
  end.

Definition wfb (a : arr) : bool := length (adata a) =? size (shape a).

Definition get (a : arr) (idx : list nat) : T := nth (ravel (shape a) idx) (adata a) d.
Definition tab (sh : list nat) (f : list nat -> T) : arr := (sh, map f (indices sh)).

(* cyclic rotations of a tuple: rotl k a = a[k:] + a[:k] *)
Definition rotl {A} (k : nat) (l : list A) : list A := skipn k l ++ firstn k l.
Definition rotr {A} (k : nat) (l : list A) : list A := rotl (length l - k) l.

(* a.transpose(( *range(k, N), *range(k))): result[b] = a[x] with x[(k+m) mod N] = b[m] *)
Definition transpose_cyc (k : nat) (a : arr) : arr :=
  tab (rotl k (shape a)) (fun b => get a (rotr k b)).

(* a.take(i, axis=-1) *)
Definition take_last (i : nat) (a : arr) : arr :=
  tab (removelast (shape a)) (fun b => get a (b ++ [i])).

(* ------------------------------------------------------------ NormalFormGame *)
Definition game := list arr.            (* players' payoff arrays, in player order *)
Definition dummy : arr := ([], []).
Definition player (g : game) (i : nat) : arr := nth i g dummy.
Definition nums_actions (g : game) : list nat := map (fun p => hd 0 (shape p)) g.

(* NormalFormGame(payoff_profile_array): the last axis has length N = ndim-1 *)
Definition players_of_profile (prof : arr) : option game :=
  let N := length (shape prof) - 1 in
  if negb (last (shape prof) 0 =? N) || (N =? 0) then None
  else Some (map (fun i => transpose_cyc i (take_last i prof)) (seq 0 N)).

(* NormalFormGame([Player, ...]): shapes must be the rotations of the first one *)
Fixpoint nats_eq (a b : list nat) : bool :=
  match a, b with
  | [], [] => true
  | x :: a', y :: b' => (x =? y) && nats_eq a' b'
  | _, _ => false
  end.
Definition consistentb (g : game) : bool :=
  let N := length g in
  let sh0 := shape (player g 0) in
  (0 <? N) && (length sh0 =? N) &&
  forallb (fun i => nats_eq (shape (player g i)) (rotl i sh0) && wfb (player g i)) (seq 0 N) &&
  negb (size sh0 =? 0).
Definition nfg_of_players (ps : list arr) : option game :=
  if consistentb ps then Some ps else None.

(* NormalFormGame(nums_actions): zero payoffs *)
Definition nfg_zeros (z : T) (nums : list nat) : game :=
  map (fun i => tab (rotl i nums) (fun _ => z)) (seq 0 (length nums)).
(* NormalFormGame(square matrix): symmetric two-player game *)
Definition nfg_symmetric (m : arr) : game := [m; m].

(* payoff_profile_array: out[..., i] = players[i].payoff_array.transpose(( *range(N-i,N), *range(N-i))) *)
Definition profile_of_players (g : game) : arr :=
  let N := length g in
  let ts := map (fun i => transpose_cyc (N - i) (player g i)) (seq 0 N) in
  tab (shape (player g 0) ++ [N]) (fun idx => get (nth (last idx 0) ts dummy) (removelast idx)).

(* g[a] : payoff_array_i[a[i:] + a[:i]] *)
Definition nfg_getitem (g : game) (a : list nat) : list T :=
  map (fun i => get (player g i) (rotl i a)) (seq 0 (length g)).

(* a[idx] = v (scalar position) *)
Definition aset (a : arr) (idx : list nat) (v : T) : arr :=
  tab (shape a) (fun b => if nats_eq b idx then v else get a b).

(* g[a] = v *)
Definition nfg_setitem (g : game) (a : list nat) (v : list T) : game :=
  map (fun i => aset (player g i) (rotl i a) (nth i v d)) (seq 0 (length g)).

(* np.delete(a, k, axis) for an integer k *)
Fixpoint upd_at (f : nat -> nat) (ax : nat) (l : list nat) : list nat :=
  match l, ax with
  | [], _ => []
  | x :: r, O => f x :: r
  | x :: r, S ax' => x :: upd_at f ax' r
  end.
(* shape after deleting one index along axis ax; source index of result index b *)
Definition dec_at (ax : nat) (sh : list nat) : list nat := upd_at pred ax sh.
Definition bump_at (ax k : nat) (b : list nat) : list nat := upd_at (fun x => if x <? k then x else S x) ax b.
Definition adelete (a : arr) (k ax : nat) : option arr :=
  if (ax <? length (shape a)) && (k <? nth ax (shape a) 0)
  then Some (tab (dec_at ax (shape a)) (fun b => get a (bump_at ax k b)))
  else None.                         (* numpy: AxisError / IndexError *)

(* numpy axis normalisation: negative axes count from the end; out of range is an error *)
Definition norm_axis (ax : Z) (nd : nat) : option nat :=
  if ((- Z.of_nat nd <=? ax) && (ax <? Z.of_nat nd))%Z
  then Some (Z.to_nat (if (ax <? 0)%Z then (ax + Z.of_nat nd)%Z else ax))
  else None.

(* Player.delete_action(action, player_idx) *)
Definition player_delete_action (p : arr) (action : nat) (player_idx : Z) : option arr :=
  match norm_axis player_idx (length (shape p)) with
  | Some ax => adelete p action ax
  | None => None
  end.

Fixpoint all_some {A} (l : list (option A)) : option (list A) :=
  match l with
  | [] => Some []
  | Some x :: r => match all_some r with Some r' => Some (x :: r') | None => None end
  | None :: _ => None
  end.

(* NormalFormGame.delete_action(player_idx, action) *)
Definition nfg_delete_action (g : game) (player_idx : Z) (action : nat) : option game :=
  let N := Z.of_nat (length g) in
  let pidx := if ((- N <=? player_idx) && (player_idx <? 0))%Z then (player_idx + N)%Z else player_idx in
  match all_some (map (fun i => player_delete_action (player g i) action (pidx - Z.of_nat i)%Z)
                      (seq 0 (length g))) with
  | Some ps => nfg_of_players ps
  | None => None
  end.

(* ------------------------------------------------------------ GAM format (token order only) *)
(* a.ravel(order='F') *)
Definition ravelF (a : arr) : list T :=
  map (fun b => get a (rev b)) (indices (rev (shape a))).
(* v.reshape(sh, order='F') *)
Definition reshapeF (sh : list nat) (v : list T) : arr :=
  tab sh (fun a => nth (ravel (rev sh) (rev a)) v d).

(* GAMWriter._dump: "N", the action counts, then for each player i the payoffs
   player.payoff_array.transpose(( *range(N-i,N), *range(N-i))).ravel(order='F') *)
Definition gam_dump (g : game) : nat * list nat * list T :=
  let N := length g in
  (N, nums_actions g,
   flat_map (fun i => ravelF (transpose_cyc (N - i) (player g i))) (seq 0 N)).

(* GAMReader._parse on the token stream (N, nums_actions, payoffs) *)
Definition gam_parse (t : nat * list nat * list T) : option game :=
  let '(N, nums, pay) := t in
  let na := size nums in
  if negb (length pay =? N * na) || negb (length nums =? N) then None else
  nfg_of_players
    (map (fun i => transpose_cyc i (reshapeF nums (firstn na (skipn (i * na) pay)))) (seq 0 N)).

End Arrays.

Arguments arr : clear implicits.
Arguments game : clear implicits.

(* ------------------------------------------------------------ numerical part *)
Section Numeric.
Context {T : Type} {NT : Num T}.
Let d : T := nzero.

Inductive action := Pure (a : nat) | Mixed (p : list T).

Fixpoint nsum (l : list T) : T :=
  match l with [] => nzero | x :: r => nadd x (nsum r) end.
Fixpoint map2 {A B C} (f : A -> B -> C) (a : list A) (b : list B) : list C :=
  match a, b with
  | x :: a', y :: b' => f x y :: map2 f a' b'
  | _, _ => []
  end.
Definition dot (xs ps : list T) : T := nsum (map2 nmul xs ps).

(* reduce_last_player(payoff_array, action): take(action, axis=-1) or dot(action) *)
Definition reduce_last (P : arr T) (act : action) : arr T :=
  let sh := removelast (shape P) in
  let n := last (shape P) 0 in
  match act with
  | Pure a => tab sh (fun b => get d P (b ++ [a]))
  | Mixed p => tab sh (fun b => dot (map (fun j => get d P (b ++ [j])) (seq 0 n)) p)
  end.

(* Player.payoff_vector(opponents_actions); for one opponent the code receives the
   bare action, represented here as a one-element list *)
Definition payoff_vector (P : arr T) (acts : list action) : arr T :=
  match length (shape P) - 1 with
  | 0 => P
  | 1 => reduce_last P (nth 0 acts (Pure 0))
  | S (S _ as m) as nopp => fold_left reduce_last (rev (firstn nopp acts)) P
  end.

Definition vmax (l : list T) : T :=
  fold_left (fun m x => if nltb m x then x else m) (tl l) (hd d l).

Definition add_pert (pv : list T) (pert : option (list T)) : list T :=
  match pert with None => pv | Some e => map2 nadd pv e end.

(* np.where(payoff_vector >= payoff_vector.max() - tol)[0] *)
Definition best_responses (P : arr T) (acts : list action) (pert : option (list T)) (tol : T) : list nat :=
  let pv := add_pert (adata (payoff_vector P acts)) pert in
  let thr := nsub (vmax pv) tol in
  filter (fun j => nleb thr (nth j pv d)) (seq 0 (length pv)).
(* tie_breaking='smallest' *)
Definition best_response (P : arr T) (acts : list action) (pert : option (list T)) (tol : T) : nat :=
  hd 0 (best_responses P acts pert tol).

Definition is_best_response (P : arr T) (own : action) (acts : list action) (tol : T) : bool :=
  let pv := adata (payoff_vector P acts) in
  let thr := nsub (vmax pv) tol in
  match own with
  | Pure a => nleb thr (nth a pv d)
  | Mixed p => nleb thr (dot p pv)
  end.

(* NormalFormGame.is_nash(action_profile, tol) *)
Definition is_nash (g : game T) (prof : list action) (tol : T) : bool :=
  let N := length g in
  match N with
  | 2 => forallb (fun i => is_best_response (player g i) (nth i prof (Pure 0)) [nth (1 - i) prof (Pure 0)] tol)
                 (seq 0 N)
  | S (S (S _)) => forallb (fun i => is_best_response (player g i) (nth i prof (Pure 0))
                                       (skipn (i + 1) prof ++ firstn i prof) tol) (seq 0 N)
  | _ => is_best_response (player g 0) (nth 0 prof (Pure 0)) [] tol
  end.

(* is_dominated for a player without opponents: payoff_array.max() > payoff_array[action] + tol *)
Definition is_dominated_0 (P : arr T) (a : nat) (tol : T) : bool :=
  nltb (nadd (nth a (adata P) d) tol) (vmax (adata P)).

(* sufficient condition for is_dominated (>= 1 opponent): another PURE action k with
   P[k, b] - P[a, b] > tol for every opponent profile b (the LP value is then > tol) *)
Definition rows (P : arr T) : list (list T) :=
  let n := hd 0 (shape P) in
  let w := size (tl (shape P)) in
  map (fun k => firstn w (skipn (k * w) (adata P))) (seq 0 n).
Definition dominated_by_pure (P : arr T) (a : nat) (tol : T) : bool :=
  let rs := rows P in
  let ra := nth a rs [] in
  existsb (fun k => negb (k =? a) &&
                    forallb (fun xy => nltb tol (nsub (fst xy) (snd xy))) (combine (nth k rs []) ra))
          (seq 0 (length rs)).
(* necessary condition: if a is a best response (tol) to some pure opponent profile b
   among the given ones by a margin, it cannot be dominated: exists b, forall k, P[a,b] >= P[k,b] - tol... *)
Definition never_worse_somewhere (P : arr T) (a : nat) (tol : T) : bool :=
  let rs := rows P in
  let ra := nth a rs [] in
  existsb (fun j => forallb (fun k => nleb (nsub (nth j (nth k rs []) d) (nth j ra d)) tol) (seq 0 (length rs)))
          (seq 0 (length ra)).

(* ------------------------------------------------------------ polymatrix *)
(* pm[i][p] : matrix (shape [n_i; n_p]) of head-to-head payoffs of i against p (entry i=p unused).
   get_player(i): payoff_array[b] = sum_j pm[i][opps_j][b_0, b_{j+1}], opps = (i+1..N-1, 0..i-1),
   summed left to right starting from 0 (python sum) *)
Definition poly_player (nums : list nat) (pm : list (list (arr T))) (i : nat) : arr T :=
  let N := length nums in
  let opps := tl (rotl i (seq 0 N)) in
  tab (rotl i nums)
      (fun b => fold_left nadd
                  (map (fun j => get d (nth (nth j opps 0) (nth i pm []) (dummy (T:=T))) [hd 0 b; nth (S j) b 0])
                       (seq 0 (N - 1))) nzero).
Definition poly_to_nfg (nums : list nat) (pm : list (list (arr T))) : option (game T) :=
  nfg_of_players (map (poly_player nums pm) (seq 0 (length nums))).

End Numeric.

Arguments action : clear implicits.

(* ------------------------------------------------------------ call sequences *)
Section Ops.
Context {T : Type} {NT : Num T}.
Let d : T := nzero.

Inductive op :=
| OSet (a : list nat) (v : list T)              (* g[a] = v *)
| ODel (player_idx : Z) (action : nat)          (* g = g.delete_action(player_idx, action) *)
| OGam                                          (* g = from_gam(to_gam(g)) (token level) *)
| OPlayers                                      (* g = NormalFormGame(g.players) *)
| OProfile                                      (* g = NormalFormGame(g.payoff_profile_array) *)
| OPoly (pm : list (list (arr T))).             (* g = PolymatrixGame.from_nf(g).to_nfg(), from_nf's output given *)

Definition step (g : game T) (o : op) : option (game T) :=
  match o with
  | OSet a v => Some (nfg_setitem d g a v)
  | ODel p k => nfg_delete_action d g p k
  | OGam => gam_parse d (gam_dump d g)
  | OPlayers => nfg_of_players g
  | OProfile => players_of_profile d (profile_of_players d g)
  | OPoly pm => poly_to_nfg (nums_actions g) pm
  end.

(* states after each call; None once a call is rejected *)
Fixpoint run_ops (g : game T) (ops : list op) : list (option (game T)) :=
  match ops with
  | [] => []
  | o :: r => match step g o with
              | Some g' => Some g' :: run_ops g' r
              | None => [None]
              end
  end.
End Ops.
Arguments op : clear implicits.

(* C14 proofs, part 2: delete_action (axis arithmetic), consistency check, GAM token round trip. *)
From Coq Require Import ZArith List Bool Arith Lia.
From QE Require Import Base.Num C14.Model C14.Proofs.
Import ListNotations.

(* ------------------------------------------------------------------ upd_at *)
Lemma length_upd_at f : forall ax l, length (upd_at f ax l) = length l.
Proof. intros ax l. revert ax. induction l; intros [|ax]; cbn; auto. Qed.

Lemma upd_at_app_l f : forall p x y, p < length x -> upd_at f p (x ++ y) = upd_at f p x ++ y.
Proof. intros p x. revert p. induction x; intros [|p] y H; cbn in *; try lia; auto. f_equal. apply IHx. lia. Qed.

Lemma upd_at_app_r f : forall p x y, length x <= p -> upd_at f p (x ++ y) = x ++ upd_at f (p - length x) y.
Proof.
  intros p x. revert p. induction x; intros p y H; cbn in *; [now rewrite Nat.sub_0_r|].
  destruct p; [lia|]. cbn. f_equal. apply IHx. lia.
Qed.

Lemma upd_at_nil f ax : upd_at f ax [] = [].
Proof. destruct ax; reflexivity. Qed.

Lemma skipn_upd_at_ge f : forall i j l, i <= j -> skipn i (upd_at f j l) = upd_at f (j - i) (skipn i l).
Proof.
  induction i; intros j l H; cbn [skipn]; [now rewrite Nat.sub_0_r|].
  destruct l as [|x l]; [now rewrite !upd_at_nil|]. destruct j; [lia|]. cbn. apply IHi. lia.
Qed.
Lemma skipn_upd_at_lt f : forall i j l, j < i -> skipn i (upd_at f j l) = skipn i l.
Proof.
  induction i; intros j l H; [lia|]. destruct l as [|x l]; [now rewrite upd_at_nil|].
  destruct j; cbn; auto. apply IHi. lia.
Qed.
Lemma firstn_upd_at_lt f : forall i j l, j < i -> firstn i (upd_at f j l) = upd_at f j (firstn i l).
Proof.
  induction i; intros j l H; [lia|]. destruct l as [|x l]; [now rewrite !upd_at_nil|].
  destruct j; cbn; auto. f_equal. apply IHi. lia.
Qed.
Lemma firstn_upd_at_ge f : forall i j l, i <= j -> firstn i (upd_at f j l) = firstn i l.
Proof.
  induction i; intros j l H; cbn [firstn]; auto. destruct l as [|x l]; [now rewrite upd_at_nil|].
  destruct j; [lia|]. cbn. f_equal. apply IHi. lia.
Qed.

Lemma nth_skipn_add {A} : forall i n (l : list A) dd, nth n (skipn i l) dd = nth (i + n) l dd.
Proof. induction i; intros n [|x l] dd; cbn; auto. destruct n; reflexivity. Qed.
Lemma nth_firstn_lt {A} : forall i n (l : list A) dd, n < i -> nth n (firstn i l) dd = nth n l dd.
Proof. induction i; intros n [|x l] dd H; cbn; try lia; auto. destruct n; auto. apply IHi. lia. Qed.

Definition rot_axis (N i j : nat) : nat := if i <=? j then j - i else j + N - i.

Lemma upd_at_rotl f i j l : i <= length l -> j < length l ->
  rotl i (upd_at f j l) = upd_at f (rot_axis (length l) i j) (rotl i l).
Proof.
  intros Hi Hj. unfold rotl, rot_axis. destruct (Nat.leb_spec i j).
  - rewrite skipn_upd_at_ge, firstn_upd_at_ge by assumption.
    rewrite upd_at_app_l by (rewrite skipn_length; lia). reflexivity.
  - rewrite skipn_upd_at_lt, firstn_upd_at_lt by assumption.
    rewrite upd_at_app_r by (rewrite skipn_length; lia). rewrite skipn_length.
    replace (j + length l - i - (length l - i)) with j by lia. reflexivity.
Qed.

Lemma inr_bump k : forall j sh b, inr (dec_at j sh) b -> inr sh (bump_at j k b).
Proof.
  intros j sh. revert j. induction sh as [|n sh IH]; intros j b H.
  - destruct j; cbn in H; inversion H; constructor.
  - destruct j; unfold dec_at in H; cbn [upd_at] in H; inversion H as [|x y t s Hx Ht]; subst; unfold bump_at; cbn [upd_at].
    + constructor; [|assumption]. destruct (Nat.ltb_spec x k); lia.
    + constructor; [assumption|]. apply IH. exact Ht.
Qed.

Lemma nth_upd_at f : forall j l dd, j < length l -> nth j (upd_at f j l) dd = f (nth j l dd).
Proof. induction j; intros [|x l] dd H; cbn in *; try lia; auto. apply IHj. lia. Qed.

(* ------------------------------------------------------------------ all_some *)
Lemma all_some_map {A B} (F : A -> option B) : forall l ps, all_some (map F l) = Some ps ->
  length ps = length l /\ forall i da db, i < length l -> F (nth i l da) = Some (nth i ps db).
Proof.
  induction l as [|x l IH]; intros ps E; cbn in E.
  - injection E as <-. split; [reflexivity|]. intros; cbn in *; lia.
  - destruct (F x) eqn:Fx; [|discriminate]. destruct (all_some (map F l)) eqn:El; [|discriminate].
    injection E as <-. destruct (IH _ eq_refl) as [Hl Hn]. split; [cbn; now rewrite Hl|].
    intros [|i] da db Hi; cbn in *; [assumption|]. apply Hn. lia.
Qed.

Lemma all_some_map_some {A B} (F : A -> option B) (G : A -> B) : forall l,
  (forall x, In x l -> F x = Some (G x)) -> all_some (map F l) = Some (map G l).
Proof.
  induction l as [|x l IH]; intros Hx; [reflexivity|]. cbn [map all_some].
  rewrite (Hx x (or_introl eq_refl)), IH; [reflexivity|]. intros y Hy. apply Hx. now right.
Qed.

Section Delete.
Context {T : Type}.
Variable d : T.

Lemma norm_axis_rot N i j : i < N -> j < N ->
  norm_axis (Z.of_nat j - Z.of_nat i) N = Some (rot_axis N i j).
Proof.
  intros Hi Hj. unfold norm_axis, rot_axis.
  destruct (Z.leb_spec (- Z.of_nat N) (Z.of_nat j - Z.of_nat i)); [|lia].
  destruct (Z.ltb_spec (Z.of_nat j - Z.of_nat i) (Z.of_nat N)); [|lia]. cbn [andb]. f_equal.
  destruct (Z.ltb_spec (Z.of_nat j - Z.of_nat i) 0); destruct (Nat.leb_spec i j); lia.
Qed.

Theorem delete_action_spec (g : game T) nums j k pidx g' :
  consistent g nums -> j < length nums ->
  pidx = Z.of_nat j \/ pidx = (Z.of_nat j - Z.of_nat (length nums))%Z ->
  nfg_delete_action d g pidx k = Some g' ->
  consistent g' (dec_at j nums) /\
  forall a' i, inr (dec_at j nums) a' -> i < length nums ->
    payoff d g' a' i = payoff d g (bump_at j k a') i.
Proof.
  intros Hc Hj Hp E. destruct Hc as [Hl [Hpos H]].
  unfold nfg_delete_action in E. rewrite Hl in E.
  set (N := length nums) in *.
  assert (Ep : (if ((- Z.of_nat N <=? pidx) && (pidx <? 0))%Z then (pidx + Z.of_nat N)%Z else pidx) = Z.of_nat j).
  { destruct Hp as [-> | ->].
    - destruct (Z.ltb_spec (Z.of_nat j) 0); [lia|]. now rewrite andb_false_r.
    - destruct (Z.leb_spec (- Z.of_nat N) (Z.of_nat j - Z.of_nat N)); [|lia].
      destruct (Z.ltb_spec (Z.of_nat j - Z.of_nat N) 0); [|lia]. cbn [andb]. lia. }
  rewrite Ep in E. clear Ep.
  destruct (all_some _) as [ps|] eqn:Eps; [|discriminate].
  unfold nfg_of_players in E. destruct (consistentb ps); [|discriminate]. injection E as <-.
  apply all_some_map in Eps. destruct Eps as [Hlp Hn]. rewrite seq_length in Hlp, Hn.
  assert (Hpl : forall i, i < N ->
            player ps i = tab (rotl i (dec_at j nums))
                              (fun b => get d (player g i) (bump_at (rot_axis N i j) k b))).
  { intros i Hi. specialize (Hn i 0 dummy Hi). rewrite seq_nth in Hn by assumption. cbn [plus] in Hn.
    unfold player_delete_action in Hn. destruct (H i Hi) as [Es _].
    rewrite Es, length_rotl in Hn. fold N in Hn. rewrite norm_axis_rot in Hn by assumption.
    unfold adelete in Hn. destruct (_ && _); [|discriminate]. injection Hn as Hn.
    unfold player. rewrite <- Hn. rewrite Es. unfold dec_at. f_equal.
    rewrite upd_at_rotl by (fold N; lia). reflexivity. }
  split.
  - assert (Hld : length (dec_at j nums) = N) by (unfold dec_at; apply length_upd_at).
    unfold consistent. rewrite Hld. split; [lia|]. split; [lia|].
    intros i Hi. rewrite Hpl by assumption. split; [reflexivity | apply wf_tab].
  - intros a' i Ha Hi. unfold payoff. rewrite Hpl by assumption.
    assert (Hla : length a' = N) by (rewrite (inr_length _ _ Ha); unfold dec_at; apply length_upd_at).
    rewrite get_tab by now apply inr_rotl.
    f_equal. unfold bump_at. rewrite <- Hla. rewrite upd_at_rotl by lia. reflexivity.
Qed.

(* ------------------------------------------------------------------ the constructor's consistency test *)
Lemma consistentb_spec (g : game T) :
  consistentb g = true <-> (consistent g (shape (player g 0)) /\ size (shape (player g 0)) <> 0).
Proof.
  unfold consistentb, consistent. rewrite !andb_true_iff, negb_true_iff, Nat.ltb_lt, Nat.eqb_eq, Nat.eqb_neq, forallb_forall.
  split.
  - intros [[[Hp Hl] Hf] Hs]. split; [|assumption]. rewrite Hl. repeat split; auto; intros;
      specialize (Hf i); rewrite in_seq, andb_true_iff, nats_eq_iff in Hf; try (apply Hf; lia).
    unfold wf. apply Nat.eqb_eq. apply Hf. lia.
  - intros [[Hl [Hp Hf]] Hs]. rewrite <- Hl in *. repeat split; auto.
    intros i Hi. apply in_seq in Hi. destruct (Hf i) as [Es Hw]; [lia|].
    apply andb_true_iff. split; [now apply nats_eq_iff | now apply Nat.eqb_eq].
Qed.

Lemma consistent_nfg_of_players (g : game T) nums :
  consistent g nums -> size nums <> 0 -> nfg_of_players g = Some g.
Proof.
  intros Hc Hs. unfold nfg_of_players. pose proof (consistent_shape0 g nums Hc) as E0.
  assert (consistentb g = true) by (apply consistentb_spec; rewrite E0; auto). now rewrite H.
Qed.

(* delete_action succeeds exactly when the constructor accepts the result: every player keeps an action *)
Theorem delete_action_succeeds (g : game T) nums j k :
  consistent g nums -> j < length nums -> k < nth j nums 0 -> size (dec_at j nums) <> 0 ->
  exists g', nfg_delete_action d g (Z.of_nat j) k = Some g'.
Proof.
  intros Hc Hj Hk Hs. destruct Hc as [Hl [Hpos H]].
  set (N := length nums) in *.
  set (ps := map (fun i => tab (rotl i (dec_at j nums))
                              (fun b => get d (player g i) (bump_at (rot_axis N i j) k b))) (seq 0 N)).
  assert (Hps : consistent ps (dec_at j nums)).
  { assert (Hld : length (dec_at j nums) = N) by (unfold dec_at; apply length_upd_at).
    unfold consistent, ps. rewrite map_length, seq_length, Hld. split; [lia|]. split; [lia|].
    intros i Hi. rewrite player_map by assumption. split; [reflexivity | apply wf_tab]. }
  exists ps. unfold nfg_delete_action. rewrite Hl. fold N.
  destruct (Z.ltb_spec (Z.of_nat j) 0); [lia|]. rewrite andb_false_r.
  assert (Eall : all_some (map (fun i => player_delete_action d (player g i) k (Z.of_nat j - Z.of_nat i)) (seq 0 N)) = Some ps).
  { unfold ps. apply all_some_map_some. intros i Hin. apply in_seq in Hin.
    assert (Hi : i < N) by lia.
    destruct (H i Hi) as [Es _]. unfold player_delete_action. rewrite Es, length_rotl. fold N.
    rewrite norm_axis_rot by assumption. unfold adelete. rewrite Es, length_rotl. fold N.
    assert (Hax : rot_axis N i j < N) by (unfold rot_axis; destruct (Nat.leb_spec i j); lia).
    assert (Hnth : nth (rot_axis N i j) (rotl i nums) 0 = nth j nums 0).
    { unfold rotl, rot_axis. destruct (Nat.leb_spec i j).
      - rewrite app_nth1 by (rewrite skipn_length; fold N; lia). rewrite nth_skipn_add. f_equal. lia.
      - rewrite app_nth2 by (rewrite skipn_length; fold N; lia). rewrite skipn_length. fold N.
        rewrite nth_firstn_lt by lia. f_equal. lia. }
    rewrite Hnth. destruct (Nat.ltb_spec (rot_axis N i j) N); [|lia]. destruct (Nat.ltb_spec k (nth j nums 0)); [|lia].
    cbn [andb]. f_equal. f_equal. unfold dec_at. rewrite upd_at_rotl by (fold N; lia). reflexivity. }
  rewrite Eall. now apply consistent_nfg_of_players with (nums := dec_at j nums).
Qed.
End Delete.

(* ------------------------------------------------------------------ GAM token round trip *)
Lemma size_cons n l : size (n :: l) = n * size l.
Proof. reflexivity. Qed.
Lemma size_app a b : size (a ++ b) = size a * size b.
Proof. induction a as [|x a IH]; [cbn [app]; change (size []) with 1; lia|]. rewrite <- app_comm_cons, !size_cons, IH. lia. Qed.
Lemma size_rev l : size (rev l) = size l.
Proof. induction l; cbn [rev]; [reflexivity|]. rewrite size_app, IHl, !size_cons. change (size []) with 1. lia. Qed.
Lemma inr_rev sh a : inr sh a -> inr (rev sh) (rev a).
Proof. induction 1; cbn; [constructor|]. apply inr_app; [assumption | repeat constructor; assumption]. Qed.

Lemma length_flat_map_uniform {A} (g : nat -> list A) L : (forall j, length (g j) = L) ->
  forall n s, length (flat_map g (seq s n)) = n * L.
Proof. intros HL. induction n; intros s; cbn [seq flat_map]; [reflexivity|]. rewrite app_length, HL, IHn. reflexivity. Qed.

Lemma skipn_app_add {A} (x y : list A) k : skipn (length x + k) (x ++ y) = skipn k y.
Proof. induction x; cbn; auto. Qed.

Lemma block_flat_map_uniform {A} (g : nat -> list A) L : (forall j, length (g j) = L) ->
  forall n s i, i < n -> firstn L (skipn (i * L) (flat_map g (seq s n))) = g (s + i).
Proof.
  intros HL. induction n; intros s i Hi; [lia|]. cbn [seq flat_map]. destruct i.
  - cbn [Nat.mul skipn]. rewrite Nat.add_0_r. now apply firstn_app_exact.
  - replace (S i * L) with (length (g s) + i * L) by (rewrite HL; lia).
    rewrite skipn_app_add, IHn by lia. f_equal. lia.
Qed.

Lemma hd_skipn_app {A} dd : forall i (l y : list A), i < length l -> hd dd (skipn i l ++ y) = nth i l dd.
Proof. induction i; intros [|x l] y H; cbn in *; try lia; auto. apply IHi. lia. Qed.
Lemma hd_rotl {A} i (l : list A) dd : i < length l -> hd dd (rotl i l) = nth i l dd.
Proof. intros Hi. unfold rotl. now apply hd_skipn_app. Qed.

Section Gam.
Context {T : Type}.
Variable d : T.

Lemma nums_actions_consistent (g : game T) nums : consistent g nums -> nums_actions g = nums.
Proof.
  intros [Hl [Hp H]]. unfold nums_actions.
  rewrite (map_seq_ext_nth nums (fun i => nth i nums 0) 0 (length nums) eq_refl) by reflexivity.
  rewrite (game_ext g (player g) (length nums) Hl) at 1 by reflexivity.
  rewrite map_map. apply map_ext_in. intros i Hi. apply in_seq in Hi.
  destruct (H i) as [Es _]; [lia|]. rewrite Es. apply hd_rotl. lia.
Qed.

Lemma length_ravelF (a : arr T) : length (ravelF d a) = size (shape a).
Proof. unfold ravelF. now rewrite map_length, length_indices, size_rev. Qed.

Theorem gam_roundtrip (g : game T) nums :
  consistent g nums -> size nums <> 0 -> gam_parse d (gam_dump d g) = Some g.
Proof.
  intros Hc Hs. pose proof Hc as [Hl [Hp H]]. unfold gam_dump, gam_parse.
  rewrite (nums_actions_consistent g nums Hc), Hl.
  set (N := length nums). set (blk := fun i => ravelF d (transpose_cyc d (N - i) (player g i))).
  assert (Hsh : forall i, i < N -> shape (transpose_cyc d (N - i) (player g i)) = nums).
  { intros i Hi. unfold transpose_cyc. cbn [shape tab fst]. destruct (H i Hi) as [Es _]. rewrite Es.
    apply rotl_compl. fold N. lia. }
  assert (Hblk : forall j, length (match Nat.ltb j N with true => blk j | false => repeat d (size nums) end) = size nums).
  { intros j. destruct (Nat.ltb_spec j N); [|apply repeat_length]. unfold blk. now rewrite length_ravelF, Hsh. }
  assert (Efm : flat_map blk (seq 0 N) =
                flat_map (fun j => match Nat.ltb j N with true => blk j | false => repeat d (size nums) end) (seq 0 N)).
  { rewrite !flat_map_concat_map. f_equal. apply map_ext_in. intros j Hj. apply in_seq in Hj.
    destruct (Nat.ltb_spec j N); [reflexivity|lia]. }
  fold blk. rewrite Efm.
  rewrite (length_flat_map_uniform _ (size nums) Hblk), !Nat.eqb_refl. cbn [negb orb].
  assert (Eg : map (fun i => transpose_cyc d i (reshapeF d nums
                 (firstn (size nums) (skipn (i * size nums)
                    (flat_map (fun j => if j <? N then blk j else repeat d (size nums)) (seq 0 N)))))) (seq 0 N) = g).
  { symmetry. apply game_ext; [assumption|]. intros i Hi.
    rewrite (block_flat_map_uniform _ (size nums) Hblk) by assumption. cbn [plus].
    destruct (Nat.ltb_spec i N); [|lia]. destruct (H i Hi) as [Es Hw].
    apply arr_ext with (d := d); [assumption | apply wf_tab | |].
    - unfold transpose_cyc, reshapeF. cbn [shape tab fst]. assumption.
    - intros b Hb. rewrite Es in Hb.
      assert (Hlb : length b = N) by (rewrite (inr_length _ _ Hb); apply length_rotl).
      assert (Hrb : inr nums (rotr i b)).
      { replace nums with (rotr i (rotl i nums)) by (apply rotr_rotl; fold N; lia). now apply inr_rotr. }
      rewrite get_transpose_cyc; [| unfold reshapeF; cbn [shape tab fst]; fold N; lia
                                   | unfold reshapeF; cbn [shape tab fst]; assumption].
      unfold reshapeF. rewrite get_tab by assumption.
      unfold blk, ravelF. rewrite Hsh by assumption.
      rewrite nth_map_in with (d := []) by (rewrite length_indices; apply ravel_lt; now apply inr_rev).
      rewrite nth_indices by now apply inr_rev. rewrite rev_involutive.
      rewrite get_transpose_cyc.
      + f_equal. replace N with (length (rotr i b)) by (unfold rotr; rewrite length_rotl; assumption).
        rewrite rotr_compl by (unfold rotr; rewrite length_rotl; lia).
        symmetry. apply rotl_rotr. lia.
      + rewrite Es, length_rotl. fold N. lia.
      + rewrite Es. unfold N. rewrite rotl_compl by (fold N; lia). assumption. }
  rewrite Eg. now apply consistent_nfg_of_players with (nums := nums).
Qed.
End Gam.

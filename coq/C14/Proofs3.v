(* C14 proofs, part 3 (exact instance NumQ): payoff_vector is the multilinear expectation,
   best_response / is_best_response / is_nash agree with their definitions. *)
From Coq Require Import ZArith QArith List Bool Arith Lia Lqa Setoid.
From QE Require Import Base.Num C14.Model C14.Proofs C14.Proofs2.
Import ListNotations.
Local Open Scope Q_scope.

(* ------------------------------------------------------------------ finite sums over lists *)
Fixpoint sumQl (l : list Q) : Q := match l with [] => 0 | x :: r => x + sumQl r end.
Definition sumN (n : nat) (F : nat -> Q) : Q := sumQl (map F (seq 0 n)).

Lemma nsum_eq (l : list Q) : nsum l == sumQl l.
Proof. induction l; cbn [nsum sumQl]; [reflexivity|]. change (nadd a (nsum l)) with (Qaddr a (nsum l)). now rewrite Qaddr_eq, IHl. Qed.

Lemma sumQl_ext {A} (f g : A -> Q) l : (forall x, In x l -> f x == g x) -> sumQl (map f l) == sumQl (map g l).
Proof.
  induction l as [|x l IH]; intros H; cbn [map sumQl]; [reflexivity|].
  rewrite (H x (or_introl eq_refl)), IH; [reflexivity|]. intros y Hy. apply H. now right.
Qed.
Lemma sumQl_app a b : sumQl (a ++ b) == sumQl a + sumQl b.
Proof. induction a; cbn [app sumQl]; [ring|]. rewrite IHa. ring. Qed.
Lemma sumQl_scale {A} c (f : A -> Q) l : sumQl (map (fun x => c * f x) l) == c * sumQl (map f l).
Proof. induction l; cbn [map sumQl]; [ring|]. rewrite IHl. ring. Qed.
Lemma sumQl_flat_map {A B} (G : B -> Q) (h : A -> list B) l :
  sumQl (map G (flat_map h l)) == sumQl (map (fun j => sumQl (map G (h j))) l).
Proof. induction l; cbn [flat_map map sumQl]; [reflexivity|]. now rewrite map_app, sumQl_app, IHl. Qed.
Lemma sumQl_zero {A} (f : A -> Q) l : (forall x, In x l -> f x == 0) -> sumQl (map f l) == 0.
Proof. induction l; intros H; cbn [map sumQl]; [reflexivity|]. rewrite (H a (or_introl eq_refl)), IHl; [ring|]. intros; apply H; now right. Qed.

(* sum of an indicator *)
Lemma sumQl_indicator (F : nat -> Q) a : forall n s, (s <= a < s + n)%nat ->
  sumQl (map (fun j => (if Nat.eqb j a then 1 else 0) * F j) (seq s n)) == F a.
Proof.
  induction n; intros s H; [lia|]. cbn [seq map sumQl]. destruct (Nat.eqb_spec s a).
  - subst. rewrite sumQl_zero; [ring|]. intros x Hx. apply in_seq in Hx.
    destruct (Nat.eqb_spec x a); [lia|ring].
  - rewrite IHn by lia. ring.
Qed.

Lemma dot_eq (xs ps : list Q) : dot xs ps == sumQl (map2 Qmult xs ps).
Proof.
  unfold dot. rewrite nsum_eq. revert ps. induction xs as [|x xs IH]; intros [|p ps]; cbn [map2 sumQl]; try reflexivity.
  change (nmul x p) with (Qmulr x p). now rewrite Qmulr_eq, IH.
Qed.

Lemma map2_map_seq (f : nat -> Q) : forall n s (p : list Q), length p = n ->
  sumQl (map2 Qmult (map f (seq s n)) p) == sumQl (map (fun j => nth (j - s) p 0 * f j) (seq s n)).
Proof.
  induction n; intros s [|x p] H; cbn [length] in H; try lia; cbn [seq map map2 sumQl]; [reflexivity|].
  rewrite Nat.sub_diag. change (nth 0 (x :: p) 0) with x. rewrite IHn by lia.
  rewrite (sumQl_ext (fun j => nth (j - S s) p 0 * f j) (fun j => nth (j - s) (x :: p) 0 * f j)).
  - ring.
  - intros j Hj. apply in_seq in Hj. replace (j - s)%nat with (S (j - S s)) by lia. reflexivity.
Qed.

Lemma Forall2_length {A B} (R : A -> B -> Prop) l1 l2 : Forall2 R l1 l2 -> length l1 = length l2.
Proof. induction 1; cbn; congruence. Qed.

(* ------------------------------------------------------------------ weights and expectations *)
Notation actionQ := (action Q).
Notation arrQ := (arr Q).

Definition weight (act : actionQ) (j : nat) : Q :=
  match act with Pure a => if Nat.eqb j a then 1 else 0 | Mixed p => nth j p 0 end.
Definition act_ok (act : actionQ) (n : nat) : Prop :=
  match act with Pure a => (a < n)%nat | Mixed p => length p = n end.

Fixpoint wprod (acts : list actionQ) (b : list nat) : Q :=
  match acts, b with
  | act :: acts', j :: b' => weight act j * wprod acts' b'
  | _, _ => 1
  end.

(* nested form of the multilinear expectation *)
Fixpoint expect (acts : list actionQ) (sh : list nat) (F : list nat -> Q) : Q :=
  match acts, sh with
  | act :: acts', n :: sh' => sumN n (fun j => weight act j * expect acts' sh' (fun b => F (j :: b)))
  | _, _ => F []
  end.

Lemma expect_ext acts : forall sh F G, (forall b, F b == G b) -> expect acts sh F == expect acts sh G.
Proof.
  induction acts as [|act acts IH]; intros sh F G H; [apply H|].
  destruct sh as [|n sh]; [apply H|]. cbn [expect]. unfold sumN. apply sumQl_ext.
  intros j Hj. rewrite (IH sh (fun b => F (j :: b)) (fun b => G (j :: b))); [reflexivity|].
  intros b. apply H.
Qed.

(* flat form: sum over all opponent profiles of the product of the weights *)
Lemma expect_flat acts : forall sh F, length acts = length sh ->
  expect acts sh F == sumQl (map (fun b => wprod acts b * F b) (indices sh)).
Proof.
  induction acts as [|act acts IH]; intros [|n sh] F Hl; cbn in Hl; try lia.
  - cbn [expect indices map wprod sumQl]. ring.
  - cbn [expect indices]. unfold sumN. rewrite sumQl_flat_map. apply sumQl_ext. intros j Hj.
    rewrite map_map. cbn [wprod].
    rewrite (sumQl_ext (fun b => weight act j * wprod acts b * F (j :: b))
                       (fun b => weight act j * (wprod acts b * F (j :: b)))) by (intros; ring).
    rewrite sumQl_scale. rewrite IH by lia. reflexivity.
Qed.

(* all opponents pure: the expectation is the entry *)
Lemma expect_pure : forall bs sh F, inr sh bs -> expect (map (@Pure Q) bs) sh F == F bs.
Proof.
  induction bs as [|b bs IH]; intros sh F H; inversion H as [|x n t sh' Hb Ht]; subst; [reflexivity|].
  cbn [map expect]. unfold sumN.
  rewrite (sumQl_indicator (fun j => expect (map (@Pure Q) bs) sh' (fun c => F (j :: c))) b) by lia.
  now apply IH.
Qed.

(* ------------------------------------------------------------------ reduce_last / payoff_vector *)
Lemma shape_reduce_last (P : arrQ) act : shape (reduce_last P act) = removelast (shape P).
Proof. destruct act; reflexivity. Qed.
Lemma wf_reduce_last (P : arrQ) act : wf (reduce_last P act).
Proof. destruct act; apply wf_tab. Qed.

Lemma get_reduce_last (P : arrQ) act psh n pre : shape P = psh ++ [n] -> act_ok act n -> inr psh pre ->
  get 0 (reduce_last P act) pre == sumN n (fun j => weight act j * get 0 P (pre ++ [j])).
Proof.
  intros Hs Hok Hpre. unfold reduce_last. rewrite Hs, removelast_snoc, last_snoc.
  destruct act as [a|p]; cbn [weight act_ok] in *.
  - change (@nzero Q NumQ) with 0. rewrite get_tab by assumption. unfold sumN.
    now rewrite (sumQl_indicator (fun j => get 0 P (pre ++ [j])) a) by lia.
  - change (@nzero Q NumQ) with 0. rewrite get_tab by assumption. rewrite dot_eq. unfold sumN.
    rewrite map2_map_seq by assumption. apply sumQl_ext. intros j _. now rewrite Nat.sub_0_r.
Qed.

Definition reduce_all (acts : list actionQ) (P : arrQ) : arrQ := fold_left reduce_last (rev acts) P.

Lemma reduce_all_cons act acts P : reduce_all (act :: acts) P = reduce_last (reduce_all acts P) act.
Proof. unfold reduce_all. cbn [rev]. now rewrite fold_left_app. Qed.

Lemma shape_reduce_all acts : forall osh psh P, shape P = psh ++ osh -> length acts = length osh ->
  shape (reduce_all acts P) = psh.
Proof.
  induction acts as [|act acts IH]; intros [|n osh] psh P Hs Hl; cbn in Hl; try lia.
  - now rewrite app_nil_r in Hs.
  - rewrite reduce_all_cons, shape_reduce_last.
    rewrite (IH osh (psh ++ [n]) P) by (rewrite <- ?app_assoc; auto). apply removelast_snoc.
Qed.

Lemma get_reduce_all acts : forall osh psh P pre, shape P = psh ++ osh -> Forall2 act_ok acts osh -> inr psh pre ->
  get 0 (reduce_all acts P) pre == expect acts osh (fun b => get 0 P (pre ++ b)).
Proof.
  induction acts as [|act acts IH]; intros osh psh P pre Hs Hok Hpre; inversion Hok as [|x n t osh' Hx Ht]; subst.
  - cbn [expect]. unfold reduce_all. cbn [rev fold_left]. now rewrite app_nil_r.
  - rewrite reduce_all_cons. cbn [expect].
    assert (Hs' : shape P = (psh ++ [n]) ++ osh') by now rewrite <- app_assoc.
    pose proof (Forall2_length _ _ _ Ht) as Hlen.
    rewrite (get_reduce_last _ act psh n pre (shape_reduce_all acts osh' (psh ++ [n]) P Hs' Hlen) Hx Hpre).
    unfold sumN. apply sumQl_ext. intros j Hj. apply in_seq in Hj.
    rewrite (IH osh' (psh ++ [n]) P (pre ++ [j]) Hs' Ht) by (apply inr_app; [assumption | repeat constructor; lia]).
    rewrite (expect_ext acts osh' (fun b => get 0 P ((pre ++ [j]) ++ b)) (fun b => get 0 P (pre ++ j :: b))); [reflexivity|].
    intros b. now rewrite <- app_assoc.
Qed.

Lemma payoff_vector_reduce_all (P : arrQ) acts n0 osh : shape P = n0 :: osh -> length acts = length osh ->
  payoff_vector P acts = reduce_all acts P.
Proof.
  intros Hs Hl. unfold payoff_vector. rewrite Hs. cbn [length]. rewrite Nat.sub_succ, Nat.sub_0_r, <- Hl.
  destruct acts as [|a1 [|a2 acts]]; cbn [length]; [reflexivity | reflexivity |].
  unfold reduce_all. f_equal. f_equal. apply (firstn_all (a1 :: a2 :: acts)).
Qed.

(* payoff_vector(opponents_actions)[a] = sum over opponent profiles b of prod_j w_j(b_j) * payoff_array[a, b] *)
Theorem payoff_vector_expectation (P : arrQ) acts n0 osh a :
  shape P = n0 :: osh -> Forall2 act_ok acts osh -> (a < n0)%nat ->
  get 0 (payoff_vector P acts) [a] ==
  sumQl (map (fun b => wprod acts b * get 0 P (a :: b)) (indices osh)).
Proof.
  intros Hs Hok Ha. pose proof (Forall2_length _ _ _ Hok) as Hl.
  rewrite (payoff_vector_reduce_all P acts n0 osh Hs Hl).
  rewrite (get_reduce_all acts osh [n0] P [a] Hs Hok) by (repeat constructor; assumption).
  cbn [app]. now apply expect_flat.
Qed.

Lemma payoff_vector_shape (P : arrQ) acts n0 osh : shape P = n0 :: osh -> length acts = length osh ->
  shape (payoff_vector P acts) = [n0].
Proof. intros Hs Hl. rewrite (payoff_vector_reduce_all P acts n0 osh Hs Hl). now apply (shape_reduce_all acts osh [n0]). Qed.

Lemma payoff_vector_pure (P : arrQ) bs n0 osh a : shape P = n0 :: osh -> inr osh bs -> (a < n0)%nat ->
  get 0 (payoff_vector P (map (@Pure Q) bs)) [a] == get 0 P (a :: bs).
Proof.
  intros Hs Hb Ha. assert (Hl : length (map (@Pure Q) bs) = length osh) by (rewrite map_length; now apply inr_length).
  rewrite (payoff_vector_reduce_all P _ n0 osh Hs Hl).
  rewrite (get_reduce_all _ osh [n0] P [a] Hs) by
    (try (repeat constructor; assumption); clear - Hb; induction Hb; cbn; constructor; auto).
  cbn [app]. now apply (expect_pure bs osh (fun b => get 0 P (a :: b))).
Qed.

(* ------------------------------------------------------------------ maximum, best responses *)
Lemma vmax_fold_ge (l : list Q) : forall m,
  m <= fold_left (fun m x => if nltb m x then x else m) l m /\
  (forall x, In x l -> x <= fold_left (fun m x => if nltb m x then x else m) l m) /\
  In (fold_left (fun m x => if nltb m x then x else m) l m) (m :: l).
Proof.
  induction l as [|y l IH]; intros m; cbn [fold_left].
  - repeat split; [lra | intros x [] | now left].
  - change (nltb m y) with (Qltb m y). destruct (Qltb m y) eqn:E.
    + apply Qltb_lt in E. destruct (IH y) as [H1 [H2 H3]]. repeat split.
      * lra.
      * intros x [<-|Hx]; [assumption | now apply H2].
      * destruct H3 as [H3|H3]; [right; left; assumption | right; right; assumption].
    + assert (y <= m).
      { destruct (Qlt_le_dec m y) as [Hlt|Hle]; [|assumption]. apply Qltb_lt in Hlt. congruence. }
      destruct (IH m) as [H1 [H2 H3]]. repeat split.
      * assumption.
      * intros x [<-|Hx]; [lra | now apply H2].
      * destruct H3 as [H3|H3]; [left; assumption | right; right; assumption].
Qed.

Lemma vmax_ge (l : list Q) x : In x l -> x <= vmax l.
Proof.
  unfold vmax. destruct l as [|y l]; [intros []|]. cbn [hd tl]. destruct (vmax_fold_ge l y) as [H1 [H2 _]].
  intros [<-|Hx]; [assumption | now apply H2].
Qed.
Lemma vmax_in (l : list Q) : l <> [] -> In (vmax l) l.
Proof. unfold vmax. destruct l as [|y l]; [congruence|]. intros _. cbn [hd tl]. apply vmax_fold_ge. Qed.

(* "x is within tol of the maximum" says: no entry exceeds x by more than tol *)
Lemma ge_vmax_iff (l : list Q) tol x : l <> [] ->
  (vmax l - tol <= x <-> forall k, (k < length l)%nat -> nth k l 0 - tol <= x).
Proof.
  intros Hne. split.
  - intros H k Hk. pose proof (vmax_ge l (nth k l 0) (nth_In l 0 Hk)). lra.
  - intros H. destruct (In_nth l (vmax l) 0 (vmax_in l Hne)) as [k [Hk Ek]]. specialize (H k Hk). rewrite Ek in H. assumption.
Qed.

Lemma nleb_thr (m tol x : Q) : nleb (nsub m tol) x = true <-> m - tol <= x.
Proof. change (nleb (nsub m tol) x) with (Qle_bool (Qsubr m tol) x). rewrite Qle_bool_iff, Qsubr_eq. reflexivity. Qed.

Lemma hd_filter_seq (f : nat -> bool) : forall n s r rest, filter f (seq s n) = r :: rest ->
  (s <= r < s + n)%nat /\ f r = true /\ forall j, (s <= j < r)%nat -> f j = false.
Proof.
  induction n; intros s r rest E; cbn [seq filter] in E; [discriminate|].
  destruct (f s) eqn:Fs.
  - injection E as <- _. repeat split; try lia; auto.
  - destruct (IHn _ _ _ E) as [H1 [H2 H3]]. repeat split; try lia; auto.
    intros j Hj. destruct (Nat.eq_dec j s); [subst; assumption | apply H3; lia].
Qed.

Section BestResponse.
Variables (P : arrQ) (acts : list actionQ) (tol : Q).
Let pv := adata (payoff_vector P acts).

Lemma best_responses_in j :
  In j (best_responses P acts None tol) <-> (j < length pv)%nat /\ vmax pv - tol <= nth j pv 0.
Proof.
  unfold best_responses. cbn [add_pert]. fold pv. rewrite filter_In, in_seq.
  change (@nzero Q NumQ) with 0. rewrite nleb_thr. intuition lia.
Qed.

(* smallest tie-breaking: the result is the least index whose payoff is within tol of the maximum.
   Guard: tol >= 0 and a non-empty payoff vector (otherwise the code raises IndexError) *)
Theorem best_response_spec : 0 <= tol -> pv <> [] ->
  let r := best_response P acts None tol in
  (r < length pv)%nat /\ vmax pv - tol <= nth r pv 0 /\
  (forall j, (j < r)%nat -> ~ vmax pv - tol <= nth j pv 0) /\
  (forall k, (k < length pv)%nat -> nth k pv 0 - tol <= nth r pv 0).
Proof.
  intros Htol Hne r.
  assert (Hex : exists k, In k (best_responses P acts None tol)).
  { destruct (In_nth pv (vmax pv) 0 (vmax_in pv Hne)) as [k [Hk Ek]]. exists k.
    apply best_responses_in. split; [assumption|]. rewrite Ek. lra. }
  unfold r, best_response. destruct (best_responses P acts None tol) as [|r0 rest] eqn:E.
  - destruct Hex as [k []].
  - cbn [hd]. assert (Hin : In r0 (best_responses P acts None tol)) by (rewrite E; now left).
    apply best_responses_in in Hin. destruct Hin as [H1 H2].
    unfold best_responses in E. cbn [add_pert] in E. fold pv in E. apply hd_filter_seq in E.
    destruct E as [_ [_ H3]]. repeat split; auto.
    + intros j Hj Hc. specialize (H3 j (conj (Nat.le_0_l j) Hj)).
      change (@nzero Q NumQ) with 0 in H3. apply nleb_thr in Hc. congruence.
    + apply (ge_vmax_iff pv tol (nth r0 pv 0) Hne). assumption.
Qed.

Theorem is_best_response_pure a : pv <> [] ->
  (is_best_response P (Pure a) acts tol = true <->
   forall k, (k < length pv)%nat -> nth k pv 0 - tol <= nth a pv 0).
Proof.
  intros Hne. unfold is_best_response. fold pv. change (@nzero Q NumQ) with 0. rewrite nleb_thr.
  now apply ge_vmax_iff.
Qed.

Theorem is_best_response_mixed p : pv <> [] ->
  (is_best_response P (Mixed p) acts tol = true <->
   forall k, (k < length pv)%nat -> nth k pv 0 - tol <= sumQl (map2 Qmult p pv)).
Proof.
  intros Hne. unfold is_best_response. fold pv. rewrite nleb_thr, dot_eq.
  now apply ge_vmax_iff.
Qed.
End BestResponse.

(* ------------------------------------------------------------------ is_nash *)
Definition opponents {A} (i : nat) (prof : list A) : list A := skipn (i + 1) prof ++ firstn i prof.

Theorem is_nash_spec (g : game Q) (prof : list actionQ) tol : (0 < length g)%nat -> length prof = length g ->
  (is_nash g prof tol = true <->
   forall i, (i < length g)%nat ->
     is_best_response (player g i) (nth i prof (Pure 0)) (opponents i prof) tol = true).
Proof.
  intros Hp Hl. unfold is_nash.
  destruct g as [|p0 [|p1 [|p2 g]]]; cbn [length] in *; [lia| | |].
  - destruct prof as [|a0 [|a1 prof]]; cbn [length] in Hl; try lia. split.
    + intros H i Hi. assert (i = 0)%nat by lia. subst. exact H.
    + intros H. apply (H 0%nat). lia.
  - destruct prof as [|a0 [|a1 [|a2 prof]]]; cbn [length] in Hl; try lia.
    rewrite forallb_forall. split.
    + intros H i Hi. specialize (H i). rewrite in_seq in H.
      destruct i as [|[|i]]; [apply H; lia | apply H; lia | lia].
    + intros H i Hi. apply in_seq in Hi. specialize (H i).
      destruct i as [|[|i]]; [apply H; lia | apply H; lia | lia].
  - rewrite forallb_forall. split.
    + intros H i Hi. apply H. apply in_seq. cbn [length]. lia.
    + intros H i Hi. apply in_seq in Hi. apply H. cbn [length] in *. lia.
Qed.

(* ------------------------------------------------------------------ pure profiles: the textbook definition *)
Definition replace_at (i k : nat) (a : list nat) : list nat := upd_at (fun _ => k) i a.

Lemma skipn_cons_nth {A} (dd : A) : forall i l, (i < length l)%nat -> skipn i l = nth i l dd :: skipn (S i) l.
Proof. induction i; intros [|x l] H; cbn in *; try lia; auto. apply IHi. lia. Qed.

Lemma rotl_cons {A} (dd : A) i l : (i < length l)%nat -> rotl i l = nth i l dd :: opponents i l.
Proof. intros H. unfold rotl, opponents. rewrite (skipn_cons_nth dd i l H), Nat.add_1_r. reflexivity. Qed.

Lemma rotl_replace_at i k a : (i < length a)%nat -> rotl i (replace_at i k a) = k :: opponents i a.
Proof.
  intros H. unfold rotl, replace_at, opponents.
  rewrite skipn_upd_at_ge, firstn_upd_at_ge, Nat.sub_diag by lia.
  rewrite (skipn_cons_nth 0%nat i a H), Nat.add_1_r. reflexivity.
Qed.

Lemma inr_opponents sh a i : inr sh a -> inr (opponents i sh) (opponents i a).
Proof. intros H. unfold opponents. apply inr_app; [now apply inr_skipn | now apply inr_firstn]. Qed.

Lemma opponents_map {A B} (f : A -> B) i l : opponents i (map f l) = map f (opponents i l).
Proof. unfold opponents. now rewrite map_app, skipn_map, firstn_map. Qed.

Lemma wf_reduce_all acts : forall (P : arrQ), wf P -> wf (reduce_all acts P).
Proof. destruct acts; intros P H; [exact H|]. rewrite reduce_all_cons. apply wf_reduce_last. Qed.

Lemma get_vec (R : arrQ) n k : shape R = [n] -> get 0 R [k] = nth k (adata R) 0.
Proof. intros H. unfold get. rewrite H. cbn [ravel size fold_right]. f_equal. lia. Qed.

Lemma inr_nth sh a i : inr sh a -> (i < length sh)%nat -> (nth i a 0 < nth i sh 0)%nat.
Proof.
  intros H. revert i. induction H; intros [|i] Hi; cbn in *; try lia; auto. apply IHForall2. lia.
Qed.

Theorem is_nash_pure_spec (g : game Q) nums a tol : consistent g nums -> inr nums a ->
  (is_nash g (map (@Pure Q) a) tol = true <->
   forall i k, (i < length nums)%nat -> (k < nth i nums 0)%nat ->
     payoff 0 g (replace_at i k a) i - tol <= payoff 0 g a i).
Proof.
  intros Hc Ha. pose proof Hc as [Hl [Hp H]].
  assert (Hla : length a = length nums) by now apply inr_length.
  rewrite is_nash_spec by (rewrite ?map_length; lia). rewrite Hl.
  assert (Hplayer : forall i, (i < length nums)%nat ->
            (is_best_response (player g i) (nth i (map (@Pure Q) a) (Pure 0)) (opponents i (map (@Pure Q) a)) tol = true <->
             forall k, (k < nth i nums 0)%nat -> payoff 0 g (replace_at i k a) i - tol <= payoff 0 g a i)).
  { intros i Hi. destruct (H i Hi) as [Es Hw].
    rewrite (rotl_cons 0%nat i nums Hi) in Es.
    change (Pure 0) with ((@Pure Q) 0%nat). rewrite map_nth, opponents_map.
    pose proof (inr_opponents nums a i Ha) as Hopp.
    assert (Hlo : length (map (@Pure Q) (opponents i a)) = length (opponents i nums))
      by (rewrite map_length; now apply inr_length).
    pose proof (payoff_vector_shape _ _ _ _ Es Hlo) as Hsv.
    assert (Hwv : wf (payoff_vector (player g i) (map (@Pure Q) (opponents i a))))
      by (rewrite (payoff_vector_reduce_all _ _ _ _ Es Hlo); now apply wf_reduce_all).
    assert (Hlen : length (adata (payoff_vector (player g i) (map (@Pure Q) (opponents i a)))) = nth i nums 0%nat).
    { unfold wf in Hwv. rewrite Hwv, Hsv. cbn. lia. }
    pose proof (inr_nth nums a i Ha Hi) as Hai.
    assert (Hentry : forall k, (k < nth i nums 0)%nat ->
              nth k (adata (payoff_vector (player g i) (map (@Pure Q) (opponents i a)))) 0 ==
              payoff 0 g (replace_at i k a) i).
    { intros k Hk. rewrite <- (get_vec _ _ k Hsv).
      rewrite (payoff_vector_pure _ _ _ _ k Es Hopp Hk). unfold payoff.
      rewrite rotl_replace_at by lia. reflexivity. }
    assert (Hself : payoff 0 g (replace_at i (nth i a 0%nat) a) i = payoff 0 g a i).
    { unfold payoff. rewrite rotl_replace_at by lia. now rewrite (rotl_cons 0%nat i a) by lia. }
    rewrite is_best_response_pure by (intros E; rewrite E in Hlen; cbn in Hlen; lia).
    rewrite Hlen. split; intros Hk k Hkk; specialize (Hk k Hkk).
    - rewrite <- Hself, <- (Hentry k Hkk), <- (Hentry _ Hai). assumption.
    - rewrite (Hentry k Hkk), (Hentry _ Hai), Hself. assumption. }
  split.
  - intros Hall i k Hi Hk. apply (proj1 (Hplayer i Hi)); auto.
  - intros Hall i Hi. apply (proj2 (Hplayer i Hi)). intros k Hk. now apply Hall.
Qed.

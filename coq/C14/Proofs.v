(* C14 proofs *)
From Coq Require Import ZArith QArith List Bool Arith Lia.
From QE Require Import Base.Num C14.Model.
Import ListNotations.

Lemma size_nil : size [] = 1%nat. Proof. reflexivity. Qed.

(* C14 proofs, part 1: arrays (ravel / indices / tab / get), rotations, views of a game,
   reconstruction, __setitem__, delete_action, GAM token round trip.  All for arbitrary element type. *)
From Coq Require Import ZArith List Bool Arith Lia.
From QE Require Import Base.Num C14.Model.
Import ListNotations.

(* ------------------------------------------------------------------ lists *)
Lemma flat_map_seq_blocks L : forall n s,
  flat_map (fun i => seq (i * L) L) (seq s n) = seq (s * L) (n * L).
Proof.
  induction n; intros s; cbn [seq flat_map]; [reflexivity|].
  rewrite IHn. replace (S n * L) with (L + n * L) by lia. rewrite seq_app. f_equal. f_equal. lia.
Qed.

Lemma map_add_seq s : forall L t, map (fun r => s + r) (seq t L) = seq (s + t) L.
Proof. induction L; intros t; cbn; [reflexivity|]. f_equal. rewrite IHL. f_equal. lia. Qed.

Lemma nth_flat_map_uniform {A} (g : nat -> list A) L dflt : (forall j, length (g j) = L) ->
  forall n s i r, i < n -> r < L ->
  nth (i * L + r) (flat_map g (seq s n)) dflt = nth r (g (s + i)) dflt.
Proof.
  intros HL. induction n; intros s i r Hi Hr; [lia|]. cbn [seq flat_map].
  destruct i.
  - cbn. rewrite app_nth1 by (rewrite HL; lia). now rewrite Nat.add_0_r.
  - rewrite app_nth2 by (rewrite HL; lia). rewrite HL.
    replace (S i * L + r - L) with (i * L + r) by lia.
    rewrite IHn by lia. f_equal. f_equal. lia.
Qed.

Lemma map_nth_seq {A} (l : list A) d : map (fun p => nth p l d) (seq 0 (length l)) = l.
Proof.
  induction l; [reflexivity|]. cbn [length seq map]. f_equal.
  rewrite <- seq_shift, map_map. exact IHl.
Qed.

Lemma nth_map_in {A B} (f : A -> B) l i d d' : i < length l -> nth i (map f l) d' = f (nth i l d).
Proof. intros. rewrite nth_indep with (d' := f d) by (now rewrite map_length). apply map_nth. Qed.

Lemma nth_map_seq {A} (f : nat -> A) n i d : i < n -> nth i (map f (seq 0 n)) d = f i.
Proof. intros. rewrite nth_map_in with (d := 0) by (now rewrite seq_length). now rewrite seq_nth. Qed.

Lemma map_seq_ext_nth {A} (l : list A) (f : nat -> A) d n :
  length l = n -> (forall i, i < n -> nth i l d = f i) -> l = map f (seq 0 n).
Proof.
  intros Hl Hn. rewrite <- (map_nth_seq l d). rewrite Hl. apply map_ext_in. intros i Hi.
  apply in_seq in Hi. apply Hn. lia.
Qed.

(* ------------------------------------------------------------------ shapes and indices *)
Definition inr (sh idx : list nat) : Prop := Forall2 lt idx sh.

Lemma inr_length sh idx : inr sh idx -> length idx = length sh.
Proof. induction 1; cbn; congruence. Qed.

Lemma length_indices sh : length (indices sh) = size sh.
Proof.
  induction sh as [|n sh IH]; [reflexivity|]. cbn [indices size fold_right].
  change (fold_right Nat.mul 1 sh) with (size sh). rewrite <- IH.
  generalize 0 as s. induction n; intros s; cbn [seq flat_map]; [reflexivity|].
  rewrite app_length, map_length, IHn. reflexivity.
Qed.

Lemma ravel_lt sh idx : inr sh idx -> ravel sh idx < size sh.
Proof.
  induction 1 as [|i n idx sh Hi H IH]; cbn; [lia|].
  change (fold_right Nat.mul 1 sh) with (size sh). nia.
Qed.

Lemma in_indices sh idx : In idx (indices sh) <-> inr sh idx.
Proof.
  revert idx. induction sh as [|n sh IH]; intros idx; cbn [indices].
  - split; [intros [<-|[]]; constructor | intros H; inversion H; now left].
  - rewrite in_flat_map. split.
    + intros [i [Hi Hin]]. apply in_map_iff in Hin. destruct Hin as [t [<- Ht]].
      apply in_seq in Hi. constructor; [lia|]. now apply IH.
    + intros H. inversion H as [|i n' t sh' Hi Ht]; subst. exists i. split; [apply in_seq; lia|].
      apply in_map. now apply IH.
Qed.

Lemma nth_indices sh : forall idx dflt, inr sh idx -> nth (ravel sh idx) (indices sh) dflt = idx.
Proof.
  induction sh as [|n sh IH]; intros idx dflt H; inversion H as [|i n' t sh' Hi Ht]; subst; [reflexivity|].
  cbn [ravel indices].
  rewrite nth_flat_map_uniform with (L := size sh).
  - cbn [plus]. rewrite nth_map_in with (d := dflt) by (rewrite length_indices; now apply ravel_lt).
    f_equal. now apply IH.
  - intros j. now rewrite map_length, length_indices.
  - assumption.
  - now apply ravel_lt.
Qed.

Lemma map_ravel_indices sh : map (ravel sh) (indices sh) = seq 0 (size sh).
Proof.
  induction sh as [|n sh IH]; [reflexivity|]. cbn [indices size fold_right].
  change (fold_right Nat.mul 1 sh) with (size sh).
  pose proof (flat_map_seq_blocks (size sh) n 0) as E. cbn [Nat.mul] in E. rewrite <- E. clear E.
  rewrite flat_map_concat_map, concat_map, map_map, <- flat_map_concat_map.
  apply flat_map_ext. intros i. rewrite map_map. cbn [ravel].
  rewrite <- (map_map (ravel sh) (fun r => i * size sh + r)), IH, map_add_seq. f_equal. lia.
Qed.

Section Arr.
Context {T : Type}.
Variable d : T.

Definition wf (a : arr T) : Prop := length (adata a) = size (shape a).

Lemma shape_tab sh (f : list nat -> T) : shape (tab sh f) = sh. Proof. reflexivity. Qed.
Lemma wf_tab sh (f : list nat -> T) : wf (tab sh f).
Proof. unfold wf, tab. cbn. now rewrite map_length, length_indices. Qed.

Lemma get_tab sh (f : list nat -> T) idx : inr sh idx -> get d (tab sh f) idx = f idx.
Proof.
  intros H. unfold get, tab. cbn [shape adata fst snd].
  rewrite nth_map_in with (d := []) by (rewrite length_indices; now apply ravel_lt).
  f_equal. now apply nth_indices.
Qed.

Lemma tab_ext sh (f g : list nat -> T) : (forall idx, inr sh idx -> f idx = g idx) -> tab sh f = tab sh g.
Proof. intros H. unfold tab. f_equal. apply map_ext_in. intros idx Hin. apply H. now apply in_indices. Qed.

Lemma tab_get a : wf a -> tab (shape a) (get d a) = a.
Proof.
  destruct a as [sh dat]. unfold wf, tab, get. cbn [shape adata fst snd]. intros Hl. f_equal.
  rewrite <- (map_map (ravel sh) (fun p => nth p dat d)), map_ravel_indices, <- Hl. apply map_nth_seq.
Qed.

Lemma arr_ext a b : wf a -> wf b -> shape a = shape b ->
  (forall idx, inr (shape a) idx -> get d a idx = get d b idx) -> a = b.
Proof.
  intros Ha Hb Hs He. rewrite <- (tab_get a Ha), <- (tab_get b Hb), <- Hs. now apply tab_ext.
Qed.
End Arr.


(* ------------------------------------------------------------------ rotations *)
Lemma length_rotl {A} k (l : list A) : length (rotl k l) = length l.
Proof.
  unfold rotl. rewrite app_length, skipn_length, firstn_length. lia.
Qed.

Lemma rotl_0 {A} (l : list A) : rotl 0 l = l.
Proof. unfold rotl. cbn. apply app_nil_r. Qed.

Lemma skipn_app_exact {A} (x y : list A) k : length x = k -> skipn k (x ++ y) = y.
Proof. intros <-. rewrite skipn_app, skipn_all, Nat.sub_diag. reflexivity. Qed.
Lemma firstn_app_exact {A} (x y : list A) k : length x = k -> firstn k (x ++ y) = x.
Proof. intros <-. rewrite firstn_app, firstn_all, Nat.sub_diag. cbn. apply app_nil_r. Qed.

Lemma rotr_rotl {A} k (l : list A) : k <= length l -> rotr k (rotl k l) = l.
Proof.
  intros Hk. unfold rotr. rewrite length_rotl. unfold rotl.
  rewrite skipn_app_exact, firstn_app_exact by (rewrite skipn_length; lia).
  apply firstn_skipn.
Qed.

Lemma rotl_rotr {A} k (l : list A) : k <= length l -> rotl k (rotr k l) = l.
Proof.
  intros Hk. unfold rotr. unfold rotl. rewrite skipn_app_exact, firstn_app_exact by (rewrite skipn_length; lia).
  apply firstn_skipn.
Qed.

Lemma rotl_compl {A} k (l : list A) : k <= length l -> rotl (length l - k) (rotl k l) = l.
Proof. intros Hk. pose proof (rotr_rotl k l Hk) as E. unfold rotr in E. now rewrite length_rotl in E. Qed.

Lemma rotr_compl {A} k (l : list A) : k <= length l -> rotr (length l - k) l = rotl k l.
Proof. intros Hk. unfold rotr. f_equal. lia. Qed.

Lemma inr_app sh1 sh2 a1 a2 : inr sh1 a1 -> inr sh2 a2 -> inr (sh1 ++ sh2) (a1 ++ a2).
Proof. apply Forall2_app. Qed.

Lemma inr_firstn sh a k : inr sh a -> inr (firstn k sh) (firstn k a).
Proof. intros H. revert k. induction H; intros [|k]; cbn; constructor; auto. apply IHForall2. Qed.
Lemma inr_skipn sh a k : inr sh a -> inr (skipn k sh) (skipn k a).
Proof. intros H. revert k. induction H; intros [|k]; cbn; try (constructor; auto; fail). apply IHForall2. Qed.

Lemma inr_rotl sh a k : inr sh a -> inr (rotl k sh) (rotl k a).
Proof. intros H. unfold rotl. apply inr_app; [now apply inr_skipn | now apply inr_firstn]. Qed.
Lemma inr_rotr sh a k : inr sh a -> inr (rotr k sh) (rotr k a).
Proof. intros H. unfold rotr. rewrite (inr_length _ _ H). now apply inr_rotl. Qed.

Lemma rotl_inj {A} k (a b : list A) : length a = length b -> k <= length a -> rotl k a = rotl k b -> a = b.
Proof.
  intros Hl Hk E. rewrite <- (rotr_rotl k a Hk), E. apply rotr_rotl. lia.
Qed.

Lemma removelast_snoc {A} (l : list A) x : removelast (l ++ [x]) = l.
Proof. apply removelast_last. Qed.
Lemma last_snoc {A} (l : list A) x dd : last (l ++ [x]) dd = x.
Proof. apply last_last. Qed.

Lemma inr_snoc_inv sh n idx : inr (sh ++ [n]) idx ->
  exists a i, idx = a ++ [i] /\ inr sh a /\ i < n.
Proof.
  intros H. unfold inr in H. apply Forall2_app_inv_r in H.
  destruct H as [a [t [Ha [Ht ->]]]]. inversion Ht as [|i n' t' s' Hi Hn]; subst. inversion Hn; subst.
  exists a, i. auto.
Qed.

Lemma nats_eq_iff a b : nats_eq a b = true <-> a = b.
Proof.
  revert b. induction a as [|x a IH]; intros [|y b]; cbn; split; intros H; try discriminate; auto.
  - apply andb_true_iff in H. destruct H as [H1 H2]. apply Nat.eqb_eq in H1. apply IH in H2. congruence.
  - injection H as -> ->. rewrite Nat.eqb_refl. cbn. now apply IH.
Qed.

(* ------------------------------------------------------------------ games *)
Section Game.
Context {T : Type}.
Variable d : T.

(* g is a well-formed game with action counts nums: player i's array has the i-fold rotated shape *)
Definition consistent (g : game T) (nums : list nat) : Prop :=
  length g = length nums /\ 0 < length nums /\
  forall i, i < length nums -> shape (player g i) = rotl i nums /\ wf (player g i).

(* payoff of player i at profile a, read from the player's own array *)
Definition payoff (g : game T) (a : list nat) (i : nat) : T := get d (player g i) (rotl i a).

Lemma player_map (f : nat -> arr T) n i : i < n -> player (map f (seq 0 n)) i = f i.
Proof. intros. unfold player. now apply nth_map_seq. Qed.

Lemma game_ext (g : game T) (f : nat -> arr T) n :
  length g = n -> (forall i, i < n -> player g i = f i) -> g = map f (seq 0 n).
Proof. intros. now apply map_seq_ext_nth with (d := dummy). Qed.

Lemma get_transpose_cyc k (a : arr T) b : k <= length (shape a) -> inr (rotl k (shape a)) b ->
  get d (transpose_cyc d k a) b = get d a (rotr k b).
Proof. intros Hk H. unfold transpose_cyc. now rewrite get_tab. Qed.

Lemma get_take_last i (a : arr T) b : inr (removelast (shape a)) b ->
  get d (take_last d i a) b = get d a (b ++ [i]).
Proof. intros H. unfold take_last. now rewrite get_tab. Qed.

Section FromProfile.
Variables (prof : arr T) (nums : list nat).
Hypothesis Hshape : shape prof = nums ++ [length nums].
Hypothesis Hpos : 0 < length nums.

Lemma players_of_profile_some :
  players_of_profile d prof =
  Some (map (fun i => transpose_cyc d i (take_last d i prof)) (seq 0 (length nums))).
Proof.
  unfold players_of_profile. rewrite Hshape, app_length, last_snoc. cbn [length].
  replace (length nums + 1 - 1) with (length nums) by lia.
  rewrite Nat.eqb_refl. cbn [negb orb].
  destruct (Nat.eqb_spec (length nums) 0); [lia|reflexivity].
Qed.

Let g := map (fun i => transpose_cyc d i (take_last d i prof)) (seq 0 (length nums)).

Lemma from_profile_consistent : consistent g nums.
Proof.
  unfold consistent, g. rewrite map_length, seq_length. repeat split; auto.
  - rewrite player_map by auto. unfold transpose_cyc, take_last. cbn [shape tab fst].
    now rewrite Hshape, removelast_snoc.
  - rewrite player_map by auto. apply wf_tab.
Qed.

Lemma from_profile_payoff a i : inr nums a -> i < length nums ->
  payoff g a i = get d prof (a ++ [i]).
Proof.
  intros Ha Hi. unfold payoff, g. rewrite player_map by auto.
  assert (Hs : shape (take_last d i prof) = nums)
    by (unfold take_last; cbn [shape tab fst]; now rewrite Hshape, removelast_snoc).
  rewrite get_transpose_cyc.
  - rewrite rotr_rotl by (rewrite (inr_length _ _ Ha); lia).
    apply get_take_last. now rewrite Hshape, removelast_snoc.
  - rewrite Hs. lia.
  - rewrite Hs. now apply inr_rotl.
Qed.
End FromProfile.

Section Views.
Variables (g : game T) (nums : list nat).
Hypothesis Hc : consistent g nums.

Lemma consistent_shape0 : shape (player g 0) = nums.
Proof. destruct Hc as [_ [Hp H]]. destruct (H 0 Hp) as [E _]. now rewrite rotl_0 in E. Qed.

Lemma getitem_nth a i : i < length nums -> nth i (nfg_getitem d g a) d = payoff g a i.
Proof.
  intros Hi. unfold nfg_getitem. destruct Hc as [Hl _]. rewrite Hl. now rewrite nth_map_seq.
Qed.

Lemma profile_array_get a i : inr nums a -> i < length nums ->
  get d (profile_of_players d g) (a ++ [i]) = payoff g a i.
Proof.
  intros Ha Hi. destruct Hc as [Hl [Hp H]]. unfold profile_of_players.
  rewrite consistent_shape0, Hl.
  rewrite get_tab by (apply inr_app; [assumption | repeat constructor; assumption]).
  rewrite last_snoc, removelast_snoc. rewrite nth_map_seq by assumption.
  destruct (H i Hi) as [Es _].
  assert (HN : length a = length nums) by now apply inr_length.
  rewrite get_transpose_cyc.
  - unfold payoff. f_equal. rewrite <- HN. apply rotr_compl. lia.
  - rewrite Es, length_rotl. lia.
  - rewrite Es. rewrite rotl_compl by lia. assumption.
Qed.

Lemma profile_array_shape : shape (profile_of_players d g) = nums ++ [length nums].
Proof. unfold profile_of_players. cbn [shape tab fst]. destruct Hc as [Hl _]. now rewrite consistent_shape0, Hl. Qed.

(* rebuilding the players from the profile array gives the same game *)
Lemma players_roundtrip_players : players_of_profile d (profile_of_players d g) = Some g.
Proof.
  destruct Hc as [Hl [Hp H]].
  rewrite (players_of_profile_some _ nums profile_array_shape Hp). f_equal. symmetry.
  apply game_ext; [assumption|]. intros i Hi. destruct (H i Hi) as [Es Hw].
  apply arr_ext with (d := d); [assumption | apply wf_tab | |].
  - unfold transpose_cyc, take_last. cbn [shape tab fst]. now rewrite profile_array_shape, removelast_snoc.
  - intros b Hb. rewrite Es in Hb.
    assert (Hlb : length b = length nums) by (rewrite (inr_length _ _ Hb); apply length_rotl).
    rewrite get_transpose_cyc.
    + rewrite get_take_last.
      * rewrite profile_array_get; auto.
        -- unfold payoff. now rewrite rotl_rotr by lia.
        -- replace nums with (rotr i (rotl i nums)) by (apply rotr_rotl; lia). now apply inr_rotr.
      * rewrite profile_array_shape, removelast_snoc.
        replace nums with (rotr i (rotl i nums)) by (apply rotr_rotl; lia). now apply inr_rotr.
    + unfold take_last. cbn [shape tab fst]. rewrite profile_array_shape, removelast_snoc. lia.
    + unfold take_last. cbn [shape tab fst]. now rewrite profile_array_shape, removelast_snoc.
Qed.
End Views.

(* the profile array rebuilt from the players of a profile array is that array *)
Lemma players_roundtrip_profile prof nums g : wf prof -> shape prof = nums ++ [length nums] -> 0 < length nums ->
  players_of_profile d prof = Some g -> profile_of_players d g = prof.
Proof.
  intros Hw Hs Hp E. rewrite (players_of_profile_some _ _ Hs Hp) in E. injection E as <-.
  pose proof (from_profile_consistent prof nums Hs Hp) as Hc.
  apply arr_ext with (d := d); [apply wf_tab | assumption | |].
  - now rewrite (profile_array_shape _ _ Hc).
  - intros idx Hi. rewrite (profile_array_shape _ _ Hc) in Hi.
    apply inr_snoc_inv in Hi. destruct Hi as [a [i [-> [Ha Hi]]]].
    rewrite (profile_array_get _ _ Hc) by assumption. now apply from_profile_payoff.
Qed.

(* ------------------------------------------------------------------ __setitem__ *)
Lemma get_aset (a : arr T) idx v b : inr (shape a) b ->
  get d (aset d a idx v) b = if nats_eq b idx then v else get d a b.
Proof. intros H. unfold aset. now rewrite get_tab. Qed.

Section SetItem.
Variables (g : game T) (nums : list nat) (a : list nat) (v : list T).
Hypothesis Hc : consistent g nums.
Hypothesis Ha : inr nums a.
Hypothesis Hv : length v = length nums.
Let g' := nfg_setitem d g a v.

Lemma setitem_consistent : consistent g' nums.
Proof.
  destruct Hc as [Hl [Hp H]]. unfold consistent, g', nfg_setitem. rewrite map_length, seq_length, Hl.
  repeat split; auto.
  - rewrite player_map by assumption. unfold aset. cbn [shape tab fst]. now apply H.
  - rewrite player_map by assumption. apply wf_tab.
Qed.

Lemma setitem_payoff b i : inr nums b -> i < length nums ->
  payoff g' b i = if nats_eq b a then nth i v d else payoff g b i.
Proof.
  intros Hb Hi. destruct Hc as [Hl [Hp H]]. unfold payoff, g', nfg_setitem. rewrite Hl.
  rewrite player_map by assumption. destruct (H i Hi) as [Es _].
  rewrite get_aset by (rewrite Es; now apply inr_rotl).
  destruct (nats_eq (rotl i b) (rotl i a)) eqn:E1; destruct (nats_eq b a) eqn:E2; try reflexivity.
  - apply nats_eq_iff in E1. apply rotl_inj in E1.
    + apply nats_eq_iff in E1. congruence.
    + now rewrite (inr_length _ _ Hb), (inr_length _ _ Ha).
    + rewrite (inr_length _ _ Hb). lia.
  - apply nats_eq_iff in E2. subst b. assert (nats_eq (rotl i a) (rotl i a) = true) by now apply nats_eq_iff.
    congruence.
Qed.

Lemma setitem_getitem_same : nfg_getitem d g' a = v.
Proof.
  pose proof setitem_consistent as Hc'. destruct Hc' as [Hl' _].
  unfold nfg_getitem. rewrite Hl'. symmetry. apply map_seq_ext_nth with (d := d); [assumption|].
  intros i Hi. change (nth i v d = payoff g' a i). rewrite setitem_payoff by assumption.
  assert (E : nats_eq a a = true) by now apply nats_eq_iff. now rewrite E.
Qed.

Lemma setitem_getitem_other b : inr nums b -> b <> a -> nfg_getitem d g' b = nfg_getitem d g b.
Proof.
  intros Hb Hne. pose proof setitem_consistent as Hc'. destruct Hc' as [Hl' _]. destruct Hc as [Hl _].
  unfold nfg_getitem. rewrite Hl', Hl. apply map_ext_in. intros i Hi. apply in_seq in Hi.
  change (payoff g' b i = payoff g b i). rewrite setitem_payoff by (auto; lia).
  destruct (nats_eq b a) eqn:E; [|reflexivity]. apply nats_eq_iff in E. contradiction.
Qed.
End SetItem.
End Game.

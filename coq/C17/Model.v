(* C17 model: quantecon/optimize/root_finding.py (newton, newton_halley, newton_secant,
   _bisect_interval, bisect, brentq) and quantecon/optimize/scalar_maximization.py (brent_max).
   Written once over an arithmetic signature (Base.Num.Num extended locally with abs, negation,
   finiteness and the literal constants the source uses) and instantiated at Q (theorems) and
   PrimFloat (bit-exact runs against the Numba kernels).  Operations are performed in source order.
   Executable definitions only; proofs live in Proofs*.v. *)
From Coq Require Import ZArith QArith Qabs List Bool PrimFloat.
From QE Require Import Base.Num.
Import ListNotations.

Class NumX (T : Type) := {
  nx_num :> Num T;
  nabs : T -> T;          (* abs / np.abs *)
  nopp : T -> T;          (* unary minus *)
  nisfin : T -> bool;     (* np.isfinite *)
  nhalf : T;              (* 0.5 *)
  ntwo : T;               (* 2 / 2.0 *)
  nthree : T;             (* 3 / 3.0 *)
}.

#[global] Instance NumXQ : NumX Q := {|
  nx_num := NumQ; nabs := Qabs; nopp := Qopp; nisfin := fun _ => true;
  nhalf := (1 # 2)%Q; ntwo := 2%Q; nthree := 3%Q |}.

#[global] Instance NumXF : NumX float := {|
  nx_num := NumF; nabs := PrimFloat.abs; nopp := PrimFloat.opp;
  nisfin := fun x => PrimFloat.ltb (PrimFloat.abs x) infinity;
  nhalf := 0.5%float; ntwo := 2%float; nthree := 3%float |}.

(* ---------- objectives as expression trees (the harness generates the jitted Python
   objective from the same tree, so model and Numba perform the same operations in the same order) *)
Inductive expr (T : Type) : Type :=
| EX | EP (i : nat) | EC (c : T)
| EV (i : nat)      (* component i of a vector argument (nelder_mead objectives) *)
| EAdd (a b : expr T) | ESub (a b : expr T) | EMul (a b : expr T) | EDiv (a b : expr T)
| ENeg (a : expr T).
Arguments EX {T}. Arguments EP {T}. Arguments EC {T}. Arguments EV {T}. Arguments EAdd {T}. Arguments ESub {T}.
Arguments EMul {T}. Arguments EDiv {T}. Arguments ENeg {T}.

Fixpoint eeval {T} {NX : NumX T} (e : expr T) (ps : list T) (x : T) : T :=
  match e with
  | EX => x
  | EV _ => x
  | EP i => nth i ps nzero
  | EC c => c
  | EAdd a b => nadd (eeval a ps x) (eeval b ps x)
  | ESub a b => nsub (eeval a ps x) (eeval b ps x)
  | EMul a b => nmul (eeval a ps x) (eeval b ps x)
  | EDiv a b => ndiv (eeval a ps x) (eeval b ps x)
  | ENeg a => nopp (eeval a ps x)
  end.

(* what a call produces: a `results` tuple or one of the three raises *)
Inductive outcome (T : Type) : Type :=
| ErrArg            (* ValueError: tol/xtol <= 0 or maxiter < 1 (brent_max: bad interval) *)
| ErrSign           (* ValueError: f(a) and f(b) must have different signs *)
| ErrNoConv         (* RuntimeError('Failed to converge') when disp *)
| ErrZeroDiv        (* ZeroDivisionError: Numba's default error model raises on a float division by 0.0 *)
| Res (root : T) (funcalls iterations : Z) (converged : bool).
Arguments ErrArg {T}. Arguments ErrSign {T}. Arguments ErrNoConv {T}. Arguments ErrZeroDiv {T}. Arguments Res {T}.

Section RootFinding.
Context {T : Type} {NX : NumX T}.

Definition nmin (a b : T) : T := if nltb b a then b else a.
Definition nmax (a b : T) : T := if nltb a b then b else a.
(* np.sign on non-nan input: -1 / 0 / +1 by comparisons with zero (the sign bit of a zero result is
   never observable: every use multiplies it and compares with 0, or adds 1) *)
Definition nsign (x : T) : T :=
  if nltb nzero x then none_ else if nltb x nzero then nopp none_ else nzero.

(* disp and status == _ECONVERR: raise RuntimeError *)
Definition finish (disp : bool) (r : T * Z * Z * bool) : outcome T :=
  let '(root, fc, it, conv) := r in
  if disp && negb conv then ErrNoConv else Res root fc it conv.
Definition finish_opt (disp : bool) (r : option (T * Z * Z * bool)) : outcome T :=
  match r with None => ErrZeroDiv | Some r => finish disp r end.
(* a float division whose divisor can be zero on admissible input: ZeroDivisionError.  Divisions by literal
   constants, by fder after the `fder == 0` test, by q1 - q0 after `q1 == q0` failed and by |q| in brent_max after
   |p| < |0.5 q r| succeeded cannot have a zero divisor and stay plain ndiv. *)
Definition chkdiv (a b : T) : option T := if neqb b nzero then None else Some (ndiv a b).

(* ------------------------------------------------------------------ newton *)
Section Newton.
Variables (f fp fp2 : T -> T) (tol : T).

(* for itr in range(maxiter): fuel = remaining iterations, itr = loop index *)
Fixpoint newton_loop (fuel : nat) (itr : Z) (p0 : T) (fc : Z) : T * Z * Z * bool :=
  match fuel with
  | O => (p0, fc, itr, false)                       (* loop exhausted: p = last p, itr+1 = maxiter *)
  | S k =>
    let fval := f p0 in
    if neqb fval nzero then (p0, fc + 1, itr, true)%Z          (* itr -= 1; break *)
    else
      let fder := fp p0 in
      if neqb fder nzero then (p0, fc + 2, itr + 1, false)%Z   (* break with status _ECONVERR *)
      else
        let p := nsub p0 (ndiv fval fder) in
        if nltb (nabs (nsub p p0)) tol then (p, fc + 2, itr + 1, true)%Z
        else newton_loop k (itr + 1)%Z p (fc + 2)%Z
  end.

Definition newton (x0 : T) (maxiter : Z) (disp : bool) : outcome T :=
  if nleb tol nzero then ErrArg
  else if (maxiter <? 1)%Z then ErrArg
  else finish disp (newton_loop (Z.to_nat maxiter) 0 (nmul none_ x0) 0).

Fixpoint halley_loop (fuel : nat) (itr : Z) (p0 : T) (fc : Z) : option (T * Z * Z * bool) :=
  match fuel with
  | O => Some (p0, fc, itr, false)
  | S k =>
    let fval := f p0 in
    if neqb fval nzero then Some (p0, fc + 1, itr, true)%Z
    else
      let fder := fp p0 in
      if neqb fder nzero then Some (p0, fc + 2, itr + 1, false)%Z
      else
        let ns := ndiv fval fder in
        let fder2 := fp2 p0 in
        (* p0 - newton_step / (1.0 - 0.5 * newton_step * fder2 / fder) *)
        match chkdiv ns (nsub none_ (ndiv (nmul (nmul nhalf ns) fder2) fder)) with
        | None => None
        | Some st =>
          let p := nsub p0 st in
          if nltb (nabs (nsub p p0)) tol then Some (p, fc + 2, itr + 1, true)%Z
          else halley_loop k (itr + 1)%Z p (fc + 2)%Z
        end
  end.

Definition newton_halley (x0 : T) (maxiter : Z) (disp : bool) : outcome T :=
  if nleb tol nzero then ErrArg
  else if (maxiter <? 1)%Z then ErrArg
  else finish_opt disp (halley_loop (Z.to_nat maxiter) 0 (nmul none_ x0) 0).

(* state at loop head: p0 q0 p1 q1; p_last = p1 when the loop is exhausted *)
Fixpoint secant_loop (fuel : nat) (itr : Z) (p0 q0 p1 q1 : T) (fc : Z) : T * Z * Z * bool :=
  match fuel with
  | O => (p1, fc, itr, false)
  | S k =>
    if neqb q1 q0 then (ndiv (nadd p1 p0) ntwo, fc, itr + 1, true)%Z
    else
      let p := nsub p1 (ndiv (nmul q1 (nsub p1 p0)) (nsub q1 q0)) in
      if nltb (nabs (nsub p p1)) tol then (p, fc, itr + 1, true)%Z
      else secant_loop k (itr + 1)%Z p1 q1 p (f p) (fc + 1)%Z
  end.

(* c4 is the literal 0.0001 of the source *)
Definition newton_secant (c4 : T) (x0 : T) (maxiter : Z) (disp : bool) : outcome T :=
  if nleb tol nzero then ErrArg
  else if (maxiter <? 1)%Z then ErrArg
  else
    let p0 := nmul none_ x0 in
    let p1 := if nleb nzero x0 then nadd (nmul x0 (nadd none_ c4)) c4
              else nsub (nmul x0 (nadd none_ c4)) c4 in
    let q0 := f p0 in
    let q1 := f p1 in
    finish disp (secant_loop (Z.to_nat maxiter) 0 p0 q0 p1 q1 2).
End Newton.

(* ------------------------------------------------------------------ bisect *)
Section Bracket.
Variable f : T -> T.

(* None = raise ValueError; Some (root, converged) *)
Definition bisect_interval (a b fa fb : T) : option (T * bool) :=
  if nltb nzero (nmul (nsign fa) (nsign fb)) then None      (* np.sign(fa)*np.sign(fb) > 0 *)
  else
    let r0 := (nzero, false) in
    let r1 := if neqb fa nzero then (a, true) else r0 in
    let r2 := if neqb fb nzero then (b, true) else r1 in
    Some r2.

Fixpoint bisect_loop (fuel : nat) (itr : Z) (xa dm fa xtol rtol : T) (fc : Z) : T * Z * Z * bool :=
  match fuel with
  | O => (nzero, fc, itr - 1, false)%Z       (* root still 0.0, itr = maxiter-1 after the for loop *)
  | S k =>
    let dm := nmul dm nhalf in
    let xm := nadd xa dm in
    let fm := f xm in
    let xa' := if nleb nzero (nmul (nsign fm) (nsign fa)) then xm else xa in   (* np.sign(fm)*np.sign(fa) >= 0 *)
    if neqb fm nzero || nltb (nabs dm) (nadd xtol (nmul rtol (nabs xm)))
    then (xm, fc + 1, itr + 1, true)%Z
    else bisect_loop k (itr + 1)%Z xa' dm fa xtol rtol (fc + 1)%Z
  end.

Definition bisect (a b xtol rtol : T) (maxiter : Z) (disp : bool) : outcome T :=
  if nleb xtol nzero then ErrArg
  else if (maxiter <? 1)%Z then ErrArg
  else
    let xa := nmul a none_ in
    let xb := nmul b none_ in
    let fa := f xa in
    let fb := f xb in
    match bisect_interval xa xb fa fb with
    | None => ErrSign
    | Some (root, true) => Res root 2 0 true
    | Some (_, false) =>
      finish disp (bisect_loop (Z.to_nat maxiter) 0 xa (nsub xb xa) fa xtol rtol 2)
    end.

(* ------------------------------------------------------------------ brentq *)
Record bq := { xpre : T; xcur : T; xblk : T; fpre : T; fcur : T; fblk : T; spre : T; scur : T }.

(* first two `if`s of the loop body: re-bracket, then make cur the point with the smaller |f| *)
Definition bq_rebracket (s : bq) : bq :=
  if nltb (nmul (nsign (fpre s)) (nsign (fcur s))) nzero       (* np.sign(fpre)*np.sign(fcur) < 0 *)
  then let d := nsub (xcur s) (xpre s) in
       {| xpre := xpre s; xcur := xcur s; xblk := xpre s; fpre := fpre s; fcur := fcur s; fblk := fpre s;
          spre := d; scur := d |}
  else s.
Definition bq_swap (s : bq) : bq :=
  if nltb (nabs (fblk s)) (nabs (fcur s))
  then {| xpre := xcur s; xcur := xblk s; xblk := xcur s; fpre := fcur s; fcur := fblk s; fblk := fcur s;
          spre := spre s; scur := scur s |}
  else s.

Definition bq_delta (s : bq) (xtol rtol : T) : T := ndiv (nadd xtol (nmul rtol (nabs (xcur s)))) ntwo.
Definition bq_sbis (s : bq) : T := ndiv (nsub (xblk s) (xcur s)) ntwo.

(* value of stry: a number, np.inf (guarded zero denominator: the short-step test below is then false),
   or a ZeroDivisionError from one of the unguarded divisions *)
Inductive tryval : Type := TZeroDiv | TInf | TVal (v : T).
Definition tv_of (o : option T) : tryval := match o with None => TZeroDiv | Some v => TVal v end.

Definition bq_stry (s : bq) : tryval :=
  if neqb (xpre s) (xblk s)
  then tv_of (chkdiv (nmul (nopp (fcur s)) (nsub (xcur s) (xpre s))) (nsub (fcur s) (fpre s)))
  else
    match chkdiv (nsub (fpre s) (fcur s)) (nsub (xpre s) (xcur s)) with
    | None => TZeroDiv
    | Some dpre =>
      match chkdiv (nsub (fblk s) (fcur s)) (nsub (xblk s) (xcur s)) with
      | None => TZeroDiv
      | Some dblk =>
        let den := nmul (nmul dblk dpre) (nsub (fblk s) (fpre s)) in
        if neqb den nzero then TInf
        else TVal (ndiv (nmul (nopp (fcur s)) (nsub (nmul (fblk s) dblk) (nmul (fpre s) dpre))) den)
      end
    end.

(* the step selection; returns (spre, scur); None = ZeroDivisionError *)
Definition bq_steps (s : bq) (delta sbis : T) : option (T * T) :=
  if nltb delta (nabs (spre s)) && nltb (nabs (fcur s)) (nabs (fpre s)) then
    match bq_stry s with
    | TZeroDiv => None
    | TInf => Some (sbis, sbis)
    | TVal stry =>
      if nltb (nmul ntwo (nabs stry)) (nmin (nabs (spre s)) (nsub (nmul nthree (nabs sbis)) delta))
      then Some (scur s, stry) else Some (sbis, sbis)
    end
  else Some (sbis, sbis).

Definition bq_advance (s : bq) (delta sbis : T) : option bq :=
  match bq_steps s delta sbis with
  | None => None
  | Some (sp, sc) =>
    let xc := if nltb delta (nabs sc) then nadd (xcur s) sc
              else nadd (xcur s) (if nltb nzero sbis then delta else nopp delta) in
    Some {| xpre := xcur s; xcur := xc; xblk := xblk s; fpre := fcur s; fcur := f xc; fblk := fblk s;
            spre := sp; scur := sc |}
  end.

Fixpoint brentq_loop (fuel : nat) (itr : Z) (s : bq) (xtol rtol : T) (fc : Z) : option (T * Z * Z * bool) :=
  match fuel with
  | O => Some (nzero, fc, itr - 1, false)%Z
  | S k =>
    let s2 := bq_swap (bq_rebracket s) in
    let delta := bq_delta s2 xtol rtol in
    let sbis := bq_sbis s2 in
    if neqb (fcur s2) nzero || nltb (nabs sbis) delta
    then Some (xcur s2, fc, itr + 1, true)%Z
    else match bq_advance s2 delta sbis with
         | None => None
         | Some s3 => brentq_loop k (itr + 1)%Z s3 xtol rtol (fc + 1)%Z
         end
  end.

(* xblk, fblk, spre, scur are unbound in the source until the first re-bracketing (which always
   happens in the first pass: the end-point values are non-zero with opposite signs); 0 stands for unbound *)
Definition brentq (a b xtol rtol : T) (maxiter : Z) (disp : bool) : outcome T :=
  if nleb xtol nzero then ErrArg
  else if (maxiter <? 1)%Z then ErrArg
  else
    let xp := nmul a none_ in
    let xc := nmul b none_ in
    let fp_ := f xp in
    let fc_ := f xc in
    match bisect_interval xp xc fp_ fc_ with
    | None => ErrSign
    | Some (root, true) => Res root 2 0 true
    | Some (_, false) =>
      finish_opt disp (brentq_loop (Z.to_nat maxiter) 0
        {| xpre := xp; xcur := xc; xblk := nzero; fpre := fp_; fcur := fc_; fblk := nzero;
           spre := nzero; scur := nzero |} xtol rtol 2)
    end.
End Bracket.

(* ------------------------------------------------------------------ brent_max *)
Section BrentMax.
Variable f : T -> T.
(* sqrt_eps = np.sqrt(2.2e-16), golden_mean = 0.5*(3.0-np.sqrt(5.0)): passed in (no sqrt in the signature) *)
Variables (sqrt_eps golden_mean : T).

Record bm := { ba : T; bb : T; fulc : T; nfc : T; xf : T; rat : T; ee : T; fx : T; ffulc : T; fnfc : T;
               xm : T; tol1 : T; tol2 : T; num : Z }.

(* the parabolic-fit block: given the state, returns (golden, rat, e) *)
Definition bm_parabolic (s : bm) : bool * T * T :=
  let r := nmul (nsub (xf s) (nfc s)) (nsub (fx s) (ffulc s)) in
  let q := nmul (nsub (xf s) (fulc s)) (nsub (fx s) (fnfc s)) in
  let p := nsub (nmul (nsub (xf s) (fulc s)) q) (nmul (nsub (xf s) (nfc s)) r) in
  let q := nmul ntwo (nsub q r) in
  let p := if nltb nzero q then nopp p else p in
  let q := nabs q in
  let r := ee s in
  let e := rat s in
  if nltb (nabs p) (nabs (nmul (nmul nhalf q) r))
     && nltb (nmul q (nsub (ba s) (xf s))) p
     && nltb p (nmul q (nsub (bb s) (xf s)))
  then
    let rat1 := ndiv (nadd p nzero) q in
    let x := nadd (xf s) rat1 in
    if nltb (nsub x (ba s)) (tol2 s) || nltb (nsub (bb s) x) (tol2 s)
    then let d := nsub (xm s) (xf s) in
         let si := nadd (nsign d) (if neqb d nzero then none_ else nzero) in
         (false, nmul (tol1 s) si, e)
    else (false, rat1, e)
  else (true, rat s, e).

(* the trial point of one pass: (x, rat, e) *)
Definition bm_trial (s : bm) : T * T * T :=
  let '(golden, rat1, e1) :=
    if nltb (tol1 s) (nabs (ee s)) then bm_parabolic s else (true, rat s, ee s) in
  let '(rat2, e2) :=
    if golden then
      let e := if nleb (xm s) (xf s) then nsub (ba s) (xf s) else nsub (bb s) (xf s) in
      (nmul golden_mean e, e)
    else (rat1, e1) in
  let si := if neqb rat2 nzero then nadd (nsign rat2) none_ else nsign rat2 in
  (nadd (xf s) (nmul si (nmax (nabs rat2) (tol1 s))), rat2, e2).

Definition bm_update (xtol : T) (s : bm) (x rat2 e2 fu : T) : bm :=
  let s1 :=
    if nleb fu (fx s) then
      {| ba := if nleb (xf s) x then xf s else ba s;
         bb := if nleb (xf s) x then bb s else xf s;
         fulc := nfc s; ffulc := fnfc s; nfc := xf s; fnfc := fx s; xf := x; fx := fu;
         rat := rat2; ee := e2; xm := xm s; tol1 := tol1 s; tol2 := tol2 s; num := (num s + 1)%Z |}
    else
      let a' := if nltb x (xf s) then x else ba s in
      let b' := if nltb x (xf s) then bb s else x in
      if nleb fu (fnfc s) || neqb (nfc s) (xf s) then
        {| ba := a'; bb := b'; fulc := nfc s; ffulc := fnfc s; nfc := x; fnfc := fu; xf := xf s; fx := fx s;
           rat := rat2; ee := e2; xm := xm s; tol1 := tol1 s; tol2 := tol2 s; num := (num s + 1)%Z |}
      else if nleb fu (ffulc s) || neqb (fulc s) (xf s) || neqb (fulc s) (nfc s) then
        {| ba := a'; bb := b'; fulc := x; ffulc := fu; nfc := nfc s; fnfc := fnfc s; xf := xf s; fx := fx s;
           rat := rat2; ee := e2; xm := xm s; tol1 := tol1 s; tol2 := tol2 s; num := (num s + 1)%Z |}
      else
        {| ba := a'; bb := b'; fulc := fulc s; ffulc := ffulc s; nfc := nfc s; fnfc := fnfc s; xf := xf s;
           fx := fx s; rat := rat2; ee := e2; xm := xm s; tol1 := tol1 s; tol2 := tol2 s;
           num := (num s + 1)%Z |} in
  let t1 := nadd (nmul sqrt_eps (nabs (xf s1))) (ndiv xtol nthree) in
  {| ba := ba s1; bb := bb s1; fulc := fulc s1; ffulc := ffulc s1; nfc := nfc s1; fnfc := fnfc s1;
     xf := xf s1; fx := fx s1; rat := rat s1; ee := ee s1;
     xm := nmul nhalf (nadd (ba s1) (bb s1)); tol1 := t1; tol2 := nmul ntwo t1; num := num s1 |}.

Definition bm_step (xtol : T) (s : bm) : bm :=
  let '(x, rat2, e2) := bm_trial s in
  bm_update xtol s x rat2 e2 (nopp (f x)).

(* while np.abs(xf - xm) > tol2 - 0.5*(b - a) *)
Definition bm_continue (s : bm) : bool :=
  nltb (nsub (tol2 s) (nmul nhalf (nsub (bb s) (ba s)))) (nabs (nsub (xf s) (xm s))).

(* result: (xf, fval, status_flag, num); None = out of fuel (never with fuel >= max(1, maxiter)) *)
Fixpoint bm_loop (fuel : nat) (xtol : T) (maxfun : Z) (s : bm) : option (T * T * Z * Z) :=
  if bm_continue s then
    match fuel with
    | O => None
    | S k =>
      let s' := bm_step xtol s in
      if (maxfun <=? num s')%Z then Some (xf s', nopp (fx s'), 1%Z, num s')
      else bm_loop k xtol maxfun s'
    end
  else Some (xf s, nopp (fx s), 0%Z, num s).

Definition bm_init (a b xtol : T) : bm :=
  let fulc0 := nadd a (nmul golden_mean (nsub b a)) in
  let fx0 := nopp (f fulc0) in
  let t1 := nadd (nmul sqrt_eps (nabs fulc0)) (ndiv xtol nthree) in
  {| ba := a; bb := b; fulc := fulc0; nfc := fulc0; xf := fulc0; rat := nzero; ee := nzero;
     fx := fx0; ffulc := fx0; fnfc := fx0; xm := nmul nhalf (nadd a b); tol1 := t1;
     tol2 := nmul ntwo t1; num := 1%Z |}.

Inductive bm_outcome : Type :=
| BMErr                      (* ValueError: a or b not finite, or not a < b *)
| BMFuel                     (* model fuel exhausted: not a value the code can return *)
| BMRes (xf fval : T) (status num : Z).

Definition brent_max (a b xtol : T) (maxiter : Z) : bm_outcome :=
  if negb (nisfin a) then BMErr
  else if negb (nisfin b) then BMErr
  else if negb (nltb a b) then BMErr
  else match bm_loop (S (Z.to_nat maxiter)) xtol maxiter (bm_init a b xtol) with
       | None => BMFuel
       | Some (x, fv, st, n) => BMRes x fv st n
       end.
End BrentMax.

End RootFinding.

(* ------------------------------------------------------------------ nelder_mead
   quantecon/optimize/nelder_mead.py: nelder_mead -> _initialize_simplex, _nelder_mead_algorithm (rho chi gamma
   sigma passed in from Gen/Consts), _check_bounds, _neg_bounded_fun.  Function values live in T + {+inf}
   (np.inf is the penalty outside the bounds); vertices are lists, the order array sort_ind a list of nat. *)
Fixpoint eevalv {T} {NX : NumX T} (e : expr T) (ps : list T) (xs : list T) : T :=
  match e with
  | EX => nth 0 xs nzero
  | EV i => nth i xs nzero
  | EP i => nth i ps nzero
  | EC c => c
  | EAdd a b => nadd (eevalv a ps xs) (eevalv b ps xs)
  | ESub a b => nsub (eevalv a ps xs) (eevalv b ps xs)
  | EMul a b => nmul (eevalv a ps xs) (eevalv b ps xs)
  | EDiv a b => ndiv (eevalv a ps xs) (eevalv b ps xs)
  | ENeg a => nopp (eevalv a ps xs)
  end.

Inductive ext (T : Type) : Type := Fin (v : T) | PInf.
Arguments Fin {T}. Arguments PInf {T}.

Inductive nm_outcome (T : Type) : Type :=
| NMErr                                     (* ValueError of _check_params (a lower bound above its upper bound) *)
| NMFuel                                    (* model fuel exhausted: not a value the code can return *)
| NMRes (x : list T) (neg_fun : ext T)      (* fun = -neg_fun (-inf when neg_fun = PInf) *)
        (success : bool) (nit : Z) (final_simplex : list (list T)).
Arguments NMErr {T}. Arguments NMFuel {T}. Arguments NMRes {T}.

Section NelderMead.
Context {T : Type} {NX : NumX T}.
Variable f : list T -> T.
Variable bounds : list (T * T).             (* [] = no bounds (shape (0,2)) *)
Variables (rho chi gam sig : T).            (* 1.0 2.0 0.5 0.5 *)
Variables (nonzdelt zdelt : T).             (* 0.05 0.00025 *)

Fixpoint vmap2 (g : T -> T -> T) (a b : list T) : list T :=
  match a, b with x :: a', y :: b' => g x y :: vmap2 g a' b' | _, _ => [] end.
Definition vadd := vmap2 nadd.
Definition vsub := vmap2 nsub.
Definition vscale (c : T) (a : list T) : list T := map (nmul c) a.
Definition vdivs (a : list T) (c : T) : list T := map (fun x => ndiv x c) a.
Fixpoint nofnat (n : nat) : T := match n with O => nzero | S n' => nadd (nofnat n') none_ end.

Fixpoint upd {A} (l : list A) (i : nat) (v : A) : list A :=
  match l, i with
  | [], _ => []
  | _ :: r, O => v :: r
  | x :: r, S i' => x :: upd r i' v
  end.

(* comparisons of values in T + {+inf} as IEEE does them (no nan among them) *)
Definition ext_lt (a b : ext T) : bool :=
  match a, b with
  | Fin x, Fin y => nltb x y
  | Fin _, PInf => true
  | PInf, _ => false
  end.
Definition ext_min (a b : ext T) : ext T := if ext_lt b a then b else a.
(* a - b < tol: inf - inf = nan and inf - y = inf compare false; x - inf = -inf compares true *)
Definition ext_diff_lt (a b : ext T) (tol : T) : bool :=
  match a, b with
  | Fin x, Fin y => nltb (nsub x y) tol
  | Fin _, PInf => true
  | PInf, _ => false
  end.

(* _check_bounds: (lo <= x).all() and (x <= hi).all() *)
Fixpoint in_bounds_go (x : list T) (b : list (T * T)) : bool :=
  match x, b with
  | xi :: x', (lo, hi) :: b' => nleb lo xi && nleb xi hi && in_bounds_go x' b'
  | _, _ => true
  end.
Definition in_bounds (x : list T) (b : list (T * T)) : bool := in_bounds_go x b.
Definition neg_fun (x : list T) : ext T := if in_bounds x bounds then Fin (nopp (f x)) else PInf.

(* _initialize_simplex *)
Definition init_simplex (x0 : list T) : list (list T) :=
  x0 :: map (fun i => let xi := nth i x0 nzero in
                      upd x0 i (if neqb xi nzero then zdelt else nmul xi (nadd none_ nonzdelt)))
            (seq 0 (length x0)).

(* ndarray.argsort() as Numba runs it on at most 15 entries: insertion sort, stable *)
Fixpoint ins_sorted (vals : list (ext T)) (k : nat) (l : list nat) : list nat :=
  match l with
  | [] => [k]
  | e :: r => if ext_lt (nth k vals PInf) (nth e vals PInf) then k :: e :: r else e :: ins_sorted vals k r
  end.
Definition argsort (vals : list (ext T)) : list nat :=
  fold_left (fun acc k => ins_sorted vals k acc) (seq 0 (length vals)) [].

Record nm := { vs : list (list T); fv : list (ext T); si : list nat; xbar : list T; lv : T; nit : Z }.

Definition vget (V : list (list T)) (i : nat) : list T := nth i V [].
Definition fget (F : list (ext T)) (i : nat) : ext T := nth i F PInf.

(* x_bar = vertices[sort_ind[:n]].sum(axis=0) / n *)
Definition centroid (V : list (list T)) (idx : list nat) (n : nat) : list T :=
  map (fun j => ndiv (fold_left (fun s i => nadd s (nth j (vget V i) nzero)) idx nzero) (nofnat n)) (seq 0 n).

Definition nm_init (x0 : list T) : nm :=
  let n := length x0 in
  let V := init_simplex x0 in
  let F := map neg_fun V in
  let S := argsort F in
  {| vs := V; fv := F; si := S; xbar := centroid V (firstn n S) n; lv := none_; nit := 0 |}.

(* the `if not shrink` block after vertices[worst] has been replaced by xnew *)
Fixpoint insert_first (F : list (ext T)) (w : nat) (pre l : list nat) : option (list nat) :=
  match l with
  | [] => None
  | j :: r => if ext_lt (fget F w) (fget F j) then Some (rev pre ++ w :: removelast (j :: r))
              else insert_first F w (j :: pre) r
  end.
Definition nm_replace (s : nm) (n w : nat) (xnew : list T) (lvmul : T) : nm :=
  let V := upd (vs s) w xnew in
  let F := upd (fv s) w (neg_fun xnew) in
  let S := match insert_first F w [] (si s) with Some S' => S' | None => si s end in
  {| vs := V; fv := F; si := S;
     xbar := vadd (xbar s) (vdivs (vsub (vget V w) (vget V (nth n S O))) (nofnat n));
     lv := nmul (lv s) lvmul; nit := (nit s + 1)%Z |}.

(* how the shrink step rewrites sort_ind[1:]:  `sort_ind[1:][f_val[sort_ind[1:]].argsort()]`
   (the pinned code stored the positions `argsort() + 1` instead: Findings.v) *)
Definition shrink_order (tail_ : list nat) (perm : list nat) : list nat := map (fun p => nth p tail_ O) perm.

Definition nm_shrink (s : nm) (n b w : nat) (sig_n : T) : nm :=
  let tail_ := tl (si s) in
  let '(V, F) := fold_left (fun (VF : list (list T) * list (ext T)) i =>
                    let '(V, F) := VF in
                    let vb := vget V b in
                    let vi := vadd vb (vscale sig (vsub (vget V i) vb)) in
                    (upd V i vi, upd F i (neg_fun vi))) tail_ (vs s, fv s) in
  let S := b :: shrink_order tail_ (argsort (map (fget F) tail_)) in
  let vb := vget V b in
  {| vs := V; fv := F; si := S;
     xbar := vadd (vadd vb (vscale sig (vsub (xbar s) vb))) (vdivs (vsub (vget V w) (vget V (nth n S O))) (nofnat n));
     lv := nmul (lv s) sig_n; nit := (nit s + 1)%Z |}.

(* one pass of the while loop after the termination test *)
Definition nm_step (s : nm) (n : nat) (sig_n : T) : nm :=
  let b := nth 0 (si s) O in
  let w := nth n (si s) O in
  let xb := xbar s in
  let xr := vadd xb (vscale rho (vsub xb (vget (vs s) w))) in
  let fr := neg_fun xr in
  let fb := fget (fv s) b in
  let fw := fget (fv s) w in
  if negb (ext_lt fr fb) && ext_lt fr (fget (fv s) (nth (n - 1) (si s) O)) then nm_replace s n w xr rho
  else if ext_lt fr fb then
    let xe := vadd xb (vscale chi (vsub xr xb)) in
    if ext_lt (neg_fun xe) fr then nm_replace s n w xe (nmul rho chi) else nm_replace s n w xr rho
  else
    let temp := vscale gam (vsub xr xb) in
    let '(xc, upd_) := if ext_lt fr fw then (vadd xb temp, nmul rho gam) else (vsub xb temp, gam) in
    if ext_lt (neg_fun xc) (ext_min fr fw) then nm_replace s n w xc upd_
    else nm_shrink s n b w sig_n.

Definition nm_done (s : nm) (n : nat) (tol_f tol_x : T) (max_iter : Z) : bool * bool :=   (* (stop, fail) *)
  let fail := (max_iter <=? nit s)%Z in
  let term_f := ext_diff_lt (fget (fv s) (nth n (si s) O)) (fget (fv s) (nth 0 (si s) O)) tol_f in
  let term_x := nltb (lv s) tol_x in
  (term_x || term_f || fail, fail).

Fixpoint nm_loop (fuel : nat) (s : nm) (n : nat) (sig_n tol_f tol_x : T) (max_iter : Z) : option (nm * bool) :=
  let '(stop, fail) := nm_done s n tol_f tol_x max_iter in
  if stop then Some (s, fail)
  else match fuel with
       | O => None
       | S k => nm_loop k (nm_step s n sig_n) n sig_n tol_f tol_x max_iter
       end.

Fixpoint npow (x : T) (n : nat) : T := match n with O => none_ | S n' => nmul x (npow x n') end.

Definition nelder_mead (x0 : list T) (tol_f tol_x : T) (max_iter : Z) : nm_outcome T :=
  if existsb (fun lh => nltb (snd lh) (fst lh)) bounds then NMErr
  else
    let n := length x0 in
    match nm_loop (S (Z.to_nat max_iter)) (nm_init x0) n (npow sig n) tol_f tol_x max_iter with
    | None => NMFuel
    | Some (s, fail) =>
      let b := nth 0 (si s) O in
      NMRes (vget (vs s) b) (fget (fv s) b) (negb fail) (nit s) (vs s)
    end.
End NelderMead.

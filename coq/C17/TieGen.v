(* C17: tie lemmas between the scalar root finders of quantecon/optimize/root_finding.py as REGENERATED from /repo's
   current source (Gen/Kernels4.v) and the hand-written model C17/Model.v, for every NumX instance (exact Q, binary64).
   The generated kernels take the objective and its derivatives as functions T -> T (the *args tuple folded in), and
   abs / unary minus / np.sign / floating-point literals as extra parameters; they are instantiated with the model's
   nabs, nopp, nsign, nhalf, ntwo, nthree.  A generated kernel returns (exception text + results, true);
   `agrees` relates it to the model's outcome.  The model's ErrZeroDiv (Numba's error model for a float division by
   zero) is not Python text: the tie is stated for the runs in which the model does not report it. *)
From Coq Require Import ZArith List Bool String Lia.
From QE Require Import Base.Num Gen.Kernels Gen.Kernels2 Gen.Kernels3 Gen.Kernels4 C17.Model.
Import ListNotations.
Open Scope Z_scope.

Section Tie.
Context {T : Type} {NX : NumX T}.
Notation res := (string + (T * Z * Z * bool))%type.

Definition arg_error (s : string) : Prop :=
  s = "ValueError: tol is too small <= 0"%string \/ s = "ValueError: xtol is too small (<= 0)"%string \/
  s = "ValueError: maxiter must be greater than 0"%string.
Definition agrees (g : res) (o : outcome T) : Prop :=
  match o, g with
  | Res r fc it cv, inr v => v = (r, fc, it, cv)
  | ErrArg, inl s => arg_error s
  | ErrSign, inl s => s = "ValueError: f(a) and f(b) must have different signs"%string
  | ErrNoConv, inl s => s = "RuntimeError: Failed to converge"%string
  | ErrZeroDiv, _ => True
  | _, _ => False
  end.

Ltac eqtup := first [reflexivity | repeat (f_equal; try lia)].

Lemma finish_agrees disp p fc it (st : Z) : (st = 0 \/ st = -1) ->
  agrees (if disp && (st =? -1) then inl "RuntimeError: Failed to converge"%string else inr (p, fc, it, st =? 0))
         (finish disp (p, fc, it, st =? 0)).
Proof.
  intros [-> | ->]; unfold finish; cbn [Z.eqb negb andb]; destruct disp; cbn [andb negb agrees]; reflexivity.
Qed.

(* ------------------------------------------------------------------ _bisect_interval *)
Lemma gen_bisect_interval_tie (a b fa fb : T) :
  gen_bisect_interval nsign a b fa fb =
    (match bisect_interval a b fa fb with
     | None => inl "ValueError: f(a) and f(b) must have different signs"%string
     | Some (root, conv) => inr (root, if conv then 0 else -1)
     end, true).
Proof.
  unfold gen_bisect_interval, bisect_interval. cbv zeta.
  destruct (nltb nzero (nmul (nsign fa) (nsign fb))); [reflexivity|].
  destruct (neqb fa nzero), (neqb fb nzero); reflexivity.
Qed.

(* ------------------------------------------------------------------ newton *)
Section Newton.
Variables (f fp fp2 : T -> T) (tol : T).

Lemma newton_loop_tie : forall fuel i fc p0 ok,
  exists p0f, gen_newton_loop0 fuel i fc (-1) p0 (i - 1) p0 ok f fp tol nabs =
    (let '(r, mfc, mit, mconv) := newton_loop f fp tol fuel i p0 fc in
     (mfc, (if mconv then 0 else -1), r, mit - 1, p0f, ok)).
Proof.
  induction fuel as [|k IH]; intros i fc p0 ok; cbn [gen_newton_loop0 newton_loop].
  - exists p0. reflexivity.
  - cbv zeta. destruct (neqb (f p0) nzero).
    + exists p0. eqtup.
    + destruct (neqb (fp p0) nzero).
      * exists p0. eqtup.
      * destruct (nltb (nabs (nsub (nsub p0 (ndiv (f p0) (fp p0))) p0)) tol).
        -- exists p0. eqtup.
        -- destruct (IH (i + 1) (fc + 1 + 1) (nsub p0 (ndiv (f p0) (fp p0))) ok) as [p0f E].
           replace (i + 1 - 1) with i in E by lia. exists p0f. rewrite E.
           replace (fc + 1 + 1) with (fc + 2) by lia. reflexivity.
Qed.
Lemma newton_loop_first k i fc pj itrj p0 ok :
  gen_newton_loop0 (S k) i fc (-1) pj itrj p0 ok f fp tol nabs = gen_newton_loop0 (S k) i fc (-1) p0 (i - 1) p0 ok f fp tol nabs.
Proof.
  cbn [gen_newton_loop0]. cbv zeta. destruct (neqb (f p0) nzero); [reflexivity|].
  destruct (neqb (fp p0) nzero); [reflexivity|]. destruct (nltb _ tol); reflexivity.
Qed.

Theorem gen_newton_tie x0 maxiter disp :
  exists g, gen_newton nabs f x0 fp tol maxiter disp = (g, true) /\ agrees g (newton f fp tol x0 maxiter disp).
Proof.
  unfold gen_newton, newton. cbv zeta.
  destruct (nleb tol nzero); [eexists; split; [reflexivity|left; reflexivity] | ].
  destruct (maxiter <? 1) eqn:Em; [eexists; split; [reflexivity|right; right; reflexivity]|].
  apply Z.ltb_ge in Em. replace (maxiter - 0) with maxiter by lia.
  destruct (Z.to_nat maxiter) as [|k] eqn:Ek; [lia|].
  rewrite newton_loop_first. destruct (newton_loop_tie (S k) 0 0 (nmul none_ x0) true) as [p0f E].
  change (0 - 1) with (-1) in E |- *. rewrite E.
  destruct (newton_loop f fp tol (S k) 0 (nmul none_ x0) 0) as [[[r mfc] mit] mconv].
  replace (mit - 1 + 1) with mit by lia.
  destruct mconv, disp; cbn [Z.eqb andb]; eexists; (split; [reflexivity|]); unfold finish; cbn; reflexivity.
Qed.

(* ---------------- newton_halley *)
Lemma halley_loop_tie : forall fuel i fc p0 ok,
  match halley_loop f fp fp2 tol fuel i p0 fc with
  | None => True
  | Some (r, mfc, mit, mconv) =>
    exists p0f, gen_newton_halley_loop0 fuel i fc (-1) p0 (i - 1) p0 ok f fp fp2 tol nhalf nabs =
                (mfc, (if mconv then 0 else -1), r, mit - 1, p0f, ok)
  end.
Proof.
  induction fuel as [|k IH]; intros i fc p0 ok; cbn [gen_newton_halley_loop0 halley_loop].
  - exists p0. reflexivity.
  - cbv zeta. destruct (neqb (f p0) nzero); [exists p0; eqtup|].
    destruct (neqb (fp p0) nzero); [exists p0; eqtup|]. unfold chkdiv.
    destruct (neqb (nsub none_ (ndiv (nmul (nmul nhalf (ndiv (f p0) (fp p0))) (fp2 p0)) (fp p0))) nzero); [exact I|].
    set (p := nsub p0 (ndiv (ndiv (f p0) (fp p0)) (nsub none_ (ndiv (nmul (nmul nhalf (ndiv (f p0) (fp p0))) (fp2 p0)) (fp p0))))).
    destruct (nltb (nabs (nsub p p0)) tol); [exists p0; eqtup|].
    specialize (IH (i + 1) (fc + 2) p ok). replace (fc + 1 + 1) with (fc + 2) by lia.
    destruct (halley_loop f fp fp2 tol k (i + 1) p (fc + 2)) as [[[[r mfc] mit] mconv]|]; [|exact I].
    destruct IH as [p0f E]. replace (i + 1 - 1) with i in E by lia. exists p0f. exact E.
Qed.
Lemma halley_loop_first k i fc pj itrj p0 ok :
  gen_newton_halley_loop0 (S k) i fc (-1) pj itrj p0 ok f fp fp2 tol nhalf nabs =
  gen_newton_halley_loop0 (S k) i fc (-1) p0 (i - 1) p0 ok f fp fp2 tol nhalf nabs.
Proof.
  cbn [gen_newton_halley_loop0]. cbv zeta. destruct (neqb (f p0) nzero); [reflexivity|].
  destruct (neqb (fp p0) nzero); [reflexivity|]. destruct (nltb _ tol); reflexivity.
Qed.

Theorem gen_newton_halley_tie x0 maxiter disp :
  newton_halley f fp fp2 tol x0 maxiter disp <> ErrZeroDiv ->
  exists g, gen_newton_halley nhalf nabs f x0 fp fp2 tol maxiter disp = (g, true) /\
            agrees g (newton_halley f fp fp2 tol x0 maxiter disp).
Proof.
  unfold gen_newton_halley, newton_halley. cbv zeta. intro Hnz.
  destruct (nleb tol nzero); [eexists; split; [reflexivity|left; reflexivity] | ].
  destruct (maxiter <? 1) eqn:Em; [eexists; split; [reflexivity|right; right; reflexivity]|].
  apply Z.ltb_ge in Em. replace (maxiter - 0) with maxiter by lia.
  destruct (Z.to_nat maxiter) as [|k] eqn:Ek; [lia|].
  rewrite halley_loop_first. pose proof (halley_loop_tie (S k) 0 0 (nmul none_ x0) true) as E.
  change (0 - 1) with (-1) in E |- *.
  destruct (halley_loop f fp fp2 tol (S k) 0 (nmul none_ x0) 0) as [[[[r mfc] mit] mconv]|].
  - destruct E as [p0f E]. rewrite E. replace (mit - 1 + 1) with mit by lia.
    destruct mconv, disp; cbn [Z.eqb andb]; eexists; (split; [reflexivity|]); unfold finish_opt, finish; cbn; reflexivity.
  - exfalso. apply Hnz. reflexivity.
Qed.

(* ---------------- newton_secant *)
Lemma secant_loop_tie : forall fuel i p0 q0 p1 q1 fc ok,
  exists a b c d, gen_newton_secant_loop0 fuel i (i - 1) p1 (-1) p0 q0 p1 q1 fc ok f tol ntwo nabs =
    (let '(r, mfc, mit, mconv) := secant_loop f tol fuel i p0 q0 p1 q1 fc in
     (mit - 1, r, (if mconv then 0 else -1), a, b, c, d, mfc, ok)).
Proof.
  induction fuel as [|k IH]; intros i p0 q0 p1 q1 fc ok; cbn [gen_newton_secant_loop0 secant_loop].
  - exists p0, q0, p1, q1. reflexivity.
  - cbv zeta. destruct (neqb q1 q0); [exists p0, q0, p1, q1; eqtup|].
    set (p := nsub p1 (ndiv (nmul q1 (nsub p1 p0)) (nsub q1 q0))).
    destruct (nltb (nabs (nsub p p1)) tol); [exists p0, q0, p1, q1; eqtup|].
    destruct (IH (i + 1) p1 q1 p (f p) (fc + 1) ok) as (a & b & c & d & E). replace (i + 1 - 1) with i in E by lia.
    exists a, b, c, d. exact E.
Qed.
Lemma secant_loop_first k i itrj pj p0 q0 p1 q1 fc ok :
  gen_newton_secant_loop0 (S k) i itrj pj (-1) p0 q0 p1 q1 fc ok f tol ntwo nabs =
  gen_newton_secant_loop0 (S k) i (i - 1) p1 (-1) p0 q0 p1 q1 fc ok f tol ntwo nabs.
Proof.
  cbn [gen_newton_secant_loop0]. cbv zeta. destruct (neqb q1 q0); [reflexivity|]. destruct (nltb _ tol); reflexivity.
Qed.

Theorem gen_newton_secant_tie c4 x0 maxiter disp :
  exists g, gen_newton_secant c4 ntwo nabs f x0 tol maxiter disp = (g, true) /\
            agrees g (newton_secant f tol c4 x0 maxiter disp).
Proof.
  unfold gen_newton_secant, newton_secant. cbv zeta.
  destruct (nleb tol nzero); [eexists; split; [reflexivity|left; reflexivity] | ].
  destruct (maxiter <? 1) eqn:Em; [eexists; split; [reflexivity|right; right; reflexivity]|].
  apply Z.ltb_ge in Em. replace (maxiter - 0) with maxiter by lia.
  destruct (Z.to_nat maxiter) as [|k] eqn:Ek; [lia|].
  set (p1 := if nleb nzero x0 then nadd (nmul x0 (nadd none_ c4)) c4 else nsub (nmul x0 (nadd none_ c4)) c4).
  assert (Ep1 : (let '(p1', ok') := if nleb nzero x0 then (nadd (nmul x0 (nadd none_ c4)) c4, true)
                                     else (nsub (nmul x0 (nadd none_ c4)) c4, true) in (p1', ok')) = (p1, true))
    by (unfold p1; destruct (nleb nzero x0); reflexivity).
  destruct (nleb nzero x0) eqn:Ex; cbv beta iota zeta; fold p1;
    rewrite secant_loop_first;
    destruct (secant_loop_tie (S k) 0 (nmul none_ x0) (f (nmul none_ x0)) p1 (f p1) 2 true) as (a & b & c & d & E);
    change (0 - 1) with (-1) in E |- *; change (0 + 1 + 1) with 2; rewrite E;
    destruct (secant_loop f tol (S k) 0 (nmul none_ x0) (f (nmul none_ x0)) p1 (f p1) 2) as [[[r mfc] mit] mconv];
    replace (mit - 1 + 1) with mit by lia;
    destruct mconv, disp; cbn [Z.eqb andb]; eexists; (split; [reflexivity|]); unfold finish; cbn; reflexivity.
Qed.
End Newton.

(* ------------------------------------------------------------------ bisect *)
Section Bracket.
Variable f : T -> T.

Lemma bisect_loop_tie fa xtol rtol : forall fuel i dm fc xa ok,
  exists dm' xa', gen_bisect_loop0 fuel i dm fc xa nzero (-1) (i - 1) ok f xtol rtol fa nsign nhalf nabs =
    (let '(r, mfc, mit, mconv) := bisect_loop f fuel i xa dm fa xtol rtol fc in
     (dm', mfc, xa', r, (if mconv then 0 else -1), mit, ok)).
Proof.
  induction fuel as [|k IH]; intros i dm fc xa ok; cbn [gen_bisect_loop0 bisect_loop].
  - exists dm, xa. reflexivity.
  - cbv zeta. set (dm1 := nmul dm nhalf). set (xm := nadd xa dm1).
    destruct (nleb nzero (nmul (nsign (f xm)) (nsign fa))); cbv beta iota zeta;
      (destruct (neqb (f xm) nzero || nltb (nabs dm1) (nadd xtol (nmul rtol (nabs xm)))); [eexists; eexists; eqtup|]).
    + destruct (IH (i + 1) dm1 (fc + 1) xm ok) as (dm' & xa' & E). replace (i + 1 - 1) with i in E by lia.
      exists dm', xa'. exact E.
    + destruct (IH (i + 1) dm1 (fc + 1) xa ok) as (dm' & xa' & E). replace (i + 1 - 1) with i in E by lia.
      exists dm', xa'. exact E.
Qed.
Lemma bisect_loop_first fa xtol rtol k i dm fc xa root itrj ok :
  gen_bisect_loop0 (S k) i dm fc xa root (-1) itrj ok f xtol rtol fa nsign nhalf nabs =
  gen_bisect_loop0 (S k) i dm fc xa root (-1) (i - 1) ok f xtol rtol fa nsign nhalf nabs.
Proof.
  cbn [gen_bisect_loop0]. cbv zeta. destruct (nleb nzero _); cbv beta iota zeta; destruct (_ || _); reflexivity.
Qed.

Theorem gen_bisect_tie a b xtol rtol maxiter disp :
  exists g, gen_bisect nsign nhalf nabs f a b xtol rtol maxiter disp = (g, true) /\
            agrees g (bisect f a b xtol rtol maxiter disp).
Proof.
  unfold gen_bisect, bisect. cbv zeta.
  destruct (nleb xtol nzero); [eexists; split; [reflexivity|right; left; reflexivity] | ].
  destruct (maxiter <? 1) eqn:Em; [eexists; split; [reflexivity|right; right; reflexivity]|].
  apply Z.ltb_ge in Em. replace (maxiter - 0) with maxiter by lia.
  rewrite gen_bisect_interval_tie. cbn [andb].
  destruct (bisect_interval (nmul a none_) (nmul b none_) (f (nmul a none_)) (f (nmul b none_))) as [[root conv]|] eqn:Ebi;
    [|eexists; split; [reflexivity|reflexivity]].
  destruct conv; cbv beta iota zeta; cbn [Z.eqb].
  - destruct disp; cbn [andb]; eexists; (split; [reflexivity|reflexivity]).
  - assert (Hroot : root = nzero).
    { unfold bisect_interval in Ebi. destruct (nltb nzero _); [discriminate|]. cbv zeta in Ebi.
      destruct (neqb (f (nmul a none_)) nzero), (neqb (f (nmul b none_)) nzero); inversion Ebi; reflexivity. }
    subst root. destruct (Z.to_nat maxiter) as [|k] eqn:Ek; [lia|].
    rewrite bisect_loop_first.
    destruct (bisect_loop_tie (f (nmul a none_)) xtol rtol (S k) 0 (nsub (nmul b none_) (nmul a none_)) 2 (nmul a none_) true) as (dm' & xa' & E).
    change (0 - 1) with (-1) in E |- *. rewrite E.
    destruct (bisect_loop f (S k) 0 (nmul a none_) (nsub (nmul b none_) (nmul a none_)) (f (nmul a none_)) xtol rtol 2) as [[[r mfc] mit] mconv].
    destruct mconv, disp; cbn [Z.eqb andb]; eexists; (split; [reflexivity|]); unfold finish; cbn; reflexivity.
Qed.

(* ---------------- brentq *)
(* np.inf (parameter inf_) is assigned to stry when the inverse-quadratic denominator is 0; the model then takes the
   bisection step directly.  They agree when 2*|inf_| is not below the step bound at those states of the run: *)
Fixpoint binf_ok (inf_ : T) (fuel : nat) (itr : Z) (s : bq) (xtol rtol : T) (fc : Z) : Prop :=
  match fuel with
  | O => True
  | S k =>
    let s2 := bq_swap (bq_rebracket s) in
    let delta := bq_delta s2 xtol rtol in
    let sbis := bq_sbis s2 in
    if neqb (fcur s2) nzero || nltb (nabs sbis) delta then True
    else
      (nltb delta (nabs (spre s2)) && nltb (nabs (fcur s2)) (nabs (fpre s2)) = true -> bq_stry s2 = TInf ->
       nltb (nmul ntwo (nabs inf_)) (nmin (nabs (spre s2)) (nsub (nmul nthree (nabs sbis)) delta)) = false) /\
      match bq_advance f s2 delta sbis with
      | None => True
      | Some s3 => binf_ok inf_ k (itr + 1) s3 xtol rtol (fc + 1)
      end
  end.

Ltac ifs H :=
  repeat (match goal with
          | |- context [if ?c then _ else _] =>
            (lazymatch c with context [if _ then _ else _] => fail | _ => idtac end);
            let E := fresh "E" in destruct c eqn:E; try rewrite ?E in H;
            cbn [xpre xcur xblk fpre fcur fblk spre scur andb orb] in *; cbv beta iota zeta in *
          end).

Lemma brentq_loop_tie inf_ xtol rtol : forall fuel i itrj xb fb sp sc xp xc fpr fcu fc ok, itrj = i - 1 ->
  binf_ok inf_ fuel i {| xpre := xp; xcur := xc; xblk := xb; fpre := fpr; fcur := fcu; fblk := fb; spre := sp; scur := sc |} xtol rtol fc ->
  match brentq_loop f fuel i {| xpre := xp; xcur := xc; xblk := xb; fpre := fpr; fcur := fcu; fblk := fb; spre := sp; scur := sc |} xtol rtol fc with
  | None => True
  | Some (r, mfc, mit, mconv) =>
    exists j1 j2 j3 j4 j5 j6 j7 j8,
    gen_brentq_loop0 fuel i xb fb sp sc xp xc fpr fcu (-1) nzero itrj fc ok f xtol rtol nsign nabs ntwo nopp inf_ nthree =
      (j1, j2, j3, j4, j5, j6, j7, j8, (if mconv then 0 else -1), r, mit, mfc, ok)
  end.
Proof.
  induction fuel as [|k IH]; intros i itrj xb fb sp sc xp xc fpr fcu fc ok Hi Hb.
  - cbn [brentq_loop gen_brentq_loop0]. subst itrj. do 8 eexists. reflexivity.
  - cbn [binf_ok] in Hb. cbn [brentq_loop gen_brentq_loop0].
    unfold bq_advance, bq_steps, bq_stry, bq_delta, bq_sbis, bq_swap, bq_rebracket, chkdiv, tv_of, nmin in *.
    cbn [xpre xcur xblk fpre fcur fblk spre scur] in *. cbv zeta in *.
    ifs Hb;
      try exact I;
      try (do 8 eexists; eqtup);
      try (destruct Hb as [Hinf _]; specialize (Hinf eq_refl eq_refl); discriminate);
      try (destruct Hb as [_ Hb]; apply IH; [lia|exact Hb]);
      try (destruct Hb as [Hinf _]; specialize (Hinf eq_refl eq_refl); discriminate).
Qed.

Ltac ifs0 :=
  repeat (match goal with
          | |- context [if ?c then _ else _] =>
            (lazymatch c with context [if _ then _ else _] => fail | _ => idtac end);
            destruct c; cbv beta iota zeta
          end).
Lemma brentq_loop_first inf_ xtol rtol k i itrj xb fb sp sc xp xc fpr fcu fc ok :
  gen_brentq_loop0 (S k) i xb fb sp sc xp xc fpr fcu (-1) nzero itrj fc ok f xtol rtol nsign nabs ntwo nopp inf_ nthree =
  gen_brentq_loop0 (S k) i xb fb sp sc xp xc fpr fcu (-1) nzero (i - 1) fc ok f xtol rtol nsign nabs ntwo nopp inf_ nthree.
Proof. cbn [gen_brentq_loop0]. cbv zeta. ifs0; reflexivity. Qed.

Theorem gen_brentq_tie inf_ a b xtol rtol maxiter disp :
  brentq f a b xtol rtol maxiter disp <> ErrZeroDiv ->
  binf_ok inf_ (Z.to_nat maxiter) 0
    {| xpre := nmul a none_; xcur := nmul b none_; xblk := nzero; fpre := f (nmul a none_); fcur := f (nmul b none_);
       fblk := nzero; spre := nzero; scur := nzero |} xtol rtol 2 ->
  exists g, gen_brentq nsign nabs ntwo nopp inf_ nthree f a b xtol rtol maxiter disp = (g, true) /\
            agrees g (brentq f a b xtol rtol maxiter disp).
Proof.
  unfold gen_brentq, brentq. cbv zeta. intros Hnz Hb.
  destruct (nleb xtol nzero); [eexists; split; [reflexivity|right; left; reflexivity] | ].
  destruct (maxiter <? 1) eqn:Em; [eexists; split; [reflexivity|right; right; reflexivity]|].
  apply Z.ltb_ge in Em. replace (maxiter - 0) with maxiter by lia.
  rewrite gen_bisect_interval_tie. cbn [andb].
  destruct (bisect_interval (nmul a none_) (nmul b none_) (f (nmul a none_)) (f (nmul b none_))) as [[root conv]|] eqn:Ebi;
    [|eexists; split; [reflexivity|reflexivity]].
  destruct conv; cbv beta iota zeta; cbn [Z.eqb].
  - destruct disp; cbn [andb]; eexists; (split; [reflexivity|reflexivity]).
  - assert (Hroot : root = nzero).
    { unfold bisect_interval in Ebi. destruct (nltb nzero _); [discriminate|]. cbv zeta in Ebi.
      destruct (neqb (f (nmul a none_)) nzero), (neqb (f (nmul b none_)) nzero); inversion Ebi; reflexivity. }
    subst root. destruct (Z.to_nat maxiter) as [|k] eqn:Ek; [lia|].
    rewrite brentq_loop_first.
    pose proof (brentq_loop_tie inf_ xtol rtol (S k) 0 (0 - 1) nzero nzero nzero nzero (nmul a none_) (nmul b none_)
                  (f (nmul a none_)) (f (nmul b none_)) 2 true eq_refl Hb) as E.
    destruct (brentq_loop f (S k) 0 _ xtol rtol 2) as [[[[r mfc] mit] mconv]|]; [|exfalso; apply Hnz; reflexivity].
    destruct E as (j1 & j2 & j3 & j4 & j5 & j6 & j7 & j8 & E). rewrite E.
    destruct mconv, disp; cbn [Z.eqb andb]; eexists; (split; [reflexivity|]); unfold finish_opt, finish; cbn; reflexivity.
Qed.
End Bracket.
End Tie.

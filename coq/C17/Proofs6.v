(* C17 proofs, part 6: nelder_mead over exact rationals: the best stored value never gets worse, hence the
   reported value is at least the value at every vertex of the initial simplex.  The objective f is any function
   of rational vectors that respects == componentwise (Hypothesis f_wd), termination tolerance tol_f > 0. *)
From Coq Require Import ZArith QArith Qabs List Bool Lia Lqa Morphisms.
From QE Require Import Base.Num C17.Model C17.Proofs2 C17.Proofs5.
Import ListNotations.

Section NMBest.
Variable f : list Q -> Q.
Variable bounds : list (Q * Q).
Variables (rho chi gam sig nonzdelt zdelt : Q).
Hypothesis f_wd : forall x y, Forall2 Qeq x y -> f x == f y.

Notation negf := (neg_fun f bounds).

(* a <= b in Q + {+inf} *)
Definition ext_le (a b : ext Q) : Prop := ext_lt b a = false.
Definition ext_eq (a b : ext Q) : Prop :=
  match a, b with Fin x, Fin y => x == y | PInf, PInf => True | _, _ => False end.

Lemma ext_lt_irrefl a : ext_lt (T := Q) a a = false.
Proof. destruct a; simpl; [|reflexivity]. destruct (Qltb v v) eqn:E; [apply Qltb_lt in E; lra|reflexivity]. Qed.
Lemma ext_lt_trans a b c : ext_lt (T := Q) a b = true -> ext_lt b c = true -> ext_lt a c = true.
Proof.
  destruct a, b, c; simpl; try discriminate; try reflexivity.
  intros H1 H2. apply Qltb_lt in H1. apply Qltb_lt in H2. apply Qltb_lt. lra.
Qed.
Lemma ext_le_refl a : ext_le a a. Proof. apply ext_lt_irrefl. Qed.
Lemma ext_le_trans a b c : ext_le a b -> ext_le b c -> ext_le a c.
Proof.
  unfold ext_le. destruct a, b, c; simpl; try discriminate; try reflexivity.
  intros H1 H2. apply Qltb_false in H1. apply Qltb_false in H2.
  destruct (Qltb v1 v) eqn:E; [apply Qltb_lt in E; lra|reflexivity].
Qed.
Lemma ext_lt_le a b : ext_lt (T := Q) a b = true -> ext_le a b.
Proof.
  unfold ext_le. destruct a, b; simpl; try discriminate; try reflexivity.
  intros H. apply Qltb_lt in H. destruct (Qltb v0 v) eqn:E; [apply Qltb_lt in E; lra|reflexivity].
Qed.
Lemma ext_le_pinf a : ext_le a PInf. Proof. reflexivity. Qed.
Lemma ext_eq_le a b : ext_eq a b -> ext_le a b.
Proof.
  unfold ext_le. destruct a, b; simpl; try contradiction; try reflexivity.
  intros H. destruct (Qltb v0 v) eqn:E; [apply Qltb_lt in E; lra|reflexivity].
Qed.

(* the objective and the bounds test respect == *)
Lemma in_bounds_wd : forall b x y, Forall2 Qeq x y -> in_bounds_go x b = in_bounds_go y b.
Proof.
  intros b x y H. revert b. induction H as [|u v x y E H IH]; intros b; [reflexivity|].
  destruct b as [|[lo hi] b]; [reflexivity|]. cbn [in_bounds_go nleb nx_num NumXQ NumQ]. rewrite (IH b).
  assert (Qle_bool lo u = Qle_bool lo v).
  { destruct (Qle_bool lo u) eqn:A, (Qle_bool lo v) eqn:B; try reflexivity.
    - apply Qle_bool_iff in A. rewrite E in A. apply Qle_bool_iff in A. congruence.
    - apply Qle_bool_iff in B. rewrite <- E in B. apply Qle_bool_iff in B. congruence. }
  assert (Qle_bool u hi = Qle_bool v hi).
  { destruct (Qle_bool u hi) eqn:A, (Qle_bool v hi) eqn:B; try reflexivity.
    - apply Qle_bool_iff in A. rewrite E in A. apply Qle_bool_iff in A. congruence.
    - apply Qle_bool_iff in B. rewrite <- E in B. apply Qle_bool_iff in B. congruence. }
  rewrite H0, H1. reflexivity.
Qed.
Lemma negf_wd x y : Forall2 Qeq x y -> ext_eq (negf x) (negf y).
Proof.
  intros H. unfold neg_fun, in_bounds. rewrite (in_bounds_wd bounds x y H).
  destruct (in_bounds_go y bounds); simpl; [|exact I]. rewrite (f_wd x y H). reflexivity.
Qed.

(* the shrink step applied to the best vertex itself (possible only when the order array has duplicates)
   leaves it unchanged up to == *)
Lemma shrink_self : forall (v : list Q), Forall2 Qeq (vadd v (vscale sig (vsub v v))) v.
Proof.
  induction v as [|x v IH]; simpl; [constructor|]. constructor; [|exact IH].
  cbn [nadd nmul nsub nx_num NumXQ NumQ]. rewrite Qaddr_eq, Qmulr_eq, Qsubr_eq. ring.
Qed.

(* ---- the order array starts with a minimal value ---- *)
Definition head_min (F : list (ext Q)) (l : list nat) : Prop :=
  forall x, In x l -> ext_le (fget F (hd O l)) (fget F x).

Lemma ins_sorted_in (vals : list (ext Q)) k : forall l x, In x (ins_sorted vals k l) -> x = k \/ In x l.
Proof.
  induction l as [|e r IH]; intros x H; simpl in H.
  - destruct H as [H|[]]; left; symmetry; exact H.
  - destruct (ext_lt _ _); simpl in H.
    + destruct H as [H|H]; [left; symmetry; exact H|right; exact H].
    + destruct H as [H|H]; [right; left; exact H|]. destruct (IH _ H) as [A|A]; [left; exact A|right; right; exact A].
Qed.

Lemma ins_sorted_head_min (F : list (ext Q)) k l : head_min F l -> head_min F (ins_sorted F k l).
Proof.
  intros H. destruct l as [|e r]; simpl.
  - intros x [Hx|[]]. subst. apply ext_le_refl.
  - unfold fget in *. destruct (ext_lt (nth k F PInf) (nth e F PInf)) eqn:E.
    + intros x [Hx|Hx]; simpl; [subst; apply ext_le_refl|].
      eapply ext_le_trans; [apply ext_lt_le; exact E|]. apply (H x Hx).
    + intros x Hx. simpl. destruct Hx as [Hx|Hx]; [subst; apply ext_le_refl|].
      destruct (ins_sorted_in F k r x Hx) as [A|A]; [subst; exact E|apply (H x); right; exact A].
Qed.

Lemma argsort_head_min (F : list (ext Q)) : head_min F (argsort F) /\ forall i, (i < length F)%nat -> In i (argsort F).
Proof.
  unfold argsort.
  assert (G : forall ks acc, head_min F acc ->
            head_min F (fold_left (fun acc k => ins_sorted F k acc) ks acc) /\
            forall i, In i ks \/ In i acc -> In i (fold_left (fun acc k => ins_sorted F k acc) ks acc)).
  { induction ks as [|k ks IH]; intros acc H; simpl; [split; [exact H|intros i [[]|A]; exact A]|].
    destruct (IH (ins_sorted F k acc) (ins_sorted_head_min F k acc H)) as [A B]. split; [exact A|].
    intros i [[Hi|Hi]|Hi]; apply B.
    - right. subst. clear. induction acc as [|e r IH]; simpl; [left; reflexivity|].
      destruct (ext_lt _ _); [left; reflexivity|right; exact IH].
    - left. exact Hi.
    - right. clear -Hi. induction acc as [|e r IH]; simpl in *; [contradiction|].
      destruct (ext_lt _ _); [right; exact Hi|]. destruct Hi as [Hi|Hi]; [left; exact Hi|right; apply IH; exact Hi]. }
  destruct (G (seq 0 (length F)) [] (fun x (H : In x []) => match H with end)) as [A B].
  split; [exact A|]. intros i Hi. apply B. left. apply in_seq. lia.
Qed.

(* ---- one pass does not make the best value worse ---- *)
Definition best (s : @nm Q) : ext Q := fget (fv s) (nth 0 (si s) O).

Lemma insert_first_head (F : list (ext Q)) w : forall l pre S', insert_first F w pre l = Some S' ->
  (pre = [] /\ (exists j r, l = j :: r /\ ext_lt (fget F w) (fget F j) = true /\ hd O S' = w)) \/
  hd O S' = hd O (rev pre ++ l).
Proof.
  induction l as [|j r IH]; intros pre S' H; cbn [insert_first] in H; [discriminate|].
  destruct (ext_lt (fget F w) (fget F j)) eqn:E.
  - inversion H; subst. destruct pre as [|p pre]; [left; split; [reflexivity|exists j, r; repeat split; assumption]|].
    right. simpl. destruct (rev pre); reflexivity.
  - apply IH in H. destruct H as [[A _]|H]; [discriminate|]. right. rewrite H. simpl. rewrite <- app_assoc. reflexivity.
Qed.

Lemma nm_replace_best n s w x m : nm_ok f bounds n s -> (w < S n)%nat ->
  (w = nth 0 (si s) O -> best s = PInf) ->
  ext_le (best (nm_replace f bounds s n w x m)) (best s).
Proof.
  intros [L [LF Vo] [Ls Fa]] Hw Hwb. unfold best, nm_replace. cbn [vs fv si].
  set (F' := upd (fv s) w (negf x)).
  destruct (si s) as [|b r] eqn:ES; [simpl in Ls; lia|]. cbn [nth] in *.
  destruct (Nat.eq_dec w b) as [E|E].
  { pose proof (Hwb E) as P. unfold best in P. rewrite ES in P. cbn [nth] in P. rewrite P. apply ext_le_pinf. }
  assert (Fb : fget F' b = fget (fv s) b) by (unfold F', fget; apply nth_upd_neq; exact E).
  destruct (insert_first F' w [] (b :: r)) as [S'|] eqn:EI.
  - destruct (insert_first_head F' w _ _ _ EI) as [[_ (j & r' & E1 & E2 & E3)]|H].
    + inversion E1; subst j r'. change (nth 0 S' O) with (nth 0 S' O).
      replace (nth 0 S' 0%nat) with (hd O S') by (destruct S'; reflexivity). rewrite E3.
      rewrite <- Fb. apply ext_lt_le. exact E2.
    + replace (nth 0 S' 0%nat) with (hd O S') by (destruct S'; reflexivity). rewrite H. simpl. rewrite Fb. apply ext_le_refl.
  - simpl. rewrite Fb. apply ext_le_refl.
Qed.

Lemma shrink_fold_best (b : nat) : forall tail_ V F, vals_ok f bounds V F -> (b < length V)%nat ->
  let '(V', F') := fold_left (fun (VF : list (list Q) * list (ext Q)) i =>
                    let '(V, F) := VF in
                    let vb := vget V b in
                    let vi := vadd vb (vscale sig (vsub (vget V i) vb)) in
                    (upd V i vi, upd F i (negf vi))) tail_ (V, F) in
  ext_eq (fget F' b) (fget F b).
Proof.
  induction tail_ as [|i r IH]; intros V F H Hb; simpl.
  - destruct (fget F b); simpl; [reflexivity|exact I].
  - set (vi := vadd (vget V b) (vscale sig (vsub (vget V i) (vget V b)))).
    pose proof (vals_ok_upd f bounds V F i vi H) as H'.
    specialize (IH (upd V i vi) (upd F i (negf vi)) H' ltac:(rewrite upd_length; exact Hb)).
    destruct (fold_left _ r (upd V i vi, upd F i (negf vi))) as [V' F'].
    assert (EQ : ext_eq (fget (upd F i (negf vi)) b) (fget F b)).
    { destruct (Nat.eq_dec i b) as [E|E].
      - subst i. destruct H as [LF Hv]. unfold fget at 1. rewrite nth_upd_eq by lia.
        rewrite (Hv b Hb). apply negf_wd. unfold vi. apply shrink_self.
      - unfold fget. rewrite nth_upd_neq by exact E. destruct (nth b F PInf); simpl; [reflexivity|exact I]. }
    destruct (fget F' b), (fget (upd F i (negf vi)) b), (fget F b); simpl in *; try contradiction; try exact I.
    rewrite IH. exact EQ.
Qed.

Lemma nm_shrink_best n s w sn : nm_ok f bounds n s ->
  ext_le (best (nm_shrink f bounds sig s n (nth 0 (si s) O) w sn)) (best s).
Proof.
  intros [L Vo [Ls Fa]]. unfold best, nm_shrink.
  assert (Hb : (nth 0 (si s) O < length (vs s))%nat).
  { rewrite L. rewrite Forall_forall in Fa. apply Fa. apply nth_In. lia. }
  pose proof (shrink_fold_best (nth 0 (si s) O) (tl (si s)) (vs s) (fv s) Vo Hb) as SF.
  destruct (fold_left _ (tl (si s)) (vs s, fv s)) as [V' F']. cbn [vs fv si nth].
  apply ext_eq_le. exact SF.
Qed.

Lemma nm_step_best n s sn tol_f tol_x mi : 0 < tol_f -> nm_ok f bounds n s ->
  fst (nm_done s n tol_f tol_x mi) = false ->
  ext_le (best (nm_step f bounds rho chi gam sig s n sn)) (best s).
Proof.
  intros Ht H D. pose proof (ok_idx f bounds n s H) as Io.
  assert (Hw : (nth n (si s) O < S n)%nat) by (apply (nth_idx_ok n); [exact Io|lia]).
  assert (WB : nth n (si s) O = nth 0 (si s) O -> best s = PInf).
  { intros E. unfold nm_done in D. cbn [fst] in D.
    apply orb_false_iff in D. destruct D as [D _]. apply orb_false_iff in D. destruct D as [_ D].
    rewrite E in D. unfold best. destruct (fget (fv s) (nth 0 (si s) O)) as [v|]; [|reflexivity].
    simpl in D. exfalso. assert (Qltb (Qsubr v v) tol_f = true) by (apply Qltb_lt; rewrite Qsubr_eq; lra). congruence. }
  unfold nm_step. cbv zeta.
  repeat match goal with
  | |- ext_le (best (if ?c then _ else _)) _ => destruct c
  | |- ext_le (best (let '(_, _) := (if ?c then _ else _) in _)) _ => destruct c
  end; try (apply nm_replace_best; assumption); apply nm_shrink_best; exact H.
Qed.

Lemma nm_loop_best n sn tol_f tol_x mi : 0 < tol_f -> forall fuel s s' fail,
  nm_ok f bounds n s ->
  nm_loop f bounds rho chi gam sig fuel s n sn tol_f tol_x mi = Some (s', fail) -> ext_le (best s') (best s).
Proof.
  intros Ht. induction fuel as [|k IH]; intros s s' fail H E; cbn [nm_loop] in E.
  - destruct (nm_done s n tol_f tol_x mi) as [stop fl]. destruct stop; [|discriminate]. inversion E; subst. apply ext_le_refl.
  - destruct (nm_done s n tol_f tol_x mi) as [stop fl] eqn:D. destruct stop.
    + inversion E; subst. apply ext_le_refl.
    + eapply ext_le_trans; [apply (IH _ _ _ (nm_step_ok f bounds rho chi gam sig n s sn H) E)|].
      apply (nm_step_best n s sn tol_f tol_x mi Ht H). rewrite D. reflexivity.
Qed.

(* the reported value is at least as good as every vertex of the initial simplex:
   neg_fun <= -f(v_i) (or +inf) for all i, i.e. fun >= f(v_i) for every initial vertex inside the bounds *)
Theorem nelder_mead_not_below_initial : forall x0 tol_f tol_x max_iter x nf suc nit_ V,
  0 < tol_f ->
  nelder_mead f bounds rho chi gam sig nonzdelt zdelt x0 tol_f tol_x max_iter = NMRes x nf suc nit_ V ->
  forall i, (i <= length x0)%nat -> ext_le nf (negf (nth i (init_simplex nonzdelt zdelt x0) [])).
Proof.
  intros x0 tol_f tol_x mi x nf suc nit_ V Ht H i Hi. unfold nelder_mead in H.
  destruct (existsb _ bounds); [discriminate|].
  destruct (nm_loop f bounds rho chi gam sig (S (Z.to_nat mi)) (nm_init f bounds nonzdelt zdelt x0) (length x0)
              (npow sig (length x0)) tol_f tol_x mi) as [[s fail]|] eqn:E; [|discriminate].
  inversion H; subst. clear H.
  pose proof (nm_init_ok f bounds nonzdelt zdelt x0) as I0.
  apply (nm_loop_best _ _ _ _ _ Ht) in E; [|exact I0].
  eapply ext_le_trans; [exact E|]. unfold best, nm_init. cbn [fv si].
  set (Vi := init_simplex nonzdelt zdelt x0). set (F := map negf Vi).
  assert (LV : length Vi = S (length x0)) by (unfold Vi, init_simplex; simpl; rewrite map_length, seq_length; reflexivity).
  destruct (argsort_head_min F) as [HM HI].
  assert (EF : negf (nth i Vi []) = fget F i).
  { unfold F, fget. rewrite (nth_indep _ PInf (negf [])) by (rewrite map_length, LV; lia). symmetry. apply map_nth. }
  rewrite EF. replace (nth 0 (argsort F) 0%nat) with (hd O (argsort F)) by (destruct (argsort F); reflexivity).
  apply HM. apply HI. unfold F. rewrite map_length, LV. lia.
Qed.
End NMBest.

(* C17: tie lemma between brent_max of quantecon/optimize/scalar_maximization.py as REGENERATED from /repo's current
   source (Gen/Kernels4.v) and the hand-written model C17/Model.v, for every NumX instance and every objective.
   np.sqrt(2.2e-16) and np.sqrt(5.0) are extra parameters of the generated kernel; the model takes sqrt_eps and
   golden_mean = 0.5*(3.0 - sqrt5).  The while loop gets the model's fuel S (Z.to_nat maxiter); the tie is stated for the
   runs in which the model does not run out of fuel (BMFuel).  Proof by stages of the loop body: parabolic-fit test,
   golden-section step, sign/trial point, update of the bracket and of the three best points, tolerances/termination. *)
From Coq Require Import String ZArith List Bool Lia.
From QE Require Import Base.Num Gen.Kernels Gen.Kernels2 Gen.Kernels3 Gen.Kernels4 C17.Model.
Import ListNotations.
Open Scope Z_scope.

Section Tie.
Context {T : Type} {NX : NumX T}.
Variables (f : T -> T) (sqrt_eps golden_mean xtol : T) (maxfun : Z).

(* ---------------- the stages of the generated loop body (text of Gen/Kernels4.v, named) *)
Definition g_st1 (e rat x : T) (ok : bool) (xf nfc fulc fx ffulc fnfc a b xm tol1 tol2 : T) : Z * T * T * T * bool :=
  (if (nltb tol1 (nabs e)) then
   let golden := 0 in
   let r := (nmul (nsub xf nfc) (nsub fx ffulc)) in
   let q := (nmul (nsub xf fulc) (nsub fx fnfc)) in
   let p := (nsub (nmul (nsub xf fulc) q) (nmul (nsub xf nfc) r)) in
   let q := (nmul ntwo (nsub q r)) in
   let '(p, ok) := (if (nltb nzero q) then let p := (nopp p) in (p, ok) else (p, ok)) in
   let q := (nabs q) in
   let r := e in
   let e := rat in
   let '(rat, x, golden, ok) :=
     (if ((nltb (nabs p) (nabs (nmul (nmul nhalf q) r))) && (nltb (nmul q (nsub a xf)) p) && (nltb p (nmul q (nsub b xf)))) then
      let rat := (ndiv (nadd p nzero) q) in
      let x := (nadd xf rat) in
      let '(rat, ok) := (if ((nltb (nsub x a) tol2) || (nltb (nsub b x) tol2)) then
                         let si := (nadd (nsign (nsub xm xf)) (if (neqb (nsub xm xf) nzero) then none_ else nzero)) in
                         let rat := (nmul tol1 si) in (rat, ok)
                         else (rat, ok)) in
      (rat, x, golden, ok)
      else let golden := 1 in (rat, x, golden, ok)) in
   (golden, e, rat, x, ok)
   else (1, e, rat, x, ok)).

Definition g_st2 (golden : Z) (e rat : T) (ok : bool) (a b xf xm : T) : T * T * bool :=
  (if (negb (golden =? 0)) then
   let '(e, ok) := (if (nleb xm xf) then let e := (nsub a xf) in (e, ok) else let e := (nsub b xf) in (e, ok)) in
   let rat := (nmul golden_mean e) in (e, rat, ok)
   else (e, rat, ok)).

Definition g_si (rat : T) (ok : bool) : T * bool :=
  (if (neqb rat nzero) then let si := (nadd (nsign rat) none_) in (si, ok) else let si := (nsign rat) in (si, ok)).

Definition g_upd (fu x : T) (ok : bool) (a b fulc ffulc nfc fnfc xf fx : T) : T * T * T * T * T * T * T * T * bool :=
  (if (nleb fu fx) then
   let '(a, b, ok) := (if (nleb xf x) then let a := xf in (a, b, ok) else let b := xf in (a, b, ok)) in
   let fulc := nfc in let ffulc := fnfc in let nfc := xf in let fnfc := fx in let xf := x in let fx := fu in
   (a, b, fulc, ffulc, nfc, fnfc, xf, fx, ok)
   else
   let '(a, b, ok) := (if (nltb x xf) then let a := x in (a, b, ok) else let b := x in (a, b, ok)) in
   let '(fulc, ffulc, nfc, fnfc, ok) :=
     (if ((nleb fu fnfc) || (neqb nfc xf)) then
      let fulc := nfc in let ffulc := fnfc in let nfc := x in let fnfc := fu in (fulc, ffulc, nfc, fnfc, ok)
      else
      let '(fulc, ffulc, ok) := (if ((nleb fu ffulc) || (neqb fulc xf) || (neqb fulc nfc)) then
                                 let fulc := x in let ffulc := fu in (fulc, ffulc, ok)
                                 else (fulc, ffulc, ok)) in
      (fulc, ffulc, nfc, fnfc, ok)) in
   (a, b, fulc, ffulc, nfc, fnfc, xf, fx, ok)).

Notation gloop := (fun fuel e rat x num fulc ffulc nfc fnfc xf fx a b xm tol1 tol2 st ok =>
  gen_brent_max_loop0 fuel e rat x num fulc ffulc nfc fnfc xf fx a b xm tol1 tol2 st ok f xtol maxfun
     sqrt_eps golden_mean nhalf nthree nopp nabs ntwo nsign).

Lemma gen_step_eq k e rat x num fulc ffulc nfc fnfc xf fx a b xm tol1 tol2 st ok :
  gloop (S k) e rat x num fulc ffulc nfc fnfc xf fx a b xm tol1 tol2 st ok =
  if (nltb (nsub tol2 (nmul nhalf (nsub b a))) (nabs (nsub xf xm))) then
    let '(golden, e, rat, x, ok) := g_st1 e rat x ok xf nfc fulc fx ffulc fnfc a b xm tol1 tol2 in
    let '(e, rat, ok) := g_st2 golden e rat ok a b xf xm in
    let '(si, ok) := g_si rat ok in
    let x := (nadd xf (nmul si (if nltb (nabs rat) tol1 then tol1 else (nabs rat)))) in
    let fu := (nopp (f x)) in
    let num := (num + 1) in
    let '(a, b, fulc, ffulc, nfc, fnfc, xf, fx, ok) := g_upd fu x ok a b fulc ffulc nfc fnfc xf fx in
    let xm := (nmul nhalf (nadd a b)) in
    let tol1 := (nadd (nmul sqrt_eps (nabs xf)) (ndiv xtol nthree)) in
    let tol2 := (nmul ntwo tol1) in
    if (num >=? maxfun) then (e, rat, x, num, fulc, ffulc, nfc, fnfc, xf, fx, a, b, xm, tol1, tol2, 1, ok)
    else gloop k e rat x num fulc ffulc nfc fnfc xf fx a b xm tol1 tol2 st ok
  else (e, rat, x, num, fulc, ffulc, nfc, fnfc, xf, fx, a, b, xm, tol1, tol2, st, ok).
Proof. reflexivity. Qed.

(* ---------------- each stage against the model *)
Lemma st1_tie (s : bm) x ok : exists x',
  g_st1 (ee s) (rat s) x ok (xf s) (nfc s) (fulc s) (fx s) (ffulc s) (fnfc s) (ba s) (bb s) (xm s) (tol1 s) (tol2 s) =
  (let '(g, r1, e1) := (if nltb (tol1 s) (nabs (ee s)) then bm_parabolic s else (true, rat s, ee s)) in
   ((if g then 1 else 0), e1, r1, x', ok)).
Proof.
  unfold g_st1, bm_parabolic. cbv zeta. destruct (nltb (tol1 s) (nabs (ee s))); [|exists x; reflexivity].
  destruct (nltb nzero (nmul ntwo (nsub (nmul (nsub (xf s) (fulc s)) (nsub (fx s) (fnfc s))) (nmul (nsub (xf s) (nfc s)) (nsub (fx s) (ffulc s))))));
    cbv beta iota zeta;
    (destruct (_ && _ && _); cbv beta iota zeta; [|eexists; reflexivity]);
    (destruct (_ || _); cbv beta iota zeta; eexists; reflexivity).
Qed.

Lemma st2_tie (g : bool) e1 r1 ok a b xf0 xm0 :
  g_st2 (if g then 1 else 0) e1 r1 ok a b xf0 xm0 =
  (let '(r2, e2) := (if g then let e := if nleb xm0 xf0 then nsub a xf0 else nsub b xf0 in (nmul golden_mean e, e) else (r1, e1)) in
   (e2, r2, ok)).
Proof. unfold g_st2. destruct g; cbn [Z.eqb negb]; [destruct (nleb xm0 xf0)|]; reflexivity. Qed.

Lemma si_tie r2 ok : g_si r2 ok = ((if neqb r2 nzero then nadd (nsign r2) none_ else nsign r2), ok).
Proof. unfold g_si. destruct (neqb r2 nzero); reflexivity. Qed.

Lemma upd_tie (s : bm) x r2 e2 fu ok :
  let u := bm_update sqrt_eps xtol s x r2 e2 fu in
  g_upd fu x ok (ba s) (bb s) (fulc s) (ffulc s) (nfc s) (fnfc s) (xf s) (fx s) =
    (ba u, bb u, fulc u, ffulc u, nfc u, fnfc u, xf u, fx u, ok) /\
  num u = num s + 1 /\ rat u = r2 /\ ee u = e2 /\ xm u = nmul nhalf (nadd (ba u) (bb u)) /\
  tol1 u = nadd (nmul sqrt_eps (nabs (xf u))) (ndiv xtol nthree) /\ tol2 u = nmul ntwo (tol1 u).
Proof.
  cbv zeta. unfold g_upd, bm_update. cbv zeta.
  destruct (nleb fu (fx s)).
  - destruct (nleb (xf s) x); cbn; repeat split; reflexivity.
  - destruct (nltb x (xf s)); cbv beta iota zeta;
      (destruct (nleb fu (fnfc s) || neqb (nfc s) (xf s)); cbv beta iota zeta; [cbn; repeat split; reflexivity|]);
      (destruct (nleb fu (ffulc s) || neqb (fulc s) (xf s) || neqb (fulc s) (nfc s)); cbn; repeat split; reflexivity).
Qed.

(* ---------------- the loop *)
Lemma bm_loop_tie : forall fuel (s : bm) x ok,
  match bm_loop f sqrt_eps golden_mean fuel xtol maxfun s with
  | None => True
  | Some (rx, fv, st, n) =>
    exists j1 j2 j3 j5 j6 j7 j8 fxr j11 j12 j13 j14 j15,
    gloop fuel (ee s) (rat s) x (num s) (fulc s) (ffulc s) (nfc s) (fnfc s) (xf s) (fx s) (ba s) (bb s) (xm s) (tol1 s) (tol2 s) 0 ok =
      (j1, j2, j3, n, j5, j6, j7, j8, rx, fxr, j11, j12, j13, j14, j15, st, ok) /\ fv = nopp fxr
  end.
Proof.
  induction fuel as [|k IH]; intros s x ok.
  - cbn [bm_loop gen_brent_max_loop0]. unfold bm_continue. destruct (nltb _ _); [exact I|]. do 13 eexists. split; reflexivity.
  - rewrite gen_step_eq. cbn [bm_loop]. unfold bm_continue.
    destruct (nltb (nsub (tol2 s) (nmul nhalf (nsub (bb s) (ba s)))) (nabs (nsub (xf s) (xm s)))).
    2:{ do 13 eexists. split; reflexivity. }
    unfold bm_step, bm_trial.
    destruct (st1_tie s x ok) as [x' E1]. rewrite E1. clear E1.
    destruct (if nltb (tol1 s) (nabs (ee s)) then bm_parabolic s else (true, rat s, ee s)) as [[g r1] e1].
    rewrite st2_tie.
    destruct (if g then let e := if nleb (xm s) (xf s) then nsub (ba s) (xf s) else nsub (bb s) (xf s) in (nmul golden_mean e, e) else (r1, e1)) as [r2 e2].
    rewrite si_tie. cbv beta iota zeta. unfold nmax.
    set (xt := nadd (xf s) (nmul (if neqb r2 nzero then nadd (nsign r2) none_ else nsign r2) (if nltb (nabs r2) (tol1 s) then tol1 s else nabs r2))).
    destruct (upd_tie s xt r2 e2 (nopp (f xt)) ok) as (E4 & En & Er & Ee & Exm & Et1 & Et2).
    set (u := bm_update sqrt_eps xtol s xt r2 e2 (nopp (f xt))) in *.
    rewrite E4. cbv beta iota zeta. rewrite Z.geb_leb, <- En, <- Et1, <- Exm, <- Et2.
    destruct (maxfun <=? num u).
    + do 13 eexists. split; reflexivity.
    + rewrite <- Ee, <- Er. apply IH.
Qed.

Theorem gen_brent_max_tie (isfin : T -> bool) (sqrt5 : T) a b maxiter :
  isfin = nisfin -> golden_mean = nmul nhalf (nsub nthree sqrt5) -> maxfun = maxiter ->
  match brent_max f sqrt_eps golden_mean a b xtol maxiter with
  | BMFuel => True
  | BMErr => exists msg, gen_brent_max isfin sqrt_eps nhalf nthree sqrt5 nopp nabs ntwo nsign f a b xtol maxiter = (inl msg, true)
  | BMRes x fv st n =>
    gen_brent_max isfin sqrt_eps nhalf nthree sqrt5 nopp nabs ntwo nsign f a b xtol maxiter = (inr (x, fv, (st, n)), true)
  end.
Proof.
  intros -> Hg Hm. subst maxiter. unfold brent_max, gen_brent_max. cbv zeta.
  destruct (nisfin a); cbn [negb]; [|eexists; reflexivity].
  destruct (nisfin b); cbn [negb]; [|eexists; reflexivity].
  destruct (nltb a b); cbn [negb]; [|eexists; reflexivity].
  rewrite <- Hg.
  pose proof (bm_loop_tie (S (Z.to_nat maxfun)) (bm_init f sqrt_eps golden_mean a b xtol)
                (nadd a (nmul golden_mean (nsub b a))) true) as E.
  unfold bm_init in E at 2 3 4 5 6 7 8 9 10 11 12 13 14 15. cbn [ba bb fulc nfc xf rat ee fx ffulc fnfc xm tol1 tol2 num] in E.
  destruct (bm_loop f sqrt_eps golden_mean (S (Z.to_nat maxfun)) xtol maxfun (bm_init f sqrt_eps golden_mean a b xtol))
    as [[[[rx fv] st] n]|]; [|exact I].
  destruct E as (j1 & j2 & j3 & j5 & j6 & j7 & j8 & fxr & j11 & j12 & j13 & j14 & j15 & E & ->).
  rewrite E. reflexivity.
Qed.
End Tie.

(* C17 proofs, part 3: brentq over exact rationals, ANY objective f. *)
From Coq Require Import ZArith QArith Qabs List Bool Lia Lqa.
From QE Require Import Base.Num C17.Model C17.Proofs2.
Import ListNotations.

Section Brentq.
Variable f : Q -> Q.

Definition bq_inv (s : @bq Q) : Prop :=
  fpre s = f (xpre s) /\ fcur s = f (xcur s) /\
  (fpre s * fcur s < 0 \/ (fblk s = f (xblk s) /\ fblk s * fcur s <= 0)).

(* after re-bracketing and swapping: blk and cur carry a (weak) sign change *)
Definition bq_inv2 (s : @bq Q) : Prop :=
  fpre s = f (xpre s) /\ fcur s = f (xcur s) /\ fblk s = f (xblk s) /\ fblk s * fcur s <= 0.

Lemma rebracket_swap_inv (s : @bq Q) : bq_inv s -> bq_inv2 (bq_swap (bq_rebracket s)).
Proof.
  intros (H1 & H2 & H3).
  assert (J : bq_inv2 (bq_rebracket s)).
  { unfold bq_rebracket. cbn [nmul nltb nsub nzero nx_num NumXQ NumQ].
    destruct (Qltb (Qmulr (nsign (fpre s)) (nsign (fcur s))) 0) eqn:E.
    - apply sign_prod_neg in E. unfold bq_inv2. cbn. repeat split; try assumption. lra.
    - destruct H3 as [H3|[H3 H4]].
      + apply sign_prod_neg in H3. congruence.
      + unfold bq_inv2. repeat split; assumption. }
  destruct J as (J1 & J2 & J3 & J4).
  unfold bq_swap. cbn [nabs nltb nx_num NumXQ NumQ].
  destruct (Qltb (Qabs (fblk (bq_rebracket s))) (Qabs (fcur (bq_rebracket s)))).
  - unfold bq_inv2. cbn. repeat split; try assumption. lra.
  - unfold bq_inv2. repeat split; assumption.
Qed.

Lemma advance_inv (s s3 : @bq Q) delta sbis :
  bq_inv2 s -> ~ fcur s == 0 -> bq_advance f s delta sbis = Some s3 -> bq_inv s3.
Proof.
  intros (J1 & J2 & J3 & J4) NZ H. unfold bq_advance in H.
  destruct (bq_steps s delta sbis) as [[sp sc]|]; [|discriminate].
  inversion H; subst s3; clear H. unfold bq_inv. cbn [xpre xcur xblk fpre fcur fblk].
  split; [exact J2|]. split; [reflexivity|].
  match goal with |- context [f ?xc] => set (y := f xc) end.
  destruct (Qlt_le_dec (fcur s * y) 0) as [P|P]; [left; exact P|].
  right. split; [exact J3|].
  (* fcur^2 * (fblk * y) = (fblk*fcur) * (fcur*y) <= 0 and fcur^2 > 0 *)
  destruct (Qlt_le_dec 0 (fblk s * y)) as [B|B]; [|exact B].
  exfalso.
  assert (S2 : 0 < fcur s * fcur s).
  { destruct (Qlt_le_dec 0 (fcur s)) as [C|C]; [apply Qmult_lt_0_compat; assumption|].
    assert (fcur s < 0) by (destruct (Qlt_le_dec (fcur s) 0); [assumption|exfalso; apply NZ; lra]).
    setoid_replace (fcur s * fcur s) with ((- fcur s) * (- fcur s)) by ring. apply Qmult_lt_0_compat; lra. }
  assert (K : 0 < (fcur s * fcur s) * (fblk s * y)) by (apply Qmult_lt_0_compat; assumption).
  assert (K2 : (fblk s * fcur s) * (fcur s * y) <= 0).
  { setoid_replace ((fblk s * fcur s) * (fcur s * y)) with (- ((- (fblk s * fcur s)) * (fcur s * y))) by ring.
    assert (0 <= (- (fblk s * fcur s)) * (fcur s * y)) by (apply Qmult_le_0_compat; lra). lra. }
  setoid_replace ((fcur s * fcur s) * (fblk s * y)) with ((fblk s * fcur s) * (fcur s * y)) in K by ring.
  lra.
Qed.

Lemma brentq_loop_inv : forall fuel itr s xtol rtol fc r fc' it',
  0 < xtol -> 0 <= rtol -> bq_inv s ->
  brentq_loop f fuel itr s xtol rtol fc = Some (r, fc', it', true) ->
  near_sign_change f r (xtol + rtol * Qabs r) /\ (fc' - fc = it' - itr - 1)%Z /\ (itr < it' <= itr + Z.of_nat fuel)%Z.
Proof.
  induction fuel as [|k IH]; intros itr s xtol rtol fc r fc' it' Hx Hr I H.
  - simpl in H. inversion H.
  - cbn [brentq_loop] in H.
    pose proof (rebracket_swap_inv s I) as J.
    set (s2 := bq_swap (bq_rebracket s)) in *.
    destruct J as (J1 & J2 & J3 & J4).
    unfold bq_delta, bq_sbis in H.
    cbn [nmul nadd nsub ndiv nabs nleb nltb neqb nzero ntwo nx_num NumXQ NumQ] in H.
    set (delta := Qdivr (Qaddr xtol (Qmulr rtol (Qabs (xcur s2)))) 2) in *.
    set (sbis := Qdivr (Qsubr (xblk s2) (xcur s2)) 2) in *.
    destruct (Qeq_bool (fcur s2) 0 || Qltb (Qabs sbis) delta) eqn:E.
    + inversion H; subst r fc' it'. clear H. split; [|lia].
      assert (P : 0 <= xtol + rtol * Qabs (xcur s2)) by (pose proof (Qabs_nonneg (xcur s2)); nra).
      apply orb_true_iff in E. destruct E as [E|E].
      * apply Qeq_bool_iff in E. apply near_zero; [rewrite <- J2; exact E|exact P].
      * apply Qltb_lt in E.
        exists (xblk s2), (xcur s2). split.
        { unfold sign_change. rewrite <- J2, <- J3.
          destruct (Qlt_le_dec 0 (fcur s2)) as [C|C].
          - left. split; [|lra]. apply (mul_nonpos_pos _ _ J4 C).
          - destruct (Qlt_le_dec (fcur s2) 0) as [C2|C2].
            + right. split; [lra|]. apply (mul_nonpos_neg _ _ J4 C2).
            + (* fcur == 0 *) destruct (Qlt_le_dec 0 (fblk s2)); [right; split; lra|left; split; lra]. }
        assert (Z0 : Qabs (xcur s2 - xcur s2) == 0) by (setoid_replace (xcur s2 - xcur s2) with 0 by ring; reflexivity).
        split; [|rewrite Z0; exact P].
        assert (D1 : delta == (xtol + rtol * Qabs (xcur s2)) * (1 # 2)).
        { unfold delta. rewrite Qdivr_eq, Qaddr_eq, Qmulr_eq. field. }
        assert (D2 : sbis == (xblk s2 - xcur s2) * (1 # 2)).
        { unfold sbis. rewrite Qdivr_eq, Qsubr_eq. field. }
        assert (D3 : Qabs sbis == Qabs (xblk s2 - xcur s2) * (1 # 2)).
        { rewrite D2. rewrite Qabs_Qmult. reflexivity. }
        set (w := Qabs (xblk s2 - xcur s2)) in *. set (t := rtol * Qabs (xcur s2)) in *.
        lra.
    + apply orb_false_iff in E. destruct E as [E1 E2]. apply Qeqb_false in E1.
      destruct (bq_advance f s2 delta sbis) as [s3|] eqn:EA; [|discriminate].
      apply IH in H; [|assumption|assumption|].
      * destruct H as (N & C1 & C2). split; [exact N|]. lia.
      * apply (advance_inv s2 s3 delta sbis); [repeat split; assumption|exact E1|exact EA].
Qed.

Theorem brentq_bracket : forall a b xtol rtol maxiter disp,
  0 < xtol -> 0 <= rtol -> (1 <= maxiter)%Z ->
  let xa := Qmulr a 1 in
  let xb := Qmulr b 1 in
  let o := brentq f a b xtol rtol maxiter disp in
  (0 < f xa * f xb <-> o = ErrSign) /\
  (forall r fc it, o = Res r fc it true ->
     near_sign_change f r (xtol + rtol * Qabs r) /\ (fc = 1 + it \/ (fc = 2 /\ it = 0))%Z /\ (0 <= it <= maxiter)%Z) /\
  (~ 0 < f xa * f xb -> f xb == 0 -> o = Res xb 2 0 true) /\
  (~ 0 < f xa * f xb -> f xa == 0 -> ~ f xb == 0 -> o = Res xa 2 0 true) /\
  (forall r fc it, o = Res r fc it false -> disp = false) /\
  (o = ErrNoConv -> disp = true) /\ o <> ErrArg.
Proof.
  intros a b xtol rtol maxiter disp Hx Hr Hm xa xb o.
  unfold o, brentq.
  cbn [nmul nadd nsub nabs nleb nltb neqb nzero none_ nhalf nx_num NumXQ NumQ].
  fold xa xb.
  destruct (Qle_bool xtol 0) eqn:E0; [apply Qle_bool_iff in E0; lra|].
  destruct (maxiter <? 1)%Z eqn:E1; [lia|].
  unfold bisect_interval.
  cbn [nmul nadd nsub nabs nleb nltb neqb nzero none_ nhalf nx_num NumXQ NumQ].
  destruct (Qltb 0 (Qmulr (nsign (f xa)) (nsign (f xb)))) eqn:E2.
  - apply sign_prod_pos in E2.
    split; [split; [reflexivity|intros _; exact E2]|].
    repeat split; try discriminate; try (intros; discriminate); try (intros X; contradiction).
  - assert (NP : ~ 0 < f xa * f xb) by (intro X; apply sign_prod_pos in X; congruence).
    destruct (Qeq_bool (f xb) 0) eqn:E3.
    { apply Qeq_bool_iff in E3.
      split; [split; [intros X; contradiction|discriminate]|].
      split.
      { intros r fc it H. inversion H; subst. split; [apply near_zero; [exact E3|pose proof (Qabs_nonneg xb); nra]|]. lia. }
      repeat split; try discriminate; try reflexivity; try (intros; discriminate).
      intros _ _ X. contradiction. }
    apply Qeqb_false in E3.
    destruct (Qeq_bool (f xa) 0) eqn:E4.
    { apply Qeq_bool_iff in E4.
      split; [split; [intros X; contradiction|discriminate]|].
      split.
      { intros r fc it H. inversion H; subst. split; [apply near_zero; [exact E4|pose proof (Qabs_nonneg xa); nra]|]. lia. }
      repeat split; try discriminate; try reflexivity; try (intros; discriminate).
      intros _ X. contradiction. }
    apply Qeqb_false in E4.
    match goal with |- context [brentq_loop f ?n ?i ?s ?x ?y ?c] =>
      set (s0 := s); set (L := brentq_loop f n i s0 x y c);
      assert (EL : brentq_loop f n i s0 x y c = L) by reflexivity end.
    assert (I0 : bq_inv s0).
    { unfold bq_inv, s0. cbn [xpre xcur xblk fpre fcur fblk]. split; [reflexivity|]. split; [reflexivity|]. left.
      destruct (Qlt_le_dec (f xa * f xb) 0) as [P|P]; [exact P|]. exfalso.
      assert (Z : f xa * f xb == 0) by (destruct (Qlt_le_dec 0 (f xa * f xb)); [contradiction|lra]).
      destruct (mul_pos_sign (f xa) (f xa)) as [[A _]|[A _]].
      - destruct (Qlt_le_dec 0 (f xa)) as [C|C]; [apply Qmult_lt_0_compat; assumption|].
        assert (f xa < 0) by (destruct (Qlt_le_dec (f xa) 0); [assumption|exfalso; apply E4; lra]).
        setoid_replace (f xa * f xa) with ((- f xa) * (- f xa)) by ring. apply Qmult_lt_0_compat; lra.
      - apply E3. apply (Qmult_inj_l _ _ (f xa)); [intro X; apply E4; exact X|]. rewrite Z. ring.
      - apply E3. apply (Qmult_inj_l _ _ (f xa)); [intro X; apply E4; exact X|]. rewrite Z. ring. }
    destruct L as [[[[r0 fc0] it0] cv0]|].
    + split; [split; [intros X; contradiction|]|].
      { unfold finish_opt, finish. destruct (disp && negb cv0); discriminate. }
      split.
      { intros r fc it H. unfold finish_opt, finish in H. destruct cv0.
        - replace (disp && negb true) with false in H by (destruct disp; reflexivity).
          inversion H; subst r0 fc0 it0. clear H.
          apply brentq_loop_inv in EL; [|assumption|assumption|exact I0].
          destruct EL as (N & C1 & C2). split; [exact N|]. lia.
        - destruct disp; simpl in H; inversion H. }
      split; [intros _ X; contradiction|].
      split; [intros _ X; contradiction|].
      split.
      { intros r fc it H. unfold finish_opt, finish in H. destruct cv0.
        - replace (disp && negb true) with false in H by (destruct disp; reflexivity). inversion H.
        - destruct disp; simpl in H; [discriminate|reflexivity]. }
      split.
      { unfold finish_opt, finish. destruct cv0.
        - replace (disp && negb true) with false by (destruct disp; reflexivity). discriminate.
        - destruct disp; simpl; [reflexivity|discriminate]. }
      unfold finish_opt, finish. destruct (disp && negb cv0); discriminate.
    + simpl. split; [split; [intros X; contradiction|discriminate]|].
      repeat split; try discriminate; try (intros; discriminate); try (intros ? X; contradiction).
Qed.
End Brentq.

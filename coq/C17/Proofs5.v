(* C17 proofs, part 5: nelder_mead bookkeeping invariants, for EVERY arithmetic instance (no arithmetic law used):
   the stored values are -f of the stored vertices (+inf outside the bounds), the order array has n+1 entries
   in range, the returned vertex is the stored vertex the order array names first and fun is f there. *)
From Coq Require Import ZArith List Bool Lia.
From QE Require Import Base.Num C17.Model.
Import ListNotations.

Lemma upd_length {A} : forall (l : list A) i v, length (upd l i v) = length l.
Proof. induction l as [|x l IH]; intros [|i] v; simpl; auto. Qed.
Lemma nth_upd_eq {A} : forall (l : list A) i v d, (i < length l)%nat -> nth i (upd l i v) d = v.
Proof. induction l as [|x l IH]; intros [|i] v d H; simpl in *; try lia; auto. apply IH. lia. Qed.
Lemma nth_upd_neq {A} : forall (l : list A) i j v d, i <> j -> nth j (upd l i v) d = nth j l d.
Proof.
  induction l as [|x l IH]; intros [|i] [|j] v d H; simpl; auto; try congruence.
Qed.
Lemma upd_overflow {A} : forall (l : list A) i v, (length l <= i)%nat -> upd l i v = l.
Proof. induction l as [|x l IH]; intros [|i] v H; simpl in *; auto; try lia. f_equal. apply IH. lia. Qed.

Section NMInv.
Context {T : Type} {NX : NumX T}.
Variable f : list T -> T.
Variable bounds : list (T * T).
Variables (rho chi gam sig nonzdelt zdelt : T).

Notation negf := (neg_fun f bounds).

(* values agree with vertices *)
Definition vals_ok (V : list (list T)) (F : list (ext T)) : Prop :=
  length F = length V /\ forall i, (i < length V)%nat -> fget F i = negf (vget V i).

Lemma vals_ok_upd V F i x : vals_ok V F -> vals_ok (upd V i x) (upd F i (negf x)).
Proof.
  intros [L H]. split; [rewrite !upd_length; exact L|].
  intros j Hj. rewrite upd_length in Hj. unfold fget, vget.
  destruct (Nat.eq_dec i j) as [E|E].
  - subst. rewrite !nth_upd_eq by lia. reflexivity.
  - rewrite !nth_upd_neq by exact E. apply H. exact Hj.
Qed.

Definition idx_ok (n : nat) (S_ : list nat) : Prop := length S_ = S n /\ Forall (fun i => (i < S n)%nat) S_.

Record nm_ok (n : nat) (s : @nm T) : Prop := {
  ok_len : length (vs s) = S n;
  ok_vals : vals_ok (vs s) (fv s);
  ok_idx : idx_ok n (si s) }.

(* ---- argsort: length and range ---- *)
Lemma ins_sorted_spec vals k : forall l m, Forall (fun i => (i < m)%nat) l -> (k < m)%nat ->
  length (ins_sorted vals k l) = S (length l) /\ Forall (fun i => (i < m)%nat) (ins_sorted vals k l).
Proof.
  induction l as [|e r IH]; intros m Hl Hk; simpl.
  - split; [reflexivity|constructor; [exact Hk|constructor]].
  - inversion Hl; subst. destruct (ext_lt _ _).
    + split; [reflexivity|constructor; [exact Hk|exact Hl]].
    + destruct (IH m H2 Hk) as [A B]. split; [simpl; rewrite A; reflexivity|constructor; assumption].
Qed.

Lemma argsort_fold vals m : forall ks acc, Forall (fun i => (i < m)%nat) ks -> Forall (fun i => (i < m)%nat) acc ->
  length (fold_left (fun acc k => ins_sorted vals k acc) ks acc) = (length acc + length ks)%nat /\
  Forall (fun i => (i < m)%nat) (fold_left (fun acc k => ins_sorted vals k acc) ks acc).
Proof.
  induction ks as [|k ks IH]; intros acc Hk Ha; simpl.
  - split; [lia|exact Ha].
  - inversion Hk; subst. destruct (ins_sorted_spec vals k acc m Ha H1) as [A B].
    destruct (IH _ H2 B) as [C D]. split; [rewrite C, A; lia|exact D].
Qed.

Lemma argsort_spec (vals : list (ext T)) :
  length (argsort vals) = length vals /\ Forall (fun i => (i < length vals)%nat) (argsort vals).
Proof.
  unfold argsort.
  assert (H : Forall (fun i => (i < length vals)%nat) (seq 0 (length vals))).
  { apply Forall_forall. intros x Hx. apply in_seq in Hx. lia. }
  destruct (argsort_fold vals (length vals) _ [] H (Forall_nil _)) as [A B].
  split; [rewrite A, seq_length; reflexivity|exact B].
Qed.

Lemma nm_init_ok (x0 : list T) : nm_ok (length x0) (nm_init f bounds nonzdelt zdelt x0).
Proof.
  unfold nm_init. set (V := init_simplex nonzdelt zdelt x0).
  assert (LV : length V = S (length x0)) by (unfold V, init_simplex; simpl; rewrite map_length, seq_length; reflexivity).
  constructor; cbn [vs fv si].
  - exact LV.
  - split; [apply map_length|]. intros i Hi. unfold fget, vget.
    rewrite (nth_indep _ PInf (negf [])) by (rewrite map_length; exact Hi). apply map_nth.
  - destruct (argsort_spec (map negf V)) as [A B]. rewrite map_length, LV in A, B. split; assumption.
Qed.

Lemma nth_idx_ok n S_ k : idx_ok n S_ -> (k < S n)%nat -> (nth k S_ O < S n)%nat.
Proof.
  intros [L Fa] Hk. rewrite Forall_forall in Fa. apply Fa. apply nth_In. lia.
Qed.

Lemma removelast_length {A} (l : list A) : l <> [] -> S (length (removelast l)) = length l.
Proof.
  intros H. destruct (exists_last H) as (l' & a & E). subst. rewrite removelast_last, app_length. simpl. lia.
Qed.

Lemma insert_first_ok n F w : forall l pre S', (w < S n)%nat ->
  Forall (fun i => (i < S n)%nat) l -> Forall (fun i => (i < S n)%nat) pre ->
  insert_first F w pre l = Some S' ->
  length S' = (length pre + length l)%nat /\ Forall (fun i => (i < S n)%nat) S'.
Proof.
  induction l as [|j r IH]; intros pre S' Hw Hl Hp H; cbn [insert_first] in H; [discriminate|].
  inversion Hl; subst.
  destruct (ext_lt _ _).
  - inversion H; subst. split.
    + rewrite app_length, rev_length. f_equal. destruct r as [|a r']; [reflexivity|].
      pose proof (removelast_length (a :: r') ltac:(discriminate)) as RL. simpl length in *. lia.
    + apply Forall_app. split; [apply Forall_rev; exact Hp|].
      constructor; [exact Hw|]. apply Forall_forall. intros x Hx.
      rewrite Forall_forall in Hl. apply Hl.
      assert (In x (removelast (j :: r) ++ [last (j :: r) O])) by (apply in_or_app; left; exact Hx).
      rewrite <- app_removelast_last in H0 by discriminate. exact H0.
  - apply IH in H; try assumption; [|constructor; assumption].
    destruct H as [A B]. split; [rewrite A; simpl; lia|exact B].
Qed.

Lemma nm_replace_ok n s w x m : nm_ok n s -> (w < S n)%nat -> nm_ok n (nm_replace f bounds s n w x m).
Proof.
  intros [L Vo Io] Hw. unfold nm_replace. constructor; cbn [vs fv si].
  - rewrite upd_length. exact L.
  - apply vals_ok_upd. exact Vo.
  - destruct (insert_first (upd (fv s) w (negf x)) w [] (si s)) as [S'|] eqn:E; [|exact Io].
    destruct Io as [Ls Fa]. apply (insert_first_ok n) in E; try assumption; [|constructor].
    destruct E as [A B]. split; [rewrite A; simpl; exact Ls|exact B].
Qed.

Lemma shrink_fold_ok (b : nat) : forall tail_ V F, vals_ok V F ->
  let '(V', F') := fold_left (fun (VF : list (list T) * list (ext T)) i =>
                    let '(V, F) := VF in
                    let vb := vget V b in
                    let vi := vadd vb (vscale sig (vsub (vget V i) vb)) in
                    (upd V i vi, upd F i (negf vi))) tail_ (V, F) in
  vals_ok V' F' /\ length V' = length V.
Proof.
  induction tail_ as [|i r IH]; intros V F H; simpl; [split; [exact H|reflexivity]|].
  set (vi := vadd (vget V b) (vscale sig (vsub (vget V i) (vget V b)))).
  specialize (IH (upd V i vi) (upd F i (negf vi)) (vals_ok_upd V F i vi H)).
  destruct (fold_left _ r (upd V i vi, upd F i (negf vi))) as [V' F'].
  destruct IH as [A B]. split; [exact A|rewrite B; apply upd_length].
Qed.

Lemma shrink_order_ok n tail_ perm : length tail_ = n -> Forall (fun i => (i < S n)%nat) tail_ ->
  length perm = n -> Forall (fun i => (i < n)%nat) perm ->
  length (shrink_order tail_ perm) = n /\ Forall (fun i => (i < S n)%nat) (shrink_order tail_ perm).
Proof.
  intros Lt Ft Lp Fp. unfold shrink_order. split; [rewrite map_length; exact Lp|].
  apply Forall_forall. intros x Hx. apply in_map_iff in Hx. destruct Hx as (p & E & Hp). subst.
  rewrite Forall_forall in Ft. apply Ft. apply nth_In. rewrite Forall_forall in Fp. specialize (Fp p Hp). lia.
Qed.

Lemma nm_shrink_ok n s b w sn : nm_ok n s -> (b < S n)%nat -> nm_ok n (nm_shrink f bounds sig s n b w sn).
Proof.
  intros [L Vo [Ls Fa]] Hb. unfold nm_shrink.
  pose proof (shrink_fold_ok b (tl (si s)) (vs s) (fv s) Vo) as SF.
  destruct (fold_left _ (tl (si s)) (vs s, fv s)) as [V' F'].
  destruct SF as [Vo' LV']. constructor; cbn [vs fv si].
  - rewrite LV'. exact L.
  - exact Vo'.
  - assert (Lt : length (tl (si s)) = n) by (destruct (si s); simpl in *; lia).
    assert (Ft : Forall (fun i => (i < S n)%nat) (tl (si s))) by (destruct (si s); [constructor|inversion Fa; assumption]).
    destruct (argsort_spec (map (fget F') (tl (si s)))) as [A B]. rewrite map_length, Lt in A, B.
    destruct (shrink_order_ok n (tl (si s)) _ Lt Ft A B) as [C D].
    split; [simpl; rewrite C; reflexivity|constructor; assumption].
Qed.

Lemma nm_step_ok n s sn : nm_ok n s -> nm_ok n (nm_step f bounds rho chi gam sig s n sn).
Proof.
  intros H. pose proof (ok_idx n s H) as Io.
  assert (Hw : (nth n (si s) O < S n)%nat) by (apply (nth_idx_ok n); [exact Io|lia]).
  assert (Hb : (nth 0 (si s) O < S n)%nat) by (apply (nth_idx_ok n); [exact Io|lia]).
  unfold nm_step. cbv zeta.
  repeat match goal with
  | |- nm_ok _ (if ?c then _ else _) => destruct c
  | |- nm_ok _ (let '(_, _) := (if ?c then _ else _) in _) => destruct c
  end; try (apply nm_replace_ok; assumption); try (apply nm_shrink_ok; assumption).
Qed.

Lemma nm_step_nit n s sn : nit (nm_step f bounds rho chi gam sig s n sn) = (nit s + 1)%Z.
Proof.
  unfold nm_step. cbv zeta.
  repeat match goal with
  | |- nit (if ?c then _ else _) = _ => destruct c
  | |- nit (let '(_, _) := (if ?c then _ else _) in _) = _ => destruct c
  end; try reflexivity; unfold nm_shrink; destruct (fold_left _ _ _); reflexivity.
Qed.

Lemma nm_loop_ok n sn tol_f tol_x mi : forall fuel s s' fail,
  nm_ok n s -> (0 <= nit s)%Z ->
  nm_loop f bounds rho chi gam sig fuel s n sn tol_f tol_x mi = Some (s', fail) ->
  nm_ok n s' /\ fail = (mi <=? nit s')%Z /\ (nit s <= nit s')%Z /\ (nit s' <= Z.max mi (nit s))%Z.
Proof.
  induction fuel as [|k IH]; intros s s' fail H Hn E; cbn [nm_loop] in E; unfold nm_done in E.
  - destruct (_ || _ || _); [|discriminate]. inversion E; subst. split; [assumption|split; [reflexivity|lia]].
  - destruct (nltb (lv s) tol_x || ext_diff_lt _ _ tol_f || (mi <=? nit s)%Z) eqn:D.
    + inversion E; subst. split; [assumption|split; [reflexivity|lia]].
    + apply orb_false_iff in D. destruct D as [_ D]. apply Z.leb_gt in D.
      apply IH in E; [|apply nm_step_ok; exact H|rewrite nm_step_nit; lia].
      rewrite nm_step_nit in E. destruct E as (A & B & C1 & C2). split; [assumption|split; [assumption|lia]].
Qed.

Lemma nm_loop_fuel n sn tol_f tol_x mi : forall fuel s,
  (mi - nit s < Z.of_nat fuel)%Z -> nm_loop f bounds rho chi gam sig fuel s n sn tol_f tol_x mi <> None.
Proof.
  induction fuel as [|k IH]; intros s H; cbn [nm_loop]; unfold nm_done.
  - destruct (nltb (lv s) tol_x || ext_diff_lt _ _ tol_f || (mi <=? nit s)%Z) eqn:D; [discriminate|].
    apply orb_false_iff in D. destruct D as [_ D]. apply Z.leb_gt in D. lia.
  - destruct (nltb (lv s) tol_x || ext_diff_lt _ _ tol_f || (mi <=? nit s)%Z) eqn:D; [discriminate|].
    apply IH. rewrite nm_step_nit. lia.
Qed.

(* every result: x is a stored vertex, the reported value is -f there (or +inf outside the bounds, i.e. fun = f(x) or -inf),
   success = (nit < max_iter), 0 <= nit <= max(max_iter, 0); the model never runs out of fuel *)
Theorem nelder_mead_result : forall x0 tol_f tol_x max_iter,
  let o := nelder_mead f bounds rho chi gam sig nonzdelt zdelt x0 tol_f tol_x max_iter in
  o <> NMFuel /\
  forall x nf suc nit_ V, o = NMRes x nf suc nit_ V ->
    length V = S (length x0) /\ (exists b, (b < S (length x0))%nat /\ x = nth b V []) /\
    nf = neg_fun f bounds x /\
    suc = (nit_ <? max_iter)%Z /\ (0 <= nit_ <= Z.max max_iter 0)%Z.
Proof.
  intros x0 tol_f tol_x mi o. unfold o, nelder_mead.
  destruct (existsb _ bounds); [split; [discriminate|intros; discriminate]|].
  destruct (nm_loop f bounds rho chi gam sig (S (Z.to_nat mi)) (nm_init f bounds nonzdelt zdelt x0) (length x0)
              (npow sig (length x0)) tol_f tol_x mi) as [[s fail]|] eqn:E.
  - split; [discriminate|]. intros x nf suc nit_ V H. inversion H; subst. clear H.
    apply nm_loop_ok in E; [|apply nm_init_ok|simpl; lia].
    destruct E as ([L [LF Vo] Io] & Ef & N1 & N2). cbn [nit nm_init] in N1, N2.
    assert (Hb : (nth 0 (si s) O < S (length x0))%nat) by (apply (nth_idx_ok (length x0)); [exact Io|lia]).
    split; [exact L|]. split; [exists (nth 0 (si s) O); split; [exact Hb|reflexivity]|].
    split; [apply Vo; rewrite L; exact Hb|].
    split; [subst fail; rewrite Z.ltb_antisym; reflexivity|lia].
  - exfalso. revert E. apply nm_loop_fuel. cbn [nit nm_init]. lia.
Qed.
End NMInv.

(* C17 proofs, part 1: status-flag theorems for newton / newton_halley / newton_secant.
   They hold for EVERY instance of the arithmetic signature (hence also for IEEE floats):
   no arithmetic law is used, only the control structure of the loops. *)
From Coq Require Import ZArith List Bool Lia.
From QE Require Import Base.Num C17.Model.
Import ListNotations.

Ltac tup4 := apply f_equal2; [apply f_equal2; [apply f_equal2; [try reflexivity|try lia]|try lia]|try reflexivity].

Section Flags.
Context {T : Type} {NX : NumX T}.
Variables (f fp fp2 : T -> T) (tol : T).

(* ---- specification vocabulary (independent of the loop functions) ---- *)
Fixpoint iter {S : Type} (g : S -> S) (k : nat) (s : S) : S :=
  match k with O => s | S k' => iter g k' (g s) end.

(* what one pass decides at the current point: Some true = stopping criterion met,
   Some false = derivative zero (break without convergence), None = go on *)
Definition newton_next (p : T) : T := nsub p (ndiv (f p) (fp p)).
Definition newton_event (p : T) : option bool :=
  if neqb (f p) nzero then Some true
  else if neqb (fp p) nzero then Some false
  else if nltb (nabs (nsub (newton_next p) p)) tol then Some true else None.

Definition halley_den (p : T) : T :=
  nsub none_ (ndiv (nmul (nmul nhalf (ndiv (f p) (fp p))) (fp2 p)) (fp p)).
Definition halley_next (p : T) : T := nsub p (ndiv (ndiv (f p) (fp p)) (halley_den p)).
(* Some false also covers the ZeroDivisionError of the Halley correction (denominator exactly 0) *)
Definition halley_event (p : T) : option bool :=
  if neqb (f p) nzero then Some true
  else if neqb (fp p) nzero then Some false
  else if neqb (halley_den p) nzero then Some false
  else if nltb (nabs (nsub (halley_next p) p)) tol then Some true else None.

(* secant state: (p0, q0, p1, q1) *)
Definition sec_p (s : T * T * T * T) : T :=
  let '(p0, q0, p1, q1) := s in nsub p1 (ndiv (nmul q1 (nsub p1 p0)) (nsub q1 q0)).
Definition secant_next (s : T * T * T * T) : T * T * T * T :=
  let '(p0, q0, p1, q1) := s in (p1, q1, sec_p s, f (sec_p s)).
Definition secant_event (s : T * T * T * T) : option bool :=
  let '(p0, q0, p1, q1) := s in
  if neqb q1 q0 then Some true
  else if nltb (nabs (nsub (sec_p s) p1)) tol then Some true else None.

(* "the stopping criterion fires within n passes": first event is Some true *)
Definition fires {S : Type} (ev : S -> option bool) (g : S -> S) (n : nat) (s : S) : Prop :=
  exists k, (k < n)%nat /\ (forall j, (j < k)%nat -> ev (iter g j s) = None) /\ ev (iter g k s) = Some true.
Definition quiet {S : Type} (ev : S -> option bool) (g : S -> S) (n : nat) (s : S) : Prop :=
  forall j, (j < n)%nat -> ev (iter g j s) = None.

Lemma fires_step {S} (ev : S -> option bool) g n s :
  ev s = None -> (fires ev g (Datatypes.S n) s <-> fires ev g n (g s)).
Proof.
  intros E. split.
  - intros [k (Hk & Hq & He)]. destruct k as [|k].
    + simpl in He. congruence.
    + exists k. repeat split; [lia| |exact He].
      intros j Hj. apply (Hq (Datatypes.S j)). lia.
  - intros [k (Hk & Hq & He)]. exists (Datatypes.S k). repeat split; [lia| |exact He].
    intros j Hj. destruct j as [|j]; [exact E|]. simpl. apply Hq. lia.
Qed.

Lemma fires_now {S} (ev : S -> option bool) g n s :
  ev s = Some true -> fires ev g (Datatypes.S n) s.
Proof. intros E. exists O. repeat split; [lia| |exact E]. intros j Hj; lia. Qed.

Lemma not_fires_stall {S} (ev : S -> option bool) g n s :
  ev s = Some false -> ~ fires ev g n s.
Proof.
  intros E [k (Hk & Hq & He)]. destruct k as [|k].
  - simpl in He. congruence.
  - specialize (Hq O ltac:(lia)). simpl in Hq. congruence.
Qed.

Lemma not_fires_0 {S} (ev : S -> option bool) g s : ~ fires ev g 0 s.
Proof. intros [k (Hk & _)]. lia. Qed.

(* ---- newton ---- *)
Lemma newton_loop_flag : forall fuel itr p fc,
  let '(_, _, _, cv) := newton_loop f fp tol fuel itr p fc in
  cv = true <-> fires newton_event newton_next fuel p.
Proof.
  induction fuel as [|k IH]; intros itr p fc; simpl.
  - split; [discriminate|]. intros H. destruct (not_fires_0 _ _ _ H).
  - destruct (neqb (f p) nzero) eqn:E1.
    { split; [intros _|reflexivity]. apply fires_now. unfold newton_event. rewrite E1. reflexivity. }
    destruct (neqb (fp p) nzero) eqn:E2.
    { split; [discriminate|]. intros H. exfalso. revert H. apply not_fires_stall.
      unfold newton_event. rewrite E1, E2. reflexivity. }
    fold (newton_next p).
    destruct (nltb (nabs (nsub (newton_next p) p)) tol) eqn:E3.
    { split; [intros _|reflexivity]. apply fires_now. unfold newton_event. rewrite E1, E2, E3. reflexivity. }
    specialize (IH (itr + 1)%Z (newton_next p) (fc + 2)%Z).
    destruct (newton_loop f fp tol k (itr + 1) (newton_next p) (fc + 2)) as [[[r c] i] cv].
    rewrite IH. symmetry. apply fires_step. unfold newton_event. rewrite E1, E2, E3. reflexivity.
Qed.

Lemma newton_loop_quiet : forall fuel itr p fc,
  quiet newton_event newton_next fuel p ->
  newton_loop f fp tol fuel itr p fc = (iter newton_next fuel p, (fc + 2 * Z.of_nat fuel)%Z, (itr + Z.of_nat fuel)%Z, false).
Proof.
  induction fuel as [|k IH]; intros itr p fc Q.
  - simpl. tup4.
  - pose proof (Q O ltac:(lia)) as Q0. simpl in Q0. unfold newton_event in Q0.
    cbn [newton_loop].
    destruct (neqb (f p) nzero); [discriminate|].
    destruct (neqb (fp p) nzero); [discriminate|].
    fold (newton_next p).
    destruct (nltb (nabs (nsub (newton_next p) p)) tol); [discriminate|].
    rewrite IH.
    + cbn [iter]. tup4.
    + intros j Hj. apply (Q (S j)). lia.
Qed.

(* ---- halley ---- *)
Lemma halley_loop_flag : forall fuel itr p fc,
  match halley_loop f fp fp2 tol fuel itr p fc with
  | Some (_, _, _, cv) => cv = true <-> fires halley_event halley_next fuel p
  | None => ~ fires halley_event halley_next fuel p
  end.
Proof.
  induction fuel as [|k IH]; intros itr p fc; simpl.
  - split; [discriminate|]. intros H. destruct (not_fires_0 _ _ _ H).
  - destruct (neqb (f p) nzero) eqn:E1.
    { split; [intros _|reflexivity]. apply fires_now. unfold halley_event. rewrite E1. reflexivity. }
    destruct (neqb (fp p) nzero) eqn:E2.
    { split; [discriminate|]. intros H. exfalso. revert H. apply not_fires_stall.
      unfold halley_event. rewrite E1, E2. reflexivity. }
    unfold chkdiv. fold (halley_den p).
    destruct (neqb (halley_den p) nzero) eqn:E4.
    { apply not_fires_stall. unfold halley_event. rewrite E1, E2, E4. reflexivity. }
    fold (halley_next p).
    destruct (nltb (nabs (nsub (halley_next p) p)) tol) eqn:E3.
    { split; [intros _|reflexivity]. apply fires_now. unfold halley_event. rewrite E1, E2, E4, E3. reflexivity. }
    specialize (IH (itr + 1)%Z (halley_next p) (fc + 2)%Z).
    assert (EV : halley_event p = None) by (unfold halley_event; rewrite E1, E2, E4, E3; reflexivity).
    destruct (halley_loop f fp fp2 tol k (itr + 1) (halley_next p) (fc + 2)) as [[[[r c] i] cv]|].
    + rewrite IH. symmetry. apply fires_step. exact EV.
    + intros H. apply IH. apply (fires_step _ _ _ _ EV). exact H.
Qed.

Lemma halley_loop_quiet : forall fuel itr p fc,
  quiet halley_event halley_next fuel p ->
  halley_loop f fp fp2 tol fuel itr p fc =
  Some (iter halley_next fuel p, (fc + 2 * Z.of_nat fuel)%Z, (itr + Z.of_nat fuel)%Z, false).
Proof.
  induction fuel as [|k IH]; intros itr p fc Q.
  - simpl. f_equal. tup4.
  - pose proof (Q O ltac:(lia)) as Q0. simpl in Q0. unfold halley_event in Q0.
    cbn [halley_loop].
    destruct (neqb (f p) nzero); [discriminate|].
    destruct (neqb (fp p) nzero); [discriminate|].
    unfold chkdiv. fold (halley_den p).
    destruct (neqb (halley_den p) nzero); [discriminate|].
    fold (halley_next p).
    destruct (nltb (nabs (nsub (halley_next p) p)) tol); [discriminate|].
    rewrite IH.
    + cbn [iter]. f_equal. tup4.
    + intros j Hj. apply (Q (S j)). lia.
Qed.

(* ---- secant ---- *)
Lemma secant_loop_flag : forall fuel itr p0 q0 p1 q1 fc,
  let '(_, _, _, cv) := secant_loop f tol fuel itr p0 q0 p1 q1 fc in
  cv = true <-> fires secant_event secant_next fuel (p0, q0, p1, q1).
Proof.
  induction fuel as [|k IH]; intros itr p0 q0 p1 q1 fc; simpl.
  - split; [discriminate|]. intros H. destruct (not_fires_0 _ _ _ H).
  - destruct (neqb q1 q0) eqn:E1.
    { split; [intros _|reflexivity]. apply fires_now. unfold secant_event. rewrite E1. reflexivity. }
    change (nsub p1 (ndiv (nmul q1 (nsub p1 p0)) (nsub q1 q0))) with (sec_p (p0, q0, p1, q1)).
    destruct (nltb (nabs (nsub (sec_p (p0, q0, p1, q1)) p1)) tol) eqn:E3.
    { split; [intros _|reflexivity]. apply fires_now. unfold secant_event. rewrite E1, E3. reflexivity. }
    specialize (IH (itr + 1)%Z p1 q1 (sec_p (p0, q0, p1, q1)) (f (sec_p (p0, q0, p1, q1))) (fc + 1)%Z).
    destruct (secant_loop f tol k (itr + 1) p1 q1 (sec_p (p0, q0, p1, q1)) (f (sec_p (p0, q0, p1, q1))) (fc + 1)) as [[[r c] i] cv].
    rewrite IH. symmetry.
    change (p1, q1, sec_p (p0, q0, p1, q1), f (sec_p (p0, q0, p1, q1))) with (secant_next (p0, q0, p1, q1)).
    apply fires_step. unfold secant_event. rewrite E1, E3. reflexivity.
Qed.

Lemma secant_loop_quiet : forall fuel itr p0 q0 p1 q1 fc,
  quiet secant_event secant_next fuel (p0, q0, p1, q1) ->
  exists r, secant_loop f tol fuel itr p0 q0 p1 q1 fc = (r, (fc + Z.of_nat fuel)%Z, (itr + Z.of_nat fuel)%Z, false).
Proof.
  induction fuel as [|k IH]; intros itr p0 q0 p1 q1 fc Q.
  - simpl. exists p1. tup4.
  - pose proof (Q O ltac:(lia)) as Q0. simpl in Q0.
    cbn [secant_loop].
    destruct (neqb q1 q0); [discriminate|].
    change (nsub p1 (ndiv (nmul q1 (nsub p1 p0)) (nsub q1 q0))) with (sec_p (p0, q0, p1, q1)) in *.
    destruct (nltb (nabs (nsub (sec_p (p0, q0, p1, q1)) p1)) tol); [discriminate|].
    destruct (IH (itr + 1)%Z p1 q1 (sec_p (p0, q0, p1, q1)) (f (sec_p (p0, q0, p1, q1))) (fc + 1)%Z) as [r Hr].
    + intros j Hj. apply (Q (S j)). lia.
    + exists r. rewrite Hr. tup4.
Qed.

(* ---- the wrappers: converged flag / raise ---- *)
Definition flag_contract (o : outcome T) (disp : bool) (fired : Prop) : Prop :=
  (forall r fc it, o = Res r fc it true -> fired) /\
  (fired -> exists r fc it, o = Res r fc it true) /\
  (forall r fc it, o = Res r fc it false -> disp = false /\ ~ fired) /\
  (o = ErrNoConv -> disp = true /\ ~ fired) /\
  (o = ErrZeroDiv -> ~ fired) /\
  (~ fired -> o = ErrNoConv \/ o = ErrZeroDiv \/ exists r fc it, o = Res r fc it false) /\
  o <> ErrSign /\ o <> ErrArg.

Lemma finish_contract (disp : bool) (r : T) (fc it : Z) (cv : bool) (fired : Prop) :
  (cv = true <-> fired) -> flag_contract (finish disp (r, fc, it, cv)) disp fired.
Proof.
  intros H. unfold finish, flag_contract.
  destruct cv.
  - assert (F : fired) by (apply H; reflexivity).
    replace (disp && negb true) with false by (destruct disp; reflexivity).
    repeat split; try discriminate; try (intros ? ? ? X; inversion X).
    + intros; exact F.
    + intros _. do 3 eexists. reflexivity.
    + intros X. destruct (X F).
  - assert (NF : ~ fired) by (intro X; apply H in X; discriminate).
    destruct disp; simpl.
    + repeat split; try discriminate; try exact NF.
      * intros X. destruct (NF X).
      * intros _. left. reflexivity.
    + repeat split; try discriminate; try exact NF.
      * intros X. destruct (NF X).
      * intros _. right. right. do 3 eexists. reflexivity.
Qed.

Lemma finish_opt_contract (disp : bool) (o : option (T * Z * Z * bool)) (fired : Prop) :
  match o with Some (_, _, _, cv) => cv = true <-> fired | None => ~ fired end ->
  flag_contract (finish_opt disp o) disp fired.
Proof.
  destruct o as [[[[r c] i] cv]|]; simpl.
  - apply finish_contract.
  - intros NF. unfold flag_contract.
    split; [|split; [|split; [|split; [|split; [|split; [|split]]]]]]; try discriminate.
    + intros X. destruct (NF X).
    + intros _. exact NF.
    + intros _. right. left. reflexivity.
Qed.

Theorem newton_flag : forall x0 maxiter disp,
  nleb tol nzero = false -> (1 <= maxiter)%Z ->
  flag_contract (newton f fp tol x0 maxiter disp) disp
                (fires newton_event newton_next (Z.to_nat maxiter) (nmul none_ x0)).
Proof.
  intros x0 maxiter disp Ht Hm. unfold newton. rewrite Ht.
  destruct (maxiter <? 1)%Z eqn:E; [lia|].
  pose proof (newton_loop_flag (Z.to_nat maxiter) 0%Z (nmul none_ x0) 0%Z) as H.
  destruct (newton_loop f fp tol (Z.to_nat maxiter) 0 (nmul none_ x0) 0) as [[[r c] i] cv].
  apply finish_contract. exact H.
Qed.

Theorem halley_flag : forall x0 maxiter disp,
  nleb tol nzero = false -> (1 <= maxiter)%Z ->
  flag_contract (newton_halley f fp fp2 tol x0 maxiter disp) disp
                (fires halley_event halley_next (Z.to_nat maxiter) (nmul none_ x0)).
Proof.
  intros x0 maxiter disp Ht Hm. unfold newton_halley. rewrite Ht.
  destruct (maxiter <? 1)%Z eqn:E; [lia|].
  apply finish_opt_contract. apply halley_loop_flag.
Qed.

Definition secant_start (c4 x0 : T) : T * T * T * T :=
  let p0 := nmul none_ x0 in
  let p1 := if nleb nzero x0 then nadd (nmul x0 (nadd none_ c4)) c4 else nsub (nmul x0 (nadd none_ c4)) c4 in
  (p0, f p0, p1, f p1).

Theorem secant_flag : forall c4 x0 maxiter disp,
  nleb tol nzero = false -> (1 <= maxiter)%Z ->
  flag_contract (newton_secant f tol c4 x0 maxiter disp) disp
                (fires secant_event secant_next (Z.to_nat maxiter) (secant_start c4 x0)).
Proof.
  intros c4 x0 maxiter disp Ht Hm. unfold newton_secant, secant_start. rewrite Ht.
  destruct (maxiter <? 1)%Z eqn:E; [lia|].
  cbv zeta.
  match goal with |- context [secant_loop f tol ?n ?i ?a ?b ?c ?d ?e] =>
    pose proof (secant_loop_flag n i a b c d e) as H;
    destruct (secant_loop f tol n i a b c d e) as [[[r cc] ii] cv] end.
  apply finish_contract. exact H.
Qed.

(* exhausting maxiter without the criterion firing and without a zero derivative:
   the iterations count is maxiter and the flag is false (or the raise when disp) *)
Theorem newton_exhaust : forall x0 maxiter disp,
  nleb tol nzero = false -> (1 <= maxiter)%Z ->
  quiet newton_event newton_next (Z.to_nat maxiter) (nmul none_ x0) ->
  newton f fp tol x0 maxiter disp =
    if disp then ErrNoConv
    else Res (iter newton_next (Z.to_nat maxiter) (nmul none_ x0)) (2 * maxiter) maxiter false.
Proof.
  intros x0 maxiter disp Ht Hm Q. unfold newton. rewrite Ht.
  destruct (maxiter <? 1)%Z eqn:E; [lia|].
  rewrite newton_loop_quiet by exact Q. unfold finish.
  destruct disp; cbn [andb negb]; [reflexivity|]. f_equal; lia.
Qed.

Theorem halley_exhaust : forall x0 maxiter disp,
  nleb tol nzero = false -> (1 <= maxiter)%Z ->
  quiet halley_event halley_next (Z.to_nat maxiter) (nmul none_ x0) ->
  newton_halley f fp fp2 tol x0 maxiter disp =
    if disp then ErrNoConv
    else Res (iter halley_next (Z.to_nat maxiter) (nmul none_ x0)) (2 * maxiter) maxiter false.
Proof.
  intros x0 maxiter disp Ht Hm Q. unfold newton_halley. rewrite Ht.
  destruct (maxiter <? 1)%Z eqn:E; [lia|].
  rewrite halley_loop_quiet by exact Q. unfold finish_opt, finish.
  destruct disp; cbn [andb negb]; [reflexivity|]. f_equal; lia.
Qed.

Theorem secant_exhaust : forall c4 x0 maxiter disp,
  nleb tol nzero = false -> (1 <= maxiter)%Z ->
  quiet secant_event secant_next (Z.to_nat maxiter) (secant_start c4 x0) ->
  newton_secant f tol c4 x0 maxiter disp = ErrNoConv /\ disp = true \/
  exists r, newton_secant f tol c4 x0 maxiter disp = Res r (2 + maxiter) maxiter false /\ disp = false.
Proof.
  intros c4 x0 maxiter disp Ht Hm Q. unfold newton_secant, secant_start in *. rewrite Ht.
  destruct (maxiter <? 1)%Z eqn:E; [lia|].
  cbv zeta in *.
  match goal with |- context [secant_loop f tol ?n ?i ?a ?b ?c ?d ?e] =>
    destruct (secant_loop_quiet n i a b c d e Q) as [r Hr]; rewrite Hr end.
  unfold finish. destruct disp; cbn [andb negb]; [left; split; reflexivity|].
  right. exists r. split; [|reflexivity]. f_equal; lia.
Qed.

End Flags.

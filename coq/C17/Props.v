(* C17 property theorems: statements only, each closed by `exact`, with Print Assumptions. *)
From Coq Require Import ZArith QArith List Bool PrimFloat.
From QE Require Import Base.Num C17.Model C17.Proofs C17.Findings.
Import ListNotations.

(* converged = true iff the stopping criterion fired within maxiter passes; otherwise converged = false is
   returned (disp = false) or RuntimeError is raised (disp = true).  Every NumX instance, every f, f', f''. *)
Theorem C17_newton_flag : forall (T : Type) (NX : NumX T) (f fp : T -> T) (tol x0 : T) (maxiter : Z) (disp : bool),
  nleb tol nzero = false -> (1 <= maxiter)%Z ->
  flag_contract (newton f fp tol x0 maxiter disp) disp
                (fires (newton_event f fp tol) (newton_next f fp) (Z.to_nat maxiter) (nmul none_ x0)).
Proof. exact (@newton_flag). Qed.
Print Assumptions C17_newton_flag.

Theorem C17_halley_flag : forall (T : Type) (NX : NumX T) (f fp fp2 : T -> T) (tol x0 : T) (maxiter : Z) (disp : bool),
  nleb tol nzero = false -> (1 <= maxiter)%Z ->
  flag_contract (newton_halley f fp fp2 tol x0 maxiter disp) disp
                (fires (halley_event f fp fp2 tol) (halley_next f fp fp2) (Z.to_nat maxiter) (nmul none_ x0)).
Proof. exact (@halley_flag). Qed.
Print Assumptions C17_halley_flag.

Theorem C17_secant_flag : forall (T : Type) (NX : NumX T) (f : T -> T) (tol c4 x0 : T) (maxiter : Z) (disp : bool),
  nleb tol nzero = false -> (1 <= maxiter)%Z ->
  flag_contract (newton_secant f tol c4 x0 maxiter disp) disp
                (fires (secant_event tol) (secant_next f) (Z.to_nat maxiter) (secant_start f c4 x0)).
Proof. exact (@secant_flag). Qed.
Print Assumptions C17_secant_flag.

Theorem C17_bisect_product_underflow_refuted :
  PrimFloat.ltb (tiny_f 0) 0 = true /\ PrimFloat.ltb 0 (tiny_f 3) = true /\ PrimFloat.eqb (tiny_f 1) 0 = true /\
  PrimFloat.ltb 0 (tiny_f 2.5) = true /\
  is_conv_root (bisect_old tiny_f 0 3 xtol_d rtol_d 100 true) 2.75 3 = true /\
  is_conv_root (bisect tiny_f 0 3 xtol_d rtol_d 100 true) 0x1.ffffffffp-1 0x1.00000001p+0 = true.
Proof. exact bisect_product_underflow_refuted. Qed.
Print Assumptions C17_bisect_product_underflow_refuted.

Theorem C17_brentq_product_underflow_refuted :
  PrimFloat.ltb (tiny_f 0) 0 = true /\ PrimFloat.ltb 0 (tiny_f 3) = true /\
  is_conv_root (brentq_old tiny_f true 0 3 xtol_d rtol_d 100 true) 0 0 = true /\
  is_conv_root (brentq tiny_f 0 3 xtol_d rtol_d 100 true) 0x1.ffffffffp-1 0x1.00000001p+0 = true.
Proof. exact brentq_product_underflow_refuted. Qed.
Print Assumptions C17_brentq_product_underflow_refuted.

Theorem C17_brentq_zero_division_refuted :
  PrimFloat.ltb (tiny_cubic (-6)) 0 = true /\ PrimFloat.ltb 0 (tiny_cubic 9.375) = true /\
  is_zero_div (brentq_old tiny_cubic false (-6) 9.375 0x1.a36e2eb1c432dp-14 rtol_d 100 true) = true /\
  is_conv_root (brentq tiny_cubic (-6) 9.375 0x1.a36e2eb1c432dp-14 rtol_d 100 true) (-6) 9.375 = true.
Proof. exact brentq_zero_division_refuted. Qed.
Print Assumptions C17_brentq_zero_division_refuted.

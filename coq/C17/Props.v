(* C17 property theorems: statements only, each closed by `exact`, with Print Assumptions. *)
From Coq Require Import ZArith QArith Qabs List Bool PrimFloat Permutation.
From QE Require Import Base.Num C17.Model C17.Proofs C17.Proofs2 C17.Proofs3 C17.Proofs4 C17.Proofs5 C17.Proofs6 C17.Proofs7 C17.Findings.
Import ListNotations.

(* converged = true iff the stopping criterion fired within maxiter passes; otherwise converged = false is
   returned (disp = false) or RuntimeError is raised (disp = true).  Every NumX instance, every f, f', f''. *)
Theorem C17_newton_flag : forall (T : Type) (NX : NumX T) (f fp : T -> T) (tol x0 : T) (maxiter : Z) (disp : bool),
  nleb tol nzero = false -> (1 <= maxiter)%Z ->
  flag_contract (newton f fp tol x0 maxiter disp) disp
                (fires (newton_event f fp tol) (newton_next f fp) (Z.to_nat maxiter) (nmul none_ x0)).
Proof. exact (@newton_flag). Qed.
Print Assumptions C17_newton_flag.

Theorem C17_halley_flag : forall (T : Type) (NX : NumX T) (f fp fp2 : T -> T) (tol x0 : T) (maxiter : Z) (disp : bool),
  nleb tol nzero = false -> (1 <= maxiter)%Z ->
  flag_contract (newton_halley f fp fp2 tol x0 maxiter disp) disp
                (fires (halley_event f fp fp2 tol) (halley_next f fp fp2) (Z.to_nat maxiter) (nmul none_ x0)).
Proof. exact (@halley_flag). Qed.
Print Assumptions C17_halley_flag.

Theorem C17_secant_flag : forall (T : Type) (NX : NumX T) (f : T -> T) (tol c4 x0 : T) (maxiter : Z) (disp : bool),
  nleb tol nzero = false -> (1 <= maxiter)%Z ->
  flag_contract (newton_secant f tol c4 x0 maxiter disp) disp
                (fires (secant_event tol) (secant_next f) (Z.to_nat maxiter) (secant_start f c4 x0)).
Proof. exact (@secant_flag). Qed.
Print Assumptions C17_secant_flag.

Example ex_newton_flag :   (* f(x) = x^2 - 2 from x0 = 1 over Q: the criterion fires, converged = true *)
  nleb (T := Q) (1 # 1000)%Q nzero = false /\
  exists r fc it, newton (fun x : Q => (x * x - 2)%Q) (fun x : Q => (2 * x)%Q) (1 # 1000)%Q 1%Q 50 true = Res r fc it true.
Proof. split; [reflexivity|]. do 3 eexists. vm_compute. reflexivity. Qed.

(* bisect over exact rationals, ANY objective f.  near_sign_change f r tol :=
   exists p q, (f p <= 0 <= f q or f q <= 0 <= f p) and |p - r| <= tol and |q - r| <= tol. *)
Theorem C17_bisect_bracket : forall (f : Q -> Q) (a b xtol rtol : Q) (maxiter : Z) (disp : bool),
  (0 < xtol)%Q -> (0 <= rtol)%Q -> (1 <= maxiter)%Z ->
  let xa := Qmulr a 1 in
  let xb := Qmulr b 1 in
  let o := bisect f a b xtol rtol maxiter disp in
  ((0 < f xa * f xb)%Q <-> o = ErrSign) /\
  (forall r fc it, o = Res r fc it true ->
     (exists p q, ((f p <= 0 /\ 0 <= f q) \/ (f q <= 0 /\ 0 <= f p))%Q /\
                  (Qabs (p - r) <= xtol + rtol * Qabs r)%Q /\ (Qabs (q - r) <= xtol + rtol * Qabs r)%Q) /\
     (Qabs (r - xa) <= Qabs (xb - xa))%Q /\ (Qabs (r - xb) <= Qabs (xb - xa))%Q /\
     (fc = 2 + it)%Z /\ (0 <= it <= maxiter)%Z) /\
  (~ (0 < f xa * f xb)%Q -> (f xb == 0)%Q -> o = Res xb 2 0 true) /\
  (~ (0 < f xa * f xb)%Q -> (f xa == 0)%Q -> ~ (f xb == 0)%Q -> o = Res xa 2 0 true) /\
  (forall r fc it, o = Res r fc it false -> disp = false /\ it = (maxiter - 1)%Z /\ fc = (2 + maxiter)%Z) /\
  (o = ErrNoConv -> disp = true) /\ o <> ErrArg /\ o <> ErrZeroDiv.
Proof. exact bisect_bracket. Qed.
Print Assumptions C17_bisect_bracket.

Example ex_bisect_bracket :   (* f(x) = x^2 - 2 on [0, 2]: hypotheses hold, the call converges *)
  let f := fun x : Q => (x * x - 2)%Q in
  ~ (0 < f (Qmulr 0 1) * f (Qmulr 2 1))%Q /\
  exists r fc it, bisect f 0%Q 2%Q (1 # 1000)%Q (1 # 1000000)%Q 100 true = Res r fc it true.
Proof. cbv zeta. split; [vm_compute; discriminate|]. do 3 eexists. vm_compute. reflexivity. Qed.

(* brentq over exact rationals, ANY objective f: same contract (the bracket [xblk, xcur] always carries a sign
   change; convergence means its width is below xtol + rtol|xcur| or f(xcur) = 0) *)
Theorem C17_brentq_bracket : forall (f : Q -> Q) (a b xtol rtol : Q) (maxiter : Z) (disp : bool),
  (0 < xtol)%Q -> (0 <= rtol)%Q -> (1 <= maxiter)%Z ->
  let xa := Qmulr a 1 in
  let xb := Qmulr b 1 in
  let o := brentq f a b xtol rtol maxiter disp in
  ((0 < f xa * f xb)%Q <-> o = ErrSign) /\
  (forall r fc it, o = Res r fc it true ->
     (exists p q, ((f p <= 0 /\ 0 <= f q) \/ (f q <= 0 /\ 0 <= f p))%Q /\
                  (Qabs (p - r) <= xtol + rtol * Qabs r)%Q /\ (Qabs (q - r) <= xtol + rtol * Qabs r)%Q) /\
     (fc = 1 + it \/ (fc = 2 /\ it = 0))%Z /\ (0 <= it <= maxiter)%Z) /\
  (~ (0 < f xa * f xb)%Q -> (f xb == 0)%Q -> o = Res xb 2 0 true) /\
  (~ (0 < f xa * f xb)%Q -> (f xa == 0)%Q -> ~ (f xb == 0)%Q -> o = Res xa 2 0 true) /\
  (forall r fc it, o = Res r fc it false -> disp = false) /\
  (o = ErrNoConv -> disp = true) /\ o <> ErrArg.
Proof. exact brentq_bracket. Qed.
Print Assumptions C17_brentq_bracket.

Example ex_brentq_bracket :
  let f := fun x : Q => (x * x - 2)%Q in
  exists r fc it, brentq f 0%Q 2%Q (1 # 1000)%Q (1 # 1000000)%Q 100 true = Res r fc it true /\ (2 <= it)%Z.
Proof. cbv zeta. do 3 eexists. vm_compute. split; [reflexivity|discriminate]. Qed.

(* brent_max over exact rationals, ANY objective f, any sqrt_eps >= 0 and golden-section constant in (0,1]:
   the returned point lies in [a,b], fval is f there, status_flag = 1 exactly when the evaluation budget stopped
   the loop (then num >= maxiter; num = maxiter when maxiter >= 2), and the model never runs out of fuel. *)
Theorem C17_brent_max_in_interval : forall (f : Q -> Q) (sqrt_eps g : Q),
  (0 <= sqrt_eps)%Q -> (0 < g)%Q -> (g <= 1)%Q ->
  forall (a b xtol : Q) (maxiter : Z), (0 < xtol)%Q ->
  ((a < b)%Q ->
   exists x fv st n, brent_max f sqrt_eps g a b xtol maxiter = BMRes x fv st n /\
     (a <= x <= b)%Q /\ (fv == f x)%Q /\
     (st = 0 \/ st = 1)%Z /\ (st = 1%Z -> (maxiter <= n)%Z) /\ (st = 0%Z -> (n = 1 \/ n < maxiter)%Z) /\
     (1 <= n)%Z /\ (2 <= maxiter -> n <= maxiter)%Z) /\
  (~ (a < b)%Q -> brent_max f sqrt_eps g a b xtol maxiter = BMErr).
Proof. exact brent_max_in_interval. Qed.
Print Assumptions C17_brent_max_in_interval.

Example ex_brent_max :   (* f(x) = -(x-1)^2 on [0,3] with rational stand-ins for sqrt(2.2e-16) and (3-sqrt 5)/2 *)
  exists x fv n, brent_max (fun x : Q => (- ((x - 1) * (x - 1)))%Q) (1 # 67000000)%Q (381966 # 1000000)%Q
                   0%Q 3%Q (1 # 100000)%Q 500 = BMRes x fv 0 n /\ (3 <= n)%Z.
Proof. do 3 eexists. vm_compute. split; [reflexivity|discriminate]. Qed.

(* nelder_mead, EVERY arithmetic instance, any objective, any bounds and coefficients: the result is a stored vertex,
   its reported value is the stored -f there (+inf, i.e. fun = -inf, outside the bounds), success = (nit < max_iter),
   0 <= nit <= max(max_iter,0), n+1 vertices are returned, and the model never runs out of fuel *)
Theorem C17_nelder_mead_inv : forall (T : Type) (NX : NumX T) (f : list T -> T) (bounds : list (T * T))
    (rho chi gam sig nonzdelt zdelt : T) (x0 : list T) (tol_f tol_x : T) (max_iter : Z),
  let o := nelder_mead f bounds rho chi gam sig nonzdelt zdelt x0 tol_f tol_x max_iter in
  o <> NMFuel /\
  forall x nf suc nit_ V, o = NMRes x nf suc nit_ V ->
    length V = S (length x0) /\ (exists b, (b < S (length x0))%nat /\ x = nth b V []) /\
    nf = neg_fun f bounds x /\
    suc = (nit_ <? max_iter)%Z /\ (0 <= nit_ <= Z.max max_iter 0)%Z.
Proof. exact (@nelder_mead_result). Qed.
Print Assumptions C17_nelder_mead_inv.

(* over exact rationals, any objective that respects == componentwise, tol_f > 0: the best stored value never gets
   worse, so the reported -fun is <= -f at every vertex of the initial simplex (+inf for vertices outside the bounds) *)
Theorem C17_nelder_mead_not_below_initial : forall (f : list Q -> Q) (bounds : list (Q * Q))
    (rho chi gam sig nonzdelt zdelt : Q),
  (forall x y, Forall2 Qeq x y -> (f x == f y)%Q) ->
  forall x0 tol_f tol_x max_iter x nf suc nit_ V, (0 < tol_f)%Q ->
  nelder_mead f bounds rho chi gam sig nonzdelt zdelt x0 tol_f tol_x max_iter = NMRes x nf suc nit_ V ->
  forall i, (i <= length x0)%nat ->
    ext_lt (neg_fun f bounds (nth i (init_simplex nonzdelt zdelt x0) [])) nf = false.
Proof. exact nelder_mead_not_below_initial. Qed.
Print Assumptions C17_nelder_mead_not_below_initial.

Example ex_nelder_mead :   (* f(x,y) = -(x-1)^2 - (y+2)^2 from (0,0), no bounds: 30 passes: -f drops from 5 to below 1 *)
  let f := fun v : list Q => (- ((nth 0 v 0 - 1) * (nth 0 v 0 - 1)) - (nth 1 v 0 + 2) * (nth 1 v 0 + 2))%Q in
  exists x nf V, nelder_mead f [] 1%Q 2%Q (1 # 2)%Q (1 # 2)%Q (1 # 20)%Q (1 # 4000)%Q [0%Q; 0%Q] (1 # 1000)%Q (1 # 1000)%Q 30
                 = NMRes x (Fin nf) false 30 V /\ (nf < 1)%Q.
Proof. cbv zeta. do 3 eexists. vm_compute. split; reflexivity. Qed.

Theorem C17_bisect_product_underflow_refuted :
  PrimFloat.ltb (tiny_f 0) 0 = true /\ PrimFloat.ltb 0 (tiny_f 3) = true /\ PrimFloat.eqb (tiny_f 1) 0 = true /\
  PrimFloat.ltb 0 (tiny_f 2.5) = true /\
  is_conv_root (bisect_old tiny_f 0 3 xtol_d rtol_d 100 true) 2.75 3 = true /\
  is_conv_root (bisect tiny_f 0 3 xtol_d rtol_d 100 true) 0x1.ffffffffp-1 0x1.00000001p+0 = true.
Proof. exact bisect_product_underflow_refuted. Qed.
Print Assumptions C17_bisect_product_underflow_refuted.

Theorem C17_brentq_product_underflow_refuted :
  PrimFloat.ltb (tiny_f 0) 0 = true /\ PrimFloat.ltb 0 (tiny_f 3) = true /\
  is_conv_root (brentq_old tiny_f true 0 3 xtol_d rtol_d 100 true) 0 0 = true /\
  is_conv_root (brentq tiny_f 0 3 xtol_d rtol_d 100 true) 0x1.ffffffffp-1 0x1.00000001p+0 = true.
Proof. exact brentq_product_underflow_refuted. Qed.
Print Assumptions C17_brentq_product_underflow_refuted.

Theorem C17_brentq_zero_division_refuted :
  PrimFloat.ltb (tiny_cubic (-6)) 0 = true /\ PrimFloat.ltb 0 (tiny_cubic 9.375) = true /\
  is_zero_div (brentq_old tiny_cubic false (-6) 9.375 0x1.a36e2eb1c432dp-14 rtol_d 100 true) = true /\
  is_conv_root (brentq tiny_cubic (-6) 9.375 0x1.a36e2eb1c432dp-14 rtol_d 100 true) (-6) 9.375 = true.
Proof. exact brentq_zero_division_refuted. Qed.
Print Assumptions C17_brentq_zero_division_refuted.

Theorem C17_nelder_mead_shrink_order_refuted :
  nm_summary (nelder_mead_old nmw_f nmw_bounds 1 2 0.5 0.5 0x1.999999999999ap-5 0x1.0624dd2f1a9fcp-12 nmw_x0
                              0x1.b7cdfd9d7bdbbp-34 0x1.b7cdfd9d7bdbbp-34 1000)
    = Some (nmw_x0, 3.125%float, true, 12%Z) /\
  match nm_summary (nelder_mead nmw_f nmw_bounds 1 2 0.5 0.5 0x1.999999999999ap-5 0x1.0624dd2f1a9fcp-12 nmw_x0
                                0x1.b7cdfd9d7bdbbp-34 0x1.b7cdfd9d7bdbbp-34 1000) with
  | Some (_, v, true, _) => PrimFloat.ltb v 1.625 | _ => false end = true.
Proof. exact nelder_mead_shrink_order_refuted. Qed.
Print Assumptions C17_nelder_mead_shrink_order_refuted.

(* nelder_mead, EVERY arithmetic instance: at the end of every run the order array sort_ind is a permutation of 0..n
   (initial argsort, every reflection/expansion/contraction insertion, repaired shrink reorder) *)
Theorem C17_nelder_mead_order_permutation : forall (T : Type) (NX : NumX T) (f : list T -> T) (bounds : list (T * T))
    (rho chi gam sig nonzdelt zdelt : T) (x0 : list T) (tol_f tol_x : T) (max_iter : Z) (s : @nm T) (fail : bool),
  nm_loop f bounds rho chi gam sig (S (Z.to_nat max_iter)) (nm_init f bounds nonzdelt zdelt x0) (length x0)
          (npow sig (length x0)) tol_f tol_x max_iter = Some (s, fail) ->
  Permutation (si s) (seq 0 (S (length x0))).
Proof. exact (@nelder_mead_order_permutation). Qed.
Print Assumptions C17_nelder_mead_order_permutation.

(* every instance whose comparison is a strict weak order (asymmetry + negative transitivity): each pass keeps the order
   array sorted by the stored values, a shrink pass under the proviso that no shrunk vertex beats the best one *)
Theorem C17_nelder_mead_step_sorted : forall (T : Type) (NX : NumX T) (f : list T -> T) (bounds : list (T * T))
    (rho chi gam sig : T),
  (forall a b : T, nltb a b = true -> nltb b a = false) ->
  (forall a b c : T, nltb a b = false -> nltb b c = false -> nltb a c = false) ->
  forall (n : nat) (s : @nm T) (sn : T),
  nm_ok f bounds n s -> NoDup (si s) -> sorted (fv s) (si s) ->
  shrink_keeps_best f bounds rho chi gam sig n sn s ->
  sorted (fv (nm_step f bounds rho chi gam sig s n sn)) (si (nm_step f bounds rho chi gam sig s n sn)).
Proof. exact (@nm_step_sorted). Qed.
Print Assumptions C17_nelder_mead_step_sorted.

(* run level: if every shrink pass of the run keeps the best vertex best, the returned vertex is a best stored vertex
   (no stored value is below the reported one); in particular for runs without shrink passes *)
Theorem C17_nelder_mead_sorted : forall (T : Type) (NX : NumX T) (f : list T -> T) (bounds : list (T * T))
    (rho chi gam sig nonzdelt zdelt : T),
  (forall a b : T, nltb a b = true -> nltb b a = false) ->
  (forall a b c : T, nltb a b = false -> nltb b c = false -> nltb a c = false) ->
  forall x0 tol_f tol_x max_iter x nf suc nit_ V,
  run_keeps_best f bounds rho chi gam sig (S (Z.to_nat max_iter)) (nm_init f bounds nonzdelt zdelt x0) (length x0)
                 (npow sig (length x0)) tol_f tol_x max_iter ->
  nelder_mead f bounds rho chi gam sig nonzdelt zdelt x0 tol_f tol_x max_iter = NMRes x nf suc nit_ V ->
  forall i, (i <= length x0)%nat -> ext_lt (neg_fun f bounds (nth i V [])) nf = false.
Proof. exact (@nelder_mead_sorted). Qed.
Print Assumptions C17_nelder_mead_sorted.

Example ex_strict_weak_order_Q :   (* the two order hypotheses hold for the exact instance *)
  (forall a b : Q, nltb a b = true -> nltb b a = false) /\
  (forall a b c : Q, nltb a b = false -> nltb b c = false -> nltb a c = false).
Proof. split; [exact Qltb_asym|exact Qltb_negtrans]. Qed.

(* the proviso cannot be dropped, and the pinned shrink form breaks the permutation property (finding D19) *)
Theorem C17_nelder_mead_sorted_refuted :
  match nelder_mead negrosen10 [] 1 2 0.5 0.5 0x1.999999999999ap-5 0x1.0624dd2f1a9fcp-12 [(-3.375)%float; 0.625%float]
                    0x1.b7cdfd9d7bdbbp-34 0x1.b7cdfd9d7bdbbp-34 50 with
  | NMRes x (Fin nf) true 8%Z V =>
      PrimFloat.eqb nf 0x1.3921c5c3957f8p+2 && ext_lt (neg_fun negrosen10 [] (nth 1 V [])) (Fin nf)
  | _ => false end = true.
Proof. exact nelder_mead_sorted_refuted. Qed.
Print Assumptions C17_nelder_mead_sorted_refuted.

Theorem C17_nelder_mead_old_order_not_permutation :
  final_order_old = Some [2; 1; 2]%nat /\ nodupb [2; 1; 2]%nat = false.
Proof. exact nelder_mead_old_order_not_permutation. Qed.
Print Assumptions C17_nelder_mead_old_order_not_permutation.

(* C17: the scalar root finders of quantecon/optimize/root_finding.py (_bisect_interval, newton, newton_halley,
   newton_secant, bisect, brentq) as REGENERATED from /repo's current source on every run (Gen/Kernels4.v, translation
   by harness/py2coq.py) compute the hand-written model C17/Model.v, for EVERY NumX instance (exact Q and binary64)
   and every objective / derivative (functions T -> T, the *args tuple folded in).  Statements only; proofs in
   C17/TieGen.v.  The extra parameters of the generated kernels (abs, unary minus, np.sign, the literals 0.5, 2.0, 3.0)
   are instantiated with the model's nabs, nopp, nsign, nhalf, ntwo, nthree; a generated kernel returns
   (exception text + (root, funcalls, iterations, converged), true) and `agrees` relates that to the model's outcome
   (Res / ErrArg / ErrSign / ErrNoConv).  ErrZeroDiv (Numba's ZeroDivisionError) is not Python text: newton_halley and
   brentq are tied for the runs in which the model does not report it.  brentq: np.inf is the parameter inf_;
   binf_ok says that 2|inf_| is not below the step bound where the source assigns stry = np.inf (decidable along the run). *)
From Coq Require Import ZArith QArith List Bool String.
From QE Require Import Base.Num Gen.Kernels4 C17.Model C17.TieGen.
Import ListNotations.
Open Scope Z_scope.

Theorem C17_tie_bisect_interval : forall (T : Type) (NX : NumX T) (a b fa fb : T),
  gen_bisect_interval nsign a b fa fb =
    (match bisect_interval a b fa fb with
     | None => inl "ValueError: f(a) and f(b) must have different signs"%string
     | Some (root, conv) => inr (root, if conv then 0 else -1)
     end, true).
Proof. exact (@gen_bisect_interval_tie). Qed.
Print Assumptions C17_tie_bisect_interval.

Theorem C17_tie_newton : forall (T : Type) (NX : NumX T) (f fp : T -> T) (tol x0 : T) (maxiter : Z) (disp : bool),
  exists g, gen_newton nabs f x0 fp tol maxiter disp = (g, true) /\ agrees g (newton f fp tol x0 maxiter disp).
Proof. exact (@gen_newton_tie). Qed.
Print Assumptions C17_tie_newton.

Theorem C17_tie_newton_halley : forall (T : Type) (NX : NumX T) (f fp fp2 : T -> T) (tol x0 : T) (maxiter : Z) (disp : bool),
  newton_halley f fp fp2 tol x0 maxiter disp <> ErrZeroDiv ->
  exists g, gen_newton_halley nhalf nabs f x0 fp fp2 tol maxiter disp = (g, true) /\
            agrees g (newton_halley f fp fp2 tol x0 maxiter disp).
Proof. exact (@gen_newton_halley_tie). Qed.
Print Assumptions C17_tie_newton_halley.

Theorem C17_tie_newton_secant : forall (T : Type) (NX : NumX T) (f : T -> T) (tol c4 x0 : T) (maxiter : Z) (disp : bool),
  exists g, gen_newton_secant c4 ntwo nabs f x0 tol maxiter disp = (g, true) /\
            agrees g (newton_secant f tol c4 x0 maxiter disp).
Proof. exact (@gen_newton_secant_tie). Qed.
Print Assumptions C17_tie_newton_secant.

Theorem C17_tie_bisect : forall (T : Type) (NX : NumX T) (f : T -> T) (a b xtol rtol : T) (maxiter : Z) (disp : bool),
  exists g, gen_bisect nsign nhalf nabs f a b xtol rtol maxiter disp = (g, true) /\
            agrees g (bisect f a b xtol rtol maxiter disp).
Proof. exact (@gen_bisect_tie). Qed.
Print Assumptions C17_tie_bisect.

Theorem C17_tie_brentq : forall (T : Type) (NX : NumX T) (f : T -> T) (inf_ a b xtol rtol : T) (maxiter : Z) (disp : bool),
  brentq f a b xtol rtol maxiter disp <> ErrZeroDiv ->
  binf_ok f inf_ (Z.to_nat maxiter) 0
    {| xpre := nmul a none_; xcur := nmul b none_; xblk := nzero; fpre := f (nmul a none_); fcur := f (nmul b none_);
       fblk := nzero; spre := nzero; scur := nzero |} xtol rtol 2 ->
  exists g, gen_brentq nsign nabs ntwo nopp inf_ nthree f a b xtol rtol maxiter disp = (g, true) /\
            agrees g (brentq f a b xtol rtol maxiter disp).
Proof. exact (@gen_brentq_tie). Qed.
Print Assumptions C17_tie_brentq.

(* non-vacuity, exact Q: f(x) = x^2 - 2 on [0, 2] *)
Definition sq2 (x : Q) : Q := (x * x - 2)%Q.
Definition enc_res (o : outcome Q) : string + (Q * Z * Z * bool) :=
  match o with Res r fc it cv => inr (r, fc, it, cv) | _ => inl ""%string end.
Example C17_tie_example :
  (exists r fc it, bisect sq2 0%Q 2%Q (1#1000)%Q 0%Q 100 true = Res r fc it true) /\
  fst (gen_bisect nsign nhalf nabs sq2 0%Q 2%Q (1#1000)%Q 0%Q 100 true) = enc_res (bisect sq2 0%Q 2%Q (1#1000)%Q 0%Q 100 true) /\
  gen_bisect nsign nhalf nabs sq2 1%Q 1%Q (1#1000)%Q 0%Q 100 true =
    (inl "ValueError: f(a) and f(b) must have different signs"%string, true) /\
  (exists r fc it, brentq sq2 0%Q 2%Q (1#1000)%Q 0%Q 100 true = Res r fc it true) /\
  fst (gen_brentq nsign nabs ntwo nopp (1000000%Q) nthree sq2 0%Q 2%Q (1#1000)%Q 0%Q 100 true) =
    enc_res (brentq sq2 0%Q 2%Q (1#1000)%Q 0%Q 100 true) /\
  fst (gen_newton nabs sq2 1%Q (fun x => 2 * x)%Q (1#100)%Q 50 true) =
    enc_res (newton sq2 (fun x => 2 * x)%Q (1#100)%Q 1%Q 50 true).
Proof. vm_compute. repeat split; try (do 3 eexists; reflexivity). Qed.

(* brent_max (scalar_maximization.py) as regenerated from the current source = C17/Model.v's brent_max, for every NumX
   instance and every objective (proof by stages of the loop body in C17/TieGen2.v).  np.sqrt(2.2e-16), np.sqrt(5.0) are
   parameters sqrt_eps, sqrt5 of the generated kernel; the model's golden_mean is 0.5*(3.0 - sqrt5).  BMFuel (model fuel
   exhausted) is not a value the code can return and is excluded. *)
From QE Require Import C17.TieGen2.
Theorem C17_tie_brent_max :
  forall (T : Type) (NX : NumX T) (f : T -> T) (sqrt_eps golden_mean xtol : T) (maxfun : Z) (isfin : T -> bool) (sqrt5 a b : T)
         (maxiter : Z),
  isfin = nisfin -> golden_mean = nmul nhalf (nsub nthree sqrt5) -> maxfun = maxiter ->
  match brent_max f sqrt_eps golden_mean a b xtol maxiter with
  | BMFuel => True
  | BMErr => exists msg, gen_brent_max isfin sqrt_eps nhalf nthree sqrt5 nopp nabs ntwo nsign f a b xtol maxiter = (inl msg, true)
  | BMRes x fv st n =>
    gen_brent_max isfin sqrt_eps nhalf nthree sqrt5 nopp nabs ntwo nsign f a b xtol maxiter = (inr (x, fv, (st, n)), true)
  end.
Proof. exact (@gen_brent_max_tie). Qed.
Print Assumptions C17_tie_brent_max.

(* non-vacuity: f(x) = -(x-1)^2 on [0, 3] over Q with rational stand-ins for the two square roots *)
Example C17_tie_brent_max_example :
  let g := gen_brent_max nisfin (1#100000)%Q nhalf nthree (9#4)%Q nopp nabs ntwo nsign (fun x => - ((x - 1) * (x - 1)))%Q 0%Q 3%Q (1#100)%Q 50 in
  match brent_max (fun x => - ((x - 1) * (x - 1)))%Q (1#100000)%Q (nmul nhalf (nsub nthree (9#4)%Q)) 0%Q 3%Q (1#100)%Q 50 with
  | BMRes x fv st n => g = (inr (x, fv, (st, n)), true) /\ st = 0
  | _ => False
  end.
Proof. vm_compute. split; reflexivity. Qed.

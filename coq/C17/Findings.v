(* C17 finding (repaired in /repo by commit 8b50f2a "fix: bisect/brentq must compare signs, not products
   that can underflow"): the pinned code tested signs through the products fa*fb > 0, fm*fa >= 0 and
   fpre*fcur < 0.  For |f| below about 1e-162 the product underflows to (-)0.0.  This file keeps the
   faithful model of the PINNED (product) form and the machine-checked witness; Model.v follows the
   repaired source.
   Second finding (repaired by commit 6bb6da5 "fix: brentq must not divide by an underflowed denominator"):
   the inverse-quadratic step divided by dblk*dpre*(fblk-fpre) unguarded; for |f| around 1e-187 that product
   underflows to 0 and Numba's Python error model raised ZeroDivisionError on a valid bracket.
   Third finding (repaired by commit 2738fce "fix: nelder_mead shrink step must reorder vertex indices, not
   positions"): the shrink step stored `f_val[sort_ind[1:]].argsort() + 1` (positions) in sort_ind[1:], so the
   order array got duplicate entries and lost a vertex. *)
From Coq Require Import ZArith List Bool PrimFloat.
From QE Require Import Base.Num C17.Model.
Import ListNotations.

Section Old.
Context {T : Type} {NX : NumX T}.
Variable f : T -> T.

Definition bisect_interval_old (a b fa fb : T) : option (T * bool) :=
  if nltb nzero (nmul fa fb) then None
  else
    let r0 := (nzero, false) in
    let r1 := if neqb fa nzero then (a, true) else r0 in
    let r2 := if neqb fb nzero then (b, true) else r1 in
    Some r2.

Fixpoint bisect_loop_old (fuel : nat) (itr : Z) (xa dm fa xtol rtol : T) (fc : Z) : T * Z * Z * bool :=
  match fuel with
  | O => (nzero, fc, itr - 1, false)%Z
  | S k =>
    let dm := nmul dm nhalf in
    let xm := nadd xa dm in
    let fm := f xm in
    let xa' := if nleb nzero (nmul fm fa) then xm else xa in
    if neqb fm nzero || nltb (nabs dm) (nadd xtol (nmul rtol (nabs xm)))
    then (xm, fc + 1, itr + 1, true)%Z
    else bisect_loop_old k (itr + 1)%Z xa' dm fa xtol rtol (fc + 1)%Z
  end.

Definition bisect_old (a b xtol rtol : T) (maxiter : Z) (disp : bool) : outcome T :=
  if nleb xtol nzero then ErrArg
  else if (maxiter <? 1)%Z then ErrArg
  else
    let xa := nmul a none_ in
    let xb := nmul b none_ in
    let fa := f xa in
    let fb := f xb in
    match bisect_interval_old xa xb fa fb with
    | None => ErrSign
    | Some (root, true) => Res root 2 0 true
    | Some (_, false) =>
      finish disp (bisect_loop_old (Z.to_nat maxiter) 0 xa (nsub xb xa) fa xtol rtol 2)
    end.

Definition bq_rebracket_old (s : @bq T) : @bq T :=
  if nltb (nmul (fpre s) (fcur s)) nzero
  then let d := nsub (xcur s) (xpre s) in
       {| xpre := xpre s; xcur := xcur s; xblk := xpre s; fpre := fpre s; fcur := fcur s; fblk := fpre s;
          spre := d; scur := d |}
  else s.

(* pinned step selection: the last division is unguarded *)
Definition bq_steps_old (s : @bq T) (delta sbis : T) : option (T * T) :=
  if nltb delta (nabs (spre s)) && nltb (nabs (fcur s)) (nabs (fpre s)) then
    let stry :=
      if neqb (xpre s) (xblk s)
      then chkdiv (nmul (nopp (fcur s)) (nsub (xcur s) (xpre s))) (nsub (fcur s) (fpre s))
      else
        match chkdiv (nsub (fpre s) (fcur s)) (nsub (xpre s) (xcur s)) with
        | None => None
        | Some dpre =>
          match chkdiv (nsub (fblk s) (fcur s)) (nsub (xblk s) (xcur s)) with
          | None => None
          | Some dblk =>
            chkdiv (nmul (nopp (fcur s)) (nsub (nmul (fblk s) dblk) (nmul (fpre s) dpre)))
                   (nmul (nmul dblk dpre) (nsub (fblk s) (fpre s)))
          end
        end in
    match stry with
    | None => None
    | Some stry =>
      if nltb (nmul ntwo (nabs stry)) (nmin (nabs (spre s)) (nsub (nmul nthree (nabs sbis)) delta))
      then Some (scur s, stry) else Some (sbis, sbis)
    end
  else Some (sbis, sbis).

Definition bq_advance_old (s : @bq T) (delta sbis : T) : option (@bq T) :=
  match bq_steps_old s delta sbis with
  | None => None
  | Some (sp, sc) =>
    let xc := if nltb delta (nabs sc) then nadd (xcur s) sc
              else nadd (xcur s) (if nltb nzero sbis then delta else nopp delta) in
    Some {| xpre := xcur s; xcur := xc; xblk := xblk s; fpre := fcur s; fcur := f xc; fblk := fblk s;
            spre := sp; scur := sc |}
  end.

(* rebr = bq_rebracket_old: pinned code; rebr = bq_rebracket: code after the first repair only *)
Fixpoint brentq_loop_old (rebr : @bq T -> @bq T) (fuel : nat) (itr : Z) (s : @bq T) (xtol rtol : T) (fc : Z)
  : option (T * Z * Z * bool) :=
  match fuel with
  | O => Some (nzero, fc, itr - 1, false)%Z
  | S k =>
    let s2 := bq_swap (rebr s) in
    let delta := bq_delta s2 xtol rtol in
    let sbis := bq_sbis s2 in
    if neqb (fcur s2) nzero || nltb (nabs sbis) delta
    then Some (xcur s2, fc, itr + 1, true)%Z
    else match bq_advance_old s2 delta sbis with
         | None => None
         | Some s3 => brentq_loop_old rebr k (itr + 1)%Z s3 xtol rtol (fc + 1)%Z
         end
  end.

Definition brentq_old (pinned : bool) (a b xtol rtol : T) (maxiter : Z) (disp : bool) : outcome T :=
  if nleb xtol nzero then ErrArg
  else if (maxiter <? 1)%Z then ErrArg
  else
    let xp := nmul a none_ in
    let xc := nmul b none_ in
    let fp_ := f xp in
    let fc_ := f xc in
    match (if pinned then bisect_interval_old xp xc fp_ fc_ else bisect_interval xp xc fp_ fc_) with
    | None => ErrSign
    | Some (root, true) => Res root 2 0 true
    | Some (_, false) =>
      finish_opt disp (brentq_loop_old (if pinned then bq_rebracket_old else bq_rebracket) (Z.to_nat maxiter) 0
        {| xpre := xp; xcur := xc; xblk := nzero; fpre := fp_; fcur := fc_; fblk := nzero;
           spre := nzero; scur := nzero |} xtol rtol 2)
    end.
End Old.

(* witness: f(x) = 1e-200 * (x - 1) on [0, 3], default tolerances (2e-12, 4 eps), maxiter 100 *)
Definition tiny_f (x : float) : float := (0x1.87e92154ef7acp-665 * (x - 1))%float.
Definition xtol_d : float := 0x1.19799812dea11p-39%float.
Definition rtol_d : float := 0x1p-50%float.

Definition is_conv_root (o : outcome float) (lo hi : float) : bool :=
  match o with Res r _ _ true => PrimFloat.leb lo r && PrimFloat.leb r hi | _ => false end.

(* f(0) < 0 < f(3), f(1) = 0, f > 0 on the sampled points right of 1; the product form nevertheless reports
   a converged root in [2.99, 3] (bisect) resp. the root 0.0 (brentq, xblk never assigned) *)
Open Scope float_scope.
Lemma bisect_product_underflow_refuted :
  PrimFloat.ltb (tiny_f 0) 0 = true /\ PrimFloat.ltb 0 (tiny_f 3) = true /\ PrimFloat.eqb (tiny_f 1) 0 = true /\
  PrimFloat.ltb 0 (tiny_f 2.5) = true /\
  is_conv_root (bisect_old tiny_f 0 3 xtol_d rtol_d 100 true) 2.75 3 = true /\
  is_conv_root (bisect tiny_f 0 3 xtol_d rtol_d 100 true) 0x1.ffffffffp-1 0x1.00000001p+0 = true.
Proof. vm_compute. repeat split. Qed.

Lemma brentq_product_underflow_refuted :
  PrimFloat.ltb (tiny_f 0) 0 = true /\ PrimFloat.ltb 0 (tiny_f 3) = true /\
  is_conv_root (brentq_old tiny_f true 0 3 xtol_d rtol_d 100 true) 0 0 = true /\
  is_conv_root (brentq tiny_f 0 3 xtol_d rtol_d 100 true) 0x1.ffffffffp-1 0x1.00000001p+0 = true.
Proof. vm_compute. repeat split. Qed.

(* witness of the second finding: f(x) = 2.298e-187 (x+3)(x+0.5)(x-2.375) on [-6, 9.375], xtol = 1e-4 *)
Definition tiny_cubic (x : float) : float :=
  (((0x1p-620 * (x - (-3))) * (x - (-0.5))) * (x - 2.375))%float.
Definition is_zero_div (o : outcome float) : bool := match o with ErrZeroDiv => true | _ => false end.

Lemma brentq_zero_division_refuted :
  PrimFloat.ltb (tiny_cubic (-6)) 0 = true /\ PrimFloat.ltb 0 (tiny_cubic 9.375) = true /\
  is_zero_div (brentq_old tiny_cubic false (-6) 9.375 0x1.a36e2eb1c432dp-14 rtol_d 100 true) = true /\
  is_conv_root (brentq tiny_cubic (-6) 9.375 0x1.a36e2eb1c432dp-14 rtol_d 100 true) (-6) 9.375 = true.
Proof. vm_compute. repeat split. Qed.

(* ------------------------------------------------------------------ nelder_mead, pinned shrink step *)
Section OldNM.
Context {T : Type} {NX : NumX T}.
Variable f : list T -> T.
Variable bounds : list (T * T).
Variables (rho chi gam sig : T).
Variables (nonzdelt zdelt : T).

Definition shrink_order_old (tail_ : list nat) (perm : list nat) : list nat := map S perm.

Definition nm_shrink_old (s : @nm T) (n b w : nat) (sig_n : T) : @nm T :=
  let tail_ := tl (si s) in
  let '(V, F) := fold_left (fun (VF : list (list T) * list (ext T)) i =>
                    let '(V, F) := VF in
                    let vb := vget V b in
                    let vi := vadd vb (vscale sig (vsub (vget V i) vb)) in
                    (upd V i vi, upd F i (neg_fun f bounds vi))) tail_ (vs s, fv s) in
  let S_ := b :: shrink_order_old tail_ (argsort (map (fget F) tail_)) in
  let vb := vget V b in
  {| vs := V; fv := F; si := S_;
     xbar := vadd (vadd vb (vscale sig (vsub (xbar s) vb))) (vdivs (vsub (vget V w) (vget V (nth n S_ O))) (nofnat n));
     lv := nmul (lv s) sig_n; nit := (nit s + 1)%Z |}.

Definition nm_step_old (s : @nm T) (n : nat) (sig_n : T) : @nm T :=
  let b := nth 0 (si s) O in
  let w := nth n (si s) O in
  let xb := xbar s in
  let xr := vadd xb (vscale rho (vsub xb (vget (vs s) w))) in
  let fr := neg_fun f bounds xr in
  let fb := fget (fv s) b in
  let fw := fget (fv s) w in
  if negb (ext_lt fr fb) && ext_lt fr (fget (fv s) (nth (n - 1) (si s) O)) then nm_replace f bounds s n w xr rho
  else if ext_lt fr fb then
    let xe := vadd xb (vscale chi (vsub xr xb)) in
    if ext_lt (neg_fun f bounds xe) fr then nm_replace f bounds s n w xe (nmul rho chi) else nm_replace f bounds s n w xr rho
  else
    let temp := vscale gam (vsub xr xb) in
    let '(xc, upd_) := if ext_lt fr fw then (vadd xb temp, nmul rho gam) else (vsub xb temp, gam) in
    if ext_lt (neg_fun f bounds xc) (ext_min fr fw) then nm_replace f bounds s n w xc upd_
    else nm_shrink_old s n b w sig_n.

Fixpoint nm_loop_old (fuel : nat) (s : @nm T) (n : nat) (sig_n tol_f tol_x : T) (max_iter : Z) : option (@nm T * bool) :=
  let '(stop, fail) := nm_done s n tol_f tol_x max_iter in
  if stop then Some (s, fail)
  else match fuel with
       | O => None
       | S k => nm_loop_old k (nm_step_old s n sig_n) n sig_n tol_f tol_x max_iter
       end.

Definition nelder_mead_old (x0 : list T) (tol_f tol_x : T) (max_iter : Z) : nm_outcome T :=
  if existsb (fun lh => nltb (snd lh) (fst lh)) bounds then NMErr
  else
    let n := length x0 in
    match nm_loop_old (S (Z.to_nat max_iter)) (nm_init f bounds nonzdelt zdelt x0) n (npow sig n) tol_f tol_x max_iter with
    | None => NMFuel
    | Some (s, fail) =>
      let b := nth 0 (si s) O in
      NMRes (vget (vs s) b) (fget (fv s) b) (negb fail) (nit s) (vs s)
    end.
End OldNM.

(* witness: concave quadratic k - (x-c)'A(x-c), A = [[4,-1,0],[-1,0.5,0.125],[0,0.125,1.625]], c = (-1.25, 1.5, 1), k = 0,
   start (-2.25,-1,2), ACTIVE bounds [-2.26,-2.15] x [-2,1.56] x [0,3.12], default tolerances 1e-10, max_iter 1000 *)
Definition nmw_f (x : list float) : float :=
  let d0 := (nth 0 x 0 - (-1.25))%float in let d1 := (nth 1 x 0 - 1.5)%float in let d2 := (nth 2 x 0 - 1)%float in
  (0 - ((((((4 * d0) * d0 + ((-2) * d0) * d1) + (0 * d0) * d2) + (0.5 * d1) * d1) + (0.25 * d1) * d2) + (1.625 * d2) * d2))%float.
Definition nmw_bounds : list (float * float) :=
  [((-0x1.2147ae147ae14p+1)%float, (-0x1.1333333333333p+1)%float); ((-2)%float, 0x1.8f5c28f5c28f6p+0%float);
   (0%float, 0x1.8f5c28f5c28f6p+1%float)].
Definition nmw_x0 : list float := [(-2.25)%float; (-1)%float; 2%float].
Definition nm_summary (o : nm_outcome float) : option (list float * float * bool * Z) :=
  match o with NMRes x (Fin v) s n _ => Some (x, v, s, n) | _ => None end.

(* the pinned code reports success at the START vertex (value -3.125) after 12 passes; with the order array kept a
   permutation the run continues to a value above -1.625 (the constrained maximum is about -1.59) *)
Lemma nelder_mead_shrink_order_refuted :
  nm_summary (nelder_mead_old nmw_f nmw_bounds 1 2 0.5 0.5 0x1.999999999999ap-5 0x1.0624dd2f1a9fcp-12 nmw_x0
                              0x1.b7cdfd9d7bdbbp-34 0x1.b7cdfd9d7bdbbp-34 1000)
    = Some (nmw_x0, 3.125, true, 12%Z) /\
  match nm_summary (nelder_mead nmw_f nmw_bounds 1 2 0.5 0.5 0x1.999999999999ap-5 0x1.0624dd2f1a9fcp-12 nmw_x0
                                0x1.b7cdfd9d7bdbbp-34 0x1.b7cdfd9d7bdbbp-34 1000) with
  | Some (_, v, true, _) => PrimFloat.ltb v 1.625 | _ => false end = true.
Proof. vm_compute. split; reflexivity. Qed.

(* ---- the order array: permutation fails in the pinned shrink form, sortedness can fail in the repaired one ---- *)
Fixpoint nodupb (l : list nat) : bool :=
  match l with [] => true | x :: r => negb (existsb (Nat.eqb x) r) && nodupb r end.

(* negative Rosenbrock -((1-x)^2 + 10 (y - x^2)^2) *)
Definition negrosen10 (x : list float) : float :=
  let a := nth 0 x 0%float in let b := nth 1 x 0%float in
  (- (((1 - a) * (1 - a)) + ((10 * (b - a * a)) * (b - a * a))))%float.

(* order array at the end of the PINNED run from (-3.625, 0.375) with max_iter = 9 *)
Definition final_order_old : option (list nat) :=
  match nm_loop_old negrosen10 [] 1 2 0.5 0.5 10 (nm_init negrosen10 [] 0x1.999999999999ap-5 0x1.0624dd2f1a9fcp-12 [(-3.625)%float; 0.375%float])
                    2 (npow 0.5 2) 0x1.b7cdfd9d7bdbbp-34 0x1.b7cdfd9d7bdbbp-34 9 with
  | Some (s, _) => Some (si s) | None => None end.

(* pinned shrink step (positions instead of vertex indices): the order array ends as [2; 1; 2], not a permutation of 0..2
   (contrast: Proofs7.nelder_mead_order_permutation for the repaired step) *)
Lemma nelder_mead_old_order_not_permutation :
  final_order_old = Some [2; 1; 2]%nat /\ nodupb [2; 1; 2]%nat = false.
Proof. vm_compute. split; reflexivity. Qed.

(* repaired code, negative Rosenbrock -((1-x)^2 + 10 (y - x^2)^2) from (-3.375, 0.625), max_iter 50: a shrink pass produces a
   vertex better than the best one, sort_ind[0] keeps naming the old best, term_f goes negative and the run stops with
   success=True returning a vertex (value 4.8927 = -fun) that is NOT the best stored vertex (vertex 1 has 4.0511) *)
Lemma nelder_mead_sorted_refuted :
  match nelder_mead negrosen10 [] 1 2 0.5 0.5 0x1.999999999999ap-5 0x1.0624dd2f1a9fcp-12 [(-3.375)%float; 0.625%float]
                    0x1.b7cdfd9d7bdbbp-34 0x1.b7cdfd9d7bdbbp-34 50 with
  | NMRes x (Fin nf) true 8%Z V =>
      PrimFloat.eqb nf 0x1.3921c5c3957f8p+2 && ext_lt (neg_fun negrosen10 [] (nth 1 V [])) (Fin nf)
  | _ => false end = true.
Proof. vm_compute. reflexivity. Qed.

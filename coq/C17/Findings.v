(* C17 finding (repaired in /repo by commit 8b50f2a "fix: bisect/brentq must compare signs, not products
   that can underflow"): the pinned code tested signs through the products fa*fb > 0, fm*fa >= 0 and
   fpre*fcur < 0.  For |f| below about 1e-162 the product underflows to (-)0.0.  This file keeps the
   faithful model of the PINNED (product) form and the machine-checked witness; Model.v follows the
   repaired source. *)
From Coq Require Import ZArith List Bool PrimFloat.
From QE Require Import Base.Num C17.Model.
Import ListNotations.

Section Old.
Context {T : Type} {NX : NumX T}.
Variable f : T -> T.

Definition bisect_interval_old (a b fa fb : T) : option (T * bool) :=
  if nltb nzero (nmul fa fb) then None
  else
    let r0 := (nzero, false) in
    let r1 := if neqb fa nzero then (a, true) else r0 in
    let r2 := if neqb fb nzero then (b, true) else r1 in
    Some r2.

Fixpoint bisect_loop_old (fuel : nat) (itr : Z) (xa dm fa xtol rtol : T) (fc : Z) : T * Z * Z * bool :=
  match fuel with
  | O => (nzero, fc, itr - 1, false)%Z
  | S k =>
    let dm := nmul dm nhalf in
    let xm := nadd xa dm in
    let fm := f xm in
    let xa' := if nleb nzero (nmul fm fa) then xm else xa in
    if neqb fm nzero || nltb (nabs dm) (nadd xtol (nmul rtol (nabs xm)))
    then (xm, fc + 1, itr + 1, true)%Z
    else bisect_loop_old k (itr + 1)%Z xa' dm fa xtol rtol (fc + 1)%Z
  end.

Definition bisect_old (a b xtol rtol : T) (maxiter : Z) (disp : bool) : outcome T :=
  if nleb xtol nzero then ErrArg
  else if (maxiter <? 1)%Z then ErrArg
  else
    let xa := nmul a none_ in
    let xb := nmul b none_ in
    let fa := f xa in
    let fb := f xb in
    match bisect_interval_old xa xb fa fb with
    | None => ErrSign
    | Some (root, true) => Res root 2 0 true
    | Some (_, false) =>
      finish disp (bisect_loop_old (Z.to_nat maxiter) 0 xa (nsub xb xa) fa xtol rtol 2)
    end.

Definition bq_rebracket_old (s : @bq T) : @bq T :=
  if nltb (nmul (fpre s) (fcur s)) nzero
  then let d := nsub (xcur s) (xpre s) in
       {| xpre := xpre s; xcur := xcur s; xblk := xpre s; fpre := fpre s; fcur := fcur s; fblk := fpre s;
          spre := d; scur := d |}
  else s.

Fixpoint brentq_loop_old (fuel : nat) (itr : Z) (s : @bq T) (xtol rtol : T) (fc : Z) : T * Z * Z * bool :=
  match fuel with
  | O => (nzero, fc, itr - 1, false)%Z
  | S k =>
    let s2 := bq_swap (bq_rebracket_old s) in
    let delta := bq_delta s2 xtol rtol in
    let sbis := bq_sbis s2 in
    if neqb (fcur s2) nzero || nltb (nabs sbis) delta
    then (xcur s2, fc, itr + 1, true)%Z
    else brentq_loop_old k (itr + 1)%Z (bq_advance f s2 delta sbis) xtol rtol (fc + 1)%Z
  end.

Definition brentq_old (a b xtol rtol : T) (maxiter : Z) (disp : bool) : outcome T :=
  if nleb xtol nzero then ErrArg
  else if (maxiter <? 1)%Z then ErrArg
  else
    let xp := nmul a none_ in
    let xc := nmul b none_ in
    let fp_ := f xp in
    let fc_ := f xc in
    match bisect_interval_old xp xc fp_ fc_ with
    | None => ErrSign
    | Some (root, true) => Res root 2 0 true
    | Some (_, false) =>
      finish disp (brentq_loop_old (Z.to_nat maxiter) 0
        {| xpre := xp; xcur := xc; xblk := nzero; fpre := fp_; fcur := fc_; fblk := nzero;
           spre := nzero; scur := nzero |} xtol rtol 2)
    end.
End Old.

(* witness: f(x) = 1e-200 * (x - 1) on [0, 3], default tolerances (2e-12, 4 eps), maxiter 100 *)
Definition tiny_f (x : float) : float := (0x1.87e92154ef7acp-665 * (x - 1))%float.
Definition xtol_d : float := 0x1.19799812dea11p-39%float.
Definition rtol_d : float := 0x1p-50%float.

Definition is_conv_root (o : outcome float) (lo hi : float) : bool :=
  match o with Res r _ _ true => PrimFloat.leb lo r && PrimFloat.leb r hi | _ => false end.

(* f(0) < 0 < f(3), f(1) = 0, f > 0 on the sampled points right of 1; the product form nevertheless reports
   a converged root in [2.99, 3] (bisect) resp. the root 0.0 (brentq, xblk never assigned) *)
Open Scope float_scope.
Lemma bisect_product_underflow_refuted :
  PrimFloat.ltb (tiny_f 0) 0 = true /\ PrimFloat.ltb 0 (tiny_f 3) = true /\ PrimFloat.eqb (tiny_f 1) 0 = true /\
  PrimFloat.ltb 0 (tiny_f 2.5) = true /\
  is_conv_root (bisect_old tiny_f 0 3 xtol_d rtol_d 100 true) 2.75 3 = true /\
  is_conv_root (bisect tiny_f 0 3 xtol_d rtol_d 100 true) 0x1.ffffffffp-1 0x1.00000001p+0 = true.
Proof. vm_compute. repeat split. Qed.

Lemma brentq_product_underflow_refuted :
  PrimFloat.ltb (tiny_f 0) 0 = true /\ PrimFloat.ltb 0 (tiny_f 3) = true /\
  is_conv_root (brentq_old tiny_f 0 3 xtol_d rtol_d 100 true) 0 0 = true /\
  is_conv_root (brentq tiny_f 0 3 xtol_d rtol_d 100 true) 0x1.ffffffffp-1 0x1.00000001p+0 = true.
Proof. vm_compute. repeat split. Qed.

(* C17 proofs, part 4: brent_max over exact rationals, ANY objective f:
   every trial point (hence the returned xf) lies in [a,b], fval = f(xf), status/num contract. *)
From Coq Require Import ZArith QArith Qabs List Bool Lia Lqa.
From QE Require Import Base.Num C17.Model C17.Proofs2.
Import ListNotations.

Ltac qop1 a b lem op :=
  let H := fresh "Eo" in let v := fresh "v" in
  pose proof (lem a b) as H; set (v := op a b) in *; clearbody v.
Ltac qops :=
  repeat match goal with
  | |- context [Qaddr ?a ?b] => qop1 a b Qaddr_eq Qaddr
  | |- context [Qsubr ?a ?b] => qop1 a b Qsubr_eq Qsubr
  | |- context [Qmulr ?a ?b] => qop1 a b Qmulr_eq Qmulr
  | |- context [Qdivr ?a ?b] => qop1 a b Qdivr_eq Qdivr
  | _ : context [Qaddr ?a ?b] |- _ => qop1 a b Qaddr_eq Qaddr
  | _ : context [Qsubr ?a ?b] |- _ => qop1 a b Qsubr_eq Qsubr
  | _ : context [Qmulr ?a ?b] |- _ => qop1 a b Qmulr_eq Qmulr
  | _ : context [Qdivr ?a ?b] |- _ => qop1 a b Qdivr_eq Qdivr
  end.

Section BrentMax.
Variable f : Q -> Q.
Variables (sqrt_eps g : Q).
Hypothesis sqrt_eps_nonneg : 0 <= sqrt_eps.
Hypothesis g_pos : 0 < g.
Hypothesis g_le1 : g <= 1.

(* the final trial point x = xf + si * max(|rat|, tol1) stays in [ba, bb] when the proposed step does *)
Lemma trial_point_bound (xf ba bb tol1 rat2 : Q) :
  0 < tol1 -> ba <= xf <= bb ->
  ba <= xf + rat2 <= bb -> (0 <= rat2 -> xf + tol1 <= bb) -> (rat2 < 0 -> ba <= xf - tol1) ->
  let si := if Qeq_bool rat2 0 then Qaddr (nsign rat2) 1 else nsign rat2 in
  let x := Qaddr xf (Qmulr si (nmax (Qabs rat2) tol1)) in
  ba <= x <= bb.
Proof.
  intros Ht Hxf Hr Hp Hn si x. unfold x, si, nmax. cbn [nltb nx_num NumXQ NumQ].
  destruct (Qeq_bool rat2 0) eqn:E0.
  - apply Qeq_bool_iff in E0.
    destruct (nsignQ_cases rat2) as [[A _]|[[A _]|[_ A]]]; try lra. rewrite A.
    assert (Qabs rat2 == 0) by (rewrite E0; reflexivity).
    destruct (Qltb (Qabs rat2) tol1) eqn:E1; [|apply Qltb_false in E1; lra].
    qops. nra.
  - apply Qeqb_false in E0.
    destruct (nsignQ_cases rat2) as [[A B]|[[A B]|[A _]]]; [| |contradiction]; rewrite B.
    + assert (Qabs rat2 == rat2) by (apply Qabs_pos; lra).
      destruct (Qltb (Qabs rat2) tol1) eqn:E1.
      * apply Qltb_lt in E1. qops. nra.
      * qops. nra.
    + assert (Qabs rat2 == - rat2) by (apply Qabs_neg; lra).
      destruct (Qltb (Qabs rat2) tol1) eqn:E1.
      * apply Qltb_lt in E1. qops. nra.
      * qops. nra.
Qed.

Record bm_inv (a0 b0 xtol : Q) (s : @bm Q) : Prop := {
  iv_a : a0 <= ba s; iv_b : bb s <= b0; iv_lo : ba s <= xf s; iv_hi : xf s <= bb s;
  iv_fx : fx s = Qopp (f (xf s));
  iv_t1 : 0 < tol1 s; iv_t2 : tol2 s == 2 * tol1 s; iv_xm : xm s == (ba s + bb s) * (1 # 2) }.

(* not yet converged: the larger side of xf is wider than tol2 *)
Lemma continue_gap (s : @bm Q) : bm_continue s = true -> tol2 s == 2 * tol1 s -> xm s == (ba s + bb s) * (1 # 2) ->
  (xm s <= xf s -> 2 * tol1 s < xf s - ba s) /\ (xf s < xm s -> 2 * tol1 s < bb s - xf s) /\
  (xf s <= xm s -> 2 * tol1 s < bb s - xf s).
Proof.
  unfold bm_continue. cbn [nmul nsub nabs nltb nhalf nx_num NumXQ NumQ]. intros H T2 XM.
  apply Qltb_lt in H.
  pose proof (Qsubr_eq (tol2 s) (Qmulr (1 # 2) (Qsubr (bb s) (ba s)))) as E1.
  pose proof (Qmulr_eq (1 # 2) (Qsubr (bb s) (ba s))) as E2.
  pose proof (Qsubr_eq (bb s) (ba s)) as E3.
  pose proof (Qsubr_eq (xf s) (xm s)) as E4.
  assert (A : Qabs (Qsubr (xf s) (xm s)) == Qabs (xf s - xm s)) by (apply Qabs_wd; exact E4).
  repeat split; intros C.
  - assert (Qabs (xf s - xm s) == xf s - xm s) by (apply Qabs_pos; lra). lra.
  - assert (Qabs (xf s - xm s) == - (xf s - xm s)) by (apply Qabs_neg; lra). lra.
  - assert (Qabs (xf s - xm s) == - (xf s - xm s)) by (apply Qabs_neg; lra). lra.
Qed.

Lemma golden_step_ok (s : @bm Q) :
  ba s <= xf s <= bb s -> 0 < tol1 s -> bm_continue s = true -> tol2 s == 2 * tol1 s -> xm s == (ba s + bb s) * (1 # 2) ->
  let e := if Qle_bool (xm s) (xf s) then Qsubr (ba s) (xf s) else Qsubr (bb s) (xf s) in
  let rat2 := Qmulr g e in
  ba s <= xf s + rat2 <= bb s /\ (0 <= rat2 -> xf s + tol1 s <= bb s) /\ (rat2 < 0 -> ba s <= xf s - tol1 s).
Proof.
  intros Hxf Ht Hc T2 XM e rat2.
  destruct (continue_gap s Hc T2 XM) as (G1 & G2 & G3).
  unfold rat2, e. destruct (Qle_bool (xm s) (xf s)) eqn:E.
  - apply Qle_bool_iff in E. specialize (G1 E).
    pose proof (Qmulr_eq g (Qsubr (ba s) (xf s))) as M. pose proof (Qsubr_eq (ba s) (xf s)) as S.
    set (ee := Qsubr (ba s) (xf s)) in *. set (r := Qmulr g ee) in *.
    assert (ee < 0) by lra.
    assert (r < 0) by nra. assert (ee <= r) by nra.
    repeat split; intros; lra.
  - apply Qleb_false in E. specialize (G2 E).
    pose proof (Qmulr_eq g (Qsubr (bb s) (xf s))) as M. pose proof (Qsubr_eq (bb s) (xf s)) as S.
    set (ee := Qsubr (bb s) (xf s)) in *. set (r := Qmulr g ee) in *.
    assert (0 < ee) by lra.
    assert (0 < r) by nra. assert (r <= ee) by nra.
    repeat split; intros; lra.
Qed.


(* the tail of the parabolic-fit block as a function of the fitted p, q = |.|, r *)
Definition parab_core (p q r xf ba bb tol1 tol2 xm ratold : Q) : bool * Q :=
  if Qltb (Qabs p) (Qabs (Qmulr (Qmulr (1 # 2) q) r)) && Qltb (Qmulr q (Qsubr ba xf)) p && Qltb p (Qmulr q (Qsubr bb xf))
  then
    let rat1 := Qdivr (Qaddr p 0) q in
    let x := Qaddr xf rat1 in
    if Qltb (Qsubr x ba) tol2 || Qltb (Qsubr bb x) tol2
    then let d := Qsubr xm xf in
         let si := Qaddr (nsign d) (if Qeq_bool d 0 then 1 else 0) in
         (false, Qmulr tol1 si)
    else (false, rat1)
  else (true, ratold).

Lemma parab_core_ok (p q r xf ba bb tol1 tol2 xm ratold rat : Q) :
  0 <= q -> ba <= xf <= bb -> 0 < tol1 -> tol2 == 2 * tol1 ->
  (xm < xf -> 2 * tol1 < xf - ba) -> (xf <= xm -> 2 * tol1 < bb - xf) ->
  parab_core p q r xf ba bb tol1 tol2 xm ratold = (false, rat) ->
  ba <= xf + rat <= bb /\ (0 <= rat -> xf + tol1 <= bb) /\ (rat < 0 -> ba <= xf - tol1).
Proof.
  intros Hq Hxf Ht T2 G1 G2. unfold parab_core.
  destruct (Qltb (Qabs p) (Qabs (Qmulr (Qmulr (1 # 2) q) r)) && Qltb (Qmulr q (Qsubr ba xf)) p
            && Qltb p (Qmulr q (Qsubr bb xf))) eqn:E; [|discriminate].
  apply andb_true_iff in E. destruct E as [E E3]. apply andb_true_iff in E. destruct E as [E1 E2].
  apply Qltb_lt in E1. apply Qltb_lt in E2. apply Qltb_lt in E3.
  assert (Qpos : 0 < q).
  { destruct (Qlt_le_dec 0 q) as [P|P]; [exact P|]. exfalso. assert (Z : q == 0) by lra.
    assert (Z2 : Qmulr (Qmulr (1 # 2) q) r == 0).
    { rewrite Qmulr_eq, Qmulr_eq, Z. ring. }
    rewrite Z2 in E1. pose proof (Qabs_nonneg p). change (Qabs 0) with 0 in E1. lra. }
  cbv zeta.
  set (rat1 := Qdivr (Qaddr p 0) q). set (x1 := Qaddr xf rat1).
  assert (R1 : rat1 * q == p).
  { unfold rat1. rewrite Qdivr_eq, Qaddr_eq. field. lra. }
  assert (X1 : x1 == xf + rat1) by apply Qaddr_eq.
  pose proof (Qmulr_eq q (Qsubr ba xf)) as M1. pose proof (Qsubr_eq ba xf) as S1.
  pose proof (Qmulr_eq q (Qsubr bb xf)) as M2. pose proof (Qsubr_eq bb xf) as S2.
  assert (B1 : ba - xf < rat1).
  { destruct (Qlt_le_dec (ba - xf) rat1) as [P|P]; [exact P|]. exfalso.
    assert (0 <= (ba - xf - rat1) * q) by (apply Qmult_le_0_compat; lra). nra. }
  assert (B2 : rat1 < bb - xf).
  { destruct (Qlt_le_dec rat1 (bb - xf)) as [P|P]; [exact P|]. exfalso.
    assert (0 <= (rat1 - (bb - xf)) * q) by (apply Qmult_le_0_compat; lra). nra. }
  destruct (Qltb (Qsubr x1 ba) tol2 || Qltb (Qsubr bb x1) tol2) eqn:E4.
  - intros H. inversion H; subst rat. clear H.
    pose proof (Qsubr_eq xm xf) as D. set (d := Qsubr xm xf) in *.
    pose proof (Qmulr_eq tol1 (Qaddr (nsign d) (if Qeq_bool d 0 then 1 else 0))) as M3.
    pose proof (Qaddr_eq (nsign d) (if Qeq_bool d 0 then 1 else 0)) as A3.
    set (si := Qaddr (nsign d) (if Qeq_bool d 0 then 1 else 0)) in *.
    set (rt := Qmulr tol1 si) in *.
    destruct (nsignQ_cases d) as [[A B]|[[A B]|[A B]]]; rewrite B in A3.
    + assert (Qeq_bool d 0 = false) by (destruct (Qeq_bool d 0) eqn:X; [apply Qeq_bool_iff in X; lra|reflexivity]).
      rewrite H in A3. assert (rt == tol1) by (rewrite M3, A3; ring).
      assert (2 * tol1 < bb - xf) by (apply G2; lra). repeat split; intros; lra.
    + assert (Qeq_bool d 0 = false) by (destruct (Qeq_bool d 0) eqn:X; [apply Qeq_bool_iff in X; lra|reflexivity]).
      rewrite H in A3. assert (rt == - tol1) by (rewrite M3, A3; ring).
      assert (2 * tol1 < xf - ba) by (apply G1; lra). repeat split; intros; lra.
    + assert (Qeq_bool d 0 = true) by (apply Qeq_bool_iff; exact A).
      rewrite H in A3. assert (rt == tol1) by (rewrite M3, A3; ring).
      assert (2 * tol1 < bb - xf) by (apply G2; lra). repeat split; intros; lra.
  - intros H. inversion H; subst rat. clear H.
    apply orb_false_iff in E4. destruct E4 as [E4 E5]. apply Qltb_false in E4. apply Qltb_false in E5.
    pose proof (Qsubr_eq x1 ba). pose proof (Qsubr_eq bb x1).
    repeat split; intros; lra.
Qed.

Lemma bm_parabolic_core (s : @bm Q) : exists p q r,
  0 <= q /\
  fst (fst (bm_parabolic s)) = fst (parab_core p q r (xf s) (ba s) (bb s) (tol1 s) (tol2 s) (xm s) (rat s)) /\
  snd (fst (bm_parabolic s)) = snd (parab_core p q r (xf s) (ba s) (bb s) (tol1 s) (tol2 s) (xm s) (rat s)).
Proof.
  set (r0 := Qmulr (Qsubr (xf s) (nfc s)) (Qsubr (fx s) (ffulc s))).
  set (q0 := Qmulr (Qsubr (xf s) (fulc s)) (Qsubr (fx s) (fnfc s))).
  set (p0 := Qsubr (Qmulr (Qsubr (xf s) (fulc s)) q0) (Qmulr (Qsubr (xf s) (nfc s)) r0)).
  set (q1 := Qmulr 2 (Qsubr q0 r0)).
  exists (if Qltb 0 q1 then Qopp p0 else p0), (Qabs q1), (ee s).
  split; [apply Qabs_nonneg|].
  unfold bm_parabolic, parab_core.
  cbn [nmul nadd nsub ndiv nabs nopp nleb nltb neqb nzero none_ nhalf ntwo nthree nx_num NumXQ NumQ].
  fold r0. fold q0. fold p0. fold q1.
  destruct (_ && _ && _); [|split; reflexivity].
  cbv zeta. destruct (_ || _); split; reflexivity.
Qed.

Lemma bm_trial_in (a0 b0 xtol : Q) (s : @bm Q) :
  bm_inv a0 b0 xtol s -> bm_continue s = true ->
  ba s <= fst (fst (bm_trial g s)) <= bb s.
Proof.
  intros I Hc. destruct I as [Ia Ib Ilo Ihi Ifx It1 It2 Ixm].
  destruct (continue_gap s Hc It2 Ixm) as (G1 & G2 & G3).
  assert (STEP : forall rat2, ba s <= xf s + rat2 <= bb s /\ (0 <= rat2 -> xf s + tol1 s <= bb s) /\ (rat2 < 0 -> ba s <= xf s - tol1 s) ->
     ba s <= Qaddr (xf s) (Qmulr (if Qeq_bool rat2 0 then Qaddr (nsign rat2) 1 else nsign rat2) (nmax (Qabs rat2) (tol1 s))) <= bb s).
  { intros rat2 (S1 & S2 & S3). apply trial_point_bound; try assumption. split; assumption. }
  pose proof (golden_step_ok s (conj Ilo Ihi) It1 Hc It2 Ixm) as GS. cbv zeta in GS.
  unfold bm_trial.
  cbn [nmul nadd nsub ndiv nabs nopp nleb nltb neqb nzero none_ nhalf ntwo nthree nx_num NumXQ NumQ].
  destruct (Qltb (tol1 s) (Qabs (ee s))).
  - destruct (bm_parabolic_core s) as (p & q & r & Hq & C1 & C2).
    destruct (bm_parabolic s) as [[gold rat1] e1]. cbn [fst snd] in C1, C2.
    destruct gold.
    + cbn [fst]. apply STEP. exact GS.
    + cbn [fst]. apply STEP.
      apply (parab_core_ok p q r (xf s) (ba s) (bb s) (tol1 s) (tol2 s) (xm s) (rat s)); try assumption.
      * split; assumption.
      * intros X. apply G1. lra.
      * destruct (parab_core p q r (xf s) (ba s) (bb s) (tol1 s) (tol2 s) (xm s) (rat s)) as [u v].
        cbn [fst snd] in C1, C2. subst. reflexivity.
  - cbn [fst]. apply STEP. exact GS.
Qed.

Lemma bm_update_inv (a0 b0 xtol : Q) (s : @bm Q) (x rat2 e2 : Q) :
  0 < xtol -> bm_inv a0 b0 xtol s -> ba s <= x <= bb s ->
  bm_inv a0 b0 xtol (bm_update sqrt_eps xtol s x rat2 e2 (Qopp (f x))) /\
  num (bm_update sqrt_eps xtol s x rat2 e2 (Qopp (f x))) = (num s + 1)%Z.
Proof.
  intros Hx I Hin. destruct I as [Ia Ib Ilo Ihi Ifx It1 It2 Ixm].
  unfold bm_update.
  cbn [nmul nadd nsub ndiv nabs nopp nleb nltb neqb nzero none_ nhalf ntwo nthree nx_num NumXQ NumQ].
  assert (T1 : forall y, 0 < Qaddr (Qmulr sqrt_eps (Qabs y)) (Qdivr xtol 3)).
  { intros y. rewrite Qaddr_eq, Qmulr_eq, Qdivr_eq. pose proof (Qabs_nonneg y).
    assert (0 <= sqrt_eps * Qabs y) by (apply Qmult_le_0_compat; assumption).
    assert (0 < xtol / 3) by (apply Qlt_shift_div_l; lra). lra. }
  destruct (Qle_bool (Qopp (f x)) (fx s)).
  - destruct (Qle_bool (xf s) x) eqn:E.
    + apply Qle_bool_iff in E. split; [|reflexivity].
      constructor; cbn [ba bb xf fx tol1 tol2 xm]; try lra; try reflexivity; try apply T1.
      * apply Qmulr_eq.
      * rewrite Qmulr_eq, Qaddr_eq. ring.
    + apply Qleb_false in E. split; [|reflexivity].
      constructor; cbn [ba bb xf fx tol1 tol2 xm]; try lra; try reflexivity; try apply T1.
      * apply Qmulr_eq.
      * rewrite Qmulr_eq, Qaddr_eq. ring.
  - destruct (Qltb x (xf s)) eqn:E.
    + apply Qltb_lt in E.
      destruct (_ || _); [|destruct (_ || _ || _)]; (split; [|reflexivity]);
      constructor; cbn [ba bb xf fx tol1 tol2 xm]; try lra; try assumption; try reflexivity; try apply T1;
      try apply Qmulr_eq; try (rewrite Qmulr_eq, Qaddr_eq; ring).
    + apply Qltb_false in E.
      destruct (_ || _); [|destruct (_ || _ || _)]; (split; [|reflexivity]);
      constructor; cbn [ba bb xf fx tol1 tol2 xm]; try lra; try assumption; try reflexivity; try apply T1;
      try apply Qmulr_eq; try (rewrite Qmulr_eq, Qaddr_eq; ring).
Qed.

Lemma bm_init_inv (a b xtol : Q) : a < b -> 0 < xtol -> bm_inv a b xtol (bm_init f sqrt_eps g a b xtol).
Proof.
  intros Hab Hx. unfold bm_init.
  cbn [nmul nadd nsub ndiv nabs nopp nleb nltb neqb nzero none_ nhalf ntwo nthree nx_num NumXQ NumQ].
  set (x0 := Qaddr a (Qmulr g (Qsubr b a))).
  assert (X0 : x0 == a + g * (b - a)) by (unfold x0; rewrite Qaddr_eq, Qmulr_eq, Qsubr_eq; reflexivity).
  assert (0 <= g * (b - a)) by (apply Qmult_le_0_compat; lra).
  assert (0 <= (1 - g) * (b - a)) by (apply Qmult_le_0_compat; lra).
  constructor; cbn [ba bb xf fx tol1 tol2 xm]; try lra; try reflexivity.
  - rewrite Qaddr_eq, Qmulr_eq, Qdivr_eq. pose proof (Qabs_nonneg x0).
    assert (0 <= sqrt_eps * Qabs x0) by (apply Qmult_le_0_compat; assumption).
    assert (0 < xtol / 3) by (apply Qlt_shift_div_l; lra). lra.
  - apply Qmulr_eq.
  - rewrite Qmulr_eq, Qaddr_eq. ring.
Qed.

Lemma bm_loop_inv (a0 b0 xtol : Q) (maxfun : Z) : 0 < xtol ->
  forall fuel s x fv st n,
  bm_inv a0 b0 xtol s -> (num s = 1 \/ num s < maxfun)%Z ->
  bm_loop f sqrt_eps g fuel xtol maxfun s = Some (x, fv, st, n) ->
  a0 <= x <= b0 /\ fv == f x /\ (st = 1%Z -> (maxfun <= n)%Z) /\ (st = 0%Z -> (n = 1 \/ n < maxfun)%Z) /\
  (st = 0 \/ st = 1)%Z /\ (num s <= n)%Z /\ (2 <= maxfun -> n <= maxfun)%Z.
Proof.
  intros Hx. induction fuel as [|k IH]; intros s x fv st n I Hn H.
  - simpl in H. destruct (bm_continue s); [discriminate|].
    inversion H; subst. destruct I as [Ia Ib Ilo Ihi Ifx It1 It2 Ixm].
    split; [lra|]. split; [rewrite Ifx; cbn [nopp NumXQ]; apply Qopp_involutive|]. lia.
  - cbn [bm_loop] in H. destruct (bm_continue s) eqn:Hc.
    + unfold bm_step in H.
      pose proof (bm_trial_in a0 b0 xtol s I Hc) as TI.
      destruct (bm_trial g s) as [[xt rat2] e2]. cbn [fst] in TI.
      cbn [nopp NumXQ] in H.
      destruct (bm_update_inv a0 b0 xtol s xt rat2 e2 Hx I TI) as [I' N'].
      remember (bm_update sqrt_eps xtol s xt rat2 e2 (Qopp (f xt))) as s' eqn:Es.
      destruct (maxfun <=? num s')%Z eqn:E.
      * inversion H; subst x fv st n. destruct I' as [Ia Ib Ilo Ihi Ifx It1 It2 Ixm].
        split; [lra|]. split; [rewrite Ifx; cbn [nopp NumXQ]; apply Qopp_involutive|]. lia.
      * apply IH in H; [|exact I'|lia]. destruct H as (A & B & C & D & E1 & F & G). repeat split; try assumption; try lia; lra.
    + inversion H; subst. destruct I as [Ia Ib Ilo Ihi Ifx It1 It2 Ixm].
      split; [lra|]. split; [rewrite Ifx; cbn [nopp NumXQ]; apply Qopp_involutive|]. lia.
Qed.

Lemma bm_loop_fuel (xtol : Q) (maxfun : Z) : forall fuel s,
  (0 < fuel)%nat -> (maxfun - num s < Z.of_nat fuel)%Z ->
  (forall s x r e, num (bm_update sqrt_eps xtol s x r e (Qopp (f x))) = (num s + 1)%Z) ->
  bm_loop f sqrt_eps g fuel xtol maxfun s <> None.
Proof.
  induction fuel as [|k IH]; intros s Hf Hm Hnum; [lia|].
  cbn [bm_loop]. destruct (bm_continue s); [|discriminate].
  unfold bm_step. destruct (bm_trial g s) as [[xt rat2] e2]. cbn [nopp NumXQ].
  specialize (Hnum s xt rat2 e2) as N.
  destruct (maxfun <=? num (bm_update sqrt_eps xtol s xt rat2 e2 (Qopp (f xt))))%Z eqn:E; [discriminate|].
  apply IH; [lia|lia|exact Hnum].
Qed.

Lemma bm_update_num (xtol : Q) : forall (s : @bm Q) x r e,
  num (bm_update sqrt_eps xtol s x r e (Qopp (f x))) = (num s + 1)%Z.
Proof.
  intros s x r e. unfold bm_update.
  cbn [nmul nadd nsub ndiv nabs nopp nleb nltb neqb nzero none_ nhalf ntwo nthree nx_num NumXQ NumQ].
  destruct (Qle_bool (Qopp (f x)) (fx s)); [reflexivity|].
  destruct (_ || _); [reflexivity|]. destruct (_ || _ || _); reflexivity.
Qed.

Theorem brent_max_in_interval : forall a b xtol maxiter,
  0 < xtol ->
  (a < b ->
   exists x fv st n, brent_max f sqrt_eps g a b xtol maxiter = BMRes x fv st n /\
     a <= x <= b /\ fv == f x /\
     (st = 0 \/ st = 1)%Z /\ (st = 1%Z -> (maxiter <= n)%Z) /\ (st = 0%Z -> (n = 1 \/ n < maxiter)%Z) /\
     (1 <= n)%Z /\ (2 <= maxiter -> n <= maxiter)%Z) /\
  (~ a < b -> brent_max f sqrt_eps g a b xtol maxiter = BMErr).
Proof.
  intros a b xtol maxiter Hx. unfold brent_max.
  cbn [nisfin nltb nx_num NumXQ NumQ]. cbn [negb].
  split.
  - intros Hab. assert (E : Qltb a b = true) by (apply Qltb_lt; exact Hab). rewrite E. cbn [negb].
    destruct (bm_loop f sqrt_eps g (S (Z.to_nat maxiter)) xtol maxiter (bm_init f sqrt_eps g a b xtol))
      as [[[[x fv] st] n]|] eqn:EL.
    + exists x, fv, st, n. split; [reflexivity|].
      apply (bm_loop_inv a b xtol maxiter Hx) in EL; [|apply bm_init_inv; assumption|left; reflexivity].
      destruct EL as (A & B & C & D & E1 & F & G). cbn [num bm_init] in F.
      repeat split; try assumption; try lia; lra.
    + exfalso. revert EL. apply bm_loop_fuel; [lia| |apply bm_update_num].
      cbn [num bm_init]. lia.
  - intros Hab. destruct (Qltb a b) eqn:E; [apply Qltb_lt in E; contradiction|]. reflexivity.
Qed.
End BrentMax.

(* C17: the defaults read from /repo's current source (Gen/Consts.v) satisfy the side
   conditions under which the bracket / flag / interval theorems are stated. *)
From Coq Require Import ZArith QArith Lia Lqa.
From QE Require Import Gen.Consts.
Open Scope Q_scope.

Theorem C17_default_tolerances_admissible :
  0 < rf_xtol /\ 0 <= rf_rtol /\ rf_rtol < 1 # 1000000 /\ (1 <= rf_iter_z)%Z /\
  0 < newton_tol /\ (1 <= newton_maxiter_z)%Z /\
  0 < brent_max_xtol /\ (1 <= brent_max_maxiter_z)%Z /\
  0 <= brent_max_sqrt_eps /\ 0 < brent_max_golden_mean <= 1.
Proof. vm_compute. repeat split; intro H; discriminate H. Qed.
Print Assumptions C17_default_tolerances_admissible.

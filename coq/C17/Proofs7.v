(* C17 proofs, part 7: the order array of nelder_mead.
   (A) EVERY arithmetic instance: sort_ind is a permutation of 0..n along every run (repaired shrink step).
   (B) comparison a strict weak order (asymmetry + negative transitivity of nltb; proved for Q): sort_ind sorts the
       stored values after the initial argsort, after every reflection/expansion/contraction insertion, and after a
       shrink step PROVIDED no shrunk vertex beats the best one (the shrink step re-ranks sort_ind[1:] only; without
       the proviso the statement is false: Findings.nelder_mead_sorted_refuted). *)
From Coq Require Import ZArith List Bool Lia Permutation Sorted.
From QE Require Import Base.Num C17.Model C17.Proofs5.
Import ListNotations.

(* ---------- list facts ---------- *)
Lemma nth_last_ {A} (d : A) : forall (l : list A) n, length l = S n -> nth n l d = last l d.
Proof.
  induction l as [|x l IH]; intros n H; [discriminate|]. destruct l as [|y l].
  - simpl in H. inversion H. reflexivity.
  - destruct n; [simpl in H; lia|]. change (nth n (y :: l) d = last (y :: l) d). apply IH. simpl in *. lia.
Qed.
Lemma map_nth_seq_ (l : list nat) : map (fun p => nth p l O) (seq 0 (length l)) = l.
Proof.
  apply (nth_ext _ _ O O); [rewrite map_length, seq_length; reflexivity|].
  intros i Hi. rewrite map_length, seq_length in Hi.
  rewrite (nth_indep _ O ((fun p => nth p l O) O)) by (rewrite map_length, seq_length; exact Hi).
  rewrite (map_nth (fun p => nth p l O)). rewrite seq_nth by exact Hi. reflexivity.
Qed.
Lemma range_perm (l : list nat) m : NoDup l -> length l = m -> Forall (fun i => (i < m)%nat) l -> Permutation l (seq 0 m).
Proof.
  intros ND L Fa. apply NoDup_Permutation_bis; [exact ND|rewrite seq_length; lia|].
  intros x Hx. rewrite Forall_forall in Fa. apply in_seq. specialize (Fa x Hx). lia.
Qed.

Section Order.
Context {T : Type} {NX : NumX T}.
Variable f : list T -> T.
Variable bounds : list (T * T).
Variables (rho chi gam sig nonzdelt zdelt : T).
Notation negf := (neg_fun f bounds).

(* ================= (A) permutation ================= *)
Lemma ins_sorted_in_iff (vals : list (ext T)) k : forall l x, In x (ins_sorted vals k l) <-> x = k \/ In x l.
Proof.
  induction l as [|e r IH]; intros x; simpl; [intuition|].
  destruct (ext_lt _ _); simpl; [intuition|]. rewrite IH. intuition.
Qed.
Lemma ins_sorted_nodup (vals : list (ext T)) k : forall l, NoDup l -> ~ In k l -> NoDup (ins_sorted vals k l).
Proof.
  induction l as [|e r IH]; intros ND NI; simpl; [constructor; [intros []|constructor]|].
  destruct (ext_lt _ _); [constructor; assumption|].
  inversion ND; subst. constructor.
  - rewrite ins_sorted_in_iff. intros [E|E]; [subst; apply NI; left; reflexivity|contradiction].
  - apply IH; [assumption|]. intros X. apply NI. right. exact X.
Qed.
Lemma argsort_nodup (vals : list (ext T)) : NoDup (argsort vals).
Proof.
  unfold argsort.
  assert (G : forall m s acc, NoDup acc -> (forall x, In x acc -> (x < s)%nat) ->
                NoDup (fold_left (fun acc k => ins_sorted vals k acc) (seq s m) acc)).
  { induction m as [|m IH]; intros s acc ND B; simpl; [exact ND|].
    apply IH.
    - apply ins_sorted_nodup; [exact ND|]. intros X. specialize (B s X). lia.
    - intros x Hx. apply ins_sorted_in_iff in Hx. destruct Hx as [E|E]; [subst; lia|specialize (B x E); lia]. }
  apply G; [constructor|intros x []].
Qed.
Lemma argsort_perm (vals : list (ext T)) : Permutation (argsort vals) (seq 0 (length vals)).
Proof. destruct (argsort_spec vals) as [A B]. apply range_perm; [apply argsort_nodup|exact A|exact B]. Qed.

(* the insertion of the `if not shrink` block only moves the last entry *)
Lemma insert_first_perm (F : list (ext T)) w : forall l pre S', l <> [] -> last l O = w ->
  insert_first F w pre l = Some S' -> Permutation S' (rev pre ++ l).
Proof.
  induction l as [|j r IH]; intros pre S' NE HL H; [congruence|].
  assert (EL : removelast (j :: r) ++ [w] = j :: r) by (rewrite <- HL; symmetry; apply app_removelast_last; exact NE).
  cbn [insert_first] in H.
  destruct (ext_lt (fget F w) (fget F j)).
  - injection H as H. rewrite <- H. apply Permutation_app_head.
    etransitivity; [apply Permutation_cons_append|].
    change (Permutation (removelast (j :: r) ++ [w]) (j :: r)). rewrite EL. reflexivity.
  - destruct r as [|j2 r2]; [simpl in H; discriminate|].
    apply IH in H; [|discriminate|exact HL].
    simpl rev in H. rewrite <- app_assoc in H. exact H.
Qed.

Definition perm_ok (n : nat) (s : @nm T) : Prop := NoDup (si s).

Lemma nm_init_perm (x0 : list T) : NoDup (si (nm_init f bounds nonzdelt zdelt x0)).
Proof. unfold nm_init. cbn [si]. apply argsort_nodup. Qed.

Lemma nm_replace_perm n s w x m : idx_ok n (si s) -> w = nth n (si s) O -> NoDup (si s) ->
  NoDup (si (nm_replace f bounds s n w x m)).
Proof.
  intros [L _] Hw ND. unfold nm_replace. cbn [si].
  destruct (insert_first _ w [] (si s)) as [S'|] eqn:E; [|exact ND].
  apply insert_first_perm in E.
  - simpl in E. apply (Permutation_NoDup (Permutation_sym E)). exact ND.
  - destruct (si s); [simpl in L; lia|discriminate].
  - rewrite Hw. symmetry. apply nth_last_. exact L.
Qed.

Lemma shrink_order_perm (tail_ : list nat) (vals : list (ext T)) : length vals = length tail_ ->
  Permutation (shrink_order tail_ (argsort vals)) tail_.
Proof.
  intros L. unfold shrink_order.
  apply (Permutation_trans (l' := map (fun p => nth p tail_ O) (seq 0 (length tail_)))).
  - apply Permutation_map. rewrite <- L. apply argsort_perm.
  - rewrite map_nth_seq_. reflexivity.
Qed.

Lemma nm_shrink_perm n s b w sn : b = nth 0 (si s) O -> si s <> [] -> NoDup (si s) ->
  NoDup (si (nm_shrink f bounds sig s n b w sn)).
Proof.
  intros Hb NE ND. unfold nm_shrink. destruct (fold_left _ (tl (si s)) (vs s, fv s)) as [V' F']. cbn [si].
  destruct (si s) as [|b0 r]; [congruence|]. simpl in Hb. subst b0. cbn [tl].
  pose proof (shrink_order_perm r (map (fget F') r) (map_length _ _)) as P.
  apply (Permutation_NoDup (l := b :: r)); [|exact ND]. constructor. apply Permutation_sym. exact P.
Qed.

Lemma nm_step_perm n s sn : nm_ok f bounds n s -> NoDup (si s) -> NoDup (si (nm_step f bounds rho chi gam sig s n sn)).
Proof.
  intros H ND. pose proof (ok_idx f bounds n s H) as Io.
  assert (NE : si s <> []) by (destruct Io as [L _]; destruct (si s); [simpl in L; lia|discriminate]).
  unfold nm_step. cbv zeta.
  repeat match goal with
  | |- NoDup (si (if ?c then _ else _)) => destruct c
  | |- NoDup (si (let '(_, _) := (if ?c then _ else _) in _)) => destruct c
  end; first [ apply nm_replace_perm; [exact Io|reflexivity|exact ND] | apply nm_shrink_perm; [reflexivity|exact NE|exact ND] ].
Qed.

Lemma nm_loop_perm n sn tol_f tol_x mi : forall fuel s s' fail,
  nm_ok f bounds n s -> NoDup (si s) ->
  nm_loop f bounds rho chi gam sig fuel s n sn tol_f tol_x mi = Some (s', fail) -> NoDup (si s').
Proof.
  induction fuel as [|k IH]; intros s s' fail H ND E; cbn [nm_loop] in E;
    destruct (nm_done s n tol_f tol_x mi) as [stop fl]; destruct stop; try discriminate;
    try (inversion E; subst; exact ND).
  apply IH in E; [exact E|apply nm_step_ok; exact H|apply nm_step_perm; assumption].
Qed.

(* along every run the order array is a permutation of 0..n: stated on the final state of the loop *)
Theorem nelder_mead_order_permutation : forall x0 tol_f tol_x max_iter s fail,
  nm_loop f bounds rho chi gam sig (S (Z.to_nat max_iter)) (nm_init f bounds nonzdelt zdelt x0) (length x0)
          (npow sig (length x0)) tol_f tol_x max_iter = Some (s, fail) ->
  Permutation (si s) (seq 0 (S (length x0))).
Proof.
  intros x0 tol_f tol_x mi s fail E.
  pose proof (nm_init_ok f bounds nonzdelt zdelt x0) as I0.
  pose proof (nm_loop_perm _ _ _ _ _ _ _ _ _ I0 (nm_init_perm x0) E) as ND.
  apply nm_loop_ok in E; [|exact I0|simpl; lia]. destruct E as ([_ _ [L Fa]] & _).
  apply range_perm; assumption.
Qed.

(* ================= (B) sortedness under a strict weak order ================= *)
Hypothesis lt_asym : forall a b : T, nltb a b = true -> nltb b a = false.
Hypothesis lt_negtrans : forall a b c : T, nltb a b = false -> nltb b c = false -> nltb a c = false.

Lemma elt_asym (a b : ext T) : ext_lt a b = true -> ext_lt b a = false.
Proof. destruct a, b; simpl; try discriminate; try reflexivity. apply lt_asym. Qed.
Lemma elt_irrefl (a : ext T) : ext_lt a a = false.
Proof. destruct (ext_lt a a) eqn:E; [|reflexivity]. pose proof (elt_asym _ _ E). congruence. Qed.
Lemma elt_negtrans (a b c : ext T) : ext_lt a b = false -> ext_lt b c = false -> ext_lt a c = false.
Proof. destruct a, b, c; simpl; try discriminate; try reflexivity. apply lt_negtrans. Qed.

(* i is not after j: value(j) is not below value(i) *)
Definition leq (F : list (ext T)) (i j : nat) : Prop := ext_lt (fget F j) (fget F i) = false.
Lemma leq_trans F i j k : leq F i j -> leq F j k -> leq F i k.
Proof. unfold leq. intros A B. exact (elt_negtrans _ _ _ B A). Qed.
Lemma leq_refl F i : leq F i i. Proof. apply elt_irrefl. Qed.

Definition sorted (F : list (ext T)) (l : list nat) : Prop := StronglySorted (leq F) l.

Lemma sorted_app F l1 l2 : sorted F (l1 ++ l2) <->
  sorted F l1 /\ sorted F l2 /\ (forall a b, In a l1 -> In b l2 -> leq F a b).
Proof.
  unfold sorted. induction l1 as [|x l1 IH]; simpl.
  - split; [intros H; repeat split; [constructor|exact H|intros a b []]|intros (_ & H & _); exact H].
  - split.
    + intros H. inversion H; subst. apply IH in H2. destruct H2 as (A & B & C).
      rewrite Forall_forall in H3. repeat split.
      * constructor; [exact A|]. apply Forall_forall. intros y Hy. apply H3. apply in_or_app. left. exact Hy.
      * exact B.
      * intros a b [Ha|Ha] Hb; [subst; apply H3; apply in_or_app; right; exact Hb|apply C; assumption].
    + intros (A & B & C). inversion A; subst. constructor.
      * apply IH. repeat split; [assumption|assumption|intros a b Ha Hb; apply C; [right; exact Ha|exact Hb]].
      * apply Forall_forall. intros y Hy. apply in_app_or in Hy. destruct Hy as [Hy|Hy].
        { rewrite Forall_forall in H2. apply H2. exact Hy. }
        { apply C; [left; reflexivity|exact Hy]. }
Qed.

Lemma sorted_ext F F' l : (forall x, In x l -> fget F' x = fget F x) -> sorted F l -> sorted F' l.
Proof.
  unfold sorted. induction l as [|x l IH]; intros E H; [constructor|].
  inversion H; subst. constructor.
  - apply IH; [intros y Hy; apply E; right; exact Hy|assumption].
  - rewrite Forall_forall in *. intros y Hy. unfold leq. rewrite (E x (or_introl eq_refl)), (E y (or_intror Hy)). apply H3. exact Hy.
Qed.

(* insertion sort step and argsort *)
Lemma ins_sorted_sorted (F : list (ext T)) k : forall l, sorted F l -> sorted F (ins_sorted F k l).
Proof.
  unfold sorted. induction l as [|e r IH]; intros H; simpl; [constructor; constructor|].
  inversion H; subst. change (nth k F PInf) with (fget F k). change (nth e F PInf) with (fget F e).
  destruct (ext_lt (fget F k) (fget F e)) eqn:E.
  - constructor; [exact H|]. constructor; [unfold leq; apply elt_asym; exact E|].
    rewrite Forall_forall in *. intros y Hy. apply (leq_trans F k e y); [unfold leq; apply elt_asym; exact E|apply H3; exact Hy].
  - constructor; [apply IH; exact H2|]. apply Forall_forall. intros y Hy.
    apply ins_sorted_in_iff in Hy. destruct Hy as [Hy|Hy]; [subst; exact E|rewrite Forall_forall in H3; apply H3; exact Hy].
Qed.
Lemma argsort_sorted (F : list (ext T)) : sorted F (argsort F).
Proof.
  unfold argsort. generalize (seq 0 (length F)). intros ks.
  assert (G : forall ks acc, sorted F acc -> sorted F (fold_left (fun acc k => ins_sorted F k acc) ks acc)).
  { induction ks0 as [|k ks0 IH]; intros acc H; simpl; [exact H|]. apply IH. apply ins_sorted_sorted. exact H. }
  apply G. constructor.
Qed.

(* shape of the insertion when the comparison is irreflexive *)
Lemma insert_first_shape (F : list (ext T)) w : forall init pre,
  match insert_first F w pre (init ++ [w]) with
  | Some S' => exists i1 j i2, init = i1 ++ j :: i2 /\ S' = rev pre ++ i1 ++ w :: j :: i2 /\
                 (forall x, In x i1 -> ext_lt (fget F w) (fget F x) = false) /\ ext_lt (fget F w) (fget F j) = true
  | None => forall x, In x init -> ext_lt (fget F w) (fget F x) = false
  end.
Proof.
  induction init as [|j r IH]; intros pre; cbn [insert_first app].
  - rewrite elt_irrefl. simpl. intros x [].
  - destruct (ext_lt (fget F w) (fget F j)) eqn:E.
    + exists [], j, r. split; [reflexivity|]. split.
      * assert (RL : removelast (j :: r ++ [w]) = j :: r)
          by (change (j :: r ++ [w]) with ((j :: r) ++ [w]); apply removelast_last).
        rewrite RL. reflexivity.
      * split; [intros x []|exact E].
    + specialize (IH (j :: pre)). destruct (insert_first F w (j :: pre) (r ++ [w])) as [S'|].
      * destruct IH as (i1 & j' & i2 & E1 & E2 & E3 & E4).
        exists (j :: i1), j', i2. split; [rewrite E1; reflexivity|]. split.
        { rewrite E2. simpl. rewrite <- app_assoc. reflexivity. }
        { split; [|exact E4]. intros x [Hx|Hx]; [subst; exact E|apply E3; exact Hx]. }
      * intros x [Hx|Hx]; [subst; exact E|apply IH; exact Hx].
Qed.

(* reflection / expansion / contraction: the re-insertion keeps the order array sorted *)
Lemma nm_replace_sorted n s w x m : nm_ok f bounds n s -> w = nth n (si s) O -> NoDup (si s) ->
  sorted (fv s) (si s) -> sorted (fv (nm_replace f bounds s n w x m)) (si (nm_replace f bounds s n w x m)).
Proof.
  intros [L Vo [Ls Fa]] Hw ND HS. unfold nm_replace. cbn [fv si].
  set (F' := upd (fv s) w (negf x)).
  assert (NE : si s <> []) by (destruct (si s); [simpl in Ls; lia|discriminate]).
  assert (Elast : si s = removelast (si s) ++ [w]).
  { rewrite Hw, (nth_last_ O (si s) n Ls). apply app_removelast_last. exact NE. }
  clear Hw.
  set (init := removelast (si s)) in *.
  assert (NI : ~ In w init).
  { rewrite Elast in ND. apply NoDup_remove_2 in ND. rewrite app_nil_r in ND. exact ND. }
  assert (Sinit : sorted F' init).
  { rewrite Elast in HS. apply sorted_app in HS. destruct HS as (A & _ & _).
    apply (sorted_ext (fv s)); [|exact A]. intros y Hy. unfold F', fget. apply nth_upd_neq. intros X. apply NI. rewrite X. exact Hy. }
  pose proof (insert_first_shape F' w init []) as SH. rewrite <- Elast in SH.
  destruct (insert_first F' w [] (si s)) as [S'|].
  - destruct SH as (i1 & j & i2 & E1 & E2 & E3 & E4). subst S'. simpl.
    rewrite E1 in Sinit. apply sorted_app in Sinit. destruct Sinit as (A & B & C).
    apply sorted_app. repeat split; [exact A| |].
    + unfold sorted. constructor; [exact B|]. inversion B; subst.
      constructor; [unfold leq; apply elt_asym; exact E4|].
      rewrite Forall_forall in *. intros y Hy. apply (leq_trans F' w j y); [unfold leq; apply elt_asym; exact E4|apply H2; exact Hy].
    + intros a b Ha [Hb|Hb]; [subst; unfold leq; apply E3; exact Ha|apply C; assumption].
  - rewrite Elast. apply sorted_app. repeat split; [exact Sinit|constructor; constructor|].
    intros a b Ha [Hb|[]]. subst. unfold leq. apply SH. exact Ha.
Qed.

(* shrink: the tail is re-ranked; the whole array is sorted iff no shrunk vertex beats the best one *)
Lemma shrink_order_sorted (F' : list (ext T)) (tail_ : list nat) :
  sorted F' (shrink_order tail_ (argsort (map (fget F') tail_))).
Proof.
  unfold shrink_order. set (vals := map (fget F') tail_).
  pose proof (argsort_sorted vals) as H. destruct (argsort_spec vals) as [_ R].
  unfold vals in R. rewrite map_length in R. fold vals in R.
  revert H R. generalize (argsort vals). unfold sorted.
  induction l as [|p l IH]; intros H R; simpl; [constructor|].
  inversion H; subst. inversion R; subst. constructor; [apply IH; assumption|].
  rewrite Forall_forall in *. intros y Hy. apply in_map_iff in Hy. destruct Hy as (q & E & Hq). subst y.
  specialize (H3 q Hq). unfold leq, fget in *. unfold vals in H3.
  rewrite (nth_indep _ PInf (fget F' O)) in H3 by (rewrite map_length; apply H5; exact Hq).
  rewrite (nth_indep (map _ _) PInf (fget F' O)) in H3 by (rewrite map_length; exact H4).
  rewrite !(map_nth (fget F')) in H3. exact H3.
Qed.

Lemma nm_shrink_sorted n s w sn :
  let s' := nm_shrink f bounds sig s n (nth 0 (si s) O) w sn in
  (forall j, In j (tl (si s')) -> leq (fv s') (nth 0 (si s') O) j) -> sorted (fv s') (si s').
Proof.
  unfold nm_shrink. destruct (fold_left _ (tl (si s)) (vs s, fv s)) as [V' F']. cbn [fv si tl nth].
  intros H. unfold sorted. constructor; [apply shrink_order_sorted|]. apply Forall_forall. exact H.
Qed.

(* the head of a sorted order array is a best stored vertex *)
Lemma sorted_head_min F l : sorted F l -> forall j, In j l -> leq F (hd O l) j.
Proof.
  intros H j Hj. destruct l as [|b r]; [contradiction|]. simpl. destruct Hj as [Hj|Hj]; [subst; apply leq_refl|].
  inversion H; subst. rewrite Forall_forall in H3. apply H3. exact Hj.
Qed.

Lemma nm_init_sorted x0 : let s := nm_init f bounds nonzdelt zdelt x0 in sorted (fv s) (si s).
Proof. unfold nm_init. cbn [fv si]. apply argsort_sorted. Qed.

(* a pass is a shrink or a replacement of the worst vertex *)
Lemma nm_step_cases n s sn :
  nm_step f bounds rho chi gam sig s n sn = nm_shrink f bounds sig s n (nth 0 (si s) O) (nth n (si s) O) sn \/
  exists x m, nm_step f bounds rho chi gam sig s n sn = nm_replace f bounds s n (nth n (si s) O) x m.
Proof.
  unfold nm_step. cbv zeta.
  repeat match goal with
  | |- (if ?c then _ else _) = _ \/ _ => destruct c
  | |- (let '(_, _) := (if ?c then _ else _) in _) = _ \/ _ => destruct c
  end; first [left; reflexivity | right; do 2 eexists; reflexivity].
Qed.

(* "every shrink pass leaves the best vertex best": the only way sortedness can be lost *)
Definition shrink_keeps_best (n : nat) (sn : T) (s : @nm T) : Prop :=
  let s' := nm_step f bounds rho chi gam sig s n sn in
  s' = nm_shrink f bounds sig s n (nth 0 (si s) O) (nth n (si s) O) sn ->
  forall j, In j (tl (si s')) -> leq (fv s') (nth 0 (si s') O) j.

Lemma nm_step_sorted n s sn : nm_ok f bounds n s -> NoDup (si s) -> sorted (fv s) (si s) ->
  shrink_keeps_best n sn s ->
  sorted (fv (nm_step f bounds rho chi gam sig s n sn)) (si (nm_step f bounds rho chi gam sig s n sn)).
Proof.
  intros H ND HS K. destruct (nm_step_cases n s sn) as [E|(x & m & E)].
  - specialize (K E). rewrite E in *. apply nm_shrink_sorted. exact K.
  - rewrite E. apply nm_replace_sorted; [exact H|reflexivity|exact ND|exact HS].
Qed.

Fixpoint run_keeps_best (fuel : nat) (s : @nm T) (n : nat) (sn tol_f tol_x : T) (mi : Z) : Prop :=
  if fst (nm_done s n tol_f tol_x mi) then True
  else match fuel with
       | O => True
       | S k => shrink_keeps_best n sn s /\ run_keeps_best k (nm_step f bounds rho chi gam sig s n sn) n sn tol_f tol_x mi
       end.

Lemma nm_loop_sorted n sn tol_f tol_x mi : forall fuel s s' fail,
  nm_ok f bounds n s -> NoDup (si s) -> sorted (fv s) (si s) -> run_keeps_best fuel s n sn tol_f tol_x mi ->
  nm_loop f bounds rho chi gam sig fuel s n sn tol_f tol_x mi = Some (s', fail) -> sorted (fv s') (si s').
Proof.
  induction fuel as [|k IH]; intros s s' fail H ND HS K E; cbn [nm_loop] in E; cbn [run_keeps_best] in K;
    destruct (nm_done s n tol_f tol_x mi) as [stop fl]; destruct stop; try discriminate;
    try (inversion E; subst; exact HS).
  cbn [fst] in K. destruct K as [K1 K2].
  apply IH in E; [exact E|apply nm_step_ok; exact H|apply nm_step_perm; assumption|apply nm_step_sorted; assumption|exact K2].
Qed.

(* the order array sorts the stored values at the end of every run in which shrink passes keep the best vertex best;
   then the returned vertex is a best stored vertex: no stored value is below the reported one *)
Theorem nelder_mead_sorted : forall x0 tol_f tol_x max_iter x nf suc nit_ V,
  run_keeps_best (S (Z.to_nat max_iter)) (nm_init f bounds nonzdelt zdelt x0) (length x0) (npow sig (length x0)) tol_f tol_x max_iter ->
  nelder_mead f bounds rho chi gam sig nonzdelt zdelt x0 tol_f tol_x max_iter = NMRes x nf suc nit_ V ->
  forall i, (i <= length x0)%nat -> ext_lt (negf (nth i V [])) nf = false.
Proof.
  intros x0 tol_f tol_x mi x nf suc nit_ V K H i Hi. unfold nelder_mead in H.
  destruct (existsb _ bounds); [discriminate|].
  destruct (nm_loop f bounds rho chi gam sig (S (Z.to_nat mi)) (nm_init f bounds nonzdelt zdelt x0) (length x0)
              (npow sig (length x0)) tol_f tol_x mi) as [[s fail]|] eqn:E; [|discriminate].
  inversion H; subst. clear H.
  pose proof (nm_init_ok f bounds nonzdelt zdelt x0) as I0.
  pose proof (nelder_mead_order_permutation _ _ _ _ _ _ E) as P.
  pose proof (nm_loop_sorted _ _ _ _ _ _ _ _ _ I0 (nm_init_perm x0) (nm_init_sorted x0) K E) as HS.
  apply nm_loop_ok in E; [|exact I0|simpl; lia]. destruct E as ([L [LF Vo] Io] & _).
  assert (Ii : In i (si s)) by (apply (Permutation_in _ (Permutation_sym P)); apply in_seq; lia).
  pose proof (sorted_head_min _ _ HS i Ii) as M. unfold leq in M.
  replace (hd O (si s)) with (nth 0 (si s) O) in M by (destruct (si s); reflexivity).
  assert (Ei : fget (fv s) i = negf (vget (vs s) i)) by (apply Vo; rewrite L; lia).
  unfold vget in Ei. rewrite <- Ei. exact M.
Qed.
End Order.

(* the strict-weak-order hypotheses hold for the exact instance *)
From Coq Require Import QArith Lqa.
Lemma Qltb_asym (a b : Q) : nltb a b = true -> nltb b a = false.
Proof.
  simpl. intros H. apply Qltb_lt in H. destruct (Qltb b a) eqn:E; [apply Qltb_lt in E; lra|reflexivity].
Qed.
Lemma Qltb_negtrans (a b c : Q) : nltb a b = false -> nltb b c = false -> nltb a c = false.
Proof.
  simpl. unfold Qltb. rewrite !negb_false_iff, !Qle_bool_iff. intros H1 H2. lra.
Qed.

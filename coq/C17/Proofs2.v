(* C17 proofs, part 2: bisect over exact rationals, ANY objective f (not assumed continuous,
   not assumed compatible with ==: every point named in the statement is a point the routine evaluated). *)
From Coq Require Import ZArith QArith Qabs List Bool Lia Lqa.
From QE Require Import Base.Num C17.Model.
Import ListNotations.

Lemma Qleb_false a b : Qle_bool a b = false -> b < a.
Proof. intros H. apply Qnot_le_lt. intro X. apply Qle_bool_iff in X. congruence. Qed.
Lemma Qltb_false a b : Qltb a b = false -> b <= a.
Proof. unfold Qltb. intros H. apply negb_false_iff in H. apply Qle_bool_iff in H. exact H. Qed.
Lemma Qeqb_false a b : Qeq_bool a b = false -> ~ a == b.
Proof. intros H X. apply Qeq_bool_iff in X. congruence. Qed.

(* np.sign over Q *)
Lemma nsignQ_cases (x : Q) :
  (0 < x /\ nsign x = 1) \/ (x < 0 /\ nsign x = Qopp 1) \/ (x == 0 /\ nsign x = 0).
Proof.
  unfold nsign. simpl.
  destruct (Qltb 0 x) eqn:E1.
  - left. apply Qltb_lt in E1. split; [exact E1|reflexivity].
  - destruct (Qltb x 0) eqn:E2.
    + right. left. apply Qltb_lt in E2. split; [exact E2|reflexivity].
    + right. right. apply Qltb_false in E1. apply Qltb_false in E2. split; [lra|reflexivity].
Qed.

Lemma sign_prod_pos (a b : Q) : Qltb 0 (Qmulr (nsign a) (nsign b)) = true <-> 0 < a * b.
Proof.
  rewrite Qltb_lt. pose proof (Qmulr_eq (nsign a) (nsign b)) as E.
  destruct (nsignQ_cases a) as [[A1 A2]|[[A1 A2]|[A1 A2]]];
  destruct (nsignQ_cases b) as [[B1 B2]|[[B1 B2]|[B1 B2]]]; rewrite A2, B2 in E |- *; split; intros H; try nra; try lra.
Qed.
Lemma sign_prod_nonneg (a b : Q) : Qle_bool 0 (Qmulr (nsign a) (nsign b)) = true <-> 0 <= a * b.
Proof.
  rewrite Qle_bool_iff. pose proof (Qmulr_eq (nsign a) (nsign b)) as E.
  destruct (nsignQ_cases a) as [[A1 A2]|[[A1 A2]|[A1 A2]]];
  destruct (nsignQ_cases b) as [[B1 B2]|[[B1 B2]|[B1 B2]]]; rewrite A2, B2 in E |- *; split; intros H; try nra; try lra.
Qed.
Lemma sign_prod_neg (a b : Q) : Qltb (Qmulr (nsign a) (nsign b)) 0 = true <-> a * b < 0.
Proof.
  rewrite Qltb_lt. pose proof (Qmulr_eq (nsign a) (nsign b)) as E.
  destruct (nsignQ_cases a) as [[A1 A2]|[[A1 A2]|[A1 A2]]];
  destruct (nsignQ_cases b) as [[B1 B2]|[[B1 B2]|[B1 B2]]]; rewrite A2, B2 in E |- *; split; intros H; try nra; try lra.
Qed.

Section Bisect.
Variable f : Q -> Q.

(* a sign change of f between p and q *)
Definition sign_change (p q : Q) : Prop := (f p <= 0 /\ 0 <= f q) \/ (f q <= 0 /\ 0 <= f p).

(* r is within tol of both ends of a sign change *)
Definition near_sign_change (r tol : Q) : Prop :=
  exists p q, sign_change p q /\ Qabs (p - r) <= tol /\ Qabs (q - r) <= tol.

Lemma mul_pos_sign (u w : Q) : 0 < u * w -> (0 < u /\ 0 < w) \/ (u < 0 /\ w < 0).
Proof.
  intros H. destruct (Qlt_le_dec 0 u) as [P|P].
  - left. split; [exact P|]. destruct (Qlt_le_dec 0 w) as [P2|P2]; [exact P2|].
    exfalso. assert (0 <= u * (- w)) by (apply Qmult_le_0_compat; lra). nra.
  - right. destruct (Qlt_le_dec w 0) as [P2|P2].
    + split; [|exact P2]. destruct (Qlt_le_dec u 0) as [P3|P3]; [exact P3|]. exfalso.
      assert (u == 0) by lra. rewrite H0 in H. lra.
    + exfalso. assert (0 <= (- u) * w) by (apply Qmult_le_0_compat; lra). nra.
Qed.
Lemma mul_nonpos_pos (v w : Q) : v * w <= 0 -> 0 < w -> v <= 0.
Proof.
  intros H P. destruct (Qlt_le_dec 0 v) as [P2|P2]; [|exact P2].
  pose proof (Qmult_lt_0_compat _ _ P2 P). lra.
Qed.
Lemma mul_nonpos_neg (v w : Q) : v * w <= 0 -> w < 0 -> 0 <= v.
Proof.
  intros H P. destruct (Qlt_le_dec v 0) as [P2|P2]; [|exact P2].
  assert (0 < (- v) * (- w)) by (apply Qmult_lt_0_compat; lra). nra.
Qed.
Lemma opposite_signs (u v fa : Q) : 0 < u * fa -> v * fa <= 0 -> (v <= 0 /\ 0 <= u) \/ (u <= 0 /\ 0 <= v).
Proof.
  intros H1 H2. destruct (mul_pos_sign _ _ H1) as [[A B]|[A B]].
  - left. split; [apply (mul_nonpos_pos _ _ H2 B)|lra].
  - right. split; [lra|apply (mul_nonpos_neg _ _ H2 B)].
Qed.

(* loop invariant: f xa has the strict sign of fa; some evaluated-or-endpoint q == xa + dm has f q * fa <= 0;
   both stay between lo and hi *)
Lemma bisect_loop_inv : forall fuel itr xa dm fa xtol rtol fc q r fc' it',
  0 < xtol -> 0 <= rtol ->
  0 < f xa * fa -> q == xa + dm -> f q * fa <= 0 ->
  bisect_loop f fuel itr xa dm fa xtol rtol fc = (r, fc', it', true) ->
  near_sign_change r (xtol + rtol * Qabs r) /\
  (fc' - fc = it' - itr)%Z /\ (itr < it' <= itr + Z.of_nat fuel)%Z /\
  Qabs (r - xa) <= Qabs dm /\ Qabs (r - q) <= Qabs dm.
Proof.
  induction fuel as [|k IH]; intros itr xa dm fa xtol rtol fc q r fc' it' Hxtol Hrtol Hxa Hq Hfq H.
  - simpl in H. inversion H.
  - cbn [bisect_loop] in H. cbn [nmul nadd nsub nabs nleb nltb neqb nzero nhalf nx_num NumXQ NumQ] in H.
    set (dm' := Qmulr dm (1 # 2)) in *.
    set (xm := Qaddr xa dm') in *.
    assert (Edm : dm' == dm * (1 # 2)) by apply Qmulr_eq.
    assert (Exm : xm == xa + dm') by apply Qaddr_eq.
    assert (A1 : Qabs (xa - xm) == Qabs dm').
    { rewrite <- (Qabs_opp dm'). apply Qabs_wd. lra. }
    assert (A2 : Qabs (q - xm) == Qabs dm').
    { apply Qabs_wd. lra. }
    assert (A3 : Qabs dm' == Qabs dm * (1 # 2)).
    { rewrite Edm. rewrite Qabs_Qmult. reflexivity. }
    assert (A0 : 0 <= Qabs dm) by apply Qabs_nonneg.
    destruct (Qeq_bool (f xm) 0 || Qltb (Qabs dm') (Qaddr xtol (Qmulr rtol (Qabs xm)))) eqn:E.
    + inversion H; subst r fc' it'. clear H.
      split; [|split; [lia|split; [lia|split]]].
      * apply orb_true_iff in E. destruct E as [E|E].
        { apply Qeq_bool_iff in E. exists xm, xm. split; [left; lra|].
          assert (Z0 : Qabs (xm - xm) == 0) by (setoid_replace (xm - xm) with 0 by ring; reflexivity).
          assert (P : 0 <= xtol + rtol * Qabs xm) by (pose proof (Qabs_nonneg xm); nra).
          split; rewrite Z0; exact P. }
        { apply Qltb_lt in E.
          pose proof (Qaddr_eq xtol (Qmulr rtol (Qabs xm))) as T1. pose proof (Qmulr_eq rtol (Qabs xm)) as T2.
          exists q, xa. split; [unfold sign_change; apply (opposite_signs (f xa) (f q) fa); assumption|].
          rewrite A1, A2. split; lra. }
      * rewrite <- (Qabs_opp (xm - xa)). setoid_replace (- (xm - xa)) with (xa - xm) by ring. rewrite A1. lra.
      * rewrite <- (Qabs_opp (xm - q)). setoid_replace (- (xm - q)) with (q - xm) by ring. rewrite A2. lra.
    + apply orb_false_iff in E. destruct E as [E1 E2]. apply Qeqb_false in E1.
      destruct (Qle_bool 0 (Qmulr (nsign (f xm)) (nsign fa))) eqn:E3.
      * apply sign_prod_nonneg in E3.
        assert (0 < f xm * fa).
        { destruct (Qlt_le_dec 0 (f xm * fa)) as [P|P]; [exact P|].
          exfalso. apply E1. assert (Z : f xm * fa == 0) by lra.
          assert (~ fa == 0) by (intro X; rewrite X in Hxa; lra). nra. }
        apply (IH _ _ _ _ _ _ _ q) in H; [|assumption|assumption|assumption|lra|assumption].
        destruct H as (N & C1 & C2 & C3 & C4).
        split; [exact N|split; [lia|split; [lia|split]]].
        { setoid_replace (r - xa) with ((r - xm) + (xm - xa)) by ring.
          eapply Qle_trans; [apply Qabs_triangle|].
          assert (Qabs (xm - xa) == Qabs dm') by (apply Qabs_wd; lra). lra. }
        { lra. }
      * assert (f xm * fa < 0).
        { destruct (Qlt_le_dec (f xm * fa) 0) as [P|P]; [exact P|].
          apply sign_prod_nonneg in P. congruence. }
        apply (IH _ _ _ _ _ _ _ xm) in H; [|assumption|assumption|assumption|lra|lra].
        destruct H as (N & C1 & C2 & C3 & C4).
        split; [exact N|split; [lia|split; [lia|split]]].
        { lra. }
        { setoid_replace (r - q) with ((r - xm) + (xm - q)) by ring.
          eapply Qle_trans; [apply Qabs_triangle|].
          assert (Qabs (xm - q) == Qabs dm') by (rewrite <- (Qabs_opp (xm - q)); apply Qabs_wd; lra). lra. }
Qed.

Lemma bisect_loop_false : forall fuel itr xa dm fa xtol rtol fc r fc' it',
  bisect_loop f fuel itr xa dm fa xtol rtol fc = (r, fc', it', false) ->
  (it' = itr + Z.of_nat fuel - 1)%Z /\ (fc' = fc + Z.of_nat fuel)%Z.
Proof.
  induction fuel as [|k IH]; intros itr xa dm fa xtol rtol fc r fc' it' H.
  - simpl in H. inversion H. lia.
  - cbn [bisect_loop] in H.
    match type of H with (if ?c then _ else _) = _ => destruct c end; [inversion H|].
    apply IH in H. lia.
Qed.

Lemma near_zero (r tol : Q) : f r == 0 -> 0 <= tol -> near_sign_change r tol.
Proof.
  intros H P. exists r, r. split; [left; lra|].
  assert (Z0 : Qabs (r - r) == 0) by (setoid_replace (r - r) with 0 by ring; reflexivity).
  split; rewrite Z0; exact P.
Qed.

Theorem bisect_bracket : forall a b xtol rtol maxiter disp,
  0 < xtol -> 0 <= rtol -> (1 <= maxiter)%Z ->
  let xa := Qmulr a 1 in
  let xb := Qmulr b 1 in
  let o := bisect f a b xtol rtol maxiter disp in
  (* same strict sign at the end points: the error is signalled, and only then *)
  (0 < f xa * f xb <-> o = ErrSign) /\
  (* a converged result is within xtol + rtol|r| of both ends of a sign change, inside the bracket *)
  (forall r fc it, o = Res r fc it true ->
     near_sign_change r (xtol + rtol * Qabs r) /\
     Qabs (r - xa) <= Qabs (xb - xa) /\ Qabs (r - xb) <= Qabs (xb - xa) /\
     (fc = 2 + it)%Z /\ (0 <= it <= maxiter)%Z) /\
  (* end-point roots are returned immediately *)
  (~ 0 < f xa * f xb -> f xb == 0 -> o = Res xb 2 0 true) /\
  (~ 0 < f xa * f xb -> f xa == 0 -> ~ f xb == 0 -> o = Res xa 2 0 true) /\
  (* exhausting maxiter is reported *)
  (forall r fc it, o = Res r fc it false -> disp = false /\ it = (maxiter - 1)%Z /\ fc = (2 + maxiter)%Z) /\
  (o = ErrNoConv -> disp = true) /\ o <> ErrArg /\ o <> ErrZeroDiv.
Proof.
  intros a b xtol rtol maxiter disp Hx Hr Hm xa xb o.
  unfold o, bisect.
  cbn [nmul nadd nsub nabs nleb nltb neqb nzero none_ nhalf nx_num NumXQ NumQ].
  fold xa xb.
  destruct (Qle_bool xtol 0) eqn:E0; [apply Qle_bool_iff in E0; lra|].
  destruct (maxiter <? 1)%Z eqn:E1; [lia|].
  unfold bisect_interval.
  cbn [nmul nadd nsub nabs nleb nltb neqb nzero none_ nhalf nx_num NumXQ NumQ].
  destruct (Qltb 0 (Qmulr (nsign (f xa)) (nsign (f xb)))) eqn:E2.
  - apply sign_prod_pos in E2.
    split; [split; [reflexivity|intros _; exact E2]|].
    repeat split; try discriminate; try (intros; discriminate); try (intros X; contradiction).
  - assert (NP : ~ 0 < f xa * f xb) by (intro X; apply sign_prod_pos in X; congruence).
    destruct (Qeq_bool (f xb) 0) eqn:E3.
    { apply Qeq_bool_iff in E3.
      split; [split; [intros X; contradiction|discriminate]|].
      split.
      { intros r fc it H. inversion H; subst. split; [apply near_zero; [exact E3|pose proof (Qabs_nonneg xb); nra]|].
        assert (Z0 : Qabs (xb - xb) == 0) by (setoid_replace (xb - xb) with 0 by ring; reflexivity).
        pose proof (Qabs_nonneg (xb - xa)).
        split; [lra|]. split; [rewrite Z0; lra|]. lia. }
      repeat split; try discriminate; try reflexivity; try (intros; discriminate).
      intros _ _ X. contradiction. }
    apply Qeqb_false in E3.
    destruct (Qeq_bool (f xa) 0) eqn:E4.
    { apply Qeq_bool_iff in E4.
      split; [split; [intros X; contradiction|discriminate]|].
      split.
      { intros r fc it H. inversion H; subst. split; [apply near_zero; [exact E4|pose proof (Qabs_nonneg xa); nra]|].
        assert (Z0 : Qabs (xa - xa) == 0) by (setoid_replace (xa - xa) with 0 by ring; reflexivity).
        assert (Z1 : Qabs (xa - xb) == Qabs (xb - xa)) by (rewrite <- (Qabs_opp (xa - xb)); apply Qabs_wd; ring).
        pose proof (Qabs_nonneg (xb - xa)).
        split; [rewrite Z0; lra|]. split; [lra|]. lia. }
      repeat split; try discriminate; try reflexivity; try (intros; discriminate).
      intros _ X. contradiction. }
    apply Qeqb_false in E4.
    (* the loop runs *)
    set (L := bisect_loop f (Z.to_nat maxiter) 0 xa (Qsubr xb xa) (f xa) xtol rtol 2).
    assert (EL : bisect_loop f (Z.to_nat maxiter) 0 xa (Qsubr xb xa) (f xa) xtol rtol 2 = L) by reflexivity.
    destruct L as [[[r0 fc0] it0] cv0].
    pose proof (Qsubr_eq xb xa) as Ed.
    assert (Hsq : 0 < f xa * f xa) by nra.
    assert (Hle : f xb * f xa <= 0) by (destruct (Qlt_le_dec 0 (f xa * f xb)); [contradiction|lra]).
    split; [split; [intros X; contradiction|]|].
    { unfold finish. destruct (disp && negb cv0); discriminate. }
    split.
    { intros r fc it H. unfold finish in H. destruct cv0.
      - replace (disp && negb true) with false in H by (destruct disp; reflexivity).
        inversion H; subst r0 fc0 it0. clear H.
        apply (bisect_loop_inv _ _ _ _ _ _ _ _ xb) in EL; [|assumption|assumption|assumption|lra|assumption].
        destruct EL as (N & C1 & C2 & C3 & C4).
        split; [exact N|].
        assert (Qabs (Qsubr xb xa) == Qabs (xb - xa)) by (apply Qabs_wd; exact Ed).
        split; [lra|]. split; [lra|]. lia.
      - destruct disp; simpl in H; inversion H. }
    split; [intros _ X; contradiction|].
    split; [intros _ X; contradiction|].
    split.
    { intros r fc it H. unfold finish in H. destruct cv0.
      - replace (disp && negb true) with false in H by (destruct disp; reflexivity). inversion H.
      - destruct disp; simpl in H; [discriminate|]. inversion H; subst r0 fc0 it0.
        apply bisect_loop_false in EL. split; [reflexivity|]. lia. }
    split.
    { unfold finish. destruct cv0.
      - replace (disp && negb true) with false by (destruct disp; reflexivity). discriminate.
      - destruct disp; simpl; [reflexivity|discriminate]. }
    unfold finish. destruct (disp && negb cv0); split; discriminate.
Qed.
End Bisect.

(* C05 proofs, part 5 (every Num instance, every tolerance): when Lemke-Howson reports convergence, every label
   0..m+n-1 is basic in exactly one of the two tableaux (complementarity of the two basic solutions). *)
From Coq Require Import ZArith List Bool Arith Lia Permutation.
From QE Require Import Base.Num Base.Pivot C05.Model.
Import ListNotations.
Local Open Scope nat_scope.

Section Iter.
Context {S R : Type} (step : S -> S + R) (I : S -> Prop) (J : R -> Prop).
Hypothesis Hstep : forall s, I s -> match step s with inl s' => I s' | inr r => J r end.

Lemma iter_pos_inv : forall p s, I s -> match iter_pos step p s with inl s' => I s' | inr r => J r end.
Proof.
  induction p as [q IH|q IH|]; intros s Hs; cbn [iter_pos].
  - pose proof (Hstep s Hs) as H1. destruct (step s) as [s1|r]; [|exact H1].
    pose proof (IH s1 H1) as H2. destruct (iter_pos step q s1) as [s2|r]; [|exact H2]. now apply IH.
  - pose proof (IH s Hs) as H1. destruct (iter_pos step q s) as [s1|r]; [|exact H1]. now apply IH.
  - now apply Hstep.
Qed.
End Iter.

Section Labels.
Context {T : Type} `{Num T}.
Variables tol_piv tol_ratio_diff : T.

(* the row returned by the (lexicographic) min-ratio test is a row of the tableau *)
Lemma mrt_loop_incl M pv tc tp tr : forall cands rmin acc r,
  In r (mrt_loop M pv tc tp tr cands rmin acc) -> In r cands \/ In r acc.
Proof.
  induction cands as [|i rest IH]; intros rmin acc r Hr; cbn [mrt_loop] in Hr.
  - right. now apply in_rev.
  - destruct (nleb (get M i pv) tp).
    + destruct (IH _ _ _ Hr); [left; now right | now right].
    + destruct rmin as [rm|].
      * destruct (nltb (nadd rm tr) _).
        -- destruct (IH _ _ _ Hr); [left; now right | now right].
        -- destruct (nltb _ (nsub rm tr)).
           ++ destruct (IH _ _ _ Hr) as [H1|[H1|[]]]; [left; now right | left; now left].
           ++ destruct (IH _ _ _ Hr) as [H1|[H1|H1]]; [left; now right | left; now left | now right].
      * destruct (IH _ _ _ Hr) as [H1|[H1|[]]]; [left; now right | left; now left].
Qed.

Lemma min_ratio_test_incl M pv tc tp tr cands r : In r (min_ratio_test M pv tc tp tr cands) -> In r cands.
Proof. intros Hr. destruct (mrt_loop_incl _ _ _ _ _ _ _ _ _ Hr) as [H1|[]]. exact H1. Qed.

Lemma lex_loop_incl M pv tp tr : forall cols am r, In r (snd (lex_loop M pv tp tr cols am)) -> In r am.
Proof.
  induction cols as [|j rest IH]; intros am r Hr; cbn [lex_loop] in Hr; [exact Hr|].
  destruct (Nat.eqb j pv); [now apply IH|].
  destruct (min_ratio_test M pv j tp tr am) as [|a [|b l]] eqn:E.
  - apply IH in Hr. destruct Hr.
  - cbn [snd] in Hr. apply (min_ratio_test_incl M pv j tp tr am). now rewrite E.
  - apply IH in Hr. apply (min_ratio_test_incl M pv j tp tr am). now rewrite E.
Qed.

Lemma lex_min_ratio_test_row M pv ss tp tr : 0 < nrows M -> snd (lex_min_ratio_test M pv ss tp tr) < nrows M.
Proof.
  intros Hp. unfold lex_min_ratio_test, lex_min_ratio_test_n.
  destruct (min_ratio_test M pv (ncols M - 1) tp tr (seq 0 (nrows M))) as [|a [|b l]] eqn:E; cbn [snd]; [assumption| |].
  - assert (Hin : In a (seq 0 (nrows M))) by (apply (min_ratio_test_incl M pv (ncols M - 1) tp tr); rewrite E; now left).
    apply in_seq in Hin. lia.
  - destruct (lex_loop M pv tp tr (seq ss (nrows M)) (a :: b :: l)) as [found am'] eqn:E2. cbn [snd].
    destruct am' as [|z am']; [exact Hp|]. cbn [hd].
    assert (Hz : In z (a :: b :: l)) by (apply (lex_loop_incl M pv tp tr (seq ss (nrows M))); rewrite E2; now left).
    assert (Hin : In z (seq 0 (nrows M))) by (apply (min_ratio_test_incl M pv (ncols M - 1) tp tr); now rewrite E).
    apply in_seq in Hin. lia.
Qed.

Lemma length_mapi_from {A B} (f : nat -> A -> B) : forall l s, length (mapi_from f s l) = length l.
Proof. induction l; intros s; cbn; auto. Qed.
Lemma nrows_pivoting (M : list (list T)) c r : nrows (pivoting M c r) = nrows M.
Proof. unfold nrows, pivoting, mapi. apply length_mapi_from. Qed.

Lemma length_set_nth {A} (l : list A) : forall i v, length (set_nth l i v) = length l.
Proof. induction l; intros [|i] v; cbn; auto. Qed.

(* swapping a new label into position r of a basis *)
Lemma set_nth_perm (b : list nat) : forall r p, r < length b -> Permutation (nth r b 0 :: set_nth b r p) (p :: b).
Proof.
  induction b as [|x b IH]; intros r p Hr; cbn [length] in Hr; [lia|]. destruct r; cbn [nth set_nth].
  - apply perm_swap.
  - eapply perm_trans; [apply perm_swap|]. eapply perm_trans; [apply perm_skip, IH; lia|]. apply perm_swap.
Qed.

(* shape of a Lemke-Howson state: tableaux 0/1 have n/m rows and bases of the same lengths *)
Definition lh_shape (m n : nat) (st : lhstate (T:=T)) : Prop :=
  let '(t0, t1, b0, b1) := st in nrows t0 = n /\ nrows t1 = m /\ length b0 = n /\ length b1 = m.
Definition lh_labels (st : lhstate (T:=T)) : list nat := let '(_, _, b0, b1) := st in b0 ++ b1.

Lemma lh_pivot_labels m n st pl pivot : 0 < m -> 0 < n -> lh_shape m n st ->
  let '(st', pivot') := lh_pivot tol_piv tol_ratio_diff m st pl pivot in
  lh_shape m n st' /\ Permutation (pivot' :: lh_labels st') (pivot :: lh_labels st).
Proof.
  intros Hm Hn. destruct st as [[[t0 t1] b0] b1]. intros [H0 [H1 [L0 L1]]]. unfold lh_pivot. destruct pl.
  - set (r := snd (lex_min_ratio_test t1 pivot 0 tol_piv tol_ratio_diff)).
    assert (Hr : r < length b1) by (rewrite L1, <- H1; apply lex_min_ratio_test_row; lia).
    split.
    + unfold lh_shape. now rewrite nrows_pivoting, length_set_nth.
    + unfold lh_labels.
      apply perm_trans with (b0 ++ nth r b1 0 :: set_nth b1 r pivot); [apply Permutation_middle|].
      apply perm_trans with (b0 ++ pivot :: b1); [apply Permutation_app_head; now apply set_nth_perm|].
      apply Permutation_sym, Permutation_middle.
  - set (r := snd (lex_min_ratio_test t0 pivot m tol_piv tol_ratio_diff)).
    assert (Hr : r < length b0) by (rewrite L0, <- H0; apply lex_min_ratio_test_row; lia).
    split.
    + unfold lh_shape. now rewrite nrows_pivoting, length_set_nth.
    + unfold lh_labels. change (Permutation ((nth r b0 0 :: set_nth b0 r pivot) ++ b1) ((pivot :: b0) ++ b1)).
      apply Permutation_app_tail. now apply set_nth_perm.
Qed.

Lemma nrows_tab nr nc (f : nat -> nat -> T) : nrows (tab nr nc f) = nr.
Proof. unfold nrows, tab, tabv. now rewrite map_length, seq_length. Qed.

Lemma init_tableaux_labels m n A Bt :
  lh_shape m n (init_tableaux m n A Bt) /\ Permutation (lh_labels (init_tableaux m n A Bt)) (seq 0 (m + n)).
Proof.
  unfold init_tableaux, lh_shape, lh_labels. rewrite !nrows_tab, map_length, !seq_length. repeat split.
  assert (E : map (fun i => m + i) (seq 0 n) = seq m n).
  { assert (G : forall k s, map (fun i => m + i) (seq s k) = seq (m + s) k).
    { induction k as [|k IH]; intros s; cbn; [reflexivity|]. f_equal. rewrite IH. f_equal. lia. }
    rewrite G. f_equal. lia. }
  rewrite E, seq_app. apply Permutation_app_comm.
Qed.

(* _lemke_howson_tbl: converged => every label is basic exactly once *)
Theorem lh_tbl_converged_labels m n st init_pivot max_iter : 0 < m -> 0 < n ->
  lh_shape m n st -> Permutation (lh_labels st) (seq 0 (m + n)) ->
  let '(st', conv, _) := lh_tbl tol_piv tol_ratio_diff m st init_pivot max_iter in
  lh_shape m n st' /\ (conv = true -> Permutation (lh_labels st') (seq 0 (m + n))).
Proof.
  intros Hm Hn Hs Hp. unfold lh_tbl. destruct st as [[[t0 t1] b0] b1].
  set (I := fun s : lhrun (T:=T) => let '(st, _, pivot, _) := s in
              lh_shape m n st /\ Permutation (pivot :: lh_labels st) (init_pivot :: seq 0 (m + n))).
  set (J := fun r : lhres (T:=T) => let '(st', conv, _) := r in
              lh_shape m n st' /\ (conv = true -> Permutation (lh_labels st') (seq 0 (m + n)))).
  assert (Hstep : forall s, I s -> match lh_step tol_piv tol_ratio_diff m init_pivot max_iter s with inl s' => I s' | inr r => J r end).
  { intros [[[st pl] pivot] ni] [Hsh Hpe]. unfold lh_step.
    pose proof (lh_pivot_labels m n st pl pivot Hm Hn Hsh) as Hl.
    destruct (lh_pivot tol_piv tol_ratio_diff m st pl pivot) as [st' pivot']. destruct Hl as [Hsh' Hpe'].
    destruct (Nat.eqb_spec pivot' init_pivot) as [Eq|Ne].
    - unfold J. split; [assumption|]. intros _. subst pivot'.
      apply Permutation_cons_inv with (a := init_pivot). eapply perm_trans; eassumption.
    - destruct (Z.leb max_iter (ni + 1)).
      + unfold J. split; [assumption | discriminate].
      + unfold I. split; [assumption|]. eapply perm_trans; eassumption. }
  pose proof (iter_pos_inv (lh_step tol_piv tol_ratio_diff m init_pivot max_iter) I J Hstep (Z.to_pos max_iter)
                ((t0, t1, b0, b1), existsb (fun k => k =? init_pivot) b0, init_pivot, 0%Z)) as Hit.
  destruct (iter_pos _ _ _) as [[[[st' pl'] pv'] ni']|[[st' conv] ni']].
  - assert (Hi : I ((t0, t1, b0, b1), existsb (fun k => k =? init_pivot) b0, init_pivot, 0%Z))
      by (unfold I; split; [assumption | now apply perm_skip]).
    specialize (Hit Hi). unfold I in Hit. destruct Hit as [Hsh' _]. split; [assumption | discriminate].
  - apply Hit. unfold I. split; [assumption | now apply perm_skip].
Qed.

(* _lemke_howson_capping and lemke_howson: the same for every capping schedule *)
Theorem lh_converged_complementary_labels m n A Bt init_pivot max_iter capping : 0 < m -> 0 < n ->
  let '(st, conv, _, _) := lh_capping tol_piv tol_ratio_diff m n A Bt init_pivot max_iter capping in
  conv = true -> Permutation (lh_labels st) (seq 0 (m + n)).
Proof.
  intros Hm Hn. unfold lh_capping. generalize (m + n - 1) as k, init_pivot, max_iter at 2, 0%Z.
  induction k as [|k IH]; intros ip mic total; cbn [lh_capping_loop].
  - destruct (init_tableaux_labels m n A Bt) as [Hs Hp].
    pose proof (lh_tbl_converged_labels m n _ ip mic Hm Hn Hs Hp) as Ht.
    destruct (lh_tbl tol_piv tol_ratio_diff m (init_tableaux m n A Bt) ip mic) as [[st conv] ni]. apply Ht.
  - destruct (init_tableaux_labels m n A Bt) as [Hs Hp].
    pose proof (lh_tbl_converged_labels m n _ ip (Z.min mic capping) Hm Hn Hs Hp) as Ht.
    destruct (lh_tbl tol_piv tol_ratio_diff m (init_tableaux m n A Bt) ip (Z.min mic capping)) as [[st conv] ni].
    destruct (conv || (max_iter <=? total + ni)%Z); [apply Ht|]. apply IH.
Qed.
End Labels.

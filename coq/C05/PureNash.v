(* C05 model, part 2: quantecon/game_theory/pure_nash.py::pure_nash_brute(_gen) on the C14 game model:
   for a in np.ndindex( *g.nums_actions): if g.is_nash(a, tol): yield a *)
From Coq Require Import List Bool Arith.
From QE Require Import Base.Num C14.Model.
Import ListNotations.

Definition pure_nash_brute {T : Type} `{Num T} (g : game T) (tol : T) : list (list nat) :=
  filter (fun a => is_nash g (map (@Pure T) a) tol) (indices (nums_actions g)).

(* C05 property theorems: statements only, each closed by `exact`, with Print Assumptions.
   Bimatrix game: A (m x n) payoffs of player 0, Bt (n x m) payoff array of player 1 (own action first);
   Af A i j = A[i][j], Bf Bt i j = Bt[j][i].  is_nash_fn m n A B x y: x, y are probability vectors and no pure
   action earns more than the mixed action played (hence no mixed deviation either: C05_nash_no_deviation). *)
From Coq Require Import ZArith NArith QArith List Bool Arith Permutation.
From QE Require Import Base.Num Base.LinAlg C05.Model C05.PureNash C05.Proofs C05.Proofs2 C05.Proofs3 C05.Proofs4 C05.Proofs5 C05.ProofsPure.
From QE Require C14.Model C14.Proofs C14.Proofs3.
Import ListNotations.

Theorem C05_complementary_is_nash : forall (m n : nat) (A B : nat -> nat -> Q) (x y : nat -> Q),
  (forall i, (i < m)%nat -> 0 <= x i)%Q -> (forall j, (j < n)%nat -> 0 <= y j)%Q ->
  (forall j, (j < n)%nat -> col_payoff m B x j <= 1)%Q -> (forall i, (i < m)%nat -> row_payoff n A y i <= 1)%Q ->
  (forall i, (i < m)%nat -> x i * (1 - row_payoff n A y i) == 0)%Q ->
  (forall j, (j < n)%nat -> y j * (1 - col_payoff m B x j) == 0)%Q ->
  (0 < sumQ m x)%Q -> (0 < sumQ n y)%Q ->
  is_nash_fn m n A B (fun i => x i / sumQ m x)%Q (fun j => y j / sumQ n y)%Q.
Proof. exact complementary_is_nash. Qed.
Print Assumptions C05_complementary_is_nash.

Theorem C05_nash_shift_invariant : forall (m n : nat) (A B : nat -> nat -> Q) (c0 c1 : Q) (x y : nat -> Q),
  is_nash_fn m n (fun i j => A i j + c0)%Q (fun i j => B i j + c1)%Q x y <-> is_nash_fn m n A B x y.
Proof. exact nash_shift_invariant. Qed.
Print Assumptions C05_nash_shift_invariant.

Theorem C05_nash_no_deviation : forall (m n : nat) (A B : nat -> nat -> Q) (x y : nat -> Q), is_nash_fn m n A B x y ->
  (forall x', prob m x' -> sumQ m (fun i => x' i * row_payoff n A y i) <= sumQ m (fun i => x i * row_payoff n A y i))%Q /\
  (forall y', prob n y' -> sumQ n (fun j => col_payoff m B x j * y' j) <= sumQ n (fun j => col_payoff m B x j * y j))%Q.
Proof. exact is_nash_fn_no_deviation. Qed.
Print Assumptions C05_nash_no_deviation.

(* every pair yielded by the support-enumeration model (exact instance) is a pair of probability vectors and a
   Nash equilibrium; all shapes m, n, all payoffs (degenerate or not) *)
Theorem C05_support_enum_sound : forall (m n : nat) (A Bt : list (list Q)) (x y : list Q),
  In (x, y) (support_enumeration m n A Bt) -> is_nash_fn m n (Af A) (Bf Bt) (LinAlg.vget x) (LinAlg.vget y).
Proof. exact support_enum_sound. Qed.
Print Assumptions C05_support_enum_sound.

(* not proved (decided by the independent exact oracle on games certified non-degenerate): completeness.
   Non-degenerate: against every mixed action the number of pure best responses is at most the support size. *)
Definition supp_size (k : nat) (x : nat -> Q) : nat := length (filter (fun i => negb (Qeq_bool (x i) 0)) (seq 0 k)).
Definition n_best (k : nat) (p : nat -> Q) : nat :=
  length (filter (fun i => forallb (fun i' => Qle_bool (p i') (p i)) (seq 0 k)) (seq 0 k)).
Definition nondegenerate (m n : nat) (A B : nat -> nat -> Q) : Prop :=
  (forall x, prob m x -> (n_best n (col_payoff m B x) <= supp_size m x)%nat) /\
  (forall y, prob n y -> (n_best m (row_payoff n A y) <= supp_size n y)%nat).
Definition support_enum_complete_full : Prop := forall (m n : nat) (A Bt : list (list Q)),
  nondegenerate m n (Af A) (Bf Bt) ->
  forall x y, length x = m -> length y = n ->
  is_nash_fn m n (Af A) (Bf Bt) (LinAlg.vget x) (LinAlg.vget y) ->
  exists x' y', In (x', y') (support_enumeration m n A Bt) /\
                (forall i, LinAlg.vget x' i == LinAlg.vget x i)%Q /\ (forall j, LinAlg.vget y' j == LinAlg.vget y j)%Q.

(* pure_nash_brute (any number of players): the list is the sub-list of np.ndindex order selected by is_nash, and
   is_nash selects exactly the pure profiles from which no player gains more than tol by deviating *)
Theorem C05_pure_nash_brute_exact : forall (g : C14.Model.game Q) (nums : list nat) (tol : Q),
  C14.Proofs.consistent g nums ->
  pure_nash_brute g tol = filter (fun a => C14.Model.is_nash g (map (@C14.Model.Pure Q) a) tol) (C14.Model.indices nums) /\
  (forall a, C14.Proofs.inr nums a ->
     (C14.Model.is_nash g (map (@C14.Model.Pure Q) a) tol = true <-> pure_nash_def g nums tol a)) /\
  (forall a, In a (pure_nash_brute g tol) <-> C14.Proofs.inr nums a /\ pure_nash_def g nums tol a).
Proof. exact pure_nash_brute_exact. Qed.
Print Assumptions C05_pure_nash_brute_exact.

(* vertex enumeration: labelings as bit masks *)
Theorem C05_xor_complete_iff_partition : forall (S0 S1 : list N) (L : N),
  (forall x, In x (S0 ++ S1) -> (x < L)%N) ->
  (N.lxor (ints_to_bits S0) (ints_to_bits S1) = N.ones L <-> forall l, (l < L)%N -> (In l S0 <-> ~ In l S1)).
Proof. exact xor_complete_iff_partition. Qed.
Print Assumptions C05_xor_complete_iff_partition.

(* exact Nash test used to certify, run by run, the outputs of the exact Lemke-Howson model *)
Theorem C05_nash_checkb_sound : forall (m n : nat) (A Bt : list (list Q)) (x y : list Q),
  nash_checkb m n A Bt x y = true -> is_nash_fn m n (Af A) (Bf Bt) (LinAlg.vget x) (LinAlg.vget y).
Proof. exact nash_checkb_sound. Qed.
Print Assumptions C05_nash_checkb_sound.

(* Lemke-Howson, every arithmetic instance (also floats), every tolerance, initial pivot, max_iter and capping:
   when convergence is reported, every label 0..m+n-1 is basic in exactly one of the two tableaux *)
Theorem C05_lh_converged_complementary_partial :
  forall (T : Type) (NT : Num T) (tol_piv tol_ratio_diff : T) (m n : nat) (A Bt : list (list T))
         (init_pivot : nat) (max_iter capping : Z),
  (0 < m)%nat -> (0 < n)%nat ->
  let '(st, conv, _, _) := lh_capping tol_piv tol_ratio_diff m n A Bt init_pivot max_iter capping in
  conv = true -> Permutation (lh_labels st) (seq 0 (m + n)).
Proof. exact @lh_converged_complementary_labels. Qed.
Print Assumptions C05_lh_converged_complementary_partial.

(* full statement, not proved (needs feasibility of both tableaux and the row invariant along the path; decided
   run by run by C05_nash_checkb_sound on the exact model's output and by the oracle on the implementation's) *)
Definition lh_converged_nash_full : Prop :=
  forall (m n : nat) (A Bt : list (list Q)) (init_pivot : nat) (max_iter : Z) (capping : option Z),
  (0 < m)%nat -> (0 < n)%nat -> (init_pivot < m + n)%nat ->
  let '(ne, conv, _, _) := lemke_howson (T:=Q) 0%Q 0%Q m n A Bt init_pivot max_iter capping in
  conv = true -> is_nash_fn m n (Af A) (Bf Bt) (LinAlg.vget (fst ne)) (LinAlg.vget (snd ne)).

(* ---- hypotheses are satisfiable / the models produce non-trivial objects *)
Definition ex_A : list (list Q) := [[3; 0]; [0; 2]]%Q.      (* battle-of-the-sexes-like, A and B^T *)
Definition ex_Bt : list (list Q) := [[2; 0]; [0; 3]]%Q.
Example ex_support_enumeration :
  support_enumeration 2 2 ex_A ex_Bt = [([1; 0], [1; 0]); ([0; 1], [0; 1]); ([3 # 5; 2 # 5], [2 # 5; 3 # 5])]%Q.
Proof. vm_compute. reflexivity. Qed.
Example ex_lemke_howson :
  lemke_howson (T:=Q) 0%Q 0%Q 2 2 ex_A ex_Bt 1 1000000 None = (([0; 1], [0; 1])%Q, true, 2%Z, 1%nat) /\
  nash_checkb 2 2 ex_A ex_Bt [0; 1]%Q [0; 1]%Q = true.
Proof. vm_compute. split; reflexivity. Qed.
Example ex_complementary : let A := fun i j : nat => if Nat.eqb i j then 1%Q else 0%Q in
  let x := fun i : nat => if Nat.eqb i 0 then 1%Q else 0%Q in
  (forall i, (i < 2)%nat -> x i * (1 - row_payoff 2 A x i) == 0)%Q /\ (0 < sumQ 2 x)%Q /\
  (forall i, (i < 2)%nat -> row_payoff 2 A x i <= 1)%Q.
Proof.
  cbv zeta. split; [|split].
  - intros [|[|i]] Hi; [vm_compute; reflexivity | vm_compute; reflexivity | exfalso; apply (Nat.nlt_0_r i); now do 2 apply Nat.succ_lt_mono].
  - vm_compute. reflexivity.
  - intros [|[|i]] Hi; [vm_compute; discriminate | vm_compute; discriminate | exfalso; apply (Nat.nlt_0_r i); now do 2 apply Nat.succ_lt_mono].
Qed.
Example ex_pure_nash : pure_nash_brute (T:=Q) [([2; 2]%nat, [3; 0; 0; 2]%Q); ([2; 2]%nat, [2; 0; 0; 3]%Q)] 0%Q = [[0; 0]; [1; 1]]%nat.
Proof. vm_compute. reflexivity. Qed.

(* C05 property theorems: statements only, each closed by `exact`, with Print Assumptions. *)
From Coq Require Import ZArith QArith List Bool Arith.
From QE Require Import Base.Num C05.Model C05.PureNash C05.Proofs.
Import ListNotations.

Theorem C05_iter_nat_0 : forall (S R : Type) (step : S -> S + R) s, iter_nat step 0 s = inl s.
Proof. exact @iter_nat_0. Qed.
Print Assumptions C05_iter_nat_0.

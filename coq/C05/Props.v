(* C05 property theorems: statements only, each closed by `exact`, with Print Assumptions.
   Bimatrix game: A (m x n) payoffs of player 0, Bt (n x m) payoff array of player 1 (own action first);
   Af A i j = A[i][j], Bf Bt i j = Bt[j][i].  is_nash_fn m n A B x y: x, y are probability vectors and no pure
   action earns more than the mixed action played (hence no mixed deviation either: C05_nash_no_deviation). *)
From Coq Require Import ZArith NArith QArith List Bool Arith Permutation.
From QE Require Import Base.Num Base.LinAlg C05.Model C05.PureNash C05.Proofs C05.Proofs2 C05.Proofs3 C05.Proofs4 C05.Proofs5 C05.ProofsPure.
From QE Require C14.Model C14.Proofs C14.Proofs3.
Import ListNotations.

Theorem C05_complementary_is_nash : forall (m n : nat) (A B : nat -> nat -> Q) (x y : nat -> Q),
  (forall i, (i < m)%nat -> 0 <= x i)%Q -> (forall j, (j < n)%nat -> 0 <= y j)%Q ->
  (forall j, (j < n)%nat -> col_payoff m B x j <= 1)%Q -> (forall i, (i < m)%nat -> row_payoff n A y i <= 1)%Q ->
  (forall i, (i < m)%nat -> x i * (1 - row_payoff n A y i) == 0)%Q ->
  (forall j, (j < n)%nat -> y j * (1 - col_payoff m B x j) == 0)%Q ->
  (0 < sumQ m x)%Q -> (0 < sumQ n y)%Q ->
  is_nash_fn m n A B (fun i => x i / sumQ m x)%Q (fun j => y j / sumQ n y)%Q.
Proof. exact complementary_is_nash. Qed.
Print Assumptions C05_complementary_is_nash.

Theorem C05_nash_shift_invariant : forall (m n : nat) (A B : nat -> nat -> Q) (c0 c1 : Q) (x y : nat -> Q),
  is_nash_fn m n (fun i j => A i j + c0)%Q (fun i j => B i j + c1)%Q x y <-> is_nash_fn m n A B x y.
Proof. exact nash_shift_invariant. Qed.
Print Assumptions C05_nash_shift_invariant.

Theorem C05_nash_no_deviation : forall (m n : nat) (A B : nat -> nat -> Q) (x y : nat -> Q), is_nash_fn m n A B x y ->
  (forall x', prob m x' -> sumQ m (fun i => x' i * row_payoff n A y i) <= sumQ m (fun i => x i * row_payoff n A y i))%Q /\
  (forall y', prob n y' -> sumQ n (fun j => col_payoff m B x j * y' j) <= sumQ n (fun j => col_payoff m B x j * y j))%Q.
Proof. exact is_nash_fn_no_deviation. Qed.
Print Assumptions C05_nash_no_deviation.

(* every pair yielded by the support-enumeration model (exact instance) is a pair of probability vectors and a
   Nash equilibrium; all shapes m, n, all payoffs (degenerate or not) *)
Theorem C05_support_enum_sound : forall (m n : nat) (A Bt : list (list Q)) (x y : list Q),
  In (x, y) (support_enumeration m n A Bt) -> is_nash_fn m n (Af A) (Bf Bt) (LinAlg.vget x) (LinAlg.vget y).
Proof. exact support_enum_sound. Qed.
Print Assumptions C05_support_enum_sound.

(* not proved (decided by the independent exact oracle on games certified non-degenerate): completeness.
   Non-degenerate: against every mixed action the number of pure best responses is at most the support size. *)
Definition supp_size (k : nat) (x : nat -> Q) : nat := length (filter (fun i => negb (Qeq_bool (x i) 0)) (seq 0 k)).
Definition n_best (k : nat) (p : nat -> Q) : nat :=
  length (filter (fun i => forallb (fun i' => Qle_bool (p i') (p i)) (seq 0 k)) (seq 0 k)).
Definition nondegenerate (m n : nat) (A B : nat -> nat -> Q) : Prop :=
  (forall x, prob m x -> (n_best n (col_payoff m B x) <= supp_size m x)%nat) /\
  (forall y, prob n y -> (n_best m (row_payoff n A y) <= supp_size n y)%nat).
Definition support_enum_complete_full : Prop := forall (m n : nat) (A Bt : list (list Q)),
  nondegenerate m n (Af A) (Bf Bt) ->
  forall x y, length x = m -> length y = n ->
  is_nash_fn m n (Af A) (Bf Bt) (LinAlg.vget x) (LinAlg.vget y) ->
  exists x' y', In (x', y') (support_enumeration m n A Bt) /\
                (forall i, LinAlg.vget x' i == LinAlg.vget x i)%Q /\ (forall j, LinAlg.vget y' j == LinAlg.vget y j)%Q.

(* pure_nash_brute (any number of players): the list is the sub-list of np.ndindex order selected by is_nash, and
   is_nash selects exactly the pure profiles from which no player gains more than tol by deviating *)
Theorem C05_pure_nash_brute_exact : forall (g : C14.Model.game Q) (nums : list nat) (tol : Q),
  C14.Proofs.consistent g nums ->
  pure_nash_brute g tol = filter (fun a => C14.Model.is_nash g (map (@C14.Model.Pure Q) a) tol) (C14.Model.indices nums) /\
  (forall a, C14.Proofs.inr nums a ->
     (C14.Model.is_nash g (map (@C14.Model.Pure Q) a) tol = true <-> pure_nash_def g nums tol a)) /\
  (forall a, In a (pure_nash_brute g tol) <-> C14.Proofs.inr nums a /\ pure_nash_def g nums tol a).
Proof. exact pure_nash_brute_exact. Qed.
Print Assumptions C05_pure_nash_brute_exact.

(* vertex enumeration: labelings as bit masks *)
Theorem C05_xor_complete_iff_partition : forall (S0 S1 : list N) (L : N),
  (forall x, In x (S0 ++ S1) -> (x < L)%N) ->
  (N.lxor (ints_to_bits S0) (ints_to_bits S1) = N.ones L <-> forall l, (l < L)%N -> (In l S0 <-> ~ In l S1)).
Proof. exact xor_complete_iff_partition. Qed.
Print Assumptions C05_xor_complete_iff_partition.

(* exact Nash test used to certify, run by run, the outputs of the exact Lemke-Howson model *)
Theorem C05_nash_checkb_sound : forall (m n : nat) (A Bt : list (list Q)) (x y : list Q),
  nash_checkb m n A Bt x y = true -> is_nash_fn m n (Af A) (Bf Bt) (LinAlg.vget x) (LinAlg.vget y).
Proof. exact nash_checkb_sound. Qed.
Print Assumptions C05_nash_checkb_sound.

(* Lemke-Howson, every arithmetic instance (also floats), every tolerance, initial pivot, max_iter and capping:
   when convergence is reported, every label 0..m+n-1 is basic in exactly one of the two tableaux *)
Theorem C05_lh_converged_complementary_partial :
  forall (T : Type) (NT : Num T) (tol_piv tol_ratio_diff : T) (m n : nat) (A Bt : list (list T))
         (init_pivot : nat) (max_iter capping : Z),
  (0 < m)%nat -> (0 < n)%nat ->
  let '(st, conv, _, _) := lh_capping tol_piv tol_ratio_diff m n A Bt init_pivot max_iter capping in
  conv = true -> Permutation (lh_labels st) (seq 0 (m + n)).
Proof. exact @lh_converged_complementary_labels. Qed.
Print Assumptions C05_lh_converged_complementary_partial.

(* full statement, not proved (needs feasibility of both tableaux and the row invariant along the path; decided
   run by run by C05_nash_checkb_sound on the exact model's output and by the oracle on the implementation's) *)
Definition lh_converged_nash_full : Prop :=
  forall (m n : nat) (A Bt : list (list Q)) (init_pivot : nat) (max_iter : Z) (capping : option Z),
  (0 < m)%nat -> (0 < n)%nat -> (init_pivot < m + n)%nat ->
  let '(ne, conv, _, _) := lemke_howson (T:=Q) 0%Q 0%Q m n A Bt init_pivot max_iter capping in
  conv = true -> is_nash_fn m n (Af A) (Bf Bt) (LinAlg.vget (fst ne)) (LinAlg.vget (snd ne)).

(* ---- hypotheses are satisfiable / the models produce non-trivial objects *)
Definition ex_A : list (list Q) := [[3; 0]; [0; 2]]%Q.      (* battle-of-the-sexes-like, A and B^T *)
Definition ex_Bt : list (list Q) := [[2; 0]; [0; 3]]%Q.
Example ex_support_enumeration :
  support_enumeration 2 2 ex_A ex_Bt = [([1; 0], [1; 0]); ([0; 1], [0; 1]); ([3 # 5; 2 # 5], [2 # 5; 3 # 5])]%Q.
Proof. vm_compute. reflexivity. Qed.
Example ex_lemke_howson :
  lemke_howson (T:=Q) 0%Q 0%Q 2 2 ex_A ex_Bt 1 1000000 None = (([0; 1], [0; 1])%Q, true, 2%Z, 1%nat) /\
  nash_checkb 2 2 ex_A ex_Bt [0; 1]%Q [0; 1]%Q = true.
Proof. vm_compute. split; reflexivity. Qed.
Example ex_complementary : let A := fun i j : nat => if Nat.eqb i j then 1%Q else 0%Q in
  let x := fun i : nat => if Nat.eqb i 0 then 1%Q else 0%Q in
  (forall i, (i < 2)%nat -> x i * (1 - row_payoff 2 A x i) == 0)%Q /\ (0 < sumQ 2 x)%Q /\
  (forall i, (i < 2)%nat -> row_payoff 2 A x i <= 1)%Q.
Proof.
  cbv zeta. split; [|split].
  - intros [|[|i]] Hi; [vm_compute; reflexivity | vm_compute; reflexivity | exfalso; apply (Nat.nlt_0_r i); now do 2 apply Nat.succ_lt_mono].
  - vm_compute. reflexivity.
  - intros [|[|i]] Hi; [vm_compute; discriminate | vm_compute; discriminate | exfalso; apply (Nat.nlt_0_r i); now do 2 apply Nat.succ_lt_mono].
Qed.
Example ex_pure_nash : pure_nash_brute (T:=Q) [([2; 2]%nat, [3; 0; 0; 2]%Q); ([2; 2]%nat, [2; 0; 0; 3]%Q)] 0%Q = [[0; 0]; [1; 1]]%nat.
Proof. vm_compute. reflexivity. Qed.

(* ================= completeness of support enumeration (Proofs6.v, Proofs7.v) =================
   sinc s: s strictly increasing;  sys_sol P own opp k z: z_0..z_{k-1} (on opp) and the value z_k solve the
   indifference system of _indiff_mixed_action;  sys_unique: that system has at most one solution (non-singular);
   sys_solved: the certified Gauss-Jordan solver does not report "singular" on it (its completeness is not proved
   in Base/Gauss.v; the analogue for the code is LAPACK gesv returning r = 0). *)
From Coq Require Import Lqa Lia.
From QE Require Import C05.Proofs6 C05.Proofs7.

(* every Nash equilibrium (x, y) whose supports s0, s1 have the same size k and whose two indifference systems are
   non-singular is yielded by the enumeration *)
Theorem C05_support_enum_complete : forall (m n : nat) (A Bt : list (list Q)) (x y : nat -> Q) (s0 s1 : list nat) (k : nat),
  is_nash_fn m n (Af A) (Bf Bt) x y ->
  sinc s0 -> sinc s1 -> length s0 = k -> length s1 = k ->
  (forall i, In i s0 <-> (i < m)%nat /\ (0 < x i)%Q) -> (forall j, In j s1 <-> (j < n)%nat /\ (0 < y j)%Q) ->
  sys_solved A s0 s1 -> sys_unique A s0 s1 k -> sys_solved Bt s1 s0 -> sys_unique Bt s1 s0 k ->
  exists x' y', In (x', y') (support_enumeration m n A Bt) /\
                (forall i, (i < m)%nat -> LinAlg.vget x' i == x i)%Q /\ (forall j, (j < n)%nat -> LinAlg.vget y' j == y j)%Q.
Proof. exact support_enum_complete. Qed.
Print Assumptions C05_support_enum_complete.

(* the acceptance test itself is complete: a positive exact solution against which no own action does better is returned *)
Theorem C05_indiff_complete : forall (P : list (list Q)) (mrows : nat) (own opp : list nat) (z : nat -> Q),
  let k := length own in
  sys_solved P own opp -> sys_unique P own opp k -> sys_sol P own opp k z ->
  (forall t, (t < k)%nat -> 0 < z t)%Q ->
  (forall i, (i < mrows)%nat -> sumQ k (fun t => LinAlg.get P i (nth t opp 0%nat) * z t) <= z k)%Q ->
  exists a, indiff_mixed_action P mrows own opp = Some a /\ length a = k /\ forall t, (t < k)%nat -> (nth t a 0 == z t)%Q.
Proof. exact indiff_complete. Qed.
Print Assumptions C05_indiff_complete.

(* not proved: a non-degenerate game has only equilibria with equal-size supports and non-singular systems, each
   yielded exactly once (hence an odd number); decided by the oracle on certified non-degenerate games *)
Definition nondegenerate_equal_supports_full : Prop := forall (m n : nat) (A Bt : list (list Q)) (x y : nat -> Q) (s0 s1 : list nat),
  nondegenerate m n (Af A) (Bf Bt) -> is_nash_fn m n (Af A) (Bf Bt) x y ->
  sinc s0 -> sinc s1 ->
  (forall i, In i s0 <-> (i < m)%nat /\ (0 < x i)%Q) -> (forall j, In j s1 <-> (j < n)%nat /\ (0 < y j)%Q) ->
  length s0 = length s1 /\ sys_solved A s0 s1 /\ sys_unique A s0 s1 (length s0) /\
  sys_solved Bt s1 s0 /\ sys_unique Bt s1 s0 (length s0).

(* the hypotheses hold for the mixed equilibrium of the example game *)
Example ex_complete_hyps : sinc [0; 1]%nat /\ sys_solved ex_A [0; 1]%nat [0; 1]%nat /\ sys_unique ex_A [0; 1]%nat [0; 1]%nat 2.
Proof.
  split; [cbn; auto|]. split; [unfold sys_solved; vm_compute; discriminate|].
  intros z z' [H1 H2] [H1' H2'] t Ht.
  pose proof (H1 0%nat (Nat.lt_0_succ 1)) as A0. pose proof (H1 1%nat (Nat.lt_succ_diag_r 1)) as A1.
  pose proof (H1' 0%nat (Nat.lt_0_succ 1)) as B0. pose proof (H1' 1%nat (Nat.lt_succ_diag_r 1)) as B1.
  cbn in A0, A1, B0, B1, H2, H2'.
  destruct t as [|[|[|t]]]; [| | | exfalso; apply (Nat.nle_succ_0 t); now do 2 apply Nat.succ_le_mono]; lra.
Qed.

(* exactly once: supp m x lists the actions with positive probability; no two pairs yielded by the enumeration have
   the same pair of supports, and vectors equal entry by entry have equal supports - so an equilibrium found by
   C05_support_enum_complete occupies exactly one position of the list *)
From QE Require Import C05.Proofs8.
Theorem C05_support_enum_once : forall (m n : nat) (A Bt : list (list Q)),
  NoDup (map (suppair m n) (support_enumeration m n A Bt)) /\
  (forall x x' : list Q, (forall i, (i < m)%nat -> LinAlg.vget x i == LinAlg.vget x' i)%Q -> supp m x = supp m x').
Proof. intros m n A Bt. split; [exact (support_enum_once m n A Bt) | exact (supp_ext m)]. Qed.
Print Assumptions C05_support_enum_once.

(* ================= Lemke-Howson: convergence => Nash (ProofsLH1-3.v; exact instance, tolerance 0) =================
   Both tableaux stay feasible and their rows keep satisfying the initial equations along the whole path, for every
   initial pivot, max_iter and capping schedule (shared invariant lemmas of Base/PivotProofs.v; the entering column
   always has a positive entry because the shifted payoffs are positive, and the lexicographic test always
   separates ties because the slack block is non-singular).  With the complementarity of the labels
   (C05_lh_converged_complementary_partial) and C05_complementary_is_nash: when convergence is reported the output
   is a Nash equilibrium of the original game, or both returned vectors are identically zero (the path came back
   to the artificial equilibrium; excluded for the code only by the Lemke-Howson path argument, which is not
   proved).  A, Bt must be m x n and n x m (PivotProofs.wf). *)
From QE Require Base.PivotProofs C05.ProofsLH3.

Theorem C05_lh_converged_nash : forall (m n : nat) (A Bt : list (list Q)) (init_pivot : nat) (max_iter : Z) (capping : option Z),
  (0 < m)%nat -> (0 < n)%nat -> PivotProofs.wf m n A -> PivotProofs.wf n m Bt -> (init_pivot < m + n)%nat ->
  let '(ne, conv, _, _) := lemke_howson (T:=Q) 0%Q 0%Q m n A Bt init_pivot max_iter capping in
  conv = true ->
  is_nash_fn m n (Af A) (Bf Bt) (LinAlg.vget (fst ne)) (LinAlg.vget (snd ne)) \/
  ((forall i, (i < m)%nat -> LinAlg.vget (fst ne) i == 0)%Q /\ (forall j, (j < n)%nat -> LinAlg.vget (snd ne) j == 0)%Q).
Proof. exact ProofsLH3.lh_converged_nash. Qed.
Print Assumptions C05_lh_converged_nash.

(* what remains of lh_converged_nash_full: the second alternative never occurs *)
Definition lh_not_artificial_full : Prop :=
  forall (m n : nat) (A Bt : list (list Q)) (init_pivot : nat) (max_iter : Z) (capping : option Z),
  (0 < m)%nat -> (0 < n)%nat -> PivotProofs.wf m n A -> PivotProofs.wf n m Bt -> (init_pivot < m + n)%nat ->
  let '(ne, conv, _, _) := lemke_howson (T:=Q) 0%Q 0%Q m n A Bt init_pivot max_iter capping in
  conv = true -> exists i, (i < m)%nat /\ ~ (LinAlg.vget (fst ne) i == 0)%Q.

Example ex_lh_hyps : PivotProofs.wf 2 2 ex_A /\ PivotProofs.wf 2 2 ex_Bt.
Proof. split; (split; [reflexivity|]; intros [|[|i]] Hi; [reflexivity|reflexivity|exfalso; apply (Nat.nlt_0_r i); now do 2 apply Nat.succ_lt_mono]). Qed.

(* C05 proofs, part 3: the supports enumerated by next_k_array are duplicate-free subsets of the action set *)
From Coq Require Import ZArith List Bool Arith Lia.
From QE Require Import Base.Num C16.Model C05.Model.
Import ListNotations.
Local Open Scope Z_scope.

Fixpoint incr (l : list Z) : Prop :=
  match l with
  | x :: ((y :: _) as r) => x < y /\ incr r
  | _ => True
  end.
Definition lowb (i : Z) (l : list Z) : Prop := match l with [] => True | x :: _ => i <= x end.

Lemma nk_aux_cons2 i x y t :
  nk_aux i (x :: y :: t) = if x + 1 =? y then i :: nk_aux (i + 1) (y :: t) else (x + 1) :: y :: t.
Proof. reflexivity. Qed.
Lemma next_k_array_cons2 x y t :
  next_k_array (x :: y :: t) = if x + 1 <? y then (x + 1) :: y :: t else 0 :: nk_aux 1 (y :: t).
Proof. reflexivity. Qed.

Lemma nk_aux_spec : forall l i, incr l -> lowb i l ->
  length (nk_aux i l) = length l /\ incr (nk_aux i l) /\ lowb i (nk_aux i l).
Proof.
  induction l as [|x l IH]; intros i Hi Hl; [cbn; auto|].
  destruct l as [|y t].
  - cbn [nk_aux length incr lowb] in *. repeat split; auto. lia.
  - rewrite nk_aux_cons2. cbn [incr] in Hi. destruct Hi as [Hxy Hr]. cbn [lowb] in Hl.
    destruct (Z.eqb_spec (x + 1) y) as [E|E].
    + destruct (IH (i + 1) Hr) as [H1 [H2 H3]]; [cbn [lowb]; lia|].
      split; [cbn [length] in *; lia|]. split; [|cbn; lia].
      destruct (nk_aux (i + 1) (y :: t)) as [|z r] eqn:En; [cbn in H1; lia|].
      cbn [incr]. split; [cbn [lowb] in H3; lia | exact H2].
    + split; [reflexivity|]. split; [|cbn; lia]. cbn [incr]. split; [lia|exact Hr].
Qed.

Lemma next_k_array_spec a : incr a -> lowb 0 a ->
  length (next_k_array a) = length a /\ incr (next_k_array a) /\ lowb 0 (next_k_array a).
Proof.
  intros Hi Hl. destruct a as [|x [|y t]]; [cbn; auto | cbn [next_k_array length incr lowb] in *; repeat split; auto; lia |].
  rewrite next_k_array_cons2. cbn [incr] in Hi. destruct Hi as [Hxy Hr]. cbn [lowb] in Hl.
  destruct (Z.ltb_spec (x + 1) y).
  - split; [reflexivity|]. split; [|cbn; lia]. cbn [incr]. split; [lia|exact Hr].
  - destruct (nk_aux_spec (y :: t) 1 Hr) as [H1 [H2 H3]]; [cbn; lia|].
    split; [cbn [length] in *; lia|]. split; [|cbn; lia].
    destruct (nk_aux 1 (y :: t)) as [|z r] eqn:En; [cbn in H1; lia|].
    cbn [incr]. split; [cbn [lowb] in H3; lia | exact H2].
Qed.

Lemma k_walk_spec fuel n : forall a k, incr a -> lowb 0 a -> length a = k ->
  forall s, In s (k_walk fuel n a) -> length s = k /\ incr s /\ lowb 0 s /\ last s 0 < n.
Proof.
  induction fuel; intros a k Hi Hl Hk s Hin; [destruct Hin|]. cbn [k_walk] in Hin.
  destruct (Z.ltb_spec (last a 0) n); [|destruct Hin].
  destruct Hin as [<-|Hin]; [auto|].
  destruct (next_k_array_spec a Hi Hl) as [H1 [H2 H3]].
  apply (IHfuel (next_k_array a) k H2 H3); [lia | exact Hin].
Qed.

Lemma incr_zrange_from : forall n s, incr (zrange_from s n).
Proof.
  induction n; intros s; [exact I|]. cbn [zrange_from]. destruct n; [exact I|].
  cbn [zrange_from incr]. split; [lia|]. apply (IHn (s + 1)).
Qed.
Lemma length_zrange_from : forall n s, length (zrange_from s n) = n.
Proof. induction n; intros s; cbn; auto. Qed.

Lemma incr_bounds : forall l x, incr l -> In x l -> lowb 0 l -> 0 <= x <= last l 0.
Proof.
  induction l as [|y l IH]; intros x Hi Hin Hl; [destruct Hin|].
  destruct l as [|z t].
  - destruct Hin as [<-|[]]. cbn in *. lia.
  - cbn [incr] in Hi. destruct Hi as [Hyz Hr]. cbn [lowb] in Hl.
    assert (Hlast : last (y :: z :: t) 0 = last (z :: t) 0) by reflexivity. rewrite Hlast.
    destruct Hin as [<-|Hin].
    + assert (0 <= z <= last (z :: t) 0) by (apply IH; [assumption | now left | cbn; lia]). lia.
    + apply IH; [assumption | assumption | cbn; lia].
Qed.

Lemma incr_NoDup_to_nat : forall l, incr l -> lowb 0 l -> NoDup (map Z.to_nat l).
Proof.
  induction l as [|y l IH]; intros Hi Hl; [constructor|]. cbn [map]. constructor.
  - intros Hin. apply in_map_iff in Hin. destruct Hin as [x [Ex Hx]].
    destruct l as [|z t]; [destruct Hx|]. cbn [incr] in Hi. destruct Hi as [Hyz Hr]. cbn [lowb] in Hl.
    assert (0 <= x <= last (z :: t) 0) by (apply incr_bounds; [assumption | assumption | cbn; lia]).
    assert (z <= x).
    { clear - Hr Hx. revert z Hr Hx. induction t as [|w t IHt]; intros z Hr Hx.
      - destruct Hx as [<-|[]]. lia.
      - cbn [incr] in Hr. destruct Hr as [Hzw Hr']. destruct Hx as [<-|Hx]; [lia|].
        specialize (IHt w Hr' Hx). lia. }
    lia.
  - destruct l as [|z t]; [constructor|]. cbn [incr] in Hi. destruct Hi as [Hyz Hr]. cbn [lowb] in Hl.
    apply IH; [assumption | cbn; lia].
Qed.

(* every support enumerated for k actions out of n: k distinct actions below n *)
Theorem supports_spec n k s : (0 < k)%nat -> In s (supports n k) ->
  length s = k /\ NoDup s /\ forall x, In x s -> (x < n)%nat.
Proof.
  intros Hk Hin. unfold supports in Hin. apply in_map_iff in Hin. destruct Hin as [a [<- Ha]].
  assert (Hl0 : lowb 0 (zrange (Z.of_nat k))).
  { unfold zrange. rewrite Nat2Z.id. destruct k; [lia|]. cbn. lia. }
  apply (k_walk_spec _ _ (zrange (Z.of_nat k)) k) in Ha;
    [| apply incr_zrange_from | assumption | unfold zrange; now rewrite length_zrange_from, Nat2Z.id].
  destruct Ha as [H1 [H2 [H3 H4]]]. split; [now rewrite map_length|]. split; [now apply incr_NoDup_to_nat|].
  intros x Hx. apply in_map_iff in Hx. destruct Hx as [z [<- Hz]].
  pose proof (incr_bounds a z H2 Hz H3). lia.
Qed.

(* C05 proofs, part 1: Nash equilibria of bimatrix games over Q (function form), complementarity =>
   equilibrium, invariance under adding constants, bit-mask lemma of vertex enumeration. *)
From Coq Require Import ZArith NArith QArith List Bool Arith Lia Lqa Setoid.
From QE Require Import Base.Num Base.LinAlg.
Import ListNotations.
Local Open Scope Q_scope.

Lemma sumQ_le k f g : (forall l, (l < k)%nat -> f l <= g l) -> sumQ k f <= sumQ k g.
Proof.
  induction k; intros H; simpl; [lra|].
  assert (sumQ k f <= sumQ k g) by (apply IHk; intros; apply H; lia).
  assert (f k <= g k) by (apply H; lia). lra.
Qed.

(* ------------------------------------------------------------------ Nash equilibrium, function form *)
Section Nash.
Variables m n : nat.

(* A i j, B i j : payoffs of player 0 / player 1 when 0 plays i < m and 1 plays j < n *)
Definition row_payoff (A : nat -> nat -> Q) (y : nat -> Q) (i : nat) : Q := sumQ n (fun j => A i j * y j).
Definition col_payoff (B : nat -> nat -> Q) (x : nat -> Q) (j : nat) : Q := sumQ m (fun i => x i * B i j).
Definition prob (k : nat) (x : nat -> Q) : Prop := (forall i, (i < k)%nat -> 0 <= x i) /\ sumQ k x == 1.

(* (x, y) is a pair of probability vectors and no pure action earns more than the mixed action played *)
Definition is_nash_fn (A B : nat -> nat -> Q) (x y : nat -> Q) : Prop :=
  prob m x /\ prob n y /\
  (forall i, (i < m)%nat -> row_payoff A y i <= sumQ m (fun i' => x i' * row_payoff A y i')) /\
  (forall j, (j < n)%nat -> col_payoff B x j <= sumQ n (fun j' => col_payoff B x j' * y j')).

(* hence no mixed deviation is profitable either *)
Lemma is_nash_fn_no_deviation A B x y : is_nash_fn A B x y ->
  (forall x', prob m x' -> sumQ m (fun i => x' i * row_payoff A y i) <= sumQ m (fun i => x i * row_payoff A y i)) /\
  (forall y', prob n y' -> sumQ n (fun j => col_payoff B x j * y' j) <= sumQ n (fun j => col_payoff B x j * y j)).
Proof.
  intros [Hx [Hy [H0 H1]]]. split.
  - intros x' [Hp Hs]. set (u := sumQ m (fun i' => x i' * row_payoff A y i')) in *.
    assert (H : sumQ m (fun i => x' i * row_payoff A y i) <= sumQ m (fun i => x' i * u)).
    { apply sumQ_le. intros i Hi. specialize (Hp i Hi). specialize (H0 i Hi). nra. }
    rewrite sumQ_scale_r, Hs in H. lra.
  - intros y' [Hp Hs]. set (u := sumQ n (fun j' => col_payoff B x j' * y j')) in *.
    assert (H : sumQ n (fun j => col_payoff B x j * y' j) <= sumQ n (fun j => u * y' j)).
    { apply sumQ_le. intros j Hj. specialize (Hp j Hj). specialize (H1 j Hj). nra. }
    rewrite sumQ_scale_l, Hs in H. lra.
Qed.

(* adding a constant to all payoffs of a player does not change the equilibria *)
Lemma row_payoff_shift A c y i : sumQ n y == 1 -> row_payoff (fun i j => A i j + c) y i == row_payoff A y i + c.
Proof.
  intros Hs. unfold row_payoff.
  rewrite (sumQ_ext n _ (fun j => A i j * y j + c * y j)) by (intros; ring).
  rewrite sumQ_add, sumQ_scale_l, Hs. ring.
Qed.
Lemma col_payoff_shift B c x j : sumQ m x == 1 -> col_payoff (fun i j => B i j + c) x j == col_payoff B x j + c.
Proof.
  intros Hs. unfold col_payoff.
  rewrite (sumQ_ext m _ (fun i => x i * B i j + x i * c)) by (intros; ring).
  rewrite sumQ_add, sumQ_scale_r, Hs. ring.
Qed.

Theorem nash_shift_invariant A B c0 c1 x y :
  is_nash_fn (fun i j => A i j + c0) (fun i j => B i j + c1) x y <-> is_nash_fn A B x y.
Proof.
  unfold is_nash_fn. split; intros [Hx [Hy [H0 H1]]]; (split; [exact Hx|]; split; [exact Hy|]);
    pose proof (proj2 Hx) as Sx; pose proof (proj2 Hy) as Sy.
  - split.
    + intros i Hi. specialize (H0 i Hi). rewrite row_payoff_shift in H0 by assumption.
      rewrite (sumQ_ext m _ (fun i' => x i' * row_payoff A y i' + x i' * c0)) in H0
        by (intros; rewrite row_payoff_shift by assumption; ring).
      rewrite sumQ_add, sumQ_scale_r, Sx in H0. lra.
    + intros j Hj. specialize (H1 j Hj). rewrite col_payoff_shift in H1 by assumption.
      rewrite (sumQ_ext n _ (fun j' => col_payoff B x j' * y j' + c1 * y j')) in H1
        by (intros; rewrite col_payoff_shift by assumption; ring).
      rewrite sumQ_add, sumQ_scale_l, Sy in H1. lra.
  - split.
    + intros i Hi. specialize (H0 i Hi). rewrite row_payoff_shift by assumption.
      rewrite (sumQ_ext m _ (fun i' => x i' * row_payoff A y i' + x i' * c0))
        by (intros; rewrite row_payoff_shift by assumption; ring).
      rewrite sumQ_add, sumQ_scale_r, Sx. lra.
    + intros j Hj. specialize (H1 j Hj). rewrite col_payoff_shift by assumption.
      rewrite (sumQ_ext n _ (fun j' => col_payoff B x j' * y j' + c1 * y j'))
        by (intros; rewrite col_payoff_shift by assumption; ring).
      rewrite sumQ_add, sumQ_scale_l, Sy. lra.
Qed.

(* the complementarity conditions reached by Lemke-Howson / vertex enumeration:
   x, y >= 0 non-zero, B'x <= 1, Ay <= 1 (slacks s, r >= 0), x_i r_i = 0, y_j s_j = 0
   ==> the normalised pair is a Nash equilibrium *)
Theorem complementary_is_nash A B x y :
  (forall i, (i < m)%nat -> 0 <= x i) -> (forall j, (j < n)%nat -> 0 <= y j) ->
  (forall j, (j < n)%nat -> col_payoff B x j <= 1) -> (forall i, (i < m)%nat -> row_payoff A y i <= 1) ->
  (forall i, (i < m)%nat -> x i * (1 - row_payoff A y i) == 0) ->
  (forall j, (j < n)%nat -> y j * (1 - col_payoff B x j) == 0) ->
  0 < sumQ m x -> 0 < sumQ n y ->
  is_nash_fn A B (fun i => x i / sumQ m x) (fun j => y j / sumQ n y).
Proof.
  intros Hx Hy Hs Hr Cx Cy Px Py. set (X := sumQ m x) in *. set (Y := sumQ n y) in *.
  assert (HX : ~ X == 0) by lra. assert (HY : ~ Y == 0) by lra.
  assert (Erow : forall i, row_payoff A (fun j => y j / Y) i == row_payoff A y i / Y).
  { intros i. unfold row_payoff. rewrite (sumQ_ext n _ (fun j => (A i j * y j) * (/ Y))) by (intros; field; assumption).
    rewrite sumQ_scale_r. field. assumption. }
  assert (Ecol : forall j, col_payoff B (fun i => x i / X) j == col_payoff B x j / X).
  { intros j. unfold col_payoff. rewrite (sumQ_ext m _ (fun i => (x i * B i j) * (/ X))) by (intros; field; assumption).
    rewrite sumQ_scale_r. field. assumption. }
  assert (U0 : sumQ m (fun i' => x i' / X * row_payoff A (fun j => y j / Y) i') == / Y).
  { rewrite (sumQ_ext m _ (fun i' => x i' * (/ (X * Y)))).
    - rewrite sumQ_scale_r. fold X. field. split; assumption.
    - intros i Hi. rewrite Erow. specialize (Cx i Hi).
      assert (E : x i * row_payoff A y i == x i) by lra.
      transitivity ((x i * row_payoff A y i) * / (X * Y)); [field; split; assumption|]. rewrite E. reflexivity. }
  assert (U1 : sumQ n (fun j' => col_payoff B (fun i => x i / X) j' * (y j' / Y)) == / X).
  { rewrite (sumQ_ext n _ (fun j' => y j' * (/ (X * Y)))).
    - rewrite sumQ_scale_r. fold Y. field. split; assumption.
    - intros j Hj. rewrite Ecol. specialize (Cy j Hj).
      assert (E : y j * col_payoff B x j == y j) by lra.
      transitivity ((y j * col_payoff B x j) * / (X * Y)); [field; split; assumption|]. rewrite E. reflexivity. }
  assert (IX : 0 < / X) by (apply Qinv_lt_0_compat; assumption).
  assert (IY : 0 < / Y) by (apply Qinv_lt_0_compat; assumption).
  unfold is_nash_fn, prob. repeat split.
  - intros i Hi. specialize (Hx i Hi). unfold Qdiv. nra.
  - rewrite (sumQ_ext m _ (fun i => x i * / X)) by (intros; reflexivity). rewrite sumQ_scale_r. fold X. field. assumption.
  - intros j Hj. specialize (Hy j Hj). unfold Qdiv. nra.
  - rewrite (sumQ_ext n _ (fun j => y j * / Y)) by (intros; reflexivity). rewrite sumQ_scale_r. fold Y. field. assumption.
  - intros i Hi. rewrite U0, Erow. specialize (Hr i Hi). unfold Qdiv. nra.
  - intros j Hj. rewrite U1, Ecol. specialize (Hs j Hj). unfold Qdiv. nra.
Qed.
End Nash.

(* ------------------------------------------------------------------ vertex enumeration: bit masks *)
Local Open Scope N_scope.
Definition bits_of (l : list N) : N := fold_left (fun acc i => N.lor acc (N.shiftl 1 i)) l 0.

Lemma testbit_fold_lor (l : list N) : forall acc k,
  N.testbit (fold_left (fun acc i => N.lor acc (N.shiftl 1 i)) l acc) k = N.testbit acc k || existsb (N.eqb k) l.
Proof.
  induction l as [|x l IH]; intros acc k; cbn [fold_left existsb]; [now rewrite orb_false_r|].
  rewrite IH, N.lor_spec, N.shiftl_1_l, N.pow2_bits_eqb, orb_assoc. f_equal. f_equal. apply N.eqb_sym.
Qed.

Lemma testbit_bits_of l k : N.testbit (bits_of l) k = existsb (N.eqb k) l.
Proof. unfold bits_of. rewrite testbit_fold_lor. now rewrite N.bits_0. Qed.

Lemma existsb_eqb_In k l : existsb (N.eqb k) l = true <-> In k l.
Proof.
  rewrite existsb_exists. split.
  - intros [x [Hx E]]. apply N.eqb_eq in E. now subst.
  - intros H. exists k. split; [assumption | apply N.eqb_refl].
Qed.

(* labels as bit masks: the XOR of two masks is the complete mask 2^L - 1 iff the two label sets are
   disjoint and cover {0, ..., L-1} *)
Theorem xor_complete_iff_partition (S0 S1 : list N) (L : N) :
  (forall x, In x (S0 ++ S1) -> x < L) ->
  (N.lxor (bits_of S0) (bits_of S1) = N.ones L <-> forall l, l < L -> (In l S0 <-> ~ In l S1)).
Proof.
  intros Hr. split.
  - intros E l Hl. assert (Eb : N.testbit (N.lxor (bits_of S0) (bits_of S1)) l = true)
      by (rewrite E; now apply N.ones_spec_low).
    rewrite N.lxor_spec, !testbit_bits_of in Eb. rewrite <- !existsb_eqb_In.
    destruct (existsb (N.eqb l) S0), (existsb (N.eqb l) S1); cbn in Eb; try discriminate; intuition congruence.
  - intros H. apply N.bits_inj. intros k. rewrite N.lxor_spec, !testbit_bits_of.
    destruct (N.lt_ge_cases k L) as [Hk|Hk].
    + rewrite N.ones_spec_low by assumption. specialize (H k Hk). rewrite <- !existsb_eqb_In in H.
      destruct (existsb (N.eqb k) S0), (existsb (N.eqb k) S1); cbn; intuition congruence.
    + rewrite N.ones_spec_high by assumption.
      assert (N0 : existsb (N.eqb k) S0 = false).
      { destruct (existsb (N.eqb k) S0) eqn:E0; [|reflexivity]. apply existsb_eqb_In in E0.
        specialize (Hr k (in_or_app _ _ _ (or_introl E0))). lia. }
      assert (N1 : existsb (N.eqb k) S1 = false).
      { destruct (existsb (N.eqb k) S1) eqn:E1; [|reflexivity]. apply existsb_eqb_In in E1.
        specialize (Hr k (in_or_app _ _ _ (or_intror E1))). lia. }
      now rewrite N0, N1.
Qed.

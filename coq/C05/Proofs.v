(* C05 proofs *)
From Coq Require Import ZArith QArith List Bool Arith Lia.
From QE Require Import Base.Num C05.Model C05.PureNash.
Import ListNotations.

Lemma iter_nat_0 {S R} (step : S -> S + R) s : iter_nat step 0 s = inl s.
Proof. reflexivity. Qed.

(* C05, Lemke-Howson, part 1 (exact instance, tolerance 0): invariant of ONE tableau without criterion row
   (rows = slack-block combination of the initial rows, unit columns of the basic labels, solutions of the
   current rows solve the initial rows, non-negative right-hand side); on a bounded polytope every entering
   column has a positive entry, so the lexicographic min-ratio test always finds a row and the invariant
   is preserved by the pivot. *)
From Coq Require Import ZArith QArith List Bool Arith Lia Lqa Setoid Morphisms.
From QE Require Import Base.Num Base.Pivot Base.PivotProofs.
Import ListNotations.
Open Scope Q_scope.

Record lhT_inv (nr nc a : nat) (T0 T : matQ) (basis : list nat) : Prop := {
  lt_nc : (a + nr <= nc - 1)%nat;
  lt_wf : wf nr nc T;
  lt_len : length basis = nr;
  lt_bas : forall i, (i < nr)%nat -> (nth i basis 0 < nc - 1)%nat;
  lt_rows : forall i, (i < nr)%nat -> comb_lin nr a nc T0 (rowf T i);
  lt_unit : unit_cols nr nr T basis;
  lt_sol : forall u, solves nr nc T u -> solves nr nc T0 u;
  lt_rhs : forall i, (i < nr)%nat -> 0 <= get T i (nc - 1)%nat
}.

Lemma lhT_nonsing nr nc a T0 T basis c r r' :
  lhT_inv nr nc a T0 T basis -> (r < nr)%nat -> (r' < nr)%nat -> r <> r' ->
  0 < get T r c -> 0 < get T r' c ->
  ~ (forall j, (a <= j < a + nr)%nat -> j <> c -> ratio T c j r == ratio T c j r').
Proof.
  intros Hinv Hr Hr' Hne Hp Hp' Heq.
  set (rho := get T r c / get T r' c).
  assert (Hblk : forall k, (k < nr)%nat -> get T r (a + k)%nat == rho * get T r' (a + k)%nat).
  { intros k Hk. unfold rho. destruct (Nat.eq_dec (a + k) c) as [E|E].
    - rewrite E. field. lra.
    - assert (Hrange : (a <= a + k < a + nr)%nat) by lia.
      pose proof (Heq (a + k)%nat Hrange E) as H. unfold ratio in H.
      setoid_replace (get T r (a + k)%nat) with (get T r (a + k)%nat / get T r c * get T r c) by (field; lra).
      rewrite H. field. lra. }
  pose proof (lt_rows _ _ _ _ _ _ Hinv r Hr) as Rr. pose proof (lt_rows _ _ _ _ _ _ Hinv r' Hr') as Rr'.
  pose proof (lt_bas _ _ _ _ _ _ Hinv r Hr) as Hb.
  assert (Hj : (nth r basis 0 < nc)%nat) by lia.
  pose proof (Rr _ Hj) as E1. pose proof (Rr' _ Hj) as E2. unfold rowf in E1, E2.
  rewrite (lt_unit _ _ _ _ _ _ Hinv r r Hr Hr) in E1. rewrite Nat.eqb_refl in E1.
  rewrite (lt_unit _ _ _ _ _ _ Hinv r r' Hr Hr') in E2. destruct (Nat.eqb_spec r' r); [congruence|].
  rewrite (sumQ_ext nr _ (fun k => rho * ((get T r' (a + k)%nat - 0) * get T0 k (nth r basis 0%nat)))) in E1.
  2:{ intros k Hk. rewrite (Hblk k Hk). ring. }
  rewrite sumQ_scale in E1.
  set (S := sumQ nr (fun k => (get T r' (a + k)%nat - 0) * get T0 k (nth r basis 0%nat))) in *.
  assert (ES : S == 0) by lra. rewrite ES in E1. lra.
Qed.

Lemma lhT_pivot nr nc a T0 T basis c r :
  lhT_inv nr nc a T0 T basis -> (r < nr)%nat -> (c < nc - 1)%nat -> 0 < get T r c ->
  (forall k, (k < nr)%nat -> 0 < get T k c -> ratio T c (nc - 1) r <= ratio T c (nc - 1) k) ->
  lhT_inv nr nc a T0 (pivoting T c r) (set_nth basis r c).
Proof.
  intros [Ha Hwf Hlen Hbas Hrows Hunit Hsol Hrhs] Hr Hc Hp Hmin.
  assert (Hp0 : ~ get T r c == 0) by lra.
  constructor; auto.
  - apply wf_pivoting; auto.
  - now rewrite length_set_nth.
  - intros i Hi. rewrite nth_set_nth. destruct (Nat.eqb i r); [destruct (Nat.ltb r (length basis))|]; auto.
  - intros i Hi. destruct (Nat.eq_dec i r) as [->|Hne].
    + eapply pivoting_comb_lin_pivrow; eauto; lia.
    + eapply pivoting_comb_aff_other; eauto; try lia. apply Hrows; auto.
  - eapply unit_cols_pivoting; eauto; try lia. intros i Hi. specialize (Hbas i Hi). lia.
  - intros u Hu. apply Hsol. eapply solves_pivoting_back; eauto; lia.
  - intros i Hi. eapply (pivoting_rhs_nonneg nr nc nr); eauto; lia.
Qed.

(* the initial polytope is bounded: non-negative coefficients, a positive one in every column *)
Definition bounded_T0 (nr nc : nat) (T0 : matQ) : Prop :=
  (forall i j, (i < nr)%nat -> (j < nc - 1)%nat -> 0 <= get T0 i j) /\
  (forall j, (j < nc - 1)%nat -> exists i, (i < nr)%nat /\ 0 < get T0 i j).

Lemma sumQ_term_le n f j : (forall k, (k < n)%nat -> 0 <= f k) -> (j < n)%nat -> f j <= sumQ n f.
Proof.
  induction n; intros Hf Hj; [lia|]. cbn [sumQ].
  assert (0 <= sumQ n f) by (apply sumQ_nonneg; intros; apply Hf; lia). assert (0 <= f n) by (apply Hf; lia).
  destruct (Nat.eq_dec j n) as [->|]; [lra|].
  assert (f j <= sumQ n f) by (apply IHn; [intros; apply Hf; lia|lia]). lra.
Qed.

Lemma bounded_solution nr nc T0 u j :
  bounded_T0 nr nc T0 -> solves nr nc T0 u -> (forall j, 0 <= u j) -> (j < nc - 1)%nat ->
  exists i, (i < nr)%nat /\ 0 < get T0 i j /\ get T0 i j * u j <= get T0 i (nc - 1)%nat.
Proof.
  intros [Hnn Hpos] Hs Hu Hj. destruct (Hpos j Hj) as (i & Hi & Hp). exists i. split; [auto|split; [auto|]].
  rewrite <- (Hs i Hi). apply (sumQ_term_le (nc - 1) (fun j0 => get T0 i j0 * u j0)); auto.
  intros k Hk. apply Qmult_le_0_compat; auto.
Qed.

(* an entering column without positive entry would give an unbounded feasible half-line *)
Lemma lhT_col_has_pos nr nc a T0 T basis c :
  lhT_inv nr nc a T0 T basis -> bounded_T0 nr nc T0 -> (c < nc - 1)%nat ->
  ~ (forall k, (k < nr)%nat -> get T k c <= 0).
Proof.
  intros Hinv Hb Hc Hnp.
  pose proof (lt_bas _ _ _ _ _ _ Hinv) as Hbas. pose proof (lt_unit _ _ _ _ _ _ Hinv) as Hunit.
  set (ut := fun t j => bsol nr nc T basis j + t * ((if Nat.eqb j c then 1 else 0) - bsolc nr T basis c j)).
  assert (Hsol : forall t, solves nr nc T0 (ut t)).
  { intros t. apply (lt_sol _ _ _ _ _ _ Hinv). intros k Hk. unfold ut.
    rewrite (sumQ_ext _ _ (fun j => 1 * (get T k j * bsol nr nc T basis j)
               + t * ((if Nat.eqb j c then get T k j else 0) + (-1) * (get T k j * bsolc nr T basis c j)))).
    2:{ intros j Hj. destruct (Nat.eqb j c); ring. }
    rewrite sumQ_lin. rewrite sumQ_plus, sumQ_scale, sumQ_delta.
    destruct (Nat.ltb_spec c (nc - 1)); [|lia].
    rewrite (bsolc_row nr (nc - 1) nr T basis c k) by (auto; lia).
    destruct (Nat.ltb_spec k nr); [|lia].
    rewrite (bsol_solves nr nc nr T basis ltac:(lia) Hbas Hunit k) by auto. ring. }
  assert (Hnn : forall t j, 0 <= t -> 0 <= ut t j).
  { intros t j Ht. unfold ut. pose proof (bsol_nonneg nr nc T basis j (lt_rhs _ _ _ _ _ _ Hinv)).
    pose proof (bsolc_nonpos nr T basis c j Hnp).
    assert (0 <= (if Nat.eqb j c then 1 else 0) - bsolc nr T basis c j) by (destruct (Nat.eqb j c); lra). nra. }
  destruct (bounded_solution nr nc T0 (ut 0) c Hb (Hsol 0) (fun j => Hnn 0 j ltac:(lra)) Hc) as (i & Hi & Hp & _).
  set (t := get T0 i (nc - 1)%nat / get T0 i c + 1).
  assert (Hrhs0 : 0 <= get T0 i (nc - 1)%nat).
  { rewrite <- (Hsol 0 i Hi). apply sumQ_nonneg. intros j Hj. apply Qmult_le_0_compat; [apply Hb; auto|apply Hnn; lra]. }
  assert (Ht : 0 <= t).
  { unfold t. assert (0 <= get T0 i (nc - 1)%nat / get T0 i c) by (apply Qle_shift_div_l; lra). lra. }
  assert (Hle : get T0 i c * ut t c <= get T0 i (nc - 1)%nat).
  { rewrite <- (Hsol t i Hi). apply (sumQ_term_le (nc - 1) (fun j0 => get T0 i j0 * ut t j0)); auto.
    intros k Hk. apply Qmult_le_0_compat; [apply Hb; auto|apply Hnn; auto]. }
  assert (Hge : t <= ut t c).
  { unfold ut. rewrite Nat.eqb_refl. pose proof (bsol_nonneg nr nc T basis c (lt_rhs _ _ _ _ _ _ Hinv)).
    pose proof (bsolc_nonpos nr T basis c c Hnp). nra. }
  assert (get T0 i c * t == get T0 i (nc - 1)%nat + get T0 i c) by (unfold t; field; lra).
  nra.
Qed.

(* one Lemke-Howson pivot on this tableau: the row chosen by _lex_min_ratio_test keeps the invariant *)
Lemma lhT_step nr nc a T0 T basis c :
  (0 < nr)%nat -> lhT_inv nr nc a T0 T basis -> bounded_T0 nr nc T0 -> (c < nc - 1)%nat ->
  let r := snd (lex_min_ratio_test T c a 0 0) in
  (r < nr)%nat /\ lhT_inv nr nc a T0 (pivoting T c r) (set_nth basis r c).
Proof.
  intros Hnr Hinv Hb Hc. cbv zeta. unfold lex_min_ratio_test.
  assert (En : nrows T = nr) by (destruct (lt_wf _ _ _ _ _ _ Hinv); auto). rewrite En.
  assert (Enc : ncols T = nc) by (apply (wf_ncols nr); [apply (lt_wf _ _ _ _ _ _ Hinv)|auto]).
  destruct (lex_min_ratio_test_n nr T c a 0 0) as [found r] eqn:E. cbn [snd].
  destruct found.
  - pose proof (lex_min_ratio_test_n_spec _ _ _ _ _ _ _ E) as [Hr Hp].
    pose proof (lex_min_ratio_test_n_min _ _ _ _ _ E) as Hmin. rewrite Enc in Hmin.
    split; [auto|]. apply lhT_pivot; auto.
  - exfalso. apply (lhT_col_has_pos nr nc a T0 T basis c Hinv Hb Hc).
    apply (lex_min_ratio_test_n_complete nr T c a).
    + intros r0 r' Hr0 Hr' Hne Hp Hp' Heq. exact (lhT_nonsing nr nc a T0 T basis c r0 r' Hinv Hr0 Hr' Hne Hp Hp' Heq).
    + rewrite E. reflexivity.
Qed.

(* C05 proofs, part 6: completeness of support enumeration (exact instance).  Every Nash equilibrium whose two
   supports have the same size k and whose two indifference systems are non-singular (unique solution, and the
   certified solver does not give up on them) is yielded by the model's enumeration. *)
From Coq Require Import ZArith QArith List Bool Arith Lia Lqa Setoid.
From QE Require Import Base.Num Base.LinAlg Base.Gauss C16.Model C16.Proofs C16.Proofs2 Base.Pivot
                       C05.Model C05.Proofs C05.Proofs2 C05.Proofs3 C05.Proofs4.
Import ListNotations.
Local Open Scope nat_scope.
Local Open Scope Q_scope.

(* ------------------------------------------------------------------ the indifference system *)
(* z_0..z_{k-1}: probabilities on opp, z_k: the common payoff *)
Definition sys_sol (P : matQ) (own opp : list nat) (k : nat) (z : nat -> Q) : Prop :=
  (forall u, (u < k)%nat -> sumQ k (fun t => lget P (nth u own 0%nat) (nth t opp 0%nat) * z t) - z k == 0) /\
  sumQ k z == 1.
Definition sys_unique (P : matQ) (own opp : list nat) (k : nat) : Prop :=
  forall z z', sys_sol P own opp k z -> sys_sol P own opp k z' -> forall t, (t <= k)%nat -> z t == z' t.
(* the certified Gauss-Jordan solver does not report "singular" *)
Definition sys_solved (P : matQ) (own opp : list nat) : Prop :=
  solve_vec_checked (S (length own)) (fst (indiff_system P own opp)) (snd (indiff_system P own opp)) <> None.

Lemma solve_sys_sol (P : matQ) own opp out : let k := length own in
  solve_vec_checked (S k) (fst (indiff_system P own opp)) (snd (indiff_system P own opp)) = Some out ->
  length out = S k /\ sys_sol P own opp k (lvget out).
Proof.
  intros k Es. unfold indiff_system in Es. fold k in Es. cbn [fst snd] in Es. rewrite pget_lget in Es.
  unfold solve_vec_checked in Es. destruct (solve_checked _ _ _ _) as [X|] eqn:Ec; [|discriminate].
  injection Es as <-. pose proof (solve_checked_correct _ _ _ _ _ Ec) as Hsol.
  set (out := matcol (S k) X 0) in *.
  assert (Hout : forall l, (l < S k)%nat -> lvget out l = lget X l 0).
  { intros l Hl. unfold out, matcol. now rewrite vget_vmk. }
  split; [unfold out, matcol; apply length_vmk|].
  assert (Hrow : forall i, (i < S k)%nat ->
            sumQ (S k) (fun l => lget (mk (S k) (S k) (fun i j => if (i <? k)%nat then if (j <? k)%nat then lget P (nth i own 0%nat) (nth j opp 0%nat) else neg1
                                                          else if (j <? k)%nat then none_ else nzero)) i l * lvget out l)
            == lvget (vmk (S k) (fun i => if (i <? k)%nat then nzero else none_)) i).
  { intros i Hi. specialize (Hsol i 0%nat Hi (Nat.lt_0_1)). rewrite get_mmul in Hsol by (auto; lia).
    unfold colmat in Hsol. rewrite get_mk in Hsol by (auto; lia).
    rewrite <- Hsol. apply sumQ_ext. intros l Hl. now rewrite Hout. }
  split.
  - intros u Hu. specialize (Hrow u (Nat.lt_lt_succ_r _ _ Hu)). rewrite vget_vmk in Hrow by lia.
    destruct (Nat.ltb_spec u k); [|lia]. cbn [sumQ] in Hrow. rewrite get_mk in Hrow by lia.
    destruct (Nat.ltb_spec u k); [|lia]. rewrite Nat.ltb_irrefl in Hrow. rewrite neg1_Q in Hrow.
    rewrite (sumQ_ext k _ (fun t => lget P (nth u own 0%nat) (nth t opp 0%nat) * lvget out t)) in Hrow.
    + change (@nzero Q NumQ) with 0 in Hrow. lra.
    + intros l Hl. rewrite get_mk by lia. destruct (Nat.ltb_spec u k); [|lia]. destruct (Nat.ltb_spec l k); [|lia]. reflexivity.
  - specialize (Hrow k (Nat.lt_succ_diag_r k)). rewrite vget_vmk in Hrow by lia. rewrite Nat.ltb_irrefl in Hrow.
    cbn [sumQ] in Hrow. rewrite get_mk in Hrow by lia. rewrite Nat.ltb_irrefl in Hrow.
    rewrite (sumQ_ext k _ (fun t => lvget out t)) in Hrow.
    + change (@nzero Q NumQ) with 0 in Hrow. change (@none_ Q NumQ) with 1 in Hrow.
      change (sumQ k (fun t => lvget out t) == 1). lra.
    + intros l Hl. rewrite get_mk by lia. rewrite Nat.ltb_irrefl. destruct (Nat.ltb_spec l k); [|lia].
      change (@none_ Q NumQ) with 1. ring.
Qed.

Lemma existsb_seq_false (f : nat -> bool) k : (forall i, (i < k)%nat -> f i = false) -> existsb f (seq 0 k) = false.
Proof.
  intros H. destruct (existsb f (seq 0 k)) eqn:E; [|reflexivity].
  apply existsb_exists in E. destruct E as [i [Hi Hf]]. apply in_seq in Hi. rewrite H in Hf by lia. discriminate.
Qed.

(* if the exact solution of the system is positive and no own action earns more than the common payoff,
   _indiff_mixed_action accepts and returns that solution *)
Theorem indiff_complete (P : matQ) (mrows : nat) (own opp : list nat) (z : nat -> Q) : let k := length own in
  sys_solved P own opp -> sys_unique P own opp k -> sys_sol P own opp k z ->
  (forall t, (t < k)%nat -> 0 < z t) ->
  (forall i, (i < mrows)%nat -> sumQ k (fun t => lget P i (nth t opp 0%nat) * z t) <= z k) ->
  exists a, indiff_mixed_action P mrows own opp = Some a /\ length a = k /\ forall t, (t < k)%nat -> nth t a 0 == z t.
Proof.
  intros k Hsolved Huniq Hz Hpos Hbr. unfold sys_solved in Hsolved.
  destruct (solve_vec_checked _ _ _) as [out|] eqn:Es; [|congruence]. clear Hsolved.
  destruct (solve_sys_sol P own opp out Es) as [Hlen Hout]. fold k in Hlen, Hout.
  assert (Heq : forall t, (t <= k)%nat -> lvget out t == z t) by (intros t Ht; now apply (Huniq _ _ Hout Hz)).
  unfold indiff_mixed_action, indiff_system. unfold indiff_system in Es. cbn [fst snd] in Es. rewrite Es.
  rewrite pvget_lvget, pget_lget.
  rewrite existsb_seq_false.
  2:{ intros i Hi. apply Qle_bool_false. change (@nzero Q NumQ) with 0. rewrite (Heq i) by lia. now apply Hpos. }
  assert (Hnth : forall t, (t < k)%nat -> nth t (firstn k out) 0 == z t).
  { intros t Ht. rewrite nth_firstn_lt by assumption. rewrite <- (Heq t) by lia. reflexivity. }
  assert (Hl : length (firstn k out) = k) by (rewrite firstn_length, Hlen; lia).
  fold k. destruct (Nat.eqb_spec k mrows); [exists (firstn k out); repeat split; auto|].
  rewrite existsb_seq_false; [exists (firstn k out); repeat split; auto|].
  intros i Hi. destruct (existsb (Nat.eqb i) own); [reflexivity|]. cbn [negb andb].
  apply Qltb_false. change (@nzero Q NumQ) with 0.
  rewrite (fold_left_sumQ (fun j => nmul (lget P i (nth j opp 0%nat)) (lvget out j)) k).
  rewrite (sumQ_ext k _ (fun t => lget P i (nth t opp 0%nat) * z t)).
  - rewrite (Heq k) by lia. now apply Hbr.
  - intros t Ht. rewrite nmul_Q, (Heq t) by lia. reflexivity.
Qed.

(* ------------------------------------------------------------------ facts about equilibria *)
Lemma sumQ_nonneg_zero k f : (forall l, (l < k)%nat -> 0 <= f l) -> sumQ k f == 0 -> forall l, (l < k)%nat -> f l == 0.
Proof.
  induction k; intros Hf Hs l Hl; [lia|]. cbn [sumQ] in Hs.
  assert (0 <= sumQ k f) by (apply sumQ_nonneg; intros; apply Hf; lia).
  assert (0 <= f k) by (apply Hf; lia).
  destruct (Nat.eq_dec l k) as [->|]; [lra|]. apply IHk; [intros; apply Hf; lia | lra | lia].
Qed.

(* every action played with positive probability earns the equilibrium payoff *)
Lemma nash_support_indiff m n A B x y : is_nash_fn m n A B x y ->
  (forall i, (i < m)%nat -> 0 < x i -> row_payoff n A y i == sumQ m (fun i' => x i' * row_payoff n A y i')) /\
  (forall j, (j < n)%nat -> 0 < y j -> col_payoff m B x j == sumQ n (fun j' => col_payoff m B x j' * y j')).
Proof.
  intros [[Hx Sx] [[Hy Sy] [H0 H1]]]. split.
  - set (u := sumQ m (fun i' => x i' * row_payoff n A y i')) in *.
    assert (Z : sumQ m (fun i => x i * (u - row_payoff n A y i)) == 0).
    { rewrite (sumQ_ext m _ (fun i => x i * u - x i * row_payoff n A y i)) by (intros; ring).
      rewrite sumQ_sub, sumQ_scale_r, Sx. fold u. ring. }
    intros i Hi Hp.
    pose proof (sumQ_nonneg_zero m _ (fun l Hl => Qmult_le_0_compat _ _ (Hx l Hl) (proj1 (Qle_minus_iff _ _) (H0 l Hl))) Z i Hi) as E.
    cbv beta in E. specialize (H0 i Hi). fold u in H0. nra.
  - set (u := sumQ n (fun j' => col_payoff m B x j' * y j')) in *.
    assert (Z : sumQ n (fun j => y j * (u - col_payoff m B x j)) == 0).
    { rewrite (sumQ_ext n _ (fun j => u * y j - col_payoff m B x j * y j)) by (intros; ring).
      rewrite sumQ_sub, sumQ_scale_l, Sy. fold u. ring. }
    intros j Hj Hp.
    pose proof (sumQ_nonneg_zero n _ (fun l Hl => Qmult_le_0_compat _ _ (Hy l Hl) (proj1 (Qle_minus_iff _ _) (H1 l Hl))) Z j Hj) as E.
    cbv beta in E. specialize (H1 j Hj). fold u in H1. nra.
Qed.

(* ------------------------------------------------------------------ sorted supports *)
Fixpoint sinc (l : list nat) : Prop :=
  match l with
  | [] => True
  | x :: r => match r with [] => True | y :: _ => (x < y)%nat end /\ sinc r
  end.

Lemma sinc_sincr l : sinc l -> sincr (map Z.of_nat l).
Proof.
  induction l as [|x l IH]; intros H; [exact I|]. cbn [map sincr]. destruct H as [H1 H2]. split; [|now apply IH].
  destruct l; cbn [map]; [exact I|lia].
Qed.

Lemma sinc_lt_all x l : sinc (x :: l) -> forall y, In y l -> (x < y)%nat.
Proof.
  revert x. induction l as [|z l IH]; intros x [H1 H2] y Hy; [destruct Hy|].
  destruct Hy as [<-|Hy]; [assumption|]. assert (z < y)%nat by now apply (IH z H2). lia.
Qed.
Lemma sinc_NoDup l : sinc l -> NoDup l.
Proof.
  induction l as [|x l IH]; intros H; constructor.
  - intros Hin. pose proof (sinc_lt_all x l H x Hin). lia.
  - apply IH. apply H.
Qed.

Lemma last_in {A} (l : list A) d : l <> [] -> In (last l d) l.
Proof. induction l as [|x l IH]; [congruence|]. intros _. destruct l; [now left | right; apply IH; discriminate]. Qed.

(* a sorted k-subset of {0..n-1} is one of the supports enumerated through next_k_array *)
Lemma sorted_in_supports n k s : (1 <= k)%nat -> length s = k -> sinc s -> (forall i, In i s -> (i < n)%nat) ->
  In s (supports n k).
Proof.
  intros Hk Hl Hs Hlt. unfold supports. apply in_map_iff. exists (map Z.of_nat s). split.
  - rewrite map_map. rewrite <- (map_id s) at 2. apply map_ext. intros; apply Nat2Z.id.
  - destruct (k_walk_enumerates k (Z.of_nat n) (S (Z.to_nat (binomZ (Z.of_nat n) (Z.of_nat k)))) Hk (Nat.lt_succ_diag_r _)) as [_ [Hin _]].
    apply Hin. split.
    + unfold k_array. rewrite map_length. repeat split; auto; [now apply sinc_sincr|].
      destruct s; cbn; lia.
    + destruct s as [|x s]; [cbn in Hl; lia|].
      assert (Hlast : In (last (map Z.of_nat (x :: s)) 0%Z) (map Z.of_nat (x :: s))) by (apply last_in; discriminate).
      apply in_map_iff in Hlast. destruct Hlast as [i [<- Hi]]. specialize (Hlt i Hi). lia.
Qed.

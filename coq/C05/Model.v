(* C05 model: quantecon/game_theory/lemke_howson.py (_initialize_tableaux, _lemke_howson_tbl,
   _lemke_howson_capping, _get_mixed_actions), support_enumeration.py (_support_enumeration_gen,
   _indiff_mixed_action), vertex_enumeration.py (_ints_arr_to_bits, _vertex_enumeration_gen,
   _get_mixed_actions; Qhull's facets are an INPUT).  pure_nash.py is in PureNash.v.
   A  : payoff matrix of player 0 (m x n), g.payoff_arrays[0]
   Bt : payoff array of player 1 (n x m, own action first), g.payoff_arrays[1]
   Generic over Base.Num.Num; executable definitions only. *)
From Coq Require Import ZArith NArith List Bool Arith.
From QE Require Import Base.Num Base.LinAlg Base.Gauss C16.Model Base.Pivot.
Import ListNotations.
Local Open Scope nat_scope.

(* bounded iteration of a step function without building a unary fuel: at most p steps *)
Section Iter.
Context {S R : Type} (step : S -> S + R).
Fixpoint iter_nat (k : nat) (s : S) : S + R :=
  match k with
  | O => inl s
  | Datatypes.S k' => match step s with inl s' => iter_nat k' s' | inr r => inr r end
  end.
Fixpoint iter_pos (p : positive) (s : S) : S + R :=
  match p with
  | xH => step s
  | xO q => match iter_pos q s with inl s' => iter_pos q s' | inr r => inr r end
  | xI q => match step s with
            | inl s1 => match iter_pos q s1 with inl s2 => iter_pos q s2 | inr r => inr r end
            | inr r => inr r
            end
  end.
End Iter.

Section LH.
Context {T : Type} `{Num T}.
Variables tol_piv tol_ratio_diff : T.      (* pivoting.TOL_PIV, pivoting.TOL_RATIO_DIFF (Gen/Consts.v) *)

Notation mat := (list (list T)).

Definition neg1 : T := nsub nzero none_.
(* payoff_matrices[pl].min() *)
Definition mat_min (M : mat) : T :=
  fold_left (fun acc x => if nltb x acc then x else acc) (concat M) (get M 0 0).
(* consts[pl] = min_ * -1 + 1 if min_ <= 0 else 0 *)
Definition shift_const (M : mat) : T :=
  let mn := mat_min M in if nleb mn nzero then nadd (nmul mn neg1) none_ else nzero.

Definition lhstate := (mat * mat * list nat * list nat)%type.   (* tableaux[0], tableaux[1], bases[0], bases[1] *)

(* _initialize_tableaux *)
Definition init_tableaux (m n : nat) (A Bt : mat) : lhstate :=
  let c0 := shift_const A in
  let c1 := shift_const Bt in
  let t0 := tab n (m + n + 1)
              (fun i j => if j <? m then nadd (get Bt i j) c1
                          else if j <? m + n then (if j - m =? i then none_ else nzero) else none_) in
  let t1 := tab m (m + n + 1)
              (fun i j => if j <? m then (if j =? i then none_ else nzero)
                          else if j <? m + n then nadd (get A i (j - m)) c0 else none_) in
  (t0, t1, map (fun i => m + i) (seq 0 n), seq 0 m).

(* one pass of the inner loop body of _lemke_howson_tbl on tableau pl (false = 0, true = 1):
   returns the new state and the label that left the basis *)
Definition lh_pivot (m : nat) (st : lhstate) (pl : bool) (pivot : nat) : lhstate * nat :=
  let '(t0, t1, b0, b1) := st in
  if pl then
    let r := snd (lex_min_ratio_test t1 pivot 0 tol_piv tol_ratio_diff) in
    ((t0, pivoting t1 pivot r, b0, set_nth b1 r pivot), nth r b1 0)
  else
    let r := snd (lex_min_ratio_test t0 pivot m tol_piv tol_ratio_diff) in
    ((pivoting t0 pivot r, t1, set_nth b0 r pivot, b1), nth r b0 0).

Definition lhrun := (lhstate * bool * nat * Z)%type.           (* state, tableau to pivot, entering label, num_iter *)
Definition lhres := (lhstate * bool * Z)%type.                 (* state, converged, num_iter *)

Definition lh_step (m init_pivot : nat) (max_iter : Z) (s : lhrun) : lhrun + lhres :=
  let '(st, pl, pivot, ni) := s in
  let '(st', pivot') := lh_pivot m st pl pivot in
  let ni' := (ni + 1)%Z in
  if pivot' =? init_pivot then inr (st', true, ni')
  else if (max_iter <=? ni')%Z then inr (st', false, ni')
  else inl (st', negb pl, pivot', ni').

(* _lemke_howson_tbl(tableaux, bases, init_pivot, max_iter); init_player = 1 iff init_pivot is basic in bases[0] *)
Definition lh_tbl (m : nat) (st : lhstate) (init_pivot : nat) (max_iter : Z) : lhres :=
  let '(_, _, b0, _) := st in
  let init_player := existsb (fun k => k =? init_pivot) b0 in
  match iter_pos (lh_step m init_pivot max_iter) (Z.to_pos max_iter) (st, init_player, init_pivot, 0%Z) with
  | inr r => r
  | inl (st', _, _, ni) => (st', false, ni)      (* not reachable: the step itself stops at max_iter *)
  end.

(* _lemke_howson_capping: (state, converged, total_num_iter, init_pivot_used) *)
Fixpoint lh_capping_loop (k : nat) (m n : nat) (A Bt : mat) (init_pivot_curr : nat)
         (max_iter max_iter_curr capping total : Z) : lhstate * bool * Z * nat :=
  match k with
  | O =>
    let '(st, conv, ni) := lh_tbl m (init_tableaux m n A Bt) init_pivot_curr max_iter_curr in
    (st, conv, (total + ni)%Z, init_pivot_curr)
  | S k' =>
    let capping_curr := Z.min max_iter_curr capping in
    let '(st, conv, ni) := lh_tbl m (init_tableaux m n A Bt) init_pivot_curr capping_curr in
    let total' := (total + ni)%Z in
    if conv || (max_iter <=? total')%Z then (st, conv, total', init_pivot_curr)
    else
      let ip := S init_pivot_curr in
      let ip := if m + n <=? ip then ip - (m + n) else ip in
      lh_capping_loop k' m n A Bt ip max_iter (max_iter_curr - ni)%Z capping total'
  end.
Definition lh_capping (m n : nat) (A Bt : mat) (init_pivot : nat) (max_iter capping : Z) :=
  lh_capping_loop (m + n - 1) m n A Bt init_pivot max_iter max_iter capping 0%Z.

(* one half of _get_mixed_actions: labels in [start, stop) basic in tableau t with basis b *)
Definition mixed_part (t : mat) (b : list nat) (start stop : nat) : list T :=
  let last := ncols t - 1 in
  let vals := map (fun i => (nth i b 0, get t i last)) (seq 0 (nrows t)) in
  let inr_ := fun p : nat * T => (start <=? fst p) && (fst p <? stop) in
  let out := tabv (stop - start)
               (fun k => match find (fun p => fst p =? start + k) vals with
                         | Some p => snd p | None => nzero end) in
  let sum_ := fold_left (fun acc p => if inr_ p then nadd acc (snd p) else acc) vals nzero in
  if neqb sum_ nzero then out else map (fun x => ndiv x sum_) out.

Definition lh_mixed_actions (m n : nat) (st : lhstate) : list T * list T :=
  let '(t0, t1, b0, b1) := st in
  (mixed_part t0 b0 0 m, mixed_part t1 b1 m (m + n)).

(* lemke_howson(g, init_pivot, max_iter, capping, full_output=True): NE, converged, num_iter, init *)
Definition lemke_howson (m n : nat) (A Bt : mat) (init_pivot : nat) (max_iter : Z) (capping : option Z) :=
  let cap := match capping with Some c => c | None => max_iter end in
  let '(st, conv, ni, ip) := lh_capping m n A Bt init_pivot max_iter cap in
  (lh_mixed_actions m n st, conv, ni, ip).

(* ------------------------------------------------------------ support enumeration *)
(* _indiff_mixed_action(payoff_matrix, own_supp, opp_supp): the system (read in Fortran order by gesv)
     sum_j P[own_i, opp_j] x_j - v = 0   (i < k),     sum_j x_j = 1
   Some x (the opponent's mixed action on opp_supp) iff non-singular, x > 0 and no own action outside
   own_supp earns more than v *)
Definition indiff_system (P : mat) (own opp : list nat) : mat * list T :=
  let k := length own in
  (mk (S k) (S k) (fun i j => if i <? k then (if j <? k then get P (nth i own 0) (nth j opp 0) else neg1)
                              else (if j <? k then none_ else nzero)),
   vmk (S k) (fun i => if i <? k then nzero else none_)).

Definition solve_vec_checked (n : nat) (M : mat) (b : list T) : option (list T) :=
  match solve_checked n 1 M (colmat n b) with
  | None => None
  | Some X => Some (matcol n X 0)
  end.

Definition indiff_mixed_action (P : mat) (mrows : nat) (own opp : list nat) : option (list T) :=
  let k := length own in
  let '(M, b) := indiff_system P own opp in
  match solve_vec_checked (S k) M b with
  | None => None                                           (* r != 0 *)
  | Some out =>
    if existsb (fun i => nleb (vget out i) nzero) (seq 0 k) then None
    else
      let val := vget out k in
      if k =? mrows then Some (firstn k out)
      else if existsb (fun i => negb (existsb (Nat.eqb i) own) &&
                                nltb val (fold_left (fun acc j => nadd acc (nmul (get P i (nth j opp 0)) (vget out j)))
                                                    (seq 0 k) nzero))
                      (seq 0 mrows)
           then None else Some (firstn k out)
  end.

(* out[p][supp] = action[:-1] on zeros *)
Definition scatter (n : nat) (supp : list nat) (x : list T) : list T :=
  tabv n (fun i => match find (fun p => fst p =? i) (combine supp x) with
                   | Some p => snd p | None => nzero end).

Definition supports (n k : nat) : list (list nat) :=
  map (map Z.to_nat)
      (k_walk (S (Z.to_nat (binomZ (Z.of_nat n) (Z.of_nat k)))) (Z.of_nat n) (zrange (Z.of_nat k))).

(* _support_enumeration_gen, with the acceptance test as a parameter *)
Definition support_enumeration_with (indiff : mat -> nat -> list nat -> list nat -> option (list T))
           (m n : nat) (A Bt : mat) : list (list T * list T) :=
  flat_map (fun k =>
    flat_map (fun s0 =>
      flat_map (fun s1 =>
        match indiff A m s0 s1 with
        | None => []
        | Some a1 =>
          match indiff Bt n s1 s0 with
          | None => []
          | Some a0 => [(scatter m s0 a0, scatter n s1 a1)]
          end
        end) (supports n k)) (supports m k)) (seq 1 (Nat.min m n)).
Definition support_enumeration := support_enumeration_with indiff_mixed_action.

(* separation analysis (not code of the repository): the same test with the two thresholds moved by
   e1 (positivity: reject when x_i <= e1) and e2 (best response: reject when payoff > val + e2).
   e1 = e2 = 0 is the code's test; (eps, -eps) accepts only what is accepted with a margin, (-eps, eps)
   everything that rounding could make the floating-point code accept. *)
Definition indiff_margin (e1 e2 : T) (P : mat) (mrows : nat) (own opp : list nat) : option (list T) :=
  let k := length own in
  let '(M, b) := indiff_system P own opp in
  match solve_vec_checked (S k) M b with
  | None => None
  | Some out =>
    if existsb (fun i => nleb (vget out i) e1) (seq 0 k) then None
    else
      let val := vget out k in
      if k =? mrows then Some (firstn k out)
      else if existsb (fun i => negb (existsb (Nat.eqb i) own) &&
                                nltb (nadd val e2) (fold_left (fun acc j => nadd acc (nmul (get P i (nth j opp 0)) (vget out j)))
                                                    (seq 0 k) nzero))
                      (seq 0 mrows)
           then None else Some (firstn k out)
  end.
Definition support_enumeration_margin (e1 e2 : T) := support_enumeration_with (indiff_margin e1 e2).

(* ------------------------------------------------------------ exact Nash test (specification side, not code of
   the repository): x, y probability vectors, no pure action earns more than the mixed action played *)
Definition nash_checkb (m n : nat) (A Bt : mat) (x y : list T) : bool :=
  let rowp := fun i => nsum n (fun j => nmul (get A i j) (vget y j)) in
  let colp := fun j => nsum m (fun i => nmul (vget x i) (get Bt j i)) in
  let u0 := nsum m (fun i => nmul (vget x i) (rowp i)) in
  let u1 := nsum n (fun j => nmul (colp j) (vget y j)) in
  (length x =? m) && (length y =? n) &&
  forallb (fun i => nleb nzero (vget x i)) (seq 0 m) && neqb (nsum m (vget x)) none_ &&
  forallb (fun j => nleb nzero (vget y j)) (seq 0 n) && neqb (nsum n (vget y)) none_ &&
  forallb (fun i => nleb (rowp i) u0) (seq 0 m) && forallb (fun j => nleb (colp j) u1) (seq 0 n).

(* ------------------------------------------------------------ vertex enumeration (bit masks) *)
(* _ints_arr_to_bits *)
Definition ints_to_bits (l : list N) : N :=
  fold_left (fun acc i => N.lor acc (N.shiftl 1 i)) l 0%N.

(* _get_mixed_actions(labeling_bits, equation_tup, trans_recips) of vertex_enumeration.py *)
Definition ve_part (bits : N) (skip : bool) (start cnt : nat) (eq : list T) (tr : T) : list T :=
  let cst := vget eq (length eq - 1) in
  let out := tabv cnt (fun i => if Bool.eqb (N.testbit bits (N.of_nat (start + i))) skip then nzero
                                else nsub (nmul (vget eq i) tr) cst) in
  let sum_ := fold_left nadd out nzero in
  if neqb sum_ nzero then out else map (fun x => ndiv x sum_) out.
Definition ve_mixed_actions (m n : nat) (bits : N) (eq0 eq1 : list T) (tr0 tr1 : T) : list T * list T :=
  (ve_part bits true 0 m eq0 tr0, ve_part bits false m n eq1 tr1).

(* _vertex_enumeration_gen *)
Definition vertex_enumeration (m n : nat) (lab0 lab1 : list N) (eqs0 eqs1 : mat) (tr0 tr1 : T)
  : list (list T * list T) :=
  let zero0 := N.ones (N.of_nat m) in
  let complete := N.ones (N.of_nat (m + n)) in
  flat_map (fun il0 =>
    let '(i, l0) := il0 in
    if N.eqb l0 zero0 then []
    else match find (fun jl1 => N.eqb (N.lxor l0 (snd jl1)) complete) (combine (seq 0 (length lab1)) lab1) with
         | Some (j, _) => [ve_mixed_actions m n l0 (nth i eqs0 []) (nth j eqs1 []) tr0 tr1]
         | None => []
         end) (combine (seq 0 (length lab0)) lab0).

End LH.

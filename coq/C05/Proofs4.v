(* C05 proofs, part 4: every pair yielded by support enumeration (exact instance) is a Nash equilibrium *)
From Coq Require Import ZArith QArith List Bool Arith Lia Lqa Setoid.
From QE Require Import Base.Num Base.LinAlg Base.Gauss C16.Model Base.Pivot C05.Model C05.Proofs C05.Proofs2 C05.Proofs3.
Import ListNotations.
Local Open Scope nat_scope.
Local Open Scope Q_scope.

(* ------------------------------------------------------------------ scatter *)
Lemma find_combine_notin (s : list nat) (a : list Q) i : ~ In i s ->
  find (fun p : nat * Q => Nat.eqb (fst p) i) (combine s a) = None.
Proof.
  revert a. induction s as [|x s IH]; intros [|y a] H; cbn; try reflexivity.
  destruct (Nat.eqb_spec x i); [exfalso; apply H; now left|]. apply IH. intros Hin. apply H. now right.
Qed.

Lemma find_combine_nth : forall (s : list nat) (a : list Q) t, NoDup s -> length a = length s -> (t < length s)%nat ->
  find (fun p : nat * Q => Nat.eqb (fst p) (nth t s 0%nat)) (combine s a) = Some (nth t s 0%nat, nth t a 0).
Proof.
  induction s as [|x s IH]; intros [|y a] t Hnd Hl Ht; cbn [length] in *; try lia.
  inversion Hnd as [|x' s' Hnot Hnd']; subst. destruct t; cbn [nth combine find fst].
  - now rewrite Nat.eqb_refl.
  - destruct (Nat.eqb_spec x (nth t s 0%nat)) as [E|E].
    + exfalso. apply Hnot. rewrite E. apply nth_In. lia.
    + apply IH; [assumption | lia | lia].
Qed.

Section Scatter.
Variables (n : nat) (s : list nat) (a : list Q).
Hypothesis Hnd : NoDup s.
Hypothesis Hlt : forall x, In x s -> (x < n)%nat.
Hypothesis Hl : length a = length s.

Lemma scatter_in t : (t < length s)%nat -> lvget (scatter n s a) (nth t s 0%nat) = nth t a 0.
Proof.
  intros Ht. unfold scatter, LinAlg.vget. rewrite nth_tabv by (apply Hlt; now apply nth_In).
  now rewrite find_combine_nth.
Qed.
Lemma scatter_notin i : (i < n)%nat -> ~ In i s -> lvget (scatter n s a) i = 0.
Proof. intros Hi Hn. unfold scatter, LinAlg.vget. rewrite nth_tabv by assumption. now rewrite find_combine_notin. Qed.

(* entry j of the scattered vector, as a sum over the support *)
Lemma scatter_as_sum j : (j < n)%nat ->
  lvget (scatter n s a) j == sumQ (length s) (fun t => (if Nat.eqb (nth t s 0%nat) j then 1 else 0) * nth t a 0).
Proof.
  intros Hj. destruct (in_dec Nat.eq_dec j s) as [Hin|Hnot].
  - destruct (In_nth s j 0%nat Hin) as [u [Hu Eu]]. rewrite <- Eu at 1. rewrite scatter_in by assumption.
    rewrite (sumQ_ext (length s) _ (fun t => (if Nat.eqb u t then 1 else 0) * nth t a 0)).
    + now rewrite sumQ_delta_l.
    + intros t Ht. destruct (Nat.eqb_spec (nth t s 0%nat) j) as [E|E]; destruct (Nat.eqb_spec u t) as [E2|E2]; try reflexivity.
      * exfalso. apply E2. rewrite <- Eu in E. apply (proj1 (NoDup_nth s 0%nat) Hnd); auto.
      * exfalso. apply E. now rewrite <- E2.
  - rewrite scatter_notin by assumption.
    rewrite (sumQ_ext (length s) _ (fun _ => 0)); [now rewrite sumQ_zero|].
    intros t Ht. destruct (Nat.eqb_spec (nth t s 0%nat) j) as [E|E]; [|ring].
    exfalso. apply Hnot. rewrite <- E. now apply nth_In.
Qed.

Lemma scatter_sum (F : nat -> Q) :
  sumQ n (fun j => F j * lvget (scatter n s a) j) == sumQ (length s) (fun t => F (nth t s 0%nat) * nth t a 0).
Proof.
  rewrite (sumQ_ext n _ (fun j => sumQ (length s) (fun t => (if Nat.eqb (nth t s 0%nat) j then 1 else 0) * (F j * nth t a 0)))).
  - rewrite sumQ_exchange. apply sumQ_ext. intros t Ht.
    rewrite (sumQ_delta_l n (nth t s 0%nat) (fun j => F j * nth t a 0)) by (apply Hlt; now apply nth_In). reflexivity.
  - intros j Hj. rewrite scatter_as_sum by assumption. rewrite <- sumQ_scale_l. apply sumQ_ext. intros; ring.
Qed.

Lemma scatter_nonneg j : (forall t, (t < length s)%nat -> 0 <= nth t a 0) -> (j < n)%nat -> 0 <= lvget (scatter n s a) j.
Proof.
  intros Hp Hj. destruct (in_dec Nat.eq_dec j s) as [Hin|Hnot].
  - destruct (In_nth s j 0%nat Hin) as [u [Hu Eu]]. rewrite <- Eu. rewrite scatter_in by assumption. now apply Hp.
  - rewrite scatter_notin by assumption. lra.
Qed.
End Scatter.

(* ------------------------------------------------------------------ _indiff_mixed_action *)
Lemma fold_left_sumQ (F : nat -> Q) k :
  fold_left (fun acc j => nadd acc (F j)) (seq 0 k) 0 == sumQ k F.
Proof.
  induction k; [reflexivity|]. rewrite seq_S, fold_left_app. cbn [fold_left plus sumQ].
  rewrite nadd_Q, IHk. reflexivity.
Qed.

Lemma existsb_false_seq (f : nat -> bool) k : existsb f (seq 0 k) = false -> forall i, (i < k)%nat -> f i = false.
Proof.
  intros H i Hi. destruct (f i) eqn:E; [|reflexivity].
  assert (existsb f (seq 0 k) = true) by (apply existsb_exists; exists i; split; [apply in_seq; lia | assumption]).
  congruence.
Qed.

Lemma neg1_Q : @neg1 Q NumQ == - (1). Proof. unfold neg1. rewrite nsub_Q. reflexivity. Qed.

Lemma existsb_eqb_In i l : existsb (Nat.eqb i) l = true <-> In i l.
Proof.
  rewrite existsb_exists. split.
  - intros [x [Hx E]]. apply Nat.eqb_eq in E. now subst.
  - intros H. exists i. split; [assumption | apply Nat.eqb_refl].
Qed.

Lemma nth_firstn_lt {A} : forall k t (l : list A) dd, (t < k)%nat -> nth t (firstn k l) dd = nth t l dd.
Proof. induction k; intros t [|x l] dd H; cbn; try lia; auto. destruct t; auto. apply IHk. lia. Qed.

(* what a successful call certifies: x > 0 on the opponent's support summing to 1, all own-support actions earn val,
   no other own action earns more *)
Theorem indiff_spec (P : matQ) (mrows : nat) (own opp : list nat) (x : list Q) : length opp = length own ->
  NoDup own -> (forall i, In i own -> (i < mrows)%nat) ->
  indiff_mixed_action P mrows own opp = Some x ->
  let k := length own in
  exists val, length x = k /\ (forall t, (t < k)%nat -> 0 < nth t x 0) /\ sumQ k (fun t => nth t x 0) == 1 /\
    (forall u, (u < k)%nat -> sumQ k (fun t => lget P (nth u own 0%nat) (nth t opp 0%nat) * nth t x 0) == val) /\
    (forall i, (i < mrows)%nat -> sumQ k (fun t => lget P i (nth t opp 0%nat) * nth t x 0) <= val).
Proof.
  intros Hlo Hnd Hlt E k. unfold indiff_mixed_action, indiff_system in E. fold k in E.
  rewrite pget_lget, pvget_lvget in E.
  destruct (solve_vec_checked _ _ _) as [out|] eqn:Es; [|discriminate].
  unfold solve_vec_checked in Es. destruct (solve_checked _ _ _ _) as [X|] eqn:Ec; [|discriminate].
  injection Es as <-. pose proof (solve_checked_correct _ _ _ _ _ Ec) as Hsol.
  set (out := matcol (S k) X 0) in *.
  assert (Hout : forall l, (l < S k)%nat -> lvget out l = lget X l 0).
  { intros l Hl. unfold out, matcol. now rewrite vget_vmk. }
  assert (Hlen : length out = S k) by (unfold out, matcol; apply length_vmk).
  (* row equations of the checked solution *)
  assert (Hrow : forall i, (i < S k)%nat ->
            sumQ (S k) (fun l => lget (mk (S k) (S k) (fun i j => if (i <? k)%nat then if (j <? k)%nat then lget P (nth i own 0%nat) (nth j opp 0%nat) else neg1
                                                          else if (j <? k)%nat then none_ else nzero)) i l * lvget out l)
            == lvget (vmk (S k) (fun i => if (i <? k)%nat then nzero else none_)) i).
  { intros i Hi. specialize (Hsol i 0%nat Hi (Nat.lt_0_1)). rewrite get_mmul in Hsol by (auto; lia).
    unfold colmat in Hsol. rewrite get_mk in Hsol by (auto; lia).
    rewrite <- Hsol. apply sumQ_ext. intros l Hl. now rewrite Hout. }
  destruct (existsb (fun i => nleb (lvget out i) nzero) (seq 0 k)) eqn:Epos; [discriminate|].
  assert (Hpos : forall t, (t < k)%nat -> 0 < lvget out t).
  { intros t Ht. pose proof (existsb_false_seq _ _ Epos t Ht) as Hf. cbn beta in Hf. now apply Qle_bool_false in Hf. }
  set (val := lvget out k) in *.
  assert (Hsum1 : sumQ k (fun t => lvget out t) == 1).
  { specialize (Hrow k (Nat.lt_succ_diag_r k)). rewrite vget_vmk in Hrow by lia. rewrite Nat.ltb_irrefl in Hrow.
    cbn [sumQ] in Hrow. rewrite get_mk in Hrow by lia. rewrite Nat.ltb_irrefl in Hrow.
    rewrite (sumQ_ext k _ (fun t => lvget out t)) in Hrow.
    - change (@nzero Q NumQ) with 0 in Hrow. change (@none_ Q NumQ) with 1 in Hrow. lra.
    - intros l Hl. rewrite get_mk by lia. rewrite Nat.ltb_irrefl. destruct (Nat.ltb_spec l k); [|lia].
      change (@none_ Q NumQ) with 1. ring. }
  assert (Hind : forall u, (u < k)%nat -> sumQ k (fun t => lget P (nth u own 0%nat) (nth t opp 0%nat) * lvget out t) == val).
  { intros u Hu. specialize (Hrow u (Nat.lt_lt_succ_r _ _ Hu)). rewrite vget_vmk in Hrow by lia.
    destruct (Nat.ltb_spec u k); [|lia]. cbn [sumQ] in Hrow. rewrite get_mk in Hrow by lia.
    destruct (Nat.ltb_spec u k); [|lia]. rewrite Nat.ltb_irrefl in Hrow. rewrite neg1_Q in Hrow.
    rewrite (sumQ_ext k _ (fun t => lget P (nth u own 0%nat) (nth t opp 0%nat) * lvget out t)) in Hrow.
    - change (@nzero Q NumQ) with 0 in Hrow. fold val in Hrow. lra.
    - intros l Hl. rewrite get_mk by lia. destruct (Nat.ltb_spec u k); [|lia]. destruct (Nat.ltb_spec l k); [|lia]. reflexivity. }
  assert (Hnth : forall t, (t < k)%nat -> nth t (firstn k out) 0 = lvget out t).
  { intros t Ht. unfold LinAlg.vget. change (@nzero Q NumQ) with 0. now apply nth_firstn_lt. }
  assert (Hfin : forall x', x' = firstn k out ->
            (forall i, (i < mrows)%nat -> sumQ k (fun t => lget P i (nth t opp 0%nat) * lvget out t) <= val) ->
            exists val0, length x' = k /\ (forall t, (t < k)%nat -> 0 < nth t x' 0) /\ sumQ k (fun t => nth t x' 0) == 1 /\
              (forall u, (u < k)%nat -> sumQ k (fun t => lget P (nth u own 0%nat) (nth t opp 0%nat) * nth t x' 0) == val0) /\
              (forall i, (i < mrows)%nat -> sumQ k (fun t => lget P i (nth t opp 0%nat) * nth t x' 0) <= val0)).
  { intros x' -> Hbr. exists val. split; [rewrite firstn_length, Hlen; lia|]. split; [intros t Ht; rewrite Hnth by assumption; now apply Hpos|].
    split; [rewrite (sumQ_ext k _ (fun t => lvget out t)) by (intros; now rewrite Hnth); assumption|]. split.
    - intros u Hu. rewrite <- (Hind u Hu). apply sumQ_ext. intros t Ht. now rewrite Hnth.
    - intros i Hi. rewrite (sumQ_ext k _ (fun t => lget P i (nth t opp 0%nat) * lvget out t)) by (intros; now rewrite Hnth).
      now apply Hbr. }
  (* own-support rows earn val; that covers every row when k = mrows *)
  assert (Hown : forall i, In i own -> sumQ k (fun t => lget P i (nth t opp 0%nat) * lvget out t) <= val).
  { intros i Hin. destruct (In_nth own i 0%nat Hin) as [u [Hu <-]]. rewrite (Hind u Hu). lra. }
  destruct (Nat.eqb_spec k mrows) as [Ekm|Ekm].
  - injection E as <-. apply Hfin; [reflexivity|]. intros i Hi. apply Hown.
    assert (Hincl : incl (seq 0 mrows) own).
    { apply NoDup_length_incl; [assumption | rewrite seq_length; fold k; lia |].
      intros z Hz. apply in_seq. specialize (Hlt z Hz). lia. }
    apply Hincl. apply in_seq. lia.
  - destruct (existsb _ (seq 0 mrows)) eqn:Ebr; [discriminate|]. injection E as <-. apply Hfin; [reflexivity|].
    intros i Hi. destruct (in_dec Nat.eq_dec i own) as [Hin|Hnot]; [now apply Hown|].
    pose proof (existsb_false_seq _ _ Ebr i Hi) as Hf. cbn beta in Hf.
    assert (Hne : existsb (Nat.eqb i) own = false).
    { destruct (existsb (Nat.eqb i) own) eqn:E1; [|reflexivity]. apply existsb_eqb_In in E1. contradiction. }
    rewrite Hne in Hf. cbn [negb andb] in Hf. apply Qltb_false in Hf.
    change (@nzero Q NumQ) with 0 in Hf.
    rewrite (fold_left_sumQ (fun j => nmul (lget P i (nth j opp 0%nat)) (lvget out j)) k) in Hf.
    rewrite (sumQ_ext k _ (fun t => lget P i (nth t opp 0%nat) * lvget out t)) in Hf by (intros; apply nmul_Q).
    exact Hf.
Qed.

(* ------------------------------------------------------------------ support enumeration is sound *)
Lemma support_pair_nash m n (A Bt : matQ) k s0 s1 a0 a1 :
  length s0 = k -> NoDup s0 -> (forall i, In i s0 -> (i < m)%nat) ->
  length s1 = k -> NoDup s1 -> (forall j, In j s1 -> (j < n)%nat) ->
  indiff_mixed_action A m s0 s1 = Some a1 -> indiff_mixed_action Bt n s1 s0 = Some a0 ->
  is_nash_fn m n (Af A) (Bf Bt) (lvget (scatter m s0 a0)) (lvget (scatter n s1 a1)).
Proof.
  intros L0 N0 R0 L1 N1 R1 E1 E0.
  destruct (indiff_spec A m s0 s1 a1 (eq_trans L1 (eq_sym L0)) N0 R0 E1) as [v1 [La1 [P1 [S1 [I1 B1]]]]].
  destruct (indiff_spec Bt n s1 s0 a0 (eq_trans L0 (eq_sym L1)) N1 R1 E0) as [v0 [La0 [P0 [S0 [I0 B0]]]]].
  rewrite L0 in *. rewrite L1 in *.
  assert (La0' : length a0 = length s0) by lia. assert (La1' : length a1 = length s1) by lia.
  set (x := scatter m s0 a0). set (y := scatter n s1 a1).
  assert (Erow : forall i, row_payoff n (Af A) (lvget y) i == sumQ k (fun t => lget A i (nth t s1 0%nat) * nth t a1 0)).
  { intros i. unfold row_payoff, y. rewrite (scatter_sum n s1 a1 N1 R1 La1' (fun j => Af A i j)). now rewrite L1. }
  assert (Ecol : forall j, col_payoff m (Bf Bt) (lvget x) j == sumQ k (fun t => lget Bt j (nth t s0 0%nat) * nth t a0 0)).
  { intros j. unfold col_payoff, x.
    rewrite (sumQ_ext m _ (fun i => Bf Bt i j * lvget (scatter m s0 a0) i)) by (intros; ring).
    rewrite (scatter_sum m s0 a0 N0 R0 La0' (fun i => Bf Bt i j)). now rewrite L0. }
  assert (U0 : sumQ m (fun i' => lvget x i' * row_payoff n (Af A) (lvget y) i') == v1).
  { rewrite (sumQ_ext m _ (fun i => row_payoff n (Af A) (lvget y) i * lvget (scatter m s0 a0) i)) by (intros; unfold x; ring).
    rewrite (scatter_sum m s0 a0 N0 R0 La0' (fun i => row_payoff n (Af A) (lvget y) i)). rewrite L0.
    rewrite (sumQ_ext k _ (fun t => v1 * nth t a0 0)).
    - rewrite sumQ_scale_l, S0. ring.
    - intros t Ht. rewrite Erow, (I1 t Ht). reflexivity. }
  assert (U1 : sumQ n (fun j' => col_payoff m (Bf Bt) (lvget x) j' * lvget y j') == v0).
  { unfold y. rewrite (scatter_sum n s1 a1 N1 R1 La1' (fun j => col_payoff m (Bf Bt) (lvget x) j)). rewrite L1.
    rewrite (sumQ_ext k _ (fun t => v0 * nth t a1 0)).
    - rewrite sumQ_scale_l, S1. ring.
    - intros t Ht. rewrite Ecol, (I0 t Ht). reflexivity. }
  unfold is_nash_fn, prob. repeat split.
  - intros i Hi. apply scatter_nonneg; auto. intros t Ht. rewrite L0 in Ht. specialize (P0 t Ht). lra.
  - unfold x. rewrite (sumQ_ext m _ (fun i => 1 * lvget (scatter m s0 a0) i)) by (intros; ring).
    rewrite (scatter_sum m s0 a0 N0 R0 La0' (fun _ => 1)). rewrite L0.
    rewrite (sumQ_ext k _ (fun t => nth t a0 0)) by (intros; ring). exact S0.
  - intros j Hj. apply scatter_nonneg; auto. intros t Ht. rewrite L1 in Ht. specialize (P1 t Ht). lra.
  - unfold y. rewrite (sumQ_ext n _ (fun j => 1 * lvget (scatter n s1 a1) j)) by (intros; ring).
    rewrite (scatter_sum n s1 a1 N1 R1 La1' (fun _ => 1)). rewrite L1.
    rewrite (sumQ_ext k _ (fun t => nth t a1 0)) by (intros; ring). exact S1.
  - intros i Hi. rewrite U0, Erow. now apply B1.
  - intros j Hj. rewrite U1, Ecol. now apply B0.
Qed.

Theorem support_enum_sound m n (A Bt : matQ) x y :
  In (x, y) (support_enumeration m n A Bt) -> is_nash_fn m n (Af A) (Bf Bt) (lvget x) (lvget y).
Proof.
  unfold support_enumeration, support_enumeration_with. intros H.
  apply in_flat_map in H. destruct H as [k [Hk H]]. apply in_seq in Hk.
  apply in_flat_map in H. destruct H as [s0 [Hs0 H]].
  apply in_flat_map in H. destruct H as [s1 [Hs1 H]].
  destruct (indiff_mixed_action A m s0 s1) as [a1|] eqn:E1; [|destruct H].
  destruct (indiff_mixed_action Bt n s1 s0) as [a0|] eqn:E0; [|destruct H].
  destruct H as [H|[]]. injection H as <- <-.
  destruct (supports_spec m k s0) as [L0 [N0 R0]]; [lia | assumption |].
  destruct (supports_spec n k s1) as [L1 [N1 R1]]; [lia | assumption |].
  now apply (support_pair_nash m n A Bt k s0 s1 a0 a1).
Qed.

(* C05 proofs, part 8: support enumeration yields each equilibrium at most once: no two entries of the output
   have the same pair of supports. *)
From Coq Require Import ZArith QArith List Bool Arith Lia Lqa Setoid.
From QE Require Import Base.Num Base.LinAlg Base.Gauss C16.Model C16.Proofs C16.Proofs2 Base.Pivot
                       C05.Model C05.Proofs C05.Proofs2 C05.Proofs3 C05.Proofs4 C05.Proofs6.
Import ListNotations.
Local Open Scope nat_scope.

(* ------------------------------------------------------------------ list lemmas *)
Lemma NoDup_app_disjoint {B} (l1 l2 : list B) : NoDup l1 -> NoDup l2 -> (forall x, In x l1 -> In x l2 -> False) -> NoDup (l1 ++ l2).
Proof.
  induction l1 as [|x l1 IH]; intros H1 H2 Hd; cbn [app]; [assumption|].
  inversion H1 as [|x' l' Hnot H1']; subst. constructor.
  - intros Hin. apply in_app_or in Hin. destruct Hin as [Hin|Hin]; [contradiction|]. apply (Hd x); [now left | assumption].
  - apply IH; [assumption | assumption |]. intros y Hy. apply Hd. now right.
Qed.

Lemma NoDup_flat_map_disjoint {A B} (f : A -> list B) : forall l, NoDup l ->
  (forall a, In a l -> NoDup (f a)) ->
  (forall a b x, In a l -> In b l -> a <> b -> In x (f a) -> In x (f b) -> False) ->
  NoDup (flat_map f l).
Proof.
  induction l as [|a l IH]; intros Hnd Hf Hdis; cbn [flat_map]; [constructor|].
  inversion Hnd as [|a' l' Hnot Hnd']; subst.
  apply NoDup_app_disjoint.
  - apply Hf. now left.
  - apply IH; [assumption | intros; apply Hf; now right |]. intros b c x Hb Hc. apply Hdis; now right.
  - intros x Hx Hx'. apply in_flat_map in Hx'. destruct Hx' as [b [Hb Hxb]].
    apply (Hdis a b x); [now left | now right | | assumption | assumption]. intros ->. contradiction.
Qed.

Lemma NoDup_map_inj_in {A B} (f : A -> B) : forall l, (forall x y, In x l -> In y l -> f x = f y -> x = y) -> NoDup l -> NoDup (map f l).
Proof.
  induction l as [|a l IH]; intros Hinj Hnd; cbn [map]; [constructor|]. inversion Hnd as [|a' l' Hnot Hnd']; subst. constructor.
  - intros Hin. apply in_map_iff in Hin. destruct Hin as [y [Ey Hy]]. apply Hinj in Ey; [subst; contradiction | now right | now left].
  - apply IH; [|assumption]. intros x y Hx Hy. apply Hinj; now right.
Qed.

Lemma flat_map_flat_map {A B C} (f : B -> list C) (g : A -> list B) l :
  flat_map f (flat_map g l) = flat_map (fun x => flat_map f (g x)) l.
Proof. induction l; cbn [flat_map]; [reflexivity|]. now rewrite flat_map_app, IHl. Qed.
Lemma flat_map_map {A B C} (f : B -> list C) (g : A -> B) l : flat_map f (map g l) = flat_map (fun x => f (g x)) l.
Proof. induction l; cbn; [reflexivity|]. now rewrite IHl. Qed.

(* keyed singleton-or-empty flat_map *)
Lemma NoDup_map_key {A B} (g : A -> option B) (h : B -> A) : forall l, NoDup l ->
  (forall a b, In a l -> g a = Some b -> h b = a) ->
  NoDup (map h (flat_map (fun a => match g a with Some b => [b] | None => [] end) l)).
Proof.
  induction l as [|a l IH]; intros Hnd Hk; cbn [flat_map map]; [constructor|].
  inversion Hnd as [|a' l' Hnot Hnd']; subst.
  assert (Hl : NoDup (map h (flat_map (fun a => match g a with Some b => [b] | None => [] end) l)))
    by (apply IH; [assumption | intros; apply Hk; [now right | assumption]]).
  destruct (g a) as [b|] eqn:E; cbn [app map]; [|assumption]. constructor; [|assumption].
  rewrite (Hk a b (or_introl eq_refl) E). intros Hin. apply in_map_iff in Hin. destruct Hin as [b' [Eb Hb']].
  apply in_flat_map in Hb'. destruct Hb' as [a' [Ha' Hb']]. destruct (g a') as [b''|] eqn:E'; [|destruct Hb'].
  destruct Hb' as [<-|[]]. rewrite (Hk a' b'' (or_intror Ha') E') in Eb. subst. contradiction.
Qed.

(* ------------------------------------------------------------------ sorted lists *)
Lemma sinc_ext : forall l1 l2, sinc l1 -> sinc l2 -> (forall i, In i l1 <-> In i l2) -> l1 = l2.
Proof.
  induction l1 as [|x l1 IH]; intros [|y l2] S1 S2 H.
  - reflexivity.
  - exfalso. apply (proj2 (H y)). now left.
  - exfalso. apply (proj1 (H x)). now left.
  - assert (x = y).
    { destruct (proj1 (H x) (or_introl eq_refl)) as [E|Hin]; [now symmetry|].
      destruct (proj2 (H y) (or_introl eq_refl)) as [E|Hin']; [assumption|].
      pose proof (sinc_lt_all y l2 S2 x Hin). pose proof (sinc_lt_all x l1 S1 y Hin'). lia. }
    subst y. f_equal. apply IH; [apply S1 | apply S2 |]. intros i. split; intros Hi.
    + destruct (proj1 (H i) (or_intror Hi)) as [E|Hin]; [|assumption]. rewrite <- E in Hi. pose proof (sinc_lt_all x l1 S1 x Hi). lia.
    + destruct (proj2 (H i) (or_intror Hi)) as [E|Hin]; [|assumption]. rewrite <- E in Hi. pose proof (sinc_lt_all x l2 S2 x Hi). lia.
Qed.

Lemma sinc_filter_seq (f : nat -> bool) : forall n s, sinc (filter f (seq s n)).
Proof.
  induction n; intros s; cbn [seq filter]; [exact I|]. destruct (f s); [|apply IHn].
  cbn [sinc]. split; [|apply IHn]. destruct (filter f (seq (S s) n)) as [|y r] eqn:E; [exact I|].
  assert (Hy : In y (filter f (seq (S s) n))) by (rewrite E; now left). apply filter_In in Hy. destruct Hy as [Hy _]. apply in_seq in Hy. lia.
Qed.

Lemma sincr_sinc_to_nat : forall a, sincr a -> (0 <= hd 0 a)%Z -> sinc (map Z.to_nat a).
Proof.
  induction a as [|x a IH]; intros S H0; [exact I|]. cbn [map sinc]. destruct S as [S1 S2]. cbn [hd] in H0. split.
  - destruct a as [|y a]; [exact I|]. cbn [map]. lia.
  - destruct a as [|y a]; [exact I|]. apply IH; [assumption|]. cbn [hd]. lia.
Qed.

Lemma sincr_nonneg : forall a x, sincr a -> (0 <= hd 0 a)%Z -> In x a -> (0 <= x)%Z.
Proof.
  induction a as [|y a IH]; intros x S H0 Hin; [destruct Hin|]. cbn [hd] in H0. destruct Hin as [<-|Hin]; [assumption|].
  destruct S as [S1 S2]. destruct a as [|z a]; [destruct Hin|]. apply (IH x S2); [cbn [hd]; lia | assumption].
Qed.

(* the enumerated supports: sorted, and no support is listed twice *)
Lemma supports_sinc n k s : (0 < k) -> In s (supports n k) -> sinc s.
Proof.
  intros Hk Hin. unfold supports in Hin. apply in_map_iff in Hin. destruct Hin as [a [<- Ha]].
  destruct (k_walk_enumerates k (Z.of_nat n) (S (Z.to_nat (binomZ (Z.of_nat n) (Z.of_nat k)))) Hk (Nat.lt_succ_diag_r _)) as [_ [Hin _]].
  apply Hin in Ha. destruct Ha as [[_ [_ [S H0]]] _]. now apply sincr_sinc_to_nat.
Qed.

Lemma supports_NoDup n k : (0 < k) -> NoDup (supports n k).
Proof.
  intros Hk. unfold supports.
  destruct (k_walk_enumerates k (Z.of_nat n) (S (Z.to_nat (binomZ (Z.of_nat n) (Z.of_nat k)))) Hk (Nat.lt_succ_diag_r _)) as [_ [Hin Hnd]].
  apply NoDup_map_inj_in; [|exact Hnd]. intros a b Ha Hb E.
  apply Hin in Ha. apply Hin in Hb. destruct Ha as [[_ [_ [Sa Ha0]]] _]. destruct Hb as [[_ [_ [Sb Hb0]]] _].
  assert (Ea : map Z.of_nat (map Z.to_nat a) = a).
  { rewrite map_map. rewrite <- (map_id a) at 2. apply map_ext_in. intros x Hx. apply Z2Nat.id. now apply (sincr_nonneg a x Sa Ha0). }
  assert (Eb : map Z.of_nat (map Z.to_nat b) = b).
  { rewrite map_map. rewrite <- (map_id b) at 2. apply map_ext_in. intros x Hx. apply Z2Nat.id. now apply (sincr_nonneg b x Sb Hb0). }
  rewrite <- Ea, <- Eb, E. reflexivity.
Qed.

(* ------------------------------------------------------------------ supports of the yielded vectors *)
Local Open Scope Q_scope.
Definition supp (m : nat) (x : list Q) : list nat := filter (fun i => Qltb 0 (lvget x i)) (seq 0 m).

Lemma supp_scatter m s a : sinc s -> (forall i, In i s -> (i < m)%nat) -> length a = length s ->
  (forall t, (t < length s)%nat -> 0 < nth t a 0) -> supp m (scatter m s a) = s.
Proof.
  intros Hs Hlt Hl Hpos. apply sinc_ext; [apply sinc_filter_seq | assumption |]. intros i. unfold supp.
  rewrite filter_In, in_seq, Qltb_lt. split.
  - intros [Hi Hp]. destruct (in_dec Nat.eq_dec i s) as [Hin|Hnot]; [assumption|].
    rewrite (scatter_notin m s a i) in Hp by (auto; lia). lra.
  - intros Hin. split; [specialize (Hlt i Hin); lia|]. destruct (In_nth s i 0%nat Hin) as [t [Ht <-]].
    rewrite (scatter_in m s a (sinc_NoDup s Hs) Hlt Hl t Ht). now apply Hpos.
Qed.

Definition suppair (m n : nat) (p : list Q * list Q) : list nat * list nat := (supp m (fst p), supp n (snd p)).

Definition all_support_pairs (m n : nat) : list (list nat * list nat) :=
  flat_map (fun k => flat_map (fun s0 => map (pair s0) (supports n k)) (supports m k)) (seq 1 (Nat.min m n)).

Lemma all_support_pairs_NoDup m n : NoDup (all_support_pairs m n).
Proof.
  unfold all_support_pairs. apply NoDup_flat_map_disjoint; [apply seq_NoDup | |].
  - intros k Hk. apply in_seq in Hk. apply NoDup_flat_map_disjoint; [apply supports_NoDup; lia | |].
    + intros s0 _. apply NoDup_map_inj_in; [intros x y _ _ E; now injection E | apply supports_NoDup; lia].
    + intros s0 s0' x _ _ Hne H1 H2. apply in_map_iff in H1. apply in_map_iff in H2.
      destruct H1 as [? [<- _]]. destruct H2 as [? [E _]]. injection E as E _. congruence.
  - intros k k' [s0 s1] Hk Hk' Hne H1 H2. apply in_seq in Hk. apply in_seq in Hk'.
    apply in_flat_map in H1. apply in_flat_map in H2. destruct H1 as [t0 [Ht0 H1]]. destruct H2 as [t0' [Ht0' H2]].
    apply in_map_iff in H1. apply in_map_iff in H2. destruct H1 as [? [E1 _]]. destruct H2 as [? [E2 _]].
    injection E1 as <- _. injection E2 as <- _.
    destruct (supports_spec m k t0' ltac:(lia) Ht0) as [L _]. destruct (supports_spec m k' t0' ltac:(lia) Ht0') as [L' _]. lia.
Qed.

Definition accept (m n : nat) (A Bt : matQ) (ss : list nat * list nat) : option (list Q * list Q) :=
  match indiff_mixed_action A m (fst ss) (snd ss) with
  | None => None
  | Some a1 => match indiff_mixed_action Bt n (snd ss) (fst ss) with
               | None => None
               | Some a0 => Some (scatter m (fst ss) a0, scatter n (snd ss) a1)
               end
  end.

Lemma support_enumeration_as_pairs m n (A Bt : matQ) :
  support_enumeration m n A Bt =
  flat_map (fun ss => match accept m n A Bt ss with Some p => [p] | None => [] end) (all_support_pairs m n).
Proof.
  unfold support_enumeration, support_enumeration_with, all_support_pairs.
  rewrite flat_map_flat_map. apply flat_map_ext. intros k.
  rewrite flat_map_flat_map. apply flat_map_ext. intros s0.
  rewrite flat_map_map. apply flat_map_ext. intros s1. unfold accept. cbn [fst snd].
  destruct (indiff_mixed_action A m s0 s1); [|reflexivity]. destruct (indiff_mixed_action Bt n s1 s0); reflexivity.
Qed.

(* no two yielded pairs have the same pair of supports *)
Theorem support_enum_once m n (A Bt : matQ) : NoDup (map (suppair m n) (support_enumeration m n A Bt)).
Proof.
  rewrite support_enumeration_as_pairs. apply NoDup_map_key; [apply all_support_pairs_NoDup|].
  intros [s0 s1] p Hin E. unfold all_support_pairs in Hin.
  apply in_flat_map in Hin. destruct Hin as [k [Hk Hin]]. apply in_seq in Hk.
  apply in_flat_map in Hin. destruct Hin as [t0 [Ht0 Hin]]. apply in_map_iff in Hin. destruct Hin as [t1 [Ep Ht1]].
  injection Ep as <- <-.
  destruct (supports_spec m k t0 ltac:(lia) Ht0) as [L0 [N0 R0]]. destruct (supports_spec n k t1 ltac:(lia) Ht1) as [L1 [N1 R1]].
  pose proof (supports_sinc m k t0 ltac:(lia) Ht0) as S0. pose proof (supports_sinc n k t1 ltac:(lia) Ht1) as S1.
  unfold accept in E. cbn [fst snd] in E.
  destruct (indiff_mixed_action A m t0 t1) as [a1|] eqn:E1; [|discriminate].
  destruct (indiff_mixed_action Bt n t1 t0) as [a0|] eqn:E0; [|discriminate]. injection E as <-.
  destruct (indiff_spec A m t0 t1 a1 (eq_trans L1 (eq_sym L0)) N0 R0 E1) as [v1 [La1 [P1 _]]].
  destruct (indiff_spec Bt n t1 t0 a0 (eq_trans L0 (eq_sym L1)) N1 R1 E0) as [v0 [La0 [P0 _]]].
  unfold suppair. cbn [fst snd]. f_equal.
  - apply supp_scatter; auto; [lia | intros t Ht; apply P0; lia].
  - apply supp_scatter; auto; [lia | intros t Ht; apply P1; lia].
Qed.

(* vectors that agree entry by entry have the same support: each equilibrium is yielded at most once *)
Lemma supp_ext m (x x' : list Q) : (forall i, (i < m)%nat -> lvget x i == lvget x' i) -> supp m x = supp m x'.
Proof.
  intros H. unfold supp. apply filter_ext_in. intros i Hi. apply in_seq in Hi.
  destruct (Qltb 0 (lvget x i)) eqn:E1, (Qltb 0 (lvget x' i)) eqn:E2; try reflexivity.
  - apply Qltb_lt in E1. rewrite H in E1 by lia. apply Qltb_lt in E1. congruence.
  - apply Qltb_lt in E2. rewrite <- H in E2 by lia. apply Qltb_lt in E2. congruence.
Qed.

(* C05 proofs, part 2: soundness of the exact Nash test; soundness of support enumeration (Q instance). *)
From Coq Require Import ZArith QArith List Bool Arith Lia Lqa Setoid.
From QE Require Import Base.Num Base.LinAlg Base.Gauss C16.Model Base.Pivot C05.Model C05.Proofs.
Import ListNotations.
Local Open Scope nat_scope.
Local Open Scope Q_scope.

Notation matQ := (list (list Q)).
Notation lget := (@LinAlg.get Q NumQ).
Notation lvget := (@LinAlg.vget Q NumQ).

Lemma pget_lget : @Pivot.get Q NumQ = lget. Proof. reflexivity. Qed.
Lemma pvget_lvget : @Pivot.vget Q NumQ = lvget. Proof. reflexivity. Qed.

Lemma nth_tabv {A} n (f : nat -> A) d i : (i < n)%nat -> nth i (tabv n f) d = f i.
Proof.
  intros Hi. unfold tabv. rewrite nth_indep with (d' := f 0%nat) by (rewrite map_length, seq_length; auto).
  rewrite map_nth. rewrite seq_nth by auto. reflexivity.
Qed.
Lemma length_tabv {A} n (f : nat -> A) : length (tabv n f) = n.
Proof. unfold tabv. now rewrite map_length, seq_length. Qed.

Lemma Qle_bool_true a b : nleb a b = true <-> a <= b. Proof. apply Qle_bool_iff. Qed.
Lemma Qle_bool_false a b : nleb a b = false <-> b < a.
Proof.
  change (nleb a b) with (Qle_bool a b). split.
  - intros E. destruct (Qlt_le_dec b a) as [H|H]; [assumption|]. apply Qle_bool_iff in H. congruence.
  - intros H. destruct (Qle_bool a b) eqn:E; [|reflexivity]. apply Qle_bool_iff in E. lra.
Qed.
Lemma Qltb_false a b : nltb a b = false <-> b <= a.
Proof.
  change (nltb a b) with (Qltb a b). split.
  - intros E. destruct (Qlt_le_dec a b) as [H|H]; [|assumption]. apply Qltb_lt in H. congruence.
  - intros H. destruct (Qltb a b) eqn:E; [|reflexivity]. apply Qltb_lt in E. lra.
Qed.

(* ------------------------------------------------------------------ exact Nash test *)
Definition Af (A : matQ) : nat -> nat -> Q := fun i j => lget A i j.
Definition Bf (Bt : matQ) : nat -> nat -> Q := fun i j => lget Bt j i.

Theorem nash_checkb_sound m n (A Bt : matQ) (x y : list Q) :
  nash_checkb m n A Bt x y = true -> is_nash_fn m n (Af A) (Bf Bt) (lvget x) (lvget y).
Proof.
  unfold nash_checkb. rewrite pget_lget, pvget_lvget. rewrite !andb_true_iff, !forallb_forall.
  intros [[[[[[[_ _] Hx] Sx] Hy] Sy] H0] H1].
  assert (Erow : forall i, nsum n (fun j => nmul (lget A i j) (lvget y j)) == row_payoff n (Af A) (lvget y) i).
  { intros i. rewrite nsum_sumQ. apply sumQ_ext. intros. apply nmul_Q. }
  assert (Ecol : forall j, nsum m (fun i => nmul (lvget x i) (lget Bt j i)) == col_payoff m (Bf Bt) (lvget x) j).
  { intros j. rewrite nsum_sumQ. apply sumQ_ext. intros. apply nmul_Q. }
  unfold is_nash_fn, prob. repeat split.
  - intros i Hi. apply Qle_bool_true. apply Hx. apply in_seq. lia.
  - apply Qeq_bool_iff in Sx. rewrite nsum_sumQ in Sx. exact Sx.
  - intros j Hj. apply Qle_bool_true. apply Hy. apply in_seq. lia.
  - apply Qeq_bool_iff in Sy. rewrite nsum_sumQ in Sy. exact Sy.
  - intros i Hi. specialize (H0 i). rewrite in_seq in H0. specialize (H0 (conj (Nat.le_0_l i) Hi)).
    apply Qle_bool_true in H0. rewrite Erow in H0. rewrite nsum_sumQ in H0.
    rewrite (sumQ_ext m _ (fun i' => lvget x i' * row_payoff n (Af A) (lvget y) i')) in H0; [exact H0|].
    intros l _. rewrite nmul_Q, Erow. reflexivity.
  - intros j Hj. specialize (H1 j). rewrite in_seq in H1. specialize (H1 (conj (Nat.le_0_l j) Hj)).
    apply Qle_bool_true in H1. rewrite Ecol in H1. rewrite nsum_sumQ in H1.
    rewrite (sumQ_ext n _ (fun j' => col_payoff m (Bf Bt) (lvget x) j' * lvget y j')) in H1; [exact H1|].
    intros l _. rewrite nmul_Q, Ecol. reflexivity.
Qed.

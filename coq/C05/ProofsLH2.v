(* C05, Lemke-Howson, part 2 (exact instance, tolerance 0): the two tableaux of lemke_howson satisfy the
   single-tableau invariant of ProofsLH1 from _initialize_tableaux through _lemke_howson_tbl and
   _lemke_howson_capping. *)
From Coq Require Import ZArith QArith List Bool Arith Lia Lqa Setoid Morphisms.
From QE Require Import Base.Num C05.Model C05.Proofs5 Base.Pivot Base.PivotProofs C05.ProofsLH1.
Import ListNotations.
Open Scope Q_scope.

Lemma fold_min_le (l : list Q) a0 :
  let r := fold_left (fun a x => if nltb x a then x else a) l a0 in
  r <= a0 /\ forall x, In x l -> r <= x.
Proof.
  revert a0. induction l as [|y l IH]; intros a0; cbn [fold_left].
  - split; [lra|intros x []].
  - destruct (nltb y a0) eqn:E.
    + apply nltb_lt in E. destruct (IH y) as [H1 H2]. split; [lra|]. intros x [<-|Hx]; auto.
    + apply nltb_false in E. destruct (IH a0) as [H1 H2]. split; [auto|]. intros x [<-|Hx]; auto. lra.
Qed.

(* shifted payoffs are positive *)
Lemma shift_pos r c (M : matQ) i j :
  wf r c M -> (i < r)%nat -> (j < c)%nat -> 0 < get M i j + shift_const M.
Proof.
  intros [Hl Hr] Hi Hj.
  assert (Hmin : mat_min M <= get M i j).
  { unfold mat_min. destruct (fold_min_le (concat M) (get M 0 0)) as [_ H]. apply H.
    apply in_concat. exists (nth i M []). split; [apply nth_In; lia|]. unfold get. apply nth_In. rewrite Hr by auto. auto. }
  unfold shift_const. change (nleb (mat_min M) nzero) with (Qle_bool (mat_min M) 0).
  destruct (Qle_bool (mat_min M) 0) eqn:E.
  - change (nadd (nmul (mat_min M) neg1) none_) with (Qaddr (Qmulr (mat_min M) neg1) 1).
    rewrite Qaddr_eq, Qmulr_eq. change (@neg1 Q NumQ) with (Qsubr 0 1). rewrite Qsubr_eq. lra.
  - apply nleb_false in E. change (@nzero Q NumQ) with 0 in *. lra.
Qed.

Section LH.
Variables (m n : nat) (A Bt : matQ).
Hypothesis Hm : (0 < m)%nat.
Hypothesis Hn : (0 < n)%nat.
Hypothesis HA : wf m n A.
Hypothesis HBt : wf n m Bt.
Let nc := (m + n + 1)%nat.

Definition T00 : matQ := fst (fst (fst (init_tableaux m n A Bt))).
Definition T01 : matQ := snd (fst (fst (init_tableaux m n A Bt))).

Lemma init_tableaux_eq : init_tableaux m n A Bt = (T00, T01, map (fun i => (m + i)%nat) (seq 0 n), seq 0 m).
Proof. reflexivity. Qed.

Lemma wf_T00 : wf n nc T00. Proof. apply wf_tab. Qed.
Lemma wf_T01 : wf m nc T01. Proof. apply wf_tab. Qed.

Lemma T00_entry i j : (i < n)%nat -> (j < nc)%nat ->
  get T00 i j == if Nat.ltb j m then get Bt i j + shift_const Bt
                 else if Nat.ltb j (m + n) then (if Nat.eqb (j - m) i then 1 else 0) else 1.
Proof.
  intros Hi Hj. unfold T00, init_tableaux. cbn [fst]. rewrite get_tab by auto.
  destruct (Nat.ltb j m); [apply Qaddr_eq|]. destruct (Nat.ltb j (m + n)); [destruct (Nat.eqb (j - m) i)|]; reflexivity.
Qed.
Lemma T01_entry i j : (i < m)%nat -> (j < nc)%nat ->
  get T01 i j == if Nat.ltb j m then (if Nat.eqb j i then 1 else 0)
                 else if Nat.ltb j (m + n) then get A i (j - m) + shift_const A else 1.
Proof.
  intros Hi Hj. unfold T01, init_tableaux. cbn [fst snd]. rewrite get_tab by auto.
  destruct (Nat.ltb j m); [destruct (Nat.eqb j i); reflexivity|]. destruct (Nat.ltb j (m + n)); [apply Qaddr_eq|reflexivity].
Qed.

Lemma bounded_T00 : bounded_T0 n nc T00.
Proof.
  split.
  - intros i j Hi Hj. rewrite T00_entry by (auto; unfold nc in *; lia).
    destruct (Nat.ltb_spec j m); [pose proof (shift_pos n m Bt i j HBt Hi ltac:(lia)); lra|].
    destruct (Nat.ltb j (m + n)); [destruct (Nat.eqb (j - m) i)|]; lra.
  - intros j Hj. destruct (Nat.ltb_spec j m) as [H|H].
    + exists 0%nat. split; [auto|]. rewrite T00_entry by (auto; unfold nc in *; lia).
      destruct (Nat.ltb_spec j m); [|lia]. apply (shift_pos n m Bt 0 j HBt); auto.
    + exists (j - m)%nat. split; [unfold nc in *; lia|]. rewrite T00_entry by (unfold nc in *; lia).
      destruct (Nat.ltb_spec j m); [lia|]. destruct (Nat.ltb_spec j (m + n)); [|unfold nc in *; lia].
      rewrite Nat.eqb_refl. lra.
Qed.
Lemma bounded_T01 : bounded_T0 m nc T01.
Proof.
  split.
  - intros i j Hi Hj. rewrite T01_entry by (auto; unfold nc in *; lia).
    destruct (Nat.ltb_spec j m); [destruct (Nat.eqb j i); lra|].
    destruct (Nat.ltb_spec j (m + n)); [|lra]. pose proof (shift_pos m n A i (j - m) HA Hi ltac:(lia)). lra.
  - intros j Hj. destruct (Nat.ltb_spec j m) as [H|H].
    + exists j. split; [auto|]. rewrite T01_entry by (auto; unfold nc in *; lia).
      destruct (Nat.ltb_spec j m); [|lia]. rewrite Nat.eqb_refl. lra.
    + exists 0%nat. split; [auto|]. rewrite T01_entry by (auto; unfold nc in *; lia).
      destruct (Nat.ltb_spec j m); [lia|]. destruct (Nat.ltb_spec j (m + n)); [|unfold nc in *; lia].
      apply (shift_pos m n A 0 (j - m) HA); auto. unfold nc in *; lia.
Qed.

Lemma nth_map_seq i : (i < n)%nat -> nth i (map (fun i => (m + i)%nat) (seq 0 n)) 0%nat = (m + i)%nat.
Proof. intros Hi. rewrite nth_map_lt with (d := 0%nat) by (rewrite seq_length; auto). rewrite seq_nth by auto. reflexivity. Qed.

Lemma init_inv0 : lhT_inv n nc m T00 T00 (map (fun i => (m + i)%nat) (seq 0 n)).
Proof.
  assert (Hid : forall k j, (k < n)%nat -> (j < n)%nat -> get T00 k (m + j)%nat == if Nat.eqb k j then 1 else 0).
  { intros k j Hk Hj. rewrite T00_entry by (auto; unfold nc; lia). destruct (Nat.ltb_spec (m + j) m); [lia|].
    destruct (Nat.ltb_spec (m + j) (m + n)); [|lia]. replace (m + j - m)%nat with j by lia.
    rewrite Nat.eqb_sym. reflexivity. }
  constructor.
  - unfold nc; lia.
  - apply wf_T00.
  - now rewrite map_length, seq_length.
  - intros i Hi. rewrite nth_map_seq by auto. unfold nc; lia.
  - intros i Hi. apply comb_lin_init; auto.
  - intros i k Hi Hk. rewrite nth_map_seq by auto. apply Hid; auto.
  - auto.
  - intros i Hi. rewrite T00_entry by (auto; unfold nc; lia). unfold nc.
    destruct (Nat.ltb_spec (m + n + 1 - 1) m); [lia|]. destruct (Nat.ltb_spec (m + n + 1 - 1) (m + n)); [lia|]. lra.
Qed.
Lemma init_inv1 : lhT_inv m nc 0 T01 T01 (seq 0 m).
Proof.
  assert (Hid : forall k j, (k < m)%nat -> (j < m)%nat -> get T01 k (0 + j)%nat == if Nat.eqb k j then 1 else 0).
  { intros k j Hk Hj. cbn [plus]. rewrite T01_entry by (auto; unfold nc; lia). destruct (Nat.ltb_spec j m); [|lia].
    rewrite Nat.eqb_sym. reflexivity. }
  constructor.
  - unfold nc; lia.
  - apply wf_T01.
  - now rewrite seq_length.
  - intros i Hi. rewrite seq_nth by auto. unfold nc; lia.
  - intros i Hi. apply comb_lin_init; auto.
  - intros i k Hi Hk. rewrite seq_nth by auto. apply (Hid k i); auto.
  - auto.
  - intros i Hi. rewrite T01_entry by (auto; unfold nc; lia). unfold nc.
    destruct (Nat.ltb_spec (m + n + 1 - 1) m); [lia|]. destruct (Nat.ltb_spec (m + n + 1 - 1) (m + n)); [lia|]. lra.
Qed.

(* invariant of a Lemke-Howson state *)
Definition LHI (st : lhstate (T:=Q)) : Prop :=
  let '(t0, t1, b0, b1) := st in lhT_inv n nc m T00 t0 b0 /\ lhT_inv m nc 0 T01 t1 b1.

Lemma LHI_init : LHI (init_tableaux m n A Bt).
Proof. rewrite init_tableaux_eq. split; [apply init_inv0|apply init_inv1]. Qed.

Lemma lh_pivot_inv st pl pivot :
  LHI st -> (pivot < m + n)%nat ->
  let '(st', pivot') := lh_pivot 0 0 m st pl pivot in LHI st' /\ (pivot' < m + n)%nat.
Proof.
  destruct st as [[[t0 t1] b0] b1]. intros [H0 H1] Hp. unfold lh_pivot. destruct pl.
  - destruct (lhT_step m nc 0 T01 t1 b1 pivot Hm H1 bounded_T01 ltac:(unfold nc; lia)) as [Hr Hi].
    split; [split; auto|]. pose proof (lt_bas _ _ _ _ _ _ H1 _ Hr). unfold nc in *; lia.
  - destruct (lhT_step n nc m T00 t0 b0 pivot Hn H0 bounded_T00 ltac:(unfold nc; lia)) as [Hr Hi].
    split; [split; auto|]. pose proof (lt_bas _ _ _ _ _ _ H0 _ Hr). unfold nc in *; lia.
Qed.

Lemma lh_tbl_inv st init_pivot max_iter :
  LHI st -> (init_pivot < m + n)%nat ->
  let '(st', _, _) := lh_tbl 0 0 m st init_pivot max_iter in LHI st'.
Proof.
  intros Hs Hp. unfold lh_tbl. destruct st as [[[t0 t1] b0] b1].
  set (I := fun s : lhrun (T:=Q) => let '(st, _, pivot, _) := s in LHI st /\ (pivot < m + n)%nat).
  set (J := fun r : lhres (T:=Q) => let '(st', _, _) := r in LHI st').
  assert (Hstep : forall s, I s -> match lh_step 0 0 m init_pivot max_iter s with inl s' => I s' | inr r => J r end).
  { intros [[[st pl] pivot] ni] [Hi Hpv]. unfold lh_step.
    pose proof (lh_pivot_inv st pl pivot Hi Hpv) as Hl.
    destruct (lh_pivot 0 0 m st pl pivot) as [st' pivot']. destruct Hl as [Hi' Hp'].
    destruct (Nat.eqb pivot' init_pivot); [exact Hi'|]. destruct (Z.leb max_iter (ni + 1)); [exact Hi'|]. split; auto. }
  pose proof (iter_pos_inv (lh_step 0 0 m init_pivot max_iter) I J Hstep (Z.to_pos max_iter)
                ((t0, t1, b0, b1), existsb (fun k => Nat.eqb k init_pivot) b0, init_pivot, 0%Z)) as Hit.
  assert (Hi : I ((t0, t1, b0, b1), existsb (fun k => Nat.eqb k init_pivot) b0, init_pivot, 0%Z)) by (split; auto).
  specialize (Hit Hi).
  destruct (iter_pos _ _ _) as [[[[st' pl'] pv'] ni']|[[st' conv] ni']]; [destruct Hit; auto|exact Hit].
Qed.

Lemma lh_capping_loop_inv k : forall ip max_iter mic capping total,
  (ip < m + n)%nat ->
  let '(st, _, _, _) := lh_capping_loop 0 0 k m n A Bt ip max_iter mic capping total in LHI st.
Proof.
  induction k as [|k IH]; intros ip max_iter mic capping total Hip; cbn [lh_capping_loop].
  - pose proof (lh_tbl_inv _ ip mic LHI_init Hip) as Ht.
    destruct (lh_tbl 0 0 m (init_tableaux m n A Bt) ip mic) as [[st conv] ni]. exact Ht.
  - pose proof (lh_tbl_inv _ ip (Z.min mic capping) LHI_init Hip) as Ht.
    destruct (lh_tbl 0 0 m (init_tableaux m n A Bt) ip (Z.min mic capping)) as [[st conv] ni].
    destruct (conv || (max_iter <=? total + ni)%Z); [exact Ht|]. apply IH.
    destruct (Nat.leb_spec (m + n) (S ip)); lia.
Qed.
Lemma lh_capping_inv init_pivot max_iter capping :
  (init_pivot < m + n)%nat ->
  let '(st, _, _, _) := lh_capping 0 0 m n A Bt init_pivot max_iter capping in LHI st.
Proof. intros. unfold lh_capping. apply lh_capping_loop_inv. auto. Qed.
End LH.

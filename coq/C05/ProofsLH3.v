(* C05, Lemke-Howson, part 3 (exact instance, tolerance 0): reading the mixed actions off the tableaux;
   converged => Nash equilibrium, or the all-zero pair of the artificial equilibrium. *)
From Coq Require Import ZArith QArith List Bool Arith Lia Lqa Setoid Morphisms Permutation.
From QE Require Import Base.Num Base.LinAlg C05.Model C05.Proofs C05.Proofs2 C05.Proofs5.
From QE Require Import Base.Pivot Base.PivotProofs C05.ProofsLH1 C05.ProofsLH2.
Import ListNotations.
Open Scope Q_scope.

Notation psumQ := PivotProofs.sumQ.
Lemma sumQ_same k f : LinAlg.sumQ k f = psumQ k f.
Proof. induction k; cbn; [reflexivity|]. now rewrite IHk. Qed.

Lemma dec_exists_lt (P : nat -> Prop) n :
  (forall i, {P i} + {~ P i}) -> (exists i, (i < n)%nat /\ P i) \/ (forall i, (i < n)%nat -> ~ P i).
Proof.
  intros Hdec. induction n as [|n IH].
  - right. intros i Hi. lia.
  - destruct IH as [(i & Hi & HP)|Hno].
    + left. exists i. split; [lia|auto].
    + destruct (Hdec n) as [HP|HnP].
      * left. exists n. split; [lia|auto].
      * right. intros i Hi. destruct (Nat.eq_dec i n) as [->|]; auto. apply Hno. lia.
Qed.

(* ------------------------------------------------------------------ one half of _get_mixed_actions *)
Section MixedPart.
Variables (nr nc : nat) (t : matQ) (b : list nat) (start K : nat).
Hypothesis Hnr : (0 < nr)%nat.
Hypothesis Hwf : wf nr nc t.
Hypothesis Hunit : unit_cols nr nr t b.
Let bs := bsol nr nc t b.
Let vals := map (fun i => (nth i b 0%nat, get t i (nc - 1)%nat)) (seq 0 nr).

Lemma find_label l :
  match find (fun p : nat * Q => Nat.eqb (fst p) l) vals with Some p => snd p | None => 0 end == bs l.
Proof.
  destruct (find (fun p : nat * Q => Nat.eqb (fst p) l) vals) as [p|] eqn:E.
  - apply find_some in E. destruct E as [Hin Hl]. apply Nat.eqb_eq in Hl.
    apply in_map_iff in Hin. destruct Hin as (i & <- & Hi). apply in_seq in Hi. cbn [fst snd] in *.
    unfold bs. rewrite <- Hl. symmetry. apply (bsol_basic nr nc nr t b i); auto; lia.
  - unfold bs. symmetry. apply bsol_nonbasic. intros i Hi Hl.
    pose proof (find_none _ _ E (nth i b 0%nat, get t i (nc - 1)%nat)) as Hn. cbn [fst] in Hn.
    rewrite Hl, Nat.eqb_refl in Hn. assert (true = false); [|discriminate]. apply Hn.
    apply in_map_iff. exists i. split; [now rewrite Hl|apply in_seq; lia].
Qed.

Lemma fold_sum_range (f : nat -> nat * Q) (inr_ : nat * Q -> bool) k :
  fold_left (fun acc p => if inr_ p then nadd acc (snd p) else acc) (map f (seq 0 k)) 0
  == psumQ k (fun i => if inr_ (f i) then snd (f i) else 0).
Proof.
  induction k; [reflexivity|]. rewrite seq_S, map_app, fold_left_app. cbn [map fold_left plus psumQ].
  destruct (inr_ (f k)).
  - change (nadd ?a ?b) with (Qaddr a b). rewrite Qaddr_eq, IHk. reflexivity.
  - rewrite IHk. ring.
Qed.

Lemma sum_delta_range bi v :
  psumQ K (fun k => if Nat.eqb bi (start + k) then v else 0) == if Nat.leb start bi && Nat.ltb bi (start + K) then v else 0.
Proof.
  induction K as [|k IH]; cbn [psumQ].
  - destruct (Nat.leb_spec start bi), (Nat.ltb_spec bi (start + 0)); cbn [andb]; try reflexivity; lia.
  - rewrite IH. destruct (Nat.eqb_spec bi (start + k)) as [->|Hne].
    + destruct (Nat.leb_spec start (start + k)); [|lia]. destruct (Nat.ltb_spec (start + k) (start + k)); [lia|].
      destruct (Nat.ltb_spec (start + k) (start + S k)); [|lia]. cbn [andb]. ring.
    + destruct (Nat.leb_spec start bi); cbn [andb]; [|ring].
      destruct (Nat.ltb_spec bi (start + k)), (Nat.ltb_spec bi (start + S k)); try lia; ring.
Qed.

Lemma sum_labels :
  psumQ K (fun k => bs (start + k)%nat)
  == psumQ nr (fun i => if Nat.leb start (nth i b 0%nat) && Nat.ltb (nth i b 0%nat) (start + K) then get t i (nc - 1)%nat else 0).
Proof.
  unfold bs, bsol. rewrite sumQ_swap. apply sumQ_ext. intros i Hi. apply sum_delta_range.
Qed.

Definition labsum : Q := psumQ K (fun k => bs (start + k)%nat).

Lemma mixed_part_spec k : (k < K)%nat ->
  (labsum == 0 -> Pivot.vget (mixed_part t b start (start + K)) k == bs (start + k)%nat) /\
  (~ labsum == 0 -> Pivot.vget (mixed_part t b start (start + K)) k == bs (start + k)%nat / labsum).
Proof.
  intros Hk. unfold mixed_part.
  assert (En : nrows t = nr) by (destruct Hwf; auto).
  assert (Enc : ncols t = nc) by (apply (wf_ncols nr); auto).
  rewrite En, Enc. replace (start + K - start)%nat with K by lia. fold vals.
  assert (Es : fold_left (fun acc (p : nat * Q) => if Nat.leb start (fst p) && Nat.ltb (fst p) (start + K) then nadd acc (snd p) else acc) vals nzero == labsum).
  { unfold vals. change (@nzero Q NumQ) with 0.
    rewrite (fold_sum_range (fun i => (nth i b 0%nat, get t i (nc - 1)%nat)) (fun p => Nat.leb start (fst p) && Nat.ltb (fst p) (start + K)) nr).
    unfold labsum. rewrite sum_labels. apply sumQ_ext. intros i Hi. reflexivity. }
  set (S := fold_left _ vals nzero) in *.
  change (neqb S nzero) with (Qeq_bool S 0).
  split; intros HS.
  - assert (E : Qeq_bool S 0 = true) by (apply Qeq_bool_iff; rewrite Es; auto). rewrite E.
    unfold Pivot.vget. rewrite PivotProofs.nth_tabv by auto. apply find_label.
  - assert (E : Qeq_bool S 0 = false).
    { destruct (Qeq_bool S 0) eqn:E; auto. apply Qeq_bool_iff in E. rewrite Es in E. contradiction. }
    rewrite E. unfold Pivot.vget. rewrite nth_map_lt with (d := 0) by (rewrite PivotProofs.length_tabv; auto).
    rewrite PivotProofs.nth_tabv by auto. change (ndiv ?a ?c) with (Qdivr a c). rewrite Qdivr_eq, find_label, Es. reflexivity.
Qed.
End MixedPart.

Lemma is_nash_fn_ext m n A B x y x' y' :
  (forall i, (i < m)%nat -> x' i == x i) -> (forall j, (j < n)%nat -> y' j == y j) ->
  is_nash_fn m n A B x y -> is_nash_fn m n A B x' y'.
Proof.
  intros Hx Hy (Px & Py & Hr & Hc).
  assert (Er : forall i, row_payoff n A y' i == row_payoff n A y i).
  { intros i. unfold row_payoff. apply LinAlg.sumQ_ext. intros j Hj. rewrite Hy by auto. reflexivity. }
  assert (Ec : forall j, col_payoff m B x' j == col_payoff m B x j).
  { intros j. unfold col_payoff. apply LinAlg.sumQ_ext. intros i Hi. rewrite Hx by auto. reflexivity. }
  split; [|split; [|split]].
  - destruct Px as [P1 P2]. split; [intros i Hi; rewrite Hx by auto; auto|].
    rewrite <- P2. apply LinAlg.sumQ_ext. intros; auto.
  - destruct Py as [P1 P2]. split; [intros j Hj; rewrite Hy by auto; auto|].
    rewrite <- P2. apply LinAlg.sumQ_ext. intros; auto.
  - intros i Hi. rewrite Er. eapply Qle_trans; [apply Hr; auto|]. apply Qle_lteq. right.
    apply LinAlg.sumQ_ext. intros i' Hi'. rewrite Er, Hx by auto. reflexivity.
  - intros j Hj. rewrite Ec. eapply Qle_trans; [apply Hc; auto|]. apply Qle_lteq. right.
    apply LinAlg.sumQ_ext. intros j' Hj'. rewrite Ec, Hy by auto. reflexivity.
Qed.

Lemma nodup_app_disj {A} (l1 l2 : list A) x : NoDup (l1 ++ l2) -> In x l1 -> In x l2 -> False.
Proof.
  induction l1 as [|a l1 IH]; cbn; intros Hnd H1 H2; [auto|]. inversion Hnd; subst.
  destruct H1 as [->|H1]; [apply H3; apply in_or_app; auto|auto].
Qed.

Section Final.
Variables (m n : nat) (A Bt : matQ).
Hypothesis Hm : (0 < m)%nat.
Hypothesis Hn : (0 < n)%nat.
Hypothesis HA : wf m n A.
Hypothesis HBt : wf n m Bt.
Let nc := (m + n + 1)%nat.
Variables (t0 t1 : matQ) (b0 b1 : list nat).
Hypothesis HI : LHI m n A Bt (t0, t1, b0, b1).
Hypothesis Hperm : Permutation (b0 ++ b1) (seq 0 (m + n)).

Let H0 : lhT_inv n nc m (T00 m n A Bt) t0 b0 := proj1 HI.
Let H1 : lhT_inv m nc 0 (T01 m n A Bt) t1 b1 := proj2 HI.
Let u0 := bsol n nc t0 b0.
Let u1 := bsol m nc t1 b1.
Let c0 : Q := shift_const A.
Let c1 : Q := shift_const Bt.

Lemma u0_nonneg l : 0 <= u0 l. Proof. apply bsol_nonneg. apply (lt_rhs _ _ _ _ _ _ H0). Qed.
Lemma u1_nonneg l : 0 <= u1 l. Proof. apply bsol_nonneg. apply (lt_rhs _ _ _ _ _ _ H1). Qed.

Lemma compl l : u0 l * u1 l == 0.
Proof.
  assert (Hnd : NoDup (b0 ++ b1)) by (apply (Permutation_NoDup (Permutation_sym Hperm)), seq_NoDup).
  destruct (in_dec Nat.eq_dec l b0) as [Hin|Hnin].
  - assert (E : u1 l == 0).
    { apply bsol_nonbasic. intros i Hi El. apply (nodup_app_disj b0 b1 l Hnd Hin). rewrite <- El. apply nth_In.
      rewrite (lt_len _ _ _ _ _ _ H1). auto. }
    rewrite E. ring.
  - assert (E : u0 l == 0).
    { apply bsol_nonbasic. intros i Hi El. apply Hnin. rewrite <- El. apply nth_In. rewrite (lt_len _ _ _ _ _ _ H0). auto. }
    rewrite E. ring.
Qed.

Lemma eq0 i : (i < n)%nat -> psumQ m (fun j => u0 j * (get Bt i j + c1)) + u0 (m + i)%nat == 1.
Proof.
  intros Hi.
  assert (Hs : solves n nc (T00 m n A Bt) u0).
  { apply (lt_sol _ _ _ _ _ _ H0). apply (bsol_solves n); [lia|apply (lt_bas _ _ _ _ _ _ H0)|apply (lt_unit _ _ _ _ _ _ H0)]. }
  pose proof (Hs i Hi) as E. replace (nc - 1)%nat with (m + n)%nat in E by (unfold nc; lia).
  rewrite sumQ_split in E.
  rewrite (sumQ_ext m _ (fun j => u0 j * (get Bt i j + c1))) in E.
  2:{ intros j Hj. rewrite T00_entry by (auto; lia). destruct (Nat.ltb_spec j m); [|lia]. unfold c1. ring. }
  rewrite (sumQ_ext n _ (fun j => if Nat.eqb j i then u0 (m + j)%nat else 0)) in E.
  2:{ intros j Hj. rewrite T00_entry by (auto; lia). destruct (Nat.ltb_spec (m + j) m); [lia|].
      destruct (Nat.ltb_spec (m + j) (m + n)); [|lia]. replace (m + j - m)%nat with j by lia. destruct (Nat.eqb j i); ring. }
  rewrite sumQ_delta in E. destruct (Nat.ltb_spec i n); [|lia].
  rewrite T00_entry in E by (auto; lia).
  destruct (Nat.ltb_spec (m + n) m); [lia|]. destruct (Nat.ltb_spec (m + n) (m + n)); [lia|]. exact E.
Qed.
Lemma eq1 i : (i < m)%nat -> u1 i + psumQ n (fun j => (get A i j + c0) * u1 (m + j)%nat) == 1.
Proof.
  intros Hi.
  assert (Hs : solves m nc (T01 m n A Bt) u1).
  { apply (lt_sol _ _ _ _ _ _ H1). apply (bsol_solves m); [lia|apply (lt_bas _ _ _ _ _ _ H1)|apply (lt_unit _ _ _ _ _ _ H1)]. }
  pose proof (Hs i Hi) as E. replace (nc - 1)%nat with (m + n)%nat in E by (unfold nc; lia).
  rewrite sumQ_split in E.
  rewrite (sumQ_ext m _ (fun j => if Nat.eqb j i then u1 j else 0)) in E.
  2:{ intros j Hj. rewrite T01_entry by (auto; lia). destruct (Nat.ltb_spec j m); [|lia]. destruct (Nat.eqb j i); ring. }
  rewrite sumQ_delta in E. destruct (Nat.ltb_spec i m); [|lia].
  rewrite (sumQ_ext n _ (fun j => (get A i j + c0) * u1 (m + j)%nat)) in E.
  2:{ intros j Hj. rewrite T01_entry by (auto; lia). destruct (Nat.ltb_spec (m + j) m); [lia|].
      destruct (Nat.ltb_spec (m + j) (m + n)); [|lia]. replace (m + j - m)%nat with j by lia. unfold c0. ring. }
  rewrite T01_entry in E by (auto; lia).
  destruct (Nat.ltb_spec (m + n) m); [lia|]. destruct (Nat.ltb_spec (m + n) (m + n)); [lia|]. exact E.
Qed.

Definition xt (i : nat) : Q := u0 i.
Definition yt (j : nat) : Q := u1 (m + j)%nat.
Definition Ash : nat -> nat -> Q := fun i j => Af A i j + c0.
Definition Bsh : nat -> nat -> Q := fun i j => Bf Bt i j + c1.

Lemma colp j : (j < n)%nat -> col_payoff m Bsh xt j == 1 - u0 (m + j)%nat.
Proof.
  intros Hj. unfold col_payoff. rewrite sumQ_same. pose proof (eq0 j Hj) as E.
  rewrite (sumQ_ext m (fun i => xt i * Bsh i j) (fun i => u0 i * (get Bt j i + c1))); [lra|].
  intros i Hi. unfold xt, Bsh, Bf. rewrite <- pget_lget. reflexivity.
Qed.
Lemma rowp i : (i < m)%nat -> row_payoff n Ash yt i == 1 - u1 i.
Proof.
  intros Hi. unfold row_payoff. rewrite sumQ_same. pose proof (eq1 i Hi) as E.
  rewrite (sumQ_ext n (fun j => Ash i j * yt j) (fun j => (get A i j + c0) * u1 (m + j)%nat)); [lra|].
  intros j Hj. unfold yt, Ash, Af. rewrite <- pget_lget. reflexivity.
Qed.

Definition Sx : Q := psumQ m xt.
Definition Sy : Q := psumQ n yt.

Lemma sums_cases : (Sx == 0 /\ Sy == 0) \/ (0 < Sx /\ 0 < Sy).
Proof.
  assert (Hx0 : 0 <= Sx) by (apply sumQ_nonneg; intros; apply u0_nonneg).
  assert (Hy0 : 0 <= Sy) by (apply sumQ_nonneg; intros; apply u1_nonneg).
  destruct (Qlt_le_dec 0 Sx) as [Hx|Hx]; destruct (Qlt_le_dec 0 Sy) as [Hy|Hy]; auto.
  - (* Sy = 0: every y label is 0, so every slack r_i = 1 is basic in tableau 1, so x = 0 *)
    exfalso. assert (Hz : forall j, (j < n)%nat -> yt j == 0) by (apply sumQ_nonneg_zero; [intros; apply u1_nonneg|fold Sy; lra]).
    assert (Hxz : forall i, (i < m)%nat -> xt i == 0).
    { intros i Hi. pose proof (eq1 i Hi) as E. rewrite sumQ_zero in E by (intros j Hj; rewrite (Hz j Hj); ring).
      pose proof (compl i) as C. unfold xt. assert (E1 : u1 i == 1) by lra. rewrite E1 in C. lra. }
    assert (Sx == 0) by (apply sumQ_zero; auto). lra.
  - exfalso. assert (Hz : forall i, (i < m)%nat -> xt i == 0) by (apply sumQ_nonneg_zero; [intros; apply u0_nonneg|fold Sx; lra]).
    assert (Hyz : forall j, (j < n)%nat -> yt j == 0).
    { intros j Hj. pose proof (eq0 j Hj) as E. rewrite sumQ_zero in E by (intros i Hi; rewrite (Hz i Hi); ring).
      pose proof (compl (m + j)%nat) as C. unfold yt. assert (E1 : u0 (m + j)%nat == 1) by lra. rewrite E1 in C. lra. }
    assert (Sy == 0) by (apply sumQ_zero; auto). lra.
  - left. split; lra.
Qed.

Lemma nash_shifted : 0 < Sx -> 0 < Sy ->
  is_nash_fn m n (Af A) (Bf Bt) (fun i => xt i / Sx) (fun j => yt j / Sy).
Proof.
  intros Hx Hy. apply (nash_shift_invariant m n (Af A) (Bf Bt) c0 c1). fold Ash Bsh.
  unfold Sx, Sy. rewrite <- !sumQ_same.
  apply complementary_is_nash.
  - intros i Hi. apply u0_nonneg.
  - intros j Hj. apply u1_nonneg.
  - intros j Hj. rewrite colp by auto. pose proof (u0_nonneg (m + j)%nat). lra.
  - intros i Hi. rewrite rowp by auto. pose proof (u1_nonneg i). lra.
  - intros i Hi. rewrite rowp by auto. pose proof (compl i). unfold xt. lra.
  - intros j Hj. rewrite colp by auto. pose proof (compl (m + j)%nat). unfold yt. lra.
  - rewrite sumQ_same. exact Hx.
  - rewrite sumQ_same. exact Hy.
Qed.

Theorem LHI_output :
  let ne := lh_mixed_actions m n (t0, t1, b0, b1) in
  is_nash_fn m n (Af A) (Bf Bt) (lvget (fst ne)) (lvget (snd ne)) \/
  ((forall i, (i < m)%nat -> lvget (fst ne) i == 0) /\ (forall j, (j < n)%nat -> lvget (snd ne) j == 0)).
Proof.
  cbv zeta. unfold lh_mixed_actions. cbn [fst snd]. rewrite <- pvget_lvget.
  pose proof (mixed_part_spec n nc t0 b0 0 m Hn (lt_wf _ _ _ _ _ _ H0) (lt_unit _ _ _ _ _ _ H0)) as Mx.
  pose proof (mixed_part_spec m nc t1 b1 m n Hm (lt_wf _ _ _ _ _ _ H1) (lt_unit _ _ _ _ _ _ H1)) as My.
  change (labsum n nc t0 b0 0 m) with Sx in Mx. change (labsum m nc t1 b1 m n) with Sy in My.
  change (0 + m)%nat with m in Mx.
  destruct sums_cases as [[Ex Ey]|[Px Py]].
  - right. split.
    + intros i Hi. destruct (Mx i Hi) as [M1 _]. rewrite (M1 Ex).
      assert (Hz : forall i, (i < m)%nat -> xt i == 0) by (apply sumQ_nonneg_zero; [intros; apply u0_nonneg|fold Sx; lra]).
      exact (Hz i Hi).
    + intros j Hj. destruct (My j Hj) as [M1 _]. rewrite (M1 Ey).
      assert (Hz : forall j, (j < n)%nat -> yt j == 0) by (apply sumQ_nonneg_zero; [intros; apply u1_nonneg|fold Sy; lra]).
      exact (Hz j Hj).
  - left. apply (is_nash_fn_ext m n _ _ (fun i => xt i / Sx) (fun j => yt j / Sy)); [| |apply nash_shifted; auto].
    + intros i Hi. destruct (Mx i Hi) as [_ M2]. rewrite M2 by lra. reflexivity.
    + intros j Hj. destruct (My j Hj) as [_ M2]. rewrite M2 by lra. reflexivity.
Qed.
End Final.

(* ------------------------------------------------------------------ main theorem *)
Theorem lh_converged_nash (m n : nat) (A Bt : matQ) (init_pivot : nat) (max_iter : Z) (capping : option Z) :
  (0 < m)%nat -> (0 < n)%nat -> wf m n A -> wf n m Bt -> (init_pivot < m + n)%nat ->
  let '(ne, conv, _, _) := lemke_howson (T:=Q) 0 0 m n A Bt init_pivot max_iter capping in
  conv = true ->
  is_nash_fn m n (Af A) (Bf Bt) (lvget (fst ne)) (lvget (snd ne)) \/
  ((forall i, (i < m)%nat -> lvget (fst ne) i == 0) /\ (forall j, (j < n)%nat -> lvget (snd ne) j == 0)).
Proof.
  intros Hm Hn HA HBt Hip. unfold lemke_howson.
  set (cap := match capping with Some c => c | None => max_iter end).
  pose proof (lh_capping_inv m n A Bt Hm Hn HA HBt init_pivot max_iter cap Hip) as Hinv.
  pose proof (lh_converged_complementary_labels (T:=Q) 0 0 m n A Bt init_pivot max_iter cap Hm Hn) as Hlab.
  destruct (lh_capping 0 0 m n A Bt init_pivot max_iter cap) as [[[st conv] ni] ip].
  intros Hc. specialize (Hlab Hc). destruct st as [[[t0 t1] b0] b1].
  eapply LHI_output; eauto.
Qed.

(* C05 proofs: pure_nash_brute returns exactly the pure equilibria, in np.ndindex order (any number of players) *)
From Coq Require Import ZArith QArith List Bool Arith Lia.
From QE Require Import Base.Num C14.Model C14.Proofs C14.Proofs2 C14.Proofs3 C05.PureNash.
Import ListNotations.
Local Open Scope Q_scope.

(* a is a pure Nash equilibrium (tolerance tol): no player gains more than tol by a unilateral change *)
Definition pure_nash_def (g : game Q) (nums : list nat) (tol : Q) (a : list nat) : Prop :=
  forall i k, (i < length nums)%nat -> (k < nth i nums 0)%nat ->
    payoff 0 g (replace_at i k a) i - tol <= payoff 0 g a i.

Theorem pure_nash_brute_exact (g : game Q) nums tol : consistent g nums ->
  (* the list is the sub-list of np.ndindex( *nums_actions) selected by is_nash ... *)
  pure_nash_brute g tol = filter (fun a => is_nash g (map (@Pure Q) a) tol) (indices nums) /\
  (* ... and is_nash selects exactly the profiles satisfying the definition *)
  (forall a, inr nums a -> (is_nash g (map (@Pure Q) a) tol = true <-> pure_nash_def g nums tol a)) /\
  (forall a, In a (pure_nash_brute g tol) <-> inr nums a /\ pure_nash_def g nums tol a).
Proof.
  intros Hc. assert (E : pure_nash_brute g tol = filter (fun a => is_nash g (map (@Pure Q) a) tol) (indices nums)).
  { unfold pure_nash_brute. now rewrite (nums_actions_consistent g nums Hc). }
  split; [exact E|]. split.
  - intros a Ha. now apply is_nash_pure_spec.
  - intros a. rewrite E, filter_In, in_indices. split.
    + intros [Ha Hn]. split; [assumption|]. unfold pure_nash_def. exact (proj1 (is_nash_pure_spec g nums a tol Hc Ha) Hn).
    + intros [Ha Hn]. split; [assumption|]. exact (proj2 (is_nash_pure_spec g nums a tol Hc Ha) Hn).
Qed.

(* C05 proofs, part 7: support_enum_complete *)
From Coq Require Import ZArith QArith List Bool Arith Lia Lqa Setoid.
From QE Require Import Base.Num Base.LinAlg Base.Gauss C16.Model Base.Pivot
                       C05.Model C05.Proofs C05.Proofs2 C05.Proofs3 C05.Proofs4 C05.Proofs6.
Import ListNotations.
Local Open Scope nat_scope.
Local Open Scope Q_scope.

Lemma nth_map_default {A} (f : nat -> A) (l : list nat) t d : (t < length l)%nat -> nth t (map f l) d = f (nth t l 0%nat).
Proof. intros H. rewrite nth_indep with (d' := f 0%nat) by (now rewrite map_length). apply map_nth. Qed.

Section Restrict.
Variables (n : nat) (s : list nat) (y : nat -> Q).
Hypothesis Hs : sinc s.
Hypothesis Hsupp : forall j, In j s <-> (j < n)%nat /\ 0 < y j.
Hypothesis Hy : forall j, (j < n)%nat -> 0 <= y j.

Lemma supp_lt j : In j s -> (j < n)%nat. Proof. intros H. now apply Hsupp in H. Qed.

Lemma restrict_entry j : (j < n)%nat -> lvget (scatter n s (map y s)) j == y j.
Proof.
  intros Hj. destruct (in_dec Nat.eq_dec j s) as [Hin|Hnot].
  - destruct (In_nth s j 0%nat Hin) as [t [Ht <-]].
    rewrite (scatter_in n s (map y s) (sinc_NoDup s Hs) supp_lt (map_length _ _) t Ht).
    now rewrite nth_map_default.
  - rewrite (scatter_notin n s (map y s) j Hj Hnot).
    specialize (Hy j Hj). destruct (Qlt_le_dec 0 (y j)) as [Hp|Hle]; [|lra].
    exfalso. apply Hnot. apply Hsupp. auto.
Qed.

(* sums against y only see the support *)
Lemma restrict_sum (F : nat -> Q) :
  sumQ n (fun j => F j * y j) == sumQ (length s) (fun t => F (nth t s 0%nat) * y (nth t s 0%nat)).
Proof.
  rewrite (sumQ_ext n _ (fun j => F j * lvget (scatter n s (map y s)) j)) by (intros j Hj; now rewrite restrict_entry).
  rewrite (scatter_sum n s (map y s) (sinc_NoDup s Hs) supp_lt (map_length _ _) F).
  apply sumQ_ext. intros t Ht. now rewrite nth_map_default.
Qed.

Lemma supp_length_le : (length s <= n)%nat.
Proof.
  rewrite <- (seq_length n 0). apply NoDup_incl_length; [now apply sinc_NoDup|].
  intros j Hj. apply in_seq. apply supp_lt in Hj. lia.
Qed.

Lemma supp_nonempty : sumQ n y == 1 -> (1 <= length s)%nat.
Proof.
  intros S1. destruct s as [|j r] eqn:E; [|cbn; lia]. exfalso.
  assert (Z : sumQ n y == 0).
  { rewrite (sumQ_ext n _ (fun _ => 0)); [apply sumQ_zero|].
    intros j Hj. specialize (Hy j Hj). destruct (Qlt_le_dec 0 (y j)) as [Hp|Hle]; [|lra].
    exfalso. apply (proj2 (Hsupp j)); auto. }
  rewrite Z in S1. discriminate S1.
Qed.
End Restrict.

Theorem support_enum_complete m n (A Bt : matQ) (x y : nat -> Q) (s0 s1 : list nat) (k : nat) :
  is_nash_fn m n (Af A) (Bf Bt) x y ->
  sinc s0 -> sinc s1 -> length s0 = k -> length s1 = k ->
  (forall i, In i s0 <-> (i < m)%nat /\ 0 < x i) -> (forall j, In j s1 <-> (j < n)%nat /\ 0 < y j) ->
  sys_solved A s0 s1 -> sys_unique A s0 s1 k -> sys_solved Bt s1 s0 -> sys_unique Bt s1 s0 k ->
  exists x' y', In (x', y') (support_enumeration m n A Bt) /\
                (forall i, (i < m)%nat -> lvget x' i == x i) /\ (forall j, (j < n)%nat -> lvget y' j == y j).
Proof.
  intros Hne S0 S1 L0 L1 Hs0 Hs1 So1 Un1 So0 Un0.
  pose proof (nash_support_indiff m n _ _ x y Hne) as [Ind0 Ind1].
  destruct Hne as [[Hx Sx] [[Hy Sy] [H0 H1]]].
  set (u0 := sumQ m (fun i' => x i' * row_payoff n (Af A) y i')) in *.
  set (u1 := sumQ n (fun j' => col_payoff m (Bf Bt) x j' * y j')) in *.
  (* the system of player 0's payoffs: solution y on s1 *)
  set (z1 := fun t => if (t <? k)%nat then y (nth t s1 0%nat) else u0).
  set (z0 := fun t => if (t <? k)%nat then x (nth t s0 0%nat) else u1).
  assert (Erow : forall i, row_payoff n (Af A) y i == sumQ k (fun t => lget A i (nth t s1 0%nat) * z1 t)).
  { intros i. unfold row_payoff. rewrite (restrict_sum n s1 y S1 Hs1 Hy (fun j => Af A i j)), L1.
    apply sumQ_ext. intros t Ht. unfold z1. destruct (Nat.ltb_spec t k); [reflexivity|lia]. }
  assert (Ecol : forall j, col_payoff m (Bf Bt) x j == sumQ k (fun t => lget Bt j (nth t s0 0%nat) * z0 t)).
  { intros j. unfold col_payoff. rewrite (sumQ_ext m _ (fun i => Bf Bt i j * x i)) by (intros; ring).
    rewrite (restrict_sum m s0 x S0 Hs0 Hx (fun i => Bf Bt i j)), L0.
    apply sumQ_ext. intros t Ht. unfold z0. destruct (Nat.ltb_spec t k); [reflexivity|lia]. }
  assert (Ez1k : z1 k = u0) by (unfold z1; now rewrite Nat.ltb_irrefl).
  assert (Ez0k : z0 k = u1) by (unfold z0; now rewrite Nat.ltb_irrefl).
  assert (Sol1 : sys_sol A s0 s1 k z1).
  { split.
    - intros u Hu. rewrite <- Erow, Ez1k.
      assert (Hin : In (nth u s0 0%nat) s0) by (apply nth_In; lia). apply Hs0 in Hin. destruct Hin as [Hlt Hp].
      rewrite (Ind0 _ Hlt Hp). fold u0. ring.
    - rewrite (sumQ_ext k _ (fun t => 1 * y (nth t s1 0%nat))).
      + rewrite <- L1. rewrite <- (restrict_sum n s1 y S1 Hs1 Hy (fun _ => 1)).
        rewrite (sumQ_ext n _ y) by (intros; ring). exact Sy.
      + intros t Ht. unfold z1. destruct (Nat.ltb_spec t k); [ring|lia]. }
  assert (Sol0 : sys_sol Bt s1 s0 k z0).
  { split.
    - intros u Hu. rewrite <- Ecol, Ez0k.
      assert (Hin : In (nth u s1 0%nat) s1) by (apply nth_In; lia). apply Hs1 in Hin. destruct Hin as [Hlt Hp].
      rewrite (Ind1 _ Hlt Hp). fold u1. ring.
    - rewrite (sumQ_ext k _ (fun t => 1 * x (nth t s0 0%nat))).
      + rewrite <- L0. rewrite <- (restrict_sum m s0 x S0 Hs0 Hx (fun _ => 1)).
        rewrite (sumQ_ext m _ x) by (intros; ring). exact Sx.
      + intros t Ht. unfold z0. destruct (Nat.ltb_spec t k); [ring|lia]. }
  assert (Pos1 : forall t, (t < k)%nat -> 0 < z1 t).
  { intros t Ht. unfold z1. destruct (Nat.ltb_spec t k); [|lia].
    assert (Hin : In (nth t s1 0%nat) s1) by (apply nth_In; lia). now apply Hs1 in Hin. }
  assert (Pos0 : forall t, (t < k)%nat -> 0 < z0 t).
  { intros t Ht. unfold z0. destruct (Nat.ltb_spec t k); [|lia].
    assert (Hin : In (nth t s0 0%nat) s0) by (apply nth_In; lia). now apply Hs0 in Hin. }
  pose proof (indiff_complete A m s0 s1 z1) as IC1. cbv zeta in IC1. rewrite L0 in IC1.
  destruct (IC1 So1 Un1 Sol1 Pos1) as [a1 [E1 [La1 Na1]]].
  { intros i Hi. rewrite <- Erow, Ez1k. now apply H0. }
  pose proof (indiff_complete Bt n s1 s0 z0) as IC0. cbv zeta in IC0. rewrite L1 in IC0.
  destruct (IC0 So0 Un0 Sol0 Pos0) as [a0 [E0 [La0 Na0]]].
  { intros j Hj. rewrite <- Ecol, Ez0k. now apply H1. }
  exists (scatter m s0 a0), (scatter n s1 a1). split; [|split].
  - unfold support_enumeration, support_enumeration_with.
    assert (K1 : (1 <= k)%nat) by (rewrite <- L0; now apply (supp_nonempty m s0 x S0 Hs0 Hx)).
    apply in_flat_map. exists k. split.
    { apply in_seq. pose proof (supp_length_le m s0 x S0 Hs0). pose proof (supp_length_le n s1 y S1 Hs1). lia. }
    apply in_flat_map. exists s0. split; [apply sorted_in_supports; auto; intros i Hi; now apply Hs0 in Hi|].
    apply in_flat_map. exists s1. split; [apply sorted_in_supports; auto; intros j Hj; now apply Hs1 in Hj|].
    rewrite E1, E0. now left.
  - intros i Hi. destruct (in_dec Nat.eq_dec i s0) as [Hin|Hnot].
    + destruct (In_nth s0 i 0%nat Hin) as [t [Ht <-]].
      rewrite (scatter_in m s0 a0 (sinc_NoDup s0 S0) (supp_lt m s0 x Hs0)) by lia.
      rewrite Na0 by lia. unfold z0. destruct (Nat.ltb_spec t k); [reflexivity|lia].
    + rewrite (scatter_notin m s0 a0 i Hi Hnot). specialize (Hx i Hi).
      destruct (Qlt_le_dec 0 (x i)) as [Hp|Hle]; [|lra]. exfalso. apply Hnot. apply Hs0. auto.
  - intros j Hj. destruct (in_dec Nat.eq_dec j s1) as [Hin|Hnot].
    + destruct (In_nth s1 j 0%nat Hin) as [t [Ht <-]].
      rewrite (scatter_in n s1 a1 (sinc_NoDup s1 S1) (supp_lt n s1 y Hs1)) by lia.
      rewrite Na1 by lia. unfold z1. destruct (Nat.ltb_spec t k); [reflexivity|lia].
    + rewrite (scatter_notin n s1 a1 j Hj Hnot). specialize (Hy j Hj).
      destruct (Qlt_le_dec 0 (y j)) as [Hp|Hle]; [|lra]. exfalso. apply Hnot. apply Hs1. auto.
Qed.

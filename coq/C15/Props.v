(* C15 property theorems: statements only, each closed by `exact`, with Print Assumptions. *)
From Coq Require Import ZArith QArith Qabs List Bool Lia Lqa.
From QE Require Import Base.Num C15.Model C15.Proofs C15.Proofs2 C15.Proofs3.
Import ListNotations.

(* compute_fixed_point(method='iteration') on any space V with a pseudo-metric dist (the code's error functional
   max|a-b|) and any operator T that is Lipschitz with constant L: if the routine returns WITHOUT the warning, the
   returned v is T(v_k) for an iterate whose residual passed the test, its own residual is <= L*tol (<= tol when
   T is non-expansive), and for a contraction it lies within tol/(1-L) of every fixed point. *)
Theorem C15_iteration_residual :
  forall (V : Type) (Top : V -> V) (dist : V -> V -> Q),
  (forall x y, dist x y == dist y x) ->
  (forall x y z, dist x z <= dist x y + dist y z) ->
  forall L : Q, 0 <= L -> (forall x y, dist (Top x) (Top y) <= L * dist x y) ->
  forall (v0 : V) (tol : Q) (max_iter : Z) (v : V) (it : Z),
  compute_fixed_point Top dist v0 tol max_iter = FPRes v it false ->
  exists vk, v = Top vk /\ dist (Top vk) vk <= tol /\
             dist (Top v) v <= L * tol /\
             (L <= 1 -> dist (Top v) v <= tol) /\
             (forall vs, Top vs = vs -> L < 1 -> dist v vs * (1 - L) <= L * tol /\ dist v vs <= tol / (1 - L)).
Proof. exact (@iteration_residual). Qed.
Print Assumptions C15_iteration_residual.

(* the model's fuel (= max_iter) is never exhausted: a result is always produced after 1..max_iter applications *)
Theorem C15_iteration_total :
  forall (V : Type) (Top : V -> V) (dist : V -> V -> Q) (v0 : V) (tol : Q) (max_iter : Z),
  (1 <= max_iter)%Z ->
  exists v it w, compute_fixed_point Top dist v0 tol max_iter = FPRes v it w /\ (1 <= it <= max_iter)%Z.
Proof. exact (@iteration_total). Qed.
Print Assumptions C15_iteration_total.

(* the hypotheses are satisfiable: T(x) = x/2 + 1 on Q with dist = |x - y| is a contraction with L = 1/2 *)
Example ex_iteration_hypotheses :
  let Top := fun x : Q => x / 2 + 1 in
  let dist := fun x y : Q => Qabs (x - y) in
  (forall x y, dist x y == dist y x) /\ (forall x y z, dist x z <= dist x y + dist y z) /\
  (forall x y, dist (Top x) (Top y) <= (1 # 2) * dist x y) /\
  exists v it, compute_fixed_point Top dist 10 (1 # 100) 50 = FPRes v it false.
Proof.
  cbv zeta. repeat split.
  - intros x y. rewrite <- (Qabs_opp (x - y)). apply Qabs_wd. ring.
  - intros x y z. setoid_replace (x - z) with ((x - y) + (y - z)) by ring. apply Qabs_triangle.
  - intros x y. setoid_replace (x / 2 + 1 - (y / 2 + 1)) with ((1 # 2) * (x - y)) by field.
    rewrite Qabs_Qmult. apply Qle_refl.
  - eexists. eexists. vm_compute. reflexivity.
Qed.

(* finding D7: for the expansive T(x) = min(2x,1), v0 = 9/10000, tol = 1/1000 the routine returns, without
   warning, a point whose residual 18/10000 exceeds the tolerance *)
Theorem C15_iteration_residual_refuted :
  exists v it, compute_fixed_point d7_T d7_dist [9 # 10000] (1 # 1000) 50 = FPRes v it false /\
               Qle_bool (d7_dist (d7_T v) v) (1 # 1000) = false /\ d7_dist (d7_T v) v == 18 # 10000.
Proof. exact iteration_residual_refuted. Qed.
Print Assumptions C15_iteration_residual_refuted.

(* the predicate mclennan_tourky evaluates at the returned point (g.is_nash(profile, tol=epsilon) on the
   unflattened vector): true iff for every player no entry of the code's payoff vector (= expected payoff of a
   pure action against the opponents' mixed actions) exceeds the player's current payoff by more than epsilon *)
Theorem C15_mt_converged_eps_nash_check : forall (g : list (list Q)) (nums : list nat) (x : list Q) (eps : Q),
  let prof := unflatten nums x in
  let pv i := payoff_vector (nth i g []) (opponents i prof) in
  (forall i, (i < length g)%nat -> pv i <> []) ->
  (is_epsilon_nash g nums x eps = true <->
   forall i, (i < length g)%nat -> forall u, In u (pv i) -> u - dot (nth i prof []) (pv i) <= eps).
Proof. exact mt_converged_eps_nash_check. Qed.
Print Assumptions C15_mt_converged_eps_nash_check.

(* any number of players: entry r of the code's payoff vector (repeated dot with the opponents' mixed actions on
   the last axis of the C-ordered payoff array, last opponent first) is the multilinear expected payoff
   sum_{a_1} s_1(a_1) ... sum_{a_m} s_m(a_m) flat[((r k_1 + a_1) k_2 + a_2) ... + a_m]  (`expect`, Proofs2.v),
   provided the array has n * k_1 * ... * k_m entries and every opponent has at least one action *)
Theorem C15_payoff_vector_expect : forall (flat : list Q) (opps : list (list Q)) (n r : nat),
  shape_ok n (rev opps) (length flat) ->
  nth r (payoff_vector flat opps) 0 == expect (rev opps) (fun i => nth i flat 0) r /\
  length (payoff_vector flat opps) = n.
Proof. exact payoff_vector_expect. Qed.
Print Assumptions C15_payoff_vector_expect.

Example ex_shape_ok :   (* a 2 x 3 x 2 array against mixed actions of lengths 3 and 2 *)
  shape_ok 2 (rev [[1 # 3; 1 # 3; 1 # 3]; [1 # 2; 1 # 2]]) (length [1; 2; 3; 4; 5; 6; 7; 8; 9; 10; 11; 12]) /\
  payoff_vector (T := Q) [1; 2; 3; 4; 5; 6; 7; 8; 9; 10; 11; 12] [[1 # 3; 1 # 3; 1 # 3]; [1 # 2; 1 # 2]] = [7 # 2; 19 # 2].
Proof.
  split; [|vm_compute; reflexivity].
  simpl. split; [lia|]. exists 6%nat. split; [reflexivity|]. split; [lia|]. exists 2%nat. split; reflexivity.
Qed.

(* imitation-game method, any operator, any predicate, EVERY arithmetic instance: the run always ends (fuel = max_iter
   suffices) and the returned flag is the predicate evaluated AT the returned point; a false flag means max_iter was hit *)
Theorem C15_ig_converged_residual : forall (T : Type) (NT : Num T) (tol_piv tol_ratio_diff : T)
    (Top : list T -> list T) (is_approx_fp : list T -> bool) (v : list T) (max_iter : Z),
  (1 <= max_iter)%Z ->
  exists x cv it, compute_fixed_point_ig tol_piv tol_ratio_diff Top is_approx_fp v max_iter = Some (x, cv, it) /\
    cv = is_approx_fp x /\ (1 <= it)%Z /\ (cv = false -> (max_iter <= it)%Z).
Proof. exact (@ig_converged_residual). Qed.
Print Assumptions C15_ig_converged_residual.

(* compute_fixed_point(method='imitation_game') without warning: max|T(v) - v| <= error_tol at the returned v *)
Theorem C15_igm_converged_residual : forall (T : Type) (NT : Num T) (tol_piv tol_ratio_diff : T) (nabs : T -> T)
    (Top : list T -> list T) (v : list T) (tol : T) (max_iter : Z) (x : list T) (it : Z),
  compute_fixed_point_igm tol_piv tol_ratio_diff nabs Top v tol max_iter = Some (x, true, it) ->
  nleb (supdist nabs (Top x) x) tol = true.
Proof. exact (@igm_converged_residual). Qed.
Print Assumptions C15_igm_converged_residual.

(* mclennan_tourky end to end (exact rationals): converged = true implies the epsilon-Nash inequalities at the
   returned profile, for every player and every pure deviation (entries of the payoff vector = expected payoffs) *)
Theorem C15_mt_converged_eps_nash : forall (tol_piv tol_ratio_diff : Q) (g : list (list Q)) (nums : list nat)
    (x_init : list Q) (eps br_tol : Q) (max_iter : Z) (x : list Q) (it : Z),
  mclennan_tourky tol_piv tol_ratio_diff g nums x_init eps br_tol max_iter = Some (x, true, it) ->
  let prof := unflatten nums x in
  let pv i := payoff_vector (nth i g []) (opponents i prof) in
  (forall i, (i < length g)%nat -> pv i <> []) ->
  forall i, (i < length g)%nat -> forall u, In u (pv i) -> (u - dot (nth i prof []) (pv i) <= eps)%Q.
Proof. exact mt_converged_eps_nash. Qed.
Print Assumptions C15_mt_converged_eps_nash.

Example ex_mt_run :   (* matching pennies from the pure profile (0,0), epsilon = 1/100: converges to the uniform profile *)
  exists x it, mclennan_tourky (1 # 10000000000)%Q (1 # 1000000000000000)%Q [[1; -1; -1; 1]; [-1; 1; 1; -1]] [2; 2]%nat
                 [1; 0; 1; 0] (1 # 100) (1 # 100000000) 200 = Some (x, true, it) /\ (2 <= it)%Z.
Proof. do 2 eexists. vm_compute. split; [reflexivity|discriminate]. Qed.

Example ex_mt_check :   (* matching pennies at the uniform profile, epsilon = 0 *)
  is_epsilon_nash (T := Q) [[1; -1; -1; 1]; [-1; 1; 1; -1]] [2; 2]%nat [1 # 2; 1 # 2; 1 # 2; 1 # 2] 0 = true /\
  is_epsilon_nash (T := Q) [[1; -1; -1; 1]; [-1; 1; 1; -1]] [2; 2]%nat [1; 0; 1 # 2; 1 # 2] 1 = true /\
  is_epsilon_nash (T := Q) [[1; -1; -1; 1]; [-1; 1; 1; -1]] [2; 2]%nat [1; 0; 1; 0] (1 # 10) = false.
Proof. vm_compute. repeat split. Qed.

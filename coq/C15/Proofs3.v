(* C15 proofs, part 3: the imitation-game method and mclennan_tourky on top of it.
   `converged` is the value of the approximate-fixed-point predicate AT THE RETURNED POINT (the Lemke-Howson
   flag that overwrites the variable inside the loop is never the one returned), for any operator, any predicate,
   any arithmetic instance; for mclennan_tourky this gives the epsilon-Nash test at the returned profile. *)
From Coq Require Import ZArith QArith List Bool Lia.
From QE Require Import Base.Num Base.Pivot C05.Model C15.Model C15.Proofs.
Import ListNotations.

Section IG.
Context {T : Type} {NT : Num T}.
Variables tol_piv tol_ratio_diff : T.
Variable Top : list T -> list T.
Variable is_approx_fp : list T -> bool.

Lemma ig_loop_spec : forall fuel it X Y x mi x' cv it',
  ig_loop tol_piv tol_ratio_diff Top is_approx_fp fuel it X Y x mi = Some (x', cv, it') ->
  cv = is_approx_fp x' /\ (it < it')%Z /\ (cv = false -> (mi <= it')%Z).
Proof.
  induction fuel as [|k IH]; intros it X Y x mi x' cv it' H; cbn [ig_loop] in H; [discriminate|].
  destruct (is_approx_fp x || (mi <=? it + 1)%Z) eqn:E.
  - inversion H; subst. split; [reflexivity|]. split; [lia|]. intros F. rewrite F in E. simpl in E. lia.
  - apply IH in H. destruct H as (A & B & C). split; [exact A|]. split; [lia|exact C].
Qed.

Lemma ig_loop_fuel : forall fuel it X Y x mi,
  (mi - it <= Z.of_nat fuel)%Z -> (it < mi)%Z ->
  ig_loop tol_piv tol_ratio_diff Top is_approx_fp fuel it X Y x mi <> None.
Proof.
  induction fuel as [|k IH]; intros it X Y x mi H1 H2; cbn [ig_loop]; [lia|].
  destruct (is_approx_fp x || (mi <=? it + 1)%Z) eqn:E; [discriminate|].
  apply orb_false_iff in E. destruct E as [_ E]. apply IH; lia.
Qed.

Theorem ig_converged_residual : forall v max_iter,
  (1 <= max_iter)%Z ->
  exists x cv it, compute_fixed_point_ig tol_piv tol_ratio_diff Top is_approx_fp v max_iter = Some (x, cv, it) /\
    cv = is_approx_fp x /\ (1 <= it)%Z /\ (cv = false -> (max_iter <= it)%Z).
Proof.
  intros v mi Hm. unfold compute_fixed_point_ig.
  destruct (is_approx_fp v || (mi <=? 1)%Z) eqn:E.
  - exists v, (is_approx_fp v), 1%Z. split; [reflexivity|]. split; [reflexivity|]. split; [lia|].
    intros F. rewrite F in E. simpl in E. lia.
  - destruct (ig_loop tol_piv tol_ratio_diff Top is_approx_fp (Z.to_nat mi) 1 [v] [Top v] (Top v) mi)
      as [[[x cv] it]|] eqn:EL.
    + exists x, cv, it. split; [reflexivity|]. apply ig_loop_spec in EL. destruct EL as (A & B & C).
      split; [exact A|]. split; [lia|exact C].
    + exfalso. revert EL. apply orb_false_iff in E. destruct E as [_ E]. apply ig_loop_fuel; lia.
Qed.
End IG.

(* compute_fixed_point(method='imitation_game'): no warning (converged) means max|T(v)-v| <= error_tol AT the returned v *)
Theorem igm_converged_residual {T} {NT : Num T} (tol_piv tol_ratio_diff : T) (nabs : T -> T) (Top : list T -> list T) :
  forall v tol max_iter x it,
  compute_fixed_point_igm tol_piv tol_ratio_diff nabs Top v tol max_iter = Some (x, true, it) ->
  nleb (supdist nabs (Top x) x) tol = true.
Proof.
  intros v tol mi x it H. unfold compute_fixed_point_igm in H.
  destruct (mi <? 1)%Z eqn:E; [discriminate|].
  destruct (ig_converged_residual tol_piv tol_ratio_diff Top (fun x => nleb (supdist nabs (Top x) x) tol) v mi ltac:(lia))
    as (x' & cv & it' & H1 & H2 & _).
  rewrite H1 in H. injection H as E1 E2 E3. rewrite <- E1, <- H2. exact E2.
Qed.

(* mclennan_tourky over exact rationals: converged = true means that at the returned profile no entry of any player's
   payoff vector (the expected payoff of a pure action, Proofs2.payoff_vector_expect) exceeds that player's current
   payoff by more than epsilon *)
Theorem mt_converged_eps_nash : forall (tol_piv tol_ratio_diff : Q) (g : list (list Q)) (nums : list nat)
    (x_init : list Q) (eps br_tol : Q) (max_iter : Z) (x : list Q) (it : Z),
  mclennan_tourky tol_piv tol_ratio_diff g nums x_init eps br_tol max_iter = Some (x, true, it) ->
  let prof := unflatten nums x in
  let pv i := payoff_vector (nth i g []) (opponents i prof) in
  (forall i, (i < length g)%nat -> pv i <> []) ->
  forall i, (i < length g)%nat -> forall u, In u (pv i) -> (u - dot (nth i prof []) (pv i) <= eps)%Q.
Proof.
  intros tp tr g nums x0 eps bt mi x it H prof pv NE.
  unfold mclennan_tourky in H.
  destruct (Z_lt_le_dec mi 1) as [L|L].
  - (* max_iter < 1: the first test returns at once *)
    unfold compute_fixed_point_ig in H.
    destruct (is_epsilon_nash g nums x0 eps || (mi <=? 1)%Z) eqn:E.
    + injection H as E1 E2 E3. subst x. apply (mt_converged_eps_nash_check g nums x0 eps); [exact NE|]. exact E2.
    + apply orb_false_iff in E. destruct E as [_ E]. lia.
  - destruct (ig_converged_residual tp tr (fun x => best_response_selection g nums x bt)
               (fun x => is_epsilon_nash g nums x eps) x0 mi L) as (x' & cv & it' & H1 & H2 & _).
    rewrite H1 in H. injection H as E1 E2 E3. subst x'.
    apply (mt_converged_eps_nash_check g nums x eps); [exact NE|]. rewrite <- H2. exact E2.
Qed.

(* C15 model: quantecon/_compute_fp.py::compute_fixed_point (method='iteration') with the operator T and the
   error functional as Section variables, and quantecon/game_theory/mclennan_tourky.py::_is_epsilon_nash /
   _best_response_selection together with the parts of normal_form_game.py they call (payoff_vector,
   is_best_response, best_response with tie_breaking='smallest').  Generic over Base.Num.Num.
   Executable definitions only; proofs live in Proofs.v. *)
From Coq Require Import ZArith QArith Qabs List Bool PrimFloat.
From QE Require Import Base.Num Base.Pivot C05.Model.
Import ListNotations.

(* ------------------------------------------------------------------ compute_fixed_point, iteration *)
Inductive fp_outcome (V : Type) : Type :=
| FPErr                                   (* ValueError: max_iter < 1 *)
| FPFuel                                  (* model fuel exhausted: not a value the code can return *)
| FPRes (v : V) (iterate : Z) (warned : bool).   (* returned v; warned = RuntimeWarning issued (verbose >= 1) *)
Arguments FPErr {V}. Arguments FPFuel {V}. Arguments FPRes {V}.

Section FixedPoint.
Context {T : Type} {NT : Num T}.
Context {V : Type}.
Variable Top : V -> V.            (* the operator T *)
Variable err : V -> V -> T.       (* np.max(np.abs(new_v - v)) *)

(* while True: new_v = T(v); iterate += 1; error = max|new_v - v|; v = new_v;
               if error <= error_tol or iterate >= max_iter: break *)
Fixpoint fp_loop (fuel : nat) (iterate : Z) (v : V) (tol : T) (max_iter : Z) : option (V * Z * T) :=
  match fuel with
  | O => None
  | S k =>
    let nv := Top v in
    let it := (iterate + 1)%Z in
    let e := err nv v in
    if nleb e tol || (max_iter <=? it)%Z then Some (nv, it, e)
    else fp_loop k it nv tol max_iter
  end.

Definition compute_fixed_point (v : V) (tol : T) (max_iter : Z) : fp_outcome V :=
  if (max_iter <? 1)%Z then FPErr
  else match fp_loop (Z.to_nat max_iter) 0 v tol max_iter with
       | None => FPFuel
       | Some (v', it, e) => FPRes v' it (nltb tol e)      (* if error > error_tol: warn *)
       end.
End FixedPoint.

(* ------------------------------------------------------------------ vectors *)
Section Vec.
Context {T : Type} {NT : Num T}.
Variable nabs : T -> T.

Definition nmax (a b : T) : T := if nltb a b then b else a.
Definition vmax (l : list T) : T := match l with [] => nzero | x :: r => fold_left nmax r x end.
Fixpoint map2 {A B C} (g : A -> B -> C) (a : list A) (b : list B) : list C :=
  match a, b with x :: a', y :: b' => g x y :: map2 g a' b' | _, _ => [] end.
(* np.max(np.abs(a - b)) *)
Definition supdist (a b : list T) : T := vmax (map2 (fun x y => nabs (nsub x y)) a b).
(* ((a0*x0 + a1*x1) + ...) in this order *)
Definition dotl (a x : list T) : T :=
  match map2 nmul a x with [] => nzero | p :: r => fold_left nadd r p end.
(* the affine operator used by the correspondence run: T(v)_i = dotl A_i v + b_i *)
Definition affine (A : list (list T)) (b : list T) (v : list T) : list T :=
  map2 (fun row bi => nadd (dotl row v) bi) A b.
(* elementwise min(2 v, 1): the expansive map of finding D7 *)
Definition dbl_cap (two : T) (v : list T) : list T :=
  map (fun x => let y := nmul two x in if nltb none_ y then none_ else y) v.
End Vec.

(* ------------------------------------------------------------------ McLennan-Tourky predicate *)
Section Games.
Context {T : Type} {NT : Num T}.

(* np.dot of two 1-d arrays (exact data in the correspondence run: summation order is immaterial there) *)
Definition dot (a x : list T) : T := fold_left nadd (map2 nmul a x) nzero.

(* payoff_array.dot(action) on a C-ordered flat array whose last axis has length k = len(action):
   every consecutive chunk of k entries is replaced by its dot product with the action *)
Definition reduce_last (flat : list T) (sigma : list T) : list T :=
  let k := length sigma in
  map (fun r => dot (firstn k (skipn (r * k) flat)) sigma) (seq 0 (length flat / k)).

(* Player.payoff_vector: for i in reversed(range(num_opponents)): reduce_last_player(., opponents_actions[i]) *)
Definition payoff_vector (flat : list T) (opps : list (list T)) : list T :=
  fold_left reduce_last (rev opps) flat.

(* profile of mixed actions out of the flat vector x: x[indptr[i]:indptr[i+1]] *)
Fixpoint unflatten (nums : list nat) (x : list T) : list (list T) :=
  match nums with [] => [] | n :: r => firstn n x :: unflatten r (skipn n x) end.

(* opponents of player i in the order i+1, ..., N-1, 0, ..., i-1 *)
Definition opponents {A} (i : nat) (prof : list A) : list A := skipn (S i) prof ++ firstn i prof.

(* np.dot(own_action, payoff_vector) >= payoff_max - tol *)
Definition is_best_response (own pv : list T) (tol : T) : bool :=
  nleb (nsub (vmax pv) tol) (dot own pv).

(* g = list of the players' payoff arrays, flat in C order (axes: own action, then opponents i+1, ..., i-1) *)
Definition is_nash (g : list (list T)) (prof : list (list T)) (tol : T) : bool :=
  forallb (fun i => is_best_response (nth i prof []) (payoff_vector (nth i g []) (opponents i prof)) tol)
          (seq 0 (length g)).

Definition is_epsilon_nash (g : list (list T)) (nums : list nat) (x : list T) (eps : T) : bool :=
  is_nash g (unflatten nums x) eps.

(* np.where(payoff_vector >= payoff_vector.max() - tol)[0][0] *)
Fixpoint first_ge (pv : list T) (thr : T) (i : nat) : nat :=
  match pv with [] => i | p :: r => if nleb thr p then i else first_ge r thr (S i) end.
Definition best_response (pv : list T) (tol : T) : nat := first_ge pv (nsub (vmax pv) tol) 0.

Definition pure2mixed (n a : nat) : list T := map (fun k => if Nat.eqb k a then none_ else nzero) (seq 0 n).

(* out = zeros; out[indptr[i] + pure_br_i] = 1 for every player i; br_tol = Player.tol *)
Definition best_response_selection (g : list (list T)) (nums : list nat) (x : list T) (br_tol : T) : list T :=
  let prof := unflatten nums x in
  concat (map (fun i => pure2mixed (nth i nums O)
                          (best_response (payoff_vector (nth i g []) (opponents i prof)) br_tol))
              (seq 0 (length g))).
End Games.

(* ------------------------------------------------------------------ imitation-game method
   _compute_fp.py::_compute_fixed_point_ig on top of the Lemke-Howson model of C05 (lh_tbl, lh_mixed_actions):
   the buffers X, Y are lists that grow (buffer doubling is not observable). *)
Section ImitationGame.
Context {T : Type} {NT : Num T}.
Variables tol_piv tol_ratio_diff : T.        (* pivoting.TOL_PIV, TOL_RATIO_DIFF *)
Variable Top : list T -> list T.
Variable is_approx_fp : list T -> bool.

(* _square_sum: sum_ = 0; for x in a.flat: sum_ += x**2 *)
Definition sqsum (d : list T) : T := fold_left (fun s x => nadd s (nmul x x)) d nzero.
Definition vsub2 (a b : list T) : list T := map2 nsub a b.

(* _initialize_tableaux_ig(X, Y, tableaux, bases) *)
Definition ig_tableaux (X Y : list (list T)) : lhstate :=
  let m := length X in
  let D := tab m m (fun i j => nmul (sqsum (vsub2 (nth i X []) (nth j Y []))) (nsub nzero none_)) in
  let mins := tabv m (fun j => fold_left (fun mn i => let t := get D i j in if nltb t mn then t else mn) (seq 0 m) nzero) in
  let t0 := tab m (2 * m + 1)
              (fun i j => if j <? 2 * m then (if (j =? i) || (j =? i + m) then none_ else nzero) else none_)%nat in
  let t1 := tab m (2 * m + 1)
              (fun i j => if j <? m then (if j =? i then none_ else nzero)
                          else if j <? 2 * m then nadd (nsub (get D i (j - m)) (nth (j - m) mins nzero)) none_
                          else none_)%nat in
  (t0, t1, map (fun i => (m + i)%nat) (seq 0 m), seq 0 m).

(* rho.dot(Y[:m]) *)
Definition combine_images (rho : list T) (Y : list (list T)) (d : nat) : list T :=
  tabv d (fun k => fold_left (fun s i => nadd s (nmul (nth i rho nzero) (nth k (nth i Y []) nzero))) (seq 0 (length Y)) nzero).

Definition ig_next (X Y : list (list T)) (d : nat) : list T :=
  let m := length X in
  let '(st, _, _) := lh_tbl tol_piv tol_ratio_diff m (ig_tableaux X Y) (m - 1) 1000000 in
  combine_images (snd (lh_mixed_actions m m st)) Y d.

(* the `while True` loop; state at loop head: X, Y hold iterate-1 points/images, x_new the current point *)
Fixpoint ig_loop (fuel : nat) (iterate : Z) (X Y : list (list T)) (x_new : list T) (max_iter : Z)
  : option (list T * bool * Z) :=
  match fuel with
  | O => None
  | S k =>
    let y_new := Top x_new in
    let it := (iterate + 1)%Z in
    let conv := is_approx_fp x_new in
    if conv || (max_iter <=? it)%Z then Some (x_new, conv, it)
    else
      let X' := X ++ [x_new] in
      let Y' := Y ++ [y_new] in
      ig_loop k it X' Y' (ig_next X' Y' (length x_new)) max_iter
  end.

(* returns (x_star, converged, iterate); None = model fuel exhausted (never with fuel = max_iter) *)
Definition compute_fixed_point_ig (v : list T) (max_iter : Z) : option (list T * bool * Z) :=
  let y := Top v in
  let conv := is_approx_fp v in
  if conv || (max_iter <=? 1)%Z then Some (v, conv, 1%Z)
  else ig_loop (Z.to_nat max_iter) 1 [v] [y] y max_iter.
End ImitationGame.

(* compute_fixed_point(method='imitation_game'): is_approx_fp v = (max|T(v) - v| <= error_tol); returns v_star *)
Definition compute_fixed_point_igm {T} {NT : Num T} (tol_piv tol_ratio_diff : T) (nabs : T -> T)
           (Top : list T -> list T) (v : list T) (error_tol : T) (max_iter : Z) : option (list T * bool * Z) :=
  if (max_iter <? 1)%Z then None
  else compute_fixed_point_ig tol_piv tol_ratio_diff Top (fun x => nleb (supdist nabs (Top x) x) error_tol) v max_iter.

(* mclennan_tourky(g, init, epsilon, max_iter, full_output=True) on the flat initial profile x_init *)
Definition mclennan_tourky {T} {NT : Num T} (tol_piv tol_ratio_diff : T) (g : list (list T)) (nums : list nat)
           (x_init : list T) (eps br_tol : T) (max_iter : Z) : option (list T * bool * Z) :=
  compute_fixed_point_ig tol_piv tol_ratio_diff
    (fun x => best_response_selection g nums x br_tol) (fun x => is_epsilon_nash g nums x eps) x_init max_iter.

(* ------------------------------------------------------------------ polym_lcp_solver (howson_lcp.py)
   pms[i][j] = polymatrix[(i, j)] (nums_i x nums_j, the diagonal entries pms[i][i] are ignored);
   two = LOW_AVOIDER.  The nested while loops are one step function iterated with a step budget. *)
Section Polym.
Context {T : Type} {NT : Num T}.
Variables tol_piv tol_ratio_diff : T.
Notation mat := (list (list T)).

Definition sumn_ (l : list nat) : nat := fold_left Nat.add l O.
Definition offs (nums : list nat) (p : nat) : nat := sumn_ (firstn p nums).
(* owner of flat action index r < sum nums: (player, local action) *)
Fixpoint locate (nums : list nat) (p r : nat) : nat * nat :=
  match nums with
  | [] => (p, r)
  | k :: rest => if r <? k then (p, r) else locate rest (S p) (r - k)
  end.

Definition polym_max (N : nat) (pms : list (list mat)) : T :=
  let entries := concat (map (fun i => concat (map (fun j => if i =? j then [] else concat (nth j (nth i pms []) []))
                                                   (seq 0 N))) (seq 0 N)) in
  match entries with [] => nzero | x :: r => fold_left nmax r x end.

Definition polym_tableau (nums : list nat) (pms : list (list mat)) (two : T) : mat :=
  let N := length nums in
  let total := sumn_ nums in
  let n := (total + N)%nat in
  let pcm := nadd (polym_max N pms) two in
  let neg1 := nsub nzero none_ in
  let M := fun r c =>
    if r <? total then
      let '(p, a) := locate nums 0 r in
      if c <? total then
        let '(p2, a2) := locate nums 0 c in
        if p2 =? p then nzero else nsub pcm (nth a2 (nth a (nth p2 (nth p pms []) []) []) nzero)
      else if c - total =? p then neg1 else nzero
    else
      let p := (r - total)%nat in
      if c <? total then (if fst (locate nums 0 c) =? p then none_ else nzero) else nzero in
  tab n (2 * n + 1) (fun i j => if j <? n then (if i =? j then none_ else nzero)
                                else if j <? 2 * n then nsub nzero (M i (j - n))
                                else if i <? total then nzero else neg1)%nat.

Record pstate := { ptab : mat; pbasis : list nat; pp : nat; pretro : bool; pinner : option nat; piter : Z }.
Inductive pres := PDone (t : mat) (b : list nat) (converging : bool) (num_iter : Z)
                | PNegPlayer.       (* p -= 1 at p = 0: the source would index with p = -1 *)

Definition polym_step (nums starts : list nat) (max_iter : Z) (s : pstate) : pstate + pres :=
  let N := length nums in
  let total := sumn_ nums in
  let n := (total + N)%nat in
  let p := pp s in
  let fv := (total + n + p)%nat in
  let fx := (n + offs nums p + nth p starts O)%nat in
  let fy := (fx - n)%nat in
  match pinner s with
  | None =>
    if p <? N then
      let pivcol := if negb (pretro s) then fv else if existsb (Nat.eqb fy) (pbasis s) then fx else fy in
      inl {| ptab := ptab s; pbasis := pbasis s; pp := p; pretro := false; pinner := Some pivcol; piter := piter s |}
    else inr (PDone (ptab s) (pbasis s) true (piter s))
  | Some pivcol =>
    if (piter s =? max_iter)%Z then inr (PDone (ptab s) (pbasis s) false (piter s))
    else
      let pivrow := snd (lex_min_ratio_test (ptab s) pivcol 0 tol_piv tol_ratio_diff) in
      let t' := pivoting (ptab s) pivcol pivrow in
      let leaving := nth pivrow (pbasis s) O in
      let b' := set_nth (pbasis s) pivrow pivcol in
      let it := (piter s + 1)%Z in
      if (leaving =? fx) || (leaving =? fy) then
        inl {| ptab := t'; pbasis := b'; pp := S p; pretro := false; pinner := None; piter := it |}
      else if leaving =? fv then
        match p with
        | O => inr PNegPlayer
        | S p' => inl {| ptab := t'; pbasis := b'; pp := p'; pretro := true; pinner := None; piter := it |}
        end
      else
        inl {| ptab := t'; pbasis := b'; pp := p; pretro := pretro s;
               pinner := Some (if leaving <? n then leaving + n else leaving - n)%nat; piter := it |}
  end.

(* result: (NE as the list of the players' mixed actions, converged, num_iter); None = p went negative / budget *)
Definition polym_lcp_solver (nums starts : list nat) (pms : list (list mat)) (two : T) (max_iter : Z)
  : option (list (list T) * bool * Z) :=
  let N := length nums in
  let total := sumn_ nums in
  let n := (total + N)%nat in
  let t0 := polym_tableau nums pms two in
  let '(t1, b1) := fold_left (fun (tb : mat * list nat) player =>
                     let '(t, b) := tb in
                     let row := (total + player)%nat in
                     let col := (n + offs nums player + nth player starts O)%nat in
                     (pivoting t col row, set_nth b row col)) (seq 0 N) (t0, seq 0 n) in
  match iter_pos (polym_step nums starts max_iter) (Z.to_pos (2 * Z.max max_iter 1 + 2 * Z.of_nat N + 4))
                 {| ptab := t1; pbasis := b1; pp := 0; pretro := false; pinner := None; piter := 0 |} with
  | inr (PDone t b conv ni) =>
    let z := tabv n (fun k => match find (fun i => nth i b O =? n + k) (seq 0 n) with
                              | Some i => get t i (2 * n) | None => nzero end) in
    Some (map (fun pl => firstn (nth pl nums O) (skipn (offs nums pl) z)) (seq 0 N), conv, ni)
  | _ => None
  end.
End Polym.

(* C15 model: quantecon/_compute_fp.py::compute_fixed_point (method='iteration') with the operator T and the
   error functional as Section variables, and quantecon/game_theory/mclennan_tourky.py::_is_epsilon_nash /
   _best_response_selection together with the parts of normal_form_game.py they call (payoff_vector,
   is_best_response, best_response with tie_breaking='smallest').  Generic over Base.Num.Num.
   Executable definitions only; proofs live in Proofs.v. *)
From Coq Require Import ZArith QArith Qabs List Bool PrimFloat.
From QE Require Import Base.Num.
Import ListNotations.

(* ------------------------------------------------------------------ compute_fixed_point, iteration *)
Inductive fp_outcome (V : Type) : Type :=
| FPErr                                   (* ValueError: max_iter < 1 *)
| FPFuel                                  (* model fuel exhausted: not a value the code can return *)
| FPRes (v : V) (iterate : Z) (warned : bool).   (* returned v; warned = RuntimeWarning issued (verbose >= 1) *)
Arguments FPErr {V}. Arguments FPFuel {V}. Arguments FPRes {V}.

Section FixedPoint.
Context {T : Type} {NT : Num T}.
Context {V : Type}.
Variable Top : V -> V.            (* the operator T *)
Variable err : V -> V -> T.       (* np.max(np.abs(new_v - v)) *)

(* while True: new_v = T(v); iterate += 1; error = max|new_v - v|; v = new_v;
               if error <= error_tol or iterate >= max_iter: break *)
Fixpoint fp_loop (fuel : nat) (iterate : Z) (v : V) (tol : T) (max_iter : Z) : option (V * Z * T) :=
  match fuel with
  | O => None
  | S k =>
    let nv := Top v in
    let it := (iterate + 1)%Z in
    let e := err nv v in
    if nleb e tol || (max_iter <=? it)%Z then Some (nv, it, e)
    else fp_loop k it nv tol max_iter
  end.

Definition compute_fixed_point (v : V) (tol : T) (max_iter : Z) : fp_outcome V :=
  if (max_iter <? 1)%Z then FPErr
  else match fp_loop (Z.to_nat max_iter) 0 v tol max_iter with
       | None => FPFuel
       | Some (v', it, e) => FPRes v' it (nltb tol e)      (* if error > error_tol: warn *)
       end.
End FixedPoint.

(* ------------------------------------------------------------------ vectors *)
Section Vec.
Context {T : Type} {NT : Num T}.
Variable nabs : T -> T.

Definition nmax (a b : T) : T := if nltb a b then b else a.
Definition vmax (l : list T) : T := match l with [] => nzero | x :: r => fold_left nmax r x end.
Fixpoint map2 {A B C} (g : A -> B -> C) (a : list A) (b : list B) : list C :=
  match a, b with x :: a', y :: b' => g x y :: map2 g a' b' | _, _ => [] end.
(* np.max(np.abs(a - b)) *)
Definition supdist (a b : list T) : T := vmax (map2 (fun x y => nabs (nsub x y)) a b).
(* ((a0*x0 + a1*x1) + ...) in this order *)
Definition dotl (a x : list T) : T :=
  match map2 nmul a x with [] => nzero | p :: r => fold_left nadd r p end.
(* the affine operator used by the correspondence run: T(v)_i = dotl A_i v + b_i *)
Definition affine (A : list (list T)) (b : list T) (v : list T) : list T :=
  map2 (fun row bi => nadd (dotl row v) bi) A b.
(* elementwise min(2 v, 1): the expansive map of finding D7 *)
Definition dbl_cap (two : T) (v : list T) : list T :=
  map (fun x => let y := nmul two x in if nltb none_ y then none_ else y) v.
End Vec.

(* ------------------------------------------------------------------ McLennan-Tourky predicate *)
Section Games.
Context {T : Type} {NT : Num T}.

(* np.dot of two 1-d arrays (exact data in the correspondence run: summation order is immaterial there) *)
Definition dot (a x : list T) : T := fold_left nadd (map2 nmul a x) nzero.

(* payoff_array.dot(action) on a C-ordered flat array whose last axis has length k = len(action):
   every consecutive chunk of k entries is replaced by its dot product with the action *)
Definition reduce_last (flat : list T) (sigma : list T) : list T :=
  let k := length sigma in
  map (fun r => dot (firstn k (skipn (r * k) flat)) sigma) (seq 0 (length flat / k)).

(* Player.payoff_vector: for i in reversed(range(num_opponents)): reduce_last_player(., opponents_actions[i]) *)
Definition payoff_vector (flat : list T) (opps : list (list T)) : list T :=
  fold_left reduce_last (rev opps) flat.

(* profile of mixed actions out of the flat vector x: x[indptr[i]:indptr[i+1]] *)
Fixpoint unflatten (nums : list nat) (x : list T) : list (list T) :=
  match nums with [] => [] | n :: r => firstn n x :: unflatten r (skipn n x) end.

(* opponents of player i in the order i+1, ..., N-1, 0, ..., i-1 *)
Definition opponents {A} (i : nat) (prof : list A) : list A := skipn (S i) prof ++ firstn i prof.

(* np.dot(own_action, payoff_vector) >= payoff_max - tol *)
Definition is_best_response (own pv : list T) (tol : T) : bool :=
  nleb (nsub (vmax pv) tol) (dot own pv).

(* g = list of the players' payoff arrays, flat in C order (axes: own action, then opponents i+1, ..., i-1) *)
Definition is_nash (g : list (list T)) (prof : list (list T)) (tol : T) : bool :=
  forallb (fun i => is_best_response (nth i prof []) (payoff_vector (nth i g []) (opponents i prof)) tol)
          (seq 0 (length g)).

Definition is_epsilon_nash (g : list (list T)) (nums : list nat) (x : list T) (eps : T) : bool :=
  is_nash g (unflatten nums x) eps.

(* np.where(payoff_vector >= payoff_vector.max() - tol)[0][0] *)
Fixpoint first_ge (pv : list T) (thr : T) (i : nat) : nat :=
  match pv with [] => i | p :: r => if nleb thr p then i else first_ge r thr (S i) end.
Definition best_response (pv : list T) (tol : T) : nat := first_ge pv (nsub (vmax pv) tol) 0.

Definition pure2mixed (n a : nat) : list T := map (fun k => if Nat.eqb k a then none_ else nzero) (seq 0 n).

(* out = zeros; out[indptr[i] + pure_br_i] = 1 for every player i; br_tol = Player.tol *)
Definition best_response_selection (g : list (list T)) (nums : list nat) (x : list T) (br_tol : T) : list T :=
  let prof := unflatten nums x in
  concat (map (fun i => pure2mixed (nth i nums O)
                          (best_response (payoff_vector (nth i g []) (opponents i prof)) br_tol))
              (seq 0 (length g))).
End Games.

(* C15 proofs. *)
From Coq Require Import ZArith QArith Qabs List Bool Lia Lqa.
From QE Require Import Base.Num C15.Model.
Import ListNotations.

(* ------------------------------------------------------------------ iteration method *)
Section Iteration.
Context {V : Type}.
Variable Top : V -> V.
Variable dist : V -> V -> Q.                     (* the sup-norm distance max|a - b| *)
Hypothesis dist_sym : forall x y, dist x y == dist y x.
Hypothesis dist_tri : forall x y z, dist x z <= dist x y + dist y z.
Variable L : Q.
Hypothesis L_nonneg : 0 <= L.
Hypothesis Top_lip : forall x y, dist (Top x) (Top y) <= L * dist x y.

(* whatever the loop returns is T applied to the iterate whose residual was measured *)
Lemma fp_loop_returns : forall fuel it v tol mi v' it' e,
  fp_loop Top dist fuel it v tol mi = Some (v', it', e) ->
  exists vk, v' = Top vk /\ e = dist (Top vk) vk /\ (it < it')%Z /\
             (Qle_bool e tol = true \/ (mi <= it')%Z).
Proof.
  induction fuel as [|k IH]; intros it v tol mi v' it' e H; simpl in H; [discriminate|].
  destruct (Qle_bool (dist (Top v) v) tol || (mi <=? it + 1)%Z) eqn:E.
  - inversion H; subst. exists v. repeat split; try lia.
    apply orb_true_iff in E. destruct E as [E|E]; [left; exact E|right; lia].
  - apply IH in H. destruct H as [vk (H1 & H2 & H3 & H4)]. exists vk. repeat split; try assumption; lia.
Qed.

Lemma fp_loop_fuel : forall fuel it v tol mi,
  (mi - it <= Z.of_nat fuel)%Z -> (it < mi)%Z -> fp_loop Top dist fuel it v tol mi <> None.
Proof.
  induction fuel as [|k IH]; intros it v tol mi H1 H2; simpl; [lia|].
  destruct (Qle_bool (dist (Top v) v) tol || (mi <=? it + 1)%Z) eqn:E; [discriminate|].
  apply orb_false_iff in E. destruct E as [_ E]. apply IH; lia.
Qed.

Theorem iteration_residual : forall v0 tol max_iter v it,
  compute_fixed_point Top dist v0 tol max_iter = FPRes v it false ->
  exists vk, v = Top vk /\ dist (Top vk) vk <= tol /\          (* what the code tested *)
             dist (Top v) v <= L * tol /\                       (* residual of the returned point *)
             (L <= 1 -> dist (Top v) v <= tol) /\
             (forall vs, Top vs = vs -> L < 1 -> dist v vs * (1 - L) <= L * tol /\ dist v vs <= tol / (1 - L)).
Proof.
  intros v0 tol mi v it H. unfold compute_fixed_point in H.
  destruct (mi <? 1)%Z; [discriminate|].
  destruct (fp_loop Top dist (Z.to_nat mi) 0 v0 tol mi) as [[[v' it'] e]|] eqn:E; [|discriminate].
  inversion H; subst v' it'. clear H.
  apply fp_loop_returns in E. destruct E as [vk (H1 & H2 & _ & _)].
  assert (Hw : e <= tol).
  { simpl in H3. unfold Qltb in H3. apply negb_false_iff in H3. apply Qle_bool_iff in H3. exact H3. }
  subst e. exists vk. split; [exact H1|]. split; [exact Hw|].
  assert (R : dist (Top v) v <= L * tol).
  { subst v. pose proof (Top_lip (Top vk) vk) as TL. nra. }
  split; [exact R|]. split.
  - intros HL. eapply Qle_trans; [exact R|]. assert (0 <= tol) by (eapply Qle_trans; [|exact Hw];
      pose proof (dist_tri (Top vk) vk (Top vk)); pose proof (dist_sym (Top vk) vk);
      pose proof (dist_tri vk (Top vk) vk); pose proof (dist_sym vk (Top vk)); 
      pose proof (dist_tri vk vk vk); lra).
    nra.
  - intros vs Hfix HL1.
    assert (D : dist v vs <= dist (Top v) v + L * dist v vs).
    { pose proof (dist_tri v (Top v) vs) as T1. pose proof (dist_sym v (Top v)) as S1.
      pose proof (Top_lip v vs) as T2. rewrite Hfix in T2. lra. }
    assert (M : dist v vs * (1 - L) <= L * tol) by lra.
    split; [exact M|].
    apply Qle_shift_div_l; [lra|]. 
    assert (0 <= tol).
    { eapply Qle_trans; [|exact Hw].
      pose proof (dist_tri vk (Top vk) vk); pose proof (dist_sym vk (Top vk)); pose proof (dist_tri vk vk vk); lra. }
    nra.
Qed.

(* with fuel = max_iter the model never runs out of fuel, and a result without warning stopped by the test *)
Theorem iteration_total : forall v0 tol max_iter,
  (1 <= max_iter)%Z -> exists v it w, compute_fixed_point Top dist v0 tol max_iter = FPRes v it w /\ (1 <= it <= max_iter)%Z.
Proof.
  intros v0 tol mi Hm. unfold compute_fixed_point.
  destruct (mi <? 1)%Z eqn:E; [lia|].
  destruct (fp_loop Top dist (Z.to_nat mi) 0 v0 tol mi) as [[[v' it'] e]|] eqn:E2.
  - exists v', it', (nltb tol e). split; [reflexivity|].
    assert (B : forall fuel it v v' it' e, fp_loop Top dist fuel it v tol mi = Some (v', it', e) ->
                (it < mi)%Z -> (it < it' <= mi)%Z).
    { induction fuel as [|k IH]; intros it v v1 it1 e1 H Hlt; simpl in H; [discriminate|].
      destruct (Qle_bool (dist (Top v) v) tol || (mi <=? it + 1)%Z) eqn:E3.
      - inversion H; subst. lia.
      - apply orb_false_iff in E3. destruct E3 as [_ E3]. apply IH in H; lia. }
    apply B in E2; lia.
  - exfalso. revert E2. apply fp_loop_fuel; lia.
Qed.
End Iteration.

(* finding D7: T(x) = min(2x, 1), v0 = 9/10000, error_tol = 1/1000 *)
Definition d7_T : list Q -> list Q := dbl_cap (T := Q) 2.
Definition d7_dist : list Q -> list Q -> Q := supdist Qabs.
Lemma iteration_residual_refuted :
  exists v it, compute_fixed_point d7_T d7_dist [9 # 10000] (1 # 1000) 50 = FPRes v it false /\
               Qle_bool (d7_dist (d7_T v) v) (1 # 1000) = false /\ d7_dist (d7_T v) v == 18 # 10000.
Proof. exists [9 # 5000], 1%Z. vm_compute. repeat split; reflexivity || discriminate. Qed.

(* ------------------------------------------------------------------ McLennan-Tourky predicate *)
Lemma nmaxQ_ge_l a b : a <= nmax (T := Q) a b.
Proof. unfold nmax. simpl. destruct (Qltb a b) eqn:E; [apply Qltb_lt in E; lra|lra]. Qed.
Lemma nmaxQ_ge_r a b : b <= nmax (T := Q) a b.
Proof.
  unfold nmax. simpl. destruct (Qltb a b) eqn:E; [lra|].
  unfold Qltb in E. apply negb_false_iff in E. apply Qle_bool_iff in E. exact E.
Qed.
Lemma nmaxQ_cases a b : nmax (T := Q) a b = a \/ nmax (T := Q) a b = b.
Proof. unfold nmax. destruct (nltb a b); auto. Qed.

Lemma fold_nmax_ge : forall l x, x <= fold_left (nmax (T := Q)) l x /\ (forall y, In y l -> y <= fold_left nmax l x).
Proof.
  induction l as [|a l IH]; intros x; simpl.
  - split; [lra|intros y []].
  - destruct (IH (nmax x a)) as [H1 H2]. split.
    + eapply Qle_trans; [apply (nmaxQ_ge_l x a)|exact H1].
    + intros y [Hy|Hy]; [subst; eapply Qle_trans; [apply (nmaxQ_ge_r x y)|exact H1]|apply H2; exact Hy].
Qed.
Lemma fold_nmax_in : forall l x, fold_left (nmax (T := Q)) l x = x \/ In (fold_left nmax l x) l.
Proof.
  induction l as [|a l IH]; intros x; simpl; [left; reflexivity|].
  destruct (IH (nmax x a)) as [H|H].
  - rewrite H. destruct (nmaxQ_cases x a) as [E|E]; rewrite E; [left; reflexivity|right; left; reflexivity].
  - right. right. exact H.
Qed.

Lemma vmaxQ_ge l y : In y l -> y <= vmax (T := Q) l.
Proof.
  destruct l as [|x l]; [intros []|]. simpl. intros [H|H].
  - subst. apply (proj1 (fold_nmax_ge l y)).
  - apply (proj2 (fold_nmax_ge l x)). exact H.
Qed.
Lemma vmaxQ_in l : l <> [] -> In (vmax (T := Q) l) l.
Proof.
  destruct l as [|x l]; [congruence|]. intros _. simpl.
  destruct (fold_nmax_in l x) as [H|H]; [left; symmetry; exact H|right; exact H].
Qed.

(* np.dot(own, pv) >= pv.max() - eps  <->  no entry of pv exceeds the current payoff by more than eps *)
Lemma is_best_response_spec own pv eps : pv <> [] ->
  (is_best_response (T := Q) own pv eps = true <-> forall u, In u pv -> u - dot own pv <= eps).
Proof.
  intros NE. unfold is_best_response. simpl. rewrite Qle_bool_iff.
  pose proof (Qsubr_eq (vmax pv) eps) as E. split.
  - intros H u Hu. pose proof (vmaxQ_ge pv u Hu). lra.
  - intros H. specialize (H _ (vmaxQ_in pv NE)). lra.
Qed.

(* the predicate evaluated at the returned point: for every player, no pure action's expected payoff
   (entry of the code's payoff vector) exceeds the payoff of the player's own mixed action by more than eps *)
Theorem mt_converged_eps_nash_check : forall (g : list (list Q)) (nums : list nat) (x : list Q) (eps : Q),
  let prof := unflatten nums x in
  let pv i := payoff_vector (nth i g []) (opponents i prof) in
  (forall i, (i < length g)%nat -> pv i <> []) ->
  (is_epsilon_nash g nums x eps = true <->
   forall i, (i < length g)%nat -> forall u, In u (pv i) -> u - dot (nth i prof []) (pv i) <= eps).
Proof.
  intros g nums x eps prof pv NE. unfold is_epsilon_nash, is_nash. fold prof.
  rewrite forallb_forall. split.
  - intros H i Hi. apply is_best_response_spec; [apply NE; exact Hi|].
    apply H. apply in_seq. lia.
  - intros H i Hi. apply in_seq in Hi. apply is_best_response_spec; [apply NE; lia|]. apply H. lia.
Qed.

(* two players: the code's payoff vector is the matrix-vector product, i.e. entry a is the expected payoff
   sum_j A[a][j] sigma[j] of pure action a against the opponent's mixed action *)
Lemma payoff_vector_two_players (flat sigma : list Q) :
  payoff_vector flat [sigma] =
  map (fun a => dot (firstn (length sigma) (skipn (a * length sigma) flat)) sigma) (seq 0 (length flat / length sigma)).
Proof. reflexivity. Qed.

(* C15 proofs, part 2: the payoff vector computed by the code (repeated `payoff_array.dot(action)` on the last
   axis of a C-ordered array, last opponent first) is the multilinear expected payoff
     pv[r] = sum_{a_1} s_1(a_1) ... sum_{a_m} s_m(a_m) * flat[((r*k_1 + a_1)*k_2 + a_2) ... + a_m]. *)
From Coq Require Import ZArith QArith Qabs List Bool Lia Lqa Arith.
From QE Require Import Base.Num C15.Model.
Import ListNotations.

(* sum_{a < k} g a, first index first *)
Fixpoint sumn (k : nat) (g : nat -> Q) : Q :=
  match k with O => 0 | S k' => g O + sumn k' (fun a => g (S a)) end.

(* ros = opponents' mixed actions, LAST opponent first; e = entry function of the flat array *)
Fixpoint expect (ros : list (list Q)) (e : nat -> Q) (i : nat) : Q :=
  match ros with
  | [] => e i
  | s :: rest => expect rest (fun i' => sumn (length s) (fun a => nth a s 0 * e (i' * length s + a)%nat)) i
  end.

Lemma sumn_ext k : forall g h, (forall a, (a < k)%nat -> g a == h a) -> sumn k g == sumn k h.
Proof.
  induction k as [|k IH]; intros g h H; simpl; [reflexivity|].
  rewrite (H O) by lia. rewrite (IH (fun a => g (S a)) (fun a => h (S a))); [reflexivity|].
  intros a Ha. apply H. lia.
Qed.

Lemma sumn_zero k : forall g, (forall a, (a < k)%nat -> g a == 0) -> sumn k g == 0.
Proof.
  induction k as [|k IH]; intros g H; simpl; [reflexivity|].
  rewrite (H O) by lia. rewrite IH; [ring|]. intros a Ha. apply H. lia.
Qed.

Lemma expect_ext ros : forall e e' i, (forall j, e j == e' j) -> expect ros e i == expect ros e' i.
Proof.
  induction ros as [|s rest IH]; intros e e' i H; simpl; [apply H|].
  apply IH. intros j. apply sumn_ext. intros a _. rewrite H. reflexivity.
Qed.

Lemma fold_dot : forall (c s : list Q) acc, length c = length s ->
  fold_left Qaddr (map2 Qmulr c s) acc == acc + sumn (length s) (fun a => nth a c 0 * nth a s 0).
Proof.
  induction c as [|x c IH]; intros s acc L; destruct s as [|y s]; simpl in *; try discriminate.
  - ring.
  - rewrite IH by lia. rewrite Qaddr_eq, Qmulr_eq. ring.
Qed.

Lemma dot_sum (c s : list Q) : length c = length s ->
  dot (T := Q) c s == sumn (length s) (fun a => nth a c 0 * nth a s 0).
Proof. intros L. unfold dot. simpl. rewrite fold_dot by exact L. ring. Qed.

Lemma nth_skipn_ {A} (d : A) : forall s (l : list A) a, nth a (skipn s l) d = nth (s + a) l d.
Proof. induction s as [|s IH]; intros l a; [reflexivity|]. destruct l; simpl; [destruct a; reflexivity|apply IH]. Qed.
Lemma nth_firstn_ {A} (d : A) : forall k (l : list A) a, (a < k)%nat -> nth a (firstn k l) d = nth a l d.
Proof.
  induction k as [|k IH]; intros l a H; [lia|]. destruct l; [destruct a; reflexivity|].
  destruct a; simpl; [reflexivity|apply IH; lia].
Qed.

(* entry i' of payoff_array.dot(action) on the flat array *)
Lemma nth_reduce_last (flat s : list Q) (m : nat) i' :
  (0 < length s)%nat -> length flat = (m * length s)%nat ->
  nth i' (reduce_last flat s) 0 == sumn (length s) (fun a => nth a s 0 * nth (i' * length s + a) flat 0).
Proof.
  intros Hk HL. unfold reduce_last. set (k := length s) in *.
  assert (Hm : (length flat / k = m)%nat) by (rewrite HL; apply Nat.div_mul; lia).
  rewrite Hm.
  destruct (Nat.lt_ge_cases i' m) as [Hi|Hi].
  - rewrite (nth_indep _ 0 ((fun r => dot (firstn k (skipn (r * k) flat)) s) O)) by (rewrite map_length, seq_length; exact Hi).
    rewrite (map_nth (fun r => dot (firstn k (skipn (r * k) flat)) s) (seq 0 m) O i').
    rewrite seq_nth by exact Hi. simpl (0 + i')%nat.
    rewrite dot_sum.
    + fold k. apply sumn_ext. intros a Ha.
      rewrite nth_firstn_ by exact Ha. rewrite nth_skipn_. ring.
    + rewrite firstn_length, skipn_length. fold k. rewrite HL.
      assert (i' * k + k <= m * k)%nat by (replace (i' * k + k)%nat with ((S i') * k)%nat by lia; apply Nat.mul_le_mono_r; lia).
      lia.
  - rewrite nth_overflow by (rewrite map_length, seq_length; exact Hi).
    symmetry. apply sumn_zero. intros a Ha.
    rewrite (nth_overflow flat) ; [ring|]. rewrite HL.
    assert (m * k <= i' * k)%nat by (apply Nat.mul_le_mono_r; lia). lia.
Qed.

Lemma reduce_last_length (flat s : list Q) (m : nat) :
  (0 < length s)%nat -> length flat = (m * length s)%nat -> length (reduce_last flat s) = m.
Proof.
  intros Hk HL. unfold reduce_last. rewrite map_length, seq_length, HL. apply Nat.div_mul. lia.
Qed.

(* shape: length flat = n0 * k_1 * ... * k_m, every k_j > 0;  ros lists the actions last axis first *)
Fixpoint shape_ok (n : nat) (ros : list (list Q)) (len : nat) : Prop :=
  match ros with
  | [] => len = n
  | s :: rest => (0 < length s)%nat /\ exists m, len = (m * length s)%nat /\ shape_ok n rest m
  end.

Lemma fold_reduce_expect : forall ros flat n r,
  shape_ok n ros (length flat) ->
  nth r (fold_left reduce_last ros flat) 0 == expect ros (fun i => nth i flat 0) r.
Proof.
  induction ros as [|s rest IH]; intros flat n r H; simpl; [reflexivity|].
  destruct H as (Hk & m & HL & Hrest).
  rewrite (IH (reduce_last flat s) n r).
  - apply expect_ext. intros j. apply (nth_reduce_last flat s m); assumption.
  - rewrite (reduce_last_length flat s m) by assumption. exact Hrest.
Qed.

Theorem payoff_vector_expect : forall (flat : list Q) (opps : list (list Q)) (n r : nat),
  shape_ok n (rev opps) (length flat) ->
  nth r (payoff_vector flat opps) 0 == expect (rev opps) (fun i => nth i flat 0) r /\
  length (payoff_vector flat opps) = n.
Proof.
  intros flat opps n r H. unfold payoff_vector. split; [apply (fold_reduce_expect _ _ n); exact H|].
  revert flat H. induction (rev opps) as [|s rest IH]; intros flat H; simpl in *; [exact H|].
  destruct H as (Hk & m & HL & Hrest). apply IH. rewrite (reduce_last_length flat s m) by assumption. exact Hrest.
Qed.

(* three players, 2 x 2 x 2: the expectation unfolds to the familiar double sum *)
Example ex_expect_three_players (s1 s2 : list Q) (e : nat -> Q) (r : nat) :
  length s1 = 2%nat -> length s2 = 2%nat ->
  expect (rev [s1; s2]) e r ==
    nth 0 s1 0 * (nth 0 s2 0 * e ((r * 2 + 0) * 2 + 0)%nat + nth 1 s2 0 * e ((r * 2 + 0) * 2 + 1)%nat) +
    nth 1 s1 0 * (nth 0 s2 0 * e ((r * 2 + 1) * 2 + 0)%nat + nth 1 s2 0 * e ((r * 2 + 1) * 2 + 1)%nat).
Proof. intros L1 L2. simpl. rewrite L1, L2. simpl. ring. Qed.

(* C10: specification of util/array.py::searchsorted proved directly about the
   definition REGENERATED from /repo's current source (Gen/Kernels.v, bounds-checked
   translation): for EVERY arithmetic instance (exact or floating point, no order
   axioms, no sortedness assumption) the search performs no out-of-bounds read and
   returns k in [0, n] with  (k = n or v < a[k])  and  (k = 0 or not v < a[k-1]). *)
From Coq Require Import ZArith List Bool Lia.
From QE Require Import Base.Num Gen.Kernels.
Import ListNotations.
Open Scope Z_scope.

Section SS.
Context {T : Type} `{Num T}.

Definition ss_inv (a : list T) (v : T) (lo hi : Z) : Prop :=
  -1 <= lo < hi /\ hi <= Z.of_nat (length a) /\
  (lo = -1 \/ nltb v (nth (Z.to_nat lo) a nzero) = false) /\
  (hi = Z.of_nat (length a) \/ nltb v (nth (Z.to_nat hi) a nzero) = true).

Lemma gen_ss_loop_spec (a : list T) (v : T) : forall fuel hi lo,
  ss_inv a v lo hi -> hi - lo <= Z.of_nat fuel ->
  let '(hi', lo', ok') := gen_searchsorted_loop0 fuel hi lo true a v in
  ok' = true /\ ss_inv a v lo' hi' /\ lo' = hi' - 1.
Proof.
  induction fuel as [|f IH]; intros hi lo Inv Hf; cbn [gen_searchsorted_loop0].
  - destruct Inv as (Hr & _). lia.
  - destruct (Z.ltb_spec lo (hi - 1)) as [Hlt|Hge].
    + destruct Inv as (Hr & Hn & Hlo & Hhi).
      assert (Hm : lo < (lo + hi) / 2 < hi) by (Z.div_mod_to_equations; lia).
      assert (Hin : inb ((lo + hi) / 2) a = true) by (unfold inb; lia).
      rewrite Hin. cbn [andb].
      destruct (nltb v (nth (Z.to_nat ((lo + hi) / 2)) a nzero)) eqn:E.
      * apply IH; [|lia]. repeat split; try lia; auto.
      * apply IH; [|lia]. repeat split; try lia; auto.
    + destruct Inv as (Hr & Hn & Hlo & Hhi). repeat split; auto; lia.
Qed.

Theorem gen_searchsorted_spec (a : list T) (v : T) :
  let '(k, ok) := gen_searchsorted a v in
  ok = true /\ 0 <= k <= Z.of_nat (length a) /\
  (k = Z.of_nat (length a) \/ nltb v (nth (Z.to_nat k) a nzero) = true) /\
  (k = 0 \/ nltb v (nth (Z.to_nat (k - 1)) a nzero) = false).
Proof.
  unfold gen_searchsorted. cbv zeta.
  pose proof (gen_ss_loop_spec a v (S (length a)) (Z.of_nat (length a)) (-1)) as L.
  assert (I0 : ss_inv a v (-1) (Z.of_nat (length a))) by (unfold ss_inv; lia).
  specialize (L I0 ltac:(lia)).
  destruct (gen_searchsorted_loop0 (S (length a)) (Z.of_nat (length a)) (-1) true a v) as [[hi lo] ok].
  destruct L as (Hok & (Hr & Hn & Hlo & Hhi) & Heq).
  repeat split; try lia; auto.
  destruct Hlo as [Hlo|Hlo]; [left; lia|right]. subst lo. exact Hlo.
Qed.
End SS.

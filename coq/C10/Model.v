(* C10 model (CURRENT source, i.e. after commits aa389fd "inverse-CDF draws must not
   fall beyond the last state" and 454b8b2 "simulate_indices must normalise negative
   init indices"):
     quantecon/util/array.py::searchsorted
     quantecon/markov/core.py::MarkovChain.__init__ (checks), cdfs, cdfs1d, simulate_indices,
        simulate (state_values=None), _generate_sample_paths, _generate_sample_paths_sparse,
        mc_sample_path
     quantecon/_discrete_rv.py::DiscreteRV.draw
     quantecon/random/utilities.py::draw
   Every algorithm is written once over Base.Num.Num and run at Q (theorems) and at
   PrimFloat (bit-exact correspondence).  Array reads made by the jitted kernels are
   bounds-checked: an out-of-range read is the explicit outcome OOB.
   Executable definitions only; proofs are in Proofs.v, the pre-repair kernel in Findings.v. *)
From Coq Require Import ZArith QArith List Bool PrimFloat.
From QE Require Import Base.Num.
Import ListNotations.
Open Scope Z_scope.

(* outcome of a computation that reads arrays *)
Inductive res (A : Type) : Type :=
| Ok (x : A)
| OOB         (* a jitted kernel read outside an array *)
| ValueErr    (* the Python layer raised ValueError *)
| NoFuel.     (* never produced: fuel is the loop's own bound (proved) *)
Arguments Ok {A} x.
Arguments OOB {A}.
Arguments ValueErr {A}.
Arguments NoFuel {A}.

Definition bind {A B} (r : res A) (f : A -> res B) : res B :=
  match r with Ok x => f x | OOB => OOB | ValueErr => ValueErr | NoFuel => NoFuel end.

Fixpoint mapM {A B} (f : A -> res B) (l : list A) : res (list B) :=
  match l with
  | [] => Ok []
  | x :: r => bind (f x) (fun y => bind (mapM f r) (fun ys => Ok (y :: ys)))
  end.

Definition zlen {A} (l : list A) : Z := Z.of_nat (length l).

(* a[i] with 0 <= i < len(a) required *)
Definition rd {A} (a : list A) (i : Z) : res A :=
  if i <? 0 then OOB
  else match nth_error a (Z.to_nat i) with Some x => Ok x | None => OOB end.

(* a[i] as Numba/NumPy index it: a negative i counts from the end *)
Definition rdw {A} (a : list A) (i : Z) : res A :=
  rd a (if i <? 0 then i + zlen a else i).

(* basic slice a[s:e] (negative bounds count from the end, then clamp; never an error) *)
Definition slice_bound (n i : Z) : Z :=
  let j := if i <? 0 then i + n else i in Z.max 0 (Z.min n j).
Definition slice {A} (a : list A) (s e : Z) : list A :=
  let n := zlen a in
  let s' := slice_bound n s in
  let e' := slice_bound n e in
  firstn (Z.to_nat (e' - s')) (skipn (Z.to_nat s') a).

Fixpoint zrange_from (s : Z) (k : nat) : list Z :=
  match k with O => [] | S k' => s :: zrange_from (s + 1) k' end.
Definition zrange (n : Z) : list Z := zrange_from 0 (Z.to_nat n).

(* np.tile(a, r) for a 1-d array and r >= 0 *)
Fixpoint tile {A} (a : list A) (r : nat) : list A :=
  match r with O => [] | S r' => a ++ tile a r' end.

(* random_values = random_state.random(size=(k, m)): the stream fills the rows in C order *)
Fixpoint chop {A} (k : nat) (m : nat) (s : list A) : list (list A) :=
  match k with O => [] | S k' => firstn m s :: chop k' m (skipn m s) end.

Section Generic.
Context {T : Type} `{Num T}.

(* np.cumsum: strictly left to right *)
Fixpoint cumsum_from (acc : T) (l : list T) : list T :=
  match l with [] => [] | x :: r => let s := nadd acc x in s :: cumsum_from s r end.
Definition cumsum (l : list T) : list T :=
  match l with [] => [] | x :: r => x :: cumsum_from x r end.

(* util/array.py::searchsorted
     lo = -1; hi = len(a)
     while lo < hi-1: m = (lo+hi)//2;  if v < a[m]: hi = m  else: lo = m
     return hi                                                                  *)
Fixpoint ss_loop (fuel : nat) (a : list T) (v : T) (lo hi : Z) : res Z :=
  match fuel with
  | O => NoFuel
  | S f =>
    if lo <? hi - 1 then
      let m := (lo + hi) / 2 in
      bind (rd a m) (fun x => if nltb v x then ss_loop f a v lo m else ss_loop f a v m hi)
    else Ok hi
  end.
Definition searchsorted (a : list T) (v : T) : res Z :=
  ss_loop (S (length a)) a v (-1) (zlen a).

(* the repaired idiom  searchsorted(cdf, u * cdf[-1]) *)
Definition inv_cdf (cdf : list T) (u : T) : res Z :=
  bind (rdw cdf (-1)) (fun c => searchsorted cdf (nmul u c)).

(* _generate_sample_paths, one row i of `out`:
     out[i,0] = init_states[i]
     for t: cdf = P_cdfs[out[i,t]]; out[i,t+1] = searchsorted(cdf, random_values[i,t]*cdf[-1]) *)
Fixpoint path_dense (cdfs : list (list T)) (x : Z) (us : list T) : res (list Z) :=
  match us with
  | [] => Ok [x]
  | u :: r =>
    bind (rdw cdfs x) (fun cdf =>
    bind (inv_cdf cdf u) (fun y =>
    bind (path_dense cdfs y r) (fun p => Ok (x :: p))))
  end.

(* _generate_sample_paths_sparse, one row of `out`:
     cdf = P_cdfs1d[indptr[out[i,t]] : indptr[out[i,t]+1]]
     k = searchsorted(cdf, random_values[i,t]*cdf[-1]); out[i,t+1] = indices[indptr[out[i,t]]+k] *)
Fixpoint path_sparse (cdfs1d : list T) (indices indptr : list Z) (x : Z) (us : list T)
  : res (list Z) :=
  match us with
  | [] => Ok [x]
  | u :: r =>
    bind (rdw indptr x) (fun s =>
    bind (rdw indptr (x + 1)) (fun e =>
    let cdf := slice cdfs1d s e in
    bind (inv_cdf cdf u) (fun k =>
    bind (rdw indices (s + k)) (fun y =>
    bind (path_sparse cdfs1d indices indptr y r) (fun p => Ok (x :: p))))))
  end.

Definition gen_paths_dense (cdfs : list (list T)) (inits : list Z) (us : list (list T))
  : res (list (list Z)) :=
  mapM (fun iu => path_dense cdfs (fst iu) (snd iu)) (combine inits us).
Definition gen_paths_sparse (cdfs1d : list T) (indices indptr : list Z) (inits : list Z)
  (us : list (list T)) : res (list (list Z)) :=
  mapM (fun iu => path_sparse cdfs1d indices indptr (fst iu) (snd iu)) (combine inits us).

(* MarkovChain.cdfs / cdfs1d *)
Definition cdfs_dense (P : list (list T)) : list (list T) := map cumsum P.
(* for i in range(n): cdfs1d[indptr[i]:indptr[i+1]] = data[indptr[i]:indptr[i+1]].cumsum()
   (canonical indptr: the row blocks tile data, so this is their concatenation) *)
Definition cdfs1d_of (n : Z) (data : list T) (indptr : list Z) : list T :=
  concat (map (fun i => cumsum (slice data (nth (Z.to_nat i) indptr 0) (nth (Z.to_nat (i + 1)) indptr 0)))
              (zrange n)).

(* MarkovChain.__init__ checks: square, entries >= 0, np.allclose(row sums, 1)
   (|s-1| <= tol with tol = atol + rtol*|1| read from numpy by the harness).
   The row sum is taken left to right here; numpy's reduction may associate
   differently, which only matters within a few ulp of the tolerance boundary. *)
Definition nabs (x : T) : T := if nltb x nzero then nsub nzero x else x.
Definition sum_seq (l : list T) : T := fold_left nadd l nzero.
Definition row_close (tol : T) (row : list T) : bool := nleb (nabs (nsub (sum_seq row) none_)) tol.
Definition mc_accepts_dense (tol : T) (P : list (list T)) : bool :=
  forallb (fun row => Nat.eqb (length row) (length P)) P
  && forallb (forallb (fun p => nleb nzero p)) P
  && forallb (row_close tol) P.
Definition mc_accepts_sparse (tol : T) (n : Z) (data : list T) (indptr : list Z) : bool :=
  forallb (fun p => nleb nzero p) data
  && forallb (fun i => row_close tol (slice data (nth (Z.to_nat i) indptr 0) (nth (Z.to_nat (i + 1)) indptr 0)))
             (zrange n).

(* ---- simulate_indices: init / num_reps handling ---- *)
Inductive init_t := INone | IInt (i : Z) | IArr (l : list Z).

Definition in_state_range (n i : Z) : bool := negb ((i >=? n) || (i <? - n)).

(* returns (dim == 2, init_states).  `drawn` are the integers rng_integers(random_state, n, size=k)
   returned (used only when init is None). *)
Definition init_states (n : Z) (init : init_t) (num_reps : option Z) (drawn : list Z)
  : res (bool * list Z) :=
  match init with
  | IArr l =>
    if forallb (in_state_range n) l then
      match num_reps with
      | None => Ok (true, l)
      | Some r => if r <? 0 then ValueErr else Ok (true, tile l (Z.to_nat r))
      end
    else ValueErr
  | INone =>
    match num_reps with
    | None => Ok (false, firstn 1 drawn)
    | Some r => if r <? 0 then ValueErr else Ok (true, firstn (Z.to_nat r) drawn)
    end
  | IInt i =>
    if in_state_range n i then
      match num_reps with
      | None => Ok (false, [i])
      | Some r => if r <? 0 then ValueErr else Ok (true, repeat i (Z.to_nat r))
      end
    else ValueErr
  end.

(* the chain as the kernels see it *)
Inductive chain :=
| Dense (P : list (list T))
| Sparse (n : Z) (data : list T) (indices indptr : list Z).

Definition chain_n (c : chain) : Z :=
  match c with Dense P => zlen P | Sparse n _ _ _ => n end.

Definition chain_paths (c : chain) (inits : list Z) (us : list (list T)) : res (list (list Z)) :=
  match c with
  | Dense P => gen_paths_dense (cdfs_dense P) inits us
  | Sparse n data indices indptr => gen_paths_sparse (cdfs1d_of n data indptr) indices indptr inits us
  end.

(* X = np.empty((k, ts_length)); random_values = random_state.random(size=(k, ts_length-1));
   kernel; return X[0] if dim == 1 else X.   Result: (dim == 2, rows of X). *)
Definition simulate_indices (c : chain) (ts : Z) (init : init_t) (num_reps : option Z)
  (drawn : list Z) (stream : list T) : res (bool * list (list Z)) :=
  bind (init_states (chain_n c) init num_reps drawn) (fun di =>
  let '(dim2, inits) := di in
  (* init_states = init_states % self.n  (commit 454b8b2: negative indices count from the end) *)
  let inits := map (fun i => i mod (chain_n c)) inits in
  if ts <? 1 then ValueErr    (* negative dimensions are not allowed *)
  else bind (chain_paths c inits (chop (length inits) (Z.to_nat (ts - 1)) stream))
            (fun X => Ok (dim2, X))).

(* MarkovChain.simulate with state_values=None: get_index accepts only 0 <= init < n *)
Definition index_ok (n i : Z) : bool := (0 <=? i) && (i <? n).
Definition simulate (c : chain) (ts : Z) (init : init_t) (num_reps : option Z)
  (drawn : list Z) (stream : list T) : res (bool * list (list Z)) :=
  match init with
  | IInt i => if index_ok (chain_n c) i then simulate_indices c ts init num_reps drawn stream else ValueErr
  | IArr l => if forallb (index_ok (chain_n c)) l then simulate_indices c ts init num_reps drawn stream
              else ValueErr
  | INone => simulate_indices c ts init num_reps drawn stream
  end.

(* mc_sample_path(P, init, sample_size): init an integer, or a distribution from which X_0 is
   drawn with the first uniform of the stream (u_0 = random_state.random()) *)
Definition mc_sample_path (c : chain) (init : Z + list T) (sample_size : Z) (stream : list T)
  : res (list Z) :=
  let go (x0 : Z) (s : list T) :=
    bind (simulate c sample_size (IInt x0) None [] s) (fun r =>
      match snd r with [row] => Ok row | _ => ValueErr end) in
  match init with
  | inl x0 => go x0 stream
  | inr psi =>
    match stream with
    | [] => ValueErr
    | u0 :: s => bind (inv_cdf (cumsum psi) u0) (fun x0 => go x0 s)
    end
  end.

(* quantecon.random.draw(cdf, size) : searchsorted(cdf, r * cdf[-1]) for each uniform r *)
Definition qe_draw (cdf : list T) (us : list T) : res (list Z) := mapM (inv_cdf cdf) us.

(* ndarray.searchsorted(v, side='right') for a sorted array: the number of leading
   entries a[i] <= v (NumPy's C binary search is modelled by its result on sorted
   input; cumulative sums of non-negative numbers are sorted) *)
Fixpoint np_searchsorted_right (a : list T) (v : T) : Z :=
  match a with
  | [] => 0
  | x :: r => if nleb x v then 1 + np_searchsorted_right r v else 0
  end.

(* DiscreteRV(q).draw(k): Q = cumsum(q); scale = min(Q[-1], 1.0);
   Q.searchsorted(uniform(0,1,k)*scale, side='right')   (Q[-1] on an empty Q: IndexError -> OOB) *)
Definition drv_draw (q : list T) (us : list T) : res (list Z) :=
  let Q := cumsum q in
  bind (rdw Q (-1)) (fun c =>
  let scale := if nltb none_ c then none_ else c in
  Ok (map (fun u => np_searchsorted_right Q (nmul u scale)) us)).

End Generic.


(* DiscreteRV as an object: the state is Q = cumsum(q) (the setter of q recomputes it);
   operations: assignment drv.q = q', and draw(k) with the k uniforms drawn *)
Section DiscreteRVOps.
Context {T : Type} `{Num T}.
Inductive drv_op := DSetQ (q : list T) | DDraw (us : list T).

Definition drv_draw_Q (Q : list T) (us : list T) : res (list Z) :=
  bind (rdw Q (-1)) (fun c =>
  let scale := if nltb none_ c then none_ else c in
  Ok (map (fun u => np_searchsorted_right Q (nmul u scale)) us)).

(* fold over the operations: (current Q, outputs of the draws so far) *)
Definition drv_run (q0 : list T) (ops : list drv_op) : list (res (list Z)) :=
  snd (fold_left (fun st op =>
                    match op with
                    | DSetQ q => (cumsum q, snd st)
                    | DDraw us => (fst st, snd st ++ [drv_draw_Q (fst st) us])
                    end) ops (cumsum q0, [])).
End DiscreteRVOps.

(* MarkovChain.simulate with integer state_values (1-d, length n):
   get_index: np.where(state_values == value)[0][0] (first match, ValueError if none);
   the result is state_values[X] for the index paths X *)
Fixpoint index_of (sv : list Z) (v : Z) (i : Z) : res Z :=
  match sv with
  | [] => ValueErr
  | x :: r => if x =? v then Ok i else index_of r v (i + 1)
  end.
Definition annotate (sv : list Z) (X : list (list Z)) : list (list Z) :=
  map (map (fun i => nth (Z.to_nat i) sv 0)) X.

Section SimulateSV.
Context {T : Type} `{Num T}.
Definition simulate_sv (c : chain) (sv : list Z) (ts : Z) (init : init_t) (num_reps : option Z)
  (drawn : list Z) (stream : list T) : res (bool * list (list Z)) :=
  bind (match init with
        | INone => Ok INone
        | IInt v => bind (index_of sv v 0) (fun i => Ok (IInt i))
        | IArr l => bind (mapM (fun v => index_of sv v 0) l) (fun li => Ok (IArr li))
        end) (fun init_idx =>
  bind (simulate_indices c ts init_idx num_reps drawn stream) (fun r => Ok (fst r, annotate sv (snd r)))).
End SimulateSV.

(* C10: the hand-written model's searchsorted and the kernel REGENERATED from /repo's source
   (Gen/Kernels.v) compute the same result: gen_searchsorted a v = (k, true) iff searchsorted a v = Ok k. *)
From Coq Require Import ZArith List Bool Lia.
From QE Require Import Base.Num Gen.Kernels C10.Model C10.Proofs C10.TieGen.
Import ListNotations.
Open Scope Z_scope.

Section Tie.
Context {T : Type} `{Num T}.

Lemma rd_nth (a : list T) m : 0 <= m < Z.of_nat (length a) -> rd a m = Ok (nth (Z.to_nat m) a nzero).
Proof.
  intros Hm. apply rd_Ok_iff. split; [lia|]. apply nth_error_nth'. lia.
Qed.

Lemma tie_loop (a : list T) (v : T) : forall fuel hi lo,
  -1 <= lo < hi -> hi <= Z.of_nat (length a) -> hi - lo <= Z.of_nat fuel ->
  exists hi' lo', gen_searchsorted_loop0 fuel hi lo true a v = (hi', lo', true) /\
                  ss_loop fuel a v lo hi = Ok hi'.
Proof.
  induction fuel as [|f IH]; intros hi lo Hlo Hhi Hf; [simpl in Hf; lia|].
  cbn [gen_searchsorted_loop0 ss_loop].
  destruct (Z.ltb_spec lo (hi - 1)) as [Hlt|Hge].
  - assert (Hm : lo < (lo + hi) / 2 < hi) by (Z.div_mod_to_equations; lia).
    assert (Hin : inb ((lo + hi) / 2) a = true) by (unfold inb; lia).
    rewrite Hin, rd_nth by lia. cbn [andb bind].
    destruct (nltb v (nth (Z.to_nat ((lo + hi) / 2)) a nzero)); apply IH; lia.
  - exists hi, lo. split; reflexivity.
Qed.

Theorem gen_searchsorted_tie (a : list T) (v : T) (k : Z) :
  gen_searchsorted a v = (k, true) <-> searchsorted a v = Ok k.
Proof.
  unfold gen_searchsorted, searchsorted, zlen. cbv zeta.
  destruct (tie_loop a v (S (length a)) (Z.of_nat (length a)) (-1)) as [hi' [lo' [E1 E2]]]; try lia.
  rewrite E1, E2. split; intro E; injection E as <-; reflexivity.
Qed.
End Tie.

(* C10: F3 (order facts) and monotonicity of cumulative sums for binary64; instantiation of the generic
   path theorems at the PrimFloat instance NumF. *)
From Coq Require Import ZArith Reals Lia Lra Bool List.
From Flocq Require Import Core.Core IEEE754.BinarySingleNaN IEEE754.PrimFloat.
From QE Require Import Base.Num C10.Model C10.Proofs C10.Proofs2 C10.Proofs3 C10.FloatConsts C10.FloatFacts.
Import ListNotations.
Open Scope R_scope.

(* ------------------------------------------------------------------ F3 *)
Lemma Bltb_nan_r (V : B64) : Bltb V B754_nan = false.
Proof. destruct V as [s|s| |s m e h]; reflexivity. Qed.
Lemma Bltb_ninf_r (V : B64) : Bltb V (B754_infinity true) = false.
Proof. destruct V as [s|[|]| |[|] m e h]; reflexivity. Qed.
Lemma Bltb_fin_pinf (Z : B64) : is_finite Z = true -> Bltb Z (B754_infinity false) = true.
Proof. destruct Z as [s|s| |[|] m e h]; try discriminate; reflexivity. Qed.
Lemma Bltb_ninf_fin (Z : B64) : is_finite Z = true -> Bltb (B754_infinity true) Z = true.
Proof. destruct Z as [s|s| |[|] m e h]; try discriminate; reflexivity. Qed.

Theorem F3_binary64 : forall v y z, fin z ->
  PrimFloat.ltb v y = true -> PrimFloat.ltb z y = false -> PrimFloat.ltb v z = true.
Proof.
  intros v y z Fz Hvy Hzy. unfold fin in Fz. rewrite ltb_equiv in *.
  destruct (is_finite (Prim2B y)) eqn:Fy.
  - destruct (B_upper (Prim2B y) (Prim2B v) Fy (or_intror Hvy)) as [Fv|Ev].
    + rewrite (Bltb_correct _ _ _ _ Fv Fy) in Hvy. rewrite (Bltb_correct _ _ _ _ Fz Fy) in Hzy.
      rewrite (Bltb_correct _ _ _ _ Fv Fz). apply Rlt_bool_true.
      destruct (Rlt_bool_spec (B2R (Prim2B v)) (B2R (Prim2B y))); [|discriminate].
      destruct (Rlt_bool_spec (B2R (Prim2B z)) (B2R (Prim2B y))); [discriminate|]. lra.
    + rewrite Ev. apply Bltb_ninf_fin. exact Fz.
  - exfalso. destruct (Prim2B y) as [s|[|]| |s m e h]; try discriminate.
    + rewrite Bltb_ninf_r in Hvy. discriminate.
    + rewrite (Bltb_fin_pinf _ Fz) in Hzy. discriminate.
    + rewrite Bltb_nan_r in Hvy. discriminate.
Qed.

(* ------------------------------------------------------------------ cumulative sums of non-negative finite
   floats are monotone (as long as they stay finite) *)
Definition nonneg64 (p : PrimFloat.float) : Prop := PrimFloat.leb f_zero p = true /\ fin p.

Lemma add_ge64 s x : fin s -> nonneg64 x -> fin (PrimFloat.add s x) -> RR s <= RR (PrimFloat.add s x).
Proof.
  intros Fs [Hx Fx] Fa. unfold RR, fin in *. rewrite add_equiv in *.
  pose proof (Bplus_correct FloatOps.prec FloatOps.emax _ _ mode_NE (Prim2B s) (Prim2B x) Fs Fx) as Hp.
  change (SpecFloat.fexp FloatOps.prec FloatOps.emax) with fexp64 in Hp.
  change (round_mode mode_NE) with ZnearestE in Hp.
  destruct (Rlt_bool_spec (Rabs (rnd64 (B2R (Prim2B s) + B2R (Prim2B x)))) (bpow radix2 FloatOps.emax)) as [Hb|Hb].
  - destruct Hp as [Er _]. rewrite Er.
    assert (Hx0 : 0 <= B2R (Prim2B x)).
    { rewrite leb_equiv in Hx. pose proof fin_zero as Fz. unfold fin in Fz.
      rewrite (Bleb_correct _ _ _ _ Fz Fx) in Hx. pose proof RR_zero as Rz. unfold RR in Rz. rewrite Rz in Hx.
      destruct (Rle_bool_spec 0 (B2R (Prim2B x))); [assumption|discriminate]. }
    rewrite <- (round_generic radix2 fexp64 ZnearestE (B2R (Prim2B s))) at 1
      by exact (generic_format_B2R FloatOps.prec FloatOps.emax (Prim2B s)).
    apply round_le; try typeclasses eauto. lra.
  - exfalso. destruct Hp as [Eo _].
    rewrite <- is_finite_SF_B2SF, Eo in Fa. destruct (Bsign (Prim2B s)); discriminate Fa.
Qed.

Definition row64_ok (l : list PrimFloat.float) : Prop := forall p, In p l -> nonneg64 p.

Lemma cumsum_from_ge64 : forall (l : list PrimFloat.float) acc,
  fin acc -> row64_ok l -> (forall c, In c (cumsum_from acc l) -> fin c) ->
  forall c, In c (cumsum_from acc l) -> RR acc <= RR c.
Proof.
  induction l as [|x r IH]; intros acc Fa Hl Hf c Hc; [destruct Hc|].
  cbn [cumsum_from] in Hc, Hf. change (nadd acc x) with (PrimFloat.add acc x) in *.
  assert (F1 : fin (PrimFloat.add acc x)) by (apply Hf; left; reflexivity).
  assert (Hge : RR acc <= RR (PrimFloat.add acc x)) by (apply add_ge64; auto; apply Hl; left; reflexivity).
  destruct Hc as [<-|Hc]; [exact Hge|].
  eapply Rle_trans; [exact Hge|]. apply IH; auto.
  - intros p Hp. apply Hl. right. exact Hp.
  - intros c' Hc'. apply Hf. right. exact Hc'.
Qed.

Lemma cumsum_from_sorted64 : forall (l : list PrimFloat.float) acc i j ci cj,
  fin acc -> row64_ok l -> (forall c, In c (cumsum_from acc l) -> fin c) -> (i <= j)%nat ->
  nth_error (cumsum_from acc l) i = Some ci -> nth_error (cumsum_from acc l) j = Some cj -> RR ci <= RR cj.
Proof.
  induction l as [|x r IH]; intros acc i j ci cj Fa Hl Hf Hij Hi Hj; [destruct i; discriminate|].
  cbn [cumsum_from] in Hi, Hj, Hf. change (nadd acc x) with (PrimFloat.add acc x) in *.
  assert (F1 : fin (PrimFloat.add acc x)) by (apply Hf; left; reflexivity).
  assert (Hl' : row64_ok r) by (intros p Hp; apply Hl; right; exact Hp).
  assert (Hf' : forall c, In c (cumsum_from (PrimFloat.add acc x) r) -> fin c) by (intros c Hc; apply Hf; right; exact Hc).
  destruct i, j; simpl in Hi, Hj; try lia.
  - injection Hi as <-. injection Hj as <-. apply Rle_refl.
  - injection Hi as <-. apply (cumsum_from_ge64 r _ F1 Hl' Hf'). eapply nth_error_In; eauto.
  - eapply (IH (PrimFloat.add acc x) i j); eauto. lia.
Qed.

Theorem cumsum_monotone64 : forall row : list PrimFloat.float,
  row64_ok row -> (forall c, In c (cumsum row) -> fin c) -> monotone (cumsum row).
Proof.
  intros row Hl Hf i j ci cj Hij Hi Hj.
  assert (Fi : fin ci) by (apply Hf; eapply nth_error_In; eauto).
  assert (Fj : fin cj) by (apply Hf; eapply nth_error_In; eauto).
  change (nltb cj ci) with (PrimFloat.ltb cj ci). rewrite (ltb_R _ _ Fj Fi). apply Rlt_bool_false.
  destruct row as [|x r]; [destruct i; discriminate|].
  cbn [cumsum] in Hi, Hj, Hf.
  assert (Fx : fin x) by (apply Hf; left; reflexivity).
  assert (Hl' : row64_ok r) by (intros p Hp; apply Hl; right; exact Hp).
  assert (Hf' : forall c, In c (cumsum_from x r) -> fin c) by (intros c Hc; apply Hf; right; exact Hc).
  destruct i, j; simpl in Hi, Hj; try lia.
  - injection Hi as <-. injection Hj as <-. apply Rle_refl.
  - injection Hi as <-. apply (cumsum_from_ge64 r x Fx Hl' Hf'). eapply nth_error_In; eauto.
  - eapply (cumsum_from_sorted64 r x i j); eauto. lia.
Qed.

(* ------------------------------------------------------------------ the generic theorems at NumF, unconditional *)
Lemma F1a u c : scal64 c -> unitv (T:=PrimFloat.float) u -> nltb (nmul u c) c = true.
Proof. intros Hc Hu. exact (proj1 (F1_binary64 u c Hc Hu)). Qed.
Lemma F1b u c : scal64 c -> unitv (T:=PrimFloat.float) u -> nltb (nmul u c) nzero = false.
Proof. intros Hc Hu. exact (proj2 (F1_binary64 u c Hc Hu)). Qed.
Lemma F2a (x p v : PrimFloat.float) : nleb nzero p = true -> nltb nzero p = false -> nltb v (nadd x p) = nltb v x.
Proof. exact (F2_binary64 x p v). Qed.
Lemma F2b (p v : PrimFloat.float) : nleb nzero p = true -> nltb nzero p = false -> nltb v p = true -> nltb v nzero = true.
Proof. exact (F2z_binary64 p v). Qed.

Theorem path_valid_binary64 : forall (P : list (list PrimFloat.float)) us x,
  matrix_ok scal64 P -> (0 <= x < zlen P)%Z -> Forall unitv us ->
  exists p, path_dense (cdfs_dense P) x us = Ok p /\ valid_path P x us p.
Proof. exact (path_dense_valid scal64 F1a F1b F2a F2b). Qed.

Theorem simulate_indices_binary64 : forall (P : list (list PrimFloat.float)) ts init nr drawn stream d inits,
  matrix_ok scal64 P -> (0 < zlen P)%Z -> (1 <= ts)%Z -> Forall unitv stream ->
  init_states (zlen P) init nr drawn = Ok (d, inits) ->
  exists X, simulate_indices (Dense P) ts init nr drawn stream = Ok (d, X) /\
    Forall2 (fun iu p => valid_path P (fst iu) (snd iu) p)
            (combine (map (fun i => (i mod zlen P)%Z) inits)
                     (chop (length inits) (Z.to_nat (ts - 1)) stream)) X.
Proof. exact (simulate_indices_dense_valid scal64 F1a F1b F2a F2b). Qed.

Theorem path_sparse_binary64 : forall (rows : list (list (Z * PrimFloat.float))) us x,
  csr_ok scal64 rows -> (0 <= x < zlen rows)%Z -> Forall unitv us ->
  exists p, path_sparse (cdfs1d_of (zlen rows) (csr_data rows) (csr_indptr rows))
                        (csr_indices rows) (csr_indptr rows) x us = Ok p /\
            valid_sparse_path rows x us p.
Proof. exact (path_sparse_valid scal64 F1a F1b F2a F2b). Qed.

(* least-index characterisation for binary64 (uses F3 and the monotone cumulative sums) *)
Theorem bracket_least_binary64 : forall (row : list PrimFloat.float) v k x,
  row64_ok row -> (forall c, In c (cumsum row) -> fin c) ->
  rd (cumsum row) k = Ok x -> nltb v x = true ->
  (k = 0%Z \/ exists x', rd (cumsum row) (k - 1) = Ok x' /\ nltb v x' = false) ->
  (forall j cj, (j < Z.to_nat k)%nat -> nth_error (cumsum row) j = Some cj -> nltb v cj = false) /\
  (forall j cj, (Z.to_nat k <= j)%nat -> nth_error (cumsum row) j = Some cj -> nltb v cj = true).
Proof.
  intros row v k x Hl Hf. apply (@bracket_least PrimFloat.float NumF fin F3_binary64); auto. apply cumsum_monotone64; auto.
Qed.

(* the scaling fact in the form LogitDynamics needs: not (c <= u*c) *)
Theorem logit_scaling_binary64 : forall u c, scal64 c -> unitv (T:=PrimFloat.float) u ->
  nleb c (nmul u c) = false.
Proof.
  intros u c Hc Hu. change (PrimFloat.leb c (PrimFloat.mul u c) = false).
  destruct (scal64_fin c Hc) as [Fc [Hc1 Hc2]]. destruct (unit64_fin u Hu) as [Fu Hu01].
  destruct (mul_lt_core (RR u) (RR c) (fmt_RR u) (fmt_RR c) Hu01 Hc1) as [Hlt Hge].
  assert (Hb : Rabs (rnd64 (RR u * RR c)) < bpow radix2 1024).
  { rewrite Rabs_pos_eq by exact Hge.
    assert (bpow radix2 1000 < bpow radix2 1024) by (apply bpow_lt; lia). lra. }
  destruct (mul_correct64 u c Fu Fc Hb) as [Er Fm].
  rewrite (leb_R _ _ Fc Fm), Er. apply Rle_bool_false. exact Hlt.
Qed.

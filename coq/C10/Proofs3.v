(* C10 proofs, part 3: the CSR (scipy.sparse) sample-path kernel.  A CSR matrix is the flattening of a
   list of rows, each a list of stored entries (column index, probability) in storage order (unsorted
   columns, duplicates and explicit zeros allowed). *)
From Coq Require Import ZArith QArith List Bool Lia Lqa.
From QE Require Import Base.Num C10.Model C10.Proofs C10.Proofs2.
Import ListNotations.
Open Scope Z_scope.

(* ------------------------------------------------------------------ blocks and offsets *)
Definition lens {A} (blocks : list (list A)) : list nat := map (@length A) blocks.

Fixpoint offsets (acc : nat) (ls : list nat) : list nat :=
  acc :: match ls with [] => [] | l :: r => offsets (acc + l) r end.

Lemma offsets_length : forall ls acc, length (offsets acc ls) = S (length ls).
Proof. induction ls; intros; simpl; auto. Qed.

Lemma offsets_nth : forall ls acc i, (i <= length ls)%nat ->
  nth_error (offsets acc ls) i = Some (acc + list_sum (firstn i ls))%nat.
Proof.
  induction ls as [|l r IH]; intros acc i Hi.
  - simpl in Hi. assert (i = 0)%nat by lia. subst. simpl. f_equal. lia.
  - destruct i; simpl.
    + f_equal. lia.
    + rewrite IH by (simpl in Hi; lia). f_equal. lia.
Qed.

Lemma list_sum_firstn_le : forall ls i, (list_sum (firstn i ls) <= list_sum ls)%nat.
Proof. induction ls as [|l r IH]; intros i; destruct i; simpl; try lia. specialize (IH i). lia. Qed.

Lemma concat_length_lens {A} (blocks : list (list A)) : length (concat blocks) = list_sum (lens blocks).
Proof. induction blocks; simpl; auto. rewrite app_length, IHblocks. reflexivity. Qed.

Lemma skipn_concat {A} : forall (blocks : list (list A)) i,
  skipn (list_sum (firstn i (lens blocks))) (concat blocks) = concat (skipn i blocks).
Proof.
  induction blocks as [|b r IH]; intros i; destruct i; simpl; auto.
  rewrite skipn_app. rewrite skipn_all2 by lia. simpl.
  replace (length b + list_sum (firstn i (lens r)) - length b)%nat with (list_sum (firstn i (lens r))) by lia.
  apply IH.
Qed.

Lemma skipn_nth_cons {A} : forall (l : list A) i x, nth_error l i = Some x -> skipn i l = x :: skipn (S i) l.
Proof.
  induction l as [|a r IH]; intros i x Hx; [destruct i; discriminate|].
  destruct i; simpl in *; [congruence|]. apply IH. exact Hx.
Qed.

Lemma firstn_S_sum : forall ls i l, nth_error ls i = Some l ->
  list_sum (firstn (S i) ls) = (list_sum (firstn i ls) + l)%nat.
Proof.
  induction ls as [|a r IH]; intros i l Hl; [destruct i; discriminate|].
  destruct i; simpl in *.
  - injection Hl as ->. lia.
  - rewrite (IH i l Hl). lia.
Qed.

(* the i-th block is the slice between consecutive offsets *)
Lemma block_slice {A} : forall (blocks : list (list A)) i b,
  nth_error blocks i = Some b ->
  slice (concat blocks) (Z.of_nat (list_sum (firstn i (lens blocks))))
                        (Z.of_nat (list_sum (firstn (S i) (lens blocks)))) = b.
Proof.
  intros blocks i b Hb.
  assert (Hl : nth_error (lens blocks) i = Some (length b)).
  { unfold lens. rewrite nth_error_map, Hb. reflexivity. }
  assert (Hle : (list_sum (firstn i (lens blocks)) + length b <= length (concat blocks))%nat).
  { rewrite concat_length_lens. rewrite <- (firstn_S_sum _ _ _ Hl). apply list_sum_firstn_le. }
  rewrite (firstn_S_sum _ _ _ Hl).
  set (s := list_sum (firstn i (lens blocks))) in *.
  unfold slice, slice_bound, zlen.
  destruct (Z.ltb_spec (Z.of_nat s) 0); [lia|]. destruct (Z.ltb_spec (Z.of_nat (s + length b)) 0); [lia|].
  rewrite !Z.min_r by lia. rewrite !Z.max_r by lia.
  replace (Z.to_nat (Z.of_nat (s + length b) - Z.of_nat s)) with (length b) by lia.
  rewrite Nat2Z.id. unfold s. rewrite skipn_concat, (skipn_nth_cons _ _ _ Hb). simpl.
  rewrite firstn_app, Nat.sub_diag, firstn_all. simpl. now rewrite app_nil_r.
Qed.

Lemma concat_nth_offset {A} : forall (blocks : list (list A)) i b k x,
  nth_error blocks i = Some b -> nth_error b k = Some x ->
  nth_error (concat blocks) (list_sum (firstn i (lens blocks)) + k) = Some x.
Proof.
  induction blocks as [|b0 r IH]; intros i b k x Hb Hx; [destruct i; discriminate|].
  destruct i; simpl in *.
  - injection Hb as ->. rewrite nth_error_app1; auto. apply nth_error_Some. congruence.
  - rewrite nth_error_app2 by lia.
    replace (length b0 + list_sum (firstn i (lens r)) + k - length b0)%nat with (list_sum (firstn i (lens r)) + k)%nat by lia.
    eapply IH; eauto.
Qed.

Lemma zrange_from_In' : forall k s i, In i (zrange_from s k) <-> s <= i < s + Z.of_nat k.
Proof.
  induction k as [|k IH]; intros s i; simpl; [lia|].
  rewrite IH. lia.
Qed.

Lemma lens_map_map {A B} (f : A -> B) (rows : list (list A)) : lens (map (map f) rows) = lens rows.
Proof. unfold lens. rewrite map_map. apply map_ext. intros. apply map_length. Qed.

Lemma zrange_from_map_nth {A B} (f : list A -> B) : forall (l : list (list A)) (pre : list (list A)),
  map (fun i => f (nth (Z.to_nat i) (pre ++ l) [])) (zrange_from (Z.of_nat (length pre)) (length l)) = map f l.
Proof.
  induction l as [|a r IH]; intros pre; simpl; [reflexivity|]. f_equal.
  - rewrite Nat2Z.id, app_nth2, Nat.sub_diag by lia. reflexivity.
  - specialize (IH (pre ++ [a])). rewrite <- app_assoc in IH. simpl in IH.
    rewrite app_length in IH. simpl in IH.
    replace (Z.of_nat (length pre) + 1) with (Z.of_nat (length pre + 1)) by lia. exact IH.
Qed.

(* ------------------------------------------------------------------ the CSR kernel *)
Section Sparse.
Context {T : Type} `{Num T}.
Variable scal_ok : T -> Prop.
Hypothesis F1 : forall u c, scal_ok c -> unitv u -> nltb (nmul u c) c = true.
Hypothesis F1z : forall u c, scal_ok c -> unitv u -> nltb (nmul u c) nzero = false.
Hypothesis F2 : forall x p v, nleb nzero p = true -> nltb nzero p = false -> nltb v (nadd x p) = nltb v x.
Hypothesis F2z : forall p v, nleb nzero p = true -> nltb nzero p = false -> nltb v p = true -> nltb v nzero = true.

Definition csr_data (rows : list (list (Z * T))) : list T := concat (map (map snd) rows).
Definition csr_indices (rows : list (list (Z * T))) : list Z := concat (map (map fst) rows).
Definition csr_indptr (rows : list (list (Z * T))) : list Z := map Z.of_nat (offsets 0 (lens rows)).
Definition csr_of (rows : list (list (Z * T))) : chain :=
  Sparse (zlen rows) (csr_data rows) (csr_indices rows) (csr_indptr rows).

Definition off (rows : list (list (Z * T))) (i : nat) : nat := list_sum (firstn i (lens rows)).

Lemma indptr_nth : forall rows i, (i <= length rows)%nat ->
  nth_error (csr_indptr rows) i = Some (Z.of_nat (off rows i)).
Proof.
  intros rows i Hi. unfold csr_indptr, off. rewrite nth_error_map, offsets_nth; [reflexivity|].
  unfold lens. now rewrite map_length.
Qed.

Lemma indptr_nth_default : forall rows i, (i <= length rows)%nat ->
  nth i (csr_indptr rows) 0 = Z.of_nat (off rows i).
Proof. intros. apply nth_error_nth. now apply indptr_nth. Qed.

Lemma rdw_indptr : forall rows x, 0 <= x <= zlen rows ->
  rdw (csr_indptr rows) x = Ok (Z.of_nat (off rows (Z.to_nat x))).
Proof.
  intros rows x Hx. unfold rdw. destruct (Z.ltb_spec x 0); [lia|]. apply rd_Ok_iff. split; [lia|].
  apply indptr_nth. unfold zlen in Hx. lia.
Qed.

Lemma cdfs1d_blocks : forall rows,
  cdfs1d_of (zlen rows) (csr_data rows) (csr_indptr rows) = concat (map (fun r => cumsum (map snd r)) rows).
Proof.
  intros rows. unfold cdfs1d_of. f_equal.
  assert (E : forall i, In i (zrange (zlen rows)) ->
     cumsum (slice (csr_data rows) (nth (Z.to_nat i) (csr_indptr rows) 0) (nth (Z.to_nat (i + 1)) (csr_indptr rows) 0))
     = cumsum (map snd (nth (Z.to_nat i) rows []))).
  { intros i Hi. unfold zrange in Hi. apply zrange_from_In' in Hi. unfold zlen in Hi.
    rewrite !indptr_nth_default by lia.
    destruct (nth_error rows (Z.to_nat i)) as [r|] eqn:Hr.
    2:{ apply nth_error_None in Hr. lia. }
    rewrite (nth_error_nth _ _ [] Hr). f_equal.
    replace (Z.to_nat (i + 1)) with (S (Z.to_nat i)) by lia.
    unfold off, csr_data. rewrite <- (lens_map_map snd rows).
    apply block_slice. rewrite nth_error_map, Hr. reflexivity. }
  rewrite (map_ext_in _ _ _ E).
  unfold zrange, zlen. rewrite Nat2Z.id.
  exact (zrange_from_map_nth (fun r => cumsum (map snd r)) rows []).
Qed.

(* validity of the stored rows and of a sparse path *)
Definition csr_ok (rows : list (list (Z * T))) : Prop :=
  forall row, In row rows ->
    row_ok scal_ok (map snd row) /\ Forall (fun t => 0 <= t < zlen rows) (map fst row).

Inductive valid_sparse_path (rows : list (list (Z * T))) : Z -> list T -> list Z -> Prop :=
| vs_nil : forall x, valid_sparse_path rows x [] [x]
| vs_cons : forall x u us k y p row,
    0 <= x -> nth_error rows (Z.to_nat x) = Some row ->
    step_post (map snd row) u k ->               (* stored position k: in range, positive probability, bracket *)
    nth_error (map fst row) (Z.to_nat k) = Some y ->   (* its column index is the next state *)
    valid_sparse_path rows y us p -> valid_sparse_path rows x (u :: us) (x :: p).

Theorem path_sparse_valid : forall rows us x,
  csr_ok rows -> 0 <= x < zlen rows -> Forall unitv us ->
  exists p, path_sparse (cdfs1d_of (zlen rows) (csr_data rows) (csr_indptr rows))
                        (csr_indices rows) (csr_indptr rows) x us = Ok p /\
            valid_sparse_path rows x us p.
Proof.
  intros rows us. rewrite cdfs1d_blocks. induction us as [|u r IH]; intros x Hok Hx Hus.
  - exists [x]. split; [reflexivity|constructor].
  - inversion Hus as [|? ? Hu Hr]; subst. cbn [path_sparse].
    rewrite (rdw_indptr rows x) by lia. cbn [bind].
    rewrite (rdw_indptr rows (x + 1)) by lia. cbn [bind].
    destruct (nth_error rows (Z.to_nat x)) as [row|] eqn:Hrow.
    2:{ apply nth_error_None in Hrow. unfold zlen in Hx. lia. }
    replace (Z.to_nat (x + 1)) with (S (Z.to_nat x)) by lia.
    assert (Hsl : slice (concat (map (fun r0 => cumsum (map snd r0)) rows)) (Z.of_nat (off rows (Z.to_nat x)))
                        (Z.of_nat (off rows (S (Z.to_nat x)))) = cumsum (map snd row)).
    { unfold off.
      assert (El : lens rows = lens (map (fun r0 : list (Z * T) => cumsum (map snd r0)) rows)).
      { unfold lens. rewrite map_map. apply map_ext. intros a. now rewrite cumsum_length, map_length. }
      rewrite El. apply block_slice. rewrite nth_error_map, Hrow. reflexivity. }
    rewrite Hsl.
    destruct (Hok row (nth_error_In _ _ Hrow)) as [Hrok Htg].
    destruct (inv_cdf_step scal_ok F1 F1z F2 F2z (map snd row) u Hrok Hu) as [k [Ek Hk]].
    rewrite Ek. cbn [bind].
    assert (Hkr : 0 <= k < zlen row) by (destruct Hk as [Hk _]; unfold zlen in *; rewrite map_length in Hk; lia).
    destruct (nth_error (map fst row) (Z.to_nat k)) as [y|] eqn:Hy.
    2:{ apply nth_error_None in Hy. rewrite map_length in Hy. unfold zlen in Hkr. lia. }
    assert (Hrd : rdw (csr_indices rows) (Z.of_nat (off rows (Z.to_nat x)) + k) = Ok y).
    { unfold rdw. destruct (Z.ltb_spec (Z.of_nat (off rows (Z.to_nat x)) + k) 0); [lia|].
      apply rd_Ok_iff. split; [lia|].
      replace (Z.to_nat (Z.of_nat (off rows (Z.to_nat x)) + k)) with (off rows (Z.to_nat x) + Z.to_nat k)%nat by lia.
      unfold off, csr_indices. rewrite <- (lens_map_map fst rows).
      eapply concat_nth_offset; eauto. rewrite nth_error_map, Hrow. reflexivity. }
    rewrite Hrd. cbn [bind].
    assert (Hyr : 0 <= y < zlen rows).
    { rewrite Forall_forall in Htg. apply Htg. eapply nth_error_In; eauto. }
    destruct (IH y Hok Hyr Hr) as [p [Ep Vp]].
    rewrite Ep. cbn [bind]. exists (x :: p). split; [reflexivity|].
    econstructor; eauto. lia.
Qed.

Lemma valid_sparse_path_range : forall rows x us p, valid_sparse_path rows x us p ->
  0 <= x < zlen rows -> csr_ok rows -> Forall (fun s => 0 <= s < zlen rows) p /\ length p = S (length us).
Proof.
  induction 1 as [|x u us k y p row Hx Hrow Hst Hy Hv IH]; intros Hr Hok.
  - split; [constructor; auto|reflexivity].
  - destruct (Hok row (nth_error_In _ _ Hrow)) as [_ Htg].
    assert (Hyr : 0 <= y < zlen rows) by (rewrite Forall_forall in Htg; apply Htg; eapply nth_error_In; eauto).
    destruct (IH Hyr Hok) as [A B]. split; [constructor; auto|simpl; lia].
Qed.
End Sparse.

(* ------------------------------------------------------------------ exact instance *)
Section SparseExact.
Open Scope Q_scope.

Definition stochastic_csr (rows : list (list (Z * Q))) : Prop :=
  forall row, In row rows ->
    (forall p, In p (map snd row) -> 0 <= p) /\ qsum (map snd row) == 1 /\
    Forall (fun t => (0 <= t < zlen rows)%Z) (map fst row).

Lemma csr_ok_Q : forall rows, stochastic_csr rows -> csr_ok posQ rows.
Proof.
  intros rows Hs row Hrow. destruct (Hs row Hrow) as [Hnn [Hsum Htg]]. split; [|exact Htg].
  apply (row_ok_Q (zlen (map snd row))).
  - destruct (map snd row) eqn:E; [simpl in Hsum; lra|]. unfold zlen. simpl. lia.
  - split; [reflexivity|]. split; assumption.
Qed.

Theorem path_sparse_exact : forall (rows : list (list (Z * Q))) x us,
  stochastic_csr rows -> (0 <= x < zlen rows)%Z -> Forall unit_interval us ->
  exists p, path_sparse (cdfs1d_of (zlen rows) (csr_data rows) (csr_indptr rows))
                        (csr_indices rows) (csr_indptr rows) x us = Ok p /\
            length p = S (length us) /\ Forall (fun s => (0 <= s < zlen rows)%Z) p /\
            valid_sparse_path rows x us p.
Proof.
  intros rows x us Hs Hx Hus.
  assert (Hu : Forall (unitv (T:=Q)) us).
  { eapply Forall_impl; [|exact Hus]. intros u Hu. apply unitv_Q. exact Hu. }
  destruct (path_sparse_valid posQ F1_Q F1z_Q F2_Q F2z_Q rows us x (csr_ok_Q rows Hs) Hx Hu) as [p [Ep Vp]].
  exists p. split; [exact Ep|].
  destruct (valid_sparse_path_range posQ rows x us p Vp Hx (csr_ok_Q rows Hs)) as [A B]. auto.
Qed.

(* exact reading of one sparse step: the stored position k has positive probability and
   S_{k-1} <= u < S_k for the partial sums of the stored probabilities of the row *)
Lemma sparse_step_exact : forall rows (row : list (Z * Q)) u k,
  stochastic_csr rows -> In row rows -> unit_interval u -> step_post (map snd row) u k ->
  (exists pk, nth_error (map snd row) (Z.to_nat k) = Some pk /\ 0 < pk) /\
  qsum (firstn (Z.to_nat k) (map snd row)) <= u < qsum (firstn (S (Z.to_nat k)) (map snd row)).
Proof.
  intros rows row u k Hs Hrow Hu Hst. destruct (Hs row Hrow) as [Hnn [Hsum _]].
  assert (Hn : (0 < zlen (map snd row))%Z).
  { destruct (map snd row) eqn:E; [simpl in Hsum; lra|]. unfold zlen. simpl. lia. }
  assert (Huu : unitv u) by (apply unitv_Q; exact Hu).
  destruct (step_post_Q (zlen (map snd row)) (map snd row) u k Hn (conj eq_refl (conj Hnn Hsum)) Huu Hst) as [_ [A B]].
  split; assumption.
Qed.
End SparseExact.

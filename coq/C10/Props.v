(* C10 property theorems: statements only, each closed by `exact`, with Print Assumptions. *)
From Coq Require Import ZArith QArith List Bool.
From Coq Require PrimFloat.
From QE Require Import Base.Num C10.Model C10.Proofs C10.Proofs2 C10.Proofs3 C10.Proofs4 C10.Findings.
Import ListNotations.
Open Scope Z_scope.

(* ---- searchsorted, for EVERY arithmetic instance (no order axioms, no sortedness):
   it terminates within its fuel, never reads out of bounds, 0 <= k <= n,
   k = n or v < a[k],  k = 0 or not v < a[k-1]. *)
Theorem C10_searchsorted_spec : forall (T : Type) (N : Num T) (a : list T) (v : T),
  exists k, searchsorted a v = Ok k /\
    0 <= k <= zlen a /\
    (k = zlen a \/ exists x, rd a k = Ok x /\ nltb v x = true) /\
    (k = 0 \/ exists x, rd a (k - 1) = Ok x /\ nltb v x = false).
Proof. intros T N. exact (@searchsorted_spec T N). Qed.
Print Assumptions C10_searchsorted_spec.

Theorem C10_searchsorted_range : forall (T : Type) (N : Num T) (a : list T) (v : T),
  exists k, searchsorted a v = Ok k /\ 0 <= k <= zlen a.
Proof. intros T N. exact (@searchsorted_range T N). Qed.
Print Assumptions C10_searchsorted_range.

(* ---- exact arithmetic: a stochastic matrix (rows non-negative, summing to 1), a start state and
   uniforms in [0,1): the dense kernel returns a path (no out-of-bounds read) of length 1+|us| that starts
   at x, all of whose entries are states, and each step goes to a state y of positive probability with
   S_{y-1} <= u < S_y for the partial sums S of the current row. *)
Theorem C10_path_valid_exact : forall (P : list (list Q)) (x : Z) (us : list Q),
  stochastic_matrix P -> 0 <= x < zlen P -> Forall unit_interval us ->
  exists p, path_dense (cdfs_dense P) x us = Ok p /\
    length p = S (length us) /\ nth_error p 0 = Some x /\
    Forall (fun s => 0 <= s < zlen P) p /\
    forall t u, nth_error us t = Some u ->
      exists xt y row py,
        nth_error p t = Some xt /\ nth_error p (S t) = Some y /\ 0 <= xt /\ 0 <= y /\
        nth_error P (Z.to_nat xt) = Some row /\ nth_error row (Z.to_nat y) = Some py /\ (0 < py)%Q /\
        (qsum (firstn (Z.to_nat y) row) <= u < qsum (firstn (S (Z.to_nat y)) row))%Q.
Proof. exact path_valid_exact. Qed.
Print Assumptions C10_path_valid_exact.

(* ---- every init / num_reps form of simulate_indices (dense, exact arithmetic): the call succeeds, returns
   one row per initial state, each of length ts_length, each a valid path from init mod n fed with its own
   chunk of the uniform stream *)
Theorem C10_simulate_indices_exact : forall (P : list (list Q)) ts init nr drawn stream d inits,
  stochastic_matrix P -> 0 < zlen P -> 1 <= ts -> Forall unit_interval stream ->
  (length inits * Z.to_nat (ts - 1) <= length stream)%nat ->
  init_states (zlen P) init nr drawn = Ok (d, inits) ->
  exists X, simulate_indices (Dense P) ts init nr drawn stream = Ok (d, X) /\
    length X = length inits /\
    forall i x0 row, nth_error inits i = Some x0 -> nth_error X i = Some row ->
      length row = Z.to_nat ts /\
      exists us, nth_error (chop (length inits) (Z.to_nat (ts - 1)) stream) i = Some us /\
                 exact_path P (x0 mod zlen P) us row.
Proof. exact simulate_indices_exact. Qed.
Print Assumptions C10_simulate_indices_exact.

(* shape of the initial states for every init / num_reps combination (and which ones are rejected) *)
Theorem C10_init_states_shape : forall n init nr drawn d inits,
  init_states n init nr drawn = Ok (d, inits) ->
  d = match init, nr with IArr _, _ => true | _, Some _ => true | _, None => false end /\
  (forall r, nr = Some r -> 0 <= r) /\
  match init with
  | IInt i => - n <= i < n /\ inits = repeat i (reps nr)
  | IArr l => Forall (fun i => - n <= i < n) l /\ inits = tile l (reps nr)
  | INone => inits = firstn (reps nr) drawn
  end.
Proof. exact init_states_shape. Qed.
Print Assumptions C10_init_states_shape.

(* ---- the repaired kernel for ANY arithmetic (in particular binary64) that satisfies the facts
   F1 (0 <= u < 1, c an admissible total => u*c < c and not u*c < 0) and F2 (a zero summand changes no
   comparison): no out-of-bounds read, every entry a state, every step of positive probability and
   bracketed by the cumulative sums actually used.  F1, F2 are hypotheses here (not proved for floats). *)
Theorem C10_path_valid_float : forall (T : Type) (N : Num T) (scal_ok : T -> Prop),
  (forall u c, scal_ok c -> unitv u -> nltb (nmul u c) c = true) ->
  (forall u c, scal_ok c -> unitv u -> nltb (nmul u c) nzero = false) ->
  (forall x p v, nleb nzero p = true -> nltb nzero p = false -> nltb v (nadd x p) = nltb v x) ->
  (forall p v, nleb nzero p = true -> nltb nzero p = false -> nltb v p = true -> nltb v nzero = true) ->
  forall (P : list (list T)) us x,
    matrix_ok scal_ok P -> 0 <= x < zlen P -> Forall unitv us ->
    exists p, path_dense (cdfs_dense P) x us = Ok p /\ valid_path P x us p.
Proof. intros T N. exact (@path_dense_valid T N). Qed.
Print Assumptions C10_path_valid_float.

Theorem C10_simulate_indices_float : forall (T : Type) (N : Num T) (scal_ok : T -> Prop),
  (forall u c, scal_ok c -> unitv u -> nltb (nmul u c) c = true) ->
  (forall u c, scal_ok c -> unitv u -> nltb (nmul u c) nzero = false) ->
  (forall x p v, nleb nzero p = true -> nltb nzero p = false -> nltb v (nadd x p) = nltb v x) ->
  (forall p v, nleb nzero p = true -> nltb nzero p = false -> nltb v p = true -> nltb v nzero = true) ->
  forall (P : list (list T)) ts init nr drawn stream d inits,
    matrix_ok scal_ok P -> 0 < zlen P -> 1 <= ts -> Forall unitv stream ->
    init_states (zlen P) init nr drawn = Ok (d, inits) ->
    exists X, simulate_indices (Dense P) ts init nr drawn stream = Ok (d, X) /\
      Forall2 (fun iu p => valid_path P (fst iu) (snd iu) p)
              (combine (map (fun i => i mod zlen P) inits)
                       (chop (length inits) (Z.to_nat (ts - 1)) stream)) X.
Proof. intros T N. exact (@simulate_indices_dense_valid T N). Qed.
Print Assumptions C10_simulate_indices_float.

(* what valid_path gives at every step (indexed form), and that with monotone cumulative sums (fact F3)
   the bracket picks the least index whose cumulative sum exceeds the scaled uniform *)
Theorem C10_valid_path_step : forall (T : Type) (N : Num T) (P : list (list T)) x us p,
  valid_path P x us p ->
  length p = S (length us) /\ nth_error p 0 = Some x /\
  forall t u, nth_error us t = Some u ->
    exists xt y row, nth_error p t = Some xt /\ nth_error p (S t) = Some y /\ 0 <= xt /\
      nth_error P (Z.to_nat xt) = Some row /\
      (* step_post unfolded *)
      0 <= y < zlen row /\
      (exists py, nth_error row (Z.to_nat y) = Some py /\ nltb nzero py = true) /\
      exists c, rdw (cumsum row) (-1) = Ok c /\
        (exists cy, rd (cumsum row) y = Ok cy /\ nltb (nmul u c) cy = true) /\
        (y = 0 \/ exists cy', rd (cumsum row) (y - 1) = Ok cy' /\ nltb (nmul u c) cy' = false).
Proof.
  intros T N P x us p Hv. split; [exact (valid_path_length _ _ _ _ Hv)|].
  split; [exact (valid_path_head _ _ _ _ Hv)|]. exact (valid_path_step P x us p Hv).
Qed.
Print Assumptions C10_valid_path_step.

Theorem C10_bracket_least : forall (T : Type) (N : Num T) (fin : T -> Prop),
  (forall v y z, fin z -> nltb v y = true -> nltb z y = false -> nltb v z = true) ->
  forall (cdf : list T) v k x,
    monotone cdf -> (forall z, In z cdf -> fin z) ->
    rd cdf k = Ok x -> nltb v x = true ->
    (k = 0 \/ exists x', rd cdf (k - 1) = Ok x' /\ nltb v x' = false) ->
    (forall j cj, (j < Z.to_nat k)%nat -> nth_error cdf j = Some cj -> nltb v cj = false) /\
    (forall j cj, (Z.to_nat k <= j)%nat -> nth_error cdf j = Some cj -> nltb v cj = true).
Proof. intros T N. exact (@bracket_least T N). Qed.
Print Assumptions C10_bracket_least.

(* ---- the CSR kernel.  A CSR matrix is the flattening (data, indices, indptr) of a list of rows of stored entries
   (column, probability) in storage order: unsorted columns, duplicates, explicit zeros allowed.  For any arithmetic
   with F1, F2: no out-of-bounds read of cdfs1d / indices / indptr, and every step selects a stored position k of the
   current row with positive probability, bracketed by the cumulative sums of that row's slice, and moves to its column. *)
Theorem C10_path_sparse_valid : forall (T : Type) (N : Num T) (scal_ok : T -> Prop),
  (forall u c, scal_ok c -> unitv u -> nltb (nmul u c) c = true) ->
  (forall u c, scal_ok c -> unitv u -> nltb (nmul u c) nzero = false) ->
  (forall x p v, nleb nzero p = true -> nltb nzero p = false -> nltb v (nadd x p) = nltb v x) ->
  (forall p v, nleb nzero p = true -> nltb nzero p = false -> nltb v p = true -> nltb v nzero = true) ->
  forall (rows : list (list (Z * T))) us x,
    csr_ok scal_ok rows -> 0 <= x < zlen rows -> Forall unitv us ->
    exists p, path_sparse (cdfs1d_of (zlen rows) (csr_data rows) (csr_indptr rows))
                          (csr_indices rows) (csr_indptr rows) x us = Ok p /\
              valid_sparse_path rows x us p.
Proof. intros T N. exact (@path_sparse_valid T N). Qed.
Print Assumptions C10_path_sparse_valid.

(* exact arithmetic: stored probabilities non-negative, each row summing to 1, columns in [0,n) *)
Theorem C10_path_sparse_exact : forall (rows : list (list (Z * Q))) x us,
  stochastic_csr rows -> 0 <= x < zlen rows -> Forall unit_interval us ->
  exists p, path_sparse (cdfs1d_of (zlen rows) (csr_data rows) (csr_indptr rows))
                        (csr_indices rows) (csr_indptr rows) x us = Ok p /\
            length p = S (length us) /\ Forall (fun s => 0 <= s < zlen rows) p /\
            valid_sparse_path rows x us p.
Proof. exact path_sparse_exact. Qed.
Print Assumptions C10_path_sparse_exact.

Theorem C10_sparse_step_exact : forall rows (row : list (Z * Q)) u k,
  stochastic_csr rows -> In row rows -> unit_interval u -> step_post (map snd row) u k ->
  (exists pk, nth_error (map snd row) (Z.to_nat k) = Some pk /\ (0 < pk)%Q) /\
  (qsum (firstn (Z.to_nat k) (map snd row)) <= u < qsum (firstn (S (Z.to_nat k)) (map snd row)))%Q.
Proof. exact sparse_step_exact. Qed.
Print Assumptions C10_sparse_step_exact.

(* ---- quantecon.random.draw, mc_sample_path, simulate with state_values, DiscreteRV.
   Generic statements (any arithmetic with the stated facts; proved for Q here, for binary64 in PropsFloat.v). *)
Theorem C10_qe_draw_valid : forall (T : Type) (N : Num T) (scal_ok : T -> Prop),
  (forall u c, scal_ok c -> unitv u -> nltb (nmul u c) c = true) ->
  (forall u c, scal_ok c -> unitv u -> nltb (nmul u c) nzero = false) ->
  (forall x p v, nleb nzero p = true -> nltb nzero p = false -> nltb v (nadd x p) = nltb v x) ->
  (forall p v, nleb nzero p = true -> nltb nzero p = false -> nltb v p = true -> nltb v nzero = true) ->
  forall q us : list T, row_ok scal_ok q -> Forall unitv us ->
    exists ks, qe_draw (cumsum q) us = Ok ks /\ Forall2 (fun u k => step_post q u k) us ks.
Proof. intros T N. exact (@qe_draw_valid T N). Qed.
Print Assumptions C10_qe_draw_valid.

(* mc_sample_path: X_0 = init, or drawn from the distribution psi with the FIRST uniform as its inverse-CDF image;
   the rest of the stream drives a valid path from X_0 *)
Theorem C10_mc_sample_path_exact : forall (P : list (list Q)) (init : Z + list Q) ts stream,
  matrix_ok posQ P -> 0 < zlen P -> 1 <= ts -> Forall unitv stream ->
  match init with inl x0 => 0 <= x0 < zlen P | inr psi => row_ok posQ psi /\ zlen psi = zlen P /\ stream <> [] end ->
  exists x0 s row,
    mc_sample_path (Dense P) init ts stream = Ok row /\
    match init with
    | inl x => x0 = x /\ s = stream
    | inr psi => exists u0, stream = u0 :: s /\ step_post psi u0 x0
    end /\
    valid_path P x0 (firstn (Z.to_nat (ts - 1)) s) row.
Proof. exact mc_sample_path_exact. Qed.
Print Assumptions C10_mc_sample_path_exact.

(* simulate with state_values: the result is state_values[X] for the index paths X of simulate_indices started at
   the FIRST index holding each requested value; a value that does not occur is a ValueError *)
Theorem C10_simulate_sv_int : forall (T : Type) (N : Num T) (c : chain) sv ts v nr drawn (stream : list T),
  simulate_sv c sv ts (IInt v) nr drawn stream =
  match index_of sv v 0 with
  | Ok i => match simulate_indices c ts (IInt i) nr drawn stream with
            | Ok (d, X) => Ok (d, map (map (fun s => nth (Z.to_nat s) sv 0)) X)
            | OOB => OOB | ValueErr => ValueErr | NoFuel => NoFuel
            end
  | OOB => OOB | ValueErr => ValueErr | NoFuel => NoFuel
  end.
Proof. intros T N. exact (@simulate_sv_int T N). Qed.
Print Assumptions C10_simulate_sv_int.

Theorem C10_simulate_sv_arr : forall (T : Type) (N : Num T) (c : chain) sv ts l nr drawn (stream : list T) li,
  mapM (fun v => index_of sv v 0) l = Ok li ->
  Forall2 (fun v i => 0 <= i < zlen sv /\ nth (Z.to_nat i) sv 0 = v) l li /\
  simulate_sv c sv ts (IArr l) nr drawn stream =
  match simulate_indices c ts (IArr li) nr drawn stream with
  | Ok (d, X) => Ok (d, map (map (fun s => nth (Z.to_nat s) sv 0)) X)
  | OOB => OOB | ValueErr => ValueErr | NoFuel => NoFuel
  end.
Proof. intros T N. exact (@simulate_sv_arr T N). Qed.
Print Assumptions C10_simulate_sv_arr.

Theorem C10_simulate_sv_none : forall (T : Type) (N : Num T) (c : chain) sv ts nr drawn (stream : list T),
  simulate_sv c sv ts INone nr drawn stream =
  match simulate_indices c ts INone nr drawn stream with
  | Ok (d, X) => Ok (d, map (map (fun s => nth (Z.to_nat s) sv 0)) X)
  | OOB => OOB | ValueErr => ValueErr | NoFuel => NoFuel
  end.
Proof. intros T N. exact (@simulate_sv_none T N). Qed.
Print Assumptions C10_simulate_sv_none.

Theorem C10_index_of_spec : forall sv v i k, index_of sv v i = Ok k ->
  i <= k < i + zlen sv /\ nth (Z.to_nat (k - i)) sv 0 = v /\
  forall j, (j < Z.to_nat (k - i))%nat -> nth j sv 0 <> v.
Proof. exact index_of_spec. Qed.
Print Assumptions C10_index_of_spec.

(* DiscreteRV as an object: after ANY sequence of q re-assignments and draws, every draw returns, for each of its
   uniforms, an index k in range, of positive probability under the CURRENT q, with Q[j] <= u*min(Q[-1],1) for all
   j < k and not Q[k] <= u*min(Q[-1],1)  (Q = cumsum of the current q).  Generic, then exact. *)
Theorem C10_drv_run_valid : forall (T : Type) (N : Num T) (scal_ok : T -> Prop),
  (forall u c, scal_ok c -> unitv u -> nleb c (nmul u (drv_scale c)) = false) ->
  (forall u c, scal_ok c -> unitv u -> nleb nzero (nmul u (drv_scale c)) = true) ->
  (forall x p v, nleb nzero p = true -> nltb nzero p = false -> nleb (nadd x p) v = nleb x v) ->
  (forall p v, nleb nzero p = true -> nltb nzero p = false -> nleb p v = nleb nzero v) ->
  forall (ops : list (@drv_op T)) q0,
    row_ok scal_ok q0 -> Forall (op_ok scal_ok) ops -> drv_valid q0 ops (drv_run q0 ops).
Proof. intros T N. exact (@drv_run_valid T N). Qed.
Print Assumptions C10_drv_run_valid.

Theorem C10_drv_run_exact : forall (ops : list (@drv_op Q)) q0,
  row_ok posQ q0 -> Forall (op_ok posQ) ops -> drv_valid q0 ops (drv_run q0 ops).
Proof. exact drv_run_exact. Qed.
Print Assumptions C10_drv_run_exact.

(* exact reading of one draw: positive probability and S_{k-1} <= u*min(S,1) < S_k; any non-negative q with
   positive sum is admissible *)
Theorem C10_draw_post_exact : forall (q : list Q) u k,
  (forall p, In p q -> (0 <= p)%Q) -> unit_interval u -> draw_post q u k ->
  (exists p, nth_error q (Z.to_nat k) = Some p /\ (0 < p)%Q) /\
  (qsum (firstn (Z.to_nat k) q) <= u * Qminmax.Qmin (qsum q) 1 < qsum (firstn (S (Z.to_nat k)) q))%Q.
Proof. exact draw_post_Q. Qed.
Print Assumptions C10_draw_post_exact.

Theorem C10_row_ok_posQ : forall q : list Q, (forall p, In p q -> (0 <= p)%Q) -> (0 < qsum q)%Q -> row_ok posQ q.
Proof. exact row_ok_posQ. Qed.
Print Assumptions C10_row_ok_posQ.

(* ---- the pinned code refutes the property (findings D2 and D10, both repaired in /repo) *)
Theorem C10_path_in_range_float_refuted :
  exists (P : list (list PrimFloat.float)) (u : PrimFloat.float),
    mc_accepts_dense allclose_tol P = true /\
    PrimFloat.leb f_zero u = true /\ PrimFloat.ltb u f_one = true /\
    path_dense_old (cdfs_dense P) 0 [u] = Ok [0; 10] /\
    path_dense_old (cdfs_dense P) 0 [u; u] = OOB /\
    path_dense (cdfs_dense P) 0 [u; u] = Ok [0; 9; 9].
Proof. exact path_in_range_float_refuted. Qed.
Print Assumptions C10_path_in_range_float_refuted.

Theorem C10_sparse_negative_init_refuted :
  in_state_range 3 (-1) = true /\
  simulate_indices_old (Sparse 3 P3_data P3_indices P3_indptr) 4 (IInt (-1)) None [] [1#2; 1#2; 1#2]%Q = OOB /\
  in_state_range 3 (-3) = true /\
  simulate_indices_old C3 2 (IInt (-3)) None [] [1#2]%Q = Ok (false, [[-3; 2]]) /\
  simulate_indices (Sparse 3 P3_data P3_indices P3_indptr) 4 (IInt (-1)) None [] [1#2; 1#2; 1#2]%Q = Ok (false, [[2; 2; 2; 2]]) /\
  simulate_indices C3 2 (IInt (-3)) None [] [1#2]%Q = Ok (false, [[0; 1]]).
Proof. exact sparse_negative_init_refuted. Qed.
Print Assumptions C10_sparse_negative_init_refuted.

(* ---- the hypotheses are satisfiable by concrete non-trivial objects *)
(* exact: a 3-state chain with a zero entry and a trailing zero-probability state *)
Definition P_ex : list (list Q) := [[1#2; 1#2; 0]; [1#4; 3#4; 0]; [1#3; 1#3; 1#3]]%Q.
Example ex_stochastic : stochastic_matrix P_ex /\ 0 <= 2 < zlen P_ex /\ Forall unit_interval [0; 1#2; 999#1000]%Q.
Proof.
  split; [|split].
  - intros row Hrow. simpl in Hrow.
    destruct Hrow as [<-|[<-|[<-|[]]]]; (split; [reflexivity|split; [|vm_compute; reflexivity]]);
      intros p Hp; simpl in Hp; repeat (destruct Hp as [<-|Hp]; [vm_compute; discriminate|]); destruct Hp.
  - vm_compute. split; [discriminate|reflexivity].
  - unfold unit_interval. repeat constructor; first [vm_compute; discriminate | vm_compute; reflexivity].
Qed.
Example ex_exact_run : path_dense (cdfs_dense P_ex) 2 [0; 1#2; 999#1000]%Q = Ok [2; 0; 1; 1].
Proof. vm_compute. reflexivity. Qed.
(* generic facts: instantiated (hence satisfiable) at Q with scal_ok c := 0 < c *)
Example ex_facts_Q :
  (forall u c : Q, posQ c -> unitv u -> nltb (nmul u c) c = true) /\
  (forall u c : Q, posQ c -> unitv u -> nltb (nmul u c) nzero = false) /\
  (forall x p v : Q, nleb nzero p = true -> nltb nzero p = false -> nltb v (nadd x p) = nltb v x) /\
  (forall p v : Q, nleb nzero p = true -> nltb nzero p = false -> nltb v p = true -> nltb v nzero = true) /\
  (forall v y z : Q, True -> nltb v y = true -> nltb z y = false -> nltb v z = true) /\
  matrix_ok posQ P_ex /\ (forall row, In row P_ex -> monotone (cumsum row)).
Proof.
  split; [exact F1_Q|]. split; [exact F1z_Q|]. split; [exact F2_Q|]. split; [exact F2z_Q|]. split; [exact F3_Q|].
  destruct ex_stochastic as [Hs _]. split.
  - apply matrix_ok_Q; [reflexivity|exact Hs].
  - intros row Hrow. apply cumsum_Q_monotone. destruct (Hs row Hrow) as [_ [Hnn _]]. exact Hnn.
Qed.
(* init_states accepts a negative index in range, tiles an array, rejects an out-of-range index *)
Example ex_init_states :
  init_states 3 (IArr [0; -1]) (Some 2) [] = Ok (true, [0; -1; 0; -1]) /\
  init_states 3 (IInt 3) None [] = ValueErr /\ init_states 3 INone (Some 2) [1; 2; 0] = Ok (true, [1; 2]).
Proof. vm_compute. repeat split; reflexivity. Qed.

(* a non-canonical CSR chain: unsorted columns, a duplicate entry and an explicit zero *)
Definition rows_ex : list (list (Z * Q)) :=
  [[(2, (1#4)%Q); (0, (1#2)%Q); (2, (1#4)%Q)]; [(0, 0%Q); (1, 1%Q)]; [(1, (1#2)%Q); (0, (1#2)%Q)]].
Example ex_sparse : stochastic_csr rows_ex /\
  path_sparse (cdfs1d_of (zlen rows_ex) (csr_data rows_ex) (csr_indptr rows_ex)) (csr_indices rows_ex) (csr_indptr rows_ex)
              0 [1#8; 3#4; 0; 99#100]%Q = Ok [0; 2; 0; 2; 0].
Proof.
  split; [|vm_compute; reflexivity].
  intros row Hrow. simpl in Hrow.
  destruct Hrow as [<-|[<-|[<-|[]]]]; (split; [|split; [vm_compute; reflexivity|repeat constructor; vm_compute; congruence]]);
    intros p Hp; simpl in Hp; repeat (destruct Hp as [<-|Hp]; [vm_compute; discriminate|]); destruct Hp.
Qed.

(* a DiscreteRV object: q re-assigned to a vector summing to 3/5 (scale 3/5) and to one summing to 2 (scale 1) *)
Example ex_drv_run :
  drv_run [1#2; 1#2]%Q [DDraw [0; 3#4]%Q; DSetQ [3#10; 3#10]%Q; DDraw [99#100; 1#2]%Q; DSetQ [1; 0; 1]%Q; DDraw [1#2; 999#1000]%Q]
  = [Ok [0; 1]; Ok [1; 1]; Ok [0; 0]].
Proof. vm_compute. reflexivity. Qed.

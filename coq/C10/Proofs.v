(* C10 proofs, part 1: array reads, searchsorted (every Num instance), cumulative sums,
   one inverse-CDF step and whole dense sample paths under the arithmetic facts F1-F3
   (Section hypotheses), their instantiation at Q. *)
From Coq Require Import ZArith QArith List Bool Lia Lqa.
From QE Require Import Base.Num C10.Model.
Import ListNotations.
Open Scope Z_scope.

(* ------------------------------------------------------------------ reads *)
Lemma zlen_nonneg {A} (l : list A) : 0 <= zlen l.
Proof. unfold zlen. lia. Qed.

Lemma rd_Ok_iff {A} (a : list A) i x :
  rd a i = Ok x <-> (0 <= i /\ nth_error a (Z.to_nat i) = Some x).
Proof.
  unfold rd. destruct (i <? 0) eqn:E.
  - split; [discriminate|]. intros [? _]. lia.
  - destruct (nth_error a (Z.to_nat i)) eqn:N; split.
    + intros [= ->]. split; [lia|reflexivity].
    + intros [_ [= ->]]. reflexivity.
    + discriminate.
    + intros [_ ?]. discriminate.
Qed.

Lemma rd_Ok_range {A} (a : list A) i x : rd a i = Ok x -> 0 <= i < zlen a.
Proof.
  intros Hr. apply rd_Ok_iff in Hr. destruct Hr as [H0 Hn].
  assert (Z.to_nat i < length a)%nat by (apply nth_error_Some; congruence).
  unfold zlen. lia.
Qed.

Lemma rd_in_range {A} (a : list A) i : 0 <= i < zlen a -> exists x, rd a i = Ok x.
Proof.
  intros Hi. unfold zlen in Hi.
  destruct (nth_error a (Z.to_nat i)) eqn:N.
  - exists a0. apply rd_Ok_iff. split; [lia|exact N].
  - apply nth_error_None in N. lia.
Qed.

Lemma rd_not_fuel {A} (a : list A) i : rd a i <> NoFuel.
Proof. unfold rd. destruct (i <? 0); [discriminate|]. destruct nth_error; discriminate. Qed.

(* ------------------------------------------------------------------ searchsorted, every Num *)
Section SearchSorted.
Context {T : Type} `{Num T}.

Definition ss_post (a : list T) (v : T) (k : Z) : Prop :=
  0 <= k <= zlen a /\
  (k = zlen a \/ exists x, rd a k = Ok x /\ nltb v x = true) /\
  (k = 0 \/ exists x, rd a (k - 1) = Ok x /\ nltb v x = false).

Lemma ss_loop_spec : forall fuel (a : list T) v lo hi,
  -1 <= lo < hi -> hi <= zlen a -> hi - lo <= Z.of_nat fuel ->
  (lo = -1 \/ exists x, rd a lo = Ok x /\ nltb v x = false) ->
  (hi = zlen a \/ exists x, rd a hi = Ok x /\ nltb v x = true) ->
  exists k, ss_loop fuel a v lo hi = Ok k /\ ss_post a v k.
Proof.
  induction fuel as [|f IH]; intros a v lo hi Hlo Hhi Hf Il Ih.
  - simpl in Hf. lia.
  - cbn [ss_loop]. destruct (Z.ltb_spec lo (hi - 1)) as [Hlt|Hge].
    + assert (Hm : lo < (lo + hi) / 2 < hi) by (Z.div_mod_to_equations; lia).
      destruct (rd_in_range a ((lo + hi) / 2)) as [x Hx]; [lia|].
      rewrite Hx. cbn [bind].
      destruct (nltb v x) eqn:Ev.
      * apply IH; try lia; auto. right. exists x. auto.
      * apply IH; try lia; auto. right. exists x. auto.
    + exists hi. split; [reflexivity|]. unfold ss_post. repeat split; try lia.
      * exact Ih.
      * destruct Il as [->|Il]; [left; lia|]. right. replace (hi - 1) with lo by lia. exact Il.
Qed.

Theorem searchsorted_spec : forall (a : list T) v,
  exists k, searchsorted a v = Ok k /\ ss_post a v k.
Proof.
  intros a v. unfold searchsorted. apply ss_loop_spec; auto.
  - pose proof (zlen_nonneg a). lia.
  - lia.
  - unfold zlen. lia.
Qed.

(* 0 <= k <= n and no read out of bounds, as a corollary *)
Corollary searchsorted_range : forall (a : list T) v,
  exists k, searchsorted a v = Ok k /\ 0 <= k <= zlen a.
Proof.
  intros a v. destruct (searchsorted_spec a v) as [k [E [R _]]]. eauto.
Qed.
End SearchSorted.

(* ------------------------------------------------------------------ cumulative sums *)
Section Cumsum.
Context {T : Type} `{Num T}.

Lemma cumsum_from_length : forall (l : list T) acc, length (cumsum_from acc l) = length l.
Proof. induction l; intros; simpl; auto. Qed.

Lemma cumsum_length (l : list T) : length (cumsum l) = length l.
Proof. destruct l; simpl; auto using cumsum_from_length. Qed.

Lemma cumsum_from_0 : forall (l : list T) acc p,
  nth_error l 0 = Some p -> nth_error (cumsum_from acc l) 0 = Some (nadd acc p).
Proof. destruct l; simpl; intros; [discriminate|]. congruence. Qed.

Lemma cumsum_from_S : forall (l : list T) acc i c p,
  nth_error (cumsum_from acc l) i = Some c -> nth_error l (S i) = Some p ->
  nth_error (cumsum_from acc l) (S i) = Some (nadd c p).
Proof.
  induction l as [|x r IH]; intros acc i c p Hc Hp; [destruct i; discriminate|].
  destruct i.
  - simpl in *. injection Hc as <-. apply cumsum_from_0. exact Hp.
  - simpl in Hc, Hp |- *. eapply IH; eauto.
Qed.

Lemma cumsum_0 (l : list T) : nth_error (cumsum l) 0 = nth_error l 0.
Proof. destruct l; reflexivity. Qed.

Lemma cumsum_S : forall (l : list T) i c p,
  nth_error (cumsum l) i = Some c -> nth_error l (S i) = Some p ->
  nth_error (cumsum l) (S i) = Some (nadd c p).
Proof.
  intros [|x r] i c p Hc Hp; [destruct i; discriminate|].
  destruct i.
  - simpl in Hc. injection Hc as <-. simpl. apply cumsum_from_0. exact Hp.
  - simpl in Hc, Hp |- *. eapply cumsum_from_S; eauto.
Qed.
End Cumsum.

(* ------------------------------------------------------------------ one inverse-CDF step and dense paths,
   for every Num instance that satisfies the facts F1, F2 below *)
Section PathGeneric.
Context {T : Type} `{Num T}.

(* the totals c = cdf[-1] for which the scaling fact is assumed (binary64: normal positive numbers) *)
Variable scal_ok : T -> Prop.
Definition unitv (u : T) : Prop := nleb nzero u = true /\ nltb u none_ = true.

(* F1: 0 <= u < 1 and c > 0  ==>  u*c < c  and  not u*c < 0 *)
Hypothesis F1 : forall u c, scal_ok c -> unitv u -> nltb (nmul u c) c = true.
Hypothesis F1z : forall u c, scal_ok c -> unitv u -> nltb (nmul u c) nzero = false.
(* F2: a summand p with 0 <= p and not 0 < p (a zero) does not change any comparison *)
Hypothesis F2 : forall x p v, nleb nzero p = true -> nltb nzero p = false -> nltb v (nadd x p) = nltb v x.
Hypothesis F2z : forall p v, nleb nzero p = true -> nltb nzero p = false -> nltb v p = true -> nltb v nzero = true.

Definition row_ok (row : list T) : Prop :=
  (forall p, In p row -> nleb nzero p = true) /\
  exists c, rdw (cumsum row) (-1) = Ok c /\ scal_ok c.

(* y is the inverse-CDF image of u in `row`: in range, of positive probability, and bracketed by the
   cumulative sums: u*c < cdf[y] and (y = 0 or not u*c < cdf[y-1]) *)
Definition step_post (row : list T) (u : T) (y : Z) : Prop :=
  0 <= y < zlen row /\
  (exists p, nth_error row (Z.to_nat y) = Some p /\ nltb nzero p = true) /\
  exists c, rdw (cumsum row) (-1) = Ok c /\
    (exists x, rd (cumsum row) y = Ok x /\ nltb (nmul u c) x = true) /\
    (y = 0 \/ exists x, rd (cumsum row) (y - 1) = Ok x /\ nltb (nmul u c) x = false).

Lemma zlen_cumsum (row : list T) : zlen (cumsum row) = zlen row.
Proof. unfold zlen. now rewrite cumsum_length. Qed.

Lemma inv_cdf_step : forall row u, row_ok row -> unitv u ->
  exists y, inv_cdf (cumsum row) u = Ok y /\ step_post row u y.
Proof.
  intros row u [Hnn [c [Hc Hs]]] Hu.
  unfold inv_cdf. rewrite Hc. cbn [bind].
  destruct (searchsorted_spec (cumsum row) (nmul u c)) as [k [Ek [Hr [Hhi Hlo]]]].
  exists k. split; [exact Ek|].
  assert (Hc' : rd (cumsum row) (zlen (cumsum row) - 1) = Ok c).
  { unfold rdw in Hc. change (-1 <? 0) with true in Hc. cbv iota in Hc.
    replace (zlen (cumsum row) - 1) with (-1 + zlen (cumsum row)) by lia. exact Hc. }
  pose proof (rd_Ok_range _ _ _ Hc') as Hlen.
  assert (Hk : k <> zlen (cumsum row)).
  { intros ->. destruct Hlo as [E0|[x [Hx Hv]]]; [lia|].
    rewrite Hc' in Hx. injection Hx as <-. rewrite (F1 u c Hs Hu) in Hv. discriminate. }
  destruct Hhi as [E|[x [Hx Hvx]]]; [contradiction|].
  rewrite zlen_cumsum in *.
  unfold step_post. split; [lia|]. split.
  - destruct (nth_error row (Z.to_nat k)) as [p|] eqn:Hp.
    2:{ apply nth_error_None in Hp. unfold zlen in Hr, Hk. lia. }
    exists p. split; [reflexivity|].
    destruct (nltb nzero p) eqn:Epos; [reflexivity|exfalso].
    assert (Hp0 : nleb nzero p = true) by (apply Hnn; eapply nth_error_In; eauto).
    apply rd_Ok_iff in Hx. destruct Hx as [Hk0 Hx].
    destruct Hlo as [E0|[x' [Hx' Hv']]].
    + subst k. change (Z.to_nat 0) with 0%nat in Hx, Hp. rewrite cumsum_0 in Hx. rewrite Hp in Hx. injection Hx as <-.
      pose proof (F2z p _ Hp0 Epos Hvx) as E1. pose proof (F1z u c Hs Hu) as E2. congruence.
    + apply rd_Ok_iff in Hx'. destruct Hx' as [Hk1 Hx'].
      replace (Z.to_nat k) with (S (Z.to_nat (k - 1))) in Hx, Hp by lia.
      rewrite (cumsum_S row _ _ _ Hx' Hp) in Hx. injection Hx as <-.
      rewrite (F2 x' p _ Hp0 Epos) in Hvx. congruence.
  - exists c. split; [exact Hc|]. split; [exists x; auto|]. exact Hlo.
Qed.

(* a path x0 :: x1 :: ... all of whose steps are inverse-CDF images in the row of the current state *)
Inductive valid_path (P : list (list T)) : Z -> list T -> list Z -> Prop :=
| vp_nil : forall x, valid_path P x [] [x]
| vp_cons : forall x u us y p row,
    0 <= x -> nth_error P (Z.to_nat x) = Some row -> step_post row u y ->
    valid_path P y us p -> valid_path P x (u :: us) (x :: p).

Definition matrix_ok (P : list (list T)) : Prop :=
  forall row, In row P -> row_ok row /\ zlen row = zlen P.

Theorem path_dense_valid : forall (P : list (list T)) us x,
  matrix_ok P -> 0 <= x < zlen P -> Forall unitv us ->
  exists p, path_dense (cdfs_dense P) x us = Ok p /\ valid_path P x us p.
Proof.
  intros P us. induction us as [|u r IH]; intros x HP Hx Hus.
  - exists [x]. split; [reflexivity|constructor].
  - inversion Hus as [|? ? Hu Hr]; subst.
    cbn [path_dense].
    destruct (nth_error P (Z.to_nat x)) as [row|] eqn:Hrow.
    2:{ apply nth_error_None in Hrow. unfold zlen in Hx. lia. }
    assert (Hcd : rdw (cdfs_dense P) x = Ok (cumsum row)).
    { unfold rdw. destruct (Z.ltb_spec x 0); [lia|]. apply rd_Ok_iff. split; [lia|].
      unfold cdfs_dense. rewrite nth_error_map, Hrow. reflexivity. }
    rewrite Hcd. cbn [bind].
    destruct (HP row (nth_error_In _ _ Hrow)) as [Hok Hlen].
    destruct (inv_cdf_step row u Hok Hu) as [y [Ey Hy]].
    rewrite Ey. cbn [bind].
    assert (Hyr : 0 <= y < zlen P) by (destruct Hy as [? _]; lia).
    destruct (IH y HP Hyr Hr) as [p [Ep Vp]].
    rewrite Ep. cbn [bind]. exists (x :: p). split; [reflexivity|].
    econstructor; eauto. lia.
Qed.

(* consequences of valid_path in indexed form *)
Lemma valid_path_length : forall P x us p, valid_path P x us p -> length p = S (length us).
Proof. induction 1; simpl; auto. Qed.

Lemma valid_path_head : forall P x us p, valid_path P x us p -> nth_error p 0 = Some x.
Proof. induction 1; reflexivity. Qed.

Lemma valid_path_step : forall P x us p, valid_path P x us p ->
  forall t u, nth_error us t = Some u ->
  exists xt y row, nth_error p t = Some xt /\ nth_error p (S t) = Some y /\ 0 <= xt /\
     nth_error P (Z.to_nat xt) = Some row /\ step_post row u y.
Proof.
  induction 1 as [|x u us y p row Hx Hrow Hst Hv IH]; intros t u' Ht.
  - destruct t; discriminate.
  - destruct t.
    + simpl in Ht. injection Ht as <-. exists x, y, row.
      split; [reflexivity|]. split; [simpl; eapply valid_path_head; eauto|]. auto.
    + simpl in Ht. destruct (IH t u' Ht) as [xt [y' [row' [A [B C]]]]].
      exists xt, y', row'. simpl. auto.
Qed.

Lemma valid_path_range : forall P x us p, valid_path P x us p -> 0 <= x < zlen P ->
  (forall row, In row P -> zlen row = zlen P) ->
  Forall (fun s => 0 <= s < zlen P) p.
Proof.
  induction 1 as [|x u us y p row Hx Hrow Hst Hv IH]; intros Hr Hsq.
  - constructor; auto.
  - constructor; auto. apply IH; auto.
    destruct Hst as [Hy _]. rewrite (Hsq row (nth_error_In _ _ Hrow)) in Hy. exact Hy.
Qed.

End PathGeneric.

(* ------------------------------------------------------------------ with monotone cumulative sums the bracket
   singles out the LEAST index whose cumulative sum exceeds the scaled uniform *)
Section Least.
Context {T : Type} `{Num T}.
Variable fin : T -> Prop.     (* binary64: the non-NaN values *)
(* F3: v < y and not z < y  ==>  v < z   (z not NaN) *)
Hypothesis F3 : forall v y z, fin z -> nltb v y = true -> nltb z y = false -> nltb v z = true.

Definition monotone (cdf : list T) : Prop :=
  forall i j ci cj, (i <= j)%nat -> nth_error cdf i = Some ci -> nth_error cdf j = Some cj ->
                    nltb cj ci = false.

Lemma bracket_least : forall (cdf : list T) v k x,
  monotone cdf -> (forall z, In z cdf -> fin z) ->
  rd cdf k = Ok x -> nltb v x = true ->
  (k = 0 \/ exists x', rd cdf (k - 1) = Ok x' /\ nltb v x' = false) ->
  (forall j cj, (j < Z.to_nat k)%nat -> nth_error cdf j = Some cj -> nltb v cj = false) /\
  (forall j cj, (Z.to_nat k <= j)%nat -> nth_error cdf j = Some cj -> nltb v cj = true).
Proof.
  intros cdf v k x Hm Hf Hx Hv Hlo.
  apply rd_Ok_iff in Hx. destruct Hx as [Hk Hx]. split.
  - intros j cj Hj Hcj. destruct Hlo as [->|[x' [Hx' Hv']]]; [simpl in Hj; lia|].
    apply rd_Ok_iff in Hx'. destruct Hx' as [Hk1 Hx'].
    destruct (nltb v cj) eqn:E; [|reflexivity].
    assert (Hle : (j <= Z.to_nat (k - 1))%nat) by lia.
    pose proof (Hm j _ cj x' Hle Hcj Hx') as Hmono.
    pose proof (F3 v cj x' (Hf _ (nth_error_In _ _ Hx')) E Hmono). congruence.
  - intros j cj Hj Hcj.
    pose proof (Hm _ j x cj Hj Hx Hcj) as Hmono.
    exact (F3 v x cj (Hf _ (nth_error_In _ _ Hcj)) Hv Hmono).
Qed.
End Least.

(* ------------------------------------------------------------------ the exact instance *)
Section ExactQ.
Open Scope Q_scope.

Lemma bool_eq_of_iff (a b : bool) : (a = true <-> b = true) -> a = b.
Proof. destruct a, b; intros [H1 H2]; try reflexivity; [symmetry; apply H1; reflexivity | apply H2; reflexivity]. Qed.

Lemma Qle_bool_true (a b : Q) : Qle_bool a b = true <-> a <= b.
Proof. apply Qle_bool_iff. Qed.

Lemma Qltb_false (a b : Q) : Qltb a b = false <-> b <= a.
Proof.
  split; intro Hh.
  - destruct (Qlt_le_dec a b) as [Hl|Hl]; [|exact Hl]. apply Qltb_lt in Hl. congruence.
  - destruct (Qltb a b) eqn:E; [|reflexivity]. apply Qltb_lt in E. exfalso. apply (Qlt_not_le _ _ E Hh).
Qed.

Definition posQ (c : Q) : Prop := 0 < c.

Lemma unitv_Q (u : Q) : unitv (T:=Q) u <-> (0 <= u /\ u < 1).
Proof. unfold unitv. cbn. rewrite Qle_bool_true, Qltb_lt. tauto. Qed.

Lemma F1_Q : forall u c : Q, posQ c -> unitv u -> nltb (nmul u c) c = true.
Proof.
  intros u c Hc Hu. apply unitv_Q in Hu. change (Qltb (Qmulr u c) c = true). apply Qltb_lt. rewrite Qmulr_eq. unfold posQ in Hc. nra.
Qed.

Lemma F1z_Q : forall u c : Q, posQ c -> unitv u -> nltb (nmul u c) nzero = false.
Proof.
  intros u c Hc Hu. apply unitv_Q in Hu. change (Qltb (Qmulr u c) 0 = false). apply Qltb_false. rewrite Qmulr_eq. unfold posQ in Hc. nra.
Qed.

Lemma zero_Q (p : Q) : nleb (T:=Q) nzero p = true -> nltb (T:=Q) nzero p = false -> p == 0.
Proof. cbn. rewrite Qle_bool_true, Qltb_false. intros. lra. Qed.

Lemma F2_Q : forall x p v : Q, nleb nzero p = true -> nltb nzero p = false ->
  nltb v (nadd x p) = nltb v x.
Proof.
  intros x p v H1 H2. pose proof (zero_Q p H1 H2) as Hz. change (Qltb v (Qaddr x p) = Qltb v x). apply bool_eq_of_iff.
  rewrite !Qltb_lt, Qaddr_eq, Hz. split; intro; lra.
Qed.

Lemma F2z_Q : forall p v : Q, nleb nzero p = true -> nltb nzero p = false ->
  nltb v p = true -> nltb v nzero = true.
Proof.
  intros p v H1 H2. pose proof (zero_Q p H1 H2) as Hz. cbn. rewrite !Qltb_lt, Hz. auto.
Qed.

Lemma F3_Q : forall v y z : Q, True -> nltb v y = true -> nltb z y = false -> nltb v z = true.
Proof. intros v y z _. cbn. rewrite !Qltb_lt, Qltb_false. intros; lra. Qed.

(* cumulative sums over Q are the exact partial sums *)
Fixpoint qsum (l : list Q) : Q := match l with [] => 0 | x :: r => x + qsum r end.

Lemma qsum_app a b : qsum (a ++ b) == qsum a + qsum b.
Proof. induction a; simpl; [lra|]. rewrite IHa. lra. Qed.

Lemma firstn_S_snoc {A} : forall (l : list A) i x, nth_error l i = Some x -> firstn (S i) l = firstn i l ++ [x].
Proof.
  induction l as [|a r IH]; intros i x Hx; [destruct i; discriminate|].
  destruct i; simpl in *.
  - injection Hx as ->. reflexivity.
  - f_equal. apply IH. exact Hx.
Qed.

Lemma cumsum_Q_nth : forall (row : list Q) i c,
  nth_error (cumsum row) i = Some c -> c == qsum (firstn (S i) row).
Proof.
  intros row i. induction i as [|i IH]; intros c Hc.
  - rewrite cumsum_0 in Hc. destruct row; [discriminate|]. simpl in Hc. injection Hc as ->. simpl. lra.
  - assert (Hlt : (S i < length row)%nat).
    { rewrite <- (cumsum_length row). apply nth_error_Some. congruence. }
    destruct (nth_error (cumsum row) i) as [c'|] eqn:Hc'.
    2:{ apply nth_error_None in Hc'. rewrite cumsum_length in Hc'. lia. }
    destruct (nth_error row (S i)) as [p|] eqn:Hp.
    2:{ apply nth_error_None in Hp. lia. }
    rewrite (cumsum_S row i c' p Hc' Hp) in Hc. injection Hc as <-.
    rewrite (firstn_S_snoc row (S i) p Hp), qsum_app. cbn [nadd NumQ]. rewrite Qaddr_eq, (IH c' eq_refl).
    simpl. lra.
Qed.

Lemma qsum_nonneg_mono : forall (row : list Q) i j,
  (forall p, In p row -> 0 <= p) -> (i <= j)%nat -> qsum (firstn i row) <= qsum (firstn j row).
Proof.
  induction row as [|a r IH]; intros i j Hnn Hij.
  - rewrite !firstn_nil. lra.
  - destruct i, j; simpl; try lia; try lra.
    + assert (0 <= qsum (firstn j r)).
      { clear -Hnn. revert j. induction r as [|b r IH]; intro j; [rewrite firstn_nil; simpl; lra|].
        destruct j; simpl; [lra|]. assert (0 <= b) by (apply Hnn; simpl; auto).
        assert (0 <= qsum (firstn j r)) by (apply IH; intros; apply Hnn; simpl in *; tauto). lra. }
      assert (0 <= a) by (apply Hnn; simpl; auto). lra.
    + assert (qsum (firstn i r) <= qsum (firstn j r)) by (apply IH; [intros; apply Hnn; simpl; auto|lia]). lra.
Qed.

Lemma cumsum_Q_monotone : forall row : list Q, (forall p, In p row -> 0 <= p) -> monotone (cumsum row).
Proof.
  intros row Hnn i j ci cj Hij Hi Hj. cbn. apply Qltb_false.
  rewrite (cumsum_Q_nth row i ci Hi), (cumsum_Q_nth row j cj Hj).
  apply qsum_nonneg_mono; auto. lia.
Qed.

Definition stochastic_row (n : Z) (row : list Q) : Prop :=
  zlen row = n /\ (forall p, In p row -> 0 <= p) /\ qsum row == 1.

Lemma firstn_all_len {A} (l : list A) : firstn (length l) l = l.
Proof. apply firstn_all. Qed.

(* the last cumulative sum of a non-empty row is the row sum *)
Lemma cumsum_Q_last : forall row : list Q, (0 < length row)%nat ->
  exists c, rdw (cumsum row) (-1) = Ok c /\ c == qsum row.
Proof.
  intros row Hlen.
  destruct (nth_error (cumsum row) (length row - 1)) as [c|] eqn:Hc.
  2:{ apply nth_error_None in Hc. rewrite cumsum_length in Hc. lia. }
  exists c. split.
  - unfold rdw. change (-1 <? 0)%Z with true. cbv iota. apply rd_Ok_iff.
    unfold zlen. rewrite cumsum_length. split; [lia|].
    replace (Z.to_nat (-1 + Z.of_nat (length row))) with (length row - 1)%nat by lia. exact Hc.
  - rewrite (cumsum_Q_nth row _ c Hc). replace (S (length row - 1)) with (length row) by lia.
    rewrite firstn_all. reflexivity.
Qed.

Lemma row_ok_Q : forall n row, (0 < n)%Z -> stochastic_row n row -> row_ok posQ row.
Proof.
  intros n row Hn [Hlen [Hnn Hsum]]. split.
  - intros p Hp. cbn. apply Qle_bool_true. auto.
  - destruct (cumsum_Q_last row) as [c [Hc Ec]]; [unfold zlen in Hlen; lia|].
    exists c. split; [exact Hc|]. unfold posQ. rewrite Ec, Hsum. lra.
Qed.

(* the exact reading of step_post: positive probability and  S_{y-1} <= u < S_y  *)
Lemma step_post_Q : forall n row u y, (0 < n)%Z -> stochastic_row n row -> unitv u ->
  step_post row u y ->
  (0 <= y < n)%Z /\
  (exists p, nth_error row (Z.to_nat y) = Some p /\ 0 < p) /\
  qsum (firstn (Z.to_nat y) row) <= u < qsum (firstn (S (Z.to_nat y)) row).
Proof.
  intros n row u y Hn Hrow Hu [Hy [[p [Hp Hpos]] [c [Hc [[x [Hx Hvx]] Hlo]]]]].
  destruct Hrow as [Hlen [Hnn Hsum]]. split; [lia|]. split.
  - exists p. split; [exact Hp|]. change (Qltb 0 p = true) in Hpos. apply Qltb_lt in Hpos. exact Hpos.
  - destruct (cumsum_Q_last row) as [c' [Hc' Ec]]; [unfold zlen in Hlen; lia|].
    rewrite Hc in Hc'. injection Hc' as <-.
    assert (Ev : Qmulr u c == u) by (rewrite Qmulr_eq, Ec, Hsum; lra).
    apply rd_Ok_iff in Hx. destruct Hx as [Hy0 Hx].
    change (Qltb (Qmulr u c) x = true) in Hvx. apply Qltb_lt in Hvx. rewrite Ev, (cumsum_Q_nth row _ x Hx) in Hvx.
    split; [|exact Hvx].
    destruct Hlo as [->|[x' [Hx' Hv']]]; [apply unitv_Q in Hu; simpl; lra|].
    apply rd_Ok_iff in Hx'. destruct Hx' as [Hy1 Hx'].
    change (Qltb (Qmulr u c) x' = false) in Hv'. apply Qltb_false in Hv'. rewrite Ev, (cumsum_Q_nth row _ x' Hx') in Hv'.
    replace (S (Z.to_nat (y - 1))) with (Z.to_nat y) in Hv' by lia. exact Hv'.
Qed.

End ExactQ.

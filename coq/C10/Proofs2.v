(* C10 proofs, part 2: whole simulate_indices calls (every init / num_reps form), the exact
   theorem over Q, float spot checks of the assumed facts. *)
From Coq Require Import ZArith QArith List Bool Lia Lqa PrimFloat.
From QE Require Import Base.Num C10.Model C10.Proofs.
Import ListNotations.
Open Scope Z_scope.

(* ------------------------------------------------------------------ mapM / chop / tile *)
Lemma mapM_Forall2 {A B} (f : A -> res B) (R : A -> B -> Prop) : forall l,
  (forall x, In x l -> exists y, f x = Ok y /\ R x y) ->
  exists ys, mapM f l = Ok ys /\ Forall2 R l ys.
Proof.
  induction l as [|a r IH]; intros Hf.
  - exists []. split; [reflexivity|constructor].
  - destruct (Hf a (or_introl eq_refl)) as [y [Ey Ry]].
    destruct IH as [ys [Eys Rys]]; [intros; apply Hf; right; auto|].
    exists (y :: ys). cbn [mapM]. rewrite Ey. cbn [bind]. rewrite Eys. cbn [bind]. split; [reflexivity|constructor; auto].
Qed.

Lemma Forall2_len {A B} (R : A -> B -> Prop) : forall l l', Forall2 R l l' -> length l = length l'.
Proof. induction 1; simpl; auto. Qed.

Lemma Forall_firstn {A} (Pp : A -> Prop) : forall n l, Forall Pp l -> Forall Pp (firstn n l).
Proof. induction n; intros l Hl; [constructor|]. destruct l; [constructor|]. inversion Hl; subst. simpl. constructor; auto. Qed.

Lemma Forall_skipn {A} (Pp : A -> Prop) : forall n l, Forall Pp l -> Forall Pp (skipn n l).
Proof. induction n; intros l Hl; [exact Hl|]. destruct l; [constructor|]. inversion Hl; subst. simpl. auto. Qed.

Lemma chop_Forall {A} (Pp : A -> Prop) : forall k m (s : list A), Forall Pp s -> Forall (Forall Pp) (chop k m s).
Proof.
  induction k; intros m s Hs; simpl; constructor.
  - apply Forall_firstn; auto.
  - apply IHk. apply Forall_skipn; auto.
Qed.

Lemma chop_length {A} : forall k m (s : list A), length (chop k m s) = k.
Proof. induction k; simpl; auto. Qed.

Lemma chop_row_length {A} : forall k m (s : list A), (k * m <= length s)%nat -> Forall (fun r => length r = m) (chop k m s).
Proof.
  induction k; intros m s Hs; simpl; constructor.
  - apply firstn_length_le. lia.
  - apply IHk. rewrite skipn_length. lia.
Qed.

Lemma tile_length {A} (a : list A) : forall r, length (tile a r) = (r * length a)%nat.
Proof. induction r; simpl; auto. rewrite app_length, IHr. lia. Qed.

(* ------------------------------------------------------------------ init / num_reps handling *)
Definition reps (nr : option Z) : nat := match nr with None => 1%nat | Some r => Z.to_nat r end.

Theorem init_states_shape : forall n init nr drawn d inits,
  init_states n init nr drawn = Ok (d, inits) ->
  d = match init, nr with IArr _, _ => true | _, Some _ => true | _, None => false end /\
  (forall r, nr = Some r -> 0 <= r) /\
  match init with
  | IInt i => - n <= i < n /\ inits = repeat i (reps nr)
  | IArr l => Forall (fun i => - n <= i < n) l /\ inits = tile l (reps nr)
  | INone => inits = firstn (reps nr) drawn
  end.
Proof.
  intros n init nr drawn d inits. unfold init_states, reps.
  assert (Hr : forall i, in_state_range n i = true -> - n <= i < n).
  { intros i. unfold in_state_range. rewrite negb_true_iff, orb_false_iff. intros [A B].
    rewrite Z.geb_leb in A. apply Z.ltb_ge in B. apply Z.leb_gt in A. lia. }
  destruct init as [|i|l].
  - destruct nr as [r|].
    + destruct (Z.ltb_spec r 0); [discriminate|]. intros [= <- <-]. repeat split; auto. intros r' [= <-]. lia.
    + intros [= <- <-]. repeat split; auto. intros; discriminate.
  - destruct (in_state_range n i) eqn:E; [|discriminate]. apply Hr in E.
    destruct nr as [r|].
    + destruct (Z.ltb_spec r 0); [discriminate|]. intros [= <- <-]. repeat split; try lia. intros r' [= <-]. lia.
    + intros [= <- <-]. repeat split; try lia. intros; discriminate.
  - destruct (forallb (in_state_range n) l) eqn:E; [|discriminate].
    assert (Hl : Forall (fun i => - n <= i < n) l).
    { apply Forall_forall. intros i Hi. apply Hr. rewrite forallb_forall in E. auto. }
    destruct nr as [r|].
    + destruct (Z.ltb_spec r 0); [discriminate|]. intros [= <- <-]. repeat split; auto. intros r' [= <-]. lia.
    + intros [= <- <-]. repeat split; auto; [intros; discriminate|]. simpl. now rewrite app_nil_r.
Qed.

(* ------------------------------------------------------------------ whole simulate_indices calls, dense *)
Section SimGeneric.
Context {T : Type} `{Num T}.
Variable scal_ok : T -> Prop.
Hypothesis F1 : forall u c, scal_ok c -> unitv u -> nltb (nmul u c) c = true.
Hypothesis F1z : forall u c, scal_ok c -> unitv u -> nltb (nmul u c) nzero = false.
Hypothesis F2 : forall x p v, nleb nzero p = true -> nltb nzero p = false -> nltb v (nadd x p) = nltb v x.
Hypothesis F2z : forall p v, nleb nzero p = true -> nltb nzero p = false -> nltb v p = true -> nltb v nzero = true.

Theorem simulate_indices_dense_valid : forall (P : list (list T)) ts init nr drawn stream d inits,
  matrix_ok scal_ok P -> 0 < zlen P -> 1 <= ts -> Forall unitv stream ->
  init_states (zlen P) init nr drawn = Ok (d, inits) ->
  exists X, simulate_indices (Dense P) ts init nr drawn stream = Ok (d, X) /\
    Forall2 (fun iu p => valid_path P (fst iu) (snd iu) p)
            (combine (map (fun i => i mod zlen P) inits)
                     (chop (length inits) (Z.to_nat (ts - 1)) stream)) X.
Proof.
  intros P ts init nr drawn stream d inits HP Hn Hts Hs Hi.
  unfold simulate_indices. cbn [chain_n]. rewrite Hi. cbn [bind].
  destruct (Z.ltb_spec ts 1); [lia|]. cbn [chain_paths]. unfold gen_paths_dense.
  rewrite map_length.
  pose proof (chop_Forall unitv (length inits) (Z.to_nat (ts - 1)) stream Hs) as Hch.
  destruct (mapM_Forall2 (fun iu => path_dense (cdfs_dense P) (fst iu) (snd iu))
              (fun iu p => valid_path P (fst iu) (snd iu) p)
              (combine (map (fun i => i mod zlen P) inits) (chop (length inits) (Z.to_nat (ts - 1)) stream)))
    as [X [EX RX]].
  - intros [x us] Hin. cbn [fst snd].
    pose proof (in_combine_l _ _ _ _ Hin) as Hx. pose proof (in_combine_r _ _ _ _ Hin) as Hus.
    apply in_map_iff in Hx. destruct Hx as [i [<- _]].
    apply (path_dense_valid scal_ok F1 F1z F2 F2z P us (i mod zlen P) HP).
    + apply Z.mod_pos_bound. exact Hn.
    + rewrite Forall_forall in Hch. auto.
  - exists X. rewrite EX. cbn [bind]. split; [reflexivity|exact RX].
Qed.
End SimGeneric.

(* ------------------------------------------------------------------ exact theorem over Q *)
Section Exact.
Open Scope Q_scope.

Definition stochastic_matrix (P : list (list Q)) : Prop :=
  forall row, In row P -> stochastic_row (zlen P) row.

Lemma matrix_ok_Q : forall P, (0 < zlen P)%Z -> stochastic_matrix P -> matrix_ok posQ P.
Proof.
  intros P Hn HP row Hrow. split.
  - eapply row_ok_Q; eauto.
  - destruct (HP row Hrow) as [Hl _]. exact Hl.
Qed.

Definition unit_interval (u : Q) : Prop := 0 <= u /\ u < 1.

(* the property a path has to satisfy over Q, in indexed form *)
Definition exact_path (P : list (list Q)) (x : Z) (us : list Q) (p : list Z) : Prop :=
  length p = S (length us) /\ nth_error p 0 = Some x /\
  Forall (fun s => (0 <= s < zlen P)%Z) p /\
  forall t u, nth_error us t = Some u ->
    exists xt y row py,
      nth_error p t = Some xt /\ nth_error p (S t) = Some y /\ (0 <= xt)%Z /\ (0 <= y)%Z /\
      nth_error P (Z.to_nat xt) = Some row /\ nth_error row (Z.to_nat y) = Some py /\ 0 < py /\
      qsum (firstn (Z.to_nat y) row) <= u < qsum (firstn (S (Z.to_nat y)) row).

Lemma valid_path_exact : forall P x us p,
  (0 < zlen P)%Z -> stochastic_matrix P -> (0 <= x < zlen P)%Z -> Forall unit_interval us ->
  valid_path P x us p -> exact_path P x us p.
Proof.
  intros P x us p Hn HP Hx Hus Hv. unfold exact_path.
  split; [exact (valid_path_length _ _ _ _ Hv)|].
  split; [exact (valid_path_head _ _ _ _ Hv)|].
  split.
  - apply (valid_path_range _ _ _ _ Hv Hx). intros row Hrow. destruct (HP row Hrow) as [Hl _]. exact Hl.
  - intros t u Hu.
    destruct (valid_path_step P x us p Hv t u Hu) as [xt [y [row [A [B [C [D E]]]]]]].
    pose proof (HP row (nth_error_In _ _ D)) as Hrow.
    assert (Huu : unitv u).
    { apply unitv_Q. rewrite Forall_forall in Hus. apply Hus. eapply nth_error_In; eauto. }
    destruct (step_post_Q (zlen P) row u y Hn Hrow Huu E) as [Hy [[py [Hpy Hpos]] Hbr]].
    exists xt, y, row, py. repeat split; auto; try lia; apply Hbr.
Qed.

Theorem path_valid_exact : forall (P : list (list Q)) x us,
  stochastic_matrix P -> (0 <= x < zlen P)%Z -> Forall unit_interval us ->
  exists p, path_dense (cdfs_dense P) x us = Ok p /\ exact_path P x us p.
Proof.
  intros P x us HP Hx Hus.
  assert (Hn : (0 < zlen P)%Z) by lia.
  assert (Hu : Forall (unitv (T:=Q)) us).
  { eapply Forall_impl; [|exact Hus]. intros u Hu. apply unitv_Q. exact Hu. }
  destruct (path_dense_valid posQ F1_Q F1z_Q F2_Q F2z_Q P us x (matrix_ok_Q P Hn HP) Hx Hu) as [p [Ep Vp]].
  exists p. split; [exact Ep|]. apply valid_path_exact; auto.
Qed.

(* every form of init / num_reps: documented shape, start, validity of every row *)
Theorem simulate_indices_exact : forall (P : list (list Q)) ts init nr drawn stream d inits,
  stochastic_matrix P -> (0 < zlen P)%Z -> (1 <= ts)%Z -> Forall unit_interval stream ->
  (length inits * Z.to_nat (ts - 1) <= length stream)%nat ->
  init_states (zlen P) init nr drawn = Ok (d, inits) ->
  exists X, simulate_indices (Dense P) ts init nr drawn stream = Ok (d, X) /\
    length X = length inits /\
    forall i x0 row, nth_error inits i = Some x0 -> nth_error X i = Some row ->
      length row = Z.to_nat ts /\
      exists us, nth_error (chop (length inits) (Z.to_nat (ts - 1)) stream) i = Some us /\
                 exact_path P (x0 mod zlen P) us row.
Proof.
  intros P ts init nr drawn stream d inits HP Hn Hts Hs Hlen Hi.
  assert (Hu : Forall (unitv (T:=Q)) stream).
  { eapply Forall_impl; [|exact Hs]. intros u Hu. apply unitv_Q. exact Hu. }
  destruct (simulate_indices_dense_valid posQ F1_Q F1z_Q F2_Q F2z_Q P ts init nr drawn stream d inits
              (matrix_ok_Q P Hn HP) Hn Hts Hu Hi) as [X [EX RX]].
  exists X. split; [exact EX|].
  pose proof (Forall2_len _ _ _ RX) as HL.
  rewrite combine_length, map_length, chop_length, Nat.min_id in HL.
  split; [lia|].
  intros i x0 row Hx0 Hrow.
  pose proof (chop_row_length (length inits) (Z.to_nat (ts - 1)) stream Hlen) as Hrl.
  pose proof (chop_Forall unit_interval (length inits) (Z.to_nat (ts - 1)) stream Hs) as Hch.
  destruct (nth_error (chop (length inits) (Z.to_nat (ts - 1)) stream) i) as [us|] eqn:Hus.
  2:{ apply nth_error_None in Hus. rewrite chop_length in Hus.
      assert (i < length inits)%nat by (apply nth_error_Some; congruence). lia. }
  assert (Hc : nth_error (combine (map (fun i => (i mod zlen P)%Z) inits) (chop (length inits) (Z.to_nat (ts - 1)) stream)) i
               = Some ((x0 mod zlen P)%Z, us)).
  { clear -Hx0 Hus. revert i Hx0 Hus. generalize (chop (length inits) (Z.to_nat (ts - 1)) stream) as c.
    induction inits as [|a r IH]; intros c i Hx0 Hus; [destruct i; discriminate|].
    destruct c as [|c0 c]; [destruct i; discriminate|].
    destruct i; simpl in *.
    - injection Hx0 as ->. injection Hus as ->. reflexivity.
    - apply IH; auto. }
  assert (Hv : valid_path P (x0 mod zlen P) us row).
  { clear -RX Hc Hrow. revert i Hc Hrow. induction RX as [|a b l l' Hab _ IH]; intros i Hc Hrow; [destruct i; discriminate|].
    destruct i; simpl in *.
    - injection Hc as ->. injection Hrow as ->. exact Hab.
    - eapply IH; eauto. }
  assert (Hus_unit : Forall unit_interval us).
  { rewrite Forall_forall in Hch. apply Hch. eapply nth_error_In; eauto. }
  assert (Hus_len : length us = Z.to_nat (ts - 1)).
  { rewrite Forall_forall in Hrl. apply Hrl. eapply nth_error_In; eauto. }
  pose proof (valid_path_exact P (x0 mod zlen P) us row Hn HP (Z.mod_pos_bound _ _ Hn) Hus_unit Hv) as Hex.
  split.
  - destruct Hex as [Hl _]. rewrite Hl, Hus_len. lia.
  - exists us. split; [reflexivity|exact Hex].
Qed.
End Exact.

(* ------------------------------------------------------------------ binary64: spot checks of the assumed facts at
   the extremes (tests, not theorems): u = 1-2^-53 against totals just below/above 1 and tiny normal totals *)
Definition u_max : float := 0x1.fffffffffffffp-1%float.
Definition f1_holds (u c : float) : bool := PrimFloat.ltb (PrimFloat.mul u c) c && negb (PrimFloat.ltb (PrimFloat.mul u c) 0%float).
Example F1_float_spot :
  forallb (fun c => f1_holds u_max c && f1_holds 0%float c && f1_holds 0x1p-1074%float c)
          [0x1.fffffffffffffp-1; 1; 0x1.0000000000001p+0; 0x1.ffffeb074a772p-1; 0x1.00000a7c5ac47p+0;
           0x1p-1021; 0x1.8p+0; 0x1.fffffffffffffp+1023]%float = true.
Proof. vm_compute. reflexivity. Qed.
(* the fact needs a total c >= 2^-1021: at the smallest normal and at subnormal totals u*c rounds back to c.
   Totals accepted by MarkovChain are within 1e-5 of 1. *)
Example F1_float_tiny_fails :
  f1_holds u_max 0x1p-1074%float = false /\ f1_holds u_max 0x1p-1022%float = false.
Proof. vm_compute. split; reflexivity. Qed.
Example F2_float_spot :
  forallb (fun x => forallb (fun v => Bool.eqb (PrimFloat.ltb v (PrimFloat.add x 0%float)) (PrimFloat.ltb v x)
                                     && Bool.eqb (PrimFloat.ltb v (PrimFloat.add x (-0)%float)) (PrimFloat.ltb v x))
                            [0; 0x1p-1074; 0x1.fffffffffffffp-1; 1; 0x1.999999999999ap-4]%float)
          [0; (-0); 0x1p-1074; 0x1.999999999999ap-4; 0x1.fffffffffffffp-1; 1]%float = true.
Proof. vm_compute. reflexivity. Qed.

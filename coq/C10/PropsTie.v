(* C10: theorem about the searchsorted kernel as REGENERATED from /repo's current source. Statements only. *)
From Coq Require Import ZArith List Bool.
From QE Require Import Base.Num Gen.Kernels C10.TieGen.
Import ListNotations.
Open Scope Z_scope.

Theorem C10_gen_searchsorted_spec : forall (T : Type) (NT : Num T) (a : list T) (v : T),
  let '(k, ok) := gen_searchsorted a v in
  ok = true /\ 0 <= k <= Z.of_nat (length a) /\
  (k = Z.of_nat (length a) \/ nltb v (nth (Z.to_nat k) a nzero) = true) /\
  (k = 0 \/ nltb v (nth (Z.to_nat (k - 1)) a nzero) = false).
Proof. intros T NT a v. exact (gen_searchsorted_spec a v). Qed.
Print Assumptions C10_gen_searchsorted_spec.

(* the hand-written model of C10 (coq/C10/Model.v::searchsorted, about which the C10 theorems are proved)
   and the regenerated kernel return the same index, and both never read out of bounds *)
From QE Require Import C10.Model C10.TieGen2.
Theorem C10_gen_searchsorted_tie : forall (T : Type) (NT : Num T) (a : list T) (v : T) (k : Z),
  gen_searchsorted a v = (k, true) <-> searchsorted a v = Ok k.
Proof. intros T NT a v k. exact (gen_searchsorted_tie a v k). Qed.
Print Assumptions C10_gen_searchsorted_tie.

(* ---------------------------------------------------------------------------------------------
   _generate_sample_paths and _generate_sample_paths_sparse (markov/core.py) as REGENERATED from the current source
   (Gen/Kernels3.v; they call the regenerated searchsorted above): whenever the hand-written model returns Ok X
   (i.e. reads no array out of bounds), the regenerated kernel writes exactly X into `out` (any initial contents,
   num_reps x ts_length, ts_length >= 1) and its bounds flag is true.  For every Num instance; proofs in C10/TieGen3.v.
   Sparse form: the integer arrays (init states, indices, indptr) are non-negative, as CSR arrays are.
   --------------------------------------------------------------------------------------------- *)
From QE Require Import Gen.Kernels2 Gen.Kernels3 Base.GenLemmas C10.TieGen3.
Theorem C10_tie_generate_sample_paths :
  forall (T : Type) (NT : Num T) (cdfs us : list (list T)) (R TS : nat), rect R (TS - 1) us ->
  forall (inits : list Z) (X : list (list Z)), length inits = R -> (1 <= TS)%nat ->
  gen_paths_dense cdfs inits us = Ok X ->
  forall out : list (list Z), rect R TS out -> @gen_generate_sample_paths T NT cdfs inits us out = (X, true).
Proof. exact (@gen_generate_sample_paths_tie). Qed.
Print Assumptions C10_tie_generate_sample_paths.

Theorem C10_tie_generate_sample_paths_sparse :
  forall (T : Type) (NT : Num T) (cdfs1d : list T) (indices indptr : list Z) (us : list (list T)) (R TS : nat),
  rect R (TS - 1) us -> (forall v, In v indices -> 0 <= v) -> (forall v, In v indptr -> 0 <= v) ->
  forall (inits : list Z) (X : list (list Z)), length inits = R -> (forall v, In v inits -> 0 <= v) -> (1 <= TS)%nat ->
  gen_paths_sparse cdfs1d indices indptr inits us = Ok X ->
  forall out : list (list Z), rect R TS out ->
  @gen_generate_sample_paths_sparse T NT cdfs1d indices indptr inits us out = (X, true).
Proof. exact (@gen_generate_sample_paths_sparse_tie). Qed.
Print Assumptions C10_tie_generate_sample_paths_sparse.

From Coq Require Import QArith.
(* non-vacuity: a 2-state chain, two replications of length 3, exact Q; dense and CSR forms give the same paths *)
Example C10_tie_generate_sample_paths_example :
  gen_paths_dense [[1#2; 1]; [1#4; 1]]%Q [0; 1]%Z [[3#4; 1#8]; [1#8; 1#2]]%Q = Ok [[0; 1; 0]; [1; 0; 1]]%Z /\
  gen_generate_sample_paths [[1#2; 1]; [1#4; 1]]%Q [0; 1]%Z [[3#4; 1#8]; [1#8; 1#2]]%Q [[7;7;7];[7;7;7]]%Z = ([[0; 1; 0]; [1; 0; 1]]%Z, true) /\
  gen_generate_sample_paths_sparse [1#2; 1; 1#4; 1]%Q [0; 1; 0; 1]%Z [0; 2; 4]%Z [0; 1]%Z [[3#4; 1#8]; [1#8; 1#2]]%Q [[7;7;7];[7;7;7]]%Z
    = ([[0; 1; 0]; [1; 0; 1]]%Z, true).
Proof. vm_compute. repeat split. Qed.

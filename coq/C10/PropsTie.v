(* C10: theorem about the searchsorted kernel as REGENERATED from /repo's current source. Statements only. *)
From Coq Require Import ZArith List Bool.
From QE Require Import Base.Num Gen.Kernels C10.TieGen.
Import ListNotations.
Open Scope Z_scope.

Theorem C10_gen_searchsorted_spec : forall (T : Type) (NT : Num T) (a : list T) (v : T),
  let '(k, ok) := gen_searchsorted a v in
  ok = true /\ 0 <= k <= Z.of_nat (length a) /\
  (k = Z.of_nat (length a) \/ nltb v (nth (Z.to_nat k) a nzero) = true) /\
  (k = 0 \/ nltb v (nth (Z.to_nat (k - 1)) a nzero) = false).
Proof. intros T NT a v. exact (gen_searchsorted_spec a v). Qed.
Print Assumptions C10_gen_searchsorted_spec.

(* the hand-written model of C10 (coq/C10/Model.v::searchsorted, about which the C10 theorems are proved)
   and the regenerated kernel return the same index, and both never read out of bounds *)
From QE Require Import C10.Model C10.TieGen2.
Theorem C10_gen_searchsorted_tie : forall (T : Type) (NT : Num T) (a : list T) (v : T) (k : Z),
  gen_searchsorted a v = (k, true) <-> searchsorted a v = Ok k.
Proof. intros T NT a v k. exact (gen_searchsorted_tie a v k). Qed.
Print Assumptions C10_gen_searchsorted_tie.

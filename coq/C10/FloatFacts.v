(* C10: the arithmetic facts F1, F2, F3 used by the generic path theorems, PROVED for IEEE binary64
   (Coq's PrimFloat) through Flocq: PrimFloat operations are related to Flocq's binary_float by
   Flocq.IEEE754.PrimFloat (which rests on the standard library's FloatAxioms: the specification of the
   primitive operations), and rounding facts come from Flocq.Core over the classical reals. *)
From Coq Require Import ZArith Reals Lia Lra Psatz Bool List.
From Flocq Require Import Core.Core IEEE754.BinarySingleNaN IEEE754.PrimFloat.
From QE Require Import C10.FloatConsts.
Import ListNotations.
Open Scope R_scope.

Notation fexp64 := (FLT_exp (-1074) 53).
Notation rnd64 := (round radix2 fexp64 ZnearestE).
Notation fmt64 := (generic_format radix2 fexp64).
Notation B64 := (binary_float FloatOps.prec FloatOps.emax).

Global Instance prec53 : Prec_gt_0 53. Proof. unfold Prec_gt_0. lia. Qed.
#[global] Existing Instance Flocq.IEEE754.PrimFloat.Hprec.
#[global] Existing Instance Flocq.IEEE754.PrimFloat.Hmax.
Global Instance valid_fexp64 : Valid_exp fexp64. Proof. apply FLT_exp_valid. apply prec53. Qed.

Lemma b52 : bpow radix2 (-52) = 2 * bpow radix2 (-53).
Proof. change (-52)%Z with (-53 + 1)%Z. rewrite bpow_plus. simpl (bpow radix2 1). unfold Z.pow_pos; simpl. lra. Qed.

(* ------------------------------------------------------------------ the rounding argument, over the reals:
   for representable 0 <= u < 1 and representable c >= 2^-1021, round-to-nearest-even of u*c is below c
   (u <= 1-2^-53, so u*c lies below the midpoint of pred(c) and c) and not negative *)
Lemma mul_lt_core : forall u c : R, fmt64 u -> fmt64 c -> 0 <= u < 1 -> bpow radix2 (-1021) <= c ->
  rnd64 (u * c) < c /\ 0 <= rnd64 (u * c).
Proof.
  intros u c Fu Fc [Hu0 Hu1] Hc.
  assert (Hcpos : 0 < c) by (pose proof (bpow_gt_0 radix2 (-1021)); lra).
  assert (Hb53 : 0 < bpow radix2 (-53)) by apply bpow_gt_0.
  assert (F1 : fmt64 1).
  { change 1 with (bpow radix2 0). apply generic_format_FLT_bpow; [apply prec53|lia]. }
  assert (Hup : u <= 1 - bpow radix2 (-53)).
  { pose proof (pred_ge_gt radix2 fexp64 u 1 Fu F1 Hu1) as Hp.
    change 1 with (bpow radix2 0) in Hp. rewrite pred_bpow in Hp. exact Hp. }
  split.
  2:{ rewrite <- (round_0 radix2 fexp64 ZnearestE). apply round_le; try typeclasses eauto. nra. }
  set (pc := pred radix2 fexp64 c).
  assert (Fpc : fmt64 pc) by (apply generic_format_pred; auto; typeclasses eauto).
  assert (Hsum : pc + ulp radix2 fexp64 pc = c) by (apply pred_plus_ulp; auto; typeclasses eauto).
  assert (Hpc_lo : bpow radix2 (-1022) <= pc).
  { apply pred_ge_gt; auto; try typeclasses eauto.
    - apply generic_format_FLT_bpow; [apply prec53|lia].
    - assert (bpow radix2 (-1022) < bpow radix2 (-1021)) by (apply bpow_lt; lia). lra. }
  assert (Hpcpos : 0 < pc) by (pose proof (bpow_gt_0 radix2 (-1022)); lra).
  assert (Hmag : (-1021 <= mag radix2 pc)%Z).
  { apply mag_ge_bpow. rewrite Rabs_pos_eq by lra. exact Hpc_lo. }
  assert (Hulp : ulp radix2 fexp64 pc = bpow radix2 (mag radix2 pc - 1) * bpow radix2 (-52)).
  { rewrite ulp_neq_0 by lra. unfold cexp, FLT_exp. rewrite Z.max_l by lia. rewrite <- bpow_plus. f_equal. lia. }
  assert (Hle : bpow radix2 (mag radix2 pc - 1) <= pc).
  { pose proof (bpow_mag_le radix2 pc ltac:(lra)) as Hh. rewrite Rabs_pos_eq in Hh by lra. exact Hh. }
  assert (Hulp_lt : ulp radix2 fexp64 pc < c * bpow radix2 (-52)).
  { rewrite Hulp. pose proof (bpow_gt_0 radix2 (-52)).
    assert (pc < c) by (apply pred_lt_id; lra). nra. }
  assert (Hmid : u * c < (pc + succ radix2 fexp64 pc) / 2).
  { unfold pc at 2. rewrite succ_pred by (auto; typeclasses eauto). rewrite b52 in Hulp_lt. nra. }
  pose proof (round_N_le_midp radix2 fexp64 (fun x => negb (Z.even x)) pc (u * c) Fpc Hmid) as Hr.
  assert (pc < c) by (apply pred_lt_id; lra). lra.
Qed.

(* ------------------------------------------------------------------ PrimFloat <-> reals *)
Definition RR (x : PrimFloat.float) : R := B2R (Prim2B x).
Definition fin (x : PrimFloat.float) : Prop := is_finite (Prim2B x) = true.

Lemma fmt_RR x : fmt64 (RR x).
Proof. unfold RR. exact (generic_format_B2R FloatOps.prec FloatOps.emax (Prim2B x)). Qed.

Lemma ltb_R x y : fin x -> fin y -> PrimFloat.ltb x y = Rlt_bool (RR x) (RR y).
Proof. intros Hx Hy. rewrite ltb_equiv. apply Bltb_correct; assumption. Qed.

Lemma leb_R x y : fin x -> fin y -> PrimFloat.leb x y = Rle_bool (RR x) (RR y).
Proof. intros Hx Hy. rewrite leb_equiv. apply Bleb_correct; assumption. Qed.

(* comparisons with a finite bound exclude NaN and the infinity on the far side *)
Lemma B_lower (L X : B64) : is_finite L = true -> (Bleb L X = true \/ Bltb L X = true) ->
  is_finite X = true \/ X = B754_infinity false.
Proof.
  intros HL Hc. destruct X as [s|[|]| |s m e h]; auto; exfalso;
    destruct L as [sl|sl| |sl ml el hl]; try discriminate; destruct Hc as [Hc|Hc];
      try (destruct sl; discriminate Hc); discriminate Hc.
Qed.

Lemma B_upper (U X : B64) : is_finite U = true -> (Bleb X U = true \/ Bltb X U = true) ->
  is_finite X = true \/ X = B754_infinity true.
Proof.
  intros HU Hc. destruct X as [s|[|]| |s m e h]; auto; exfalso;
    destruct U as [su|su| |su mu eu hu]; try discriminate; destruct Hc as [Hc|Hc];
      try (destruct su; discriminate Hc); discriminate Hc.
Qed.

Lemma fin_between lo x hi : fin lo -> fin hi ->
  (PrimFloat.leb lo x = true \/ PrimFloat.ltb lo x = true) ->
  (PrimFloat.leb x hi = true \/ PrimFloat.ltb x hi = true) -> fin x.
Proof.
  unfold fin. intros Hlo Hhi H1 H2. rewrite leb_equiv, ltb_equiv in H1, H2.
  destruct (B_lower _ _ Hlo H1) as [F|E]; [exact F|].
  destruct (B_upper _ _ Hhi H2) as [F|E']; [exact F|]. rewrite E in E'. discriminate.
Qed.

(* ------------------------------------------------------------------ constants *)
Lemma fin_const x : is_finite_SF (FloatOps.Prim2SF x) = true -> fin x.
Proof. intros Hh. unfold fin, Prim2B. rewrite is_finite_SF2B. exact Hh. Qed.

Lemma RR_const x s m e : FloatOps.Prim2SF x = SpecFloat.S754_finite s m e ->
  RR x = F2R (Float radix2 (cond_Zopp s (Zpos m)) e).
Proof. intros E. unfold RR, Prim2B. rewrite B2R_SF2B, E. reflexivity. Qed.

Lemma fin_zero : fin f_zero. Proof. apply fin_const. vm_compute. reflexivity. Qed.
Lemma fin_one : fin f_one. Proof. apply fin_const. vm_compute. reflexivity. Qed.
Lemma fin_lo : fin c_lo. Proof. apply fin_const. vm_compute. reflexivity. Qed.
Lemma fin_hi : fin c_hi. Proof. apply fin_const. vm_compute. reflexivity. Qed.

Lemma RR_zero : RR f_zero = 0.
Proof.
  unfold RR, Prim2B. rewrite B2R_SF2B.
  replace (FloatOps.Prim2SF f_zero) with (SpecFloat.S754_zero false) by (vm_compute; reflexivity). reflexivity.
Qed.

Lemma RR_pow2 x e : FloatOps.Prim2SF x = SpecFloat.S754_finite false 4503599627370496 e ->
  RR x = bpow radix2 (52 + e).
Proof.
  intros E. rewrite (RR_const x _ _ _ E). unfold F2R. cbn [Fnum Fexp cond_Zopp].
  replace (IZR (Z.pos 4503599627370496)) with (bpow radix2 52) by (rewrite <- IZR_Zpower by lia; reflexivity).
  rewrite <- bpow_plus. reflexivity.
Qed.

Lemma RR_one : RR f_one = 1.
Proof. rewrite (RR_pow2 f_one (-52)) by (vm_compute; reflexivity). reflexivity. Qed.
Lemma RR_lo : RR c_lo = bpow radix2 (-1021).
Proof. rewrite (RR_pow2 c_lo (-1073)) by (vm_compute; reflexivity). reflexivity. Qed.
Lemma RR_hi : RR c_hi = bpow radix2 1000.
Proof. rewrite (RR_pow2 c_hi 948) by (vm_compute; reflexivity). reflexivity. Qed.

(* ------------------------------------------------------------------ F1 for binary64 *)
(* admissible totals: 2^-1021 <= c <= 2^1000 (as float comparisons; they imply that c is finite) *)
Definition scal64 (c : PrimFloat.float) : Prop :=
  PrimFloat.leb c_lo c = true /\ PrimFloat.leb c c_hi = true.
Definition unit64 (u : PrimFloat.float) : Prop :=
  PrimFloat.leb f_zero u = true /\ PrimFloat.ltb u f_one = true.

Lemma scal64_fin c : scal64 c -> fin c /\ bpow radix2 (-1021) <= RR c <= bpow radix2 1000.
Proof.
  intros [H1 H2].
  assert (Fc : fin c) by (apply (fin_between c_lo c c_hi); auto using fin_lo, fin_hi).
  split; [exact Fc|].
  rewrite (leb_R _ _ fin_lo Fc) in H1. rewrite (leb_R _ _ Fc fin_hi) in H2.
  rewrite RR_lo in H1. rewrite RR_hi in H2.
  split.
  - destruct (Rle_bool_spec (bpow radix2 (-1021)) (RR c)); [assumption|discriminate].
  - destruct (Rle_bool_spec (RR c) (bpow radix2 1000)); [assumption|discriminate].
Qed.

Lemma unit64_fin u : unit64 u -> fin u /\ 0 <= RR u < 1.
Proof.
  intros [H1 H2].
  assert (Fu : fin u) by (apply (fin_between f_zero u f_one); auto using fin_zero, fin_one).
  split; [exact Fu|].
  rewrite (leb_R _ _ fin_zero Fu), RR_zero in H1. rewrite (ltb_R _ _ Fu fin_one), RR_one in H2.
  split.
  - destruct (Rle_bool_spec 0 (RR u)); [assumption|discriminate].
  - destruct (Rlt_bool_spec (RR u) 1); [assumption|discriminate].
Qed.

Lemma mul_correct64 u c : fin u -> fin c -> Rabs (rnd64 (RR u * RR c)) < bpow radix2 1024 ->
  RR (PrimFloat.mul u c) = rnd64 (RR u * RR c) /\ fin (PrimFloat.mul u c).
Proof.
  intros Fu Fc Hb. unfold RR, fin in *. rewrite mul_equiv.
  pose proof (Bmult_correct FloatOps.prec FloatOps.emax _ _ mode_NE (Prim2B u) (Prim2B c)) as Hm.
  change (SpecFloat.fexp FloatOps.prec FloatOps.emax) with fexp64 in Hm.
  change (round_mode mode_NE) with ZnearestE in Hm.
  change (bpow radix2 FloatOps.emax) with (bpow radix2 1024) in Hm.
  rewrite (Rlt_bool_true _ _ Hb) in Hm. destruct Hm as [Hr [Hf _]].
  split; [exact Hr|]. etransitivity; [exact Hf|]. rewrite Fu, Fc. reflexivity.
Qed.

Theorem F1_binary64 : forall u c, scal64 c -> unit64 u ->
  PrimFloat.ltb (PrimFloat.mul u c) c = true /\ PrimFloat.ltb (PrimFloat.mul u c) f_zero = false.
Proof.
  intros u c Hc Hu.
  destruct (scal64_fin c Hc) as [Fc [Hc1 Hc2]]. destruct (unit64_fin u Hu) as [Fu Hu01].
  destruct (mul_lt_core (RR u) (RR c) (fmt_RR u) (fmt_RR c) Hu01 Hc1) as [Hlt Hge].
  assert (Hb : Rabs (rnd64 (RR u * RR c)) < bpow radix2 1024).
  { rewrite Rabs_pos_eq by exact Hge.
    assert (bpow radix2 1000 < bpow radix2 1024) by (apply bpow_lt; lia). lra. }
  destruct (mul_correct64 u c Fu Fc Hb) as [Er Fm].
  split.
  - rewrite (ltb_R _ _ Fm Fc), Er. apply Rlt_bool_true. exact Hlt.
  - rewrite (ltb_R _ _ Fm fin_zero), Er, RR_zero. apply Rlt_bool_false. exact Hge.
Qed.

(* ------------------------------------------------------------------ F2: a zero summand changes no comparison *)
Lemma zero_of_cmp (P : B64) : Bleb (Prim2B f_zero) P = true -> Bltb (Prim2B f_zero) P = false ->
  exists s, P = B754_zero s.
Proof.
  assert (Ez : exists sz, Prim2B f_zero = B754_zero sz).
  { pose proof fin_zero as Fz. pose proof RR_zero as Rz. unfold fin, RR in *.
    destruct (Prim2B f_zero) as [s|s| |s m e h]; try discriminate; [eauto|].
    exfalso. simpl in Rz. apply eq_0_F2R in Rz. destruct s; discriminate. }
  destruct Ez as [sz Ez]. rewrite Ez. intros H1 H2.
  destruct P as [s|[|]| |[|] m e h]; try discriminate; eauto.
Qed.

Lemma Bltb_zero_sign (V : B64) s s' : Bltb V (B754_zero s) = Bltb V (B754_zero s').
Proof. destruct V as [sv|sv| |sv mv ev hv]; reflexivity. Qed.

Lemma Bplus_zero_r (X : B64) s : Bplus mode_NE X (B754_zero s) = X \/ exists s1 s2, X = B754_zero s1 /\ Bplus mode_NE X (B754_zero s) = B754_zero s2.
Proof.
  destruct X as [sx|sx| |sx mx ex hx]; try (left; reflexivity).
  right. exists sx. destruct sx, s; eexists; split; reflexivity.
Qed.

Theorem F2_binary64 : forall x p v,
  PrimFloat.leb f_zero p = true -> PrimFloat.ltb f_zero p = false ->
  PrimFloat.ltb v (PrimFloat.add x p) = PrimFloat.ltb v x.
Proof.
  intros x p v H1 H2. rewrite leb_equiv in H1. rewrite ltb_equiv in H2.
  destruct (zero_of_cmp _ H1 H2) as [s Ep].
  rewrite !ltb_equiv, add_equiv, Ep.
  destruct (Bplus_zero_r (Prim2B x) s) as [E|[s1 [s2 [E1 E2]]]].
  - rewrite E. reflexivity.
  - rewrite E2, E1. apply Bltb_zero_sign.
Qed.

Theorem F2z_binary64 : forall p v,
  PrimFloat.leb f_zero p = true -> PrimFloat.ltb f_zero p = false ->
  PrimFloat.ltb v p = true -> PrimFloat.ltb v f_zero = true.
Proof.
  intros p v H1 H2 H3. rewrite leb_equiv in H1. rewrite ltb_equiv in H2.
  destruct (zero_of_cmp _ H1 H2) as [s Ep].
  rewrite ltb_equiv, Ep in H3. rewrite ltb_equiv.
  assert (Ez : exists sz, Prim2B f_zero = B754_zero sz).
  { apply zero_of_cmp; [rewrite <- leb_equiv|rewrite <- ltb_equiv]; vm_compute; reflexivity. }
  destruct Ez as [sz Ez]. rewrite Ez, (Bltb_zero_sign _ sz s). exact H3.
Qed.

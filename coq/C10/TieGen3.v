(* C10: tie lemmas between _generate_sample_paths / _generate_sample_paths_sparse of quantecon/markov/core.py as
   REGENERATED from /repo's current source (Gen/Kernels3.v) and the hand-written model C10/Model.v
   (gen_paths_dense / gen_paths_sparse), for every Num instance: whenever the model returns Ok X (no out-of-bounds read),
   the regenerated kernel fills `out` (any initial contents, num_reps x ts_length) with exactly X and its bounds flag is
   true.  The kernels call the regenerated searchsorted of Gen/Kernels.v (tie: C10/TieGen2.v). *)
From Coq Require Import ZArith List Bool Arith Lia.
From QE Require Import Base.Num Base.Pivot Gen.Kernels Gen.Kernels2 Gen.Kernels3 Base.GenLemmas C10.Model C10.Proofs C10.TieGen C10.TieGen2.
Import ListNotations.

Section Tie.
Context {T : Type} {NT : Num T}.

Lemma rdw_Ok {A} (d : A) (a : list A) i v : rdw a i = Ok v ->
  inb (widx i (length a)) a = true /\ nth (Z.to_nat (widx i (length a))) a d = v.
Proof.
  unfold rdw, zlen, widx. intro H. apply rd_Ok_iff in H. destruct H as [H0 H1].
  assert (Hlt : (Z.to_nat (if (i <? 0)%Z then (i + Z.of_nat (length a))%Z else i) < length a)%nat)
    by (apply nth_error_Some; congruence).
  split; [unfold inb; apply andb_true_intro; split; [apply Z.leb_le|apply Z.ltb_lt]; lia|].
  apply nth_error_nth. exact H1.
Qed.

Lemma skipn_cons_inv {A} (d : A) : forall t (l : list A) a r, skipn t l = a :: r -> nth t l d = a /\ skipn (S t) l = r.
Proof.
  induction t as [|t IH]; intros [|x l] a r H; cbn in *; try discriminate.
  - injection H as -> ->. split; reflexivity.
  - apply IH. exact H.
Qed.

Lemma mapM_nth {A B} (f : A -> res B) (da : A) (db : B) : forall l ys, mapM f l = Ok ys ->
  length ys = length l /\ forall i, (i < length l)%nat -> f (nth i l da) = Ok (nth i ys db).
Proof.
  induction l as [|a l IH]; intros ys H; cbn [mapM] in H.
  - injection H as <-. split; [reflexivity|]. intros i Hi. cbn in Hi. lia.
  - destruct (f a) as [y| | |] eqn:Ea; cbn [bind] in H; try discriminate.
    destruct (mapM f l) as [ys'| | |] eqn:El; cbn [bind] in H; try discriminate. injection H as <-.
    destruct (IH ys' eq_refl) as [L N]. split; [cbn; lia|]. intros [|i] Hi; cbn [nth]; [exact Ea|]. apply N. cbn in Hi. lia.
Qed.

Lemma get2z_nat (M : list (list Z)) i j : get2z M (Z.of_nat i) (Z.of_nat j) = nth j (nth i M []) 0%Z.
Proof. unfold get2z. rewrite row2_nat, widx_nat, Nat2Z.id. reflexivity. Qed.

Lemma path_dense_head cdfs x us p : @path_dense T NT cdfs x us = Ok p -> exists q, p = x :: q.
Proof.
  destruct us as [|u r]; cbn [path_dense]; [intro H; injection H as <-; exists []; reflexivity|].
  destruct (rdw cdfs x) as [cdf| | |]; cbn [bind]; try discriminate. destruct (inv_cdf cdf u) as [y| | |]; cbn [bind]; try discriminate.
  destruct (path_dense cdfs y r); cbn [bind]; try discriminate. intro H. injection H as <-. eexists. reflexivity.
Qed.

Lemma path_dense_length cdfs : forall us0 x0 q, @path_dense T NT cdfs x0 us0 = Ok q -> length q = S (length us0).
Proof.
  induction us0 as [|u r IHu]; intros x0 q Hq; cbn [path_dense] in Hq; [injection Hq as <-; reflexivity|].
  destruct (rdw cdfs x0) as [cdf| | |]; cbn [bind] in Hq; try discriminate.
  destruct (inv_cdf cdf u) as [y| | |]; cbn [bind] in Hq; try discriminate.
  destruct (path_dense cdfs y r) as [q0| | |] eqn:Eq0; cbn [bind] in Hq; try discriminate. injection Hq as <-.
  cbn [length]. f_equal. apply (IHu y). exact Eq0.
Qed.

Lemma inv_cdf_gen (cdf : list T) u y : inv_cdf cdf u = Ok y ->
  inb (widx (-1) (length cdf)) cdf = true /\
  gen_searchsorted cdf (nmul u (nth (Z.to_nat (widx (-1) (length cdf))) cdf nzero)) = (y, true).
Proof.
  unfold inv_cdf. destruct (rdw cdf (-1)) as [c| | |] eqn:E; cbn [bind]; try discriminate.
  apply (rdw_Ok nzero) in E. destruct E as [E1 E2]. intro H. split; [exact E1|]. rewrite E2. apply gen_searchsorted_tie. exact H.
Qed.

Section Dense.
Variables (cdfs : list (list T)) (us : list (list T)) (R TS : nat).
Hypothesis Hus : rect R (TS - 1) us.

Lemma dense_loop1_tie i : (i < R)%nat -> forall usr t0 (out : list (list Z)) ok x p,
  rect R TS out -> (t0 + length usr = TS - 1)%nat -> (1 <= TS)%nat ->
  nth t0 (nth i out []) 0%Z = x -> usr = skipn t0 (nth i us []) ->
  path_dense cdfs x usr = Ok (x :: p) ->
  gen_generate_sample_paths_loop1 (length usr) (Z.of_nat t0) out ok cdfs us (Z.of_nat i) =
    (upd_nth out i (firstn (S t0) (nth i out []) ++ p), ok).
Proof.
  intros Hi. induction usr as [|u r IH]; intros t0 out ok x p Ho Ht HTS Hx Husr Hp; cbn [length gen_generate_sample_paths_loop1].
  - cbn [path_dense] in Hp. injection Hp as <-. rewrite app_nil_r. destruct Ho as [Hl Hr].
    rewrite firstn_all2 by (rewrite Hr by exact Hi; cbn in Ht; lia). rewrite upd_nth_same. reflexivity.
  - cbn [length] in Ht. cbn [path_dense] in Hp. pose proof Ho as [Hl Hr]. destruct Hus as [Hul Hur].
    destruct (rdw cdfs x) as [cdf| | |] eqn:Ec; cbn [bind] in Hp; try discriminate.
    destruct (inv_cdf cdf u) as [y| | |] eqn:Ey; cbn [bind] in Hp; try discriminate.
    destruct (path_dense cdfs y r) as [q| | |] eqn:Eq; cbn [bind] in Hp; try discriminate. injection Hp as <-.
    destruct (path_dense_head _ _ _ _ Eq) as [q' ->].
    apply (rdw_Ok []) in Ec. destruct Ec as [Ec1 Ec2]. apply inv_cdf_gen in Ey. destruct Ey as [Ey1 Ey2].
    rewrite get2z_nat, Hx. rewrite (@inb2_nat Z) by (rewrite ?Hr; lia). rewrite Ec1.
    assert (Hrow2 : row2 cdfs x = cdf) by (unfold row2; exact Ec2). rewrite !Hrow2.
    change (- (1))%Z with (-1)%Z. rewrite Ey1, inb2_nat by (rewrite ?Hur; lia). rewrite get2_nat.
    symmetry in Husr. apply (skipn_cons_inv nzero) in Husr. destruct Husr as [Hu Hsk]. fold (get us i t0) in Hu.
    rewrite Hu, Ey2. cbv beta iota zeta. rewrite !andb_true_r.
    replace (Z.of_nat t0 + 1)%Z with (Z.of_nat (S t0)) by lia.
    rewrite (@inb2_nat Z) by (rewrite ?Hr; lia). rewrite andb_true_r, (@set2_nat Z).
    set (row := nth i out []) in *. assert (Hrow : length row = TS) by (apply Hr, Hi).
    rewrite (IH (S t0) _ ok y q').
    + rewrite nth_upd_nth_eq by lia. rewrite upd_nth_twice. f_equal. f_equal.
      rewrite firstn_S_upd_nth by lia. rewrite <- app_assoc. reflexivity.
    + apply rect_upd_row; [exact Ho|]. rewrite upd_nth_length. exact Hrow.
    + lia.
    + exact HTS.
    + rewrite nth_upd_nth_eq by lia. apply nth_upd_nth_eq. lia.
    + symmetry. exact Hsk.
    + exact Eq.
Qed.

Variables (inits : list Z) (X : list (list Z)).
Hypothesis Hin : length inits = R.
Hypothesis HTS : (1 <= TS)%nat.
Hypothesis HX : gen_paths_dense cdfs inits us = Ok X.

Lemma dense_rows : length X = R /\ forall i, (i < R)%nat -> path_dense cdfs (nth i inits 0%Z) (nth i us []) = Ok (nth i X []).
Proof.
  unfold gen_paths_dense in HX. destruct Hus as [Hul _].
  destruct (mapM_nth _ (0%Z, []) [] _ _ HX) as [L N]. rewrite combine_length, Hin, Hul, Nat.min_id in L, N.
  split; [exact L|]. intros i Hi. specialize (N i Hi). rewrite combine_nth in N by lia. exact N.
Qed.

Lemma dense_loop0_tie : forall f i0 (out : list (list Z)) ok, rect R TS out -> (i0 + f <= R)%nat ->
  exists out', gen_generate_sample_paths_loop0 f (Z.of_nat i0) out ok cdfs inits us (Z.of_nat TS) = (out', ok) /\
    rect R TS out' /\
    forall r, nth r out' [] = if Nat.leb i0 r && Nat.ltb r (i0 + f) then nth r X [] else nth r out [].
Proof.
  destruct dense_rows as [HXl HXr].
  induction f as [|f IH]; intros i0 out ok Ho Hi; cbn [gen_generate_sample_paths_loop0].
  - exists out. repeat split; try apply Ho. intro r. destruct (Nat.leb i0 r) eqn:E; cbn [andb]; [|reflexivity].
    apply Nat.leb_le in E. replace (Nat.ltb r (i0 + 0)) with false by (symmetry; apply Nat.ltb_ge; lia). reflexivity.
  - pose proof Ho as [Hl Hr]. rewrite inb_nat by lia.
    assert (Hb0 : inb2 (Z.of_nat i0) 0 out = true) by (apply (inb2_nat out i0 0); rewrite ?Hr; lia).
    assert (Hs0 : forall v, set2 out (Z.of_nat i0) 0 v = upd_nth out i0 (upd_nth (nth i0 out []) 0 v)) by (intro v; apply (set2_nat out i0 0)).
    rewrite Hb0, Hs0, !andb_true_r, Nat2Z.id.
    set (x := nth i0 inits 0%Z). set (row1 := upd_nth (nth i0 out []) 0 x).
    assert (Hrow1 : length row1 = TS) by (unfold row1; rewrite upd_nth_length; apply Hr; lia).
    assert (Ho1 : rect R TS (upd_nth out i0 row1)) by (apply rect_upd_row; assumption).
    pose proof (HXr i0 ltac:(lia)) as Hp. fold x in Hp. destruct (path_dense_head _ _ _ _ Hp) as [p Ep]. rewrite Ep in Hp.
    assert (Hlen : length (nth i0 us []) = (TS - 1)%nat) by (apply Hus; lia).
    replace (Z.to_nat (Z.of_nat TS - 1 - 0)) with (length (nth i0 us [])) by lia.
    pose proof (dense_loop1_tie i0 ltac:(lia) (nth i0 us []) 0 (upd_nth out i0 row1) ok x p Ho1 ltac:(cbn; lia) HTS) as E1.
    change (Z.of_nat 0) with 0%Z in E1. rewrite E1; clear E1.
    + rewrite nth_upd_nth_eq by lia. rewrite upd_nth_twice.
      assert (Erow : firstn 1 row1 ++ p = nth i0 X []).
      { rewrite Ep. unfold row1. destruct (nth i0 out []) as [|a l] eqn:El; [pose proof (Hr i0 ltac:(lia)) as H0; rewrite El in H0; cbn in H0; lia|]. reflexivity. }
      rewrite Erow. replace (Z.of_nat i0 + 1)%Z with (Z.of_nat (S i0)) by lia.
      destruct (IH (S i0) (upd_nth out i0 (nth i0 X [])) ok) as (out' & E & Ho' & N).
      * apply rect_upd_row; [exact Ho|]. rewrite <- Erow, app_length, firstn_length, Hrow1.
        assert (H : length (nth i0 X []) = TS) by (rewrite Ep; rewrite (path_dense_length _ _ _ _ Hp); lia).
        rewrite Ep in H. cbn [length] in H. lia.
      * lia.
      * exists out'. split; [exact E|]. split; [exact Ho'|]. intro r. rewrite N.
        destruct (Nat.eq_dec r i0) as [->|Hne].
        -- replace (Nat.leb (S i0) i0) with false by (symmetry; apply Nat.leb_gt; lia). cbn [andb].
           rewrite Nat.leb_refl. replace (Nat.ltb i0 (i0 + S f)) with true by (symmetry; apply Nat.ltb_lt; lia).
           cbn [andb]. apply nth_upd_nth_eq. lia.
        -- rewrite nth_upd_nth_neq by exact Hne.
           assert (Eb : Nat.leb (S i0) r && Nat.ltb r (S i0 + f) = Nat.leb i0 r && Nat.ltb r (i0 + S f)).
           { destruct (Nat.leb (S i0) r) eqn:A, (Nat.ltb r (S i0 + f)) eqn:B, (Nat.leb i0 r) eqn:C, (Nat.ltb r (i0 + S f)) eqn:D;
               try reflexivity; exfalso;
               repeat match goal with
                      | H : Nat.leb _ _ = true |- _ => apply Nat.leb_le in H
                      | H : Nat.leb _ _ = false |- _ => apply Nat.leb_gt in H
                      | H : Nat.ltb _ _ = true |- _ => apply Nat.ltb_lt in H
                      | H : Nat.ltb _ _ = false |- _ => apply Nat.ltb_ge in H
                      end; lia. }
           rewrite Eb. reflexivity.
    + rewrite nth_upd_nth_eq by lia. unfold row1. apply nth_upd_nth_eq. rewrite Hr by lia. lia.
    + reflexivity.
    + exact Hp.
Qed.

Theorem gen_generate_sample_paths_tie (out : list (list Z)) : rect R TS out ->
  gen_generate_sample_paths cdfs inits us out = (X, true).
Proof.
  intros Ho. pose proof Ho as [Hl Hr]. unfold gen_generate_sample_paths. cbv zeta.
  unfold nrows2, ncols2. destruct dense_rows as [HXl _].
  destruct R as [|R'] eqn:ER.
  - destruct out; [|discriminate]. destruct X; [|discriminate]. reflexivity.
  - rewrite Hl, (Hr 0%nat ltac:(lia)). replace (Z.to_nat (Z.of_nat (S R') - 0)) with (S R') by lia. rewrite <- ER in *.
    destruct (dense_loop0_tie R 0 out true Ho ltac:(lia)) as (out' & E & [Hl' Hr'] & N).
    change (Z.of_nat 0) with 0%Z in E. rewrite E. f_equal.
    apply (nth_ext _ _ [] []); [lia|]. intros r Hr0. rewrite N. rewrite Hl' in Hr0.
    replace (Nat.leb 0 r && Nat.ltb r (0 + R)) with true by (symmetry; apply andb_true_intro; split; [apply Nat.leb_le|apply Nat.ltb_lt]; lia).
    reflexivity.
Qed.
End Dense.

(* ------------------------------------------------------------------ sparse *)
Lemma rdw_Ok_nonneg {A} (d : A) (a : list A) i v : (0 <= i)%Z -> rdw a i = Ok v ->
  inb i a = true /\ nth (Z.to_nat i) a d = v.
Proof.
  intros Hi H. apply (rdw_Ok d) in H. unfold widx in H.
  destruct (i <? 0)%Z eqn:E; [apply Z.ltb_lt in E; lia|]. exact H.
Qed.
Lemma slice_slice1 {A} (a : list A) s e : slice a s e = slice1 a (Sl (Bnd s) (Bnd e)).
Proof.
  unfold slice, slice1, slice_bound, zlen. cbn [sel_lo sel_hi bnd_val]. unfold widx.
  assert (H : forall i, Z.max 0 (Z.min (Z.of_nat (length a)) (if (i <? 0)%Z then (i + Z.of_nat (length a))%Z else i)) =
                     Z.min (Z.of_nat (length a)) (Z.max 0 (if (i <? 0)%Z then (i + Z.of_nat (length a))%Z else i))) by (intro i; lia).
  rewrite !H. reflexivity.
Qed.
Lemma path_sparse_head c1 ix ip x us p : @path_sparse T NT c1 ix ip x us = Ok p -> exists q, p = x :: q.
Proof.
  destruct us as [|u r]; cbn [path_sparse]; [intro H; injection H as <-; exists []; reflexivity|].
  destruct (rdw ip x) as [s0| | |]; cbn [bind]; try discriminate. destruct (rdw ip (x + 1)) as [e0| | |]; cbn [bind]; try discriminate.
  cbv zeta. destruct (inv_cdf _ u) as [k0| | |]; cbn [bind]; try discriminate.
  destruct (rdw ix (s0 + k0)) as [y| | |]; cbn [bind]; try discriminate.
  destruct (path_sparse c1 ix ip y r); cbn [bind]; try discriminate. intro H. injection H as <-. eexists. reflexivity.
Qed.
Lemma path_sparse_length c1 ix ip : forall us0 x0 q, @path_sparse T NT c1 ix ip x0 us0 = Ok q -> length q = S (length us0).
Proof.
  induction us0 as [|u r IHu]; intros x0 q Hq; cbn [path_sparse] in Hq; [injection Hq as <-; reflexivity|].
  destruct (rdw ip x0) as [s0| | |]; cbn [bind] in Hq; try discriminate. destruct (rdw ip (x0 + 1)) as [e0| | |]; cbn [bind] in Hq; try discriminate.
  cbv zeta in Hq. destruct (inv_cdf _ u) as [k0| | |]; cbn [bind] in Hq; try discriminate.
  destruct (rdw ix (s0 + k0)) as [y| | |]; cbn [bind] in Hq; try discriminate.
  destruct (path_sparse c1 ix ip y r) as [q0| | |] eqn:Eq0; cbn [bind] in Hq; try discriminate. injection Hq as <-.
  cbn [length]. f_equal. apply (IHu y). exact Eq0.
Qed.

Section Sparse.
Variables (c1 : list T) (ix ip : list Z) (us : list (list T)) (R TS : nat).
Hypothesis Hus : rect R (TS - 1) us.
Hypothesis Hix : forall v, In v ix -> (0 <= v)%Z.
Hypothesis Hip : forall v, In v ip -> (0 <= v)%Z.

Lemma sparse_loop1_tie i : (i < R)%nat -> forall usr t0 (out : list (list Z)) ok x p,
  rect R TS out -> (t0 + length usr = TS - 1)%nat -> (1 <= TS)%nat -> (0 <= x)%Z ->
  nth t0 (nth i out []) 0%Z = x -> usr = skipn t0 (nth i us []) ->
  path_sparse c1 ix ip x usr = Ok (x :: p) ->
  gen_generate_sample_paths_sparse_loop1 (length usr) (Z.of_nat t0) out ok c1 ix ip us (Z.of_nat i) =
    (upd_nth out i (firstn (S t0) (nth i out []) ++ p), ok).
Proof.
  intros Hi. induction usr as [|u r IH]; intros t0 out ok x p Ho Ht HTS Hx0 Hx Husr Hp; cbn [length gen_generate_sample_paths_sparse_loop1].
  - cbn [path_sparse] in Hp. injection Hp as <-. rewrite app_nil_r. destruct Ho as [Hl Hr].
    rewrite firstn_all2 by (rewrite Hr by exact Hi; cbn in Ht; lia). rewrite upd_nth_same. reflexivity.
  - cbn [length] in Ht. cbn [path_sparse] in Hp. pose proof Ho as [Hl Hr]. destruct Hus as [Hul Hur].
    destruct (rdw ip x) as [s0| | |] eqn:Es; cbn [bind] in Hp; try discriminate.
    destruct (rdw ip (x + 1)) as [e0| | |] eqn:Ee; cbn [bind] in Hp; try discriminate. cbv zeta in Hp.
    destruct (inv_cdf (slice c1 s0 e0) u) as [k0| | |] eqn:Ek; cbn [bind] in Hp; try discriminate.
    destruct (rdw ix (s0 + k0)) as [y| | |] eqn:Ey; cbn [bind] in Hp; try discriminate.
    destruct (path_sparse c1 ix ip y r) as [q| | |] eqn:Eq; cbn [bind] in Hp; try discriminate. injection Hp as <-.
    destruct (path_sparse_head _ _ _ _ _ _ Eq) as [q' ->].
    apply (rdw_Ok_nonneg 0%Z) in Es; [|exact Hx0]. destruct Es as [Es1 Es2].
    apply (rdw_Ok_nonneg 0%Z) in Ee; [|lia]. destruct Ee as [Ee1 Ee2].
    assert (Hs0 : (0 <= s0)%Z).
    { apply Hip. rewrite <- Es2. apply nth_In. unfold inb in Es1. apply andb_prop in Es1. destruct Es1 as [_ E2]. apply Z.ltb_lt in E2. lia. }
    rewrite slice_slice1 in Ek. apply inv_cdf_gen in Ek. destruct Ek as [Ek1 Ek2].
    assert (Hk0 : (0 <= k0)%Z).
    { pose proof (gen_searchsorted_spec (slice1 c1 (Sl (Bnd s0) (Bnd e0))) (nmul u (nth (Z.to_nat (widx (-1) (length (slice1 c1 (Sl (Bnd s0) (Bnd e0)))))) (slice1 c1 (Sl (Bnd s0) (Bnd e0))) nzero))) as Hsp.
      rewrite Ek2 in Hsp. lia. }
    apply (rdw_Ok_nonneg 0%Z) in Ey; [|lia]. destruct Ey as [Ey1 Ey2].
    assert (Hy0 : (0 <= y)%Z).
    { apply Hix. rewrite <- Ey2. apply nth_In. unfold inb in Ey1. apply andb_prop in Ey1. destruct Ey1 as [_ E2]. apply Z.ltb_lt in E2. lia. }
    rewrite get2z_nat, Hx. rewrite (@inb2_nat Z) by (rewrite ?Hr; lia). rewrite Es1, Ee1, Es2, Ee2.
    change (- (1))%Z with (-1)%Z. rewrite Ek1, inb2_nat by (rewrite ?Hur; lia). rewrite get2_nat.
    symmetry in Husr. apply (skipn_cons_inv nzero) in Husr. destruct Husr as [Hu Hsk]. fold (get us i t0) in Hu.
    rewrite Hu, Ek2. cbv beta iota zeta. rewrite Ey1, Ey2, !andb_true_r.
    replace (Z.of_nat t0 + 1)%Z with (Z.of_nat (S t0)) by lia.
    rewrite (@inb2_nat Z) by (rewrite ?Hr; lia). rewrite ?andb_true_r, (@set2_nat Z).
    set (row := nth i out []) in *. assert (Hrow : length row = TS) by (apply Hr, Hi).
    rewrite (IH (S t0) _ ok y q').
    + rewrite nth_upd_nth_eq by lia. rewrite upd_nth_twice. f_equal. f_equal.
      rewrite firstn_S_upd_nth by lia. rewrite <- app_assoc. reflexivity.
    + apply rect_upd_row; [exact Ho|]. rewrite upd_nth_length. exact Hrow.
    + lia.
    + exact HTS.
    + exact Hy0.
    + rewrite nth_upd_nth_eq by lia. apply nth_upd_nth_eq. lia.
    + symmetry. exact Hsk.
    + exact Eq.
Qed.

Variables (inits : list Z) (X : list (list Z)).
Hypothesis Hin : length inits = R.
Hypothesis Hinn : forall v, In v inits -> (0 <= v)%Z.
Hypothesis HTS : (1 <= TS)%nat.
Hypothesis HX : gen_paths_sparse c1 ix ip inits us = Ok X.

Lemma sparse_rows : length X = R /\ forall i, (i < R)%nat -> path_sparse c1 ix ip (nth i inits 0%Z) (nth i us []) = Ok (nth i X []).
Proof.
  unfold gen_paths_sparse in HX. destruct Hus as [Hul _].
  destruct (mapM_nth _ (0%Z, []) [] _ _ HX) as [L N]. rewrite combine_length, Hin, Hul, Nat.min_id in L, N.
  split; [exact L|]. intros i Hi. specialize (N i Hi). rewrite combine_nth in N by lia. exact N.
Qed.

Lemma sparse_loop0_tie : forall f i0 (out : list (list Z)) ok, rect R TS out -> (i0 + f <= R)%nat ->
  exists out', gen_generate_sample_paths_sparse_loop0 f (Z.of_nat i0) out ok c1 ix ip inits us (Z.of_nat TS) = (out', ok) /\
    rect R TS out' /\
    forall r, nth r out' [] = if Nat.leb i0 r && Nat.ltb r (i0 + f) then nth r X [] else nth r out [].
Proof.
  destruct sparse_rows as [HXl HXr].
  induction f as [|f IH]; intros i0 out ok Ho Hi; cbn [gen_generate_sample_paths_sparse_loop0].
  - exists out. repeat split; try apply Ho. intro r. destruct (Nat.leb i0 r) eqn:E; cbn [andb]; [|reflexivity].
    apply Nat.leb_le in E. replace (Nat.ltb r (i0 + 0)) with false by (symmetry; apply Nat.ltb_ge; lia). reflexivity.
  - pose proof Ho as [Hl Hr]. rewrite inb_nat by lia.
    assert (Hb0 : inb2 (Z.of_nat i0) 0 out = true) by (apply (inb2_nat out i0 0); rewrite ?Hr; lia).
    assert (Hs0 : forall v, set2 out (Z.of_nat i0) 0 v = upd_nth out i0 (upd_nth (nth i0 out []) 0 v)) by (intro v; apply (set2_nat out i0 0)).
    rewrite Hb0, Hs0, !andb_true_r, Nat2Z.id.
    set (x := nth i0 inits 0%Z). set (row1 := upd_nth (nth i0 out []) 0 x).
    assert (Hrow1 : length row1 = TS) by (unfold row1; rewrite upd_nth_length; apply Hr; lia).
    assert (Ho1 : rect R TS (upd_nth out i0 row1)) by (apply rect_upd_row; assumption).
    pose proof (HXr i0 ltac:(lia)) as Hp. fold x in Hp. destruct (path_sparse_head _ _ _ _ _ _ Hp) as [p Ep]. rewrite Ep in Hp.
    assert (Hlen : length (nth i0 us []) = (TS - 1)%nat) by (apply Hus; lia).
    replace (Z.to_nat (Z.of_nat TS - 1 - 0)) with (length (nth i0 us [])) by lia.
    pose proof (sparse_loop1_tie i0 ltac:(lia) (nth i0 us []) 0 (upd_nth out i0 row1) ok x p Ho1 ltac:(cbn; lia) HTS
                  ltac:(apply Hinn, nth_In; lia)) as E1.
    change (Z.of_nat 0) with 0%Z in E1. rewrite E1; clear E1.
    + rewrite nth_upd_nth_eq by lia. rewrite upd_nth_twice.
      assert (Erow : firstn 1 row1 ++ p = nth i0 X []).
      { rewrite Ep. unfold row1. destruct (nth i0 out []) as [|a l] eqn:El; [pose proof (Hr i0 ltac:(lia)) as H0; rewrite El in H0; cbn in H0; lia|]. reflexivity. }
      rewrite Erow. replace (Z.of_nat i0 + 1)%Z with (Z.of_nat (S i0)) by lia.
      destruct (IH (S i0) (upd_nth out i0 (nth i0 X [])) ok) as (out' & E & Ho' & N).
      * apply rect_upd_row; [exact Ho|]. rewrite Ep. rewrite (path_sparse_length _ _ _ _ _ _ Hp). lia.
      * lia.
      * exists out'. split; [exact E|]. split; [exact Ho'|]. intro r. rewrite N.
        destruct (Nat.eq_dec r i0) as [->|Hne].
        -- replace (Nat.leb (S i0) i0) with false by (symmetry; apply Nat.leb_gt; lia). cbn [andb].
           rewrite Nat.leb_refl. replace (Nat.ltb i0 (i0 + S f)) with true by (symmetry; apply Nat.ltb_lt; lia).
           cbn [andb]. apply nth_upd_nth_eq. lia.
        -- rewrite nth_upd_nth_neq by exact Hne.
           assert (Eb : Nat.leb (S i0) r && Nat.ltb r (S i0 + f) = Nat.leb i0 r && Nat.ltb r (i0 + S f)).
           { destruct (Nat.leb (S i0) r) eqn:A, (Nat.ltb r (S i0 + f)) eqn:B, (Nat.leb i0 r) eqn:C, (Nat.ltb r (i0 + S f)) eqn:D;
               try reflexivity; exfalso;
               repeat match goal with
                      | H : Nat.leb _ _ = true |- _ => apply Nat.leb_le in H
                      | H : Nat.leb _ _ = false |- _ => apply Nat.leb_gt in H
                      | H : Nat.ltb _ _ = true |- _ => apply Nat.ltb_lt in H
                      | H : Nat.ltb _ _ = false |- _ => apply Nat.ltb_ge in H
                      end; lia. }
           rewrite Eb. reflexivity.
    + rewrite nth_upd_nth_eq by lia. unfold row1. apply nth_upd_nth_eq. rewrite Hr by lia. lia.
    + reflexivity.
    + exact Hp.
Qed.

Theorem gen_generate_sample_paths_sparse_tie (out : list (list Z)) : rect R TS out ->
  gen_generate_sample_paths_sparse c1 ix ip inits us out = (X, true).
Proof.
  intros Ho. pose proof Ho as [Hl Hr]. unfold gen_generate_sample_paths_sparse. cbv zeta.
  unfold nrows2, ncols2. destruct sparse_rows as [HXl _].
  destruct R as [|R'] eqn:ER.
  - destruct out; [|discriminate]. destruct X; [|discriminate]. reflexivity.
  - rewrite Hl, (Hr 0%nat ltac:(lia)). replace (Z.to_nat (Z.of_nat (S R') - 0)) with (S R') by lia. rewrite <- ER in *.
    destruct (sparse_loop0_tie R 0 out true Ho ltac:(lia)) as (out' & E & [Hl' Hr'] & N).
    change (Z.of_nat 0) with 0%Z in E. rewrite E. f_equal.
    apply (nth_ext _ _ [] []); [lia|]. intros r Hr0. rewrite N. rewrite Hl' in Hr0.
    replace (Nat.leb 0 r && Nat.ltb r (0 + R)) with true by (symmetry; apply andb_true_intro; split; [apply Nat.leb_le|apply Nat.ltb_lt]; lia).
    reflexivity.
Qed.
End Sparse.
End Tie.

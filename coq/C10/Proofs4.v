(* C10 proofs, part 4: random.draw, mc_sample_path, simulate with state_values, DiscreteRV (also as an object
   with q re-assignments). *)
From Coq Require Import ZArith QArith Qminmax List Bool Lia Lqa.
From QE Require Import Base.Num C10.Model C10.Proofs C10.Proofs2.
Import ListNotations.
Open Scope Z_scope.

Lemma mapM_Forall2' {A B} (f : A -> res B) (R : A -> B -> Prop) : forall l,
  Forall (fun x => exists y, f x = Ok y /\ R x y) l -> exists ys, mapM f l = Ok ys /\ Forall2 R l ys.
Proof. intros l Hl. apply mapM_Forall2. rewrite Forall_forall in Hl. exact Hl. Qed.

(* ------------------------------------------------------------------ random.draw and mc_sample_path *)
Section DrawGeneric.
Context {T : Type} `{Num T}.
Variable scal_ok : T -> Prop.
Hypothesis F1 : forall u c, scal_ok c -> unitv u -> nltb (nmul u c) c = true.
Hypothesis F1z : forall u c, scal_ok c -> unitv u -> nltb (nmul u c) nzero = false.
Hypothesis F2 : forall x p v, nleb nzero p = true -> nltb nzero p = false -> nltb v (nadd x p) = nltb v x.
Hypothesis F2z : forall p v, nleb nzero p = true -> nltb nzero p = false -> nltb v p = true -> nltb v nzero = true.

(* quantecon.random.draw(cdf, size) with cdf = cumsum(q): every draw is the inverse-CDF image of its uniform *)
Theorem qe_draw_valid : forall (q us : list T), row_ok scal_ok q -> Forall unitv us ->
  exists ks, qe_draw (cumsum q) us = Ok ks /\ Forall2 (fun u k => step_post q u k) us ks.
Proof.
  intros q us Hq Hus. unfold qe_draw. apply mapM_Forall2'.
  eapply Forall_impl; [|exact Hus]. intros u Hu. apply (inv_cdf_step scal_ok F1 F1z F2 F2z q u Hq Hu).
Qed.

Lemma firstn_Forall {A} (Pp : A -> Prop) n (l : list A) : Forall Pp l -> Forall Pp (firstn n l).
Proof. apply Forall_firstn. Qed.

(* mc_sample_path on a dense chain: integer init, or an initial distribution psi from which X_0 is drawn
   with the first uniform *)
Theorem mc_sample_path_valid : forall (P : list (list T)) (init : Z + list T) ts stream,
  matrix_ok scal_ok P -> 0 < zlen P -> 1 <= ts -> Forall unitv stream ->
  match init with inl x0 => 0 <= x0 < zlen P | inr psi => row_ok scal_ok psi /\ zlen psi = zlen P /\ stream <> [] end ->
  exists x0 s row,
    mc_sample_path (Dense P) init ts stream = Ok row /\
    match init with
    | inl x => x0 = x /\ s = stream
    | inr psi => exists u0, stream = u0 :: s /\ step_post psi u0 x0
    end /\
    valid_path P x0 (firstn (Z.to_nat (ts - 1)) s) row.
Proof.
  intros P init ts stream HP Hn Hts Hs Hinit.
  assert (Hgo : forall x0 s, 0 <= x0 < zlen P -> Forall unitv s ->
            exists row, bind (simulate (Dense P) ts (IInt x0) None [] s)
                             (fun r => match snd r with [row] => Ok row | _ => ValueErr end) = Ok row /\
                        valid_path P x0 (firstn (Z.to_nat (ts - 1)) s) row).
  { intros x0 s Hx Hss. unfold simulate. cbn [chain_n]. unfold index_ok.
    destruct (Z.leb_spec 0 x0); [|lia]. destruct (Z.ltb_spec x0 (zlen P)); [|lia]. cbn [andb].
    assert (Hi : init_states (zlen P) (IInt x0) None [] = Ok (false, [x0])).
    { unfold init_states, in_state_range. destruct (Z.geb_spec x0 (zlen P)); [lia|].
      destruct (Z.ltb_spec x0 (- zlen P)); [lia|]. reflexivity. }
    destruct (simulate_indices_dense_valid scal_ok F1 F1z F2 F2z P ts (IInt x0) None [] s false [x0] HP Hn Hts Hss Hi)
      as [X [EX RX]].
    rewrite EX. cbn [bind snd]. cbn [map length chop combine] in RX.
    inversion RX as [|a b l l' Hab Hrest]; subst. inversion Hrest; subst.
    exists b. split; [reflexivity|]. cbn [fst snd] in Hab. rewrite Z.mod_small in Hab by lia. exact Hab. }
  destruct init as [x|psi].
  - destruct (Hgo x stream Hinit Hs) as [row [E V]]. exists x, stream, row. cbn [mc_sample_path]. auto.
  - destruct Hinit as [Hpsi [Hlen Hne]]. destruct stream as [|u0 s]; [congruence|].
    inversion Hs as [|? ? Hu0 Hss]; subst.
    destruct (inv_cdf_step scal_ok F1 F1z F2 F2z psi u0 Hpsi Hu0) as [x0 [Ex Hx]].
    assert (Hxr : 0 <= x0 < zlen P) by (destruct Hx as [Hx _]; lia).
    destruct (Hgo x0 s Hxr Hss) as [row [E V]].
    exists x0, s, row. cbn [mc_sample_path]. rewrite Ex. cbn [bind]. split; [exact E|]. split; [|exact V].
    exists u0. auto.
Qed.
End DrawGeneric.

(* ------------------------------------------------------------------ simulate with state_values *)
Lemma index_of_spec : forall sv v i k, index_of sv v i = Ok k ->
  i <= k < i + zlen sv /\ nth (Z.to_nat (k - i)) sv 0 = v /\
  forall j, (j < Z.to_nat (k - i))%nat -> nth j sv 0 <> v.
Proof.
  induction sv as [|x r IH]; intros v i k Hk; simpl in Hk; [discriminate|].
  unfold zlen. cbn [length]. destruct (Z.eqb_spec x v) as [->|Hne].
  - injection Hk as <-. replace (i - i) with 0 by lia. split; [lia|]. split; [reflexivity|]. intros j Hj. simpl in Hj. lia.
  - destruct (IH v (i + 1) k Hk) as [Hr [Hv Hmin]]. unfold zlen in Hr. split; [lia|].
    replace (Z.to_nat (k - i)) with (S (Z.to_nat (k - (i + 1)))) by lia. split; [exact Hv|].
    intros j Hj. destruct j; simpl; [exact Hne|]. apply Hmin. lia.
Qed.

Section SimSV.
Context {T : Type} `{Num T}.

(* the annotated result is state_values[X] for the index paths X of simulate_indices started at the FIRST
   index holding the requested value; a value that does not occur is rejected *)
Theorem simulate_sv_int : forall (c : chain) sv ts v nr drawn (stream : list T),
  simulate_sv c sv ts (IInt v) nr drawn stream =
  match index_of sv v 0 with
  | Ok i => match simulate_indices c ts (IInt i) nr drawn stream with
            | Ok (d, X) => Ok (d, map (map (fun s => nth (Z.to_nat s) sv 0)) X)
            | OOB => OOB | ValueErr => ValueErr | NoFuel => NoFuel
            end
  | OOB => OOB | ValueErr => ValueErr | NoFuel => NoFuel
  end.
Proof.
  intros. unfold simulate_sv. destruct (index_of sv v 0); cbn [bind]; try reflexivity.
  destruct (simulate_indices c ts (IInt x) nr drawn stream) as [[d X]| | |]; reflexivity.
Qed.

Theorem simulate_sv_none : forall (c : chain) sv ts nr drawn (stream : list T),
  simulate_sv c sv ts INone nr drawn stream =
  match simulate_indices c ts INone nr drawn stream with
  | Ok (d, X) => Ok (d, map (map (fun s => nth (Z.to_nat s) sv 0)) X)
  | OOB => OOB | ValueErr => ValueErr | NoFuel => NoFuel
  end.
Proof.
  intros. unfold simulate_sv. cbn [bind].
  destruct (simulate_indices c ts INone nr drawn stream) as [[d X]| | |]; reflexivity.
Qed.

Theorem simulate_sv_arr : forall (c : chain) sv ts l nr drawn (stream : list T) li,
  mapM (fun v => index_of sv v 0) l = Ok li ->
  Forall2 (fun v i => 0 <= i < zlen sv /\ nth (Z.to_nat i) sv 0 = v) l li /\
  simulate_sv c sv ts (IArr l) nr drawn stream =
  match simulate_indices c ts (IArr li) nr drawn stream with
  | Ok (d, X) => Ok (d, map (map (fun s => nth (Z.to_nat s) sv 0)) X)
  | OOB => OOB | ValueErr => ValueErr | NoFuel => NoFuel
  end.
Proof.
  intros c sv ts l nr drawn stream li Hm. split.
  - revert li Hm. induction l as [|v r IH]; intros li Hm; cbn [mapM] in Hm.
    + injection Hm as <-. constructor.
    + destruct (index_of sv v 0) as [i| | |] eqn:Ei; try discriminate. cbn [bind] in Hm.
      destruct (mapM (fun v0 => index_of sv v0 0) r) as [ri| | |] eqn:Er; try discriminate. cbn [bind] in Hm.
      injection Hm as <-. constructor; [|apply IH; reflexivity].
      destruct (index_of_spec sv v 0 i Ei) as [Hr [Hv _]]. replace (i - 0) with i in Hv by lia. split; [lia|exact Hv].
  - unfold simulate_sv. rewrite Hm. cbn [bind].
    destruct (simulate_indices c ts (IArr li) nr drawn stream) as [[d X]| | |]; reflexivity.
Qed.
End SimSV.

(* ------------------------------------------------------------------ DiscreteRV *)
Section DRV.
Context {T : Type} `{Num T}.

Definition drv_scale (c : T) : T := if nltb none_ c then none_ else c.

(* facts about the arithmetic (proved for Q below and for binary64 in FloatFacts3.v) *)
Variable scal_ok : T -> Prop.
Hypothesis D1 : forall u c, scal_ok c -> unitv u -> nleb c (nmul u (drv_scale c)) = false.
Hypothesis D1z : forall u c, scal_ok c -> unitv u -> nleb nzero (nmul u (drv_scale c)) = true.
Hypothesis D2 : forall x p v, nleb nzero p = true -> nltb nzero p = false -> nleb (nadd x p) v = nleb x v.
Hypothesis D2z : forall p v, nleb nzero p = true -> nltb nzero p = false -> nleb p v = nleb nzero v.

Lemma np_ss_right_spec : forall (a : list T) v,
  let k := np_searchsorted_right a v in
  0 <= k <= zlen a /\
  (forall j x, (j < Z.to_nat k)%nat -> nth_error a j = Some x -> nleb x v = true) /\
  (k < zlen a -> exists x, nth_error a (Z.to_nat k) = Some x /\ nleb x v = false).
Proof.
  induction a as [|y r IH]; intros v; cbv zeta; unfold zlen; cbn [np_searchsorted_right length].
  - split; [lia|]. split; [intros j x Hj; simpl in Hj; lia|]. intros Hlt. simpl in Hlt. lia.
  - rewrite Nat2Z.inj_succ. destruct (nleb y v) eqn:E.
    + destruct (IH v) as [Hr [Hlo Hhi]]. cbv zeta in *. unfold zlen in *.
      set (k := np_searchsorted_right r v) in *. split; [lia|].
      replace (Z.to_nat (1 + k)) with (S (Z.to_nat k)) by lia. split.
      * intros j x Hj Hx. destruct j; simpl in Hx; [congruence|]. eapply Hlo; eauto. lia.
      * intros Hlt. destruct Hhi as [x [Hx Ex]]; [lia|]. exists x. auto.
    + split; [lia|]. split; [intros j x Hj; simpl in Hj; lia|]. intros _. exists y. auto.
Qed.

(* k is the draw for the uniform u from the probabilities q *)
Definition draw_post (q : list T) (u : T) (k : Z) : Prop :=
  0 <= k < zlen q /\
  (exists p, nth_error q (Z.to_nat k) = Some p /\ nltb nzero p = true) /\
  exists c, rdw (cumsum q) (-1) = Ok c /\
    (forall j x, (j < Z.to_nat k)%nat -> nth_error (cumsum q) j = Some x -> nleb x (nmul u (drv_scale c)) = true) /\
    (exists x, nth_error (cumsum q) (Z.to_nat k) = Some x /\ nleb x (nmul u (drv_scale c)) = false).

Theorem drv_draw_valid : forall (q us : list T), row_ok scal_ok q -> Forall unitv us ->
  exists ks, drv_draw_Q (cumsum q) us = Ok ks /\ Forall2 (draw_post q) us ks.
Proof.
  intros q us [Hnn [c [Hc Hs]]] Hus. unfold drv_draw_Q. rewrite Hc. cbn [bind].
  fold (drv_scale c). eexists. split; [reflexivity|].
  induction Hus as [|u r Hu Hr IH]; cbn [map]; constructor; [|exact IH].
  set (v := nmul u (drv_scale c)).
  destruct (np_ss_right_spec (cumsum q) v) as [Hr0 [Hlo Hhi]]. cbv zeta in *.
  set (k := np_searchsorted_right (cumsum q) v) in *.
  assert (Hc' : rd (cumsum q) (zlen (cumsum q) - 1) = Ok c).
  { unfold rdw in Hc. change (-1 <? 0) with true in Hc. cbv iota in Hc.
    replace (zlen (cumsum q) - 1) with (-1 + zlen (cumsum q)) by lia. exact Hc. }
  pose proof (rd_Ok_range _ _ _ Hc') as Hlen. apply rd_Ok_iff in Hc'. destruct Hc' as [_ Hc'].
  assert (Hk : k < zlen (cumsum q)).
  { destruct (Z.eq_dec k (zlen (cumsum q))) as [E|]; [|lia]. exfalso.
    assert (nleb c v = true) by (apply (Hlo (Z.to_nat (zlen (cumsum q) - 1)) c); [lia|exact Hc']).
    unfold v in *. rewrite (D1 u c Hs Hu) in *. discriminate. }
  destruct (Hhi Hk) as [x [Hx Ex]]. rewrite zlen_cumsum in *.
  unfold draw_post. split; [lia|]. split.
  - destruct (nth_error q (Z.to_nat k)) as [p|] eqn:Hp.
    2:{ apply nth_error_None in Hp. unfold zlen in Hk. lia. }
    exists p. split; [reflexivity|]. destruct (nltb nzero p) eqn:Epos; [reflexivity|exfalso].
    assert (Hp0 : nleb nzero p = true) by (apply Hnn; eapply nth_error_In; eauto).
    destruct (Z.eq_dec k 0) as [E0|Hk0].
    + rewrite E0 in *. change (Z.to_nat 0) with 0%nat in *. rewrite cumsum_0, Hp in Hx. injection Hx as <-.
      rewrite (D2z p v Hp0 Epos) in Ex. unfold v in Ex. rewrite (D1z u c Hs Hu) in Ex. discriminate.
    + destruct (nth_error (cumsum q) (Z.to_nat (k - 1))) as [x'|] eqn:Hx'.
      2:{ apply nth_error_None in Hx'. rewrite cumsum_length in Hx'. unfold zlen in Hk. lia. }
      replace (Z.to_nat k) with (S (Z.to_nat (k - 1))) in Hx, Hp by lia.
      rewrite (cumsum_S q _ _ _ Hx' Hp) in Hx. injection Hx as <-.
      rewrite (D2 x' p v Hp0 Epos) in Ex.
      rewrite (Hlo (Z.to_nat (k - 1)) x' ltac:(lia) Hx') in Ex. discriminate.
  - exists c. split; [exact Hc|]. split; [exact Hlo|]. exists x. auto.
Qed.

(* the object: outputs of the draws along an arbitrary sequence of operations *)
Fixpoint drv_outs (Q : list T) (ops : list drv_op) : list (res (list Z)) :=
  match ops with
  | [] => []
  | DSetQ q :: r => drv_outs (cumsum q) r
  | DDraw us :: r => drv_draw_Q Q us :: drv_outs Q r
  end.

Lemma drv_fold_eq : forall ops Q outs,
  fold_left (fun st op => match op with
                          | DSetQ q => (cumsum q, snd st)
                          | DDraw us => (fst st, snd st ++ [drv_draw_Q (fst st) us])
                          end) ops (Q, outs) =
  (fst (fold_left (fun st op => match op with
                          | DSetQ q => (cumsum q, snd st)
                          | DDraw us => (fst st, snd st ++ [drv_draw_Q (fst st) us])
                          end) ops (Q, outs)), outs ++ drv_outs Q ops).
Proof.
  induction ops as [|op r IH]; intros Q outs; cbn [fold_left drv_outs].
  - now rewrite app_nil_r.
  - destruct op as [q|us]; cbn [fst snd].
    + rewrite IH. reflexivity.
    + rewrite IH. cbn [fst snd]. now rewrite <- app_assoc.
Qed.

Lemma drv_run_eq : forall q0 ops, drv_run q0 ops = drv_outs (cumsum q0) ops.
Proof. intros. unfold drv_run. rewrite drv_fold_eq. reflexivity. Qed.

(* every draw answers w.r.t. the q that is CURRENT when it is made *)
Inductive drv_valid : list T -> list drv_op -> list (res (list Z)) -> Prop :=
| dv_nil : forall q, drv_valid q [] []
| dv_set : forall q q' r outs, drv_valid q' r outs -> drv_valid q (DSetQ q' :: r) outs
| dv_draw : forall q us ks r outs, Forall2 (draw_post q) us ks -> drv_valid q r outs ->
                                  drv_valid q (DDraw us :: r) (Ok ks :: outs).

Definition op_ok (op : drv_op) : Prop :=
  match op with DSetQ q => row_ok scal_ok q | DDraw us => Forall unitv us end.

Theorem drv_run_valid : forall ops q0, row_ok scal_ok q0 -> Forall op_ok ops ->
  drv_valid q0 ops (drv_run q0 ops).
Proof.
  intros ops q0 Hq Hops. rewrite drv_run_eq. revert q0 Hq.
  induction Hops as [|op r Hop Hr IH]; intros q0 Hq; cbn [drv_outs]; [constructor|].
  destruct op as [q|us]; cbn [op_ok] in Hop.
  - constructor. apply IH. exact Hop.
  - destruct (drv_draw_valid q0 us Hq Hop) as [ks [E V]]. rewrite E. constructor; auto.
Qed.
End DRV.

(* ------------------------------------------------------------------ exact instance of the DiscreteRV facts *)
Section DRVQ.
Open Scope Q_scope.
Lemma drv_scale_Q (c : Q) : 0 < c -> 0 < drv_scale c /\ drv_scale c <= c /\ (drv_scale c == c \/ drv_scale c == 1).
Proof.
  intros Hc. unfold drv_scale. change (nltb (none_ : Q) c) with (Qltb 1 c). destruct (Qltb 1 c) eqn:E.
  - apply Qltb_lt in E. change (none_ : Q) with 1. split; [lra|]. split; [lra|]. right. reflexivity.
  - split; [exact Hc|]. split; [lra|]. left. reflexivity.
Qed.

Lemma D1_Q : forall u c : Q, posQ c -> unitv u -> nleb c (nmul u (drv_scale c)) = false.
Proof.
  intros u c Hc Hu. apply unitv_Q in Hu. destruct (drv_scale_Q c Hc) as [A [B _]].
  change (Qle_bool c (Qmulr u (drv_scale c)) = false).
  destruct (Qle_bool c (Qmulr u (drv_scale c))) eqn:E; [|reflexivity].
  apply Qle_bool_iff in E. rewrite Qmulr_eq in E. unfold posQ in Hc. nra.
Qed.
Lemma D1z_Q : forall u c : Q, posQ c -> unitv u -> nleb nzero (nmul u (drv_scale c)) = true.
Proof.
  intros u c Hc Hu. apply unitv_Q in Hu. destruct (drv_scale_Q c Hc) as [A _].
  change (Qle_bool 0 (Qmulr u (drv_scale c)) = true). apply Qle_bool_iff. rewrite Qmulr_eq. nra.
Qed.
Lemma D2_Q : forall x p v : Q, nleb nzero p = true -> nltb nzero p = false -> nleb (nadd x p) v = nleb x v.
Proof.
  intros x p v H1 H2. pose proof (zero_Q p H1 H2) as Hz. change (Qle_bool (Qaddr x p) v = Qle_bool x v).
  apply bool_eq_of_iff. rewrite !Qle_bool_iff, Qaddr_eq, Hz. split; intro; lra.
Qed.
Lemma D2z_Q : forall p v : Q, nleb nzero p = true -> nltb nzero p = false -> nleb p v = nleb nzero v.
Proof.
  intros p v H1 H2. pose proof (zero_Q p H1 H2) as Hz. change (Qle_bool p v = Qle_bool 0 v).
  apply bool_eq_of_iff. rewrite !Qle_bool_iff, Hz. tauto.
Qed.

Lemma qsum_nonneg : forall l : list Q, (forall p, In p l -> 0 <= p) -> 0 <= qsum l.
Proof.
  induction l as [|a r IH]; intros Hl; simpl; [lra|].
  assert (0 <= a) by (apply Hl; left; auto). assert (0 <= qsum r) by (apply IH; intros; apply Hl; right; auto). lra.
Qed.

(* exact reading of a draw: positive probability and S_{k-1} <= u*min(S,1) < S_k for the partial sums of q *)
Lemma draw_post_Q : forall (q : list Q) u k, (forall p, In p q -> 0 <= p) -> unit_interval u -> draw_post q u k ->
  (exists p, nth_error q (Z.to_nat k) = Some p /\ 0 < p) /\
  qsum (firstn (Z.to_nat k) q) <= u * Qmin (qsum q) 1 < qsum (firstn (S (Z.to_nat k)) q).
Proof.
  intros q u k Hnn Hu [Hk [[p [Hp Hpos]] [c [Hc [Hlo [x [Hx Ex]]]]]]].
  split; [exists p; split; [exact Hp|apply Qltb_lt; exact Hpos]|].
  assert (Hlen : (0 < length q)%nat) by (unfold zlen in Hk; lia).
  destruct (cumsum_Q_last q Hlen) as [c' [Hc' Ec]]. rewrite Hc in Hc'. injection Hc' as <-.
  assert (Es : drv_scale c == Qmin (qsum q) 1).
  { unfold drv_scale. change (nltb (none_ : Q) c) with (Qltb 1 c). destruct (Qltb 1 c) eqn:E.
    - apply Qltb_lt in E. change (none_ : Q) with 1. rewrite Ec in E. symmetry. apply Q.min_r. lra.
    - apply Qltb_false in E. rewrite Ec in *. symmetry. apply Q.min_l. exact E. }
  assert (Ev : nmul u (drv_scale c) == u * Qmin (qsum q) 1).
  { change (Qmulr u (drv_scale c) == u * Qmin (qsum q) 1). rewrite Qmulr_eq, Es. reflexivity. }
  split.
  - destruct (Z.eq_dec k 0) as [->|Hk0].
    + simpl. destruct Hu. assert (0 <= Qmin (qsum q) 1) by (apply Q.min_glb; [apply qsum_nonneg; exact Hnn|lra]).
      nra.
    + destruct (nth_error (cumsum q) (Z.to_nat (k - 1))) as [x'|] eqn:Hx'.
      2:{ apply nth_error_None in Hx'. rewrite cumsum_length in Hx'. unfold zlen in Hk. lia. }
      pose proof (Hlo (Z.to_nat (k - 1)) x' ltac:(lia) Hx') as Hle.
      change (Qle_bool x' (nmul u (drv_scale c)) = true) in Hle. apply Qle_bool_iff in Hle.
      rewrite Ev, (cumsum_Q_nth q _ x' Hx') in Hle. replace (S (Z.to_nat (k - 1))) with (Z.to_nat k) in Hle by lia. exact Hle.
  - change (Qle_bool x (nmul u (drv_scale c)) = false) in Ex.
    destruct (Qlt_le_dec (nmul u (drv_scale c)) x) as [Hlt|Hle].
    + rewrite Ev, (cumsum_Q_nth q _ x Hx) in Hlt. exact Hlt.
    + apply Qle_bool_iff in Hle. congruence.
Qed.
End DRVQ.

(* ------------------------------------------------------------------ exact instances *)
Theorem drv_run_exact : forall (ops : list (@drv_op Q)) q0,
  row_ok posQ q0 -> Forall (op_ok posQ) ops -> drv_valid q0 ops (drv_run q0 ops).
Proof. exact (drv_run_valid posQ D1_Q D1z_Q D2_Q D2z_Q). Qed.

Theorem qe_draw_exact : forall (q us : list Q), row_ok posQ q -> Forall unitv us ->
  exists ks, qe_draw (cumsum q) us = Ok ks /\ Forall2 (fun u k => step_post q u k) us ks.
Proof. exact (qe_draw_valid posQ F1_Q F1z_Q F2_Q F2z_Q). Qed.

Theorem mc_sample_path_exact : forall (P : list (list Q)) (init : Z + list Q) ts stream,
  matrix_ok posQ P -> 0 < zlen P -> 1 <= ts -> Forall unitv stream ->
  match init with inl x0 => 0 <= x0 < zlen P | inr psi => row_ok posQ psi /\ zlen psi = zlen P /\ stream <> [] end ->
  exists x0 s row,
    mc_sample_path (Dense P) init ts stream = Ok row /\
    match init with
    | inl x => x0 = x /\ s = stream
    | inr psi => exists u0, stream = u0 :: s /\ step_post psi u0 x0
    end /\
    valid_path P x0 (firstn (Z.to_nat (ts - 1)) s) row.
Proof. exact (mc_sample_path_valid posQ F1_Q F1z_Q F2_Q F2z_Q). Qed.

(* a probability vector with positive total is an admissible q over Q *)
Lemma row_ok_posQ : forall q : list Q, (forall p, In p q -> 0 <= p)%Q -> (0 < qsum q)%Q -> row_ok posQ q.
Proof.
  intros q Hnn Hs. split.
  - intros p Hp. apply Qle_bool_true. auto.
  - destruct q as [|a r]; [simpl in Hs; lra|].
    destruct (cumsum_Q_last (a :: r)) as [c [Hc Ec]]; [simpl; lia|].
    exists c. split; [exact Hc|]. unfold posQ. rewrite Ec. exact Hs.
Qed.

(* C10: the DiscreteRV facts D1, D2 for binary64 and the binary64 instances of random.draw, mc_sample_path,
   DiscreteRV.draw and of the DiscreteRV object under arbitrary operation sequences. *)
From Coq Require Import ZArith Reals Lia Lra Bool List.
From Flocq Require Import Core.Core IEEE754.BinarySingleNaN IEEE754.PrimFloat.
From QE Require Import Base.Num C10.Model C10.Proofs C10.Proofs2 C10.Proofs4 C10.FloatConsts C10.FloatFacts C10.FloatFacts2.
Import ListNotations.
Open Scope R_scope.

Lemma mul_one64 u : fin u -> 0 <= RR u < 1 -> RR (PrimFloat.mul u f_one) = RR u /\ fin (PrimFloat.mul u f_one).
Proof.
  intros Fu Hu.
  assert (Er : rnd64 (RR u * RR f_one) = RR u).
  { rewrite RR_one, Rmult_1_r. apply round_generic; [typeclasses eauto|apply fmt_RR]. }
  assert (Hb : Rabs (rnd64 (RR u * RR f_one)) < bpow radix2 1024).
  { rewrite Er, Rabs_pos_eq by lra. assert (1 < bpow radix2 1024) by (change 1 with (bpow radix2 0); apply bpow_lt; lia). lra. }
  destruct (mul_correct64 u f_one Fu fin_one Hb) as [E F]. rewrite Er in E. auto.
Qed.

Lemma drv_scale64 c : drv_scale (T:=PrimFloat.float) c = if PrimFloat.ltb f_one c then f_one else c.
Proof. reflexivity. Qed.

Theorem D1_binary64 : forall u c, scal64 c -> unitv (T:=PrimFloat.float) u ->
  nleb c (nmul u (drv_scale c)) = false /\ nleb nzero (nmul u (drv_scale c)) = true.
Proof.
  intros u c Hc Hu. rewrite drv_scale64.
  change (PrimFloat.leb c (PrimFloat.mul u (if PrimFloat.ltb f_one c then f_one else c)) = false /\
          PrimFloat.leb f_zero (PrimFloat.mul u (if PrimFloat.ltb f_one c then f_one else c)) = true).
  destruct (scal64_fin c Hc) as [Fc [Hc1 Hc2]]. destruct (unit64_fin u Hu) as [Fu Hu01].
  destruct (PrimFloat.ltb f_one c) eqn:E1.
  - rewrite (ltb_R _ _ fin_one Fc), RR_one in E1.
    destruct (Rlt_bool_spec 1 (RR c)) as [H1c|]; [|discriminate].
    destruct (mul_one64 u Fu Hu01) as [Er Fm]. split.
    + rewrite (leb_R _ _ Fc Fm), Er. apply Rle_bool_false. lra.
    + rewrite (leb_R _ _ fin_zero Fm), Er, RR_zero. apply Rle_bool_true. lra.
  - split; [exact (logit_scaling_binary64 u c Hc Hu)|].
    destruct (mul_lt_core (RR u) (RR c) (fmt_RR u) (fmt_RR c) Hu01 Hc1) as [Hlt Hge].
    assert (Hb : Rabs (rnd64 (RR u * RR c)) < bpow radix2 1024).
    { rewrite Rabs_pos_eq by exact Hge. assert (bpow radix2 1000 < bpow radix2 1024) by (apply bpow_lt; lia). lra. }
    destruct (mul_correct64 u c Fu Fc Hb) as [Er Fm].
    rewrite (leb_R _ _ fin_zero Fm), Er, RR_zero. apply Rle_bool_true. exact Hge.
Qed.

Lemma Bleb_zero_sign_l (V : B64) s s' : Bleb (B754_zero s) V = Bleb (B754_zero s') V.
Proof. destruct V as [sv|sv| |sv mv ev hv]; reflexivity. Qed.

Lemma Prim2B_zero : exists sz, Prim2B f_zero = B754_zero sz.
Proof. apply zero_of_cmp; [rewrite <- leb_equiv|rewrite <- ltb_equiv]; vm_compute; reflexivity. Qed.

Theorem D2_binary64 : forall x p v,
  PrimFloat.leb f_zero p = true -> PrimFloat.ltb f_zero p = false ->
  PrimFloat.leb (PrimFloat.add x p) v = PrimFloat.leb x v.
Proof.
  intros x p v H1 H2. rewrite leb_equiv in H1. rewrite ltb_equiv in H2.
  destruct (zero_of_cmp _ H1 H2) as [s Ep].
  rewrite !leb_equiv, add_equiv, Ep.
  destruct (Bplus_zero_r (Prim2B x) s) as [E|[s1 [s2 [E1 E2]]]].
  - rewrite E. reflexivity.
  - rewrite E2, E1. apply Bleb_zero_sign_l.
Qed.

Theorem D2z_binary64 : forall p v,
  PrimFloat.leb f_zero p = true -> PrimFloat.ltb f_zero p = false ->
  PrimFloat.leb p v = PrimFloat.leb f_zero v.
Proof.
  intros p v H1 H2. rewrite leb_equiv in H1. rewrite ltb_equiv in H2.
  destruct (zero_of_cmp _ H1 H2) as [s Ep]. destruct Prim2B_zero as [sz Ez].
  rewrite !leb_equiv, Ep, Ez. apply Bleb_zero_sign_l.
Qed.

(* ------------------------------------------------------------------ instances at NumF *)
Lemma D1a u c : scal64 c -> unitv (T:=PrimFloat.float) u -> nleb c (nmul u (drv_scale c)) = false.
Proof. intros Hc Hu. exact (proj1 (D1_binary64 u c Hc Hu)). Qed.
Lemma D1b u c : scal64 c -> unitv (T:=PrimFloat.float) u -> nleb nzero (nmul u (drv_scale c)) = true.
Proof. intros Hc Hu. exact (proj2 (D1_binary64 u c Hc Hu)). Qed.
Lemma D2a (x p v : PrimFloat.float) : nleb nzero p = true -> nltb nzero p = false -> nleb (nadd x p) v = nleb x v.
Proof. exact (D2_binary64 x p v). Qed.
Lemma D2b (p v : PrimFloat.float) : nleb nzero p = true -> nltb nzero p = false -> nleb p v = nleb nzero v.
Proof. exact (D2z_binary64 p v). Qed.

Theorem drv_draw_binary64 : forall (q us : list PrimFloat.float), row_ok scal64 q -> Forall unitv us ->
  exists ks, drv_draw_Q (cumsum q) us = Ok ks /\ Forall2 (draw_post q) us ks.
Proof. exact (drv_draw_valid scal64 D1a D1b D2a D2b). Qed.

Theorem drv_run_binary64 : forall (ops : list (@drv_op PrimFloat.float)) q0,
  row_ok scal64 q0 -> Forall (op_ok scal64) ops -> drv_valid q0 ops (drv_run q0 ops).
Proof. exact (drv_run_valid scal64 D1a D1b D2a D2b). Qed.

Theorem qe_draw_binary64 : forall (q us : list PrimFloat.float), row_ok scal64 q -> Forall unitv us ->
  exists ks, qe_draw (cumsum q) us = Ok ks /\ Forall2 (fun u k => step_post q u k) us ks.
Proof. exact (qe_draw_valid scal64 F1a F1b F2a F2b). Qed.

Theorem mc_sample_path_binary64 : forall (P : list (list PrimFloat.float)) (init : Z + list PrimFloat.float) ts stream,
  matrix_ok scal64 P -> (0 < zlen P)%Z -> (1 <= ts)%Z -> Forall unitv stream ->
  match init with inl x0 => (0 <= x0 < zlen P)%Z | inr psi => row_ok scal64 psi /\ zlen psi = zlen P /\ stream <> [] end ->
  exists x0 s row,
    mc_sample_path (Dense P) init ts stream = Ok row /\
    match init with
    | inl x => x0 = x /\ s = stream
    | inr psi => exists u0, stream = u0 :: s /\ step_post psi u0 x0
    end /\
    valid_path P x0 (firstn (Z.to_nat (ts - 1)) s) row.
Proof. exact (mc_sample_path_valid scal64 F1a F1b F2a F2b). Qed.

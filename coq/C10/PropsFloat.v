(* C10 for IEEE binary64 (Coq's PrimFloat, the arithmetic the correspondence runs bit-exactly against the
   jitted kernels): the float facts F1, F2, F3 are PROVED (Flocq), so the path theorems hold without
   arithmetic hypotheses.  Statements only.  The axioms listed by Print Assumptions are the standard library's
   specification of the primitive float operations (the FloatAxioms module), the classical real numbers used by Flocq
   (the ClassicalDedekindReals module, Classical_Prop.classic, functional_extensionality_dep) and the primitives. *)
From Coq Require Import ZArith List Bool.
From QE Require Import Base.Num C10.Model C10.Proofs C10.Proofs2 C10.Proofs3 C10.FloatConsts C10.Proofs4 C10.FloatFacts C10.FloatFacts2 C10.FloatFacts3.
From QE Require C10.Findings.
Import ListNotations.
Open Scope Z_scope.

(* admissible totals and uniforms, as float comparisons:
   scal64 c := 2^-1021 <= c <= 2^1000      unit64 u := 0 <= u < 1     (both imply finiteness) *)
Theorem C10_scal64_unit64_def : forall c u,
  (scal64 c <-> PrimFloat.leb c_lo c = true /\ PrimFloat.leb c c_hi = true) /\
  (unit64 u <-> PrimFloat.leb f_zero u = true /\ PrimFloat.ltb u f_one = true) /\
  (unit64 u <-> unitv u).
Proof. intros c u. split; [|split]; split; intros Hh; exact Hh. Qed.
Print Assumptions C10_scal64_unit64_def.

(* F1: a uniform draw scaled by an admissible total stays strictly below it and is not negative *)
Theorem C10_F1_binary64 : forall u c, scal64 c -> unit64 u ->
  PrimFloat.ltb (PrimFloat.mul u c) c = true /\ PrimFloat.ltb (PrimFloat.mul u c) f_zero = false.
Proof. exact F1_binary64. Qed.
Print Assumptions C10_F1_binary64.

(* F2: adding a zero (+0.0 or -0.0: the only p with 0 <= p and not 0 < p) changes no comparison, for every x and v
   including NaN and the infinities *)
Theorem C10_F2_binary64 : forall x p v,
  PrimFloat.leb f_zero p = true -> PrimFloat.ltb f_zero p = false ->
  PrimFloat.ltb v (PrimFloat.add x p) = PrimFloat.ltb v x.
Proof. exact F2_binary64. Qed.
Print Assumptions C10_F2_binary64.

Theorem C10_F2z_binary64 : forall p v,
  PrimFloat.leb f_zero p = true -> PrimFloat.ltb f_zero p = false ->
  PrimFloat.ltb v p = true -> PrimFloat.ltb v f_zero = true.
Proof. exact F2z_binary64. Qed.
Print Assumptions C10_F2z_binary64.

(* F3: v < y and not z < y give v < z for every finite z (v, y arbitrary) *)
Theorem C10_F3_binary64 : forall v y z, fin z ->
  PrimFloat.ltb v y = true -> PrimFloat.ltb z y = false -> PrimFloat.ltb v z = true.
Proof. exact F3_binary64. Qed.
Print Assumptions C10_F3_binary64.

(* np.cumsum of non-negative finite floats is monotone as long as the sums stay finite *)
Theorem C10_cumsum_monotone_binary64 : forall row : list PrimFloat.float,
  (forall p, In p row -> PrimFloat.leb f_zero p = true /\ fin p) ->
  (forall c, In c (cumsum row) -> fin c) ->
  forall i j ci cj, (i <= j)%nat -> nth_error (cumsum row) i = Some ci -> nth_error (cumsum row) j = Some cj ->
    PrimFloat.ltb cj ci = false.
Proof. exact cumsum_monotone64. Qed.
Print Assumptions C10_cumsum_monotone_binary64.

(* ---- the path theorems for binary64, no arithmetic hypotheses left.
   matrix_ok scal64 P: P square, every entry p has 0 <= p (float comparison, so no NaN), and the float
   cumulative sum c of every row satisfies 2^-1021 <= c <= 2^1000 (rows accepted by MarkovChain have c within
   1e-5 of 1).  Then for every start state and all uniforms 0 <= u < 1 (including 1-2^-53): no out-of-bounds
   read, every entry a state, every step of positive probability and bracketed by the float cumulative sums. *)
Theorem C10_path_valid_binary64 : forall (P : list (list PrimFloat.float)) us x,
  matrix_ok scal64 P -> 0 <= x < zlen P -> Forall unitv us ->
  exists p, path_dense (cdfs_dense P) x us = Ok p /\ valid_path P x us p.
Proof. exact path_valid_binary64. Qed.
Print Assumptions C10_path_valid_binary64.

Theorem C10_simulate_indices_binary64 : forall (P : list (list PrimFloat.float)) ts init nr drawn stream d inits,
  matrix_ok scal64 P -> 0 < zlen P -> 1 <= ts -> Forall unitv stream ->
  init_states (zlen P) init nr drawn = Ok (d, inits) ->
  exists X, simulate_indices (Dense P) ts init nr drawn stream = Ok (d, X) /\
    Forall2 (fun iu p => valid_path P (fst iu) (snd iu) p)
            (combine (map (fun i => i mod zlen P) inits)
                     (chop (length inits) (Z.to_nat (ts - 1)) stream)) X.
Proof. exact simulate_indices_binary64. Qed.
Print Assumptions C10_simulate_indices_binary64.

Theorem C10_path_sparse_binary64 : forall (rows : list (list (Z * PrimFloat.float))) us x,
  csr_ok scal64 rows -> 0 <= x < zlen rows -> Forall unitv us ->
  exists p, path_sparse (cdfs1d_of (zlen rows) (csr_data rows) (csr_indptr rows))
                        (csr_indices rows) (csr_indptr rows) x us = Ok p /\
            valid_sparse_path rows x us p.
Proof. exact path_sparse_binary64. Qed.
Print Assumptions C10_path_sparse_binary64.

(* the selected index is the LEAST one whose float cumulative sum exceeds the scaled uniform *)
Theorem C10_bracket_least_binary64 : forall (row : list PrimFloat.float) v k x,
  (forall p, In p row -> PrimFloat.leb f_zero p = true /\ fin p) -> (forall c, In c (cumsum row) -> fin c) ->
  rd (cumsum row) k = Ok x -> PrimFloat.ltb v x = true ->
  (k = 0 \/ exists x', rd (cumsum row) (k - 1) = Ok x' /\ PrimFloat.ltb v x' = false) ->
  (forall j cj, (j < Z.to_nat k)%nat -> nth_error (cumsum row) j = Some cj -> PrimFloat.ltb v cj = false) /\
  (forall j cj, (Z.to_nat k <= j)%nat -> nth_error (cumsum row) j = Some cj -> PrimFloat.ltb v cj = true).
Proof. exact bracket_least_binary64. Qed.
Print Assumptions C10_bracket_least_binary64.

(* ---- DiscreteRV.draw (scale min(Q[-1],1)), the DiscreteRV object under ANY sequence of q re-assignments and
   draws, quantecon.random.draw and mc_sample_path, for binary64 with no arithmetic hypothesis: admissible q /
   rows have entries 0 <= p and a float cumulative sum total in [2^-1021, 2^1000] *)
Theorem C10_drv_draw_binary64 : forall (q us : list PrimFloat.float), row_ok scal64 q -> Forall unitv us ->
  exists ks, drv_draw_Q (cumsum q) us = Ok ks /\ Forall2 (draw_post q) us ks.
Proof. exact drv_draw_binary64. Qed.
Print Assumptions C10_drv_draw_binary64.

Theorem C10_drv_run_binary64 : forall (ops : list (@drv_op PrimFloat.float)) q0,
  row_ok scal64 q0 -> Forall (op_ok scal64) ops -> drv_valid q0 ops (drv_run q0 ops).
Proof. exact drv_run_binary64. Qed.
Print Assumptions C10_drv_run_binary64.

Theorem C10_qe_draw_binary64 : forall (q us : list PrimFloat.float), row_ok scal64 q -> Forall unitv us ->
  exists ks, qe_draw (cumsum q) us = Ok ks /\ Forall2 (fun u k => step_post q u k) us ks.
Proof. exact qe_draw_binary64. Qed.
Print Assumptions C10_qe_draw_binary64.

Theorem C10_mc_sample_path_binary64 : forall (P : list (list PrimFloat.float)) (init : Z + list PrimFloat.float) ts stream,
  matrix_ok scal64 P -> 0 < zlen P -> 1 <= ts -> Forall unitv stream ->
  match init with inl x0 => 0 <= x0 < zlen P | inr psi => row_ok scal64 psi /\ zlen psi = zlen P /\ stream <> [] end ->
  exists x0 s row,
    mc_sample_path (Dense P) init ts stream = Ok row /\
    match init with
    | inl x => x0 = x /\ s = stream
    | inr psi => exists u0, stream = u0 :: s /\ step_post psi u0 x0
    end /\
    valid_path P x0 (firstn (Z.to_nat (ts - 1)) s) row.
Proof. exact mc_sample_path_binary64. Qed.
Print Assumptions C10_mc_sample_path_binary64.

(* the hypotheses are satisfiable: the 10 x 10 matrix of 0.1's (float cumulative sum 0.9999999999999999) and the
   uniforms 1-2^-53 and 0 *)
Example ex_binary64 :
  matrix_ok scal64 (repeat (repeat Findings.tenth 10) 10) /\ Forall unitv [Findings.u_top; f_zero] /\
  path_dense (cdfs_dense (repeat (repeat Findings.tenth 10) 10)) 0 [Findings.u_top; f_zero] = Ok [0; 9; 0].
Proof.
  split; [|split].
  - intros row Hrow. apply repeat_spec in Hrow. subst row. split; [|reflexivity]. split.
    + intros p Hp. apply repeat_spec in Hp. subst p. vm_compute. reflexivity.
    + eexists. split; [vm_compute; reflexivity|]. split; vm_compute; reflexivity.
  - repeat constructor; vm_compute; reflexivity.
  - vm_compute. reflexivity.
Qed.

(* binary64 constants used by C10/FloatFacts.v (kept apart: Flocq and Coq's PrimFloat both define `float`) *)
From Coq Require Import PrimFloat.
Definition f_zero : float := 0%float.
Definition f_one : float := 1%float.
Definition c_lo : float := 0x1p-1021%float.   (* smallest admissible total *)
Definition c_hi : float := 0x1p+1000%float.   (* largest admissible total  *)

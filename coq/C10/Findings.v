(* C10 findings: faithful models of the code BEFORE the two repairs, kept so that the refutations
   of the property on the old code stay machine-checked.
   D2  (repaired by aa389fd): the kernels called searchsorted(cdf, u) without scaling u by cdf[-1].
   D10 (repaired by 454b8b2): simulate_indices passed negative init indices, which its own range
        check accepts, unnormalised to the sparse kernel. *)
From Coq Require Import ZArith QArith List Bool PrimFloat.
From QE Require Import Base.Num C10.Model.
Import ListNotations.
Open Scope Z_scope.

Section Old.
Context {T : Type} `{Num T}.

(* _generate_sample_paths before aa389fd:  out[i,t+1] = searchsorted(P_cdfs[out[i,t]], random_values[i,t]) *)
Fixpoint path_dense_old (cdfs : list (list T)) (x : Z) (us : list T) : res (list Z) :=
  match us with
  | [] => Ok [x]
  | u :: r =>
    bind (rdw cdfs x) (fun cdf =>
    bind (searchsorted cdf u) (fun y =>
    bind (path_dense_old cdfs y r) (fun p => Ok (x :: p))))
  end.

(* simulate_indices before 454b8b2 (sparse chain): no  init_states % n  *)
Definition simulate_indices_old (c : chain) (ts : Z) (init : init_t) (num_reps : option Z)
  (drawn : list Z) (stream : list T) : res (bool * list (list Z)) :=
  bind (init_states (chain_n c) init num_reps drawn) (fun di =>
  let '(dim2, inits) := di in
  if ts <? 1 then ValueErr
  else bind (chain_paths c inits (chop (length inits) (Z.to_nat (ts - 1)) stream))
            (fun X => Ok (dim2, X))).
End Old.

(* ---- D2: ten states, every row ten times the double nearest to 0.1; u = 1 - 2^-53 *)
Definition tenth : float := 0x1.999999999999ap-4%float.
Definition P10 : list (list float) := repeat (repeat tenth 10) 10.
Definition u_top : float := 0x1.fffffffffffffp-1%float.
Definition f_zero : float := 0%float.
Definition f_one : float := 1%float.
Definition allclose_tol : float := 0x1.4fe13ec9bf514p-17%float.   (* 1e-8 + 1e-5*|1| *)

Theorem path_in_range_float_refuted :
  exists (P : list (list float)) (u : float),
    mc_accepts_dense allclose_tol P = true /\            (* the constructor accepts P *)
    PrimFloat.leb f_zero u = true /\ PrimFloat.ltb u f_one = true /\   (* u is a legal uniform draw *)
    path_dense_old (cdfs_dense P) 0 [u] = Ok [0; 10] /\   (* state 10 of a 10-state chain *)
    path_dense_old (cdfs_dense P) 0 [u; u] = OOB /\       (* and then a read outside P_cdfs *)
    path_dense (cdfs_dense P) 0 [u; u] = Ok [0; 9; 9].    (* the repaired kernel on the same input *)
Proof. exists P10, u_top. vm_compute. repeat split; reflexivity. Qed.

(* in exact arithmetic the old kernel is fine on the same data: rounding is the whole story *)
Example path_old_exact_ok :
  path_dense_old (cdfs_dense (repeat (repeat (1 # 10)%Q 10) 10)) 0
                 [(9007199254740991 # 9007199254740992)%Q] = Ok [0; 9].
Proof. vm_compute. reflexivity. Qed.

(* ---- D10: sparse chain, negative init accepted by the range check *)
Definition P3_data : list Q := [1#2; 1#2; 1#2; 1#2; 1#4; 1#4; 1#2]%Q.
Definition P3_indices : list Z := [0; 1; 1; 2; 0; 1; 2].
Definition P3_indptr : list Z := [0; 2; 4; 7].
(* cyclic permutation 0 -> 1 -> 2 -> 0 *)
Definition C3 : @chain Q := Sparse 3 [1; 1; 1]%Q [1; 2; 0] [0; 1; 2; 3].

Theorem sparse_negative_init_refuted :
  (* init = -1 passes simulate_indices' range check, the kernel then reads out of bounds *)
  in_state_range 3 (-1) = true /\
  simulate_indices_old (Sparse 3 P3_data P3_indices P3_indptr) 4 (IInt (-1)) None [] [1#2; 1#2; 1#2]%Q = OOB /\
  (* init = -3 names state 0, whose only successor is 1; the old code moves it to 2 (row 1 is used) *)
  in_state_range 3 (-3) = true /\
  simulate_indices_old C3 2 (IInt (-3)) None [] [1#2]%Q = Ok (false, [[-3; 2]]) /\
  (* current code *)
  simulate_indices (Sparse 3 P3_data P3_indices P3_indptr) 4 (IInt (-1)) None [] [1#2; 1#2; 1#2]%Q = Ok (false, [[2; 2; 2; 2]]) /\
  simulate_indices C3 2 (IInt (-3)) None [] [1#2]%Q = Ok (false, [[0; 1]]).
Proof. vm_compute. repeat split; reflexivity. Qed.

(* C19 proofs, part 1: sums, ARMA impulse response, ECDF, periodogram indices, Hamilton filter. *)
From Coq Require Import ZArith QArith Qabs List Bool Lia Lqa Setoid Morphisms ZifyBool.
From QE Require Import Base.Num C19.Model.
Import ListNotations.
Open Scope Q_scope.

(* ------------------------------------------------------------------ basics *)
Lemma natQ_S n : natQ (S n) == natQ n + 1.
Proof. unfold natQ. rewrite Nat2Z.inj_succ. unfold Z.succ. rewrite inject_Z_plus. reflexivity. Qed.
Lemma natQ_nonneg n : 0 <= natQ n.
Proof. unfold natQ. change 0 with (inject_Z 0). rewrite <- Zle_Qle. lia. Qed.
Lemma natQ_pos n : (0 < n)%nat -> 0 < natQ n.
Proof. intro. unfold natQ. change 0 with (inject_Z 0). rewrite <- Zlt_Qlt. lia. Qed.
Lemma natQ_neq0 n : (0 < n)%nat -> ~ natQ n == 0.
Proof. intros H E. pose proof (natQ_pos n H). lra. Qed.

Lemma sumQ_eq l : sumQ l == sum_list l.
Proof. induction l as [|x l IH]; cbn [sumQ sum_list fold_right]; [reflexivity|]. fold (sumQ l). rewrite Qred_correct, IH. reflexivity. Qed.

Lemma sum_list_ext {A} (f g : A -> Q) l : (forall x, In x l -> f x == g x) -> sum_list (map f l) == sum_list (map g l).
Proof.
  induction l as [|x l IH]; intro H; cbn [map sum_list]; [reflexivity|].
  rewrite (H x (or_introl eq_refl)), IH; [reflexivity|]. intros; apply H; right; assumption.
Qed.
Lemma sum_list_scale {A} c (f : A -> Q) l : sum_list (map (fun x => c * f x) l) == c * sum_list (map f l).
Proof. induction l as [|x l IH]; cbn [map sum_list]; [ring|]. rewrite IH. ring. Qed.
Lemma sum_list_app a b : sum_list (a ++ b) == sum_list a + sum_list b.
Proof. induction a as [|x a IH]; cbn [app sum_list]; [ring|]. rewrite IH. ring. Qed.

Lemma nth_map_gen {A B} (f : A -> B) l j d d' : (j < length l)%nat -> nth j (map f l) d' = f (nth j l d).
Proof. intro H. rewrite (nth_indep _ d' (f d)) by (rewrite map_length; assumption). apply map_nth. Qed.
Lemma nth_map_seq {A} (f : nat -> A) (d : A) s n j : (j < n)%nat -> nth j (map f (seq s n)) d = f (s + j)%nat.
Proof. intro H. rewrite (nth_map_gen _ _ j 0%nat) by (rewrite seq_length; assumption). rewrite seq_nth by assumption. reflexivity. Qed.

Lemma getQ_app_zeros l m i : getQ (l ++ repeat 0 m) i = getQ l i.
Proof.
  unfold getQ. destruct (Nat.lt_ge_cases i (length l)) as [H|H].
  - apply app_nth1. assumption.
  - rewrite app_nth2 by assumption. rewrite (nth_overflow l) by assumption.
    destruct (Nat.lt_ge_cases (i - length l) m) as [H'|H'].
    + apply nth_repeat.
    + apply nth_overflow. rewrite repeat_length. assumption.
Qed.

(* ------------------------------------------------------------------ ARMA *)
Lemma dotQ_cons x a y b : dotQ (x :: a) (y :: b) == x * y + dotQ a b.
Proof. cbn [dotQ]. apply Qred_correct. Qed.

(* dotQ a b = sum_{i < |b|} a_i b_i, with a_i = 0 beyond the end of a *)
Lemma dotQ_sum : forall b a, dotQ a b == sum_list (map (fun i => getQ a i * getQ b i) (seq 0 (length b))).
Proof.
  induction b as [|y b IH]; intro a.
  - destruct a; reflexivity.
  - destruct a as [|x a].
    + cbn [dotQ length]. symmetry. rewrite (sum_list_ext _ (fun _ => 0 * 0)).
      * induction (seq 0 (S (length b))); cbn [map sum_list]; [reflexivity|]. rewrite IHl. ring.
      * intros i _. unfold getQ. destruct i; cbn; ring.
    + rewrite dotQ_cons, IH. cbn [length seq map sum_list]. unfold getQ at 3 4. cbn [nth].
      rewrite <- seq_shift, map_map. reflexivity.
Qed.

Lemma nth_firstn_lt {A} (d : A) : forall k l i, (i < k)%nat -> nth i (firstn k l) d = nth i l d.
Proof.
  induction k as [|k IH]; intros l i H; [lia|]. destruct l as [|x l]; [reflexivity|].
  destruct i as [|i]; [reflexivity|]. cbn. apply IH. lia.
Qed.

Lemma rev_firstn_nth (l : list Q) k i : (k <= length l)%nat -> (i < k)%nat ->
  getQ (rev (firstn k l)) i = getQ l (k - 1 - i).
Proof.
  intros Hk Hi. unfold getQ. assert (L : length (firstn k l) = k) by (apply firstn_length_le; assumption).
  rewrite rev_nth by lia. rewrite L. replace (k - S i)%nat with (k - 1 - i)%nat by lia.
  apply nth_firstn_lt. lia.
Qed.

(* sum_{i=1..k} a_{i-1} l_{k-i} *)
Lemma dotQ_rev_firstn a l k : (k <= length l)%nat ->
  dotQ a (rev (firstn k l)) == sum_list (map (fun i => getQ a (i - 1) * getQ l (k - i)) (seq 1 k)).
Proof.
  intro Hk. rewrite dotQ_sum. rewrite rev_length, firstn_length_le by assumption.
  rewrite <- (seq_shift k 0), map_map. apply sum_list_ext. intros i Hi. apply in_seq in Hi.
  rewrite rev_firstn_nth by lia. replace (S i - 1)%nat with i by lia. replace (k - S i)%nat with (k - 1 - i)%nat by lia.
  reflexivity.
Qed.

Lemma sdiv_loop_spec num dtl a0 : forall fuel j acc, j = length acc ->
  let res := sdiv_loop fuel j num dtl a0 acc in
  length res = (j + fuel)%nat /\ firstn j res = rev acc /\
  forall k, (j <= k < j + fuel)%nat ->
    getQ res k == (getQ num k - dotQ dtl (rev (firstn k res))) / a0.
Proof.
  induction fuel as [|f IH]; intros j acc Hj; cbv zeta; cbn [sdiv_loop].
  - split; [rewrite rev_length; lia|]. split; [|intros; lia].
    subst j. rewrite <- rev_length. apply firstn_all.
  - set (h := Qred ((getQ num j - dotQ dtl acc) / a0)).
    destruct (IH (S j) (h :: acc) ltac:(cbn; lia)) as (L & Pf & Hk). cbv zeta in *.
    set (res := sdiv_loop f (S j) num dtl a0 (h :: acc)) in *.
    split; [lia|].
    assert (Pj : firstn j res = rev acc).
    { replace j with (Init.Nat.min j (S j)) by lia. rewrite <- firstn_firstn, Pf. cbn [rev].
      rewrite firstn_app. rewrite rev_length. replace (j - length acc)%nat with 0%nat by lia.
      cbn [firstn]. rewrite app_nil_r. subst j. rewrite <- rev_length. apply firstn_all. }
    split; [exact Pj|].
    intros k Hk'. destruct (Nat.eq_dec k j) as [->|Hne].
    + assert (E : getQ res j = h).
      { unfold getQ. rewrite <- (firstn_skipn (S j) res) at 1. rewrite Pf. cbn [rev].
        rewrite app_nth1 by (rewrite app_length, rev_length; cbn; lia).
        rewrite app_nth2 by (rewrite rev_length; lia). rewrite rev_length.
        replace (j - length acc)%nat with 0%nat by lia. reflexivity. }
      rewrite E, Pj, rev_involutive. unfold h. apply Qred_correct.
    + apply Hk. lia.
Qed.

Lemma set_params_shape phi theta :
  exists a b, set_params phi theta =
    ((1 :: as_list theta) ++ repeat 0 a, (1 :: map Qopp (as_list phi)) ++ repeat 0 b) /\
    length ((1 :: as_list theta) ++ repeat 0 a) = length ((1 :: map Qopp (as_list phi)) ++ repeat 0 b).
Proof.
  unfold set_params.
  set (ma := 1 :: as_list theta). set (ar := 1 :: map Qopp (as_list phi)).
  destruct (length ar <? length ma)%nat eqn:E1.
  - replace (length ma <? length (ar ++ repeat 0%Q (length ma - length ar)))%nat with false
      by (rewrite app_length, repeat_length; lia).
    exists 0%nat, (length ma - length ar)%nat. cbn [repeat]. rewrite !app_nil_r. split; [reflexivity|].
    rewrite app_length, repeat_length. lia.
  - destruct (length ma <? length ar)%nat eqn:E2.
    + exists (length ar - length ma)%nat, 0%nat. cbn [repeat]. rewrite !app_nil_r. split; [reflexivity|].
      rewrite app_length, repeat_length. lia.
    + exists 0%nat, 0%nat. cbn [repeat]. rewrite !app_nil_r. split; [reflexivity|]. lia.
Qed.

Lemma arma_impulse_spec phi theta n :
  exists psi, impulse_response phi theta n = Some psi /\ length psi = n /\
    forall j, (j < n)%nat ->
      getQ psi j == (if (j =? 0)%nat then 1 else getQ (as_list theta) (j - 1)) + arsum (as_list phi) psi j.
Proof.
  unfold impulse_response. destruct (set_params_shape phi theta) as (a & b & -> & L).
  unfold dimpulse. replace (_ <? _)%nat with false by lia.
  cbn [app]. replace (Qeq_bool 1 0) with false by reflexivity.
  set (num := repeat 0 _ ++ _). set (dtl := map Qopp (as_list phi) ++ repeat 0 b).
  assert (En : num = 1 :: as_list theta ++ repeat 0 a).
  { unfold num. cbn [app length] in *. replace (_ - _)%nat with 0%nat by lia. reflexivity. }
  destruct (sdiv_loop_spec num dtl 1 n 0%nat [] eq_refl) as (Ln & _ & Hk). cbv zeta in *.
  eexists. split; [reflexivity|]. split; [lia|].
  intros j Hj. rewrite (Hk j ltac:(lia)). rewrite dotQ_rev_firstn by lia. unfold arsum.
  assert (Enum : getQ num j == (if (j =? 0)%nat then 1 else getQ (as_list theta) (j - 1))).
  { rewrite En. destruct j as [|j]; [reflexivity|]. cbn [Nat.eqb]. unfold getQ at 1. cbn [nth].
    fold (getQ (as_list theta ++ repeat 0 a) j). rewrite getQ_app_zeros. replace (S j - 1)%nat with j by lia. reflexivity. }
  rewrite Enum.
  rewrite (sum_list_ext _ (fun i => (-1) * (getQ (as_list phi) (i - 1) * getQ (sdiv_loop n 0 num dtl 1 []) (j - i)))).
  - rewrite sum_list_scale. field.
  - intros i _. unfold dtl. rewrite getQ_app_zeros. unfold getQ at 1.
    destruct (Nat.lt_ge_cases (i - 1) (length (as_list phi))) as [H|H].
    + rewrite (nth_map_gen _ _ _ 0) by assumption. unfold getQ. ring.
    + rewrite nth_overflow by (rewrite map_length; assumption). unfold getQ. rewrite (nth_overflow (as_list phi)) by assumption. ring.
Qed.

(* ------------------------------------------------------------------ ECDF *)
Lemma natQ_add a b : natQ (a + b) == natQ a + natQ b.
Proof. unfold natQ. rewrite Nat2Z.inj_add, inject_Z_plus. reflexivity. Qed.

Lemma ecdf_spec obs x :
  ecdf obs x == natQ (length (filter (fun o => Qle_bool o x) obs)) / natQ (length obs).
Proof.
  unfold ecdf. rewrite Qred_correct, sumQ_eq.
  assert (G : sum_list (map (fun o => if Qle_bool o x then 1 else 0) obs)
              == natQ (length (filter (fun o => Qle_bool o x) obs))).
  { induction obs as [|o obs IH]; cbn [map sum_list filter]; [reflexivity|].
    rewrite IH. destruct (Qle_bool o x); cbn [length]; [rewrite natQ_S|]; ring. }
  rewrite G. reflexivity.
Qed.

Lemma ecdf_count obs x :
  forall o, In o (filter (fun o => Qle_bool o x) obs) <-> In o obs /\ o <= x.
Proof. intro o. rewrite filter_In, Qle_bool_iff. reflexivity. Qed.

(* ------------------------------------------------------------------ periodogram *)
Lemma filter_seq_lt m : forall k s,
  filter (fun j => (j <? m)%nat) (seq s k) = seq s (Nat.min k (m - s)).
Proof.
  induction k as [|k IH]; intro s; [reflexivity|]. cbn [seq filter].
  destruct (s <? m)%nat eqn:E.
  - rewrite IH. replace (Nat.min (S k) (m - s)) with (S (Nat.min k (m - S s))) by lia. reflexivity.
  - rewrite IH. replace (Nat.min k (m - S s)) with 0%nat by lia. replace (Nat.min (S k) (m - s)) with 0%nat by lia. reflexivity.
Qed.

Lemma firstn_seq k s n : firstn k (seq s n) = seq s (Nat.min k n).
Proof.
  revert s n. induction k as [|k IH]; intros s n; [reflexivity|]. destruct n as [|n]; [reflexivity|].
  cbn [seq firstn Nat.min]. rewrite IH. reflexivity.
Qed.

Lemma map_fst_combine_seq {A} (l : list A) s : map fst (combine (seq s (length l)) l) = seq s (length l).
Proof. revert s. induction l as [|x l IH]; intro s; [reflexivity|]. cbn. rewrite IH. reflexivity. Qed.

(* retained frequencies (as fractions of 2 pi) are exactly the j/n with 0 <= j < n and 2j <= n, in order *)
Lemma periodogram_indices (dft : list (Q * Q)) :
  let n := length dft in
  map fst (periodogram dft) =
  map (fun j => natQ j / natQ n) (filter (fun j => (2 * j <=? n)%nat) (seq 0 n)).
Proof.
  cbv zeta. unfold periodogram. set (n := length dft).
  rewrite <- firstn_map, map_map. cbn [fst].
  rewrite <- (map_map fst (fun j => natQ j / natQ n)). unfold n at 3. rewrite map_fst_combine_seq. fold n.
  rewrite firstn_map, firstn_seq.
  rewrite (filter_ext _ (fun j => (j <? S (n / 2))%nat)).
  - rewrite filter_seq_lt. rewrite Nat.sub_0_r, Nat.min_comm. reflexivity.
  - intro j. pose proof (Nat.div_mod_eq n 2). pose proof (Nat.mod_upper_bound n 2 ltac:(lia)).
    destruct (2 * j <=? n)%nat eqn:E1, (j <? S (n / 2))%nat eqn:E2; try reflexivity; lia.
Qed.

Lemma periodogram_length (dft : list (Q * Q)) :
  length (periodogram dft) = Nat.min (S (length dft / 2)) (length dft).
Proof. unfold periodogram. rewrite firstn_length, map_length, combine_length, seq_length. lia. Qed.

Lemma periodogram_value (dft : list (Q * Q)) k : (k < length (periodogram dft))%nat ->
  let n := length dft in
  let c := nth k dft (0, 0) in
  fst (nth k (periodogram dft) (0, 0)) == natQ k / natQ n /\
  snd (nth k (periodogram dft) (0, 0)) == (fst c * fst c + snd c * snd c) / natQ n.
Proof.
  intro Hk. pose proof (periodogram_length dft) as L. cbv zeta. unfold periodogram in *.
  rewrite nth_firstn_lt by lia.
  rewrite (nth_map_gen _ _ k (0%nat, (0, 0))) by (rewrite combine_length, seq_length; lia).
  rewrite combine_nth by (rewrite seq_length; reflexivity). rewrite seq_nth by lia.
  cbn [fst snd plus]. rewrite Qred_correct. split; reflexivity.
Qed.

(* ------------------------------------------------------------------ Hamilton filter *)
Lemma zip_sub_length : forall a b, length (zip_sub a b) = Nat.min (length a) (length b).
Proof.
  induction a as [|x a IH]; intros [|[v|] b]; cbn [zip_sub length Nat.min]; try reflexivity; rewrite IH; reflexivity.
Qed.
Lemma zip_sub_nth : forall a b t, (t < length a)%nat -> (t < length b)%nat ->
  nth t (zip_sub a b) None =
  match nth t b None with Some v => Some (Qred (getQ a t - v)) | None => None end.
Proof.
  induction a as [|x a IH]; intros [|[v|] b] t Ha Hb; cbn [length] in *; try lia;
    destruct t as [|t]; cbn [zip_sub nth]; try reflexivity; unfold getQ; cbn [nth]; apply IH; lia.
Qed.

Lemma Qs_eq_spec : forall a b, Qs_eq a b = true -> length a = length b /\ forall i, getQ a i == getQ b i.
Proof.
  induction a as [|x a IH]; intros [|y b] H; cbn [Qs_eq] in H; try discriminate.
  - split; [reflexivity|]. intro i. reflexivity.
  - apply andb_true_iff in H. destruct H as [H1 H2]. apply Qeq_bool_iff in H1.
    destruct (IH b H2) as [L E]. split; [cbn; lia|]. intros [|i]; unfold getQ; cbn [nth]; [assumption|apply E].
Qed.

Lemma solve_spec A b x : solve A b = Some x ->
  length (mat_vec A x) = length b /\ forall i, getQ (mat_vec A x) i == getQ b i.
Proof.
  unfold solve. destruct (gauss_solve A b) as [x'|]; [|discriminate].
  destruct (Qs_eq (mat_vec A x') b) eqn:E; [|discriminate]. intro H. injection H as <-.
  apply Qs_eq_spec. assumption.
Qed.

Lemma nth_repeat_lt {A} (d v : A) : forall k t, (t < k)%nat -> nth t (repeat v k) d = v.
Proof. induction k as [|k IH]; intros [|t] H; try lia; cbn; [reflexivity|apply IH; lia]. Qed.
Lemma nth_repeat_app_lt {A} (d v : A) k l t : (t < k)%nat -> nth t (repeat v k ++ l) d = v.
Proof. intro H. rewrite app_nth1 by (rewrite repeat_length; assumption). apply nth_repeat_lt. assumption. Qed.
Lemma nth_repeat_app_ge {A} (d v : A) k l t : (k <= t)%nat -> nth t (repeat v k ++ l) d = nth (t - k) l d.
Proof. intro H. rewrite app_nth2 by (rewrite repeat_length; assumption). rewrite repeat_length. reflexivity. Qed.

(* row r of the regressor matrix belongs to date t = p+h-1+r: (1, y_{t-h}, y_{t-h-1}, ..., y_{t-h-p+1}) *)
Lemma ham_X_row y h p r : (r < ham_rows (length y) h p)%nat ->
  nth r (ham_X y h p) [] = 1 :: map (fun j => getQ y (p - j + r)) (seq 1 p).
Proof. intro H. unfold ham_X. rewrite nth_map_seq by assumption. reflexivity. Qed.
Lemma ham_X_length y h p : length (ham_X y h p) = ham_rows (length y) h p.
Proof. unfold ham_X. rewrite map_length, seq_length. reflexivity. Qed.

Lemma hamilton_spec_reg y h p cycle trend :
  hamilton y h (Some p) = Some (cycle, trend) ->
  let T := length y in
  let X := ham_X y h p in
  (1 <= p + h <= T)%nat /\
  exists b,
    (* normal equations X'X b = X'y *)
    (forall i, getQ (mat_vec (XtX X (S p)) b) i == getQ (Xty X (ham_target y h p) (S p)) i) /\
    length trend = T /\ length cycle = T /\
    forall t, (t < T)%nat ->
      ((t < p + h - 1)%nat -> nth t cycle None = None /\ nth t trend None = None) /\
      ((p + h - 1 <= t)%nat ->
         exists c tr, nth t cycle None = Some c /\ nth t trend None = Some tr /\
                      tr = dotQ (nth (t - (p + h - 1)) X []) b /\ c + tr == getQ y t).
Proof.
  unfold hamilton. destruct ((length y <? p + h)%nat || (p + h <? 1)%nat) eqn:E; [discriminate|].
  destruct (solve _ _) as [b|] eqn:Es; [|discriminate]. intro H. injection H as Hc Ht. cbv zeta.
  rewrite Ht in Hc. apply orb_false_iff in E. destruct E as [E1 E2]. apply Nat.ltb_ge in E1, E2.
  assert (Hb : (1 <= p + h <= length y)%nat) by (split; assumption). split; [exact Hb|]. exists b.
  destruct (solve_spec _ _ _ Es) as [_ Hne]. split; [exact Hne|].
  set (X := ham_X y h p) in *.
  assert (LX : length (mat_vec X b) = (length y - (p + h - 1))%nat).
  { unfold mat_vec. rewrite map_length. unfold X. rewrite ham_X_length. unfold ham_rows. lia. }
  assert (Lt : length trend = length y).
  { subst trend. rewrite app_length, repeat_length, map_length, LX. lia. }
  split; [exact Lt|]. split; [subst cycle; rewrite zip_sub_length; lia|].
  intros t Htl. split.
  - intro Hlt. assert (Et : nth t trend None = None) by (subst trend; apply nth_repeat_app_lt; assumption).
    split; [|exact Et]. subst cycle. rewrite zip_sub_nth by lia. rewrite Et. reflexivity.
  - intro Hge.
    assert (Et : nth t trend None = Some (dotQ (nth (t - (p + h - 1)) X []) b)).
    { subst trend. rewrite nth_repeat_app_ge by assumption.
      rewrite (nth_map_gen _ _ _ 0) by lia. f_equal. unfold mat_vec.
      rewrite (nth_map_gen _ _ _ []) by (unfold mat_vec in LX; rewrite map_length in LX; lia). reflexivity. }
    eexists. eexists. split; [subst cycle; rewrite zip_sub_nth by lia; rewrite Et; reflexivity|].
    split; [exact Et|]. split; [reflexivity|]. rewrite Qred_correct. ring.
Qed.

Lemma hamilton_spec_rw y h cycle trend :
  hamilton y h None = Some (cycle, trend) ->
  let T := length y in
  (h <= T)%nat /\ length cycle = T /\ length trend = T /\
  forall t, (t < T)%nat ->
    ((t < h)%nat -> nth t cycle None = None /\ nth t trend None = None) /\
    ((h <= t)%nat ->
       exists c tr, nth t cycle None = Some c /\ nth t trend None = Some tr /\
                    c == getQ y t - getQ y (t - h) /\ c + tr == getQ y t).
Proof.
  unfold hamilton. destruct (length y <? h)%nat eqn:E; [discriminate|].
  intro H. injection H as Hc Ht. cbv zeta. rewrite Hc in Ht. apply Nat.ltb_ge in E. assert (Hh : (h <= length y)%nat) by lia.
  assert (Lc : length cycle = length y).
  { subst cycle. rewrite app_length, repeat_length, map_length, seq_length. lia. }
  split; [exact Hh|]. split; [exact Lc|]. split; [subst trend; rewrite zip_sub_length; lia|].
  intros t Htl. split.
  - intro Hlt. assert (Ec : nth t cycle None = None) by (subst cycle; apply nth_repeat_app_lt; assumption).
    split; [exact Ec|]. subst trend. rewrite zip_sub_nth by lia. rewrite Ec. reflexivity.
  - intro Hge.
    assert (Ec : nth t cycle None = Some (Qred (getQ y (h + (t - h)) - getQ y (t - h)))).
    { subst cycle. rewrite nth_repeat_app_ge by assumption. rewrite nth_map_seq by lia. reflexivity. }
    eexists. eexists. split; [exact Ec|]. split; [subst trend; rewrite zip_sub_nth by lia; rewrite Ec; reflexivity|].
    replace (h + (t - h))%nat with t by lia. rewrite !Qred_correct. split; ring.
Qed.

Lemma ecdf_full_spec obs x :
  ecdf obs x == natQ (length (filter (fun o => Qle_bool o x) obs)) / natQ (length obs) /\
  forall o, In o (filter (fun o => Qle_bool o x) obs) <-> In o obs /\ o <= x.
Proof. exact (conj (ecdf_spec obs x) (ecdf_count obs x)). Qed.

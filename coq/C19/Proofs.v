From Coq Require Import ZArith QArith Qabs List Bool Lia Lqa.
From QE Require Import Base.Num C19.Model.
Import ListNotations.
Open Scope Q_scope.

Lemma sumQ_cons x l : sumQ (x :: l) == x + sumQ l.
Proof. unfold sumQ. cbn [fold_right]. apply Qred_correct. Qed.

(* Faithful model of _arma.py::set_params as it was BEFORE commit 8cad833 (finding D6): only ar_poly was
   padded.  For p > q scipy.signal.dimpulse then sees a numerator shorter than the denominator, i.e. a
   transfer function of lower degree: the response is delayed by p - q periods. *)
From Coq Require Import ZArith QArith List Bool Lia.
From QE Require Import Base.Num C19.Model.
Import ListNotations.
Open Scope Q_scope.

Definition set_params_old (phi theta : param) : list Q * list Q :=
  let ma := 1 :: as_list theta in
  let ar := 1 :: map Qopp (as_list phi) in
  let ar := if (length ar <? length ma)%nat then ar ++ repeat 0 (length ma - length ar) else ar in
  (ma, ar).

Definition impulse_response_old (phi theta : param) (n : nat) : option (list Q) :=
  let '(ma, ar) := set_params_old phi theta in dimpulse ma ar n.

(* phi = [1/2, 1/5], theta = [3/10]: psi_0 = 0 (must be 1); the true response 1, 4/5, ... appears one period late *)
Lemma arma_impulse_refuted :
  exists phi theta n psi,
    impulse_response_old phi theta n = Some psi /\ (0 < n)%nat /\
    getQ psi 0 == 0 /\ ~ getQ psi 0 == 1 /\ getQ psi 1 == 1 /\ getQ psi 2 == 4 # 5.
Proof.
  exists (Vec [1 # 2; 1 # 5]), (Vec [3 # 10]), 6%nat. eexists. split; [vm_compute; reflexivity|].
  repeat split; try (vm_compute; reflexivity); try lia. vm_compute. discriminate.
Qed.

(* the repaired set_params on the same input *)
Lemma arma_impulse_repaired_witness :
  exists psi, impulse_response (Vec [1 # 2; 1 # 5]) (Vec [3 # 10]) 6 = Some psi /\
              getQ psi 0 == 1 /\ getQ psi 1 == 4 # 5.
Proof. eexists. split; [vm_compute; reflexivity|]. split; vm_compute; reflexivity. Qed.

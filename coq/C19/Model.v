(* C19 model: quantecon/_inequality.py (gini_coefficient, lorenz_curve), _ecdf.py,
   distributions.py (BetaBinomial), _arma.py (set_params, impulse_response),
   _filter.py (hamilton_filter), _estspec.py (periodogram index logic).
   Executable definitions over Q only; proofs live in Proofs.v.
   Qred after sums/products keeps numerators small on long runs; it is Qeq-neutral. *)
From Coq Require Import ZArith QArith Qabs List Bool.
From QE Require Import Base.Num.
Import ListNotations.
Open Scope Q_scope.

Definition natQ (n : nat) : Q := inject_Z (Z.of_nat n).
Definition getQ (l : list Q) (i : nat) : Q := nth i l 0.

(* np.sum / left-to-right accumulation; exact, so the order is immaterial over Q *)
Definition sumQ (l : list Q) : Q := fold_right (fun a b => Qred (a + b)) 0 l.

(* ------------------------------------------------------------------ _inequality.py *)
(* for i in prange(n): for j in range(n): i_sum[i] += abs(y[i]-y[j]);
   return np.sum(i_sum) / (2 * n * np.sum(y)) *)
Definition gini_isum (y : list Q) : list Q :=
  map (fun yi => sumQ (map (fun yj => Qabs (yi - yj)) y)) y.
Definition gini (y : list Q) : Q :=
  Qred (sumQ (gini_isum y) / (2 * natQ (length y) * sumQ y)).

(* np.sort *)
Fixpoint insert (x : Q) (l : list Q) : list Q :=
  match l with
  | [] => [x]
  | h :: t => if Qle_bool x h then x :: l else h :: insert x t
  end.
Definition isort (l : list Q) : list Q := fold_right insert [] l.

(* np.cumsum *)
Fixpoint cumsum_from (acc : Q) (l : list Q) : list Q :=
  match l with
  | [] => []
  | x :: r => let a := Qred (acc + x) in a :: cumsum_from a r
  end.

(* s = [0, cumsum(sort y)]; cum_people[i] = i/n, cum_income[i] = s[i]/s[n]  (entry 0 is the
   initial zero of np.zeros, which equals 0/n and s[0]/s[n]) *)
Definition lorenz_s (y : list Q) : list Q := 0 :: cumsum_from 0 (isort y).
Definition lorenz (y : list Q) : list Q * list Q :=
  let n := length y in
  let s := lorenz_s y in
  let sn := getQ s n in
  (map (fun i => Qred (natQ i / natQ n)) (seq 0 (S n)),
   map (fun si => Qred (si / sn)) s).

(* trapezoid area under a piecewise linear curve through the points (xs_i, ys_i) *)
Fixpoint trapz (xs ys : list Q) : Q :=
  match xs, ys with
  | x0 :: ((x1 :: _) as xr), y0 :: ((y1 :: _) as yr) => (x1 - x0) * (y0 + y1) / 2 + trapz xr yr
  | _, _ => 0
  end.

(* ------------------------------------------------------------------ _ecdf.py *)
(* np.mean(observations <= a) *)
Definition ecdf (obs : list Q) (x : Q) : Q :=
  Qred (sumQ (map (fun o => if Qle_bool o x then 1 else 0) obs) / natQ (length obs)).

(* ------------------------------------------------------------------ distributions.py *)
(* rising factorial x (x+1) ... (x+m-1) *)
Fixpoint rf (x : Q) (m : nat) : Q :=
  match m with
  | O => 1
  | S m' => rf x m' * (x + natQ m')
  end.
(* [rf x 0; ...; rf x (m-1)] by one running product *)
Fixpoint rf_from (x acc : Q) (k m : nat) : list Q :=
  match m with
  | O => []
  | S m' => acc :: rf_from x (acc * (x + natQ k)) (S k) m'
  end.
Definition rf_table (x : Q) (n : nat) : list Q := rf_from x 1 0 (S n).
Fixpoint zip_add (a b : list Z) : list Z :=
  match a, b with
  | x :: a', y :: b' => (x + y)%Z :: zip_add a' b'
  | _, _ => []
  end.
Fixpoint pascal_row (n : nat) : list Z :=
  match n with
  | O => [1%Z]
  | S n' => let r := pascal_row n' in zip_add (0%Z :: r) (r ++ [0%Z])
  end.
(* binom(n,k) * beta(k+a, n-k+b) / beta(a,b) = C(n,k) a^(k) b^(n-k) / (a+b)^(n) *)
Definition bb_pdf (n : nat) (a b : Q) : list Q :=
  let row := pascal_row n in
  let ta := rf_table a n in
  let tb := rf_table b n in
  let den := rf (a + b) n in
  map (fun k => Qred (inject_Z (nth k row 0%Z) * getQ ta k * getQ tb (n - k) / den)) (seq 0 (S n)).
Definition bb_mean (n : nat) (a b : Q) : Q := natQ n * a / (a + b).
Definition bb_var (n : nat) (a b : Q) : Q :=
  (natQ n * a * b * (a + b + natQ n)) / ((a + b) * (a + b) * (a + b + 1)).
(* skew = t1 * sqrt(t2sq) *)
Definition bb_skew_t1 (n : nat) (a b : Q) : Q := (a + b + 2 * natQ n) * (b - a) / (a + b + 2).
Definition bb_skew_t2sq (n : nat) (a b : Q) : Q := (1 + a + b) / (natQ n * a * b * (natQ n + a + b)).

(* ------------------------------------------------------------------ _arma.py *)
Inductive param := Scalar (x : Q) | Vec (l : list Q).
Definition as_list (p : param) : list Q := match p with Scalar x => [x] | Vec l => l end.

(* set_params of the current source: both polynomials are padded to a common length *)
Definition set_params (phi theta : param) : list Q * list Q :=   (* (ma_poly, ar_poly) *)
  let ma := 1 :: as_list theta in
  let ar := 1 :: map Qopp (as_list phi) in
  let ar := if (length ar <? length ma)%nat then ar ++ repeat 0 (length ma - length ar) else ar in
  let ma := if (length ma <? length ar)%nat then ma ++ repeat 0 (length ar - length ma) else ma in
  (ma, ar).

Fixpoint dotQ (a b : list Q) : Q :=
  match a, b with
  | x :: a', y :: b' => Qred (x * y + dotQ a' b')
  | _, _ => 0
  end.

(* power-series division num(z)/den(z) in z^-1 (equal lengths):
   h_j = (num_j - sum_{i=1..j} den_i h_{j-i}) / den_0 ; acc holds h_{j-1} ... h_0 *)
Fixpoint sdiv_loop (fuel j : nat) (num dtl : list Q) (a0 : Q) (acc : list Q) : list Q :=
  match fuel with
  | O => rev acc
  | S f => let h := Qred ((getQ num j - dotQ dtl acc) / a0) in
           sdiv_loop f (S j) num dtl a0 (h :: acc)
  end.

(* scipy.signal.dimpulse((num, den, 1), n=n): polynomials in descending powers of z; a shorter
   numerator is a lower-degree polynomial (left-padded by tf2ss), a longer one is rejected
   ("Improper transfer function") *)
Definition dimpulse (num den : list Q) (n : nat) : option (list Q) :=
  if (length den <? length num)%nat then None
  else match den with
       | [] => None
       | a0 :: dtl =>
           if Qeq_bool a0 0 then None
           else Some (sdiv_loop n 0 (repeat 0 (length den - length num) ++ num) dtl a0 [])
       end.

Definition impulse_response (phi theta : param) (n : nat) : option (list Q) :=
  let '(ma, ar) := set_params phi theta in dimpulse ma ar n.

(* one ARMA object driven by a sequence of operations: the setters phi/theta re-run set_params, sigma is a
   plain attribute; impulse_response depends on the CURRENT parameters only (no state survives a setter).
   The run returns the impulse responses of the Impulse operations, in order. *)
Inductive arma_op := SetPhi (p : param) | SetTheta (p : param) | SetSigma (s : Q) | Impulse (n : nat).
Fixpoint arma_run (phi theta : param) (sigma : Q) (ops : list arma_op) : list (option (list Q)) :=
  match ops with
  | [] => []
  | SetPhi p :: r => arma_run p theta sigma r
  | SetTheta p :: r => arma_run phi p sigma r
  | SetSigma s :: r => arma_run phi theta s r
  | Impulse n :: r => impulse_response phi theta n :: arma_run phi theta sigma r
  end.

(* ------------------------------------------------------------------ _filter.py *)
Definition dotp (a b : list Q) : Q := dotQ a b.

(* exact Gauss-Jordan elimination on augmented rows (counterpart of np.linalg.solve) *)
Fixpoint find_pivot (c : nat) (rows : list (list Q)) : option (list Q * list (list Q)) :=
  match rows with
  | [] => None
  | r :: rs => if Qeq_bool (getQ r c) 0
               then match find_pivot c rs with
                    | Some (pr, rest) => Some (pr, r :: rest)
                    | None => None
                    end
               else Some (r, rs)
  end.
Fixpoint row_sub (r : list Q) (k : Q) (pr : list Q) : list Q :=
  match r, pr with
  | x :: r', y :: pr' => Qred (x - k * y) :: row_sub r' k pr'
  | _, _ => []
  end.
Fixpoint gj (fuel c : nat) (done todo : list (list Q)) : option (list (list Q)) :=
  match fuel with
  | O => Some done
  | S f => match find_pivot c todo with
           | None => None                      (* singular: LinAlgError *)
           | Some (pr, rest) =>
               let k := / getQ pr c in
               let pr' := map (fun x => Qred (k * x)) pr in
               let elim := fun r => row_sub r (getQ r c) pr' in
               gj f (S c) (map elim done ++ [pr']) (map elim rest)
           end
  end.
Definition gauss_solve (A : list (list Q)) (b : list Q) : option (list Q) :=
  let m := length b in
  match gj m 0 [] (map (fun rb => fst rb ++ [snd rb]) (combine A b)) with
  | Some rows => Some (map (fun r => getQ r m) rows)
  | None => None
  end.
Definition mat_vec (A : list (list Q)) (x : list Q) : list Q := map (fun r => dotQ r x) A.
Fixpoint Qs_eq (a b : list Q) : bool :=
  match a, b with
  | [], [] => true
  | x :: a', y :: b' => Qeq_bool x y && Qs_eq a' b'
  | _, _ => false
  end.
(* certified solve: the solution of the elimination is accepted only after the exact residual
   check A x = b (translation validation of the external LAPACK call) *)
Definition solve (A : list (list Q)) (b : list Q) : option (list Q) :=
  match gauss_solve A b with
  | Some x => if Qs_eq (mat_vec A x) b then Some x else None
  | None => None
  end.

(* X = ones((T-p-h+1, p+1)); X[:, j] = y[p-j : T-h-j+1] *)
Definition ham_rows (T h p : nat) : nat := T - p - h + 1.
Definition ham_X (y : list Q) (h p : nat) : list (list Q) :=
  map (fun t => 1 :: map (fun j => getQ y (p - j + t)) (seq 1 p)) (seq 0 (ham_rows (length y) h p)).
Definition ham_target (y : list Q) (h p : nat) : list Q :=
  map (fun t => getQ y (p + h - 1 + t)) (seq 0 (ham_rows (length y) h p)).
(* X'X and X'y as sums over rows *)
Definition col (X : list (list Q)) (j : nat) : list Q := map (fun r => getQ r j) X.
Definition XtX (X : list (list Q)) (m : nat) : list (list Q) :=
  map (fun i => map (fun j => dotQ (col X i) (col X j)) (seq 0 m)) (seq 0 m).
Definition Xty (X : list (list Q)) (v : list Q) (m : nat) : list Q :=
  map (fun i => dotQ (col X i) v) (seq 0 m).

Fixpoint zip_sub (a : list Q) (b : list (option Q)) : list (option Q) :=
  match a, b with
  | x :: a', Some t :: b' => Some (Qred (x - t)) :: zip_sub a' b'
  | x :: a', None :: b' => None :: zip_sub a' b'
  | _, _ => []
  end.

(* None models NaN.  Result: Some (cycle, trend), or None when the call raises
   (negative dimensions, singular normal equations) *)
Definition hamilton (y : list Q) (h : nat) (p : option nat) : option (list (option Q) * list (option Q)) :=
  let T := length y in
  match p with
  | Some p =>
      if (T <? p + h)%nat || (p + h <? 1)%nat then None
      else let X := ham_X y h p in
           match solve (XtX X (S p)) (Xty X (ham_target y h p) (S p)) with
           | None => None
           | Some b =>
               let trend := repeat None (p + h - 1) ++ map Some (mat_vec X b) in
               Some (zip_sub y trend, trend)
           end
  | None =>
      if (T <? h)%nat then None
      else let cycle := repeat None h ++ map (fun t => Some (Qred (getQ y (h + t) - getQ y t))) (seq 0 (T - h)) in
           Some (cycle, zip_sub y cycle)
  end.

(* ------------------------------------------------------------------ _estspec.py *)
(* I_w = |fft(x)|^2 / n ; w = 2 pi arange(n)/n ; both truncated to [: int(n/2)+1].
   The DFT values are an input (list of (re, im)); frequencies are returned as fractions of 2 pi. *)
Definition periodogram (dft : list (Q * Q)) : list (Q * Q) :=
  let n := length dft in
  firstn (S (n / 2))
    (map (fun jc => (natQ (fst jc) / natQ n,
                     Qred ((fst (snd jc) * fst (snd jc) + snd (snd jc) * snd (snd jc)) / natQ n)))
         (combine (seq 0 n) dft)).

(* ------------------------------------------------------------------ specification vocabulary
   (plain exact sums used in the statements of the theorems; not part of the executable model) *)
Fixpoint sum_list (l : list Q) : Q := match l with [] => 0 | x :: r => x + sum_list r end.
(* sum_{i=1..j} phi_i psi_{j-i}  (phi_i = 0 beyond the AR order) *)
Definition arsum (phi psi : list Q) (j : nat) : Q :=
  sum_list (map (fun i => getQ phi (i - 1) * getQ psi (j - i)) (seq 1 j)).
(* mean absolute difference and mean *)
Definition mad (y : list Q) : Q :=
  sum_list (map (fun yi => sum_list (map (fun yj => Qabs (yi - yj)) y)) y) / (natQ (length y) * natQ (length y)).
Definition mean (y : list Q) : Q := sum_list y / natQ (length y).

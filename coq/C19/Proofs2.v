(* C19 proofs, part 2: Gini coefficient and Lorenz curve. *)
From Coq Require Import ZArith QArith Qabs List Bool Lia Lqa Setoid Morphisms Permutation Sorted.
From QE Require Import Base.Num C19.Model C19.Proofs.
Import ListNotations.
Open Scope Q_scope.

(* the double sum of absolute differences *)
Definition D (y : list Q) : Q :=
  sum_list (map (fun yi => sum_list (map (fun yj => Qabs (yi - yj)) y)) y).

Lemma gini_eq y : gini y == D y / (2 * natQ (length y) * sum_list y).
Proof.
  unfold gini, gini_isum, D. rewrite Qred_correct, !sumQ_eq.
  rewrite (sum_list_ext (fun yi => sumQ (map (fun yj => Qabs (yi - yj)) y))
                        (fun yi => sum_list (map (fun yj => Qabs (yi - yj)) y)))
    by (intros; apply sumQ_eq).
  reflexivity.
Qed.

Lemma gini_def y : (0 < length y)%nat -> ~ sum_list y == 0 -> gini y == mad y / (2 * mean y).
Proof.
  intros Hn Hs. rewrite gini_eq. unfold mad, mean. fold (D y).
  pose proof (natQ_neq0 _ Hn). field. split; assumption.
Qed.

Lemma sum_list_mul c l : sum_list (map (Qmult c) l) == c * sum_list l.
Proof. induction l as [|x l IH]; cbn [map sum_list]; [ring|]. rewrite IH. ring. Qed.

Lemma D_scale c y : 0 <= c -> D (map (Qmult c) y) == c * D y.
Proof.
  intro Hc. unfold D. rewrite map_map.
  rewrite (sum_list_ext _ (fun x => c * sum_list (map (fun yj => Qabs (x - yj)) y))).
  - apply sum_list_scale.
  - intros x _. rewrite map_map. rewrite <- sum_list_scale. apply sum_list_ext. intros x' _.
    setoid_replace (c * x - c * x') with (c * (x - x')) by ring.
    rewrite Qabs_Qmult, (Qabs_pos c) by assumption. reflexivity.
Qed.

Lemma gini_scale c y : 0 < c -> (0 < length y)%nat -> ~ sum_list y == 0 ->
  gini (map (Qmult c) y) == gini y.
Proof.
  intros Hc Hn Hs. rewrite !gini_eq, D_scale, sum_list_mul, map_length by lra.
  pose proof (natQ_neq0 _ Hn). field. repeat split; try assumption. lra.
Qed.

Lemma sum_list_perm l l' : Permutation l l' -> sum_list l == sum_list l'.
Proof. induction 1; cbn [sum_list]; try rewrite IHPermutation; try ring. rewrite IHPermutation1. assumption. Qed.

Lemma D_perm y y' : Permutation y y' -> D y == D y'.
Proof.
  intro P. unfold D.
  rewrite (sum_list_ext _ (fun yi => sum_list (map (fun yj => Qabs (yi - yj)) y'))).
  - apply sum_list_perm, Permutation_map. assumption.
  - intros x _. apply sum_list_perm, Permutation_map. assumption.
Qed.

Lemma gini_perm y y' : Permutation y y' -> gini y == gini y'.
Proof.
  intro P. rewrite !gini_eq, (D_perm _ _ P), (sum_list_perm _ _ P), (Permutation_length P). reflexivity.
Qed.

(* ------------------------------------------------------------------ insertion sort *)
Lemma insert_perm x l : Permutation (insert x l) (x :: l).
Proof.
  induction l as [|h t IH]; cbn [insert]; [reflexivity|].
  destruct (Qle_bool x h); [reflexivity|]. rewrite IH. apply perm_swap.
Qed.
Lemma isort_perm l : Permutation (isort l) l.
Proof. induction l as [|x l IH]; cbn [isort fold_right]; [reflexivity|]. fold (isort l). rewrite insert_perm, IH. reflexivity. Qed.

Lemma insert_sorted x l : StronglySorted Qle l -> StronglySorted Qle (insert x l).
Proof.
  induction 1 as [|h t Hs IH Hf]; cbn [insert].
  - constructor; constructor.
  - destruct (Qle_bool x h) eqn:E.
    + apply Qle_bool_iff in E. constructor; [constructor; assumption|].
      constructor; [assumption|]. eapply Forall_impl; [|exact Hf]. intros z Hz. cbv beta in Hz. lra.
    + assert (Hlt : h <= x).
      { apply Qlt_le_weak, Qnot_le_lt. intro L. apply Qle_bool_iff in L. congruence. }
      constructor; [assumption|].
      apply Forall_forall. intros z Hz. apply (Permutation_in _ (insert_perm x t)) in Hz.
      destruct Hz as [<-|Hz]; [assumption|]. rewrite Forall_forall in Hf. apply Hf. assumption.
Qed.
Lemma isort_sorted l : StronglySorted Qle (isort l).
Proof. induction l as [|x l IH]; cbn [isort fold_right]; [constructor|]. apply insert_sorted. assumption. Qed.

Lemma sorted_nth : forall l, StronglySorted Qle l -> forall i j, (i <= j < length l)%nat -> getQ l i <= getQ l j.
Proof.
  induction 1 as [|h t Hs IH Hf]; intros i j Hij; cbn [length] in Hij; [lia|].
  destruct i as [|i], j as [|j]; unfold getQ; cbn [nth]; try lia.
  - lra.
  - rewrite Forall_forall in Hf. apply Hf, nth_In. lia.
  - apply IH. lia.
Qed.

(* ------------------------------------------------------------------ D on a sorted list *)
Lemma sum_list_add {A} (f g : A -> Q) l :
  sum_list (map (fun x => f x + g x) l) == sum_list (map f l) + sum_list (map g l).
Proof. induction l as [|x l IH]; cbn [map sum_list]; [ring|]. rewrite IH. ring. Qed.
Lemma sum_sub_const x l : sum_list (map (fun y => y - x) l) == sum_list l - natQ (length l) * x.
Proof.
  induction l as [|y l IH]; cbn [map sum_list length]; [unfold natQ; cbn; ring|].
  rewrite IH, natQ_S. ring.
Qed.

Lemma D_cons_sorted x l : Forall (fun y => x <= y) l ->
  D (x :: l) == D l + 2 * (sum_list l - natQ (length l) * x).
Proof.
  intro Hf. rewrite Forall_forall in Hf. unfold D. cbn [map sum_list].
  setoid_replace (Qabs (x - x)) with 0 by (setoid_replace (x - x) with 0 by ring; reflexivity).
  rewrite (sum_list_ext (fun yj => Qabs (x - yj)) (fun yj => yj - x)).
  2:{ intros z Hz. pose proof (Hf z Hz). rewrite Qabs_neg by lra. ring. }
  rewrite (sum_list_ext (fun yi => Qabs (yi - x) + sum_list (map (fun yj => Qabs (yi - yj)) l))
                        (fun yi => (yi - x) + sum_list (map (fun yj => Qabs (yi - yj)) l))).
  2:{ intros z Hz. pose proof (Hf z Hz). rewrite Qabs_pos by lra. reflexivity. }
  rewrite sum_list_add, !sum_sub_const. ring.
Qed.

(* sum over consecutive pairs of prefix sums: A_from acc [x1..xn] = sum_i (s_{i-1} + s_i), s_0 = acc *)
Fixpoint A_from (acc : Q) (l : list Q) : Q :=
  match l with [] => 0 | x :: r => (acc + (acc + x)) + A_from (acc + x) r end.

Lemma A_from_proper l : forall a a', a == a' -> A_from a l == A_from a' l.
Proof.
  induction l as [|x l IH]; intros a a' E; cbn [A_from]; [reflexivity|].
  rewrite (IH (a + x) (a' + x)) by (rewrite E; reflexivity). rewrite E. reflexivity.
Qed.
Lemma A_shift l : forall acc, A_from acc l == A_from 0 l + 2 * natQ (length l) * acc.
Proof.
  induction l as [|x l IH]; intro acc; cbn [A_from length]; [unfold natQ; cbn; ring|].
  rewrite (IH (acc + x)), (IH (0 + x)), natQ_S. ring.
Qed.

Lemma D_sorted l : StronglySorted Qle l ->
  D l == 2 * natQ (length l) * sum_list l - 2 * A_from 0 l.
Proof.
  induction 1 as [|x l Hs IH Hf].
  - unfold D. cbn. ring.
  - rewrite (D_cons_sorted x l Hf), IH. cbn [length sum_list A_from].
    rewrite (A_shift l (0 + x)), natQ_S. ring.
Qed.

(* ------------------------------------------------------------------ prefix sums *)
Lemma cumsum_length : forall l acc, length (cumsum_from acc l) = length l.
Proof. induction l as [|x l IH]; intro acc; cbn; [reflexivity|]. rewrite IH. reflexivity. Qed.

Lemma cumsum_nth : forall l acc i, (i < length l)%nat ->
  getQ (cumsum_from acc l) i == acc + sum_list (firstn (S i) l).
Proof.
  induction l as [|x l IH]; intros acc i Hi; cbn [length] in Hi; [lia|].
  cbn [cumsum_from]. destruct i as [|i]; unfold getQ; cbn [nth firstn sum_list].
  - rewrite Qred_correct. ring.
  - fold (getQ (cumsum_from (Qred (acc + x)) l) i). rewrite IH by lia. rewrite Qred_correct.
    cbn [firstn sum_list]. ring.
Qed.

Lemma lorenz_s_nth y i : (i <= length y)%nat ->
  getQ (lorenz_s y) i == sum_list (firstn i (isort y)).
Proof.
  intro Hi. unfold lorenz_s. destruct i as [|i]; [reflexivity|].
  unfold getQ. cbn [nth]. fold (getQ (cumsum_from 0 (isort y)) i).
  rewrite cumsum_nth by (rewrite (Permutation_length (isort_perm y)); lia). ring.
Qed.

Lemma sum_firstn_S (l : list Q) : forall i, (i < length l)%nat ->
  sum_list (firstn (S i) l) == sum_list (firstn i l) + getQ l i.
Proof.
  induction l as [|x l IH]; intros i Hi; cbn [length] in Hi; [lia|].
  destruct i as [|i]; unfold getQ; cbn [firstn sum_list nth]; [ring|].
  fold (getQ l i). rewrite (IH i) by lia. cbn [firstn]. ring.
Qed.

Lemma lorenz_sn y : getQ (lorenz_s y) (length y) == sum_list y.
Proof.
  rewrite lorenz_s_nth by lia. rewrite <- (Permutation_length (isort_perm y)), firstn_all.
  apply sum_list_perm, isort_perm.
Qed.

(* ------------------------------------------------------------------ trapezoid area under the Lorenz curve *)
Lemma trapz_step x0 x1 xr y0 y1 yr :
  trapz (x0 :: x1 :: xr) (y0 :: y1 :: yr) = (x1 - x0) * (y0 + y1) / 2 + trapz (x1 :: xr) (y1 :: yr).
Proof. reflexivity. Qed.

Lemma trapz_lorenz N sn : ~ N == 0 -> ~ sn == 0 -> forall l k acc,
  trapz (map (fun i => Qred (natQ i / N)) (seq k (S (length l))))
        (map (fun si => Qred (si / sn)) (acc :: cumsum_from acc l))
  == A_from acc l / (2 * N * sn).
Proof.
  intros HN Hsn. induction l as [|x l IH]; intros k acc.
  - cbn. field. split; assumption.
  - cbn [length seq map cumsum_from]. rewrite trapz_step.
    change (Qred (natQ (S k) / N) :: map (fun i => Qred (natQ i / N)) (seq (S (S k)) (length l)))
      with (map (fun i => Qred (natQ i / N)) (seq (S k) (S (length l)))).
    change (Qred (Qred (acc + x) / sn) :: map (fun si => Qred (si / sn)) (cumsum_from (Qred (acc + x)) l))
      with (map (fun si => Qred (si / sn)) (Qred (acc + x) :: cumsum_from (Qred (acc + x)) l)).
    rewrite IH. cbn [A_from]. rewrite (A_from_proper l (Qred (acc + x)) (acc + x)) by apply Qred_correct.
    rewrite !Qred_correct, natQ_S. field. split; assumption.
Qed.

Lemma gini_lorenz y : (0 < length y)%nat -> ~ sum_list y == 0 ->
  gini y == 1 - 2 * trapz (fst (lorenz y)) (snd (lorenz y)).
Proof.
  intros Hn Hs. unfold lorenz. cbn [fst snd].
  pose proof (natQ_neq0 _ Hn) as HN. pose proof (lorenz_sn y) as Esn.
  set (sn := getQ (lorenz_s y) (length y)) in *.
  assert (Hsn : ~ sn == 0) by (rewrite Esn; assumption).
  unfold lorenz_s at 1.
  replace (seq 0 (S (length y))) with (seq 0 (S (length (isort y)))) by (rewrite (Permutation_length (isort_perm y)); reflexivity).
  rewrite (trapz_lorenz (natQ (length y)) sn HN Hsn (isort y) 0 0).
  rewrite (gini_perm y (isort y)) by (symmetry; apply isort_perm).
  rewrite gini_eq, (D_sorted _ (isort_sorted y)).
  rewrite (Permutation_length (isort_perm y)), (sum_list_perm _ _ (isort_perm y)), Esn.
  field. split; assumption.
Qed.

(* ------------------------------------------------------------------ shape of the Lorenz curve *)
Lemma lorenz_lengths y : length (fst (lorenz y)) = S (length y) /\ length (snd (lorenz y)) = S (length y).
Proof.
  unfold lorenz. cbn [fst snd]. rewrite !map_length, seq_length. unfold lorenz_s. cbn [length].
  rewrite cumsum_length, (Permutation_length (isort_perm y)). split; reflexivity.
Qed.

Lemma lorenz_people_nth y i : (i <= length y)%nat ->
  getQ (fst (lorenz y)) i == natQ i / natQ (length y).
Proof.
  intro Hi. unfold lorenz. cbn [fst]. unfold getQ. rewrite nth_map_seq by lia. cbn [plus]. apply Qred_correct.
Qed.
Lemma lorenz_income_nth y i : (i <= length y)%nat ->
  getQ (snd (lorenz y)) i == sum_list (firstn i (isort y)) / sum_list y.
Proof.
  intro Hi. unfold lorenz. cbn [snd]. unfold getQ.
  rewrite (nth_map_gen _ _ i 0) by (unfold lorenz_s; cbn [length]; rewrite cumsum_length, (Permutation_length (isort_perm y)); lia).
  fold (getQ (lorenz_s y) i). fold (getQ (lorenz_s y) (length y)).
  rewrite Qred_correct, lorenz_s_nth, lorenz_sn by assumption. reflexivity.
Qed.

Lemma isort_nonneg y : Forall (fun v => 0 <= v) y -> forall i, 0 <= getQ (isort y) i.
Proof.
  intros H i. unfold getQ. destruct (Nat.lt_ge_cases i (length (isort y))) as [L|L].
  - rewrite Forall_forall in H. apply H. apply (Permutation_in _ (isort_perm y)). apply nth_In. assumption.
  - rewrite nth_overflow by assumption. lra.
Qed.

Lemma lorenz_shape y : (0 < length y)%nat -> Forall (fun v => 0 <= v) y -> 0 < sum_list y ->
  let n := length y in
  let cp := fst (lorenz y) in let ci := snd (lorenz y) in
  length cp = S n /\ length ci = S n /\
  getQ cp 0 == 0 /\ getQ ci 0 == 0 /\ getQ cp n == 1 /\ getQ ci n == 1 /\
  (forall i, (i < n)%nat -> getQ cp i <= getQ cp (S i) /\ getQ ci i <= getQ ci (S i)) /\
  (forall i, (S i < n)%nat -> getQ ci (S i) - getQ ci i <= getQ ci (S (S i)) - getQ ci (S i)).
Proof.
  intros Hn Hnn Hs. cbv zeta. pose proof (natQ_pos _ Hn) as HN.
  destruct (lorenz_lengths y) as [L1 L2]. split; [exact L1|]. split; [exact L2|].
  assert (Li : length (isort y) = length y) by apply (Permutation_length (isort_perm y)).
  assert (Hinc : forall i, (i < length y)%nat ->
            getQ (snd (lorenz y)) (S i) - getQ (snd (lorenz y)) i == getQ (isort y) i / sum_list y).
  { intros i Hi. rewrite !lorenz_income_nth by lia. rewrite sum_firstn_S by lia. field. lra. }
  split; [rewrite lorenz_people_nth by lia; change (natQ 0) with 0; field; lra|].
  split; [rewrite lorenz_income_nth by lia; cbn [firstn sum_list]; field; lra|].
  split; [rewrite lorenz_people_nth by lia; field; lra|].
  split; [rewrite lorenz_income_nth by lia; rewrite <- Li, firstn_all, (sum_list_perm _ _ (isort_perm y)); field; lra|].
  split.
  - intros i Hi. split.
    + rewrite !lorenz_people_nth by lia. rewrite natQ_S.
      apply Qmult_le_compat_r; [lra|]. apply Qlt_le_weak, Qinv_lt_0_compat. assumption.
    + pose proof (Hinc i Hi) as E. pose proof (isort_nonneg y Hnn i) as P.
      assert (0 <= getQ (isort y) i / sum_list y) by (apply Qle_shift_div_l; lra). lra.
  - intros i Hi. rewrite (Hinc i), (Hinc (S i)) by lia.
    apply Qmult_le_compat_r.
    + apply sorted_nth; [apply isort_sorted|lia].
    + apply Qlt_le_weak, Qinv_lt_0_compat. assumption.
Qed.
